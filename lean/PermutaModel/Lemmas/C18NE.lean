import PermutaModel.Lemmas.C18Replace
import PermutaModel.Lemmas.C18Basic

/-! The north-east shading lemma for the model's `neCondB`. -/

namespace Spec.C18
open Model.C18

theorem argmax_exists (f : Nat → Nat) : ∀ (l : List Nat), l ≠ [] → ∃ m ∈ l, ∀ z ∈ l, f z ≤ f m
  | [], h => absurd rfl h
  | [a], _ => ⟨a, by simp, by simp⟩
  | a :: b :: t, _ => by
    obtain ⟨m, hm, hmax⟩ := argmax_exists f (b :: t) (by simp)
    by_cases h : f m ≤ f a
    · refine ⟨a, by simp, ?_⟩
      intro z hz
      rcases List.mem_cons.mp hz with rfl | hz
      · exact Nat.le_refl _
      · exact Nat.le_trans (hmax z hz) h
    · refine ⟨m, List.mem_cons_of_mem _ hm, ?_⟩
      intro z hz
      rcases List.mem_cons.mp hz with rfl | hz
      · omega
      · exact hmax z hz

/-- the six conditions of `north_east_shading_lemma_conditions`, as propositions -/
structure NECond (μ : Mesh) (x y : Nat) : Prop where
  hx : 1 ≤ x
  hy : 1 ≤ y
  hpt : μ.pattern.getD (x - 1) 0 + 1 = y
  c1 : (x, y) ∉ μ.shading
  c3 : (x - 1, y - 1) ∉ μ.shading
  c4 : ¬ ((x, y - 1) ∈ μ.shading ∧ (x - 1, y) ∈ μ.shading)
  c5 : ∀ a, a ≤ μ.pattern.length → a ≠ x - 1 → a ≠ x → (a, y - 1) ∈ μ.shading → (a, y) ∈ μ.shading
  c6 : ∀ b, b ≤ μ.pattern.length → b ≠ y - 1 → b ≠ y → (x - 1, b) ∈ μ.shading → (x, b) ∈ μ.shading

theorem neCondB_iff (μ : Mesh) (x y : Nat) : neCondB μ (x, y) = true ↔ NECond μ x y := by
  unfold neCondB neRowOk neColOk mlen
  simp only [Bool.and_eq_true, decide_eq_true_eq, Bool.not_eq_eq_eq_not, Bool.not_true,
    List.all_eq_true, List.mem_range, Bool.or_eq_true, beq_iff_eq,
    List.contains_iff_mem, ← Bool.not_eq_true]
  constructor
  · rintro ⟨⟨⟨⟨⟨⟨⟨h1, h2⟩, h3⟩, h4⟩, h5⟩, h6⟩, h7⟩, h8⟩
    refine ⟨h1, h2, h3, h4, h5, h6, ?_, ?_⟩
    · intro a ha hne1 hne2 hm
      rcases h7 a (by omega) with ((h | h) | h) | h
      · omega
      · omega
      · exact absurd hm h
      · exact h
    · intro b hb hne1 hne2 hm
      rcases h8 b (by omega) with ((h | h) | h) | h
      · omega
      · omega
      · exact absurd hm h
      · exact h
  · rintro ⟨h1, h2, h3, h4, h5, h6, h7, h8⟩
    refine ⟨⟨⟨⟨⟨⟨⟨h1, h2⟩, h3⟩, h4⟩, h5⟩, h6⟩, ?_⟩, ?_⟩
    · intro a ha
      by_cases e1 : a + 1 = x
      · exact Or.inl (Or.inl (Or.inl e1))
      by_cases e2 : a = x
      · exact Or.inl (Or.inl (Or.inr e2))
      by_cases hm : (a, y - 1) ∈ μ.shading
      · exact Or.inr (h7 a (by omega) (by omega) e2 hm)
      · exact Or.inl (Or.inr hm)
    · intro b hb
      by_cases e1 : b + 1 = y
      · exact Or.inl (Or.inl (Or.inl e1))
      by_cases e2 : b = y
      · exact Or.inl (Or.inl (Or.inr e2))
      by_cases hm : (x - 1, b) ∈ μ.shading
      · exact Or.inr (h8 b (by omega) (by omega) e2 hm)
      · exact Or.inl (Or.inr hm)

/-- shading more cells can only destroy occurrences -/
theorem MeshOcc.of_shade {μ : Mesh} {ps : List Cell} {σ : NSeq} {c : List Nat}
    (h : MeshOcc (shade μ ps) σ c) : MeshOcc μ σ c :=
  ⟨h.occ, fun i hi hic hm => h.free i hi hic (mem_union.mpr (Or.inl hm))⟩

/-- one direction of the lemma: an occurrence of `μ` yields an occurrence avoiding cell `(x,y)` too -/
theorem ne_step {μ : Mesh} {x y : Nat} (hN : NECond μ x y) (hxn : x ≤ μ.pattern.length)
    (hπ : IsPerm μ.pattern) {σ : NSeq} (hσ : σ.Nodup) {c : List Nat} (hc : MeshOcc μ σ c) :
    ∃ c', MeshOcc (shade μ [(x, y)]) σ c' := by
  -- the points of `σ` in cell `(x,y)`
  let S := (List.range σ.length).filter fun i => decide (i ∉ c ∧ cellOf σ c i = (x, y))
  have hS : ∀ i, i ∈ S ↔ i < σ.length ∧ i ∉ c ∧ cellOf σ c i = (x, y) := by
    intro i; simp [S]
  by_cases hemp : S = []
  · refine ⟨c, hc.occ, ?_⟩
    intro i hi hic hm
    rcases mem_union.mp hm with hm | hm
    · exact hc.free i hi hic hm
    · have : i ∈ S := (hS i).mpr ⟨hi, hic, by simpa using hm⟩
      rw [hemp] at this; simp at this
  · -- choose the extremal point according to which neighbour cell is unshaded
    have key : ∀ q, q ∈ S →
        (∀ i, i ∈ S → i ≠ q →
          (i < q ∨ σ.getD i 0 < σ.getD q 0) ∧ (q < i → (x, y - 1) ∉ μ.shading) ∧
          (σ.getD q 0 < σ.getD i 0 → (x - 1, y) ∉ μ.shading)) →
        ∃ c', MeshOcc (shade μ [(x, y)]) σ c' := by
      intro q hq hext
      obtain ⟨hqσ, hqc, hqcell⟩ := (hS q).mp hq
      rw [cellOf_eq] at hqcell
      have H : Corner μ.pattern σ c x y q :=
        ⟨hπ, hσ, hc.occ, hN.hx, hxn, hN.hpt, hqσ, hqc, (Prod.mk.inj hqcell).1, (Prod.mk.inj hqcell).2⟩
      refine ⟨c.set (x - 1) q, H.occ', ?_⟩
      intro i hi hic hm
      have := H.free' μ.shading hc.free hN.c3 hN.c5 hN.c6
        (fun j hj hjc hjq hjcell => hext j ((hS j).mpr ⟨hj, hjc, hjcell⟩) hjq) i hi hic
      rcases mem_union.mp hm with hm | hm
      · exact this.1 hm
      · exact this.2 (by simpa using hm)
    by_cases hse : (x, y - 1) ∈ μ.shading
    · -- the cell below is shaded, so the cell to the left is not: take the rightmost point
      have hnw : (x - 1, y) ∉ μ.shading := fun h => hN.c4 ⟨hse, h⟩
      obtain ⟨q, hq, hmax⟩ := argmax_exists (fun i => i) S hemp
      refine key q hq ?_
      intro i hi hiq
      have : i ≤ q := hmax i hi
      exact ⟨Or.inl (by omega), fun h => by omega, fun _ => hnw⟩
    · -- take the topmost point
      obtain ⟨q, hq, hmax⟩ := argmax_exists (fun i => σ.getD i 0) S hemp
      refine key q hq ?_
      intro i hi hiq
      have h1 : σ.getD i 0 ≤ σ.getD q 0 := hmax i hi
      have hne : σ.getD i 0 ≠ σ.getD q 0 := fun h =>
        hiq (nodup_getD_inj hσ ((hS i).mp hi).1 ((hS q).mp hq).1 h)
      exact ⟨Or.inr (by omega), fun _ => hse, fun h => by omega⟩

end Spec.C18
