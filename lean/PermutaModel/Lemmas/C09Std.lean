import PermutaModel.Model.C09
import PermutaModel.Spec.C09
import PermutaModel.Lemmas.C09Rank
import Mathlib.Data.List.Perm.Basic
import Mathlib.Data.List.Perm.Subperm

/-! Helper lemmas for C09: the stable sort of `enumerate`, and `to_standard`. -/
open List

namespace C09

/-- the strict order "smaller value, or equal value and further left" on `(value, index)` pairs -/
def PLt (a b : Nat × Nat) : Prop := a.1 < b.1 ∨ (a.1 = b.1 ∧ a.2 < b.2)

instance (a b : Nat × Nat) : Decidable (PLt a b) := by unfold PLt; infer_instance

theorem PLt.irrefl (a : Nat × Nat) : ¬ PLt a a := by unfold PLt; omega
theorem PLt.asymm {a b : Nat × Nat} (h : PLt a b) : ¬ PLt b a := by unfold PLt at *; omega

theorem insertByKey_perm (x : Nat × Nat) (t : List (Nat × Nat)) : Model.insertByKey x t ~ x :: t := by
  induction t with
  | nil => simp [Model.insertByKey]
  | cons y t ih =>
    rw [Model.insertByKey]
    split
    · exact Perm.refl _
    · exact (Perm.cons y ih).trans (Perm.swap x y t)

theorem stableSort_perm (l : List (Nat × Nat)) : Model.stableSortByKey l ~ l := by
  induction l with
  | nil => simp [Model.stableSortByKey]
  | cons x t ih => rw [Model.stableSortByKey]; exact (insertByKey_perm x _).trans (Perm.cons x ih)

theorem insertByKey_sorted (x : Nat × Nat) (t : List (Nat × Nat)) (ht : t.Pairwise PLt)
    (hx : ∀ y ∈ t, x.2 < y.2) : (Model.insertByKey x t).Pairwise PLt := by
  induction t with
  | nil => simp [Model.insertByKey]
  | cons y t ih =>
    rw [pairwise_cons] at ht
    rw [Model.insertByKey]
    split
    · rename_i hle
      refine pairwise_cons.mpr ⟨?_, pairwise_cons.mpr ht⟩
      intro z hz
      have hxy := hx y (by simp)
      rcases mem_cons.mp hz with rfl | hz
      · unfold PLt; omega
      · have := ht.1 z hz
        have := hx z (by simp [hz])
        unfold PLt at *; omega
    · rename_i hle
      refine pairwise_cons.mpr ⟨?_, ih ht.2 (fun z hz => hx z (by simp [hz]))⟩
      intro w hw
      rcases mem_cons.mp ((insertByKey_perm x t).mem_iff.mp hw) with rfl | hw
      · unfold PLt; omega
      · exact ht.1 w hw

/-- stable sort of `enumerate` = sort by `(value, index)` -/
theorem stableSort_zipIdx_sorted : ∀ (l : List Nat) (k : Nat), (Model.stableSortByKey (l.zipIdx k)).Pairwise PLt := by
  intro l
  induction l with
  | nil => intro k; simp [Model.stableSortByKey]
  | cons a t ih =>
    intro k
    rw [zipIdx_cons, Model.stableSortByKey]
    apply insertByKey_sorted _ _ (ih (k + 1))
    intro y hy
    have hy' := (stableSort_perm _).mem_iff.mp hy
    obtain ⟨v, i⟩ := y
    have := mem_zipIdx hy'
    simp; omega

/-- in a list sorted by a strict order, the number of elements below the `q`-th one is `q` -/
theorem countP_plt_getElem : ∀ (S : List (Nat × Nat)), S.Pairwise PLt → ∀ (q : Nat) (hq : q < S.length),
    S.countP (fun w => decide (PLt w S[q])) = q := by
  intro S
  induction S with
  | nil => intro _ q hq; simp at hq
  | cons a t ih =>
    intro hs q hq
    rw [pairwise_cons] at hs
    cases q with
    | zero =>
      simp only [getElem_cons_zero, countP_cons]
      rw [countP_eq_zero.mpr]
      · simp [PLt.irrefl]
      · intro x hx; simpa using (hs.1 x hx).asymm
    | succ q =>
      have hq' : q < t.length := by simpa using hq
      simp only [getElem_cons_succ, countP_cons]
      rw [ih hs.2 q hq']
      simp [hs.1 _ (getElem_mem hq')]

section pos
variable (l : List Nat)

/-- the sorted list of `(value, index)` pairs -/
abbrev sortedPairs : List (Nat × Nat) := Model.stableSortByKey l.zipIdx

theorem length_sortedPairs : (sortedPairs l).length = l.length := by
  rw [(stableSort_perm _).length_eq, length_zipIdx]

theorem sortedIdx_perm : (sortedPairs l).map (·.2) ~ List.range l.length := by
  have := (stableSort_perm l.zipIdx).map (·.2)
  rw [show (fun x : Nat × Nat => x.2) = Prod.snd from rfl, zipIdx_map_snd, ← range_eq_range'] at this
  exact this

/-- `to_standard(l)[i]`: the position of index `i` in the sorted list -/
def pos (i : Nat) : Nat := ((sortedPairs l).map (·.2)).idxOf i

theorem toStandard_eq_map_pos : Model.toStandard l = (List.range l.length).map (pos l) := by
  simp [Model.toStandard, Model.inverse, pos, length_sortedPairs]

theorem pos_lt {i : Nat} (hi : i < l.length) : pos l i < l.length := by
  have hmem : i ∈ (sortedPairs l).map (·.2) := (sortedIdx_perm l).mem_iff.mpr (mem_range.mpr hi)
  have := idxOf_lt_length_iff.mpr hmem
  rw [length_map, length_sortedPairs] at this
  exact this

theorem sorted_get_pos {i : Nat} (hi : i < l.length) :
    (sortedPairs l)[pos l i]'(by rw [length_sortedPairs]; exact pos_lt l hi) = (l[i], i) := by
  have hmem : i ∈ (sortedPairs l).map (·.2) := (sortedIdx_perm l).mem_iff.mpr (mem_range.mpr hi)
  have hlt := idxOf_lt_length_iff.mpr hmem
  have h2 : ((sortedPairs l).map (·.2))[pos l i]'hlt = i := getElem_idxOf hlt
  have h2' : ((sortedPairs l)[pos l i]'(by rw [length_sortedPairs]; exact pos_lt l hi)).2 = i := by
    have := List.getElem_map (fun x : Nat × Nat => x.2) (l := sortedPairs l) (i := pos l i) (h := hlt)
    exact this.symm.trans h2
  clear h2
  have hin : (sortedPairs l)[pos l i]'(by rw [length_sortedPairs]; exact pos_lt l hi) ∈ l.zipIdx :=
    (stableSort_perm _).mem_iff.mp (getElem_mem _)
  generalize (sortedPairs l)[pos l i]'(by rw [length_sortedPairs]; exact pos_lt l hi) = e at h2' hin
  obtain ⟨v, k⟩ := e
  have := mem_zipIdx hin
  simp only at h2'
  subst h2'
  simp [this.2.2]

theorem pos_lt_pos_iff {i j : Nat} (hi : i < l.length) (hj : j < l.length) :
    pos l i < pos l j ↔ PLt (l[i], i) (l[j], j) := by
  have hs := stableSort_zipIdx_sorted l 0
  rw [pairwise_iff_getElem] at hs
  have hli := length_sortedPairs l
  constructor
  · intro h
    have := hs _ _ (by rw [hli]; exact pos_lt l hi) (by rw [hli]; exact pos_lt l hj) h
    rwa [sorted_get_pos l hi, sorted_get_pos l hj] at this
  · intro h
    by_contra hcon
    rcases Nat.lt_or_eq_of_le (Nat.le_of_not_lt hcon) with h' | h'
    · have := hs _ _ (by rw [hli]; exact pos_lt l hj) (by rw [hli]; exact pos_lt l hi) h'
      rw [sorted_get_pos l hi, sorted_get_pos l hj] at this
      exact h.asymm this
    · have e1 := sorted_get_pos l hi
      have e2 := sorted_get_pos l hj
      simp only [← h'] at e1
      rw [e1] at e2
      have : i = j := (Prod.mk.inj e2).2
      subst this
      exact PLt.irrefl _ h

theorem pos_inj {i j : Nat} (hi : i < l.length) (hj : j < l.length) (h : pos l i = pos l j) : i = j := by
  have e1 := sorted_get_pos l hi
  have e2 := sorted_get_pos l hj
  simp only [h] at e1
  rw [e1] at e2
  exact (Prod.mk.inj e2).2

theorem pos_eq_countP {i : Nat} (hi : i < l.length) :
    pos l i = l.zipIdx.countP (fun w => decide (PLt w (l[i], i))) := by
  have := countP_plt_getElem (sortedPairs l) (stableSort_zipIdx_sorted l 0) (pos l i)
    (by rw [length_sortedPairs]; exact pos_lt l hi)
  rw [sorted_get_pos l hi] at this
  rw [← this]
  exact (stableSort_perm _).countP_eq _

end pos

theorem getD_toStandard (l : List Nat) {i : Nat} (hi : i < l.length) : (Model.toStandard l).getD i 0 = pos l i := by
  rw [toStandard_eq_map_pos]
  simp [List.getD_eq_getElem?_getD, hi]

theorem length_toStandard (l : List Nat) : (Model.toStandard l).length = l.length := by
  rw [toStandard_eq_map_pos]; simp

theorem isPerm_toStandard (l : List Nat) : IsPerm (Model.toStandard l) := by
  constructor
  · rw [toStandard_eq_map_pos]
    apply Nodup.map_on _ nodup_range
    intro x hx y hy h
    exact pos_inj l (mem_range.mp hx) (mem_range.mp hy) h
  · intro x hx
    rw [length_toStandard]
    rw [toStandard_eq_map_pos] at hx
    obtain ⟨i, hi, rfl⟩ := mem_map.mp hx
    exact pos_lt l (mem_range.mp hi)

theorem stdIso_toStandard (l : List Nat) : Spec.StdIso l (Model.toStandard l) := by
  refine ⟨length_toStandard l, ?_⟩
  intro i j hi hj
  rw [getD_toStandard l hi, getD_toStandard l hj, pos_lt_pos_iff l hi hj]
  simp [PLt, List.getD_eq_getElem?_getD, hi, hj]

/-! ### uniqueness -/

theorem isPerm_perm_range {p : NSeq} (h : IsPerm p) : p ~ List.range p.length := by
  apply (subperm_of_subset h.1 ?_).perm_of_length_le (by simp)
  intro x hx; exact mem_range.mpr (h.2 x hx)

/-- in a permutation, an entry equals the number of entries smaller than it -/
theorem isPerm_value_eq_count {p : NSeq} (h : IsPerm p) {i : Nat} (hi : i < p.length) :
    p.getD i 0 = ((List.range p.length).filter fun j => p.getD j 0 < p.getD i 0).length := by
  have hv : p.getD i 0 < p.length := h.2 _ (by simp [List.getD_eq_getElem?_getD, hi])
  have h1 : p.countP (· < p.getD i 0) = p.getD i 0 := by
    rw [(isPerm_perm_range h).countP_eq]
    have := countP_lt_getElem (List.range p.length) pairwise_lt_range (p.getD i 0) (by simpa using hv)
    simpa using this
  have h2 : p = (List.range p.length).map (fun j => p.getD j 0) := by
    apply List.ext_getElem (by simp)
    intro k hk _
    simp [List.getD_eq_getElem?_getD, hk]
  have h3 : ∀ v, p.countP (· < v) = (List.range p.length).countP (fun j => decide (p.getD j 0 < v)) := by
    intro v
    conv_lhs => rw [h2, countP_map]
    rfl
  rw [← countP_eq_length_filter, ← h3, h1]

theorem stdIso_unique (l r r' : List Nat) (hr : IsPerm r) (hr' : IsPerm r') (h : Spec.StdIso l r)
    (h' : Spec.StdIso l r') : r = r' := by
  apply List.ext_getElem (by rw [h.1, h'.1])
  intro i hi hi'
  have e := isPerm_value_eq_count hr hi
  have e' := isPerm_value_eq_count hr' hi'
  have hil : i < l.length := by rw [← h.1]; exact hi
  have : ((List.range r.length).filter fun j => r.getD j 0 < r.getD i 0) =
      ((List.range r'.length).filter fun j => r'.getD j 0 < r'.getD i 0) := by
    rw [h.1, h'.1]
    apply filter_congr
    intro j hj
    have hjl := mem_range.mp hj
    have a := h.2 j i hjl hil
    have b := h'.2 j i hjl hil
    simp only [decide_eq_decide]
    exact a.symm.trans b
  rw [this, ← e'] at e
  simpa [List.getD_eq_getElem?_getD, hi, hi'] using e

theorem stdIso_self {p : NSeq} (h : IsPerm p) : Spec.StdIso p p := by
  refine ⟨rfl, ?_⟩
  intro i j hi hj
  constructor
  · rintro (h1 | ⟨h1, h2⟩)
    · exact h1
    · simp only [List.getD_eq_getElem?_getD, hi, hj, getElem?_eq_getElem, Option.getD_some] at h1
      have := (h.1.getElem_inj_iff).mp h1
      omega
  · intro h1; exact Or.inl h1

/-! ### the shared rank-count form -/

theorem toStandard_eq_standardize_aux (l : List Nat) : Model.toStandard l = Model.standardize l := by
  apply List.ext_getElem (by simp [length_toStandard, Model.standardize])
  intro i hi _
  have hil : i < l.length := by rwa [length_toStandard] at hi
  have h1 : (Model.toStandard l)[i] = pos l i := by
    have := getD_toStandard l hil
    simpa [List.getD_eq_getElem?_getD, hi] using this
  rw [h1, pos_eq_countP l hil]
  simp only [Model.standardize, getElem_map, getElem_zipIdx, Nat.zero_add]
  rw [countP_eq_length_filter]
  congr 1
  apply filter_congr
  intro w _
  rw [Bool.eq_iff_iff, decide_eq_true_iff]
  simp [PLt]

/-! ### the memo -/

/-- every cached entry is the value a fresh computation would give -/
def CacheOK (c : Model.StdCache) : Prop := ∀ e ∈ c, e.2 = Model.toStandard e.1

theorem lookup_mem {k : List Nat} {v : NSeq} : ∀ {c : Model.StdCache}, c.lookup k = some v → (k, v) ∈ c := by
  intro c
  induction c with
  | nil => simp
  | cons e t ih =>
    obtain ⟨a, b⟩ := e
    rw [lookup_cons]
    split
    · rename_i heq
      intro h
      have : k = a := by simpa using heq
      subst this
      simp at h; simp [h]
    · intro h; exact mem_cons_of_mem _ (ih h)

theorem cacheOK_nil : CacheOK [] := by intro e he; cases he

end C09
