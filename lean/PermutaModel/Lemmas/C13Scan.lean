import PermutaModel.Model.C13
import PermutaModel.Spec.C13
import Mathlib.Data.List.Basic
import Mathlib.Data.List.Nodup
import Mathlib.Order.Basic
import Mathlib.Data.Nat.Find

/-! C13 helper lemmas, part 1: monotone scans and the four `_is_*_next_*` tests against the
    juxtaposition classes. -/
open Model.C13 Spec.C13

namespace C13

/-- good step of a monotone-`up` list at position `i` -/
def goodStep (up : Bool) (p : List Nat) (i : Nat) : Prop :=
  if up then p.getD i 0 < p.getD (i + 1) 0 else p.getD i 0 > p.getD (i + 1) 0

theorem isIncr_iff : ∀ l : List Nat, isIncr l = true ↔ l.Pairwise (· < ·)
  | [] => by simp [isIncr]
  | [a] => by simp [isIncr]
  | a :: b :: t => by
    rw [isIncr, Bool.and_eq_true, isIncr_iff (b :: t), decide_eq_true_iff]
    constructor
    · rintro ⟨hab, h⟩
      refine List.pairwise_cons.mpr ⟨?_, h⟩
      intro x hx
      rcases List.mem_cons.mp hx with rfl | hx
      · exact hab
      · exact lt_trans hab ((List.pairwise_cons.mp h).1 x hx)
    · intro h
      have h' := List.pairwise_cons.mp h
      exact ⟨h'.1 b (List.mem_cons_self ..), h'.2⟩

theorem isDecr_iff : ∀ l : List Nat, isDecr l = true ↔ l.Pairwise (· > ·)
  | [] => by simp [isDecr]
  | [a] => by simp [isDecr]
  | a :: b :: t => by
    rw [isDecr, Bool.and_eq_true, isDecr_iff (b :: t), decide_eq_true_iff]
    constructor
    · rintro ⟨hab, h⟩
      refine List.pairwise_cons.mpr ⟨?_, h⟩
      intro x hx
      rcases List.mem_cons.mp hx with rfl | hx
      · exact hab
      · exact lt_trans ((List.pairwise_cons.mp h).1 x hx) hab
    · intro h
      have h' := List.pairwise_cons.mp h
      exact ⟨h'.1 b (List.mem_cons_self ..), h'.2⟩

theorem isIncr_steps : ∀ l : List Nat, isIncr l = true ↔ ∀ i, i + 1 < l.length → l.getD i 0 < l.getD (i + 1) 0
  | [] => by simp [isIncr]
  | [a] => by simp [isIncr]
  | a :: b :: t => by
    rw [isIncr, Bool.and_eq_true, isIncr_steps (b :: t), decide_eq_true_iff]
    constructor
    · rintro ⟨hab, h⟩ i hi
      cases i with
      | zero => simpa using hab
      | succ i =>
        have := h i (by simpa using hi)
        simpa using this
    · intro h
      refine ⟨by simpa using h 0 (by simp), ?_⟩
      intro i hi
      have := h (i + 1) (by simpa using hi)
      simpa using this

theorem isDecr_steps : ∀ l : List Nat, isDecr l = true ↔ ∀ i, i + 1 < l.length → l.getD i 0 > l.getD (i + 1) 0
  | [] => by simp [isDecr]
  | [a] => by simp [isDecr]
  | a :: b :: t => by
    rw [isDecr, Bool.and_eq_true, isDecr_steps (b :: t), decide_eq_true_iff]
    constructor
    · rintro ⟨hab, h⟩ i hi
      cases i with
      | zero => simpa using hab
      | succ i =>
        have := h i (by simpa using hi)
        simpa using this
    · intro h
      refine ⟨by simpa using h 0 (by simp), ?_⟩
      intro i hi
      have := h (i + 1) (by simpa using hi)
      simpa using this

/-- a monotone list is one whose consecutive steps are all good -/
theorem mono_iff_steps (up : Bool) (l : List Nat) :
    Mono up l ↔ ∀ i, i + 1 < l.length → goodStep up l i := by
  cases up
  · simp only [Mono, goodStep, Bool.false_eq_true, if_false]
    rw [← isDecr_iff, isDecr_steps]
  · simp only [Mono, goodStep, if_true]
    rw [← isIncr_iff, isIncr_steps]

theorem getD_take (p : List Nat) (k i : Nat) (h : i < k) : (p.take k).getD i 0 = p.getD i 0 := by
  simp [List.getD_eq_getElem?_getD, h]

theorem getD_drop (p : List Nat) (k i : Nat) : (p.drop k).getD i 0 = p.getD (k + i) 0 := by
  simp [List.getD_eq_getElem?_getD, List.getElem?_drop]

theorem mono_take_iff (up : Bool) (p : List Nat) (k : Nat) :
    Mono up (p.take k) ↔ ∀ i, i + 1 < min k p.length → goodStep up p i := by
  rw [mono_iff_steps]
  simp only [List.length_take]
  refine forall₂_congr fun i hi => ?_
  have h1 : i < k := by omega
  have h2 : i + 1 < k := by omega
  unfold goodStep
  rw [getD_take p k i h1, getD_take p k (i + 1) h2]

theorem mono_drop_iff (up : Bool) (p : List Nat) (k : Nat) :
    Mono up (p.drop k) ↔ ∀ i, i + 1 < p.length - k → goodStep up p (k + i) := by
  rw [mono_iff_steps]
  simp only [List.length_drop]
  refine forall₂_congr fun i _ => ?_
  unfold goodStep
  rw [getD_drop, getD_drop]
  rfl

open Classical in
/-- abstract form of the four scans: "no `V1` step strictly before a `V2` step" is "some cut has no
    `V1` before it and no `V2` from it on" -/
theorem cut_iff_no_pair (V1 V2 : Nat → Prop) (n : Nat) :
    (∃ k, (∀ i, i + 1 < min k n → ¬ V1 i) ∧ (∀ i, i + 1 < n - k → ¬ V2 (k + i))) ↔
    ¬ ∃ i j, i < j ∧ j < n - 1 ∧ V1 i ∧ V2 j := by
  constructor
  · rintro ⟨k, h1, h2⟩ ⟨i, j, hij, hj, hv1, hv2⟩
    by_cases hk : i + 1 < min k n
    · exact h1 i hk hv1
    · have hk' : k ≤ j := by omega
      have := h2 (j - k) (by omega)
      rw [show k + (j - k) = j by omega] at this
      exact this hv2
  · intro h
    by_cases hex : ∃ i, i < n - 1 ∧ V1 i
    · refine ⟨Nat.find hex + 1, ?_, ?_⟩
      · intro i hi hv
        have hlt : i < Nat.find hex := by omega
        have hspec := Nat.find_spec hex
        exact Nat.find_min hex hlt ⟨by omega, hv⟩
      · intro i hi hv
        have hspec := Nat.find_spec hex
        exact h ⟨Nat.find hex, Nat.find hex + 1 + i, by omega, by omega, hspec.2, hv⟩
    · refine ⟨n, ?_, ?_⟩
      · intro i hi hv
        exact hex ⟨i, by omega, hv⟩
      · intro i hi
        omega

theorem getD_ne_of_nodup {p : List Nat} (h : p.Nodup) {i j : Nat} (hi : i < p.length) (hj : j < p.length)
    (hij : i ≠ j) : p.getD i 0 ≠ p.getD j 0 := by
  rw [List.getD_eq_getElem?_getD, List.getD_eq_getElem?_getD, List.getElem?_eq_getElem hi,
    List.getElem?_eq_getElem hj]
  simp only [Option.getD_some]
  intro heq
  exact hij ((List.Nodup.getElem_inj_iff h).mp heq)

/-- on a duplicate-free list a step violates "monotone-`x`" exactly when the scan's test fires -/
theorem stepIs_iff_not_good {p : List Nat} (h : p.Nodup) (x : Bool) {i : Nat} (hi : i + 1 < p.length) :
    stepIs x p i = true ↔ ¬ goodStep x p i := by
  have hne := getD_ne_of_nodup h (show i < p.length by omega) hi (by omega)
  cases x
  · simp only [stepIs, goodStep, Bool.false_eq_true, if_false, decide_eq_true_iff]; omega
  · simp only [stepIs, goodStep, if_true, decide_eq_true_iff]; omega

theorem scan_iff_no_pair (f s : Bool) (p : List Nat) :
    scan f s p = true ↔ ¬ ∃ i j, i < j ∧ j < p.length - 1 ∧ stepIs f p i = true ∧ stepIs s p j = true := by
  unfold scan
  simp only [Bool.not_eq_true', ← Bool.not_eq_true, List.any_eq_true, Bool.and_eq_true, List.mem_range,
    List.mem_range'_1]
  constructor
  · rintro h ⟨i, j, hij, hj, h1, h2⟩
    exact h ⟨i, by omega, h1, j, ⟨by omega, by omega⟩, h2⟩
  · rintro h ⟨i, hi, h1, j, ⟨hj1, hj2⟩, h2⟩
    exact h ⟨i, j, by omega, by omega, h1, h2⟩

/-- **each of the four scans decides its juxtaposition class** (for duplicate-free sequences) -/
theorem scan_iff_juxt (f s : Bool) (p : List Nat) (h : p.Nodup) : scan f s p = true ↔ Juxt f s p := by
  rw [scan_iff_no_pair]
  unfold Juxt
  have key := cut_iff_no_pair (fun i => ¬ goodStep f p i) (fun j => ¬ goodStep s p j) p.length
  simp only [not_not] at key
  rw [show (∃ k, Mono f (List.take k p) ∧ Mono s (List.drop k p)) ↔
      ∃ k, (∀ i, i + 1 < min k p.length → goodStep f p i) ∧ (∀ i, i + 1 < p.length - k → goodStep s p (k + i)) from
    exists_congr fun k => by rw [mono_take_iff, mono_drop_iff]]
  rw [key]
  apply not_congr
  refine exists_congr fun i => exists_congr fun j => ?_
  constructor
  · rintro ⟨hij, hj, h1, h2⟩
    exact ⟨hij, hj, (stepIs_iff_not_good h f (by omega)).mp h1, (stepIs_iff_not_good h s (by omega)).mp h2⟩
  · rintro ⟨hij, hj, h1, h2⟩
    exact ⟨hij, hj, (stepIs_iff_not_good h f (by omega)).mpr h1, (stepIs_iff_not_good h s (by omega)).mpr h2⟩

end C13
