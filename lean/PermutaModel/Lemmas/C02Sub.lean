import PermutaModel.Lemmas.C02Proc

/-! C02 helpers, part 12: transitivity of containment, `is_subclass`, `Basis(...)` yields a valid basis. -/
open List Model Model.C02

namespace C02L

/-- an order-isomorphism transports sublists -/
theorem OIso_sublist_transport {a b t : List Nat} (h : OIso a b) (ht : t <+ a) :
    ∃ t', t' <+ b ∧ OIso t t' := by
  have ha : (a.zip b).map Prod.fst = a := List.map_fst_zip (by rw [h.1])
  have hb : (a.zip b).map Prod.snd = b := List.map_snd_zip (by rw [h.1])
  rw [← ha] at ht
  obtain ⟨z', hz', rfl⟩ := List.sublist_map_iff.mp ht
  refine ⟨z'.map Prod.snd, by rw [← hb]; exact hz'.map _, by simp, ?_⟩
  have hz : z' = (z'.map Prod.fst).zip (z'.map Prod.snd) := List.zip_of_prod rfl rfl
  rw [← hz]
  intro p hp q hq
  exact h.2 p (hz'.subset hp) q (hz'.subset hq)

/-- containment is transitive -/
theorem SContains_trans {σ τ π : List Nat} (h1 : SContains σ τ) (h2 : SContains τ π) : SContains σ π := by
  obtain ⟨s, hs, his⟩ := h1
  obtain ⟨t, ht, hit⟩ := h2
  obtain ⟨t', ht', hi'⟩ := OIso_sublist_transport his ht
  exact ⟨t', ht'.trans hs, OIso_trans hit hi'⟩

theorem SContains_refl (σ : List Nat) : SContains σ σ := ⟨σ, List.Sublist.refl _, OIso_refl _⟩

/-- **`is_subclass` decides class inclusion** (classical bases): "no basis element of the other class
    lies in this class" holds iff every permutation avoiding `B1` avoids `B2` -/
theorem subclass_iff {B1 B2 : List NSeq} (h1 : ValidBasis B1) (h2 : ∀ p ∈ B2, IsPerm p) :
    (B2.all fun p => !(Spec.C02.level B1 p.length).contains p) = true ↔
      ∀ σ, IsPerm σ → (∀ p ∈ B1, ¬ Contains σ p) → (∀ p ∈ B2, ¬ Contains σ p) := by
  rw [List.all_eq_true]
  constructor
  · intro h σ hσ hav p2 hp2 hc
    have hnot := h p2 hp2
    simp only [Bool.not_eq_true', List.contains_eq_mem, decide_eq_false_iff_not] at hnot
    have hp2perm := h2 p2 hp2
    have : ¬ InAv B1 p2 := fun hin => hnot (mem_level.mpr ⟨hin, rfl⟩)
    rw [InAv_iff h1 hp2perm] at this
    unfold Avoids at this
    simp only [not_forall, not_not] at this
    obtain ⟨p1, hp1, hc1⟩ := this
    exact hav p1 hp1 ((SContains_iff_Contains σ p1).mp
      (SContains_trans ((SContains_iff_Contains σ p2).mpr hc) hc1))
  · intro h p2 hp2
    simp only [Bool.not_eq_true', List.contains_eq_mem, decide_eq_false_iff_not]
    intro hmem
    obtain ⟨hin, _⟩ := mem_level.mp hmem
    have hav : ∀ p ∈ B1, ¬ Contains p2 p := (C01.avoidsAll_iff p2 B1 hin.1 h1.perm).mp hin.2
    exact h p2 hin.1 hav p2 hp2 ((SContains_iff_Contains p2 p2).mp (SContains_refl p2))

/-- `a.is_subclass(b)` for two classes with classical bases -/
theorem isSubclass_spec {s : Proc} (h : ProcInv s) {a b : String} {ida idb : Nat} {oa ob : AvObj}
    {B1 B2 : List NSeq} (ha : s.obj? a = some (ida, oa)) (hb : s.obj? b = some (idb, ob))
    (hB1 : oa.basis = .classical B1) (hB2 : ob.basis = .classical B2) :
    ∃ s', s.isSubclass a b = .ok (s', B2.all fun p => !(Spec.C02.level B1 p.length).contains p) ∧
      ProcInv s' ∧ ProcExt s s' := by
  obtain ⟨s', h1, h2, h3⟩ := isSubclassLoop_spec B2 h ha
  refine ⟨s', ?_, h2, h3⟩
  simp only [Proc.isSubclass, ha, hb, hB1, hB2, h1, specLevel]

/-! ### `is_subclass` with a mesh basis on the right -/

theorem meshScan_all_cand (sh : List Cell) (cand : List Nat) : ∀ (rest : List Nat) (x : Nat),
    (∀ e ∈ rest, e ∈ cand) → meshScan sh cand rest x = true
  | [], _, _ => rfl
  | e :: rest, x, h => by
    have he : cand.contains e = true := by simpa using h e (by simp)
    simp only [meshScan, he, if_true]
    exact meshScan_all_cand sh cand rest (x + 1) (fun e' he' => h e' (by simp [he']))

/-- a permutation contains every mesh pattern built on itself (there are no other points) -/
theorem containsMesh_self (m : Mesh) (hp : IsPerm m.pattern) : containsMesh m.pattern m = true := by
  have hocc : IsOcc m.pattern m.pattern (List.range m.pattern.length) := by
    refine ⟨by simp, List.pairwise_lt_range, fun i hi => List.mem_range.mp hi, fun a b ha hb => ?_⟩
    simp [List.getD_eq_getElem?_getD, ha, hb]
  have hmem := (C01.mem_occurrencesIn_iff m.pattern m.pattern hp hp _).mpr hocc
  have hscan : meshScan m.shading ((List.range m.pattern.length).map fun i => m.pattern.getD i 0)
      m.pattern 0 = true := by
    rw [map_getD_range]
    exact meshScan_all_cand _ _ _ _ (fun e he => he)
  have : List.range m.pattern.length ∈ meshOccInPerm m m.pattern :=
    List.mem_filter.mpr ⟨hmem, hscan⟩
  unfold containsMesh
  cases h : meshOccInPerm m m.pattern with
  | nil => rw [h] at this; simp at this
  | cons a t => rfl

/-- a mesh occurrence is in particular a classical occurrence of the underlying permutation -/
theorem contains_of_containsMesh {σ : NSeq} {m : Mesh} (hσ : IsPerm σ) (hp : IsPerm m.pattern)
    (h : containsMesh σ m = true) : Contains σ m.pattern := by
  unfold containsMesh at h
  cases hl : meshOccInPerm m σ with
  | nil => rw [hl] at h; simp at h
  | cons c t =>
    have hc : c ∈ meshOccInPerm m σ := by rw [hl]; simp
    have := (List.mem_filter.mp hc).1
    exact ⟨c, (C01.mem_occurrencesIn_iff m.pattern σ hp hσ c).mp this⟩

/-- **`is_subclass` with a mesh basis on the right**: "the underlying permutation of no mesh pattern
    of `M2` lies in `Av(B1)`" holds iff every permutation avoiding `B1` avoids every mesh pattern of `M2` -/
theorem subclass_mesh_iff {B1 : List NSeq} {M2 : List Mesh} (h1 : ValidBasis B1)
    (h2 : ∀ m ∈ M2, IsPerm m.pattern) :
    ((M2.map (·.pattern)).all fun p => !(Spec.C02.level B1 p.length).contains p) = true ↔
      ∀ σ, IsPerm σ → (∀ p ∈ B1, ¬ Contains σ p) → (∀ m ∈ M2, containsMesh σ m = false) := by
  rw [List.all_eq_true]
  constructor
  · intro h σ hσ hav m hm
    by_contra hc
    have hc' : containsMesh σ m = true := by simpa using hc
    have hnot := h m.pattern (List.mem_map_of_mem hm)
    simp only [Bool.not_eq_true', List.contains_eq_mem, decide_eq_false_iff_not] at hnot
    have hpp := h2 m hm
    have : ¬ InAv B1 m.pattern := fun hin => hnot (mem_level.mpr ⟨hin, rfl⟩)
    rw [InAv_iff h1 hpp] at this
    unfold Avoids at this
    simp only [not_forall, not_not] at this
    obtain ⟨p1, hp1, hc1⟩ := this
    have hcσ := contains_of_containsMesh hσ hpp hc'
    exact hav p1 hp1 ((SContains_iff_Contains σ p1).mp
      (SContains_trans ((SContains_iff_Contains σ m.pattern).mpr hcσ) hc1))
  · intro h p hp
    obtain ⟨m, hm, rfl⟩ := List.mem_map.mp hp
    simp only [Bool.not_eq_true', List.contains_eq_mem, decide_eq_false_iff_not]
    intro hmem
    obtain ⟨hin, _⟩ := mem_level.mp hmem
    have hav : ∀ p ∈ B1, ¬ Contains m.pattern p := (C01.avoidsAll_iff m.pattern B1 hin.1 h1.perm).mp hin.2
    have := h m.pattern hin.1 hav m hm
    rw [containsMesh_self m hin.1] at this
    simp at this

/-- `a.is_subclass(b)` for `a` with a classical and `b` with a mesh basis -/
theorem isSubclass_spec_mesh {s : Proc} (h : ProcInv s) {a b : String} {ida idb : Nat} {oa ob : AvObj}
    {B1 : List NSeq} {M2 : List Mesh} (ha : s.obj? a = some (ida, oa)) (hb : s.obj? b = some (idb, ob))
    (hB1 : oa.basis = .classical B1) (hM2 : ob.basis = .mesh M2) :
    ∃ s', s.isSubclass a b =
        .ok (s', (M2.map (·.pattern)).all fun p => !(Spec.C02.level B1 p.length).contains p) ∧
      ProcInv s' ∧ ProcExt s s' := by
  obtain ⟨s', h1, h2, h3⟩ := isSubclassLoop_spec (M2.map (·.pattern)) h ha
  refine ⟨s', ?_, h2, h3⟩
  simp only [Proc.isSubclass, ha, hb, hB1, hM2, h1, specLevel]

/-! ### `Basis(*patts)` -/

theorem mem_insertSorted {α} (lt : α → α → Bool) (a x : α) : ∀ l : List α,
    x ∈ C02.insertSorted lt a l ↔ x = a ∨ x ∈ l
  | [] => by simp [C02.insertSorted]
  | y :: ys => by
    simp only [C02.insertSorted]
    split
    · simp
    · simp only [List.mem_cons, mem_insertSorted lt a x ys]; tauto

theorem mem_sortBy {α} (lt : α → α → Bool) (x : α) : ∀ l : List α, x ∈ sortBy lt l ↔ x ∈ l
  | [] => by simp [sortBy]
  | a :: l => by
    have ih := mem_sortBy lt x l
    unfold sortBy at ih ⊢
    simp only [List.foldr_cons, mem_insertSorted, ih, List.mem_cons]

theorem permLt_nil_right (a : NSeq) : permLt a [] = false := by
  cases a <;> simp [permLt, lexLt]

theorem permLt_nil_left {y : NSeq} (h : permLt [] y = false) : y = [] := by
  cases y with
  | nil => rfl
  | cons a t => simp [permLt] at h

/-- the empty pattern sorts first -/
theorem head_sortBy_nil : ∀ l : List NSeq, [] ∈ l → ∃ t, sortBy permLt l = [] :: t
  | [], h => by simp at h
  | a :: l, h => by
    have e : sortBy permLt (a :: l) = C02.insertSorted permLt a (sortBy permLt l) := rfl
    rw [e]
    by_cases hl : [] ∈ l
    · obtain ⟨t, ht⟩ := head_sortBy_nil l hl
      rw [ht]
      simp only [C02.insertSorted, permLt_nil_right]
      exact ⟨_, rfl⟩
    · have ha : a = [] := by
        rcases List.mem_cons.mp h with h | h
        · exact h.symm
        · exact (hl h).elim
      subst ha
      cases hs : sortBy permLt l with
      | nil => exact ⟨[], rfl⟩
      | cons y t =>
        simp only [C02.insertSorted]
        by_cases hy : permLt [] y = true
        · simp only [hy, if_true]; exact ⟨_, rfl⟩
        · have hy' : permLt [] y = false := by simpa using hy
          have := permLt_nil_left hy'
          subst this
          simp only [hy']
          exact ⟨_, rfl⟩

theorem pruneLoop_mem : ∀ (ps acc : List NSeq) (x : NSeq), x ∈ pruneLoop ps acc → x ∈ acc ∨ x ∈ ps
  | [], acc, x, h => Or.inl h
  | p :: ps, acc, x, h => by
    simp only [pruneLoop] at h
    split at h
    · rcases pruneLoop_mem ps _ x h with h | h
      · rcases List.mem_append.mp h with h | h
        · exact Or.inl h
        · right; simp at h; simp [h]
      · right; simp [h]
    · rcases pruneLoop_mem ps _ x h with h | h
      · exact Or.inl h
      · right; simp [h]

theorem pruneLoop_acc : ∀ (ps acc : List NSeq) (x : NSeq), x ∈ acc → x ∈ pruneLoop ps acc
  | [], acc, x, h => h
  | p :: ps, acc, x, h => by
    simp only [pruneLoop]
    split
    · exact pruneLoop_acc ps _ x (List.mem_append.mpr (Or.inl h))
    · exact pruneLoop_acc ps _ x h

/-- `Basis(*patts)` of permutations is rejected by `Av` or is a valid basis -/
theorem basisNew_valid (patts : List NSeq) (hp : ∀ p ∈ patts, IsPerm p) :
    forbiddenB (.classical (basisNew patts)) = true ∨ ValidBasis (basisNew patts) := by
  unfold basisNew
  by_cases he : patts.isEmpty
  · left; simp [he, forbiddenB]
  · simp only [he]
    cases hs : sortBy permLt patts with
    | nil => left; simp [pruner, forbiddenB]
    | cons p t =>
      simp only [pruner]
      by_cases hp0 : p.length = 0
      · left
        have : p = [] := List.eq_nil_of_length_eq_zero hp0
        subst this
        simp [forbiddenB]
      · right
        simp only [hp0, if_false, Bool.false_eq_true]
        have hsub : ∀ x ∈ pruneLoop (p :: t) [], x ∈ patts := by
          intro x hx
          rcases pruneLoop_mem _ _ x hx with h | h
          · simp at h
          · rw [← hs] at h; exact (mem_sortBy permLt x patts).mp h
        refine ⟨?_, fun x hx => hp x (hsub x hx), ?_⟩
        · have : p ∈ pruneLoop (p :: t) [] := by
            simp only [pruneLoop, avoidsAll, List.all_nil, if_true]
            exact pruneLoop_acc t _ p (by simp)
          intro h0; rw [h0] at this; simp at this
        · intro x hx
          by_contra hlen
          have hx0 : x = [] := List.eq_nil_of_length_eq_zero (by omega)
          subst hx0
          obtain ⟨t', ht'⟩ := head_sortBy_nil patts (hsub [] hx)
          rw [hs] at ht'
          have : p = [] := by simpa using (List.cons.inj ht').1
          subst this
          simp at hp0

end C02L
