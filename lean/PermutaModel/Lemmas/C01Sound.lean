import PermutaModel.Lemmas.C01Ceil
open Model

def PInj (π : NSeq) : Prop :=
  ∀ a b, a < π.length → b < π.length → π.getD a 0 = π.getD b 0 → a = b

def PrefixIso (π σ : NSeq) (occ : List Nat) : Prop :=
  ∀ a b, a < occ.length → b < occ.length →
    (π.getD a 0 < π.getD b 0 ↔ σ.getD (occ.getD a 0) 0 < σ.getD (occ.getD b 0) 0)

theorem details_getD (π : NSeq) (k : Nat) (hk : k < π.length) (dflt : Details) :
    (patternDetails π).getD k dflt =
      { lfi := leftFloor π k, lci := leftCeil π k,
        lbp := match leftFloor π k with | none => π.getD k 0 | some j => π.getD k 0 - π.getD j 0,
        ubp := match leftCeil π k with | none => π.length - π.getD k 0 | some j => π.getD j 0 - π.getD k 0 } := by
  simp only [patternDetails, List.getD_eq_getElem?_getD, List.getElem?_map,
    List.getElem?_range hk, Option.map_some, Option.getD_some]
  cases leftFloor π k <;> cases leftCeil π k <;> rfl

theorem getD_append_left' (l : List Nat) (x a : Nat) (h : a < l.length) :
    (l ++ [x]).getD a 0 = l.getD a 0 := by
  simp [List.getD_eq_getElem?_getD, List.getElem?_append_left h]

theorem getD_append_last (l : List Nat) (x : Nat) :
    (l ++ [x]).getD l.length 0 = x := by
  simp [List.getD_eq_getElem?_getD]

/-- (S): a position that passes the bound test extends a prefix order-isomorphism -/
theorem fits_sound (π σ : NSeq) (occ : List Nat) (i : Nat)
    (hk : occ.length < π.length) (hinj : PInj π)
    (hpre : PrefixIso π σ occ)
    (hceil : CeilSpec' π occ.length occ.length (leftCeil π occ.length))
    (hfit : lowerBound σ ((patternDetails π).getD occ.length ⟨none, none, 0, 0⟩) occ ≤ (σ.getD i 0 : Int) ∧
            (σ.getD i 0 : Int) ≤ upperBound σ ((patternDetails π).getD occ.length ⟨none, none, 0, 0⟩) occ) :
    PrefixIso π σ (occ ++ [i]) := by
  have hfloor := leftFloor_spec π occ.length
  rw [details_getD π _ hk] at hfit
  obtain ⟨hlo, hhi⟩ := hfit
  -- key facts: for every earlier a: π a < π k → σ(occ a) < σ i ; π k < π a → σ i < σ(occ a)
  have key1 : ∀ a, a < occ.length → π.getD a 0 < π.getD occ.length 0 →
      σ.getD (occ.getD a 0) 0 < σ.getD i 0 := by
    intro a ha hlt
    cases hf : leftFloor π occ.length with
    | none => rw [hf] at hfloor; exact absurd hlt (hfloor a ha)
    | some f =>
      rw [hf] at hfloor
      obtain ⟨hfk, hfv, hmax⟩ := hfloor
      simp only [lowerBound, hf] at hlo
      have h1 := hmax a ha hlt
      have h2 : σ.getD (occ.getD a 0) 0 ≤ σ.getD (occ.getD f 0) 0 := by
        rcases Nat.lt_or_eq_of_le h1 with h | h
        · exact Nat.le_of_lt ((hpre a f ha hfk).mp h)
        · have := hinj a f (by omega) (by omega) h; subst this; exact Nat.le_refl _
      omega
  have key2 : ∀ a, a < occ.length → π.getD occ.length 0 < π.getD a 0 →
      σ.getD i 0 < σ.getD (occ.getD a 0) 0 := by
    intro a ha hlt
    cases hc : leftCeil π occ.length with
    | none => rw [hc] at hceil; exact absurd hlt (hceil a ha)
    | some c =>
      rw [hc] at hceil
      obtain ⟨hck, hcv, hmin⟩ := hceil
      simp only [upperBound, hc] at hhi
      have h1 := hmin a ha hlt
      have h2 : σ.getD (occ.getD c 0) 0 ≤ σ.getD (occ.getD a 0) 0 := by
        rcases Nat.lt_or_eq_of_le h1 with h | h
        · exact Nat.le_of_lt ((hpre c a hck ha).mp h)
        · have := hinj c a (by omega) (by omega) h; subst this; exact Nat.le_refl _
      omega
  have tri : ∀ a, a < occ.length → π.getD a 0 < π.getD occ.length 0 ∨ π.getD occ.length 0 < π.getD a 0 := by
    intro a ha
    rcases Nat.lt_trichotomy (π.getD a 0) (π.getD occ.length 0) with h | h | h
    · exact Or.inl h
    · have := hinj a occ.length (by omega) hk h; omega
    · exact Or.inr h
  intro a b ha hb
  simp only [List.length_append, List.length_singleton] at ha hb
  rcases Nat.lt_succ_iff_lt_or_eq.mp ha with ha' | ha' <;>
  rcases Nat.lt_succ_iff_lt_or_eq.mp hb with hb' | hb'
  · rw [getD_append_left' _ _ _ ha', getD_append_left' _ _ _ hb']; exact hpre a b ha' hb'
  · subst hb'; rw [getD_append_left' _ _ _ ha', getD_append_last]
    constructor
    · exact key1 a ha'
    · intro h; rcases tri a ha' with t | t
      · exact t
      · have := key2 a ha' t; omega
  · subst ha'; rw [getD_append_left' _ _ _ hb', getD_append_last]
    constructor
    · exact key2 b hb'
    · intro h; rcases tri b hb' with t | t
      · have := key1 b hb' t; omega
      · exact t
  · subst ha'; subst hb'; simp
