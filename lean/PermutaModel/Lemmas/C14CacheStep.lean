import PermutaModel.Lemmas.C14Cache
/-! C14 helper lemmas: one observable call on the memoised tables. -/
namespace C14L
open Model.C14 Model.C14.Letter Spec.C14 Proto

theorem w2p_total (n : Nat) : ∃ t1, pinwordToPermMapping n = .ok t1 := by
  apply decodeAll_total
  intro w hw
  obtain ⟨pts, h1, _⟩ := build_lang w ((mem_pinwordsOfLength n w).mp hw).1
  exact ⟨permOfPts pts.dropLast, by simp [pinwordToPerm, h1]⟩

/-- what an observable call on the memoised tables has to return: the freshly computed table up
    to keys with an empty set (`SameRel`), resp. exactly the words a fresh table lists under `σ` -/
def OutOK : TOp → TOut → Prop
  | .W n, .w2p t => pinwordToPermMapping n = .ok t
  | .P n, .p2w t => ∃ t0, permToPinwordMapping n = .ok t0 ∧ SameRel t t0
  | .S n, .p2w t => ∃ t0, permToStrictPinwordMapping n = .ok t0 ∧ SameRel t t0
  | .L n σ, .words ws => ∃ t0, permToPinwordMapping n = .ok t0 ∧ ∀ w, w ∈ ws ↔ Rel t0 σ w
  | .G n σ, .words ws => ∃ t0, permToStrictPinwordMapping n = .ok t0 ∧ ∀ w, w ∈ ws ↔ Rel t0 σ w
  | .G n σ, .err e => e = .keyError ∧ ∃ t0, permToStrictPinwordMapping n = .ok t0 ∧ ∀ w, ¬ Rel t0 σ w
  | _, _ => False

theorem stepT_ok {s : Caches} (hI : CInv s) (op : TOp) :
    OutOK op (stepT s op).2 ∧ CInv (stepT s op).1 := by
  cases op with
  | W n =>
    obtain ⟨t1, h1⟩ := w2p_total n
    obtain ⟨s', hs', hI'⟩ := getW2P_ok hI n h1
    simp only [stepT, hs']; exact ⟨h1, hI'⟩
  | P n =>
    obtain ⟨t1, h1⟩ := w2p_total n
    obtain ⟨s', t, hs', hI', _, hsr, _⟩ := getP2W_ok hI n h1
    simp only [stepT, hs']
    exact ⟨⟨_, by simp [permToPinwordMapping, h1], hsr⟩, hI'⟩
  | S n =>
    obtain ⟨t1, h1⟩ := w2p_total n
    obtain ⟨s', t, hs', hI', hsr, _⟩ := getP2SW_ok hI n h1
    simp only [stepT, hs']
    exact ⟨⟨_, by simp [permToStrictPinwordMapping, permToPinwordMapping, h1], hsr⟩, hI'⟩
  | L n σ =>
    obtain ⟨t1, h1⟩ := w2p_total n
    obtain ⟨s', ws, hs', hI', hw⟩ := lookupP2W_ok hI n σ h1
    simp only [stepT, hs']
    exact ⟨⟨_, by simp [permToPinwordMapping, h1], hw⟩, hI'⟩
  | G n σ =>
    obtain ⟨t1, h1⟩ := w2p_total n
    obtain ⟨s', r, hs', hI', hok, herr⟩ := lookupP2SW_ok hI n σ h1
    have h0 : permToStrictPinwordMapping n = .ok (strictFilter (groupWords t1)) := by
      simp [permToStrictPinwordMapping, permToPinwordMapping, h1]
    simp only [stepT, hs']
    cases r with
    | ok ws => exact ⟨⟨_, h0, hok ws rfl⟩, hI'⟩
    | error e => exact ⟨⟨(herr e rfl).1, _, h0, (herr e rfl).2⟩, hI'⟩

end C14L
