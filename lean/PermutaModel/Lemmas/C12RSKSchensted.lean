import PermutaModel.Lemmas.C12RSKTab
import PermutaModel.Spec.C12RSK
/-! C12 / RSK, part 3: Schensted's theorem for the model's insertion.

* first row: entry `j` of the row ends an increasing subsequence of length `j+1` (`lis_ge`), and an
  increasing subsequence of length `m` ending in `e` forces `m` entries `≤ e` in the row (`lis_le`);
* number of rows: a longest decreasing subsequence of `w` is one longer than one of the bumped word
  (`lds_down`, `lds_up`), and the tableau of `w` is `rowOf w :: tableau (bumpsOf w)`. -/
open Model Spec List

namespace C12

/-! ### sublists of `v ++ [x]` -/

theorem sublist_snoc_cases {s v : List Nat} {x : Nat} (h : s <+ v ++ [x]) :
    s <+ v ∨ ∃ s0, s = s0 ++ [x] ∧ s0 <+ v := by
  have h' : s.reverse <+ x :: v.reverse := by
    have := List.reverse_sublist.mpr h
    simpa using this
  rcases List.sublist_cons_iff.mp h' with h1 | ⟨r, h1, h2⟩
  · exact Or.inl (List.reverse_sublist.mp h1)
  · refine Or.inr ⟨r.reverse, ?_, ?_⟩
    · have := congrArg List.reverse h1
      simpa using this
    · have := List.reverse_sublist.mpr h2
      simpa using this

theorem snoc_sublist_snoc {l1 l2 : List Nat} {a c : Nat} (h : l1 ++ [a] <+ l2 ++ [c]) :
    l1 ++ [a] <+ l2 ∨ (a = c ∧ l1 <+ l2) := by
  rcases sublist_snoc_cases h with h1 | ⟨s0, h1, h2⟩
  · exact Or.inl h1
  · obtain ⟨e1, e2⟩ := List.append_inj' h1 rfl
    subst e1
    simp at e2
    exact Or.inr ⟨e2, h2⟩

/-! ### the first row and increasing subsequences -/

theorem countP_rIns_ge (e : Nat) : ∀ (R : List Nat) (x : Nat),
    R.countP (· ≤ e) ≤ (rIns R x).1.countP (· ≤ e)
  | [], x => by simp [rIns]
  | c :: t, x => by
    by_cases hxc : x < c
    · rw [rIns_cons_lt _ _ _ hxc, List.countP_cons, List.countP_cons]
      by_cases hce : c ≤ e
      · have : x ≤ e := by omega
        simp [hce, this]
      · by_cases hxe : x ≤ e <;> simp [hce, hxe]
    · rw [rIns_cons_ge _ _ _ hxc, List.countP_cons, List.countP_cons]
      exact Nat.add_le_add_right (countP_rIns_ge e t x) _

theorem countP_rIns_self : ∀ (R : List Nat) (x : Nat),
    (rIns R x).1.countP (· ≤ x) = R.countP (· ≤ x) + 1
  | [], x => by simp [rIns]
  | c :: t, x => by
    by_cases hxc : x < c
    · rw [rIns_cons_lt _ _ _ hxc, List.countP_cons, List.countP_cons]
      have : ¬ c ≤ x := by omega
      simp [this]
    · rw [rIns_cons_ge _ _ _ hxc, List.countP_cons, List.countP_cons]
      rw [countP_rIns_self t x]
      omega

/-- an increasing subsequence of length `m` ending in `e` forces `m` entries `≤ e` in the first row -/
theorem lis_le : ∀ (w s0 : List Nat) (e : Nat), s0 ++ [e] <+ w → (s0 ++ [e]).Pairwise (· < ·) →
    s0.length + 1 ≤ (rowOf w).countP (· ≤ e) := by
  intro w
  induction w using List.reverseRecOn with
  | nil =>
    intro s0 e h _
    have := List.eq_nil_of_sublist_nil h
    simp at this
  | append_singleton v x ih =>
    intro s0 e h hp
    rw [rowOf_snoc]
    rcases sublist_snoc_cases h with h1 | ⟨s1, h1, h2⟩
    · exact Nat.le_trans (ih s0 e h1 hp) (countP_rIns_ge e _ x)
    · obtain ⟨e1, e2⟩ := List.append_inj' h1 rfl
      subst e1
      simp at e2
      subst e2
      rw [countP_rIns_self]
      rcases List.eq_nil_or_concat s0 with e0 | ⟨s00, e0, hs⟩
      · subst e0; simp
      · subst hs
        have h3 := ih s00 e0 (by simpa using h2) (by
          rw [List.pairwise_append] at hp; simpa using hp.1)
        have he : e0 < e := by
          rw [List.pairwise_append] at hp
          exact hp.2.2 e0 (by simp) e (by simp)
        have hm : (rowOf v).countP (· ≤ e0) ≤ (rowOf v).countP (· ≤ e) :=
          List.countP_mono_left (fun y _ hy => by simp at hy ⊢; omega)
        simp only [List.length_append, List.length_singleton, List.concat_eq_append] at h3 ⊢
        omega

/-- how the positions of the row change in one step, for a predicate graded by the position -/
theorem rIns_chain : ∀ (R : List Nat) (x : Nat) (P Q : Nat → Nat → Prop), x ∉ R →
    (∀ l e r, R = l ++ e :: r → P e l.length) → (∀ e n, P e n → Q e n) →
    (∀ e n, e < x → P e n → Q x (n + 1)) → Q x 0 →
    ∀ l e r, (rIns R x).1 = l ++ e :: r → Q e l.length
  | [], x, P, Q, _, _, _, _, h0, l, e, r, h => by
    rw [rIns_nil] at h
    cases l with
    | nil => simp at h; rw [← h.1]; exact h0
    | cons y l' => simp at h
  | c :: t, x, P, Q, hx, hP, hPQ, hstep, h0, l, e, r, h => by
    by_cases hxc : x < c
    · rw [rIns_cons_lt _ _ _ hxc] at h
      cases l with
      | nil => simp at h; rw [← h.1]; exact h0
      | cons y l' =>
        simp at h
        apply hPQ
        have := hP (c :: l') e r (by rw [h.2]; rfl)
        simpa using this
    · rw [rIns_cons_ge _ _ _ hxc] at h
      have hcx : c < x := by
        have : x ≠ c := fun e => hx (by simp [e])
        omega
      cases l with
      | nil =>
        simp at h
        rw [← h.1]
        exact hPQ c 0 (hP [] c t rfl)
      | cons y l' =>
        simp at h
        have := rIns_chain t x (fun e n => P e (n + 1)) (fun e n => Q e (n + 1))
          (fun hm => hx (List.mem_cons_of_mem _ hm))
          (fun l e r hl => by
            have := hP (c :: l) e r (by rw [hl]; rfl)
            simpa using this)
          (fun e n h => hPQ e (n + 1) h)
          (fun e n he h => hstep e (n + 1) he h)
          (hstep c 0 hcx (hP [] c t rfl))
          l' e r h.2
        simpa using this

/-- the entry at position `|l|` of the first row ends an increasing subsequence of length `|l|+1` -/
theorem lis_ge : ∀ (w : List Nat), w.Nodup → ∀ l e r, rowOf w = l ++ e :: r →
    ∃ s0, s0.length = l.length ∧ s0 ++ [e] <+ w ∧ (s0 ++ [e]).Pairwise (· < ·) := by
  intro w
  induction w using List.reverseRecOn with
  | nil =>
    intro _ l e r h
    simp [rowOf, rowRun] at h
  | append_singleton v x ih =>
    intro hnd l e r h
    have hv : v.Nodup := (List.nodup_append.mp hnd).1
    have hx : x ∉ v := fun hm => (List.nodup_append.mp hnd).2.2 x hm x (by simp) rfl
    rw [rowOf_snoc] at h
    refine rIns_chain (rowOf v) x
      (fun e n => ∃ s0, s0.length = n ∧ s0 ++ [e] <+ v ∧ (s0 ++ [e]).Pairwise (· < ·))
      (fun e n => ∃ s0, s0.length = n ∧ s0 ++ [e] <+ v ++ [x] ∧ (s0 ++ [e]).Pairwise (· < ·))
      (fun hm => hx (rowOf_subset v x hm)) (ih hv) ?_ ?_ ?_ l e r h
    · rintro e n ⟨s0, h1, h2, h3⟩
      exact ⟨s0, h1, h2.trans (List.sublist_append_left _ _), h3⟩
    · rintro e n he ⟨s0, h1, h2, h3⟩
      refine ⟨s0 ++ [e], by simp [h1], List.Sublist.append h2 (List.Sublist.refl _), ?_⟩
      rw [List.pairwise_append]
      refine ⟨h3, by simp, ?_⟩
      intro a ha b hb
      simp at hb; subst hb
      rcases List.mem_append.mp ha with ha | ha
      · rw [List.pairwise_append] at h3
        exact Nat.lt_trans (h3.2.2 a ha e (by simp)) he
      · simp at ha; subst ha; exact he
    · exact ⟨[], rfl, by simp, by simp⟩

/-- **Schensted, rows**: the first row of the tableau of a duplicate-free word is as long as a
    longest increasing subsequence -/
theorem isLIS_rowOf (w : List Nat) (h : w.Nodup) : IsLIS w (rowOf w).length := by
  constructor
  · rcases List.eq_nil_or_concat (rowOf w) with e0 | ⟨l, e, hs⟩
    · exact ⟨[], by simp, by simp, by simp [e0]⟩
    · obtain ⟨s0, h1, h2, h3⟩ := lis_ge w h l e [] (by simpa using hs)
      exact ⟨s0 ++ [e], h2, h3, by simp [hs, h1]⟩
  · intro s hs hp
    rcases List.eq_nil_or_concat s with e0 | ⟨s0, e, he⟩
    · subst e0; simp
    · subst he
      have := lis_le w s0 e (by simpa using hs) (by simpa using hp)
      have h2 := List.countP_le_length (p := fun y => decide (y ≤ e)) (l := rowOf w)
      simp only [List.concat_eq_append, List.length_append, List.length_singleton]
      omega

/-! ### the number of rows and decreasing subsequences -/

/-- if `s ++ [b]` is a subsequence of the bumped word, cut the word where `b` is bumped -/
theorem bumps_decomp : ∀ (v s : List Nat) (b : Nat), s ++ [b] <+ bumpsOf v →
    ∃ u x u2, v = u ++ x :: u2 ∧ (rIns (rowOf u) x).2 = some b ∧ s <+ bumpsOf u := by
  intro v
  induction v using List.reverseRecOn with
  | nil =>
    intro s b h
    have := List.eq_nil_of_sublist_nil h
    simp at this
  | append_singleton v x ih =>
    intro s b h
    rw [bumpsOf_snoc] at h
    cases hb : (rIns (rowOf v) x).2 with
    | none =>
      rw [hb] at h
      simp only [Option.toList, List.append_nil] at h
      obtain ⟨u, y, u2, h1, h2, h3⟩ := ih s b h
      exact ⟨u, y, u2 ++ [x], by rw [h1]; simp, h2, h3⟩
    | some c =>
      rw [hb] at h
      simp only [Option.toList] at h
      rcases snoc_sublist_snoc h with h1 | ⟨h1, h2⟩
      · obtain ⟨u, y, u2, h1, h2, h3⟩ := ih s b h1
        exact ⟨u, y, u2 ++ [x], by rw [h1]; simp, h2, h3⟩
      · subst h1
        exact ⟨v, x, [], rfl, hb, h2⟩

/-- **down**: a decreasing subsequence of `w` of length `m+1` ending in `a` gives one of length `m` in the
    bumped word, all above `a`; moreover `a` is still in the row, or it can be appended -/
theorem lds_down : ∀ (w : List Nat), w.Nodup → ∀ (s0 : List Nat) (a : Nat), s0 ++ [a] <+ w →
    (s0 ++ [a]).Pairwise (· > ·) →
    ∃ s', s' <+ bumpsOf w ∧ s'.Pairwise (· > ·) ∧ s'.length = s0.length ∧ (∀ e ∈ s', a < e) ∧
      (a ∈ rowOf w ∨ s' ++ [a] <+ bumpsOf w) := by
  intro w
  induction w using List.reverseRecOn with
  | nil =>
    intro _ s0 a h _
    have := List.eq_nil_of_sublist_nil h
    simp at this
  | append_singleton v x ih =>
    intro hnd s0 a h hp
    have hv : v.Nodup := (List.nodup_append.mp hnd).1
    have hsub : bumpsOf v <+ bumpsOf (v ++ [x]) := by
      rw [bumpsOf_snoc]; exact List.sublist_append_left _ _
    rcases sublist_snoc_cases h with h1 | ⟨s1, h1, h2⟩
    · obtain ⟨s', k1, k2, k3, k4, k5⟩ := ih hv s0 a h1 hp
      refine ⟨s', k1.trans hsub, k2, k3, k4, ?_⟩
      rcases k5 with k5 | k5
      · by_cases hb : (rIns (rowOf v) x).2 = some a
        · right
          rw [bumpsOf_snoc, hb]
          exact List.Sublist.append k1 (List.Sublist.refl _)
        · left
          rw [rowOf_snoc]
          exact mem_rIns_of_mem _ x a k5 hb
      · exact Or.inr (k5.trans hsub)
    · obtain ⟨e1, e2⟩ := List.append_inj' h1 rfl
      subst e1
      simp at e2
      subst e2
      have hself : a ∈ rowOf (v ++ [a]) := by rw [rowOf_snoc]; exact self_mem_rIns _ _
      rcases List.eq_nil_or_concat s0 with e0 | ⟨s00, a0, hs⟩
      · subst e0
        exact ⟨[], by simp, by simp, rfl, by simp, Or.inl hself⟩
      · subst hs
        simp only [List.concat_eq_append] at h2 hp ⊢
        have hp0 : (s00 ++ [a0]).Pairwise (· > ·) := by
          rw [List.pairwise_append] at hp; exact hp.1
        have ha0 : a < a0 := by
          rw [List.pairwise_append] at hp
          exact hp.2.2 a0 (by simp) a (by simp)
        obtain ⟨s', k1, k2, k3, k4, k5⟩ := ih hv s00 a0 h2 hp0
        rcases k5 with k5 | k5
        · obtain ⟨y, hy, hay, hya⟩ := bump_exists (rowOf v) a a0 (rowOf_sorted v hv) k5 ha0
          refine ⟨s' ++ [y], ?_, ?_, by simp [k3], ?_, Or.inl hself⟩
          · rw [bumpsOf_snoc, hy]
            exact List.Sublist.append k1 (List.Sublist.refl _)
          · rw [List.pairwise_append]
            refine ⟨k2, by simp, ?_⟩
            intro e he b hb
            simp at hb; subst hb
            have := k4 e he
            show b < e
            omega
          · intro e he
            rcases List.mem_append.mp he with he | he
            · have := k4 e he; omega
            · simp at he; subst he; exact hay
        · refine ⟨s' ++ [a0], k5.trans hsub, ?_, by simp [k3], ?_, Or.inl hself⟩
          · rw [List.pairwise_append]
            refine ⟨k2, by simp, ?_⟩
            intro e he b hb
            simp at hb; subst hb
            exact k4 e he
          · intro e he
            rcases List.mem_append.mp he with he | he
            · have := k4 e he; omega
            · simp at he; subst he; exact ha0

/-- **up**, the inductive core: cut at the moment `b` is bumped by `x`; a decreasing subsequence of
    length `m` of the word bumped so far, all above `b`, gives one of length `m+1` of the word read so
    far, all at least `b` -/
theorem lds_up_aux : ∀ (m : Nat) (v : List Nat) (x b : Nat) (s0' : List Nat), (v ++ [x]).Nodup →
    (rIns (rowOf v) x).2 = some b → s0' <+ bumpsOf v → s0'.Pairwise (· > ·) → (∀ e ∈ s0', b < e) →
    s0'.length = m →
    ∃ s, s <+ v ∧ s.Pairwise (· > ·) ∧ (∀ e ∈ s, b ≤ e) ∧ s.length = m + 1
  | 0, v, x, b, s0', _, hb, _, _, _, _ => by
    have hbv : b ∈ v := rowOf_subset v b (bump_mem _ _ _ hb).1
    exact ⟨[b], List.singleton_sublist.mpr hbv, by simp, by simp, rfl⟩
  | m + 1, v, x, b, s0', hnd, hb, hsub, hp, hall, hlen => by
    rcases List.eq_nil_or_concat s0' with e0 | ⟨s1', b', hs⟩
    · subst e0; simp at hlen
    · subst hs
      simp only [List.concat_eq_append] at hsub hp hall hlen
      obtain ⟨u, x', u2, hv, hb', hs1⟩ := bumps_decomp v s1' b' hsub
      have hvnd : v.Nodup := (List.nodup_append.mp hnd).1
      have hund : (u ++ [x']).Nodup := by
        refine List.Nodup.sublist ?_ hvnd
        rw [hv]
        exact List.Sublist.append (List.Sublist.refl _) (by simp)
      have hp1 : s1'.Pairwise (· > ·) := by rw [List.pairwise_append] at hp; exact hp.1
      have hall1 : ∀ e ∈ s1', b' < e := by
        rw [List.pairwise_append] at hp
        intro e he; exact hp.2.2 e he b' (by simp)
      have hlen1 : s1'.length = m := by simpa using hlen
      obtain ⟨s1, k1, k2, k3, k4⟩ := lds_up_aux m u x' b' s1' hund hb' hs1 hp1 hall1 hlen1
      have hbb' : b < b' := hall b' (by simp)
      have hx'b' : x' < b' := (bump_mem _ _ _ hb').2
      have hbrow : b ∈ rowOf v := (bump_mem _ _ _ hb).1
      by_cases hbu : b ∈ u
      · -- `b` was in the row when `b'` was bumped by `x'`, so `b ≤ x'`
        have hund' : u.Nodup := (List.nodup_append.mp hund).1
        have hbru : b ∈ rowOf u := by
          apply rowOf_alive u (x' :: u2) b (by rw [← hv]; exact hvnd) hbu
          rw [← hv]; exact hbrow
        have hle : b ≤ x' := below_bump_le (rowOf u) x' b' b (rowOf_sorted u hund') hb' hbru hbb'
        refine ⟨s1 ++ [x'], ?_, ?_, ?_, by simp [k4]⟩
        · rw [hv]
          exact List.Sublist.append k1 (by simp)
        · rw [List.pairwise_append]
          refine ⟨k2, by simp, ?_⟩
          intro e he c hc
          simp at hc; subst hc
          have := k3 e he
          show c < e
          omega
        · intro e he
          rcases List.mem_append.mp he with he | he
          · have := k3 e he; omega
          · simp at he; subst he; exact hle
      · have hbv : b ∈ v := rowOf_subset v b hbrow
        have hb2 : b ∈ x' :: u2 := by
          rw [hv] at hbv
          rcases List.mem_append.mp hbv with h | h
          · exact absurd h hbu
          · exact h
        refine ⟨s1 ++ [b], ?_, ?_, ?_, by simp [k4]⟩
        · rw [hv]
          exact List.Sublist.append k1 (List.singleton_sublist.mpr hb2)
        · rw [List.pairwise_append]
          refine ⟨k2, by simp, ?_⟩
          intro e he c hc
          simp at hc; subst hc
          have := k3 e he
          show c < e
          omega
        · intro e he
          rcases List.mem_append.mp he with he | he
          · have := k3 e he; omega
          · simp at he; subst he; exact Nat.le_refl _

/-- **up**: a decreasing subsequence of the bumped word extends to one of the word that is one longer -/
theorem lds_up (w : List Nat) (hw : w ≠ []) (hnd : w.Nodup) (s' : List Nat) (hs : s' <+ bumpsOf w)
    (hp : s'.Pairwise (· > ·)) : ∃ s, s <+ w ∧ s.Pairwise (· > ·) ∧ s.length = s'.length + 1 := by
  rcases List.eq_nil_or_concat s' with e0 | ⟨s0', b, he⟩
  · subst e0
    cases w with
    | nil => exact absurd rfl hw
    | cons x t => exact ⟨[x], by simp, by simp, rfl⟩
  · subst he
    simp only [List.concat_eq_append] at hs hp ⊢
    obtain ⟨u, x, u2, hv, hb, hs1⟩ := bumps_decomp w s0' b hs
    have hund : (u ++ [x]).Nodup := by
      refine List.Nodup.sublist ?_ hnd
      rw [hv]
      exact List.Sublist.append (List.Sublist.refl _) (by simp)
    have hp1 : s0'.Pairwise (· > ·) := by rw [List.pairwise_append] at hp; exact hp.1
    have hall1 : ∀ e ∈ s0', b < e := by
      rw [List.pairwise_append] at hp
      intro e he; exact hp.2.2 e he b (by simp)
    obtain ⟨s, k1, k2, k3, k4⟩ := lds_up_aux s0'.length u x b s0' hund hb hs1 hp1 hall1 rfl
    have hxb : x < b := (bump_mem _ _ _ hb).2
    refine ⟨s ++ [x], ?_, ?_, by simp [k4]⟩
    · rw [hv]; exact List.Sublist.append k1 (by simp)
    · rw [List.pairwise_append]
      refine ⟨k2, by simp, ?_⟩
      intro e he c hc
      simp at hc; subst hc
      have := k3 e he
      show c < e
      omega

/-- the longest decreasing subsequence of a non-empty word is one longer than that of its bumped word -/
theorem isLDS_step (w : List Nat) (hw : w ≠ []) (hnd : w.Nodup) (d : Nat) (h : IsLDS (bumpsOf w) d) :
    IsLDS w (d + 1) := by
  obtain ⟨⟨s', h1, h2, h3⟩, hmax⟩ := h
  constructor
  · obtain ⟨s, k1, k2, k3⟩ := lds_up w hw hnd s' h1 h2
    exact ⟨s, k1, k2, by omega⟩
  · intro s hs hp
    rcases List.eq_nil_or_concat s with e0 | ⟨s0, a, he⟩
    · subst e0; simp
    · subst he
      simp only [List.concat_eq_append] at hs hp ⊢
      obtain ⟨t, k1, k2, k3, _, _⟩ := lds_down w hnd s0 a hs hp
      have := hmax t k1 k2
      simp only [List.length_append, List.length_singleton]
      omega

/-- **Schensted, columns**: the number of rows of the tableau of a duplicate-free word is the length of a
    longest decreasing subsequence -/
theorem isLDS_tabIns : ∀ (n : Nat) (w : List Nat), w.length ≤ n → w.Nodup → IsLDS w (tabIns [] w).length
  | 0, w, hl, _ => by
    have : w = [] := List.eq_nil_of_length_eq_zero (by omega)
    subst this
    refine ⟨⟨[], by simp, by simp, rfl⟩, ?_⟩
    intro s hs _
    rw [List.eq_nil_of_sublist_nil hs]; simp [tabIns]
  | n + 1, w, hl, hnd => by
    by_cases hw : w = []
    · subst hw
      refine ⟨⟨[], by simp, by simp, rfl⟩, ?_⟩
      intro s hs _
      rw [List.eq_nil_of_sublist_nil hs]; simp [tabIns]
    · rw [tabIns_rec w hw, List.length_cons]
      exact isLDS_step w hw hnd _
        (isLDS_tabIns n _ (by have := bumpsOf_length_lt w hw; omega) (bumpsOf_nodup w hnd))

end C12
