import PermutaModel.Lemmas.C14Decode
/-! C14 helper lemmas: one letter of the decoding loop under the invariant. -/
namespace C14L
open Model.C14 Model.C14.Letter Spec.C14 Proto

abbrev xs (pts : List Pt) : List Rat := pts.map Prod.fst
abbrev ys (pts : List Pt) : List Rat := pts.map Prod.snd

/-- invariant of `pre_perm`: distinct abscissae, distinct ordinates, the origin is there -/
structure Inv (pts : List Pt) : Prop where
  xnd : (xs pts).Nodup
  ynd : (ys pts).Nodup
  org : origin ∈ pts

/-- the newest point is strictly outside the x-range (y-range) of all earlier ones -/
def XExt : List Pt → Prop
  | [] => False
  | last :: init => Ext last.1 (xs init)
def YExt : List Pt → Prop
  | [] => False
  | last :: init => Ext last.2 (ys init)

theorem inv_origin : Inv [origin] := ⟨by simp, by simp, by simp⟩

theorem Inv.ne_nil {pts : List Pt} (h : Inv pts) : pts ≠ [] := by
  intro h0; have := h.org; simp [h0] at this

theorem Inv.zero_mem_xs {pts : List Pt} (h : Inv pts) : (0 : Rat) ∈ xs pts :=
  List.mem_map.mpr ⟨origin, h.org, rfl⟩
theorem Inv.zero_mem_ys {pts : List Pt} (h : Inv pts) : (0 : Rat) ∈ ys pts :=
  List.mem_map.mpr ⟨origin, h.org, rfl⟩

theorem side_ne {pos : Bool} {v : Rat} {l : List Rat} (h : Side pos v l) : v ∉ l := by
  intro hv
  have := h v hv
  cases pos <;> simp at this

theorem ext_of_side {pos : Bool} {v : Rat} {l : List Rat} (hne : l ≠ []) (h : Side pos v l) : Ext v l := by
  refine ⟨hne, ?_⟩
  cases pos
  · right; simpa using h _ (minL_mem hne)
  · left; simpa using h _ (maxL_mem hne)

theorem between_ne {v lastV : Rat} {initV : List Rat} (h : Between v lastV initV) : v ∉ lastV :: initV := by
  intro hv
  rcases List.mem_cons.mp hv with rfl | hv
  · rcases h with h | h <;> exact absurd h.2 (by grind)
  · rcases h with h | h
    · exact absurd (h.1 v hv) (by grind)
    · exact absurd (h.1 v hv) (by grind)

/-- a value strictly between `lastV` and all of `initV` is not outside the range of `lastV :: initV` -/
theorem not_ext_of_between {v lastV : Rat} {initV : List Rat} (hne : initV ≠ [])
    (h : Between v lastV initV) : ¬ Ext v (lastV :: initV) := by
  rintro ⟨_, hE⟩
  obtain ⟨a, ha⟩ := List.exists_mem_of_ne_nil _ hne
  have h1 : lastV ≤ maxL (lastV :: initV) := le_maxL List.mem_cons_self
  have h2 : minL (lastV :: initV) ≤ lastV := minL_le List.mem_cons_self
  have h3 : a ≤ maxL (lastV :: initV) := le_maxL (List.mem_cons_of_mem _ ha)
  have h4 : minL (lastV :: initV) ≤ a := minL_le (List.mem_cons_of_mem _ ha)
  rcases h with ⟨hb, hl⟩ | ⟨hb, hl⟩
  · have := hb a ha; rcases hE with hE | hE <;> grind
  · have := hb a ha; rcases hE with hE | hE <;> grind

/-- geometric content of a numeral: an independent pin strictly beyond every earlier point on
    both axes, on the sides named by the quadrant -/
def IndepPin (c : Letter) (p : Pt) (pts : List Pt) : Prop :=
  Side (namesRight c) p.1 (xs pts) ∧ Side (namesUp c) p.2 (ys pts)

/-- geometric content of a direction: beyond every earlier point on the named side and, on the
    other axis, strictly between the previous pin and all points before it -/
def SepPin (c : Letter) (p : Pt) : List Pt → Prop
  | [] => False
  | last :: init =>
    if c.isVert then Side (namesUp c) p.2 (ys (last :: init)) ∧ Between p.1 last.1 (xs init)
    else Side (namesRight c) p.1 (xs (last :: init)) ∧ Between p.2 last.2 (ys init)

theorem call_numeral (c : Letter) (hc : c.isQuad = true) (pts : List Pt) :
    call c pts = charNumeral (namesRight c) (namesUp c) pts := by
  cases c <;> simp_all [isQuad, call, namesRight, namesUp]

theorem call_dir (c : Letter) (hc : c.isDir = true) (pts : List Pt) :
    call c pts = charDir c.isVert (if c.isVert then namesUp c else namesRight c) pts := by
  cases c <;> simp_all [isDir, call, namesRight, namesUp, isVert]

theorem step_numeral {pts : List Pt} (hI : Inv pts) (c : Letter) (hc : c.isQuad = true) :
    ∃ p, stepPts pts c = .ok (p :: pts) ∧ Inv (p :: pts) ∧ XExt (p :: pts) ∧ YExt (p :: pts)
      ∧ IndepPin c p pts := by
  have hne := hI.ne_nil
  have hE : pts.isEmpty = false := by cases pts <;> simp_all
  have hx := side_beyond (namesRight c) (xs pts)
  have hy := side_beyond (namesUp c) (ys pts)
  refine ⟨(beyond (namesRight c) (xs pts), beyond (namesUp c) (ys pts)), ?_, ?_, ?_, ?_, hx, hy⟩
  · unfold stepPts
    rw [call_numeral c hc]
    simp only [charNumeral, hE, Bool.false_eq_true, if_false]
    have h1 : beyond (namesRight c) (xs pts) ≠ 0 := fun h => side_ne hx (h ▸ hI.zero_mem_xs)
    have h2 : beyond (namesUp c) (ys pts) ≠ 0 := fun h => side_ne hy (h ▸ hI.zero_mem_ys)
    simp [h1, h2]
  · exact ⟨List.nodup_cons.mpr ⟨side_ne hx, hI.xnd⟩, List.nodup_cons.mpr ⟨side_ne hy, hI.ynd⟩,
      List.mem_cons_of_mem _ hI.org⟩
  · exact ext_of_side (by simpa using hne) hx
  · exact ext_of_side (by simpa using hne) hy

theorem step_vert {pts : List Pt} (hI : Inv pts) (hX : XExt pts) (c : Letter) (hc : c.isVert = true) :
    ∃ p, stepPts pts c = .ok (p :: pts) ∧ Inv (p :: pts) ∧ YExt (p :: pts) ∧ SepPin c p pts
      ∧ ¬ XExt (p :: pts) := by
  cases pts with
  | nil => exact absurd hX (by simp [XExt])
  | cons last init =>
    obtain ⟨v, hv, hb⟩ := separate_ok hX
    have hy := side_beyond (namesUp c) (ys (last :: init))
    have hvn : v ∉ xs (last :: init) := by simpa using between_ne hb
    have hd : c.isDir = true := by cases c <;> simp_all [isVert, isDir]
    refine ⟨(v, beyond (namesUp c) (ys (last :: init))), ?_, ?_, ?_, ?_, not_ext_of_between hX.1 hb⟩
    · unfold stepPts
      rw [call_dir c hd]
      simp only [charDir, hc, if_true, hv]
      have h1 : v ≠ 0 := fun h => hvn (h ▸ hI.zero_mem_xs)
      have h2 : beyond (namesUp c) (ys (last :: init)) ≠ 0 := fun h => side_ne hy (h ▸ hI.zero_mem_ys)
      simp only [ys, List.map_cons] at h2
      simp [h1, h2]
    · exact ⟨List.nodup_cons.mpr ⟨hvn, hI.xnd⟩, List.nodup_cons.mpr ⟨side_ne hy, hI.ynd⟩,
        List.mem_cons_of_mem _ hI.org⟩
    · exact ext_of_side (by simp) hy
    · simp only [SepPin, hc, if_true]; exact ⟨hy, hb⟩

theorem step_horiz {pts : List Pt} (hI : Inv pts) (hY : YExt pts) (c : Letter) (hc : c.isHoriz = true) :
    ∃ p, stepPts pts c = .ok (p :: pts) ∧ Inv (p :: pts) ∧ XExt (p :: pts) ∧ SepPin c p pts
      ∧ ¬ YExt (p :: pts) := by
  cases pts with
  | nil => exact absurd hY (by simp [YExt])
  | cons last init =>
    obtain ⟨v, hv, hb⟩ := separate_ok hY
    have hx := side_beyond (namesRight c) (xs (last :: init))
    have hvn : v ∉ ys (last :: init) := by simpa using between_ne hb
    have hd : c.isDir = true := by cases c <;> simp_all [isHoriz, isDir]
    have hnv : c.isVert = false := by cases c <;> simp_all [isHoriz, isVert]
    refine ⟨(beyond (namesRight c) (xs (last :: init)), v), ?_, ?_, ?_, ?_, not_ext_of_between hY.1 hb⟩
    · unfold stepPts
      rw [call_dir c hd]
      simp only [charDir, hnv, Bool.false_eq_true, if_false, hv]
      have h1 : v ≠ 0 := fun h => hvn (h ▸ hI.zero_mem_ys)
      have h2 : beyond (namesRight c) (xs (last :: init)) ≠ 0 := fun h => side_ne hx (h ▸ hI.zero_mem_xs)
      simp only [xs, List.map_cons] at h2
      simp [h1, h2]
    · exact ⟨List.nodup_cons.mpr ⟨side_ne hx, hI.xnd⟩, List.nodup_cons.mpr ⟨hvn, hI.ynd⟩,
        List.mem_cons_of_mem _ hI.org⟩
    · exact ext_of_side (by simp) hx
    · simp only [SepPin, hnv, Bool.false_eq_true, if_false]; exact ⟨hx, hb⟩

/-- the `assert False` branch: a vertical letter when the newest point is not x-extremal -/
theorem step_vert_assert {last : Pt} {init : List Pt} (hne : init ≠ []) (hX : ¬ XExt (last :: init))
    (c : Letter) (hc : c.isVert = true) : stepPts (last :: init) c = .error .assertion := by
  have hd : c.isDir = true := by cases c <;> simp_all [isVert, isDir]
  have hs : separate last.1 (xs init) = .error .assertion := by
    apply separate_assert (by simpa using hne)
    · intro h; exact hX ⟨by simpa using hne, Or.inl h⟩
    · intro h; exact hX ⟨by simpa using hne, Or.inr h⟩
  unfold stepPts
  rw [call_dir c hd]
  simp only [charDir, hc, if_true, hs]

theorem step_horiz_assert {last : Pt} {init : List Pt} (hne : init ≠ []) (hY : ¬ YExt (last :: init))
    (c : Letter) (hc : c.isHoriz = true) : stepPts (last :: init) c = .error .assertion := by
  have hd : c.isDir = true := by cases c <;> simp_all [isHoriz, isDir]
  have hnv : c.isVert = false := by cases c <;> simp_all [isHoriz, isVert]
  have hs : separate last.2 (ys init) = .error .assertion := by
    apply separate_assert (by simpa using hne)
    · intro h; exact hY ⟨by simpa using hne, Or.inl h⟩
    · intro h; exact hY ⟨by simpa using hne, Or.inr h⟩
  unfold stepPts
  rw [call_dir c hd]
  simp only [charDir, hnv, Bool.false_eq_true, if_false, hs]

end C14L
