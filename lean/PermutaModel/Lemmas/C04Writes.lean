import PermutaModel.Lemmas.C04Rot
/-! C04 helper lemmas: the array-write loops of perm.py (`result[...] = ...` on `[0] * n`, Python
    index semantics) compute the closed forms of `Model/Perm.lean` on permutations. -/
open Model

namespace C04L

/-- a sequence of in-range writes never raises -/
theorem foldlM_pyStore_ok (ws : List (Int × Nat)) (r : List Nat)
    (h : ∀ w ∈ ws, 0 ≤ w.1 ∧ w.1 < r.length) :
    ws.foldlM (fun r w => pyStore r w.1 w.2) r =
      .ok (ws.foldl (fun r w => r.set w.1.toNat w.2) r) := by
  induction ws generalizing r with
  | nil => rfl
  | cons a t ih =>
    rw [List.foldlM_cons, List.foldl_cons]
    have ha := h a List.mem_cons_self
    have hs : pyStore r a.1 a.2 = .ok (r.set a.1.toNat a.2) := by
      unfold pyStore; rw [if_pos ha]
    rw [hs]
    show List.foldlM _ (r.set a.1.toNat a.2) t = _
    apply ih
    intro w hw
    rw [List.length_set]
    exact h w (List.mem_cons_of_mem _ hw)

def setAll (r : List Nat) (ws : List (Nat × Nat)) : List Nat := ws.foldl (fun r w => r.set w.1 w.2) r

theorem length_setAll (r : List Nat) (ws : List (Nat × Nat)) : (setAll r ws).length = r.length := by
  induction ws generalizing r with
  | nil => rfl
  | cons a t ih => unfold setAll at *; rw [List.foldl_cons, ih, List.length_set]

theorem getD_setAll_not_mem (r : List Nat) (ws : List (Nat × Nat)) (j : Nat)
    (h : j ∉ ws.map Prod.fst) : (setAll r ws).getD j 0 = r.getD j 0 := by
  induction ws generalizing r with
  | nil => rfl
  | cons a t ih =>
    unfold setAll at *
    rw [List.foldl_cons, ih _ (fun hm => h (by simp [hm]))]
    have hne : a.1 ≠ j := fun e => h (by simp [e])
    simp [List.getD_eq_getElem?_getD, List.getElem?_set_ne hne]

theorem getD_setAll_mem (r : List Nat) (ws : List (Nat × Nat)) (hnd : (ws.map Prod.fst).Nodup)
    (w : Nat × Nat) (hw : w ∈ ws) (hlt : w.1 < r.length) : (setAll r ws).getD w.1 0 = w.2 := by
  induction ws generalizing r with
  | nil => simp at hw
  | cons a t ih =>
    rw [List.map_cons, List.nodup_cons] at hnd
    rcases List.mem_cons.mp hw with rfl | hw
    · show (setAll (r.set w.1 w.2) t).getD w.1 0 = w.2
      rw [getD_setAll_not_mem _ _ _ hnd.1]
      simp [List.getD_eq_getElem?_getD, hlt]
    · show (setAll (r.set a.1 a.2) t).getD w.1 0 = w.2
      exact ih _ hnd.2 hw (by rw [List.length_set]; exact hlt)

/-- the common shape of the four loops: for an index map `ix` that is an involution of `[0, n)`,
    `for idx, val in enumerate(p): result[ix val] = vf idx` yields `j ↦ vf (position of ix j)` -/
theorem pyWrites_perm {p : NSeq} (hp : IsPerm p) (ixI : Nat → Int) (ix vf : Nat → Nat)
    (h1 : ∀ v, v < p.length → ixI v = (ix v : Int)) (h2 : ∀ v, v < p.length → ix v < p.length)
    (h3 : ∀ v, v < p.length → ix (ix v) = v) :
    pyWrites p.length (p.zipIdx.map fun vi => (ixI vi.1, vf vi.2)) =
      .ok ((List.range p.length).map fun j => vf (p.idxOf (ix j))) := by
  unfold pyWrites
  have hmem : ∀ vi ∈ p.zipIdx, vi.2 < p.length ∧ p.getD vi.2 0 = vi.1 := by
    intro vi hvi
    rw [List.mem_zipIdx_iff_getElem?] at hvi
    have hlt : vi.2 < p.length := by
      by_contra hn
      rw [List.getElem?_eq_none (by omega)] at hvi; exact absurd hvi (by simp)
    exact ⟨hlt, by simp [List.getD_eq_getElem?_getD, hvi]⟩
  have hval : ∀ vi ∈ p.zipIdx, vi.1 < p.length := by
    intro vi hvi
    obtain ⟨hlt, e⟩ := hmem vi hvi
    rw [← e]; exact hp.getD_lt hlt
  rw [foldlM_pyStore_ok]
  · congr 1
    -- switch to natural-number indices
    have e1 : (p.zipIdx.map fun vi => (ixI vi.1, vf vi.2)).foldl (fun r w => r.set w.1.toNat w.2)
        (List.replicate p.length 0) = setAll (List.replicate p.length 0)
          (p.zipIdx.map fun vi => (ix vi.1, vf vi.2)) := by
      unfold setAll
      rw [List.foldl_map, List.foldl_map]
      apply List.foldl_ext
      intro r vi hvi
      simp only [h1 vi.1 (hval vi hvi), Int.toNat_natCast]
    rw [e1]
    apply ext_getD (by rw [length_setAll]; simp)
    intro j hj
    have hj' : j < p.length := by rw [length_setAll] at hj; simpa using hj
    rw [getD_map_range _ hj']
    -- the write that hits position j comes from the entry `ix j` of p
    have hv := h2 j hj'
    have hi := hp.idxOf_lt hv
    have hin : (ix j, p.idxOf (ix j)) ∈ p.zipIdx := by
      rw [List.mem_zipIdx_iff_getElem?]
      simp only
      rw [List.getElem?_eq_getElem hi, List.getElem_idxOf hi]
    have hnd : ((p.zipIdx.map fun vi => (ix vi.1, vf vi.2)).map Prod.fst).Nodup := by
      rw [List.map_map]
      have : (Prod.fst ∘ fun vi : Nat × Nat => (ix vi.1, vf vi.2)) = ix ∘ Prod.fst := rfl
      rw [this, ← List.map_map, List.zipIdx_map_fst]
      refine List.Nodup.map_on ?_ hp.1
      intro x hx y hy hxy
      rw [← h3 x (hp.2 x hx), ← h3 y (hp.2 y hy), hxy]
    have := getD_setAll_mem (List.replicate p.length 0) _ hnd (ix (ix j), vf (p.idxOf (ix j)))
      (List.mem_map.mpr ⟨_, hin, rfl⟩) (by simp [h3 j hj', hj'])
    simp only [h3 j hj'] at this
    exact this
  · intro w hw
    obtain ⟨vi, hvi, rfl⟩ := List.mem_map.mp hw
    simp only [List.length_replicate]
    rw [h1 vi.1 (hval vi hvi)]
    have := h2 vi.1 (hval vi hvi)
    omega

theorem inverseW_eq {p : NSeq} (hp : IsPerm p) : inverseW p = .ok (inverse p) := by
  unfold inverseW
  exact (pyWrites_perm hp (fun v => (v : Int)) id id (fun _ _ => rfl) (fun _ h => h) (fun _ _ => rfl)).trans rfl

theorem rotate1W_eq {p : NSeq} (hp : IsPerm p) : rotate1W p = .ok (rotate1 p) := by
  unfold rotate1W
  rw [pyWrites_perm hp (fun v => (v : Int)) id (fun i => p.length - i - 1) (fun _ _ => rfl)
    (fun _ h => h) (fun _ _ => rfl)]
  congr 1
  unfold rotate1
  apply List.map_congr_left
  intro v _
  simp only [id]; omega

theorem rotate3W_eq {p : NSeq} (hp : IsPerm p) : rotate3W p = .ok (rotate3 p) := by
  unfold rotate3W
  exact (pyWrites_perm hp (fun v => (p.length : Int) - v - 1) (fun v => p.length - 1 - v) id
    (fun v hv => by omega) (fun v hv => by omega) (fun v hv => by omega)).trans rfl

theorem flipAntidiagonalW_eq {p : NSeq} (hp : IsPerm p) :
    flipAntidiagonalW p = .ok (flipAntidiagonal p) := by
  unfold flipAntidiagonalW
  rw [pyWrites_perm hp (fun v => (p.length : Int) - v - 1) (fun v => p.length - 1 - v)
    (fun i => p.length - i - 1) (fun v hv => by omega) (fun v hv => by omega) (fun v hv => by omega)]
  congr 1
  unfold flipAntidiagonal
  apply List.map_congr_left
  intro v _
  omega

theorem rotateW_eq {p : NSeq} (hp : IsPerm p) (t : Int) : rotateW p t = .ok (rotate p t) := by
  unfold rotateW rotate
  split_ifs
  · rfl
  · rfl
  · exact rotate1W_eq hp
  · exact rotate3W_eq hp

end C04L
