import PermutaModel.Lemmas.C14Signs
/-! C14 soundness helpers: algebra of `GeoRun` and uniqueness of the order type of a geometric run. -/
namespace C14S
open Model.C14 Model.C14.Letter Spec.C14 Proto C14L

theorem geoRun_append (a b : Word) : ∀ (s t : List Pt),
    GeoRun s (a ++ b) t ↔ ∃ mid, GeoRun s a mid ∧ GeoRun mid b t := by
  induction a with
  | nil => intro s t; simp [GeoRun]
  | cons c a ih =>
    intro s t
    simp only [List.cons_append, GeoRun, ih]
    constructor
    · rintro ⟨p, hp, mid, h1, h2⟩; exact ⟨mid, ⟨p, hp, h1⟩, h2⟩
    · rintro ⟨mid, ⟨p, hp, h1⟩, h2⟩; exact ⟨p, hp, mid, h1, h2⟩

theorem geoRun_snoc (a : Word) (c : Letter) (s t : List Pt) :
    GeoRun s (a ++ [c]) t ↔ ∃ mid p, GeoRun s a mid ∧ Geo c p mid ∧ t = p :: mid := by
  rw [geoRun_append]
  simp only [GeoRun]
  constructor
  · rintro ⟨mid, h1, p, hp, rfl⟩; exact ⟨mid, p, h1, hp, rfl⟩
  · rintro ⟨mid, p, h1, hp, rfl⟩; exact ⟨mid, h1, p, hp, rfl⟩

theorem geoRun_suffix (a : Word) : ∀ (s t : List Pt), GeoRun s a t →
    ∃ newer, t = newer ++ s ∧ newer.length = a.length := by
  induction a with
  | nil => intro s t h; simp only [GeoRun] at h; subst h; exact ⟨[], rfl, rfl⟩
  | cons c a ih =>
    intro s t h
    obtain ⟨p, _, h⟩ := h
    obtain ⟨newer, rfl, hl⟩ := ih _ _ h
    exact ⟨newer ++ [p], by simp, by simp [hl]⟩

/-- the two point lists are order-equivalent: paired position by position, every comparison of
    abscissae and of ordinates has the same outcome -/
def OE (S Q : List Pt) : Prop :=
  S.length = Q.length ∧ ∀ x ∈ S.zip Q, ∀ y ∈ S.zip Q,
    (x.1.1 < y.1.1 ↔ x.2.1 < y.2.1) ∧ (x.1.2 < y.1.2 ↔ x.2.2 < y.2.2)


theorem side_lt {pos : Bool} {v v' : Rat} {l l' : List Rat} (h : Side pos v l) (h' : Side pos v' l')
    {a a' : Rat} (ha : a ∈ l) (ha' : a' ∈ l') : (v < a ↔ v' < a') ∧ (a < v ↔ a' < v') := by
  have h1 := h a ha
  have h2 := h' a' ha'
  cases pos
  · simp only [Bool.false_eq_true, if_false] at h1 h2
    exact ⟨⟨fun _ => h2, fun _ => h1⟩, ⟨fun h => absurd h (by grind), fun h => absurd h (by grind)⟩⟩
  · simp only [if_true] at h1 h2
    exact ⟨⟨fun h => absurd h (by grind), fun h => absurd h (by grind)⟩, ⟨fun _ => h2, fun _ => h1⟩⟩

/-- two values `v`, `v'` placed "between the previous value and all earlier ones" in two
    order-equivalent configurations compare the same way with everything -/
theorem between_lt {v v' last last' : Rat} {init init' : List Rat}
    (h : Between v last init) (h' : Between v' last' init')
    {y y' : Rat} (hy : y ∈ init) (hy' : y' ∈ init') (hly : last < y ↔ last' < y')
    (hyl : y < last ↔ y' < last') :
    ((v < last ↔ v' < last') ∧ (last < v ↔ last' < v'))
    ∧ ∀ a ∈ init, ∀ a' ∈ init', (v < a ↔ v' < a') ∧ (a < v ↔ a' < v') := by
  rcases h with ⟨h1, h2⟩ | ⟨h1, h2⟩ <;> rcases h' with ⟨h1', h2'⟩ | ⟨h1', h2'⟩
  · refine ⟨⟨⟨fun _ => h2', fun _ => h2⟩, ⟨fun h => absurd h (by grind), fun h => absurd h (by grind)⟩⟩, ?_⟩
    intro a ha a' ha'
    have := h1 a ha; have := h1' a' ha'
    exact ⟨⟨fun h => absurd h (by grind), fun h => absurd h (by grind)⟩, ⟨fun _ => by assumption, fun _ => by assumption⟩⟩
  · exfalso
    have := h1 y hy; have := h1' y' hy'
    have : y < last := by grind
    have : y' < last' := hyl.mp this
    grind
  · exfalso
    have := h1 y hy; have := h1' y' hy'
    have : last < y := by grind
    have : last' < y' := hly.mp this
    grind
  · refine ⟨⟨⟨fun h => absurd h (by grind), fun h => absurd h (by grind)⟩, ⟨fun _ => h2', fun _ => h2⟩⟩, ?_⟩
    intro a ha a' ha'
    have := h1 a ha; have := h1' a' ha'
    exact ⟨⟨fun _ => by assumption, fun _ => by assumption⟩, ⟨fun h => absurd h (by grind), fun h => absurd h (by grind)⟩⟩


/-- the new pair compares with every old pair the same way on both sides -/
def NewOld (p p' : Pt) (S S' : List Pt) : Prop :=
  ∀ z ∈ S.zip S', ((p.1 < z.1.1 ↔ p'.1 < z.2.1) ∧ (z.1.1 < p.1 ↔ z.2.1 < p'.1))
    ∧ ((p.2 < z.1.2 ↔ p'.2 < z.2.2) ∧ (z.1.2 < p.2 ↔ z.2.2 < p'.2))

theorem oe_cons {p p' : Pt} {S S' : List Pt} (hO : OE S S') (hN : NewOld p p' S S') :
    OE (p :: S) (p' :: S') := by
  refine ⟨by simp [hO.1], ?_⟩
  intro x hx y hy
  simp only [List.zip_cons_cons, List.mem_cons] at hx hy
  rcases hx with rfl | hx <;> rcases hy with rfl | hy
  · simp
  · exact ⟨(hN y hy).1.1, (hN y hy).2.1⟩
  · exact ⟨(hN x hx).1.2, (hN x hx).2.2⟩
  · exact hO.2 x hx y hy

theorem mem_xs_of_zip {S S' : List Pt} {z : Pt × Pt} (h : z ∈ S.zip S') :
    z.1.1 ∈ xs S ∧ z.2.1 ∈ xs S' ∧ z.1.2 ∈ ys S ∧ z.2.2 ∈ ys S' := by
  obtain ⟨z1, z2⟩ := z
  have := List.of_mem_zip h
  exact ⟨List.mem_map.mpr ⟨_, this.1, rfl⟩, List.mem_map.mpr ⟨_, this.2, rfl⟩,
    List.mem_map.mpr ⟨_, this.1, rfl⟩, List.mem_map.mpr ⟨_, this.2, rfl⟩⟩

/-- one letter: the geometric condition determines every comparison of the new pin -/
theorem newOld_step {c : Letter} {p p' : Pt} {S S' : List Pt} (hG : Geo c p S) (hG' : Geo c p' S')
    (hO : OE S S') (hlen : 2 ≤ S.length ∨ c.isQuad = true) : NewOld p p' S S' := by
  by_cases hq : c.isQuad = true
  · simp only [Geo, hq, if_true, IndepPin] at hG hG'
    intro z hz
    obtain ⟨m1, m2, m3, m4⟩ := mem_xs_of_zip hz
    exact ⟨side_lt hG.1 hG'.1 m1 m2, side_lt hG.2 hG'.2 m3 m4⟩
  · have hlen : 2 ≤ S.length := by
      rcases hlen with h | h
      · exact h
      · exact absurd h hq
    have hl' : 2 ≤ S'.length := hO.1 ▸ hlen
    simp only [Geo, hq, Bool.false_eq_true, if_false] at hG hG'
    match S, S', hlen, hl' with
    | last :: y :: init, last' :: y' :: init', _, _ =>
      have hpair := hO.2 (last, last') (by simp) (y, y') (by simp)
      have hpair' := hO.2 (y, y') (by simp) (last, last') (by simp)
      simp only at hpair hpair'
      by_cases hv : c.isVert = true
      · simp only [SepPin, hv, if_true] at hG hG'
        obtain ⟨b1, b2⟩ := between_lt hG.2 hG'.2 (y := y.1) (y' := y'.1) (by simp) (by simp)
          hpair.1 hpair'.1
        intro z hz
        obtain ⟨_, _, m3, m4⟩ := mem_xs_of_zip hz
        refine ⟨?_, side_lt hG.1 hG'.1 m3 m4⟩
        simp only [List.zip_cons_cons, List.mem_cons] at hz
        rcases hz with rfl | hz
        · exact b1
        · have hz' : z ∈ (y :: init).zip (y' :: init') := by simpa using hz
          obtain ⟨m1, m2, _, _⟩ := mem_xs_of_zip hz'
          exact b2 _ m1 _ m2
      · simp only [SepPin, hv, Bool.false_eq_true, if_false] at hG hG'
        obtain ⟨b1, b2⟩ := between_lt hG.2 hG'.2 (y := y.2) (y' := y'.2) (by simp) (by simp)
          hpair.2 hpair'.2
        intro z hz
        obtain ⟨m1, m2, _, _⟩ := mem_xs_of_zip hz
        refine ⟨side_lt hG.1 hG'.1 m1 m2, ?_⟩
        simp only [List.zip_cons_cons, List.mem_cons] at hz
        rcases hz with rfl | hz
        · exact b1
        · have hz' : z ∈ (y :: init).zip (y' :: init') := by simpa using hz
          obtain ⟨_, _, m3, m4⟩ := mem_xs_of_zip hz'
          exact b2 _ m3 _ m4

/-- **uniqueness of the order type**: two geometric runs of the same word from order-equivalent
    configurations end in order-equivalent configurations -/
theorem geoRun_unique (u : Word) : ∀ (S S' T T' : List Pt), GeoRun S u T → GeoRun S' u T' → OE S S' →
    (2 ≤ S.length ∨ ((∀ c, u.head? = some c → c.isQuad = true) ∧ 1 ≤ S.length)) → OE T T' := by
  induction u with
  | nil => intro S S' T T' h h' hO _; simp only [GeoRun] at h h'; subst h h'; exact hO
  | cons c u ih =>
    intro S S' T T' h h' hO hlen
    obtain ⟨p, hp, h⟩ := h
    obtain ⟨p', hp', h'⟩ := h'
    have hl : 2 ≤ S.length ∨ c.isQuad = true := by
      rcases hlen with h | h
      · exact Or.inl h
      · exact Or.inr (h.1 c rfl)
    refine ih _ _ _ _ h h' (oe_cons hO (newOld_step hp hp' hO hl)) (Or.inl ?_)
    simp only [List.length_cons]
    rcases hlen with h | h <;> omega

end C14S
