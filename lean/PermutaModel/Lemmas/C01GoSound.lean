import PermutaModel.Lemmas.C01Complete
open Model

def CeilOK (π : NSeq) : Prop := ∀ k, CeilSpec' π k k (leftCeil π k)
theorem ceilOK (π : NSeq) : CeilOK π := fun k => leftCeil_spec' π k

structure GoodPrefix (π σ : NSeq) (i : Nat) (occ : List Nat) : Prop where
  lt : ∀ x ∈ occ, x < i
  inc : occ.Pairwise (· < ·)
  iso : PrefixIso π σ occ

structure GoodOcc (π σ : NSeq) (c : List Nat) : Prop where
  len : c.length = π.length
  bdd : ∀ x ∈ c, x < σ.length
  inc : c.Pairwise (· < ·)
  iso : PrefixIso π σ c

theorem GoodPrefix.snoc {π σ : NSeq} {i : Nat} {occ : List Nat} (h : GoodPrefix π σ i occ)
    (hiso : PrefixIso π σ (occ ++ [i])) : GoodPrefix π σ (i+1) (occ ++ [i]) where
  lt := by
    intro x hx
    rcases List.mem_append.mp hx with hx | hx
    · have := h.lt x hx; omega
    · simp at hx; omega
  inc := by
    rw [List.pairwise_append]
    refine ⟨h.inc, List.pairwise_singleton _ _, ?_⟩
    intro a ha b hb
    simp at hb; subst hb; exact h.lt a ha
  iso := hiso

theorem GoodPrefix.mono {π σ : NSeq} {i : Nat} {occ : List Nat} (h : GoodPrefix π σ i occ) :
    GoodPrefix π σ (i+1) occ :=
  ⟨fun x hx => Nat.lt_succ_of_lt (h.lt x hx), h.inc, h.iso⟩

theorem go_sound (π σ : NSeq) (hinj : PInj π) (hceil : CeilOK π)
    (i k : Nat) (occ : List Nat) (hk : occ.length = k) (hkn : k < π.length)
    (hgood : GoodPrefix π σ i occ) :
    ∀ c ∈ go σ (patternDetails π) π.length i k occ, GoodOcc π σ c := by
  fun_induction go σ (patternDetails π) π.length i k occ with
  | case1 i k occ hcut => intro c hc; simp at hc
  | case2 i k occ hcut hi hfit hlast ih =>
    intro c hc
    rcases List.mem_cons.mp hc with hc | hc
    · subst hc
      have hiso := fits_sound π σ occ i (by omega) hinj hgood.iso (hk ▸ hceil k) (by subst hk; exact hfit)
      have g := hgood.snoc hiso
      refine ⟨by simp; omega, ?_, g.inc, g.iso⟩
      intro x hx
      have := g.lt x hx; omega
    · exact ih hk hkn hgood.mono c hc
  | case3 i k occ hcut hi hfit hlast ih1 ih2 =>
    intro c hc
    rcases List.mem_append.mp hc with hc | hc
    · have hiso := fits_sound π σ occ i (by omega) hinj hgood.iso (hk ▸ hceil k) (by subst hk; exact hfit)
      exact ih1 (by simp; omega) (by omega) (hgood.snoc hiso) c hc
    · exact ih2 hk hkn hgood.mono c hc
  | case4 i k occ hcut hi hfit ih =>
    intro c hc
    exact ih hk hkn hgood.mono c hc
  | case5 i k occ hcut hi => intro c hc; simp at hc
