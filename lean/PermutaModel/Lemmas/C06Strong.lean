import PermutaModel.Lemmas.C06Sound
import PermutaModel.Lemmas.C06Sub
/-! Witnesses for "the induced sub-pattern is the strongest": the identity occurrence of `μ` in its own
    pattern, and the occurrence of `μ` in the one-point inflation `insertAt π a b`. -/
open Model

namespace C06Lemmas
open MeshLemmas

theorem range_getD {n a : Nat} (ha : a < n) : (List.range n).getD a 0 = a := by
  simp [List.getD_eq_getElem?_getD, ha]

/-- a mesh pattern occurs in its own underlying permutation, at all positions -/
theorem idOcc (μ : Mesh) : MeshOcc μ μ.pattern (List.range μ.pattern.length) where
  occ := {
    len := List.length_range
    inc := List.pairwise_lt_range
    rng := fun i hi => List.mem_range.mp hi
    iso := by intro a b ha hb; rw [range_getD ha, range_getD hb] }
  free := by intro i hi hni; exact absurd (List.mem_range.mpr hi) hni

theorem compose_range {c : List Nat} {n : Nat} (hr : ∀ j ∈ c, j < n) : Spec.compose (List.range n) c = c := by
  unfold Spec.compose
  conv_rhs => rw [← List.map_id c]
  apply List.map_congr_left
  intro j hj; rw [range_getD (hr j hj)]; rfl

theorem countLt_range {n a : Nat} (ha : a ≤ n) : ((List.range n).filter (· < a)).length = a := by
  rw [countLt_eq_iff (List.range n) List.pairwise_lt_range a a (by simpa using ha)]
  refine ⟨?_, fun h => ?_⟩
  · by_cases h0 : a = 0
    · exact Or.inl h0
    · right; rw [range_getD (by omega)]; omega
  · rw [range_getD (by simpa using h)]

theorem countLt_perm {π : NSeq} (hπ : IsPerm π) {b : Nat} (hb : b ≤ π.length) :
    (π.filter (· < b)).length = b := by
  rw [((isPerm_perm_range hπ).filter _).length_eq]; exact countLt_range hb

/-- the index map of the occurrence of `π` in `insertAt π a b` -/
def skip (a j : Nat) : Nat := if j < a then j else j + 1
/-- the value map of that occurrence -/
def lift (b w : Nat) : Nat := if w < b then w else w + 1

theorem skip_lt_iff (a j j' : Nat) : skip a j < skip a j' ↔ j < j' := by unfold skip; split_ifs <;> omega
theorem lift_lt_iff (b w w' : Nat) : lift b w < lift b w' ↔ w < w' := by unfold lift; split_ifs <;> omega
theorem skip_lt_self_iff (a j : Nat) : skip a j < a ↔ j < a := by unfold skip; split_ifs <;> omega
theorem lift_lt_self_iff (b w : Nat) : lift b w < b ↔ w < b := by unfold lift; split_ifs <;> omega
theorem skip_ne (a j : Nat) : skip a j ≠ a := by unfold skip; split_ifs <;> omega
theorem lift_ne (b w : Nat) : lift b w ≠ b := by unfold lift; split_ifs <;> omega

theorem insertAt_eq (π : NSeq) (a b : Nat) :
    insertAt π a b = (π.take a).map (lift b) ++ [b] ++ (π.drop a).map (lift b) := rfl

theorem insertAt_length (π : NSeq) (a b : Nat) : (insertAt π a b).length = π.length + 1 := by
  rw [insertAt_eq]
  simp only [List.length_append, List.length_map, List.length_take, List.length_drop, List.length_cons,
    List.length_nil]
  omega

theorem insertAt_getD_self {π : NSeq} {a : Nat} (ha : a ≤ π.length) (b : Nat) :
    (insertAt π a b).getD a 0 = b := by
  rw [insertAt_eq, List.append_assoc, List.getD_eq_getElem?_getD,
    List.getElem?_append_right (by simp [Nat.min_eq_left ha])]
  simp [Nat.min_eq_left ha]

theorem insertAt_getD_skip {π : NSeq} {a : Nat} (ha : a ≤ π.length) (b : Nat) {j : Nat} (hj : j < π.length) :
    (insertAt π a b).getD (skip a j) 0 = lift b (π.getD j 0) := by
  rw [insertAt_eq, List.append_assoc, List.getD_eq_getElem?_getD]
  unfold skip
  by_cases hja : j < a
  · simp only [hja, if_true]
    rw [List.getElem?_append_left (by simp [Nat.min_eq_left ha]; exact hja)]
    simp [List.getElem?_take, hja, List.getD_eq_getElem?_getD, List.getElem?_eq_getElem hj]
  · simp only [hja, if_false]
    rw [List.getElem?_append_right (by simp [Nat.min_eq_left ha]; omega)]
    have hidx : j + 1 - ((π.take a).map (lift b)).length = (j - a) + 1 := by
      simp [Nat.min_eq_left ha]; omega
    rw [hidx]
    simp only [List.singleton_append, List.getElem?_cons_succ, List.getElem?_map, List.getElem?_drop]
    have : a + (j - a) = j := by omega
    rw [this]
    simp [List.getD_eq_getElem?_getD, List.getElem?_eq_getElem hj]

theorem insertAt_isPerm {π : NSeq} (hπ : IsPerm π) {a b : Nat} (hb : b ≤ π.length) :
    IsPerm (insertAt π a b) := by
  have hperm : (insertAt π a b).Perm (b :: π.map (lift b)) := by
    rw [insertAt_eq, List.append_assoc]
    refine (List.perm_middle).trans ?_
    show (b :: ((π.take a).map (lift b) ++ (π.drop a).map (lift b))).Perm _
    rw [← List.map_append, List.take_append_drop]
  constructor
  · rw [hperm.nodup_iff, List.nodup_cons]
    constructor
    · intro h
      obtain ⟨w, _, hw⟩ := List.mem_map.mp h
      exact lift_ne b w hw
    · apply hπ.1.map
      intro w w' h
      have h1 := lift_lt_iff b w w'
      have h2 := lift_lt_iff b w' w
      omega
  · intro x hx
    rw [insertAt_length]
    rcases List.mem_cons.mp (hperm.mem_iff.mp hx) with rfl | h
    · omega
    · obtain ⟨w, hw, rfl⟩ := List.mem_map.mp h
      have := hπ.2 w hw
      unfold lift; split_ifs <;> omega

/-- the occurrence of `π` in its one-point inflation -/
def skipOcc (n a : Nat) : List Nat := (List.range n).map (skip a)

theorem skipOcc_getD {n a j : Nat} (hj : j < n) : (skipOcc n a).getD j 0 = skip a j := by
  simp [skipOcc, List.getD_eq_getElem?_getD, hj]

theorem mem_skipOcc {n a i : Nat} (ha : a ≤ n) (hi : i < n + 1) : i ∈ skipOcc n a ↔ i ≠ a := by
  unfold skipOcc
  rw [List.mem_map]
  constructor
  · rintro ⟨j, _, rfl⟩; exact skip_ne a j
  · intro hne
    by_cases hia : i < a
    · exact ⟨i, List.mem_range.mpr (by omega), by simp [skip, hia]⟩
    · exact ⟨i - 1, List.mem_range.mpr (by omega), by unfold skip; split_ifs <;> omega⟩

theorem filter_skipOcc_length (n a : Nat) (p : Nat → Bool) :
    ((skipOcc n a).filter p).length = ((List.range n).filter fun j => p (skip a j)).length := by
  unfold skipOcc
  rw [List.filter_map, List.length_map]; rfl

theorem filter_range_getD (π : NSeq) (p : Nat → Bool) :
    ((List.range π.length).filter fun j => p (π.getD j 0)).length = (π.filter p).length := by
  have h : π = (List.range π.length).map (fun j => π.getD j 0) := by
    apply List.ext_getElem
    · simp
    · intro i h1 h2; simp [List.getD_eq_getElem?_getD, List.getElem?_eq_getElem h1]
  conv_rhs => rw [h]
  rw [List.filter_map, List.length_map]; rfl

/-- `μ` occurs in the inflation of its pattern by one point placed in an unshaded cell `(a, b)` -/
theorem inflateOcc (μ : Mesh) (hπ : IsPerm μ.pattern) {a b : Nat} (ha : a ≤ μ.pattern.length)
    (hb : b ≤ μ.pattern.length) (hab : (a, b) ∉ μ.shading) :
    MeshOcc μ (insertAt μ.pattern a b) (skipOcc μ.pattern.length a) := by
  have hcell : Spec.cellOf (insertAt μ.pattern a b) (skipOcc μ.pattern.length a) a = (a, b) := by
    unfold Spec.cellOf
    rw [filter_skipOcc_length, filter_skipOcc_length, insertAt_getD_self ha]
    congr 1
    · have : ((List.range μ.pattern.length).filter fun j => decide (skip a j < a))
          = (List.range μ.pattern.length).filter (· < a) := by
        apply List.filter_congr; intro j _; rw [decide_eq_decide]; exact skip_lt_self_iff a j
      rw [this]; exact countLt_range ha
    · have : ((List.range μ.pattern.length).filter fun j =>
            decide ((insertAt μ.pattern a b).getD (skip a j) 0 < b))
          = (List.range μ.pattern.length).filter fun j => decide (μ.pattern.getD j 0 < b) := by
        apply List.filter_congr; intro j hj
        rw [decide_eq_decide, insertAt_getD_skip ha b (List.mem_range.mp hj)]
        exact lift_lt_self_iff b _
      rw [this, filter_range_getD μ.pattern (fun w => decide (w < b))]
      exact countLt_perm hπ hb
  refine ⟨⟨by simp [skipOcc], ?_, ?_, ?_⟩, ?_⟩
  · unfold skipOcc StrictInc
    rw [List.pairwise_map]
    exact List.pairwise_lt_range.imp (fun h => (skip_lt_iff a _ _).mpr h)
  · intro i hi
    obtain ⟨j, hj, rfl⟩ := List.mem_map.mp hi
    rw [insertAt_length]
    have := List.mem_range.mp hj
    unfold skip; split_ifs <;> omega
  · intro j j' hj hj'
    rw [skipOcc_getD hj, skipOcc_getD hj', insertAt_getD_skip ha b hj, insertAt_getD_skip ha b hj']
    exact (lift_lt_iff b _ _).symm
  · intro i hi hni
    rw [insertAt_length] at hi
    have : i = a := by
      by_contra hne; exact hni ((mem_skipOcc ha hi).mpr hne)
    subst this
    rw [hcell]; exact hab

/-- where the inserted point lies relative to the chosen points `c` of the inflated occurrence -/
theorem inflate_cell (μ : Mesh) {a b : Nat} (ha : a ≤ μ.pattern.length) (c : List Nat)
    (hr : ∀ j ∈ c, j < μ.pattern.length) :
    Spec.cellOf (insertAt μ.pattern a b) (Spec.compose (skipOcc μ.pattern.length a) c) a
      = (Spec.countLt c a, Spec.countLt (Spec.pick μ.pattern c) b) := by
  unfold Spec.cellOf Spec.countLt
  rw [filter_compose_length, filter_compose_length, insertAt_getD_self ha, filter_pick_length]
  congr 2
  · apply List.filter_congr; intro j hj
    rw [decide_eq_decide, skipOcc_getD (hr j hj)]; exact skip_lt_self_iff a j
  · apply List.filter_congr; intro j hj
    rw [decide_eq_decide, skipOcc_getD (hr j hj), insertAt_getD_skip ha b (hr j hj)]
    exact lift_lt_self_iff b _

theorem not_mem_compose_skip {n a : Nat} (c : List Nat) (hr : ∀ j ∈ c, j < n) :
    a ∉ Spec.compose (skipOcc n a) c := by
  intro h
  obtain ⟨j, hjc, hj⟩ := List.mem_map.mp h
  rw [skipOcc_getD (hr j hjc)] at hj
  exact skip_ne a j hj

end C06Lemmas
