import PermutaModel.Lemmas.C19Core

/-! C19 helper lemmas, part 3: the prefix-set tests `is_sum_decomposable` / `is_skew_decomposable`
    against their definitions ("is a direct / skew sum of two non-empty permutations"). -/
open Model.C13 Model.C19

namespace C19
open C13 (mem_of_isPerm)

/-- `σ = α ⊕ β` with both parts non-empty permutations -/
def SumDecomposable (q : NSeq) : Prop :=
  ∃ a b : NSeq, a ≠ [] ∧ b ≠ [] ∧ IsPerm a ∧ IsPerm b ∧ q = Model.directSum a b

/-- `σ = α ⊖ β` with both parts non-empty permutations -/
def SkewDecomposable (q : NSeq) : Prop :=
  ∃ a b : NSeq, a ≠ [] ∧ b ≠ [] ∧ IsPerm a ∧ IsPerm b ∧ q = Model.skewSum a b

theorem setEqRange_iff (lo hi : Nat) (l : List Nat) :
    setEqRange lo hi l = true ↔ (∀ x ∈ l, lo ≤ x ∧ x < hi) ∧ ∀ v, lo ≤ v → v < hi → v ∈ l := by
  unfold setEqRange
  simp only [Bool.and_eq_true, List.all_eq_true, decide_eq_true_iff, List.mem_range'_1, List.contains_eq_mem]
  constructor
  · rintro ⟨h1, h2⟩
    exact ⟨h1, fun v hv1 hv2 => h2 v ⟨hv1, by omega⟩⟩
  · rintro ⟨h1, h2⟩
    exact ⟨h1, fun v hv => h2 v hv.1 (by omega)⟩

theorem isSumDecomposable_iff_cut (q : NSeq) :
    isSumDecomposable q = true ↔ ∃ i, 1 ≤ i ∧ i < q.length ∧ setEqRange 0 i (q.take i) = true := by
  unfold isSumDecomposable
  simp only [List.any_eq_true, List.mem_range'_1]
  constructor
  · rintro ⟨i, ⟨h1, h2⟩, h3⟩; exact ⟨i, h1, by omega, h3⟩
  · rintro ⟨i, h1, h2, h3⟩; exact ⟨i, ⟨h1, by omega⟩, h3⟩

theorem isSkewDecomposable_iff_cut (q : NSeq) :
    isSkewDecomposable q = true ↔
      ∃ i, 1 ≤ i ∧ i < q.length ∧ setEqRange (q.length - i) q.length (q.take i) = true := by
  unfold isSkewDecomposable
  simp only [List.any_eq_true, List.mem_range'_1]
  constructor
  · rintro ⟨i, ⟨h1, h2⟩, h3⟩; exact ⟨i, h1, by omega, h3⟩
  · rintro ⟨i, h1, h2, h3⟩; exact ⟨i, ⟨h1, by omega⟩, h3⟩

/-- in a duplicate-free list, an element of the tail part is not in the head part -/
theorem not_mem_take_of_mem_drop {q : NSeq} (hq : q.Nodup) {i : Nat} {x : Nat} (hx : x ∈ q.drop i) :
    x ∉ q.take i := by
  have := (List.take_append_drop i q) ▸ hq
  exact fun h => (List.nodup_append.mp this).2.2 x h x hx rfl

/-- **`is_sum_decomposable` decides "direct sum of two non-empty permutations"** -/
theorem isSumDecomposable_iff (q : NSeq) (hq : IsPerm q) : isSumDecomposable q = true ↔ SumDecomposable q := by
  rw [isSumDecomposable_iff_cut]
  constructor
  · rintro ⟨i, h1, h2, h3⟩
    obtain ⟨hlt, hall⟩ := (setEqRange_iff 0 i _).mp h3
    have hlen : (q.take i).length = i := by simp; omega
    have hdrop : ∀ x ∈ q.drop i, i ≤ x := by
      intro x hx
      by_contra hc
      exact not_mem_take_of_mem_drop hq.1 hx (hall x (Nat.zero_le _) (by omega))
    refine ⟨q.take i, (q.drop i).map (· - i), ?_, ?_, ?_, ?_, ?_⟩
    · intro e; rw [e] at hlen; simp at hlen; omega
    · intro e
      have := congrArg List.length e
      simp at this; omega
    · exact ⟨hq.1.sublist (List.take_sublist _ _), fun x hx => by rw [hlen]; exact (hlt x hx).2⟩
    · refine ⟨?_, ?_⟩
      · refine List.Nodup.map_on ?_ (hq.1.sublist (List.drop_sublist _ _))
        intro x hx y hy hxy
        have := hdrop x hx; have := hdrop y hy
        omega
      · intro x hx
        obtain ⟨y, hy, rfl⟩ := List.mem_map.mp hx
        have h1' := hdrop y hy
        have h2' := hq.2 y (List.mem_of_mem_drop hy)
        simp only [List.length_map, List.length_drop]
        omega
    · unfold Model.directSum
      rw [hlen, List.map_map]
      have : (q.drop i).map ((· + i) ∘ (· - i)) = q.drop i := by
        rw [List.map_congr_left (g := id)]
        · simp
        · intro x hx; have := hdrop x hx; simp; omega
      rw [this, List.take_append_drop]
  · rintro ⟨a, b, ha, hb, hpa, hpb, rfl⟩
    unfold Model.directSum
    refine ⟨a.length, List.length_pos_iff.mpr ha, ?_, ?_⟩
    · have := List.length_pos_iff.mpr hb
      simp; omega
    · rw [List.take_left' rfl, setEqRange_iff]
      exact ⟨fun x hx => ⟨Nat.zero_le _, hpa.2 x hx⟩, fun v _ hv => mem_of_isPerm hpa hv⟩

/-- **`is_skew_decomposable` decides "skew sum of two non-empty permutations"** -/
theorem isSkewDecomposable_iff (q : NSeq) (hq : IsPerm q) :
    isSkewDecomposable q = true ↔ SkewDecomposable q := by
  rw [isSkewDecomposable_iff_cut]
  constructor
  · rintro ⟨i, h1, h2, h3⟩
    obtain ⟨hlt, hall⟩ := (setEqRange_iff _ _ _).mp h3
    have hlen : (q.take i).length = i := by simp; omega
    have hdrop : ∀ x ∈ q.drop i, x < q.length - i := by
      intro x hx
      by_contra hc
      exact not_mem_take_of_mem_drop hq.1 hx (hall x (by omega) (hq.2 x (List.mem_of_mem_drop hx)))
    have hdl : (q.drop i).length = q.length - i := by simp
    refine ⟨(q.take i).map (· - (q.length - i)), q.drop i, ?_, ?_, ?_, ?_, ?_⟩
    · intro e
      have := congrArg List.length e
      rw [List.length_map, hlen] at this
      simp at this; omega
    · intro e; rw [e] at hdl; simp at hdl; omega
    · refine ⟨?_, ?_⟩
      · refine List.Nodup.map_on ?_ (hq.1.sublist (List.take_sublist _ _))
        intro x hx y hy hxy
        have := (hlt x hx).1; have := (hlt y hy).1
        omega
      · intro x hx
        obtain ⟨y, hy, rfl⟩ := List.mem_map.mp hx
        have := hlt y hy
        simp only [List.length_map, hlen]
        omega
    · exact ⟨hq.1.sublist (List.drop_sublist _ _), fun x hx => by rw [hdl]; exact hdrop x hx⟩
    · unfold Model.skewSum
      rw [hdl, List.map_map]
      have : (q.take i).map ((· + (q.length - i)) ∘ (· - (q.length - i))) = q.take i := by
        rw [List.map_congr_left (g := id)]
        · simp
        · intro x hx; have := (hlt x hx).1; simp; omega
      rw [this, List.take_append_drop]
  · rintro ⟨a, b, ha, hb, hpa, hpb, rfl⟩
    unfold Model.skewSum
    have hla := List.length_pos_iff.mpr ha
    have hlb := List.length_pos_iff.mpr hb
    refine ⟨a.length, hla, by simp; omega, ?_⟩
    rw [List.take_left' (by simp), setEqRange_iff]
    simp only [List.length_append, List.length_map, Nat.add_sub_cancel_left]
    refine ⟨?_, ?_⟩
    · intro x hx
      obtain ⟨y, hy, rfl⟩ := List.mem_map.mp hx
      have := hpa.2 y hy
      omega
    · intro v hv1 hv2
      refine List.mem_map.mpr ⟨v - b.length, mem_of_isPerm hpa (by omega), by omega⟩


/-! ### `1 ⊕ q` -/

theorem directSum_one (q : NSeq) : Model.directSum [0] q = 0 :: q.map (· + 1) := by
  simp [Model.directSum]

theorem fstrip_directSum (q : NSeq) : fstrip (Model.directSum [0] q) = .ok q := by
  rw [directSum_one]
  unfold fstrip
  rw [if_neg (by simp), if_pos (by simp)]
  simp [List.map_map, Function.comp_def]

/-- a permutation starting with its minimum is `1 ⊕ q`, and `fstrip` returns that `q` -/
theorem fstrip_of_head_zero {p : NSeq} (hp : IsPerm p) (hne : p ≠ []) (h0 : p.headD 0 = 0) :
    ∃ q, IsPerm q ∧ p = Model.directSum [0] q ∧ fstrip p = .ok q := by
  cases p with
  | nil => exact absurd rfl hne
  | cons a t =>
    have ha : a = 0 := by simpa using h0
    subst ha
    have hnd := List.nodup_cons.mp hp.1
    have hpos : ∀ x ∈ t, 1 ≤ x := by
      intro x hx
      by_contra hc
      have : x = 0 := by omega
      exact hnd.1 (this ▸ hx)
    have hback : (t.map (· - 1)).map (· + 1) = t := by
      rw [List.map_map, List.map_congr_left (g := id)]
      · simp
      · intro x hx; have := hpos x hx; simp; omega
    refine ⟨t.map (· - 1), ⟨?_, ?_⟩, ?_, ?_⟩
    · refine List.Nodup.map_on ?_ hnd.2
      intro x hx y hy hxy
      have := hpos x hx; have := hpos y hy; omega
    · intro x hx
      obtain ⟨y, hy, rfl⟩ := List.mem_map.mp hx
      have h1 := hpos y hy
      have h2 := hp.2 y (List.mem_cons_of_mem _ hy)
      simp only [List.length_cons, List.length_map] at h2 ⊢
      omega
    · rw [directSum_one, hback]
    · unfold fstrip
      rw [if_neg (by simp), if_pos (by simp)]
      rfl

theorem directSum_one_injective {q q' : NSeq} (h : Model.directSum [0] q = Model.directSum [0] q') : q = q' := by
  have h1 := fstrip_directSum q
  rw [h, fstrip_directSum] at h1
  exact (Except.ok.inj h1).symm

/-- **`zero_plus_sumind p` ⇔ `p = 1 ⊕ q` with `q` sum-indecomposable** -/
theorem zeroPlusSumind_iff (p : NSeq) (hp : IsPerm p) :
    zeroPlusSumind p = .ok true ↔ ∃ q, IsPerm q ∧ p = Model.directSum [0] q ∧ ¬ SumDecomposable q := by
  constructor
  · intro h
    unfold zeroPlusSumind at h
    by_cases he : p.isEmpty = true
    · rw [if_pos he] at h; cases h
    · rw [if_neg he] at h
      have hne : p ≠ [] := by intro e; subst e; simp at he
      by_cases h0 : p.headD 0 = 0
      · rw [if_pos h0] at h
        obtain ⟨q, hq, hpq, hf⟩ := fstrip_of_head_zero hp hne h0
        rw [hf] at h
        simp only [Except.ok.injEq, Bool.not_eq_true'] at h
        refine ⟨q, hq, hpq, ?_⟩
        rw [← isSumDecomposable_iff q hq, h]; simp
      · rw [if_neg h0] at h; cases h
  · rintro ⟨q, hq, rfl, hind⟩
    unfold zeroPlusSumind
    rw [if_neg (by simp [directSum_one]), if_pos (by simp [directSum_one]), fstrip_directSum]
    simp only [Except.ok.injEq, Bool.not_eq_true']
    rw [← Bool.not_eq_true, isSumDecomposable_iff q hq]
    exact hind

/-- **`zero_plus_skewind p` ⇔ `p = 1 ⊕ q` with `q` skew-indecomposable** -/
theorem zeroPlusSkewind_iff (p : NSeq) (hp : IsPerm p) :
    zeroPlusSkewind p = .ok true ↔ ∃ q, IsPerm q ∧ p = Model.directSum [0] q ∧ ¬ SkewDecomposable q := by
  constructor
  · intro h
    unfold zeroPlusSkewind at h
    by_cases he : p.isEmpty = true
    · rw [if_pos he] at h; cases h
    · rw [if_neg he] at h
      have hne : p ≠ [] := by intro e; subst e; simp at he
      by_cases h0 : p.headD 0 = 0
      · rw [if_pos h0] at h
        obtain ⟨q, hq, hpq, hf⟩ := fstrip_of_head_zero hp hne h0
        rw [hf] at h
        simp only [Except.ok.injEq, Bool.not_eq_true'] at h
        refine ⟨q, hq, hpq, ?_⟩
        rw [← isSkewDecomposable_iff q hq, h]; simp
      · rw [if_neg h0] at h; cases h
  · rintro ⟨q, hq, rfl, hind⟩
    unfold zeroPlusSkewind
    rw [if_neg (by simp [directSum_one]), if_pos (by simp [directSum_one]), fstrip_directSum]
    simp only [Except.ok.injEq, Bool.not_eq_true']
    rw [← Bool.not_eq_true, isSkewDecomposable_iff q hq]
    exact hind

/-- `zero_plus_perm p` ⇔ `p` starts with its minimum -/
theorem zeroPlusPerm_iff (p : NSeq) (hp : IsPerm p) :
    zeroPlusPerm p = .ok true ↔ ∃ q, IsPerm q ∧ p = Model.directSum [0] q := by
  constructor
  · intro h
    unfold zeroPlusPerm at h
    by_cases he : p.isEmpty = true
    · rw [if_pos he] at h; cases h
    · rw [if_neg he] at h
      have hne : p ≠ [] := by intro e; subst e; simp at he
      simp only [Except.ok.injEq, decide_eq_true_eq] at h
      obtain ⟨q, hq, hpq, _⟩ := fstrip_of_head_zero hp hne h
      exact ⟨q, hq, hpq⟩
  · rintro ⟨q, _, rfl⟩
    unfold zeroPlusPerm
    rw [if_neg (by simp [directSum_one])]
    simp [directSum_one]

theorem headD_directSum_one (q : NSeq) : (Model.directSum [0] q).headD 0 = 0 := by simp [directSum_one]
theorem directSum_one_ne_nil (q : NSeq) : Model.directSum [0] q ≠ [] := by simp [directSum_one]

/-- **`Rd2134CoreStrategy.is_valid_extension p`** ⇔ `p = 1 ⊕ q` where `q` avoids the mesh pattern and the last
    sum component of `q` is not decreasing or has length one -/
theorem validRd2134_iff (p : NSeq) (hp : IsPerm p) :
    validRd2134 p = .ok true ↔ ∃ q, IsPerm q ∧ p = Model.directSum [0] q ∧
      Model.containsMesh q ⟨[1, 0], mShading⟩ = false ∧
      ∃ lc, lastSumComponent q = .ok lc ∧ (Model.avoidsAll lc [[0, 1]] = false ∨ lc.length = 1) := by
  constructor
  · intro h
    by_cases hne : p = []
    · subst hne; exact absurd h (by simp [validRd2134, fstrip])
    · by_cases h0 : p.headD 0 = 0
      · obtain ⟨q, hq, hpq, hf⟩ := fstrip_of_head_zero hp hne h0
        obtain ⟨lc, hlc⟩ := lastSumComponent_ok q
        unfold validRd2134 at h
        rw [hf] at h
        simp only [hlc, h0, decide_true, Bool.true_and, Except.ok.injEq, Bool.and_eq_true, Bool.not_eq_true',
          Bool.or_eq_true, decide_eq_true_eq] at h
        exact ⟨q, hq, hpq, h.1, lc, hlc, h.2⟩
      · exfalso
        unfold validRd2134 at h
        obtain ⟨r, hr, _⟩ := fstrip_ok hne
        obtain ⟨lc, hlc⟩ := lastSumComponent_ok r
        rw [hr] at h
        simp only [hlc, h0, decide_false, Bool.false_and, Except.ok.injEq] at h
        exact absurd h (by simp)
  · rintro ⟨q, _, rfl, hm, lc, hlc, hl⟩
    unfold validRd2134
    rw [fstrip_directSum]
    simp only [hlc, headD_directSum_one, decide_true, Bool.true_and, hm, Bool.not_false, Except.ok.injEq,
      Bool.or_eq_true, Bool.not_eq_true', decide_eq_true_eq]
    exact hl

/-- **`Ru2143CoreStrategy.is_valid_extension p`** ⇔ `p = 1 ⊕ q` where `q` avoids the mesh pattern and the last
    skew component of `q` is not increasing -/
theorem validRu2143_iff (p : NSeq) (hp : IsPerm p) :
    validRu2143 p = .ok true ↔ ∃ q, IsPerm q ∧ p = Model.directSum [0] q ∧
      Model.containsMesh q ⟨[0, 1], mShading⟩ = false ∧
      ∃ lc, lastSkewComponent q = .ok lc ∧ Model.avoidsAll lc [[1, 0]] = false := by
  constructor
  · intro h
    by_cases hne : p = []
    · subst hne; exact absurd h (by simp [validRu2143])
    · unfold validRu2143 at h
      rw [if_neg (isEmpty_false hne)] at h
      by_cases h0 : p.headD 0 = 0
      · obtain ⟨q, hq, hpq, hf⟩ := fstrip_of_head_zero hp hne h0
        obtain ⟨lc, hlc⟩ := lastSkewComponent_ok q
        rw [if_neg (by simpa using h0), hf] at h
        by_cases hm : Model.containsMesh q ⟨[0, 1], mShading⟩ = true
        · simp only [hm, if_true] at h; exact absurd h (by simp)
        · simp only [hm, if_false, hlc, Except.ok.injEq, Bool.not_eq_true', Bool.false_eq_true] at h
          exact ⟨q, hq, hpq, by simpa using hm, lc, hlc, h⟩
      · rw [if_pos h0] at h; exact absurd h (by simp)
  · rintro ⟨q, _, rfl, hm, lc, hlc, hl⟩
    unfold validRu2143
    rw [if_neg (isEmpty_false (directSum_one_ne_nil q)), if_neg (not_not.mpr (headD_directSum_one q)), fstrip_directSum]
    simp only [hm, Bool.false_eq_true, if_false, hlc, hl, Bool.not_false]

end C19
