import PermutaModel.Lemmas.C06Eval
/-! What membership in the result of `_occurrences_in_mesh` / success of the `any(...)` loop means. -/
open Model Proto

namespace C06Lemmas

theorem mem_inMeshFilter (ν μ : Mesh) : ∀ (cands l : List (List Nat)), inMeshFilter ν μ cands = .ok l →
    ∀ c, c ∈ l ↔ c ∈ cands ∧ ∃ sub, subMeshPattern μ c = .ok sub ∧ shadingSubset ν.shading sub.shading = true
  | [], l, h, c => by
    simp only [inMeshFilter, Except.ok.injEq] at h
    subst h; simp
  | c0 :: rest, l, h, c => by
    unfold inMeshFilter at h
    cases hs : subMeshPattern μ c0 with
    | error e => simp [hs] at h
    | ok sub =>
      cases hr : inMeshFilter ν μ rest with
      | error e => simp [hs, hr] at h
      | ok r =>
        simp only [hs, hr, Except.ok.injEq] at h
        subst h
        have ih := mem_inMeshFilter ν μ rest r hr c
        by_cases hsub : shadingSubset ν.shading sub.shading = true
        · simp only [hsub, if_true, List.mem_cons, ih]
          constructor
          · rintro (rfl | ⟨h1, h2⟩)
            · exact ⟨Or.inl rfl, sub, hs, hsub⟩
            · exact ⟨Or.inr h1, h2⟩
          · rintro ⟨rfl | h1, h2⟩
            · exact Or.inl rfl
            · exact Or.inr ⟨h1, h2⟩
        · simp only [hsub, Bool.false_eq_true, if_false, List.mem_cons, ih]
          constructor
          · rintro ⟨h1, h2⟩; exact ⟨Or.inr h1, h2⟩
          · rintro ⟨rfl | h1, h2⟩
            · obtain ⟨sub', hs', hsub'⟩ := h2
              rw [hs] at hs'; simp only [Except.ok.injEq] at hs'; subst hs'
              exact absurd hsub' hsub
            · exact ⟨h1, h2⟩

theorem inMeshFilter_ok (ν μ : Mesh) : ∀ (cands : List (List Nat)),
    (∀ c ∈ cands, ∃ sub, subMeshPattern μ c = .ok sub) → ∃ l, inMeshFilter ν μ cands = .ok l
  | [], _ => ⟨[], rfl⟩
  | c0 :: rest, h => by
    obtain ⟨sub, hs⟩ := h c0 List.mem_cons_self
    obtain ⟨r, hr⟩ := inMeshFilter_ok ν μ rest (fun c hc => h c (List.mem_cons_of_mem _ hc))
    unfold inMeshFilter
    simp only [hs, hr]
    exact ⟨_, rfl⟩

theorem inMeshAny_true (ν μ : Mesh) : ∀ (cands : List (List Nat)), inMeshAny ν μ cands = .ok true →
    ∃ c ∈ cands, ∃ sub, subMeshPattern μ c = .ok sub ∧ shadingSubset ν.shading sub.shading = true
  | [], h => by simp [inMeshAny] at h
  | c0 :: rest, h => by
    unfold inMeshAny at h
    cases hs : subMeshPattern μ c0 with
    | error e => simp [hs] at h
    | ok sub =>
      simp only [hs] at h
      by_cases hsub : shadingSubset ν.shading sub.shading = true
      · exact ⟨c0, List.mem_cons_self, sub, hs, hsub⟩
      · simp only [hsub, Bool.false_eq_true, if_false] at h
        obtain ⟨c, hc, hrest⟩ := inMeshAny_true ν μ rest h
        exact ⟨c, List.mem_cons_of_mem _ hc, hrest⟩

/-- the `any(...)` loop agrees with the complete listing when no exception occurs -/
theorem inMeshAny_eq (ν μ : Mesh) : ∀ (cands l : List (List Nat)), inMeshFilter ν μ cands = .ok l →
    inMeshAny ν μ cands = .ok (!l.isEmpty)
  | [], l, h => by
    simp only [inMeshFilter, Except.ok.injEq] at h
    subst h; rfl
  | c0 :: rest, l, h => by
    unfold inMeshFilter at h
    unfold inMeshAny
    cases hs : subMeshPattern μ c0 with
    | error e => simp [hs] at h
    | ok sub =>
      cases hr : inMeshFilter ν μ rest with
      | error e => simp [hs, hr] at h
      | ok r =>
        simp only [hs, hr, Except.ok.injEq] at h
        subst h
        by_cases hsub : shadingSubset ν.shading sub.shading = true
        · simp [hsub]
        · simp only [hsub, Bool.false_eq_true, if_false]
          exact inMeshAny_eq ν μ rest r hr

theorem shadingSubset_iff (a b : List Cell) : shadingSubset a b = true ↔ ∀ c ∈ a, c ∈ b := by
  simp [shadingSubset, List.all_eq_true]

end C06Lemmas
