import PermutaModel.Lemmas.C11Records
import PermutaModel.Lemmas.PermBasic
import Mathlib.Data.List.Basic
/-! Helper lemmas for C11: `maximal_decreasing_run` (greedy scan, dead `break`) and `longestruns_ascending`
    (invariant of the `maxi`/`cur`/`res` scan). -/
open Model.Stat

namespace C11L
local notation:max σ "⟦" i "⟧" => List.getD σ i 0

/-- `maximal_decreasing_run` without its `break` -/
def greedy : Int → List Nat → Int
  | nv, [] => nv
  | nv, v :: t => if (v : Int) = nv then greedy (nv - 1) t else greedy nv t

/-- the `break` of `maximal_decreasing_run` never fires on duplicate-free input bounded by `next_val` -/
theorem mdrGo_eq_greedy (t : List Nat) : ∀ (nv mni : Int), mni ≤ nv → (∀ w ∈ t, (w : Int) ≠ mni) →
    (∀ w ∈ t, (w : Int) ≤ nv) → t.Nodup → mdrGo nv mni t = greedy nv t := by
  induction t with
  | nil => intro nv mni _ _ _ _; rfl
  | cons v t ih =>
    intro nv mni h1 h2 h3 h4
    rw [List.nodup_cons] at h4
    have hv2 := h2 v (by simp)
    have hv3 := h3 v (by simp)
    unfold mdrGo greedy
    by_cases hv : (v : Int) = nv
    · rw [if_pos hv, if_pos hv, if_neg (by omega)]
      apply ih _ _ (by omega) (fun w hw => h2 w (by simp [hw])) _ h4.2
      intro w hw
      have := h3 w (by simp [hw])
      have : w ≠ v := fun e => h4.1 (e ▸ hw)
      omega
    · rw [if_neg hv, if_neg hv]
      by_cases hgt : (v : Int) > mni
      · rw [if_pos hgt, if_neg (by omega)]
        apply ih _ _ (by omega) _ (fun w hw => h3 w (by simp [hw])) h4.2
        intro w hw
        have : w ≠ v := fun e => h4.1 (e ▸ hw)
        omega
      · rw [if_neg hgt, if_neg (by omega)]
        exact ih _ _ h1 (fun w hw => h2 w (by simp [hw])) (fun w hw => h3 w (by simp [hw])) h4.2

/-- `n-1, …, n-k` appear from left to right in this order -/
def Chain (p : NSeq) (k : Nat) : Prop :=
  ∀ d, d + 1 < k → p.idxOf (p.length - 1 - d) < p.idxOf (p.length - 2 - d)

/-- state of the greedy scan after the first `m` entries: `k` values matched -/
structure GInv (p : NSeq) (m k : Nat) : Prop where
  chain : Chain p k
  seen : ∀ d, d < k → p.idxOf (p.length - 1 - d) < m
  next : k < p.length → m ≤ p.idxOf (p.length - 1 - k) ∨
    (1 ≤ k ∧ p.idxOf (p.length - 1 - k) < p.idxOf (p.length - k))

theorem mem_of_lt_length {p : NSeq} (hp : IsPerm p) {x : Nat} (hx : x < p.length) : x ∈ p := by
  obtain ⟨a, ha, rfl⟩ := hp.surj hx
  exact getD_mem_of_lt p a ha

theorem greedy_scan (p : NSeq) (hp : IsPerm p) : ∀ (t pre : List Nat) (k : Nat), p = pre ++ t → k ≤ p.length →
    GInv p pre.length k →
    ∃ k', k ≤ k' ∧ k' ≤ p.length ∧ greedy ((p.length : Int) - 1 - k) t = (p.length : Int) - 1 - k' ∧
      GInv p p.length k' := by
  intro t
  induction t with
  | nil =>
    intro pre k hpre hk hinv
    have : pre.length = p.length := by rw [hpre]; simp
    rw [this] at hinv
    exact ⟨k, Nat.le_refl _, hk, rfl, hinv⟩
  | cons v t ih =>
    intro pre k hpre hk hinv
    have hnd : (pre ++ v :: t).Nodup := hpre ▸ hp.1
    have hvpre : v ∉ pre := by
      intro h
      have := (List.nodup_append.mp hnd).2.2 v h v (by simp)
      exact this rfl
    have hidx : p.idxOf v = pre.length := by
      rw [hpre, List.idxOf_append, if_neg hvpre, List.idxOf_cons_self]; simp
    have hvmem : v ∈ p := by rw [hpre]; simp
    have hvlt : v < p.length := hp.2 v hvmem
    have hpre' : p = (pre ++ [v]) ++ t := by rw [hpre]; simp
    have hlen' : (pre ++ [v]).length = pre.length + 1 := by simp
    unfold greedy
    by_cases hv : (v : Int) = (p.length : Int) - 1 - k
    · rw [if_pos hv]
      have hkn : k < p.length := by omega
      have hvk : v = p.length - 1 - k := by omega
      have hinv' : GInv p (pre ++ [v]).length (k + 1) := by
        rw [hlen']
        refine ⟨?_, ?_, ?_⟩
        · intro d hd
          by_cases hdk : d + 1 < k
          · exact hinv.chain d hdk
          · have hd' : d = k - 1 := by omega
            have hk1 : 1 ≤ k := by omega
            have h1 := hinv.seen (k - 1) (by omega)
            have e1 : p.length - 1 - d = p.length - 1 - (k - 1) := by rw [hd']
            have e2 : p.length - 2 - d = p.length - 1 - k := by omega
            rw [e1, e2, ← hvk, hidx]; exact h1
        · intro d hd
          by_cases hdk : d < k
          · have := hinv.seen d hdk; omega
          · have hd' : d = k := by omega
            rw [hd', ← hvk, hidx]; omega
        · intro hk1
          have hx : p.length - 1 - (k + 1) < p.length := by omega
          have hxmem := mem_of_lt_length hp hx
          by_cases hge : pre.length + 1 ≤ p.idxOf (p.length - 1 - (k + 1))
          · exact Or.inl hge
          · right
            refine ⟨by omega, ?_⟩
            have e : p.length - (k + 1) = p.length - 1 - k := by omega
            rw [e, ← hvk, hidx]
            have hne : p.idxOf (p.length - 1 - (k + 1)) ≠ pre.length := by
              intro he
              rw [← hidx] at he
              have := (List.idxOf_inj hxmem).mp he
              omega
            omega
      obtain ⟨k', h1, h2, h3, h4⟩ := ih (pre ++ [v]) (k + 1) hpre' (by omega) hinv'
      refine ⟨k', by omega, h2, ?_, h4⟩
      rw [← h3]; congr 1; push_cast; omega
    · rw [if_neg hv]
      have hinv' : GInv p (pre ++ [v]).length k := by
        rw [hlen']
        refine ⟨hinv.chain, fun d hd => by have := hinv.seen d hd; omega, ?_⟩
        intro hkn
        rcases hinv.next hkn with h | h
        · left
          have hx : p.length - 1 - k < p.length := by omega
          have hxmem := mem_of_lt_length hp hx
          have hne : p.idxOf (p.length - 1 - k) ≠ pre.length := by
            intro he
            rw [← hidx] at he
            have := (List.idxOf_inj hxmem).mp he
            omega
          omega
        · exact Or.inr h
      obtain ⟨k', h1, h2, h3, h4⟩ := ih (pre ++ [v]) k hpre' hk hinv'
      exact ⟨k', h1, h2, h3, h4⟩

theorem foldl_max_eq (l : List Nat) : ∀ (a m : Nat), a ≤ m → (∀ x ∈ l, x ≤ m) → (a = m ∨ m ∈ l) →
    l.foldl max a = m := by
  induction l with
  | nil => intro a m _ _ h; rcases h with h | h; exact h; simp at h
  | cons x t ih =>
    intro a m h1 h2 h3
    simp only [List.foldl_cons]
    have hx := h2 x (by simp)
    apply ih _ _ (by omega) (fun y hy => h2 y (by simp [hy]))
    rcases h3 with h3 | h3
    · left; omega
    · rcases List.mem_cons.mp h3 with h3 | h3
      · left; omega
      · exact Or.inr h3

theorem specMaxNat_eq (l : List Nat) (m : Nat) (hm : m ∈ l) (hle : ∀ x ∈ l, x ≤ m) : Spec.Stat.maxNat l = m :=
  foldl_max_eq l 0 m (Nat.zero_le _) hle (Or.inr hm)

/-- the consecutive segment of length `L` starting at `i` is ascending w.r.t. `lt` -/
def Asc (p : NSeq) (i L : Nat) : Prop := i + L ≤ p.length ∧ ∀ d, d + 1 < L → p⟦i+d⟧ < p⟦i+d+1⟧

theorem ascendingRun_iff (p : NSeq) (i L : Nat) : Spec.Stat.ascendingRun p i L = true ↔ Asc p i L := by
  simp only [Spec.Stat.ascendingRun, Asc, Bool.and_eq_true, decide_eq_true_eq, List.all_eq_true, List.mem_range]
  constructor
  · rintro ⟨h1, h2⟩; exact ⟨h1, fun d hd => h2 d (by omega)⟩
  · rintro ⟨h1, h2⟩; exact ⟨h1, fun d hd => h2 d (by omega)⟩

theorem Asc.cross {p : NSeq} {i L c : Nat} (h : Asc p i L) (h1 : i < c) (h2 : c < i + L) : p⟦c-1⟧ < p⟦c⟧ := by
  have := h.2 (c - 1 - i) (by omega)
  have e1 : i + (c - 1 - i) = c - 1 := by omega
  have e2 : c - 1 + 1 = c := by omega
  rw [e1, e2] at this; exact this

theorem Asc.one (p : NSeq) (i : Nat) (h : i < p.length) : Asc p i 1 := ⟨by omega, fun d hd => by omega⟩

theorem Asc.extend {p : NSeq} {i L : Nat} (h : Asc p i L) (hL : 1 ≤ L) (hn : i + L < p.length)
    (hlt : p⟦i+L-1⟧ < p⟦i+L⟧) : Asc p i (L + 1) := by
  refine ⟨by omega, fun d hd => ?_⟩
  by_cases hd' : d + 1 < L
  · exact h.2 d hd'
  · have : d = L - 1 := by omega
    subst this
    have e1 : i + (L - 1) = i + L - 1 := by omega
    have e2 : i + L - 1 + 1 = i + L := by omega
    rw [e1, e2]; exact hlt

/-- the state of `longestruns_ascending` after `m` entries -/
structure LInv (p : NSeq) (m maxi cur : Nat) (res : List Nat) : Prop where
  curlt : cur < m
  mle : m ≤ p.length
  run : Asc p cur (m - cur)
  brk : cur = 0 ∨ ¬ p⟦cur-1⟧ < p⟦cur⟧
  pos : 1 ≤ maxi
  wit : ∃ i, i + maxi ≤ m ∧ Asc p i maxi
  best : ∀ i L, 1 ≤ L → i + L ≤ m → Asc p i L → L ≤ maxi
  res_eq : res = (List.range p.length).filter fun i => decide (i + maxi ≤ cur) && Spec.Stat.ascendingRun p i maxi

theorem LInv.no_cross {p : NSeq} {m maxi cur : Nat} {res : List Nat} (h : LInv p m maxi cur res)
    {i L : Nat} (hA : Asc p i L) (h1 : i < cur) (h2 : cur < i + L) : False := by
  rcases h.brk with h0 | hb
  · omega
  · exact hb (hA.cross h1 h2)

theorem filter_eq_nil_of {α : Type} (l : List α) (P : α → Bool) (h : ∀ x ∈ l, P x = false) : l.filter P = [] := by
  rw [List.filter_eq_nil_iff]; intro x hx; simp [h x hx]

theorem step_asc_new {p : NSeq} {m maxi cur : Nat} {res : List Nat} (h : LInv p m maxi cur res)
    (hm : m < p.length) (hlt : p⟦m-1⟧ < p⟦m⟧) (hnew : m + 1 - cur > maxi) : LInv p (m + 1) (m + 1 - cur) cur [] := by
  have hcur := h.curlt
  have hrun : Asc p cur (m + 1 - cur) := by
    have := h.run.extend (by omega) (by omega) (by
      have e : cur + (m - cur) = m := by omega
      rw [e]; exact hlt)
    have e : m - cur + 1 = m + 1 - cur := by omega
    rw [e] at this; exact this
  refine ⟨by omega, by omega, hrun, h.brk, by omega, ⟨cur, by omega, hrun⟩, ?_, ?_⟩
  · intro i L hL hiL hA
    by_cases hend : i + L ≤ m
    · have := h.best i L hL hend hA; omega
    · by_cases hic : i < cur
      · exact absurd (h.no_cross hA hic (by omega)) id
      · omega
  · symm
    apply filter_eq_nil_of
    intro i _
    rw [Bool.and_eq_false_iff]
    by_cases hle : i + (m + 1 - cur) ≤ cur
    · right
      rw [Bool.eq_false_iff]
      intro hA
      rw [ascendingRun_iff] at hA
      have := h.best i (m + 1 - cur) (by omega) (by omega) hA
      omega
    · left; simpa using hle

theorem step_asc_old {p : NSeq} {m maxi cur : Nat} {res : List Nat} (h : LInv p m maxi cur res)
    (hm : m < p.length) (hlt : p⟦m-1⟧ < p⟦m⟧) (hold : ¬ m + 1 - cur > maxi) : LInv p (m + 1) maxi cur res := by
  have hcur := h.curlt
  have hrun : Asc p cur (m + 1 - cur) := by
    have := h.run.extend (by omega) (by omega) (by
      have e : cur + (m - cur) = m := by omega
      rw [e]; exact hlt)
    have e : m - cur + 1 = m + 1 - cur := by omega
    rw [e] at this; exact this
  obtain ⟨w, hw1, hw2⟩ := h.wit
  refine ⟨by omega, by omega, hrun, h.brk, h.pos, ⟨w, by omega, hw2⟩, ?_, h.res_eq⟩
  intro i L hL hiL hA
  by_cases hend : i + L ≤ m
  · exact h.best i L hL hend hA
  · by_cases hic : i < cur
    · exact absurd (h.no_cross hA hic (by omega)) id
    · omega

/-- a run of length `maxi` inside the first `m` entries that is not completed before `cur` is the current run -/
theorem LInv.current_only {p : NSeq} {m maxi cur : Nat} {res : List Nat} (h : LInv p m maxi cur res)
    {i : Nat} (hA : Asc p i maxi) (h1 : i + maxi ≤ m) (h2 : ¬ i + maxi ≤ cur) : i = cur ∧ m - cur = maxi := by
  have hcur := h.curlt
  have hpos := h.pos
  by_cases hic : i < cur
  · exact absurd (h.no_cross hA hic (by omega)) id
  · have := h.best cur (m - cur) (by omega) (by omega) h.run
    omega

/-- the runs of length `maxi` inside the first `m` entries: the completed ones, plus the current one if it has that length -/
theorem LInv.completed {p : NSeq} {m maxi cur : Nat} {res : List Nat} (h : LInv p m maxi cur res) :
    ((List.range p.length).filter fun i => decide (i + maxi ≤ m) && Spec.Stat.ascendingRun p i maxi) =
      if m - cur = maxi then res ++ [cur] else res := by
  have hcur := h.curlt
  have hmle := h.mle
  rw [h.res_eq]
  split
  · rename_i heq
    symm
    apply C11L.eq_of_pairwise_lt_of_mem_iff
    · rw [List.pairwise_append]
      refine ⟨List.Pairwise.filter _ List.pairwise_lt_range, by simp, ?_⟩
      intro a ha b hb
      simp only [List.mem_filter, Bool.and_eq_true, decide_eq_true_eq] at ha
      simp only [List.mem_singleton] at hb
      have := h.pos; omega
    · exact List.Pairwise.filter _ List.pairwise_lt_range
    · intro x
      simp only [List.mem_append, List.mem_filter, List.mem_range, Bool.and_eq_true, decide_eq_true_eq,
        List.mem_singleton, ascendingRun_iff]
      constructor
      · rintro (⟨hx, hle, hA⟩ | rfl)
        · exact ⟨hx, by omega, hA⟩
        · refine ⟨by omega, by omega, ?_⟩
          rw [← heq]; exact h.run
      · rintro ⟨hx, hle, hA⟩
        by_cases hc : x + maxi ≤ cur
        · exact Or.inl ⟨hx, hc, hA⟩
        · exact Or.inr (h.current_only hA hle hc).1
  · rename_i hne
    apply List.filter_congr
    intro x _
    by_cases hA : Spec.Stat.ascendingRun p x maxi = true
    · simp only [hA, Bool.and_true, decide_eq_decide]
      constructor
      · intro hle
        by_contra hc
        exact hne (h.current_only ((ascendingRun_iff _ _ _).mp hA) hle hc).2
      · intro; omega
    · simp only [Bool.not_eq_true] at hA; simp [hA]

theorem step_brk {p : NSeq} {m maxi cur : Nat} {res : List Nat} (h : LInv p m maxi cur res)
    (hm : m < p.length) (hnlt : ¬ p⟦m-1⟧ < p⟦m⟧) :
    LInv p (m + 1) maxi m (if m - cur = maxi then res ++ [cur] else res) := by
  have hcur := h.curlt
  obtain ⟨w, hw1, hw2⟩ := h.wit
  refine ⟨by omega, by omega, ?_, Or.inr hnlt, h.pos, ⟨w, by omega, hw2⟩, ?_, h.completed.symm⟩
  · have e : m + 1 - m = 1 := by omega
    rw [e]; exact Asc.one p m hm
  · intro i L hL hiL hA
    by_cases hend : i + L ≤ m
    · exact h.best i L hL hend hA
    · by_cases him : i < m
      · exact absurd (hA.cross him (by omega)) hnlt
      · have := h.pos; omega

/-- the loop of `longestruns_ascending` from entry `s` on keeps the invariant up to the end -/
theorem lraGo_inv (p : NSeq) : ∀ (len s maxi cur : Nat) (res : List Nat), s + len + 1 = p.length →
    LInv p (s + 1) maxi cur res →
    ∃ maxi' cur' res', lraGo maxi cur res ((List.range' s len).map fun i => (i, p⟦i⟧, p⟦i+1⟧)) = (maxi', cur', res') ∧
      LInv p p.length maxi' cur' res' := by
  intro len
  induction len with
  | zero =>
    intro s maxi cur res hs h
    refine ⟨maxi, cur, res, by simp [lraGo], ?_⟩
    have : s + 1 = p.length := by omega
    rw [this] at h; exact h
  | succ len ih =>
    intro s maxi cur res hs h
    have hcur := h.curlt
    have hm : s + 1 < p.length := by omega
    rw [List.range'_succ, List.map_cons]
    unfold lraGo
    simp only
    by_cases hlt : p⟦s⟧ < p⟦s+1⟧
    · rw [if_pos hlt]
      have hlt' : p⟦s+1-1⟧ < p⟦s+1⟧ := by simpa using hlt
      by_cases hnew : s - cur + 2 > maxi
      · rw [if_pos hnew]
        have := step_asc_new h hm hlt' (by omega)
        have e : s + 1 + 1 - cur = s - cur + 2 := by omega
        rw [e] at this
        exact ih (s + 1) _ _ _ (by omega) this
      · rw [if_neg hnew]
        exact ih (s + 1) _ _ _ (by omega) (step_asc_old h hm hlt' (by omega))
    · rw [if_neg hlt]
      have hnlt' : ¬ p⟦s+1-1⟧ < p⟦s+1⟧ := by simpa using hlt
      have hstep := step_brk h hm hnlt'
      by_cases heq : s - cur + 1 = maxi
      · rw [if_pos (by simpa using heq)]
        rw [if_pos (by omega)] at hstep
        exact ih (s + 1) _ _ _ (by omega) hstep
      · rw [if_neg (by simpa using heq)]
        rw [if_neg (by omega)] at hstep
        exact ih (s + 1) _ _ _ (by omega) hstep

/-- at the end of the scan the state determines the specification's answer -/
theorem LInv.final {p : NSeq} {maxi cur : Nat} {res : List Nat} (h : LInv p p.length maxi cur res) :
    Spec.Stat.longestRun Spec.Stat.ascendingRun p = (maxi, if p.length - cur = maxi then res ++ [cur] else res) := by
  obtain ⟨w, hw1, hw2⟩ := h.wit
  have hpos := h.pos
  have hL : Spec.Stat.maxNat ((List.range (p.length + 1)).filter fun L =>
      (Spec.Stat.positions p).any fun i => decide (1 ≤ L ∧ Spec.Stat.ascendingRun p i L = true)) = maxi := by
    apply specMaxNat_eq
    · simp only [List.mem_filter, List.mem_range, List.any_eq_true, Spec.Stat.positions, decide_eq_true_eq]
      exact ⟨by omega, w, by omega, hpos, (ascendingRun_iff _ _ _).mpr hw2⟩
    · intro L hLmem
      simp only [List.mem_filter, List.mem_range, List.any_eq_true, Spec.Stat.positions, decide_eq_true_eq] at hLmem
      obtain ⟨_, i, _, hL1, hA⟩ := hLmem
      rw [ascendingRun_iff] at hA
      exact h.best i L hL1 hA.1 hA
  unfold Spec.Stat.longestRun
  simp only [hL]
  congr 1
  rw [← h.completed]
  unfold Spec.Stat.positions
  apply List.filter_congr
  intro i _
  by_cases hA : Spec.Stat.ascendingRun p i maxi = true
  · have := ((ascendingRun_iff _ _ _).mp hA).1
    simp [hA, hpos, this]
  · simp only [Bool.not_eq_true] at hA; simp [hA]

theorem getD_complement (p : NSeq) (i : Nat) (hi : i < p.length) :
    (Model.complement p)⟦i⟧ = p.length - 1 - p⟦i⟧ := by
  unfold Model.complement
  rw [List.getD_eq_getElem?_getD, List.getD_eq_getElem?_getD, List.getElem?_map, List.getElem?_eq_getElem hi]
  simp

theorem ascendingRun_complement (p : NSeq) (hp : ∀ x ∈ p, x < p.length) (i L : Nat) :
    Spec.Stat.ascendingRun (Model.complement p) i L = Spec.Stat.descendingRun p i L := by
  have hlen : (Model.complement p).length = p.length := by simp [Model.complement]
  unfold Spec.Stat.ascendingRun Spec.Stat.descendingRun
  rw [hlen]
  by_cases hb : i + L ≤ p.length
  · simp only [hb, decide_true, Bool.true_and]
    rw [Bool.eq_iff_iff, List.all_eq_true, List.all_eq_true]
    have key : ∀ d, d ∈ List.range (L - 1) →
        (decide ((Model.complement p)⟦i+d⟧ < (Model.complement p)⟦i+d+1⟧) = true ↔
          decide (p⟦i+d⟧ > p⟦i+d+1⟧) = true) := by
      intro d hd
      have hd' := List.mem_range.mp hd
      have h1 : i + d < p.length := by omega
      have h2 : i + d + 1 < p.length := by omega
      rw [getD_complement p _ h1, getD_complement p _ h2]
      have := hp _ (getD_mem_of_lt p _ h1)
      have := hp _ (getD_mem_of_lt p _ h2)
      simp only [decide_eq_true_eq]; omega
    exact ⟨fun h d hd => (key d hd).mp (h d hd), fun h d hd => (key d hd).mpr (h d hd)⟩
  · simp [hb]

theorem longestRun_congr (run1 run2 : NSeq → Nat → Nat → Bool) (s1 s2 : NSeq) (hlen : s1.length = s2.length)
    (h : ∀ i L, run1 s1 i L = run2 s2 i L) : Spec.Stat.longestRun run1 s1 = Spec.Stat.longestRun run2 s2 := by
  unfold Spec.Stat.longestRun Spec.Stat.positions
  simp only [hlen, h]

end C11L
