import PermutaModel.Lemmas.C16PinPerm
import PermutaModel.Lemmas.C14Lang
/-!
# C16 converse, part 1 — every proper pin sequence is the geometric run of a strict pin word
-/
namespace C16Conv
open Model.C14 Model.C14.Letter Spec.C14 Proto C14L C14S C16P

/-- the direction letter of a pin: axis `v` (vertical?), side `pos` (up / right?) -/
def dirLetter (v pos : Bool) : Letter :=
  if v then (if pos then U else D) else (if pos then R else L)

theorem dirLetter_isDir (v pos : Bool) : (dirLetter v pos).isDir = true := by
  cases v <;> cases pos <;> rfl
theorem dirLetter_isQuad (v pos : Bool) : (dirLetter v pos).isQuad = false := by
  cases v <;> cases pos <;> rfl
theorem dirLetter_isVert (v pos : Bool) : (dirLetter v pos).isVert = v := by
  cases v <;> cases pos <;> rfl
theorem dirLetter_namesUp (pos : Bool) : namesUp (dirLetter true pos) = pos := by
  cases pos <;> rfl
theorem dirLetter_namesRight (pos : Bool) : namesRight (dirLetter false pos) = pos := by
  cases pos <;> rfl

theorem quad_isQuad (s : Bool × Bool) : (quadOfSigns s).isQuad = true := by
  rcases s with ⟨a, b⟩; cases a <;> cases b <;> rfl
theorem quad_namesRight (s : Bool × Bool) : namesRight (quadOfSigns s) = s.1 := by
  rcases s with ⟨a, b⟩; cases a <;> cases b <;> rfl
theorem quad_namesUp (s : Bool × Bool) : namesUp (quadOfSigns s) = s.2 := by
  rcases s with ⟨a, b⟩; cases a <;> cases b <;> rfl

/-- a proper pin (`SepA`) is the geometric reading of a direction letter -/
theorem geo_of_sepA {v : Bool} {p q : C16P.Pt} {rest : List C16P.Pt} (h : SepA v p q rest) :
    ∃ pos, Geo (dirLetter v pos) p (q :: rest) := by
  obtain ⟨hb, he⟩ := h
  cases v with
  | true =>
    simp only [Extr, co, Bool.not_true, Bool.false_eq_true, if_false] at he
    simp only [Btw, co, if_true] at hb
    have hbt : Between p.1 q.1 (xs rest) := by
      rcases hb with ⟨b1, b2⟩ | ⟨b1, b2⟩
      · exact Or.inl ⟨fun a ha => by obtain ⟨r, hr, rfl⟩ := List.mem_map.mp ha; exact b1 r hr, b2⟩
      · exact Or.inr ⟨fun a ha => by obtain ⟨r, hr, rfl⟩ := List.mem_map.mp ha; exact b1 r hr, b2⟩
    rcases he with he | he
    · refine ⟨true, ?_⟩
      simp only [Geo, dirLetter_isQuad, Bool.false_eq_true, if_false, SepPin, dirLetter_isVert, if_true,
        dirLetter_namesUp]
      refine ⟨fun a ha => ?_, hbt⟩
      obtain ⟨r, hr, rfl⟩ := List.mem_map.mp ha
      simpa using he r hr
    · refine ⟨false, ?_⟩
      simp only [Geo, dirLetter_isQuad, Bool.false_eq_true, if_false, SepPin, dirLetter_isVert, if_true,
        dirLetter_namesUp]
      refine ⟨fun a ha => ?_, hbt⟩
      obtain ⟨r, hr, rfl⟩ := List.mem_map.mp ha
      simpa using he r hr
  | false =>
    simp only [Extr, co, Bool.not_false, if_true] at he
    simp only [Btw, co, Bool.false_eq_true, if_false] at hb
    have hbt : Between p.2 q.2 (ys rest) := by
      rcases hb with ⟨b1, b2⟩ | ⟨b1, b2⟩
      · exact Or.inl ⟨fun a ha => by obtain ⟨r, hr, rfl⟩ := List.mem_map.mp ha; exact b1 r hr, b2⟩
      · exact Or.inr ⟨fun a ha => by obtain ⟨r, hr, rfl⟩ := List.mem_map.mp ha; exact b1 r hr, b2⟩
    rcases he with he | he
    · refine ⟨true, ?_⟩
      simp only [Geo, dirLetter_isQuad, Bool.false_eq_true, if_false, SepPin, dirLetter_isVert,
        dirLetter_namesRight]
      refine ⟨fun a ha => ?_, hbt⟩
      obtain ⟨r, hr, rfl⟩ := List.mem_map.mp ha
      simpa using he r hr
    · refine ⟨false, ?_⟩
      simp only [Geo, dirLetter_isQuad, Bool.false_eq_true, if_false, SepPin, dirLetter_isVert,
        dirLetter_namesRight]
      refine ⟨fun a ha => ?_, hbt⟩
      obtain ⟨r, hr, rfl⟩ := List.mem_map.mp ha
      simpa using he r hr

/-- the second point of a pin sequence lies in an open quadrant of the first: a numeral -/
theorem geo_quad {p o : C16P.Pt} (hx : p.1 ≠ o.1) (hy : p.2 ≠ o.2) :
    Geo (quadOfSigns (decide (o.1 < p.1), decide (o.2 < p.2))) p [o] := by
  simp only [Geo, quad_isQuad, if_true, IndepPin, quad_namesRight, quad_namesUp, Side, xs, ys,
    List.map_cons, List.map_nil, List.mem_singleton, forall_eq]
  constructor
  · by_cases h : o.1 < p.1
    · simp [h]
    · simp only [h, decide_false, Bool.false_eq_true, if_false]; grind
  · by_cases h : o.2 < p.2
    · simp [h]
    · simp only [h, decide_false, Bool.false_eq_true, if_false]; grind

theorem sameAxis_quad (q c : Letter) (hq : q.isQuad = true) : sameAxis q c = false := by
  cases q <;> simp_all [isQuad, sameAxis, isVert, isHoriz]

theorem sameAxis_dir (a c : Letter) (ha : a.isDir = true) (hc : c.isDir = true) (h : a.isVert = !c.isVert) :
    sameAxis a c = false := by
  cases a <;> cases c <;> simp_all [isDir, sameAxis, isVert, isHoriz]

/-- **every proper pin sequence is the geometric run of a strict pin word**, its oldest point playing
    the origin: the numeral is the quadrant of the second point w.r.t. the first, every later pin
    contributes the direction letter of its axis and side -/
theorem strictWord_of_pinSeq : ∀ (L : List C16P.Pt) (v : Bool), PinSeqA v L → (xs L).Nodup → (ys L).Nodup →
    2 ≤ L.length →
    ∃ (q : Letter) (ds : Word) (A : List C16P.Pt) (o : C16P.Pt), L = A ++ [o] ∧ q.isQuad = true ∧
      (∀ d ∈ ds, d.isDir = true) ∧ chainOK q ds = true ∧ GeoRun [o] (q :: ds) L ∧
      ds.length + 2 = L.length ∧
      (L.length = 2 ∨ ((lastOr q ds).isDir = true ∧ (lastOr q ds).isVert = v))
  | [], _, _, _, _, h => by simp at h
  | [_], _, _, _, _, h => by simp at h
  | [p, o], v, _, hx, hy, _ => by
    have hx' : p.1 ≠ o.1 := by simpa [xs] using hx
    have hy' : p.2 ≠ o.2 := by simpa [ys] using hy
    refine ⟨quadOfSigns (decide (o.1 < p.1), decide (o.2 < p.2)), [], [p], o, rfl, quad_isQuad _, by simp,
      rfl, ⟨p, geo_quad hx' hy', rfl⟩, rfl, Or.inl rfl⟩
  | p :: p' :: r :: rest, v, hP, hx, hy, _ => by
    obtain ⟨hsep, hP'⟩ := hP
    have hx' : (xs (p' :: r :: rest)).Nodup := (List.nodup_cons.mp hx).2
    have hy' : (ys (p' :: r :: rest)).Nodup := (List.nodup_cons.mp hy).2
    obtain ⟨q, ds, A, o, hL, hq, hds, hch, hG, hlen, hlast⟩ :=
      strictWord_of_pinSeq (p' :: r :: rest) (!v) hP' hx' hy' (by simp)
    obtain ⟨pos, hgeo⟩ := geo_of_sepA hsep
    refine ⟨q, ds ++ [dirLetter v pos], p :: A, o, by rw [hL]; rfl, hq, ?_, ?_, ?_, ?_, Or.inr ?_⟩
    · intro d hd
      rcases List.mem_append.mp hd with hd | hd
      · exact hds d hd
      · simp only [List.mem_singleton] at hd; subst hd; exact dirLetter_isDir _ _
    · rw [chainOK_snoc, hch, Bool.true_and, dirLetter_isQuad, Bool.false_or, dirLetter_isDir, Bool.true_and]
      rcases hlast with h2 | ⟨h1, h2⟩
      · have : ds = [] := by
          simp only [List.length_cons] at h2 hlen
          exact List.eq_nil_of_length_eq_zero (by omega)
        subst this
        simp [lastOr, sameAxis_quad q _ hq]
      · rw [sameAxis_dir _ _ h1 (dirLetter_isDir _ _) (by rw [h2, dirLetter_isVert])]; rfl
    · have : q :: (ds ++ [dirLetter v pos]) = (q :: ds) ++ [dirLetter v pos] := rfl
      rw [this, geoRun_snoc]
      exact ⟨_, p, hG, hgeo, rfl⟩
    · simp only [List.length_append, List.length_cons, List.length_nil] at hlen ⊢; omega
    · simp [lastOr, dirLetter_isDir, dirLetter_isVert]

end C16Conv
