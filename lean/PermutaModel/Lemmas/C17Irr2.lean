import PermutaModel.Lemmas.C17Irr1
/-! B2 (second half): every set recorded by `mine` is (a superset of) the hit set of an actual
    occurrence of its pattern in a member of the input of length at most `N`. -/

namespace Model.C17

/-! ### the hit boxes are exactly the projected cells of the points outside the occurrence -/

theorem proj_eq_scan {τ : NSeq} (hτ : IsPerm τ) (c : List Nat) (hcn : c.Nodup)
    (hc : ∀ k ∈ c, k < τ.length) (i : Nat) (hi : i < τ.length) :
    proj τ c (i, τ.getD i 0) =
      ((τ.take i).countP (fun a => (pick τ c).contains a), ((pick τ c).filter (· < τ.getD i 0)).length) := by
  have e1 : (τ.take i).countP (fun a => (pick τ c).contains a) = c.countP (fun k => decide (k < i)) := by
    rw [take_eq_map_range τ i (by omega), List.countP_map, ← countP_range_mem c hcn i]
    apply List.countP_congr
    intro k hk
    rw [List.mem_range] at hk
    simp only [Function.comp, List.contains_iff_mem, decide_eq_true_eq]
    exact mem_pick_iff hτ c hc k (by omega)
  have e2 : ((pick τ c).filter (· < τ.getD i 0)).length
      = c.countP (fun k => decide (τ.getD k 0 < τ.getD i 0)) := by
    rw [← List.countP_eq_length_filter]; unfold pick; rw [List.countP_map]; rfl
  unfold proj
  rw [e1, e2]

theorem hitBoxes_split (cand suf : List Nat) (x0 : Nat) (cell : Cell) (h : cell ∈ hitBoxes cand suf x0) :
    ∃ pre e post, suf = pre ++ e :: post ∧ cand.contains e = false ∧
      cell = (x0 + pre.countP (fun a => cand.contains a), (cand.filter (· < e)).length) := by
  induction suf generalizing x0 with
  | nil => simp [hitBoxes] at h
  | cons a rest ih =>
    unfold hitBoxes at h
    by_cases ha : cand.contains a = true
    · simp only [ha, if_true] at h
      obtain ⟨pre, e, post, rfl, he, hcell⟩ := ih (x0 + 1) h
      refine ⟨a :: pre, e, post, rfl, he, ?_⟩
      rw [hcell]
      simp only [List.countP_cons, ha, if_true]
      congr 1; omega
    · simp only [ha, Bool.false_eq_true, if_false] at h
      rcases List.mem_cons.mp h with rfl | h
      · exact ⟨[], a, rest, rfl, by simpa using ha, by simp⟩
      · obtain ⟨pre, e, post, rfl, he, hcell⟩ := ih x0 h
        refine ⟨a :: pre, e, post, rfl, he, ?_⟩
        rw [hcell]
        simp only [List.countP_cons, ha, Bool.false_eq_true, if_false, Nat.add_zero]

theorem hitBoxes_subset {τ : NSeq} (hτ : IsPerm τ) (c : List Nat) (hcn : c.Nodup)
    (hc : ∀ k ∈ c, k < τ.length) (cell : Cell) (h : cell ∈ hitBoxes (pick τ c) τ 0) :
    ∃ p, p < τ.length ∧ p ∉ c ∧ cell = proj τ c (p, τ.getD p 0) := by
  obtain ⟨pre, e, post, hsplit, he, hcell⟩ := hitBoxes_split _ _ _ _ h
  have hp : pre.length < τ.length := by rw [hsplit]; simp
  have hte : τ.getD pre.length 0 = e := by
    rw [getD_of_lt τ _ hp]; simp [hsplit]
  have htk : τ.take pre.length = pre := by rw [hsplit]; simp
  refine ⟨pre.length, hp, ?_, ?_⟩
  · intro hm
    have := (mem_pick_iff hτ c hc pre.length hp).mpr hm
    rw [hte] at this
    rw [← Bool.not_eq_true, List.contains_iff_mem] at he
    exact he this
  · rw [proj_eq_scan hτ c hcn hc _ hp, htk, hte, hcell]; simp

/-! ### counting through the removal of one position -/

theorem countP_take_drop (l : List Nat) (i : Nat) (hi : i < l.length) (P : Nat → Bool) :
    l.countP P = (l.take i).countP P + ((if P (l.getD i 0) then 1 else 0) + (l.drop (i + 1)).countP P) := by
  have hsplit : l = l.take i ++ l.getD i 0 :: l.drop (i + 1) := by
    rw [getD_of_lt l i hi]; simp
  conv => lhs; rw [hsplit]
  rw [List.countP_append, List.countP_cons]
  omega

theorem countP_eq_range (l : List Nat) (P : Nat → Bool) :
    l.countP P = (List.range l.length).countP (fun a => P (l.getD a 0)) := by
  conv => lhs; rw [← map_getD_range l]
  rw [List.countP_map]; rfl

theorem countP_split (l : List Nat) (i : Nat) (hi : i < l.length) (P : Nat → Bool) :
    l.countP P = (l.eraseIdx i).countP P + (if P (l.getD i 0) then 1 else 0) := by
  have hsplit : l = l.take i ++ l.getD i 0 :: l.drop (i + 1) := by
    rw [getD_of_lt l i hi]; simp
  rw [List.eraseIdx_eq_take_drop_succ]
  conv => lhs; rw [hsplit]
  rw [List.countP_append, List.countP_cons, List.countP_append]
  omega

theorem rank_lt_iff (c0 : List Nat) (g : Nat → Nat) (ci p : Nat) (hci : ci ∈ c0) (hne : g p ≠ g ci) :
    (g ci < g p ↔
      c0.countP (fun k => decide (g k < g ci)) < c0.countP (fun k => decide (g k < g p))) := by
  rw [List.countP_eq_length_filter, List.countP_eq_length_filter]
  constructor
  · intro hlt
    apply filter_length_lt_of_mem c0 _ _ ci hci
    · intro a ha; simp only [decide_eq_true_eq] at *; omega
    · simpa using hlt
    · simp
  · intro h
    apply Classical.byContradiction
    intro hnlt
    have hle := filter_length_le c0 (fun k => decide (g k < g p)) (fun k => decide (g k < g ci))
      (by intro a ha; simp only [decide_eq_true_eq] at *; omega)
    omega

theorem sorted_rank (c0 : List Nat) (hs : c0.Pairwise (· < ·)) (i : Nat) (hi : i < c0.length) :
    c0.countP (fun k => decide (k < c0.getD i 0)) = i := by
  have hsplit : c0 = c0.take i ++ c0.getD i 0 :: c0.drop (i + 1) := by
    rw [getD_of_lt c0 i hi]; simp
  have hs' := hs
  rw [hsplit, List.pairwise_append] at hs'
  obtain ⟨_, hB, hAB⟩ := hs'
  rw [List.pairwise_cons] at hB
  rw [countP_take_drop c0 i hi]
  have h1 : (c0.take i).countP (fun k => decide (k < c0.getD i 0)) = (c0.take i).length := by
    rw [List.countP_eq_length]
    intro a ha
    simpa using hAB a ha (c0.getD i 0) (by simp)
  have h2 : (c0.drop (i + 1)).countP (fun k => decide (k < c0.getD i 0)) = 0 := by
    rw [List.countP_eq_zero]
    intro a ha
    have := hB.1 a ha
    simp only [decide_eq_true_eq]; omega
  rw [h1, h2]
  simp only [List.length_take, Nat.lt_irrefl, decide_false, Bool.false_eq_true, if_false]
  omega

/-- the value of a standardised occurrence is the rank of the corresponding entry -/
theorem occ_rank {τ σ : NSeq} {c0 : List Nat} (hτ : IsPerm τ) (hocc : IsOcc τ σ c0) (i : Nat)
    (hi : i < τ.length) :
    c0.countP (fun k => decide (σ.getD k 0 < σ.getD (c0.getD i 0) 0)) = τ.getD i 0 := by
  have h1 := IsPerm.countP_idx_lt hτ (τ.getD i 0) (Nat.le_of_lt (hτ.getD_lt hi))
  rw [← h1, countP_eq_range c0, hocc.len]
  apply List.countP_congr
  intro a ha
  rw [List.mem_range] at ha
  simp only [decide_eq_true_eq]
  exact (hocc.iso a i ha hi).symm

/-! ### the state of the deletion recursion -/

/-- `τ` is the standardisation of `σ` at positions `c0`, and `sh` holds (in `τ`'s grid) the cell
    of every point of `σ` outside `c0` -/
def StateInv (σ τ : NSeq) (sh : Shading) : Prop :=
  ∃ c0, IsOcc τ σ c0 ∧ ∀ p, p < σ.length → p ∉ c0 → proj σ c0 (p, σ.getD p 0) ∈ sh

theorem stateInv_step {σ τ : NSeq} (hσ : IsPerm σ) (hτ : IsPerm τ) {L : Nat} (hL : τ.length = L + 1)
    (i : Nat) (hi : i < L + 1) (sh : Shading) (h : StateInv σ τ sh) :
    StateInv σ (delPoint τ i) (shiftShading sh i (τ.getD i 0)) := by
  obtain ⟨c0, hocc, hsh⟩ := h
  have hlen : c0.length = L + 1 := by rw [hocc.len, hL]
  have hic : i < c0.length := by omega
  have hcim : c0.getD i 0 ∈ c0 := by rw [getD_of_lt c0 i hic]; exact List.getElem_mem hic
  have hcir : c0.getD i 0 < σ.length := hocc.rng _ hcim
  have hsplit : c0 = c0.take i ++ c0.getD i 0 :: c0.drop (i + 1) := by
    rw [getD_of_lt c0 i hic]; simp
  have hmem : ∀ p, p ∈ c0 → p ∈ c0.eraseIdx i ∨ p = c0.getD i 0 := by
    intro p hp
    rw [List.eraseIdx_eq_take_drop_succ]
    rw [hsplit] at hp
    simp only [List.mem_append, List.mem_cons] at hp ⊢
    rcases hp with h | h | h
    · left; left; exact h
    · right; exact h
    · left; right; exact h
  have hgetD : ∀ a, a < L → (c0.eraseIdx i).getD a 0 = c0.getD (lift i a) 0 := by
    intro a ha
    have hl : a < (c0.eraseIdx i).length := by rw [List.length_eraseIdx_of_lt hic]; omega
    rw [getD_of_lt _ a hl, List.getElem_eraseIdx]
    unfold lift
    by_cases hai : a < i
    · simp only [hai, dite_true, if_true]; rw [getD_of_lt c0 a (by omega)]
    · simp only [hai, dite_false, if_false]; rw [getD_of_lt c0 (a + 1) (by omega)]
  have hocc' : IsOcc (delPoint τ i) σ (c0.eraseIdx i) := by
    refine ⟨?_, ?_, ?_, ?_⟩
    · rw [List.length_eraseIdx_of_lt hic, length_delPoint τ i (by omega)]; omega
    · exact hocc.inc.sublist (List.eraseIdx_sublist _ _)
    · intro k hk; exact hocc.rng k ((List.eraseIdx_sublist _ _).subset hk)
    · intro a b ha hb
      rw [length_delPoint τ i (by omega), hL] at ha hb
      simp only [Nat.add_sub_cancel] at ha hb
      rw [delPoint_lt_iff hτ i a b (by omega) (by omega) (by omega), hgetD a ha, hgetD b hb]
      exact hocc.iso _ _ (by unfold lift; split <;> omega) (by unfold lift; split <;> omega)
  refine ⟨c0.eraseIdx i, hocc', ?_⟩
  intro p hp hpc
  have hx := countP_split c0 i hic (fun k => decide (k < p))
  have hy := countP_split c0 i hic (fun k => decide (σ.getD k 0 < σ.getD p 0))
  have hrx := sorted_rank c0 hocc.inc i hic
  have hry := occ_rank hτ hocc i (by omega)
  unfold shiftShading
  by_cases hpc0 : p ∈ c0
  · -- the newly excluded point
    have hpe : p = c0.getD i 0 := by
      rcases hmem p hpc0 with h | h
      · exact absurd h hpc
      · exact h
    subst hpe
    apply List.mem_append_right
    simp only [List.mem_singleton]
    unfold proj
    simp only [Nat.lt_irrefl, decide_false, Bool.false_eq_true, if_false, Nat.add_zero] at hx hy
    rw [← hx, ← hy, hrx, hry]
  · -- a point that was already outside
    apply List.mem_append_left
    rw [List.mem_map]
    refine ⟨proj σ c0 (p, σ.getD p 0), hsh p hp hpc0, ?_⟩
    have hne1 : p ≠ c0.getD i 0 := fun h => hpc0 (h ▸ hcim)
    have hne2 : σ.getD p 0 ≠ σ.getD (c0.getD i 0) 0 := fun h => hne1 (hσ.getD_inj hp hcir h)
    have rx := rank_lt_iff c0 id (c0.getD i 0) p hcim (by simpa using hne1)
    have ry := rank_lt_iff c0 (fun k => σ.getD k 0) (c0.getD i 0) p hcim hne2
    simp only [id] at rx
    rw [hrx] at rx
    rw [hry] at ry
    unfold proj
    simp only [Prod.mk.injEq]
    constructor
    · by_cases h1 : c0.getD i 0 < p
      · have := rx.mp h1
        simp only [h1, decide_true, if_true] at hx
        simp only [gt_iff_lt, this, if_true]; omega
      · have : ¬ (i < c0.countP (fun k => decide (k < p))) := fun h => h1 (rx.mpr h)
        simp only [h1, decide_false, Bool.false_eq_true, if_false] at hx
        simp only [gt_iff_lt, this, if_false]; omega
    · by_cases h1 : σ.getD (c0.getD i 0) 0 < σ.getD p 0
      · have := ry.mp h1
        simp only [h1, decide_true, if_true] at hy
        simp only [gt_iff_lt, this, if_true]; omega
      · have : ¬ (τ.getD i 0 < c0.countP (fun k => decide (σ.getD k 0 < σ.getD p 0))) :=
          fun h => h1 (ry.mpr h)
        simp only [h1, decide_false, Bool.false_eq_true, if_false] at hy
        simp only [gt_iff_lt, this, if_false]; omega

end Model.C17
