import PermutaModel.Model.C11Tools
import Mathlib.Data.List.Perm.Subperm
import Mathlib.Data.List.Nodup
/-! C11 helper lemmas for `jointly_equally_distributed` / `jointly_transformed_equally_distributed`:
    `Counter(a) == Counter(b)` is "same multiset", `itertools.combinations` lists the sublists of a given
    length, `itertools.permutations` of a duplicate-free pool lists the duplicate-free tuples over it. -/
open Model.Stat List

namespace C11L

/-- `Counter(a) == Counter(b)` holds exactly when `a` and `b` are rearrangements of each other -/
theorem counterEq_iff_perm (a b : List (List Int)) : counterEq a b = true ↔ a.Perm b := by
  simp only [counterEq, Bool.and_eq_true, beq_iff_eq, List.all_eq_true]
  constructor
  · rintro ⟨hlen, hcount⟩
    have hsub : a <+~ b := List.subperm_ext_iff.mpr fun x hx => Nat.le_of_eq (hcount x hx)
    exact hsub.perm_of_length_le (Nat.le_of_eq hlen.symm)
  · intro h
    exact ⟨h.length_eq, fun x _ => h.count_eq x⟩

theorem mem_combosOf {α : Type} : ∀ (k : Nat) (l c : List α), c ∈ combosOf k l ↔ c <+ l ∧ c.length = k
  | 0, l, c => by
    simp only [combosOf, List.mem_singleton]
    constructor
    · rintro rfl; exact ⟨List.nil_sublist _, rfl⟩
    · rintro ⟨_, h⟩; exact List.eq_nil_of_length_eq_zero h
  | k+1, [], c => by
    simp only [combosOf, List.not_mem_nil, List.sublist_nil, false_iff]
    rintro ⟨rfl, h⟩; simp at h
  | k+1, x :: xs, c => by
    simp only [combosOf, List.mem_append, List.mem_map, mem_combosOf k xs, mem_combosOf (k+1) xs]
    constructor
    · rintro (⟨t, ⟨hs, hl⟩, rfl⟩ | ⟨hs, hl⟩)
      · exact ⟨hs.cons_cons x, by simp [hl]⟩
      · exact ⟨hs.cons x, hl⟩
    · rintro ⟨hs, hl⟩
      cases hs with
      | cons _ h => exact Or.inr ⟨h, hl⟩
      | cons_cons _ h =>
        rename_i t
        exact Or.inl ⟨t, ⟨h, by simpa using hl⟩, rfl⟩

/-- `itertools.permutations(l, k)` of a duplicate-free pool: exactly the duplicate-free `k`-tuples over it -/
theorem mem_arrangementsOf {α : Type} [DecidableEq α] : ∀ (k : Nat) (l : List α), l.Nodup → ∀ s : List α,
    s ∈ arrangementsOf k l ↔ s.Nodup ∧ s.length = k ∧ ∀ x ∈ s, x ∈ l
  | 0, l, _, s => by
    simp only [arrangementsOf, List.mem_singleton]
    constructor
    · rintro rfl; simp
    · rintro ⟨_, h, _⟩; exact List.eq_nil_of_length_eq_zero h
  | k + 1, l, hl, s => by
    simp only [arrangementsOf, List.mem_flatMap, List.mem_range]
    constructor
    · rintro ⟨i, hi, hs⟩
      rw [List.getElem?_eq_getElem hi] at hs
      simp only [List.mem_map] at hs
      obtain ⟨s', hs', rfl⟩ := hs
      obtain ⟨h1, h2, h3⟩ := (mem_arrangementsOf k (l.eraseIdx i) (hl.eraseIdx i) s').mp hs'
      rw [← hl.erase_getElem i hi] at h3
      refine ⟨List.nodup_cons.mpr ⟨?_, h1⟩, by simp [h2], ?_⟩
      · intro hmem
        exact ((hl.mem_erase_iff).mp (h3 _ hmem)).1 rfl
      · intro x hx
        rcases List.mem_cons.mp hx with rfl | hx
        · exact List.getElem_mem hi
        · exact ((hl.mem_erase_iff).mp (h3 x hx)).2
    · rintro ⟨h1, h2, h3⟩
      cases s with
      | nil => simp at h2
      | cons x s' =>
        obtain ⟨i, hi, rfl⟩ := List.getElem_of_mem (h3 x (by simp))
        refine ⟨i, hi, ?_⟩
        rw [List.getElem?_eq_getElem hi]
        simp only [List.mem_map, List.cons.injEq, true_and, exists_eq_right]
        apply (mem_arrangementsOf k (l.eraseIdx i) (hl.eraseIdx i) s').mpr
        have hnd := List.nodup_cons.mp h1
        refine ⟨hnd.2, by simpa using h2, ?_⟩
        intro y hy
        rw [← hl.erase_getElem i hi]
        apply (hl.mem_erase_iff).mpr
        refine ⟨?_, h3 y (List.mem_cons_of_mem _ hy)⟩
        intro e
        exact hnd.1 (e ▸ hy)

/-- a 2-combination of a list is an ordered pair "`s₁` listed before `s₂`" -/
theorem mem_combosOf_two {α : Type} (l : List α) (pr : List α) :
    pr ∈ combosOf 2 l ↔ ∃ s₁ s₂, pr = [s₁, s₂] ∧ [s₁, s₂] <+ l := by
  rw [mem_combosOf]
  constructor
  · rintro ⟨hs, hl⟩
    match pr, hl with
    | [s₁, s₂], _ => exact ⟨s₁, s₂, rfl, hs⟩
  · rintro ⟨s₁, s₂, rfl, hs⟩
    exact ⟨hs, rfl⟩

end C11L
