import PermutaModel.Model.C04
import Mathlib.Data.List.Sort
import Mathlib.Data.List.Perm.Basic
/-! C04 helper lemmas on the Boolean orders used by `sorted` / `min`: strict total orders, Python's
    tuple comparison preserves them, `min` and `sorted`/`set` listings depend only on the members. -/
open Model

namespace C04L

/-- a Boolean `<` that is a strict total order -/
structure StrictTotal {α : Type} (lt : α → α → Bool) : Prop where
  irrefl : ∀ a, lt a a = false
  trans : ∀ a b c, lt a b = true → lt b c = true → lt a c = true
  tri : ∀ a b, lt a b = true ∨ a = b ∨ lt b a = true

theorem StrictTotal.asymm {α : Type} {lt : α → α → Bool} (h : StrictTotal lt) {a b : α}
    (hab : lt a b = true) : lt b a = false := by
  by_contra hn
  have := h.trans a b a hab (by simpa using hn)
  rw [h.irrefl] at this; exact Bool.false_ne_true this

theorem natLt_strictTotal : StrictTotal (fun a b : Nat => decide (a < b)) where
  irrefl := by intro a; simp
  trans := by intro a b c h1 h2; simp at *; omega
  tri := by intro a b; simp; omega

theorem lexBy_strictTotal {α : Type} [DecidableEq α] {lt : α → α → Bool} (h : StrictTotal lt) :
    StrictTotal (lexBy lt) where
  irrefl := by
    intro a; induction a with
    | nil => rfl
    | cons x xs ih => simp [lexBy, ih]
  trans := by
    intro a
    induction a with
    | nil =>
      intro b c h1 h2
      cases b with
      | nil => simp [lexBy] at h1
      | cons y ys => cases c with
        | nil => simp [lexBy] at h2
        | cons z zs => rfl
    | cons x xs ih =>
      intro b c h1 h2
      cases b with
      | nil => simp [lexBy] at h1
      | cons y ys =>
        cases c with
        | nil => simp [lexBy] at h2
        | cons z zs =>
          simp only [lexBy] at h1 h2 ⊢
          by_cases hxy : x = y
          · subst hxy
            simp only [if_true] at h1
            by_cases hxz : x = z
            · subst hxz
              simp only [if_true] at h2 ⊢
              exact ih ys zs h1 h2
            · simp only [hxz, if_false] at h2 ⊢; exact h2
          · simp only [hxy, if_false] at h1
            by_cases hyz : y = z
            · subst hyz
              simp only [hxy, if_false]; exact h1
            · simp only [hyz, if_false] at h2
              have hxz := h.trans x y z h1 h2
              by_cases hxz' : x = z
              · subst hxz'; rw [h.irrefl] at hxz; exact absurd hxz Bool.false_ne_true
              · simp only [hxz', if_false]; exact hxz
  tri := by
    intro a
    induction a with
    | nil => intro b; cases b <;> simp [lexBy]
    | cons x xs ih =>
      intro b
      cases b with
      | nil => simp [lexBy]
      | cons y ys =>
        simp only [lexBy]
        by_cases hxy : x = y
        · subst hxy
          simp only [if_true]
          rcases ih ys with h1 | h1 | h1
          · exact Or.inl h1
          · exact Or.inr (Or.inl (by rw [h1]))
          · exact Or.inr (Or.inr h1)
        · have hyx : ¬ y = x := fun e => hxy e.symm
          simp only [hxy, hyx, if_false]
          rcases h.tri x y with h1 | h1 | h1
          · exact Or.inl h1
          · exact absurd h1 hxy
          · exact Or.inr (Or.inr h1)

theorem lexLt_eq_lexBy (a b : List Nat) : lexLt a b = lexBy (fun x y : Nat => decide (x < y)) a b := by
  induction a generalizing b with
  | nil => cases b <;> rfl
  | cons x xs ih =>
    cases b with
    | nil => rfl
    | cons y ys =>
      simp only [lexLt, lexBy, ih]
      by_cases hxy : x = y
      · subst hxy; simp
      · simp [hxy]

theorem lexLt_strictTotal : StrictTotal lexLt := by
  have : lexLt = lexBy (fun x y : Nat => decide (x < y)) := by
    funext a b; exact lexLt_eq_lexBy a b
  rw [this]; exact lexBy_strictTotal natLt_strictTotal

theorem permLt_strictTotal : StrictTotal permLt where
  irrefl := by intro a; simp [permLt, lexLt_strictTotal.irrefl]
  trans := by
    intro a b c h1 h2
    simp only [permLt, Bool.or_eq_true, decide_eq_true_eq, Bool.and_eq_true, beq_iff_eq] at *
    rcases h1 with h1 | ⟨e1, h1⟩ <;> rcases h2 with h2 | ⟨e2, h2⟩
    · left; omega
    · left; omega
    · left; omega
    · right; exact ⟨by omega, lexLt_strictTotal.trans a b c h1 h2⟩
  tri := by
    intro a b
    simp only [permLt, Bool.or_eq_true, decide_eq_true_eq, Bool.and_eq_true, beq_iff_eq]
    rcases Nat.lt_trichotomy a.length b.length with h | h | h
    · exact Or.inl (Or.inl h)
    · rcases lexLt_strictTotal.tri a b with h1 | h1 | h1
      · exact Or.inl (Or.inr ⟨h, h1⟩)
      · exact Or.inr (Or.inl h1)
      · exact Or.inr (Or.inr (Or.inr ⟨h.symm, h1⟩))
    · exact Or.inr (Or.inr (Or.inl h))

theorem tupleLt_strictTotal : StrictTotal tupleLt := lexBy_strictTotal permLt_strictTotal

/-! ### `min` -/
theorem foldl_min_spec {α : Type} {lt : α → α → Bool} (h : StrictTotal lt) (as : List α) (a : α) :
    as.foldl (fun m x => if lt x m then x else m) a ∈ a :: as ∧
    ∀ x ∈ a :: as, lt x (as.foldl (fun m x => if lt x m then x else m) a) = false := by
  induction as generalizing a with
  | nil => simp [h.irrefl]
  | cons x xs ih =>
    simp only [List.foldl_cons]
    obtain ⟨hm, hmin⟩ := ih (if lt x a then x else a)
    set r := xs.foldl (fun m x => if lt x m then x else m) (if lt x a then x else a) with hr
    constructor
    · rcases List.mem_cons.mp hm with hm | hm
      · rw [hm]; split_ifs <;> simp
      · simp [hm]
    · have h0 := hmin _ (List.mem_cons_self)
      intro y hy
      rcases List.mem_cons.mp hy with rfl | hy
      · -- y = a
        by_cases hxa : lt x y = true
        · rw [if_pos hxa] at h0
          by_contra hn
          have := h.trans x y r hxa (by simpa using hn)
          rw [h0] at this; exact Bool.false_ne_true this
        · rw [if_neg hxa] at h0; exact h0
      · rcases List.mem_cons.mp hy with rfl | hy
        · -- y = x
          by_cases hxa : lt y a = true
          · rw [if_pos hxa] at h0; exact h0
          · rw [if_neg hxa] at h0
            rcases h.tri y a with h1 | h1 | h1
            · exact absurd h1 hxa
            · rw [h1]; exact h0
            · by_contra hn
              have := h.trans a y r h1 (by simpa using hn)
              rw [h0] at this; exact Bool.false_ne_true this
        · exact hmin y (List.mem_cons_of_mem _ hy)

theorem minBy_spec {α : Type} {lt : α → α → Bool} (h : StrictTotal lt) {l : List α} {m : α}
    (hm : minBy lt l = some m) : m ∈ l ∧ ∀ x ∈ l, lt x m = false := by
  cases l with
  | nil => simp [minBy] at hm
  | cons a as =>
    simp only [minBy, Option.some.injEq] at hm
    subst hm
    exact foldl_min_spec h as a

/-- the minimum depends only on the set of members -/
theorem minBy_congr {α : Type} {lt : α → α → Bool} (h : StrictTotal lt) {l l' : List α}
    (hmem : ∀ x, x ∈ l ↔ x ∈ l') : minBy lt l = minBy lt l' := by
  cases l with
  | nil =>
    cases l' with
    | nil => rfl
    | cons b bs => exact absurd ((hmem b).mpr List.mem_cons_self) (by simp)
  | cons a as =>
    cases l' with
    | nil => exact absurd ((hmem a).mp List.mem_cons_self) (by simp)
    | cons b bs =>
      obtain ⟨m, hm⟩ : ∃ m, minBy lt (a :: as) = some m := ⟨_, rfl⟩
      obtain ⟨m', hm'⟩ : ∃ m, minBy lt (b :: bs) = some m := ⟨_, rfl⟩
      rw [hm, hm']
      obtain ⟨h1, h2⟩ := minBy_spec h hm
      obtain ⟨h1', h2'⟩ := minBy_spec h hm'
      have a1 := h2 m' ((hmem m').mpr h1')
      have a2 := h2' m ((hmem m).mp h1)
      rcases h.tri m m' with t | t | t
      · rw [a2] at t; exact absurd t Bool.false_ne_true
      · rw [t]
      · rw [a1] at t; exact absurd t Bool.false_ne_true

/-! ### `sorted` and canonical listings of sets -/
theorem leOf_trans {α : Type} [BEq α] [LawfulBEq α] {lt : α → α → Bool} (h : StrictTotal lt) :
    ∀ a b c : α, (lt a b || a == b) = true → (lt b c || b == c) = true → (lt a c || a == c) = true := by
  intro a b c h1 h2
  simp only [Bool.or_eq_true, beq_iff_eq] at *
  rcases h1 with h1 | rfl
  · rcases h2 with h2 | rfl
    · exact Or.inl (h.trans a b c h1 h2)
    · exact Or.inl h1
  · exact h2

theorem leOf_total {α : Type} [BEq α] [LawfulBEq α] {lt : α → α → Bool} (h : StrictTotal lt) :
    ∀ a b : α, ((lt a b || a == b) || (lt b a || b == a)) = true := by
  intro a b
  simp only [Bool.or_eq_true, beq_iff_eq]
  rcases h.tri a b with t | t | t
  · exact Or.inl (Or.inl t)
  · exact Or.inl (Or.inr t)
  · exact Or.inr (Or.inl t)

theorem leOf_antisymm {α : Type} [BEq α] [LawfulBEq α] {lt : α → α → Bool} (h : StrictTotal lt) {a b : α}
    (h1 : (lt a b || a == b) = true) (h2 : (lt b a || b == a) = true) : a = b := by
  simp only [Bool.or_eq_true, beq_iff_eq] at *
  rcases h1 with h1 | h1
  · rcases h2 with h2 | h2
    · rw [h.asymm h1] at h2; exact absurd h2 Bool.false_ne_true
    · exact h2.symm
  · exact h1

/-- sorting with a total order gives the same list for rearrangements of the input -/
theorem mergeSort_eq_of_perm {α : Type} [BEq α] [LawfulBEq α] {lt : α → α → Bool} (h : StrictTotal lt)
    {l l' : List α} (hp : l.Perm l') :
    l.mergeSort (fun a b => lt a b || a == b) = l'.mergeSort (fun a b => lt a b || a == b) := by
  apply List.Perm.eq_of_pairwise (le := fun a b => (lt a b || a == b) = true)
  · intro a b _ _ h1 h2; exact leOf_antisymm h h1 h2
  · exact List.pairwise_mergeSort (leOf_trans h) (leOf_total h) l
  · exact List.pairwise_mergeSort (leOf_trans h) (leOf_total h) l'
  · exact (List.mergeSort_perm l _).trans (hp.trans (List.mergeSort_perm l' _).symm)

theorem nodup_eraseDups_aux {α : Type} [BEq α] [LawfulBEq α] :
    ∀ (n : Nat) (l : List α), l.length ≤ n → l.eraseDups.Nodup := by
  intro n
  induction n with
  | zero => intro l hl; have : l = [] := List.eq_nil_of_length_eq_zero (by omega); subst this; simp
  | succ n ih =>
    intro l hl
    cases l with
    | nil => simp
    | cons a as =>
      rw [List.eraseDups_cons, List.nodup_cons]
      constructor
      · intro hmem
        rw [List.mem_eraseDups, List.mem_filter] at hmem
        simp at hmem
      · apply ih
        have := List.length_filter_le (fun b => !b == a) as
        simp only [List.length_cons] at hl; omega

theorem nodup_eraseDups {α : Type} [BEq α] [LawfulBEq α] (l : List α) : l.eraseDups.Nodup :=
  nodup_eraseDups_aux l.length l (le_refl _)

/-- `set` listing (duplicates removed, sorted) depends only on the members -/
theorem canon_congr {α : Type} [BEq α] [LawfulBEq α] {lt : α → α → Bool} (h : StrictTotal lt) {l l' : List α}
    (hmem : ∀ x, x ∈ l ↔ x ∈ l') :
    l.eraseDups.mergeSort (fun a b => lt a b || a == b) =
      l'.eraseDups.mergeSort (fun a b => lt a b || a == b) := by
  apply mergeSort_eq_of_perm h
  rw [List.perm_ext_iff_of_nodup (nodup_eraseDups l) (nodup_eraseDups l')]
  intro x; rw [List.mem_eraseDups, List.mem_eraseDups]; exact hmem x

end C04L
