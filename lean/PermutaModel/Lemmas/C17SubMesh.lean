import PermutaModel.Lemmas.C17Irr2
import PermutaModel.Lemmas.C17MaxMesh
import PermutaModel.Spec.C17
/-! A1 (second part): `mesh_contains_cl_patt_many_shadings` is region-wise mesh-in-mesh containment. -/

namespace Model.C17

/-! ### insertion sort -/

theorem insertSorted_perm (a : Nat) (l : List Nat) : (insertSorted a l).Perm (a :: l) := by
  induction l with
  | nil => simp [insertSorted]
  | cons b t ih =>
    unfold insertSorted
    split
    · exact List.Perm.refl _
    · exact (List.Perm.cons b ih).trans (List.Perm.swap a b t)

theorem sortNat_perm (l : List Nat) : (sortNat l).Perm l := by
  induction l with
  | nil => simp [sortNat]
  | cons a t ih =>
    simp only [sortNat, List.foldr_cons] at ih ⊢
    exact (insertSorted_perm a _).trans (List.Perm.cons a ih)

theorem insertSorted_sorted (a : Nat) (l : List Nat) (h : l.Pairwise (· ≤ ·)) :
    (insertSorted a l).Pairwise (· ≤ ·) := by
  induction l with
  | nil => simp [insertSorted]
  | cons b t ih =>
    unfold insertSorted
    rw [List.pairwise_cons] at h
    split
    · rename_i hab
      rw [List.pairwise_cons]
      refine ⟨?_, List.pairwise_cons.mpr h⟩
      intro x hx
      rcases List.mem_cons.mp hx with rfl | hx
      · exact hab
      · exact Nat.le_trans hab (h.1 x hx)
    · rename_i hab
      rw [List.pairwise_cons]
      refine ⟨?_, ih h.2⟩
      intro x hx
      rcases List.mem_cons.mp ((insertSorted_perm a t).subset hx) with rfl | hx
      · omega
      · exact h.1 x hx

theorem sortNat_sorted (l : List Nat) : (sortNat l).Pairwise (· ≤ ·) := by
  induction l with
  | nil => simp [sortNat]
  | cons a t ih =>
    simp only [sortNat, List.foldr_cons] at ih ⊢
    exact insertSorted_sorted a _ ih

theorem sortNat_eq_of_sorted (l s : List Nat) (hp : s.Perm l) (hs : s.Pairwise (· ≤ ·)) : sortNat l = s :=
  List.Perm.eq_of_pairwise (le := (· ≤ ·)) (fun a b _ _ h1 h2 => Nat.le_antisymm h1 h2)
    (sortNat_sorted l) hs ((sortNat_perm l).trans hp.symm)

theorem sortNat_strict (l : List Nat) (hn : l.Nodup) : (sortNat l).Pairwise (· < ·) := by
  have h1 := sortNat_sorted l
  have h2 : (sortNat l).Nodup := (sortNat_perm l).nodup_iff.mpr hn
  have := List.Pairwise.and h1 h2
  exact this.imp (fun h => Nat.lt_of_le_of_ne h.1 h.2)

theorem spec_insertSorted_eq (a : Nat) (l : List Nat) : Spec.C17.insertSorted a l = insertSorted a l := by
  induction l with
  | nil => rfl
  | cons b t ih => simp [Spec.C17.insertSorted, insertSorted, ih]

theorem spec_sort_eq (l : List Nat) : l.foldr Spec.C17.insertSorted [] = sortNat l := by
  induction l with
  | nil => rfl
  | cons a t ih => simp only [List.foldr_cons, sortNat] at ih ⊢; rw [ih, spec_insertSorted_eq]

/-! ### strips -/

/-- for a strictly increasing list, the number of entries below `p` locates `p` -/
theorem sorted_locate (cs : List Nat) (hs : cs.Pairwise (· < ·)) (p : Nat) (hp : p ∉ cs) :
    Spec.C17.stripLo cs (cs.countP (fun k => decide (k < p))) ≤ p ∧
    (cs.countP (fun k => decide (k < p)) < cs.length →
      p < cs.getD (cs.countP (fun k => decide (k < p))) 0) := by
  have key : ∀ i, i < cs.length → (cs.getD i 0 < p ↔ i < cs.countP (fun k => decide (k < p))) := by
    intro i hi
    have hm : cs.getD i 0 ∈ cs := by rw [getD_of_lt cs i hi]; exact List.getElem_mem hi
    have := rank_lt_iff cs id (cs.getD i 0) p hm (by simp only [id]; intro h; exact hp (h ▸ hm))
    simp only [id] at this
    rw [sorted_rank cs hs i hi] at this
    exact this
  have hle : cs.countP (fun k => decide (k < p)) ≤ cs.length := List.countP_le_length
  constructor
  · unfold Spec.C17.stripLo
    split
    · omega
    · rename_i h0
      have := (key (cs.countP (fun k => decide (k < p)) - 1) (by omega)).mpr (by omega)
      omega
  · intro hlt
    have h1 : ¬ (cs.getD (cs.countP (fun k => decide (k < p))) 0 < p) := by
      intro h; have := (key _ hlt).mp h; omega
    have hm : cs.getD (cs.countP (fun k => decide (k < p))) 0 ∈ cs := by
      rw [getD_of_lt cs _ hlt]; exact List.getElem_mem hlt
    have : cs.getD (cs.countP (fun k => decide (k < p))) 0 ≠ p := fun h => hp (h ▸ hm)
    omega

theorem rectShaded_iff (S : Shading) (l b r u : Nat) :
    rectShaded S l b r u = true ↔ ∀ x y, l ≤ x → x ≤ r → b ≤ y → y ≤ u → (x, y) ∈ S := by
  unfold rectShaded
  simp only [List.all_eq_true, List.mem_range'_1, List.contains_iff_mem]
  constructor
  · intro h x y h1 h2 h3 h4; exact h y ⟨h3, by omega⟩ x ⟨h1, by omega⟩
  · intro h y hy x hx; exact h x y hx.1 (by omega) hy.1 (by omega)

theorem pointFree_iff (perm : NSeq) (l b r u : Nat) :
    pointFree perm l b r u = true ↔ ∀ i, l ≤ i → i < r → ¬ (b ≤ perm.getD i 0 ∧ perm.getD i 0 < u) := by
  unfold pointFree
  simp only [Bool.not_eq_true', List.any_eq_false, List.mem_range'_1, Bool.and_eq_true, decide_eq_true_eq]
  constructor
  · intro h i h1 h2; exact h i ⟨h1, by omega⟩
  · intro h i hi; exact h i hi.1 (by omega)

theorem getD_mid (cs : List Nat) (N x : Nat) (hx : x < cs.length) :
    (cs.map (· + 1) ++ [N + 1]).getD x 0 = cs.getD x 0 + 1 := by
  rw [List.getD_eq_getElem?_getD, List.getElem?_append_left (by simpa using hx), List.getElem?_map,
    List.getElem?_eq_getElem hx, getD_of_lt cs x hx]
  simp

theorem getD_last (cs : List Nat) (N : Nat) :
    (cs.map (· + 1) ++ [N + 1]).getD cs.length 0 = N + 1 := by
  rw [List.getD_eq_getElem?_getD, List.getElem?_append_right (by simp)]
  simp

theorem getD_bounds (cs : List Nat) (N x : Nat) (hx : x ≤ cs.length) :
    ([0] ++ cs.map (· + 1) ++ [N + 1]).getD x 0 = Spec.C17.stripLo cs x ∧
    ([0] ++ cs.map (· + 1) ++ [N + 1]).getD (x + 1) 0 - 1 = Spec.C17.stripHi cs N x := by
  have e : [0] ++ cs.map (· + 1) ++ [N + 1] = 0 :: (cs.map (· + 1) ++ [N + 1]) := by simp
  rw [e]
  unfold Spec.C17.stripLo Spec.C17.stripHi
  constructor
  · cases x with
    | zero => simp
    | succ x =>
      simp only [List.getD_cons_succ, Nat.succ_ne_zero, if_false, Nat.add_sub_cancel]
      exact getD_mid cs N x (by omega)
  · simp only [List.getD_cons_succ]
    by_cases hxe : x = cs.length
    · subst hxe; rw [getD_last]; simp
    · simp only [hxe, if_false]
      rw [getD_mid cs N x (by omega)]; simp

end Model.C17

namespace Model.C17

/-- the region condition for one cell of the small pattern -/
def CellOK (perm : NSeq) (S : Shading) (c vs : List Nat) (x y : Nat) : Prop :=
  (∀ a b, Spec.C17.stripLo c x ≤ a → a ≤ Spec.C17.stripHi c perm.length x →
      Spec.C17.stripLo vs y ≤ b → b ≤ Spec.C17.stripHi vs perm.length y → (a, b) ∈ S) ∧
  (∀ i, Spec.C17.stripLo c x ≤ i → i < Spec.C17.stripHi c perm.length x →
      ¬ (Spec.C17.stripLo vs y ≤ perm.getD i 0 ∧ perm.getD i 0 < Spec.C17.stripHi vs perm.length y))

theorem sortNat_occ {perm patt : NSeq} {c : List Nat} (hocc : IsOcc patt perm c) : sortNat c = c :=
  sortNat_eq_of_sorted c c (List.Perm.refl _) (hocc.inc.imp Nat.le_of_lt)

theorem stripHi_le (cs : List Nat) (N x : Nat) (hb : ∀ v ∈ cs, v < N) (hx : x ≤ cs.length) :
    Spec.C17.stripHi cs N x ≤ N := by
  unfold Spec.C17.stripHi
  split
  · exact Nat.le_refl _
  · have hx' : x < cs.length := by omega
    rw [getD_of_lt cs x hx']
    exact Nat.le_of_lt (hb _ (List.getElem_mem hx'))

section occ
variable {perm patt : NSeq} (hperm : IsPerm perm) {c : List Nat} (hocc : IsOcc patt perm c)
include hperm hocc

theorem vs_facts : (sortNat (pick perm c)).length = c.length ∧
    (sortNat (pick perm c)).Pairwise (· < ·) ∧ (∀ v ∈ sortNat (pick perm c), v < perm.length) ∧
    sortNat (c.map fun i => perm.getD i 0 + 1) = (sortNat (pick perm c)).map (· + 1) := by
  have hcn : c.Nodup := hocc.inc.imp (fun h => Nat.ne_of_lt h)
  have hpn := pick_nodup hperm c hcn hocc.rng
  refine ⟨?_, sortNat_strict _ hpn, ?_, ?_⟩
  · rw [(sortNat_perm _).length_eq]; simp [pick]
  · intro v hv
    have := (sortNat_perm _).subset hv
    unfold pick at this
    obtain ⟨i, hi, rfl⟩ := List.mem_map.mp this
    exact hperm.getD_lt (hocc.rng i hi)
  · apply sortNat_eq_of_sorted
    · have : (c.map fun i => perm.getD i 0 + 1) = (pick perm c).map (· + 1) := by
        unfold pick; rw [List.map_map]; rfl
      rw [this]
      exact (sortNat_perm _).map _
    · rw [List.pairwise_map]
      exact (sortNat_sorted _).imp (fun h => by omega)

theorem mem_subMeshShading (S : Shading) (cell : Cell) :
    cell ∈ subMeshShading perm S c ↔
      cell.1 ≤ c.length ∧ cell.2 ≤ c.length ∧ CellOK perm S c (sortNat (pick perm c)) cell.1 cell.2 := by
  obtain ⟨hvl, _, _, hhor⟩ := vs_facts hperm hocc
  unfold subMeshShading
  simp only
  rw [sortNat_occ hocc, hhor]
  simp only [List.mem_flatMap, List.mem_filterMap, List.mem_range]
  have hcell : ∀ x y, x ≤ c.length → y ≤ c.length →
      ((rectShaded S (([0] ++ c.map (· + 1) ++ [perm.length + 1]).getD x 0)
          (([0] ++ (sortNat (pick perm c)).map (· + 1) ++ [perm.length + 1]).getD y 0)
          (([0] ++ c.map (· + 1) ++ [perm.length + 1]).getD (x + 1) 0 - 1)
          (([0] ++ (sortNat (pick perm c)).map (· + 1) ++ [perm.length + 1]).getD (y + 1) 0 - 1)
        && pointFree perm (([0] ++ c.map (· + 1) ++ [perm.length + 1]).getD x 0)
          (([0] ++ (sortNat (pick perm c)).map (· + 1) ++ [perm.length + 1]).getD y 0)
          (([0] ++ c.map (· + 1) ++ [perm.length + 1]).getD (x + 1) 0 - 1)
          (([0] ++ (sortNat (pick perm c)).map (· + 1) ++ [perm.length + 1]).getD (y + 1) 0 - 1)) = true
        ↔ CellOK perm S c (sortNat (pick perm c)) x y) := by
    intro x y hx hy
    obtain ⟨e1, e2⟩ := getD_bounds c perm.length x hx
    obtain ⟨e3, e4⟩ := getD_bounds (sortNat (pick perm c)) perm.length y (by omega)
    rw [e1, e2, e3, e4, Bool.and_eq_true, rectShaded_iff, pointFree_iff]
    unfold CellOK
    constructor
    · rintro ⟨h1, h2⟩
      exact ⟨fun a b ha1 ha2 hb1 hb2 => h1 a b ha1 ha2 hb1 hb2, h2⟩
    · rintro ⟨h1, h2⟩
      exact ⟨fun a b ha1 ha2 hb1 hb2 => h1 a b ha1 ha2 hb1 hb2, h2⟩
  constructor
  · rintro ⟨x, hx, y, hy, h⟩
    split at h
    · rename_i hcond
      simp only [Option.some.injEq] at h; subst h
      exact ⟨by simp; omega, by simp; omega, (hcell x y (by omega) (by omega)).mp hcond⟩
    · cases h
  · rintro ⟨h1, h2, h3⟩
    refine ⟨cell.1, by omega, cell.2, by omega, ?_⟩
    rw [if_pos ((hcell cell.1 cell.2 h1 h2).mpr h3)]

/-- the point-free half of the region condition already excludes every hit box -/
theorem disjoint_of_pointfree (S : Shading) (R : Shading)
    (h : ∀ cell ∈ R, cell.1 ≤ c.length ∧ cell.2 ≤ c.length ∧
      CellOK perm S c (sortNat (pick perm c)) cell.1 cell.2) :
    disjointB (hitBoxes (pick perm c) perm 0) R = true := by
  obtain ⟨hvl, hvs, hvb, _⟩ := vs_facts hperm hocc
  have hcn : c.Nodup := hocc.inc.imp (fun h => Nat.ne_of_lt h)
  rw [disjointB_iff]
  intro cell hcell hR
  obtain ⟨p, hp, hpc, rfl⟩ := hitBoxes_subset hperm c hcn hocc.rng cell hcell
  obtain ⟨hx, hy, _, hpf⟩ := h _ hR
  unfold proj at hx hy hpf
  simp only at hx hy hpf
  have hy' : c.countP (fun k => decide (perm.getD k 0 < perm.getD p 0))
      = (sortNat (pick perm c)).countP (fun v => decide (v < perm.getD p 0)) := by
    rw [(sortNat_perm (pick perm c)).countP_eq]
    unfold pick; rw [List.countP_map]; rfl
  have hpv : perm.getD p 0 ∉ sortNat (pick perm c) := by
    intro hm
    have := (sortNat_perm _).subset hm
    exact hpc ((mem_pick_iff hperm c hocc.rng p hp).mp this)
  obtain ⟨lx1, lx2⟩ := sorted_locate c hocc.inc p hpc
  obtain ⟨ly1, ly2⟩ := sorted_locate (sortNat (pick perm c)) hvs (perm.getD p 0) hpv
  rw [← hy'] at ly1 ly2
  apply hpf p lx1
  · unfold Spec.C17.stripHi
    split
    · exact hp
    · exact lx2 (by omega)
  · refine ⟨ly1, ?_⟩
    unfold Spec.C17.stripHi
    split
    · exact hperm.getD_lt hp
    · exact ly2 (by omega)

end occ

/-- per occurrence and shading, the model's test and the region-wise definition agree -/
theorem occ_test_iff {perm patt : NSeq} (hperm : IsPerm perm) {c : List Nat} (hocc : IsOcc patt perm c)
    (S R : Shading) :
    (disjointB (hitBoxes (pick perm c) perm 0) R && subsetB R (subMeshShading perm S c)) = true ↔
      ∀ cell ∈ R, cell.1 ≤ c.length ∧ cell.2 ≤ c.length ∧
        CellOK perm S c (sortNat (pick perm c)) cell.1 cell.2 := by
  rw [Bool.and_eq_true, subsetB_iff]
  constructor
  · rintro ⟨_, h⟩ cell hcell
    exact (mem_subMeshShading hperm hocc S cell).mp (h cell hcell)
  · intro h
    exact ⟨disjoint_of_pointfree hperm hocc S R h,
      fun cell hcell => (mem_subMeshShading hperm hocc S cell).mpr (h cell hcell)⟩

end Model.C17

namespace Model.C17

theorem spec_cell_iff (perm : NSeq) (S : Shading) (c vs : List Nat) (hc : ∀ v ∈ c, v < perm.length)
    (hv : ∀ v ∈ vs, v < perm.length) (hl : vs.length = c.length) (cell : Cell) :
    (decide (cell.1 ≤ c.length) && decide (cell.2 ≤ c.length) &&
      ((List.range (perm.length + 1)).all fun a => (List.range (perm.length + 1)).all fun b =>
        !(decide (Spec.C17.stripLo c cell.1 ≤ a) && decide (a ≤ Spec.C17.stripHi c perm.length cell.1) &&
          decide (Spec.C17.stripLo vs cell.2 ≤ b) && decide (b ≤ Spec.C17.stripHi vs perm.length cell.2)) ||
        S.contains (a, b)) &&
      ((List.range perm.length).all fun i =>
        !(decide (Spec.C17.stripLo c cell.1 ≤ i) && decide (i < Spec.C17.stripHi c perm.length cell.1) &&
          decide (Spec.C17.stripLo vs cell.2 ≤ perm.getD i 0) &&
          decide (perm.getD i 0 < Spec.C17.stripHi vs perm.length cell.2)))) = true ↔
    cell.1 ≤ c.length ∧ cell.2 ≤ c.length ∧ CellOK perm S c vs cell.1 cell.2 := by
  simp only [Bool.and_eq_true, decide_eq_true_eq, List.all_eq_true, List.mem_range, Bool.or_eq_true,
    Bool.not_eq_true', Bool.and_eq_false_iff, decide_eq_false_iff_not, List.contains_iff_mem]
  unfold CellOK
  constructor
  · rintro ⟨⟨⟨h1, h2⟩, h3⟩, h4⟩
    have hx := stripHi_le c perm.length cell.1 hc h1
    have hy := stripHi_le vs perm.length cell.2 hv (by omega)
    refine ⟨h1, h2, ?_, ?_⟩
    · intro a b ha1 ha2 hb1 hb2
      rcases h3 a (by omega) b (by omega) with h | h
      · rcases h with ((h | h) | h) | h <;> omega
      · exact h
    · intro i hi1 hi2 hcon
      rcases h4 i (by omega) with ((h | h) | h) | h <;> omega
  · rintro ⟨h1, h2, h3, h4⟩
    refine ⟨⟨⟨h1, h2⟩, ?_⟩, ?_⟩
    · intro a _ b _
      by_cases hin : Spec.C17.stripLo c cell.1 ≤ a ∧ a ≤ Spec.C17.stripHi c perm.length cell.1 ∧
          Spec.C17.stripLo vs cell.2 ≤ b ∧ b ≤ Spec.C17.stripHi vs perm.length cell.2
      · right; exact h3 a b hin.1 hin.2.1 hin.2.2.1 hin.2.2.2
      · left
        by_cases g1 : Spec.C17.stripLo c cell.1 ≤ a
        · by_cases g2 : a ≤ Spec.C17.stripHi c perm.length cell.1
          · by_cases g3 : Spec.C17.stripLo vs cell.2 ≤ b
            · right; intro g4; exact hin ⟨g1, g2, g3, g4⟩
            · left; right; exact g3
          · left; left; right; exact g2
        · left; left; left; exact g1
    · intro i _
      by_cases g1 : Spec.C17.stripLo c cell.1 ≤ i
      · by_cases g2 : i < Spec.C17.stripHi c perm.length cell.1
        · by_cases g3 : Spec.C17.stripLo vs cell.2 ≤ perm.getD i 0
          · right; intro g4; exact h4 i g1 g2 ⟨g3, g4⟩
          · left; right; exact g3
        · left; left; right; exact g2
      · left; left; left; exact g1

/-- **A1 (second part)** `mesh_contains_cl_patt_many_shadings(perm, S, patt, Rs)` holds exactly when
    the mesh pattern `(perm, S)` contains one of the mesh patterns `(patt, R)`, `R ∈ Rs`, in the
    region-wise sense of `Spec.C17.meshInMesh` -/
theorem meshContainsMany_iff (perm : NSeq) (hperm : IsPerm perm) (patt : NSeq) (hpatt : IsPerm patt)
    (S : Shading) (Rs : List Shading) :
    meshContainsMany perm S patt Rs = true ↔
      ∃ R ∈ Rs, Spec.C17.meshInMesh ⟨perm, S⟩ ⟨patt, R⟩ = true := by
  unfold meshContainsMany meshContainsPos Spec.C17.meshInMesh
  simp only [List.any_eq_true]
  have hcell : ∀ c ∈ Model.occurrencesIn patt perm, ∀ R : Shading,
      ((disjointB (hitBoxes (pick perm c) perm 0) R && subsetB R (subMeshShading perm S c)) = true ↔
        (R.all fun cell =>
          decide (cell.1 ≤ c.length) && decide (cell.2 ≤ c.length) &&
          ((List.range (perm.length + 1)).all fun a => (List.range (perm.length + 1)).all fun b =>
            !(decide (Spec.C17.stripLo c cell.1 ≤ a) && decide (a ≤ Spec.C17.stripHi c perm.length cell.1) &&
              decide (Spec.C17.stripLo ((c.map fun i => perm.getD i 0).foldr Spec.C17.insertSorted []) cell.2 ≤ b) &&
              decide (b ≤ Spec.C17.stripHi ((c.map fun i => perm.getD i 0).foldr Spec.C17.insertSorted [])
                perm.length cell.2)) || S.contains (a, b)) &&
          ((List.range perm.length).all fun i =>
            !(decide (Spec.C17.stripLo c cell.1 ≤ i) && decide (i < Spec.C17.stripHi c perm.length cell.1) &&
              decide (Spec.C17.stripLo ((c.map fun i => perm.getD i 0).foldr Spec.C17.insertSorted []) cell.2
                ≤ perm.getD i 0) &&
              decide (perm.getD i 0 < Spec.C17.stripHi
                ((c.map fun i => perm.getD i 0).foldr Spec.C17.insertSorted []) perm.length cell.2)))) = true) := by
    intro c hc R
    have hocc : IsOcc patt perm c := (C01.mem_occurrencesIn_iff patt perm hpatt hperm c).mp hc
    obtain ⟨hvl, _, hvb, _⟩ := vs_facts hperm hocc
    rw [occ_test_iff hperm hocc, spec_sort_eq, List.all_eq_true]
    constructor
    · intro h cell hcell
      exact (spec_cell_iff perm S c _ hocc.rng hvb hvl cell).mpr (h cell hcell)
    · intro h cell hcell
      exact (spec_cell_iff perm S c _ hocc.rng hvb hvl cell).mp (h cell hcell)
  constructor
  · rintro ⟨c, hc, R, hR, h⟩
    exact ⟨R, hR, c, hc, (hcell c hc R).mp h⟩
  · rintro ⟨R, hR, c, hc, h⟩
    exact ⟨c, hc, R, hR, (hcell c hc R).mpr h⟩

end Model.C17
