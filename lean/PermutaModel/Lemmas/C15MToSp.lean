import PermutaModel.Lemmas.C14C15
/-!
# C15's own copies of `m_to_sp` / `is_strict_pinword` are C14's

`Model.C15.mToSp` (a `find?` over the generated `letter_dict`, on `Char`s) against `Model.C14.mToSp`
(a lookup in the `rev_letter_dict` the loop of the source builds, on `Letter`s), for **every** word –
no well-formedness is needed, both raise `KeyError` on the same words.
-/

namespace C14C15
open Model.C14 Model.C14.Letter Spec.C14 Proto C14L

/-- the outcome of C15's `m_to_sp` (`none` = `KeyError`) in C14's vocabulary -/
def liftM (r : Option CW) : Except Err Word :=
  match r with
  | some v => .ok (toL v)
  | none => .error .keyError

theorem revLookup_nondir (x y : Letter) (h : x.isDir = false ∨ y.isDir = false) :
    revLetterDict.lookup [x, y] = none := by
  rw [revLetterDict_eq]
  cases x <;> cases y <;> first | rfl | (simp [isDir] at h)

theorem find15_nondir (a b : Char) (h : Model.C15.DIRS.contains a = false ∨ Model.C15.DIRS.contains b = false) :
    (Generated.c15_mLetterDict.find? fun kv => kv.2 == [a, b] || kv.2.reverse == [a, b]) = none := by
  have h' : ¬ (a = 'U' ∨ a = 'L' ∨ a = 'D' ∨ a = 'R') ∨ ¬ (b = 'U' ∨ b = 'L' ∨ b = 'D' ∨ b = 'R') := by
    rcases h with h | h
    · left; rw [← mem_dirs]; intro hc; simp_all
    · right; rw [← mem_dirs]; intro hc; simp_all
  simp only [Generated.c15_mLetterDict, List.find?_eq_none, List.mem_cons, List.not_mem_nil, or_false]
  rintro kv (rfl | rfl | rfl | rfl) <;> simp <;> rcases h' with h' | h' <;> simp_all <;> (constructor <;> rintro rfl <;> (try rintro rfl) <;> simp_all)

/-- the two dictionaries agree on every pair of letters -/
theorem revLookup_pair (a b : Char) :
    revLetterDict.lookup [ofChar a, ofChar b] =
      (Generated.c15_mLetterDict.find? fun kv => kv.2 == [a, b] || kv.2.reverse == [a, b]).map
        fun kv => ofChar kv.1 := by
  by_cases ha : Model.C15.DIRS.contains a = true
  · by_cases hb : Model.C15.DIRS.contains b = true
    · rw [List.contains_iff_mem, mem_dirs] at ha hb
      rcases ha with rfl | rfl | rfl | rfl <;> rcases hb with rfl | rfl | rfl | rfl <;> decide
    · have hb' : Model.C15.DIRS.contains b = false := by simpa using hb
      rw [find15_nondir a b (Or.inr hb'), revLookup_nondir _ _ (Or.inr (by rw [isDir_ofChar]; exact hb'))]
      rfl
  · have ha' : Model.C15.DIRS.contains a = false := by simpa using ha
    rw [find15_nondir a b (Or.inl ha'), revLookup_nondir _ _ (Or.inl (by rw [isDir_ofChar]; exact ha'))]
    rfl

/-- **`m_to_sp` bridge**: for every word (over any alphabet) C14's `m_to_sp` on the letters is C15's on the
    characters – the same strict pin word, or `KeyError` on both sides -/
theorem mToSp_bridge (m : CW) : mToSp (toL m) = liftM (Model.C15.mToSp m) := by
  match m with
  | [] => decide
  | [a] =>
    have h1 : mToSp (toL [a]) = .error .keyError := by
      unfold mToSp; rw [lookup_short _ (by simp [toL])]
    rw [h1]
    have h2 : Model.C15.mToSp [a] = none := by
      simp [Model.C15.mToSp, Generated.c15_mLetterDict]
    rw [h2]; rfl
  | a :: b :: t =>
    simp only [toL, List.map_cons, mToSp_pair, revLookup_pair, Model.C15.mToSp, List.take_succ_cons,
      List.take_zero, List.drop_succ_cons, List.drop_zero]
    cases (Generated.c15_mLetterDict.find? fun kv => kv.2 == [a, b] || kv.2.reverse == [a, b]) <;> rfl

/-- `is_strict_pinword`: C15's copy is C14's, for every word -/
theorem isStrict_bridge (w : CW) : isStrict (toL w) = Model.C15.isStrict w := by
  cases w with
  | nil => rfl
  | cons c t =>
    simp only [toL, List.map_cons, isStrict, Model.C15.isStrict, isQuad_ofChar, List.all_map]
    congr 1
    apply List.all_congr rfl
    intro x
    simp [isDir_ofChar]

end C14C15
