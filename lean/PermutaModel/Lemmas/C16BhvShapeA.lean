import PermutaModel.Lemmas.C16BhvDefs
/-!
# C16 — the literal shapes of `parAlt k` and `wedge1 k` are order-isomorphic to the plots of the family members
-/
namespace C16P.ShapeA
open Model.C14 C14L

/-- a consecutive chain of strict inequalities gives all strict inequalities -/
theorem chain (n : Nat) (f : Nat → Rat) (h : ∀ v, v + 1 < n → f v < f (v + 1)) :
    ∀ d v, v + d + 1 < n → f v < f (v + d + 1) := by
  intro d
  induction d with
  | zero => intro v hv; exact h v hv
  | succ d ih =>
    intro v hv
    have h1 := ih v (by omega)
    have h2 := h (v + d + 1) (by omega)
    exact lt_trans h1 h2

theorem chain' (n : Nat) (f : Nat → Rat) (h : ∀ v, v + 1 < n → f v < f (v + 1))
    (v w : Nat) (hvw : v < w) (hw : w < n) : f v < f w := by
  have := chain n f h (w - v - 1) v (by omega)
  have e : v + (w - v - 1) + 1 = w := by omega
  rwa [e] at this

/-- generic statement: points `e 0, …, e (n-1)` with increasing abscissae whose ordinates are ordered like
    the values `r 0, …, r (n-1)` (`pos` = the inverse of `r`) have permutation `r` -/
theorem perm_mapRange (n : Nat) (e : Nat → Pt) (r pos : Nat → Nat)
    (hx : ∀ a, a + 1 < n → (e a).1 < (e (a + 1)).1)
    (hr : ∀ a, a < n → r a < n ∧ pos (r a) = a)
    (hy : ∀ v, v + 1 < n → (e (pos v)).2 < (e (pos (v + 1))).2) :
    permOfPts ((List.range n).map e) = (List.range n).map r ∧ ((List.range n).map e).Nodup := by
  have hX : ∀ a b, a < b → b < n → (e a).1 < (e b).1 := chain' n (fun a => (e a).1) hx
  have hY : ∀ v w, v < w → w < n → (e (pos v)).2 < (e (pos w)).2 := chain' n (fun v => (e (pos v)).2) hy
  have hYr : ∀ a b, a < n → b < n → r a < r b → (e a).2 < (e b).2 := by
    intro a b ha hb hab
    have := hY (r a) (r b) hab (hr b hb).1
    rwa [(hr a ha).2, (hr b hb).2] at this
  have hinj : ∀ a b, a < n → b < n → r a = r b → a = b := by
    intro a b ha hb hab
    rw [← (hr a ha).2, ← (hr b hb).2, hab]
  have hYiff : ∀ a b, a < n → b < n → ((e a).2 < (e b).2 ↔ r a < r b) := by
    intro a b ha hb
    constructor
    · intro h
      rcases Nat.lt_trichotomy (r a) (r b) with h1 | h1 | h1
      · exact h1
      · have := hinj a b ha hb h1; subst this; exact absurd h (Rat.lt_irrefl)
      · have := hYr b a hb ha h1; exact absurd (lt_trans h this) (Rat.lt_irrefl)
    · exact hYr a b ha hb
  have hpw : ((List.range n).map e).Pairwise (fun a b => a.1 < b.1) := by
    rw [List.pairwise_map]
    refine List.Pairwise.imp_of_mem ?_ List.pairwise_lt_range
    intro a b ha hb hab
    exact hX a b hab (List.mem_range.mp hb)
  have hsorted : sortedPins ((List.range n).map e) = (List.range n).map e := by
    unfold sortedPins
    apply List.mergeSort_of_pairwise
    refine hpw.imp ?_
    intro a b hab
    simp only [ptLe, Bool.or_eq_true, decide_eq_true_eq]
    exact Or.inl hab
  have hnd : ((List.range n).map e).Nodup := by
    refine hpw.imp ?_
    intro a b hab h
    subst h
    exact absurd hab Rat.lt_irrefl
  have hynd : (ys ((List.range n).map e)).Nodup := by
    simp only [ys, List.map_map]
    rw [List.nodup_map_iff_inj_on List.nodup_range]
    intro a ha b hb h
    have ha := List.mem_range.mp ha
    have hb := List.mem_range.mp hb
    simp only [Function.comp] at h
    rcases Nat.lt_trichotomy (r a) (r b) with h1 | h1 | h1
    · have := hYr a b ha hb h1; rw [h] at this; exact absurd this Rat.lt_irrefl
    · exact hinj a b ha hb h1
    · have := hYr b a hb ha h1; rw [h] at this; exact absurd this Rat.lt_irrefl
  refine ⟨?_, hnd⟩
  apply Model.C17.perm_eq_of_iso (permOfPts_isPerm hynd)
    (C16Fam.isPerm_mapRange n r (fun p hp => (hr p hp).1) hinj)
    (by rw [permOfPts_length]; simp)
  intro a b ha hb
  rw [permOfPts_length] at ha hb
  rw [permOfPts_orderIso a b ha hb, hsorted]
  simp only [List.length_map, List.length_range] at ha hb
  rw [C16Fam.getD_mapRange n r a ha, C16Fam.getD_mapRange n r b hb]
  simp only [List.getD_eq_getElem?_getD, List.getElem?_map, List.getElem?_range ha,
    List.getElem?_range hb, Option.map_some, Option.getD_some]
  exact hYiff a b ha hb

/-! ### parallel alternations -/

def parE (k : Nat) (A B : Nat → Pt) (a : Nat) : Pt := if a < k then A a else B (a - k)

theorem parList_eq (k : Nat) (A B : Nat → Pt) :
    parList k A B = (List.range (2 * k)).map (parE k A B) := by
  have : 2 * k = k + k := by omega
  rw [this, List.range_add, List.map_append, List.map_map]
  unfold parList
  congr 1
  · apply List.map_congr_left
    intro a ha
    simp [parE, List.mem_range.mp ha]
  · apply List.map_congr_left
    intro a ha
    simp [parE]

def parPos (k v : Nat) : Nat := if v % 2 = 0 then k - 1 - v / 2 else k + (k - 1 - v / 2)

theorem litPar_both (k : Nat) (A B : Nat → Pt) (h : LitPar k A B) :
    permOfPts (parList k A B) = C16Fam.parAlt k ∧ (parList k A B).Nodup := by
  obtain ⟨h1, h2, h3, h4⟩ := h
  rw [parList_eq, C16Fam.parAlt]
  apply perm_mapRange (2 * k) (parE k A B) (C16Fam.altEntry k) (parPos k)
  · intro a ha
    unfold parE
    by_cases c1 : a + 1 < k
    · rw [if_pos (by omega), if_pos c1]; exact (h1 a (a + 1) (by omega) c1).1
    · by_cases c2 : a < k
      · rw [if_pos c2, if_neg c1]; exact h2 a (a + 1 - k) c2 (by omega)
      · rw [if_neg c2, if_neg c1]
        have e : a + 1 - k = a - k + 1 := by omega
        rw [e]
        exact (h1 (a - k) (a - k + 1) (by omega) (by omega)).2
  · intro a ha
    unfold C16Fam.altEntry parPos
    constructor
    · split_ifs <;> omega
    · split_ifs <;> omega
  · intro v hv
    unfold parPos parE
    by_cases c : v % 2 = 0
    · have c' : ¬ (v + 1) % 2 = 0 := by omega
      rw [if_pos c, if_neg c', if_pos (by omega), if_neg (by omega)]
      have e1 : (v + 1) / 2 = v / 2 := by omega
      have e : k + (k - 1 - (v + 1) / 2) - k = k - 1 - v / 2 := by omega
      rw [e]
      exact h3 _ (by omega)
    · have c' : (v + 1) % 2 = 0 := by omega
      rw [if_neg c, if_pos c', if_neg (by omega), if_pos (by omega)]
      have e : k + (k - 1 - v / 2) - k = (k - 1 - (v + 1) / 2) + 1 := by omega
      rw [e]
      exact h4 _ (by omega)

/-! ### wedges of the first kind -/

def w1E (k : Nat) (L U : Nat → Pt) (Z : Pt) (a : Nat) : Pt :=
  if a = 2 * k then Z else if a % 2 = 0 then L (a / 2) else U (a / 2)

theorem flat_eq (L U : Nat → Pt) (k : Nat) :
    (List.range k).flatMap (fun j => [L j, U j]) =
      (List.range (2 * k)).map (fun a => if a % 2 = 0 then L (a / 2) else U (a / 2)) := by
  induction k with
  | zero => simp
  | succ k ih =>
    have e : 2 * (k + 1) = 2 * k + 1 + 1 := by omega
    rw [List.range_succ, List.flatMap_append, ih, e, List.range_succ, List.range_succ]
    have e1 : (2 * k) % 2 = 0 := by omega
    have e2 : (2 * k + 1) % 2 ≠ 0 := by omega
    have e3 : (2 * k) / 2 = k := by omega
    have e4 : (2 * k + 1) / 2 = k := by omega
    simp [e1, e3, e4]

theorem w1List_eq (k : Nat) (L U : Nat → Pt) (Z : Pt) :
    w1List k L U Z = (List.range (2 * k + 1)).map (w1E k L U Z) := by
  unfold w1List
  rw [flat_eq, List.range_succ, List.map_append]
  congr 1
  · apply List.map_congr_left
    intro a ha
    have := List.mem_range.mp ha
    simp [w1E, show a ≠ 2 * k by omega]
  · simp [w1E]

theorem w1E_Z (k : Nat) (L U : Nat → Pt) (Z : Pt) : w1E k L U Z (2 * k) = Z := by simp [w1E]
theorem w1E_even (k : Nat) (L U : Nat → Pt) (Z : Pt) (a j : Nat) (ha : a = 2 * j) (hj : j < k) :
    w1E k L U Z a = L j := by
  subst ha
  unfold w1E
  rw [if_neg (by omega), if_pos (by omega)]
  congr 1; omega
theorem w1E_odd (k : Nat) (L U : Nat → Pt) (Z : Pt) (a j : Nat) (ha : a = 2 * j + 1) (_hj : j < k) :
    w1E k L U Z a = U j := by
  subst ha
  unfold w1E
  rw [if_neg (by omega), if_neg (by omega)]
  congr 1; omega

def w1Pos (k v : Nat) : Nat := if v < k then 2 * (k - 1 - v) else if v = k then 2 * k else 2 * (v - k - 1) + 1

theorem litW1_both (k : Nat) (L U : Nat → Pt) (Z : Pt) (h : LitW1 k L U Z) :
    permOfPts (w1List k L U Z) = C16Fam.wedge1 k ∧ (w1List k L U Z).Nodup := by
  obtain ⟨h1, h2, h3, h4, h5⟩ := h
  rw [w1List_eq, C16Fam.wedge1]
  apply perm_mapRange (2 * k + 1) (w1E k L U Z) (C16Fam.w1Entry k) (w1Pos k)
  · intro a ha
    by_cases c : a % 2 = 0
    · rw [w1E_even k L U Z a (a / 2) (by omega) (by omega),
        w1E_odd k L U Z (a + 1) (a / 2) (by omega) (by omega)]
      exact h1 _ (by omega)
    · rw [w1E_odd k L U Z a (a / 2) (by omega) (by omega)]
      by_cases c2 : a + 1 = 2 * k
      · rw [c2, w1E_Z]; exact h3 _ (by omega)
      · rw [w1E_even k L U Z (a + 1) (a / 2 + 1) (by omega) (by omega)]
        exact h2 _ (by omega)
  · intro a ha
    unfold C16Fam.w1Entry w1Pos
    constructor
    · split_ifs <;> omega
    · split_ifs <;> omega
  · intro v hv
    by_cases c1 : v + 1 < k
    · have p1 : w1Pos k v = 2 * (k - 1 - v) := by unfold w1Pos; split_ifs <;> omega
      have p2 : w1Pos k (v + 1) = 2 * (k - 1 - (v + 1)) := by unfold w1Pos; split_ifs; omega
      rw [p1, p2, w1E_even k L U Z _ (k - 1 - (v + 1) + 1) (by omega) (by omega),
        w1E_even k L U Z _ (k - 1 - (v + 1)) rfl (by omega)]
      exact (h4 _ (by omega)).1
    · by_cases c2 : v + 1 = k
      · have p1 : w1Pos k v = 2 * 0 := by unfold w1Pos; split_ifs <;> omega
        have p2 : w1Pos k (v + 1) = 2 * k := by unfold w1Pos; split_ifs; omega
        rw [p1, p2, w1E_even k L U Z _ 0 rfl (by omega), w1E_Z]
        exact (h5 (by omega)).1
      · by_cases c3 : v = k
        · have p1 : w1Pos k v = 2 * k := by unfold w1Pos; split_ifs <;> omega
          have p2 : w1Pos k (v + 1) = 2 * 0 + 1 := by unfold w1Pos; split_ifs; omega
          rw [p1, p2, w1E_odd k L U Z _ 0 rfl (by omega), w1E_Z]
          exact (h5 (by omega)).2
        · have p1 : w1Pos k v = 2 * (v - k - 1) + 1 := by unfold w1Pos; split_ifs <;> omega
          have p2 : w1Pos k (v + 1) = 2 * (v - k - 1 + 1) + 1 := by unfold w1Pos; split_ifs; omega
          rw [p1, p2, w1E_odd k L U Z _ _ rfl (by omega), w1E_odd k L U Z _ _ rfl (by omega)]
          exact (h4 _ (by omega)).2

end C16P.ShapeA

namespace C16P

theorem litPar_perm (k : Nat) (A B : Nat → Pt) (h : LitPar k A B) :
    Model.C14.permOfPts (parList k A B) = C16Fam.parAlt k := (ShapeA.litPar_both k A B h).1

theorem litPar_nodup (k : Nat) (A B : Nat → Pt) (h : LitPar k A B) : (parList k A B).Nodup :=
  (ShapeA.litPar_both k A B h).2

theorem litW1_perm (k : Nat) (L U : Nat → Pt) (Z : Pt) (h : LitW1 k L U Z) :
    Model.C14.permOfPts (w1List k L U Z) = C16Fam.wedge1 k := (ShapeA.litW1_both k L U Z h).1

theorem litW1_nodup (k : Nat) (L U : Nat → Pt) (Z : Pt) (h : LitW1 k L U Z) : (w1List k L U Z).Nodup :=
  (ShapeA.litW1_both k L U Z h).2

end C16P

