import PermutaModel.Lemmas.C14SoundGeo
/-! C14 soundness helpers: reading a pin word off a marked pin word (`Sel`) and the geometry of
    the marked points. -/
namespace C14S
open Model.C14 Model.C14.Letter Spec.C14 Proto C14L

/-- `Sel prev ps w u`: `u` is read off `w` by marking some of its letters.  `prev` is the letter
    before `w` and `ps` tells whether it is marked.  A marked direction letter that follows a marked
    letter is copied; every other marked letter contributes the numeral of its quadrant
    (`signsOf prev c`: relative to everything older than the previous pin); a direction letter
    directly after a marked letter cannot be read as a numeral (the gap condition of Thm 3.13). -/
inductive Sel : Letter → Bool → Word → Word → Prop
  | nil (prev ps) : Sel prev ps [] []
  | skip {prev ps c w u} : Sel c false w u → Sel prev ps (c :: w) u
  | takeDir {prev c w u} : c.isDir = true → Sel c true w u → Sel prev true (c :: w) (c :: u)
  | takeNum {prev ps c w u} : (ps = false ∨ c.isQuad = true) → Sel c true w u →
      Sel prev ps (c :: w) (quadOfSigns (signsOf prev c) :: u)

/-- what the letter `prev` tells about the newest point -/
def HG (prev : Letter) : List Pt → Prop
  | [] => False
  | h :: T => (prev.isVert = false → Side (namesRight prev) h.1 (xs T))
      ∧ (prev.isHoriz = false → Side (namesUp prev) h.2 (ys T))

/-- marked points `selA` among all points `A`; `ps`: the newest point is marked -/
def SelInv (ps : Bool) (A selA : List Pt) : Prop :=
  ∃ h T, A = h :: T ∧ (if ps then ∃ selT, selA = h :: selT ∧ selT.Sublist T else selA.Sublist T)

theorem SelInv.sub {ps A selA} (h : SelInv ps A selA) : selA.Sublist A := by
  obtain ⟨h, T, rfl, hh⟩ := h
  cases ps
  · exact (show selA.Sublist T from by simpa using hh).trans (List.sublist_cons_self _ _)
  · obtain ⟨selT, rfl, hs⟩ := (by simpa using hh : ∃ selT, selA = h :: selT ∧ selT.Sublist T)
    exact hs.cons_cons _

theorem side_sub {pos : Bool} {v : Rat} {l l' : List Rat} (h : Side pos v l) (hs : l'.Sublist l) :
    Side pos v l' := fun a ha => h a (hs.subset ha)

theorem between_sub {v last : Rat} {l l' : List Rat} (h : Between v last l) (hs : l'.Sublist l) :
    Between v last l' := by
  rcases h with ⟨h1, h2⟩ | ⟨h1, h2⟩
  · exact Or.inl ⟨fun a ha => h1 a (hs.subset ha), h2⟩
  · exact Or.inr ⟨fun a ha => h1 a (hs.subset ha), h2⟩

/-- between the previous value and older ones, the previous one being on side `pos` of them -/
theorem between_side {pos : Bool} {v last : Rat} {l : List Rat} (h : Between v last l)
    (hs : Side pos last l) : Side pos v l := by
  intro a ha
  have h1 := hs a ha
  rcases h with ⟨h2, h3⟩ | ⟨h2, h3⟩ <;> have h4 := h2 a ha <;> cases pos <;> simp_all <;> grind

theorem quadOfSigns_names (s : Bool × Bool) :
    namesRight (quadOfSigns s) = s.1 ∧ namesUp (quadOfSigns s) = s.2 := by
  obtain ⟨a, b⟩ := s
  cases a <;> cases b <;> simp [quadOfSigns, namesRight, namesUp]

theorem quadOfSigns_isQuad' (s : Bool × Bool) : (quadOfSigns s).isQuad = true := by
  obtain ⟨a, b⟩ := s
  cases a <;> cases b <;> rfl

theorem hg_of_geo {c : Letter} {p : Pt} {A : List Pt} (hG : Geo c p A)
    (hc : c.isQuad = true ∨ c.isDir = true) (hA : A ≠ []) : HG c (p :: A) := by
  by_cases hq : c.isQuad = true
  · simp only [Geo, hq, if_true, IndepPin] at hG
    exact ⟨fun _ => hG.1, fun _ => hG.2⟩
  · simp only [Geo, hq, Bool.false_eq_true, if_false] at hG
    have hd : c.isDir = true := by rcases hc with h | h; exact absurd h hq; exact h
    cases A with
    | nil => exact absurd rfl hA
    | cons last init =>
      by_cases hv : c.isVert = true
      · simp only [SepPin, hv, if_true] at hG
        exact ⟨fun h => absurd hv (by simp [h]), fun _ => hG.1⟩
      · simp only [SepPin, hv, Bool.false_eq_true, if_false] at hG
        have hh : c.isHoriz = true := by cases c <;> simp_all [isDir, isVert, isHoriz]
        exact ⟨fun _ => hG.1, fun h => absurd hh (by simp [h])⟩


theorem chain_letter {prev c : Letter} {w : Word} (h : chainOK prev (c :: w) = true) :
    (c.isQuad = true ∨ c.isDir = true) ∧ (c.isQuad = true ∨ sameAxis prev c = false)
      ∧ chainOK c w = true := by
  simp only [chainOK, Bool.and_eq_true, Bool.or_eq_true, Bool.not_eq_true'] at h
  refine ⟨?_, ?_, h.2⟩
  · rcases h.1 with h | h; exact Or.inl h; exact Or.inr h.1
  · rcases h.1 with h | h; exact Or.inl h; exact Or.inr h.2

/-- the numeral reading of a marked letter: an independent pin with respect to the marked points -/
theorem indep_of_geo {prev c : Letter} {p : Pt} {A selA : List Pt} {ps : Bool}
    (hG : Geo c p A) (hc : (c.isQuad = true ∨ c.isDir = true) ∧ (c.isQuad = true ∨ sameAxis prev c = false))
    (hH : HG prev A) (hI : SelInv ps A selA) (hps : ps = false ∨ c.isQuad = true) :
    Geo (quadOfSigns (signsOf prev c)) p selA := by
  have hsub := hI.sub
  simp only [Geo, quadOfSigns_isQuad', if_true, IndepPin, quadOfSigns_names]
  by_cases hq : c.isQuad = true
  · simp only [Geo, hq, if_true, IndepPin] at hG
    simp only [signsOf, hq, if_true]
    exact ⟨side_sub hG.1 (hsub.map _), side_sub hG.2 (hsub.map _)⟩
  · have hps : ps = false := by rcases hps with h | h; exact h; exact absurd h hq
    have hd : c.isDir = true := by rcases hc.1 with h | h; exact absurd h hq; exact h
    have hsa : sameAxis prev c = false := by rcases hc.2 with h | h; exact absurd h hq; exact h
    obtain ⟨h, T, rfl, hT⟩ := hI
    simp only [hps, Bool.false_eq_true, if_false] at hT
    simp only [Geo, hq, Bool.false_eq_true, if_false] at hG
    simp only [signsOf, hq, Bool.false_eq_true, if_false]
    by_cases hv : c.isVert = true
    · simp only [SepPin, hv, if_true] at hG ⊢
      have hpv : prev.isVert = false := by
        simp only [sameAxis, hv] at hsa
        cases hp' : prev.isVert <;> simp_all
      refine ⟨side_sub (between_side hG.2 (hH.1 hpv)) (hT.map _), side_sub hG.1 ?_⟩
      exact ((hT.map Prod.snd).trans (List.sublist_cons_self _ _))
    · simp only [SepPin, hv, Bool.false_eq_true, if_false] at hG ⊢
      have hh : c.isHoriz = true := by cases c <;> simp_all [isDir, isVert, isHoriz]
      have hph : prev.isHoriz = false := by
        simp only [sameAxis, hh] at hsa
        cases hp' : prev.isHoriz <;> simp_all
      refine ⟨side_sub hG.1 ?_, side_sub (between_side hG.2 (hH.2 hph)) (hT.map _)⟩
      exact ((hT.map Prod.fst).trans (List.sublist_cons_self _ _))

/-- a copied direction letter: a separating pin with respect to the marked points -/
theorem sep_of_geo {c : Letter} {p : Pt} {A selA : List Pt}
    (hG : Geo c p A) (hd : c.isDir = true) (hI : SelInv true A selA) : Geo c p selA := by
  have hq : c.isQuad = false := by cases c <;> simp_all [isDir, isQuad]
  obtain ⟨h, T, rfl, hT⟩ := hI
  simp only [if_true] at hT
  obtain ⟨selT, rfl, hT⟩ := hT
  simp only [Geo, hq, Bool.false_eq_true, if_false] at hG ⊢
  by_cases hv : c.isVert = true
  · simp only [SepPin, hv, if_true] at hG ⊢
    exact ⟨side_sub hG.1 ((hT.cons_cons h).map _), between_sub hG.2 (hT.map _)⟩
  · simp only [SepPin, hv, Bool.false_eq_true, if_false] at hG ⊢
    exact ⟨side_sub hG.1 ((hT.cons_cons h).map _), between_sub hG.2 (hT.map _)⟩

/-- **geometry of a marking**: the marked points of a geometric run of `w` form a geometric run
    of the word read off -/
theorem sel_geo {prev : Letter} {ps : Bool} {w u : Word} (hS : Sel prev ps w u) :
    ∀ (A selA W : List Pt), chainOK prev w = true → HG prev A → SelInv ps A selA → GeoRun A w W →
    ∃ s1 newer, W = newer ++ A ∧ s1.Sublist newer ∧ GeoRun selA u (s1 ++ selA) := by
  induction hS with
  | nil prev ps =>
    intro A selA W _ _ _ hR
    simp only [GeoRun] at hR; subst hR
    exact ⟨[], [], rfl, List.Sublist.refl _, rfl⟩
  | @skip prev ps c w u _ ih =>
    intro A selA W hch hH hI hR
    obtain ⟨p, hp, hR⟩ := hR
    obtain ⟨hc1, hc2, hch'⟩ := chain_letter hch
    have hA : A ≠ [] := by obtain ⟨h, T, rfl, _⟩ := hI; simp
    have hI' : SelInv false (p :: A) selA := ⟨p, A, rfl, by simpa using hI.sub⟩
    obtain ⟨s1, newer, rfl, hs, hg⟩ := ih (p :: A) selA W hch' (hg_of_geo hp hc1 hA) hI' hR
    exact ⟨s1, newer ++ [p], by simp, hs.trans (List.sublist_append_left _ _), hg⟩
  | @takeDir prev c w u hd _ ih =>
    intro A selA W hch hH hI hR
    obtain ⟨p, hp, hR⟩ := hR
    obtain ⟨hc1, hc2, hch'⟩ := chain_letter hch
    have hA : A ≠ [] := by obtain ⟨h, T, rfl, _⟩ := hI; simp
    have hI' : SelInv true (p :: A) (p :: selA) := ⟨p, A, rfl, by simp only [if_true]; exact ⟨selA, rfl, hI.sub⟩⟩
    obtain ⟨s1, newer, rfl, hs, hg⟩ := ih (p :: A) (p :: selA) W hch' (hg_of_geo hp hc1 hA) hI' hR
    refine ⟨s1 ++ [p], newer ++ [p], by simp, List.Sublist.append hs (List.Sublist.refl _), ?_⟩
    exact ⟨p, sep_of_geo hp hd hI, by simpa using hg⟩
  | @takeNum prev ps c w u hps _ ih =>
    intro A selA W hch hH hI hR
    obtain ⟨p, hp, hR⟩ := hR
    obtain ⟨hc1, hc2, hch'⟩ := chain_letter hch
    have hA : A ≠ [] := by obtain ⟨h, T, rfl, _⟩ := hI; simp
    have hI' : SelInv true (p :: A) (p :: selA) := ⟨p, A, rfl, by simp only [if_true]; exact ⟨selA, rfl, hI.sub⟩⟩
    obtain ⟨s1, newer, rfl, hs, hg⟩ := ih (p :: A) (p :: selA) W hch' (hg_of_geo hp hc1 hA) hI' hR
    refine ⟨s1 ++ [p], newer ++ [p], by simp, List.Sublist.append hs (List.Sublist.refl _), ?_⟩
    exact ⟨p, indep_of_geo hp ⟨hc1, hc2⟩ hH hI hps, by simpa using hg⟩

end C14S
