import PermutaModel.Lemmas.SContains
import PermutaModel.Lemmas.C10InsRem

/-! C02 helpers, part 1: order-isomorphism (`OIso`) in index form, invariance of `SContains` /
    `Avoids` under order-preserving relabelling, order-isomorphic permutations are equal. -/
open List

namespace C02L
open C10L

/-- `OIso` in index form -/
theorem OIso_iff_getD (a b : List Nat) :
    OIso a b ↔ a.length = b.length ∧ ∀ i j, i < a.length → j < a.length →
      (a.getD i 0 < a.getD j 0 ↔ b.getD i 0 < b.getD j 0) := by
  unfold OIso
  constructor
  · rintro ⟨hl, h⟩
    refine ⟨hl, fun i j hi hj => ?_⟩
    have hi' : i < (a.zip b).length := by simp [List.length_zip]; omega
    have hj' : j < (a.zip b).length := by simp [List.length_zip]; omega
    have := h _ (List.getElem_mem hi') _ (List.getElem_mem hj')
    simp only [List.getElem_zip] at this
    rw [getD_eq_getElem' hi, getD_eq_getElem' hj, getD_eq_getElem' (p := b) (by omega),
      getD_eq_getElem' (p := b) (by omega)]
    exact this
  · rintro ⟨hl, h⟩
    refine ⟨hl, fun p hp q hq => ?_⟩
    obtain ⟨i, hi, rfl⟩ := List.getElem_of_mem hp
    obtain ⟨j, hj, rfl⟩ := List.getElem_of_mem hq
    simp only [List.length_zip] at hi hj
    have := h i j (by omega) (by omega)
    rw [getD_eq_getElem' (by omega), getD_eq_getElem' (by omega), getD_eq_getElem' (p := b) (by omega),
      getD_eq_getElem' (p := b) (by omega)] at this
    simpa only [List.getElem_zip] using this

theorem OIso_refl (a : List Nat) : OIso a a := by
  rw [OIso_iff_getD]; exact ⟨rfl, fun _ _ _ _ => Iff.rfl⟩

theorem OIso_symm {a b : List Nat} (h : OIso a b) : OIso b a := by
  rw [OIso_iff_getD] at h ⊢
  exact ⟨h.1.symm, fun i j hi hj => (h.2 i j (by omega) (by omega)).symm⟩

theorem OIso_trans {a b c : List Nat} (h : OIso a b) (h' : OIso b c) : OIso a c := by
  rw [OIso_iff_getD] at h h' ⊢
  exact ⟨h.1.trans h'.1, fun i j hi hj => (h.2 i j hi hj).trans (h'.2 i j (by omega) (by omega))⟩

/-- relabelling by a map that preserves `<` on the entries gives an order-isomorphic list -/
theorem OIso_map (s : List Nat) (f : Nat → Nat) (hf : ∀ x ∈ s, ∀ y ∈ s, (x < y ↔ f x < f y)) :
    OIso s (s.map f) := by
  rw [OIso_iff_getD]
  refine ⟨by simp, fun i j hi hj => ?_⟩
  have e : ∀ k, k < s.length → (s.map f).getD k 0 = f (s.getD k 0) := by
    intro k hk
    rw [getD_eq_getElem' (p := s.map f) (by simpa using hk), getD_eq_getElem' hk]; simp
  rw [e i hi, e j hj]
  exact hf _ (getD_mem hi) _ (getD_mem hj)

/-- containment is invariant under order-preserving relabelling of the text -/
theorem SContains_map_iff (σ π : List Nat) (f : Nat → Nat)
    (hf : ∀ x ∈ σ, ∀ y ∈ σ, (x < y ↔ f x < f y)) :
    SContains (σ.map f) π ↔ SContains σ π := by
  constructor
  · rintro ⟨s, hs, hi⟩
    obtain ⟨s', hs', rfl⟩ := List.sublist_map_iff.mp hs
    refine ⟨s', hs', OIso_trans hi (OIso_symm (OIso_map s' f ?_))⟩
    exact fun x hx y hy => hf x (hs'.subset hx) y (hs'.subset hy)
  · rintro ⟨s, hs, hi⟩
    refine ⟨s.map f, hs.map f, OIso_trans hi (OIso_map s f ?_)⟩
    exact fun x hx y hy => hf x (hs.subset hx) y (hs.subset hy)

theorem Avoids_map_iff (B : List (List Nat)) (σ : List Nat) (f : Nat → Nat)
    (hf : ∀ x ∈ σ, ∀ y ∈ σ, (x < y ↔ f x < f y)) :
    Avoids B (σ.map f) ↔ Avoids B σ := by
  unfold Avoids
  exact forall₂_congr fun b _ => not_congr (SContains_map_iff σ b f hf)

theorem filter_lt_range : ∀ (n x : Nat), x ≤ n → (List.range n).filter (· < x) = List.range x
  | 0, x, h => by
    have : x = 0 := by omega
    subst this; simp
  | n+1, x, h => by
    rw [List.range_succ, List.filter_append]
    by_cases hx : x ≤ n
    · rw [filter_lt_range n x hx]
      have : ¬ n < x := by omega
      simp [this]
    · have hx' : x = n + 1 := by omega
      subst hx'
      have : (List.range n).filter (· < n + 1) = List.range n := by
        apply List.filter_eq_self.mpr
        intro a ha
        have := List.mem_range.mp ha
        simp; omega
      rw [this, List.range_succ]; simp

theorem map_getD_range (a : NSeq) : (List.range a.length).map (fun i => a.getD i 0) = a := by
  apply List.ext_getElem (by simp)
  intro i h1 h2
  simp [List.getD_eq_getElem?_getD, h2]

/-- in a permutation the entry at a position is the number of positions carrying a smaller entry -/
theorem IsPerm.getD_eq_count {p : NSeq} (h : IsPerm p) {i : Nat} (hi : i < p.length) :
    p.getD i 0 = ((List.range p.length).filter fun j => p.getD j 0 < p.getD i 0).length := by
  have hx := h.getD_lt hi
  have h1 : (p.filter (· < p.getD i 0)).length = p.getD i 0 := by
    rw [((perm_range h).filter _).length_eq, filter_lt_range _ _ (by omega)]; simp
  have h2 : (p.filter (· < p.getD i 0)).length =
      (((List.range p.length).map (fun i => p.getD i 0)).filter (· < p.getD i 0)).length := by
    rw [map_getD_range p]
  rw [List.filter_map, List.length_map] at h2
  exact (h1.symm.trans h2)

/-- order-isomorphic permutations are equal -/
theorem OIso_eq_of_isPerm {a b : NSeq} (h : OIso a b) (ha : IsPerm a) (hb : IsPerm b) : a = b := by
  rw [OIso_iff_getD] at h
  apply ext_getD h.1
  intro i hi
  have hi' : i < b.length := by omega
  rw [IsPerm.getD_eq_count ha hi, IsPerm.getD_eq_count hb hi', ← h.1]
  congr 1
  apply List.filter_congr
  intro j hj
  have hj' := List.mem_range.mp hj
  simpa using h.2 j i hj' hi

end C02L
