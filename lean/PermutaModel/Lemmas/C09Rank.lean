import PermutaModel.Lemmas.C09Perms

/-! Helper lemmas for C09: `unrank` / `rank` against the index in `Model.permsAux`. -/
open Nat

namespace C09

/-! ### factorial tables -/

/-- `[0!, 1!, …, m!]` -/
def factList (m : Nat) : List Nat := (List.range (m + 1)).map (· !)

theorem length_factList (m : Nat) : (factList m).length = m + 1 := by simp [factList]

theorem getD_factList (m i : Nat) (h : i ≤ m) : (factList m).getD i 0 = i ! := by
  simp [factList, List.getD_eq_getElem?_getD, List.getElem?_map, List.getElem?_range (by omega : i < m + 1)]

theorem factList_succ (m : Nat) : factList (m + 1) = factList m ++ [(m + 1)!] := by
  simp [factList, List.range_succ]

theorem getLastD_factList (m : Nat) : (factList m).getLastD 1 = m ! := by
  cases m with
  | zero => simp [factList]
  | succ m => rw [factList_succ]; simp

theorem factTable_eq (n : Nat) : Model.factTable n = factList n := by
  induction n with
  | zero => simp [Model.factTable, factList]
  | succ n ih =>
    rw [Model.factTable, ih, factList_succ, getD_factList n n (le_refl n), Nat.factorial_succ, Nat.mul_comm]

theorem facExtend_eq : ∀ (count m : Nat), 1 ≤ m →
    Model.facExtend count (m + 1) (factList m) = factList (m + count) := by
  intro count
  induction count with
  | zero => intro m _; simp [Model.facExtend]
  | succ c ih =>
    intro m hm
    rw [Model.facExtend, getLastD_factList, ← Nat.factorial_succ, ← factList_succ, ih (m + 1) (by omega)]
    congr 1; omega

/-- the table built by `unrank(number, length)`: correct on the entries `_unrank` reads (`< length`) -/
theorem facExtend_getD (len i : Nat) (hi : i < len) :
    (Model.facExtend (len - 2) 2 [1, 1]).getD i 0 = i ! := by
  have h11 : ([1, 1] : List Nat) = factList 1 := by simp [factList, List.range_succ]
  rw [h11, facExtend_eq (len - 2) 1 (le_refl 1)]
  apply getD_factList; omega

theorem offset_le (n m : Nat) (h : n ≤ m) : offset n ≤ offset m := by
  induction h with
  | refl => exact le_refl _
  | step _ ih => rw [offset]; omega

/-- the `while` loop of `unrank`: it stops with `1 ≤ number' ≤ m'!`, the table `[0!, …, m'!]`, and
    `number' + (0! + … + (m'-1)!) = number + (0! + … + (m-1)!)`; in particular the fuel is never exhausted -/
theorem unrankLoop_spec : ∀ (fuel number m : Nat), 1 ≤ number → number ≤ fuel →
    ∃ m' num', Model.unrankLoop fuel number (factList m) = (num', factList m') ∧ m ≤ m' ∧
      1 ≤ num' ∧ num' ≤ m' ! ∧ num' + offset m' = number + offset m := by
  intro fuel
  induction fuel with
  | zero => intro number m h1 h2; omega
  | succ fuel ih =>
    intro number m h1 h2
    rw [Model.unrankLoop, getLastD_factList]
    by_cases hgt : number > (m !)
    · simp only [hgt, if_true]
      have hpos := Nat.factorial_pos m
      have hstep : factList m ++ [m ! * (factList m).length] = factList (m + 1) := by
        rw [length_factList, factList_succ, Nat.factorial_succ, Nat.mul_comm]
      rw [hstep]
      obtain ⟨m', num', he, hm, h1', h2', h3'⟩ := ih (number - m !) (m + 1) (by omega) (by omega)
      refine ⟨m', num', he, by omega, h1', h2', ?_⟩
      rw [h3', offset]; omega
    · simp only [hgt, if_false]
      exact ⟨m, number, rfl, le_refl m, h1, by omega, rfl⟩

/-! ### `_unrank` -/

theorem unrankFor_eq (fac : List Nat) : ∀ (t : Nat), (∀ i < t, fac.getD i 0 = i !) →
    ∀ (k : Nat) (cands σ : List Nat), cands.Nodup → cands.length = t →
      (Model.permsAux t cands)[k]? = some σ → Model.unrankFor t k cands fac = .ok σ := by
  intro t
  induction t with
  | zero =>
    intro _ k cands σ _ _ h
    simp only [Model.permsAux] at h
    cases k with
    | zero => simp at h; subst h; rfl
    | succ k => simp at h
  | succ t ih =>
    intro hfac k cands σ hnd hlen h
    have hf : fac.getD t 0 = t ! := hfac t (by omega)
    have hpos := Nat.factorial_pos t
    have hk : k < (t + 1)! := by
      have := (List.getElem?_eq_some_iff.mp h).1
      rwa [length_permsAux (t + 1) cands hlen] at this
    have hi : k / t ! < cands.length := by
      rw [hlen, Nat.div_lt_iff_lt_mul hpos, ← Nat.factorial_succ]; exact hk
    have hj : k % t ! < t ! := Nat.mod_lt _ hpos
    have hkk : k / t ! * t ! + k % t ! = k := by rw [Nat.mul_comm]; exact Nat.div_add_mod k (t !)
    rw [← hkk, getElem?_permsAux_succ t cands hnd hlen _ hi _ hj] at h
    obtain ⟨τ, hτ, rfl⟩ := Option.map_eq_some_iff.mp h
    have hlen' : (cands.eraseIdx (k / t !)).length = t := by
      rw [List.length_eraseIdx, if_pos hi, hlen]; rfl
    have := ih (fun i hi => hfac i (by omega)) (k % t !) (cands.eraseIdx (k / t !)) τ
      (hnd.eraseIdx _) hlen' hτ
    rw [Model.unrankFor, hf, if_pos hi, this]
    simp [List.getD_eq_getElem?_getD, List.getElem?_eq_getElem hi]

/-! ### `rank` -/

theorem bisectLeft_insert (vals : List Nat) (x v : Nat) :
    Model.bisectLeft (Model.insertAtPos vals (Model.bisectLeft vals x) x) v =
      if x < v then Model.bisectLeft vals v + 1 else Model.bisectLeft vals v := by
  induction vals with
  | nil => simp [Model.bisectLeft, Model.insertAtPos]
  | cons a t ih =>
    by_cases hax : a < x
    · have : Model.insertAtPos (a :: t) (Model.bisectLeft (a :: t) x) x =
          a :: Model.insertAtPos t (Model.bisectLeft t x) x := by
        simp [Model.bisectLeft, Model.insertAtPos, hax]
      rw [this]
      simp only [Model.bisectLeft, ih]
      by_cases hav : a < v <;> by_cases hxv : x < v <;> simp [hav, hxv] <;> omega
    · have : Model.insertAtPos (a :: t) (Model.bisectLeft (a :: t) x) x = x :: a :: t := by
        simp [Model.bisectLeft, Model.insertAtPos, hax]
      rw [this]
      simp only [Model.bisectLeft]
      by_cases hav : a < v <;> by_cases hxv : x < v <;> simp [hav, hxv] <;> omega

theorem countP_eraseIdx (p : Nat → Bool) : ∀ (l : List Nat) (i : Nat) (hi : i < l.length),
    (l.eraseIdx i).countP p + (if p l[i] then 1 else 0) = l.countP p := by
  intro l
  induction l with
  | nil => intro i hi; simp at hi
  | cons a t ih =>
    intro i hi
    cases i with
    | zero => simp [List.countP_cons]
    | succ i =>
      simp only [List.eraseIdx_cons_succ, List.countP_cons, List.getElem_cons_succ]
      have := ih i (by simpa using hi)
      omega

theorem countP_lt_getElem : ∀ (l : List Nat), l.Pairwise (· < ·) → ∀ (i : Nat) (hi : i < l.length),
    l.countP (· < l[i]) = i := by
  intro l
  induction l with
  | nil => intro _ i hi; simp at hi
  | cons a t ih =>
    intro hs i hi
    rw [List.pairwise_cons] at hs
    cases i with
    | zero =>
      simp only [List.getElem_cons_zero, List.countP_cons, Nat.lt_irrefl, decide_false]
      rw [List.countP_eq_zero.mpr]
      · simp
      · intro x hx; have := hs.1 x hx; simp; omega
    | succ i =>
      have hi' : i < t.length := by simpa using hi
      simp only [List.getElem_cons_succ, List.countP_cons]
      have h1 : a < t[i] := hs.1 _ (List.getElem_mem _)
      rw [ih hs.2 i hi']
      simp [h1]

/-- the sorted list `vals` of used values and the sorted list `l` of unused ones are complementary:
    for an unused `v`, (used values below `v`) + (unused values below `v`) = `v` -/
def RankInv (l vals : List Nat) : Prop := ∀ v ∈ l, Model.bisectLeft vals v + l.countP (· < v) = v

theorem rankInv_init (n : Nat) : RankInv (List.range n) [] := by
  intro v hv
  have hv' : v < n := List.mem_range.mp hv
  have := countP_lt_getElem (List.range n) List.pairwise_lt_range v (by simpa using hv')
  simp only [List.getElem_range] at this
  simp [Model.bisectLeft, this]

theorem rankInv_step (l vals : List Nat) (hs : l.Pairwise (· < ·)) (i : Nat) (hi : i < l.length)
    (h : RankInv l vals) :
    RankInv (l.eraseIdx i) (Model.insertAtPos vals (Model.bisectLeft vals l[i]) l[i]) := by
  intro v hv
  have hnd : l.Nodup := hs.imp (fun h => Nat.ne_of_lt h)
  obtain ⟨j, hj, hji, rfl⟩ := List.mem_eraseIdx_iff_getElem.mp hv
  have hne : l[j] ≠ l[i] := fun e => hji ((hnd.getElem_inj_iff).mp e)
  have h0 := h l[j] (List.getElem_mem _)
  have h1 := countP_eraseIdx (· < l[j]) l i hi
  rw [bisectLeft_insert]
  by_cases hlt : l[i] < l[j]
  · simp only [hlt, decide_true, if_true] at h1 ⊢
    omega
  · simp only [hlt, decide_false, if_false] at h1 ⊢
    simp at h1
    omega

theorem rankFor_eq (fact : List Nat) : ∀ (t : Nat), (∀ i < t, fact.getD i 0 = i !) →
    ∀ (k : Nat) (l σ vals : List Nat) (res : Nat), l.Pairwise (· < ·) → l.length = t → RankInv l vals →
      (Model.permsAux t l)[k]? = some σ → Model.rankFor σ vals fact res = res + offset t + k := by
  intro t
  induction t with
  | zero =>
    intro _ k l σ vals res _ _ _ h
    simp only [Model.permsAux] at h
    cases k with
    | zero => simp at h; subst h; simp [Model.rankFor, offset]
    | succ k => simp at h
  | succ t ih =>
    intro hfac k l σ vals res hs hlen hinv h
    have hnd : l.Nodup := hs.imp (fun h => Nat.ne_of_lt h)
    have hpos := Nat.factorial_pos t
    have hk : k < (t + 1)! := by
      have := (List.getElem?_eq_some_iff.mp h).1
      rwa [length_permsAux (t + 1) l hlen] at this
    have hi : k / t ! < l.length := by
      rw [hlen, Nat.div_lt_iff_lt_mul hpos, ← Nat.factorial_succ]; exact hk
    have hj : k % t ! < t ! := Nat.mod_lt _ hpos
    have hkk : k / t ! * t ! + k % t ! = k := by rw [Nat.mul_comm]; exact Nat.div_add_mod k (t !)
    rw [← hkk, getElem?_permsAux_succ t l hnd hlen _ hi _ hj] at h
    obtain ⟨τ, hτ, rfl⟩ := Option.map_eq_some_iff.mp h
    have hlen' : (l.eraseIdx (k / t !)).length = t := by
      rw [List.length_eraseIdx, if_pos hi, hlen]; rfl
    have hτlen : τ.length = t :=
      ((mem_permsAux t _ τ (hnd.eraseIdx _)).mp (List.mem_of_getElem? hτ)).1
    have hdig : Model.bisectLeft vals l[k / t !] + k / t ! = l[k / t !] := by
      have := hinv _ (List.getElem_mem hi)
      rwa [countP_lt_getElem l hs _ hi] at this
    have := ih (fun i hi => hfac i (by omega)) (k % t !) (l.eraseIdx (k / t !)) τ
      (Model.insertAtPos vals (Model.bisectLeft vals l[k / t !]) l[k / t !])
      (res + ((l[k / t !] - Model.bisectLeft vals l[k / t !]) * fact.getD τ.length 0 + fact.getD τ.length 0))
      (hs.sublist (List.eraseIdx_sublist _ _)) hlen' (rankInv_step l vals hs _ hi hinv) hτ
    have hd : l[k / t !] - Model.bisectLeft vals l[k / t !] = k / t ! := by
      exact Nat.sub_eq_of_eq_add (by rw [Nat.add_comm]; exact hdig.symm)
    rw [Model.rankFor, this, hτlen, hfac t (by omega), offset, hd]
    generalize k / t ! * t ! = a at hkk ⊢
    omega

end C09
