import PermutaModel.Lemmas.C02Obj

/-! C02 helpers, part 11: the process state (`Proc`): objects are only ever modified through
    `getLevel`, so every object keeps its invariant under every operation. -/
open List Model Model.C02 Model.C07

namespace C02L

/-- invariant of the process state: every object ever created satisfies its invariant, and the
    class cache maps a basis to an object with that basis -/
structure ProcInv (s : Proc) : Prop where
  objs : ∀ o ∈ s.objs, ObjInv o
  cc : ∀ e ∈ s.classCache, ∃ o, s.objs[e.2]? = some o ∧ o.basis = e.1

/-- `s'` is a later state in which no object was created or rebound: same names, same class cache,
    every object is a later state of itself -/
structure ProcExt (s s' : Proc) : Prop where
  names : s'.names = s.names
  cc : s'.classCache = s.classCache
  iters : s'.iters = s.iters
  len : s'.objs.length = s.objs.length
  objs : ∀ (id : Nat) (o : AvObj), s.objs[id]? = some o → ∃ o', s'.objs[id]? = some o' ∧ ObjExt o o'

theorem ProcInv.init : ProcInv Proc.init := ⟨by simp [Proc.init], by simp [Proc.init]⟩

theorem ProcInv.obj {s : Proc} (h : ProcInv s) {id : Nat} {o : AvObj} (ho : s.objs[id]? = some o) :
    ObjInv o := h.objs o (List.mem_of_getElem? ho)

theorem ProcExt.refl (s : Proc) (h : ProcInv s) : ProcExt s s :=
  ⟨rfl, rfl, rfl, rfl, fun _ o ho => ⟨o, ho, ObjExt.refl (h.obj ho)⟩⟩

theorem ProcExt.trans {s t u : Proc} (h1 : ProcExt s t) (h2 : ProcExt t u) : ProcExt s u :=
  ⟨h2.names.trans h1.names, h2.cc.trans h1.cc, h2.iters.trans h1.iters, h2.len.trans h1.len,
    fun id o ho => by
      obtain ⟨o1, ho1, e1⟩ := h1.objs id o ho
      obtain ⟨o2, ho2, e2⟩ := h2.objs id o1 ho1
      exact ⟨o2, ho2, e1.trans e2⟩⟩

theorem obj?_eq_some {s : Proc} {name : String} {id : Nat} {o : AvObj} (h : s.obj? name = some (id, o)) :
    s.objs[id]? = some o := by
  unfold Proc.obj? at h
  split at h
  · simp at h
  · rename_i nm id' _
    split at h
    · simp at h
    · rename_i o' ho'
      simp only [Option.some.injEq, Prod.mk.injEq] at h
      obtain ⟨rfl, rfl⟩ := h
      exact ho'

theorem ProcExt.obj? {s s' : Proc} (h : ProcExt s s') {name : String} {id : Nat} {o : AvObj}
    (ho : s.obj? name = some (id, o)) : ∃ o', s'.obj? name = some (id, o') ∧ ObjExt o o' := by
  have ho' := obj?_eq_some ho
  obtain ⟨o', h1, h2⟩ := h.objs id o ho'
  refine ⟨o', ?_, h2⟩
  unfold Proc.obj? at ho ⊢
  rw [h.names]
  split at ho
  · simp at ho
  · rename_i nm id' hf
    split at ho
    · simp at ho
    · simp only [Option.some.injEq, Prod.mk.injEq] at ho
      obtain ⟨rfl, _⟩ := ho
      simp [h1]

theorem ProcExt.obj?_none {s s' : Proc} (h : ProcExt s s') {name : String}
    (ho : s.obj? name = none) : s'.obj? name = none := by
  unfold Proc.obj? at ho ⊢
  rw [h.names]
  split at ho
  · rfl
  · rename_i nm id' hf
    split at ho
    · rename_i hn
      have : s'.objs[id']? = none := by
        rw [List.getElem?_eq_none_iff] at hn ⊢
        rw [h.len]; exact hn
      simp [this]
    · simp at ho

/-- replacing an object by a later state of itself -/
theorem setObj_spec {s : Proc} (h : ProcInv s) {id : Nat} {o o' : AvObj} (ho : s.objs[id]? = some o)
    (hext : ObjExt o o') : ProcInv (s.setObj id o') ∧ ProcExt s (s.setObj id o') := by
  have hid : id < s.objs.length := by
    have := List.getElem?_eq_some_iff.mp ho; exact this.1
  constructor
  · constructor
    · intro x hx
      simp only [Proc.setObj] at hx
      rcases List.mem_or_eq_of_mem_set hx with hx | rfl
      · exact h.objs x hx
      · exact hext.inv
    · intro e he
      simp only [Proc.setObj] at he ⊢
      obtain ⟨x, hx, hb⟩ := h.cc e he
      by_cases hc : id = e.2
      · subst hc
        rw [ho] at hx
        simp only [Option.some.injEq] at hx
        subst hx
        exact ⟨o', by simp [hid], by rw [hext.basis, hb]⟩
      · exact ⟨x, by rw [List.getElem?_set_ne hc]; exact hx, hb⟩
  · refine ⟨rfl, rfl, rfl, by simp [Proc.setObj], ?_⟩
    intro id' x hx
    simp only [Proc.setObj]
    by_cases hc : id = id'
    · subst hc
      rw [ho] at hx
      simp only [Option.some.injEq] at hx
      subst hx
      exact ⟨o', by simp [hid], hext⟩
    · exact ⟨x, by rw [List.getElem?_set_ne hc]; exact hx, ObjExt.refl (h.obj hx)⟩

/-- a level request by object id -/
theorem levelById_spec {s : Proc} (h : ProcInv s) {id : Nat} {o : AvObj} (ho : s.objs[id]? = some o)
    (n : Nat) :
    ∃ s' ks, s.levelById id n = .ok (s', ks) ∧ ProcInv s' ∧ ProcExt s s' ∧
      ks.Perm (specLevel o.basis n) := by
  obtain ⟨o', ks, h1, hext, hks⟩ := getLevel_spec o (h.obj ho) n
  obtain ⟨hi, he⟩ := setObj_spec h ho hext
  exact ⟨s.setObj id o', ks, by simp only [Proc.levelById, ho, h1], hi, he, hks⟩

theorem levelById_none {s : Proc} {id : Nat} (ho : s.objs[id]? = none) (n : Nat) :
    s.levelById id n = .error .keyError := by
  simp only [Proc.levelById, ho]

/-- a level request by class name -/
theorem level_spec {s : Proc} (h : ProcInv s) {name : String} {id : Nat} {o : AvObj}
    (ho : s.obj? name = some (id, o)) (n : Nat) :
    ∃ s' ks, s.level name n = .ok (s', ks) ∧ ProcInv s' ∧ ProcExt s s' ∧
      ks.Perm (specLevel o.basis n) := by
  have ho' := obj?_eq_some ho
  obtain ⟨o', ks, h1, hext, hks⟩ := getLevel_spec o (h.obj ho') n
  obtain ⟨hi, he⟩ := setObj_spec h ho' hext
  exact ⟨s.setObj id o', ks, by simp only [Proc.level, ho, h1], hi, he, hks⟩

/-- `up_to_length` consumed at once: the concatenation of the spec levels -/
theorem upTo_spec : ∀ (k i : Nat) {s : Proc}, ProcInv s → ∀ {name : String} {id : Nat} {o : AvObj},
    s.obj? name = some (id, o) →
    ∃ s' ks, s.upTo name k i = .ok (s', ks) ∧ ProcInv s' ∧ ProcExt s s' ∧
      ks.Perm ((List.range' i k).flatMap (specLevel o.basis))
  | 0, i, s, h, _, _, _, _ => ⟨s, [], rfl, h, ProcExt.refl s h, by simp⟩
  | k+1, i, s, h, name, id, o, ho => by
    obtain ⟨s1, ks, h1, hi1, he1, hks⟩ := level_spec h ho i
    obtain ⟨o1, ho1, hext1⟩ := he1.obj? ho
    obtain ⟨s2, rest, h2, hi2, he2, hrest⟩ := upTo_spec k (i+1) hi1 ho1
    refine ⟨s2, ks ++ rest, by simp only [Proc.upTo, h1, h2], hi2, he1.trans he2, ?_⟩
    rw [hext1.basis] at hrest
    simpa [List.range'_succ] using hks.append hrest

/-- `enumeration`: the sizes of the spec levels -/
theorem enumeration_spec : ∀ (k i : Nat) {s : Proc}, ProcInv s → ∀ {name : String} {id : Nat} {o : AvObj},
    s.obj? name = some (id, o) →
    ∃ s', s.enumeration name k i = .ok (s', (List.range' i k).map fun j => (specLevel o.basis j).length) ∧
      ProcInv s' ∧ ProcExt s s'
  | 0, i, s, h, _, _, _, _ => ⟨s, rfl, h, ProcExt.refl s h⟩
  | k+1, i, s, h, name, id, o, ho => by
    obtain ⟨s1, ks, h1, hi1, he1, hks⟩ := level_spec h ho i
    obtain ⟨o1, ho1, hext1⟩ := he1.obj? ho
    obtain ⟨s2, h2, hi2, he2⟩ := enumeration_spec k (i+1) hi1 ho1
    refine ⟨s2, ?_, hi2, he1.trans he2⟩
    rw [hext1.basis] at h2
    simp only [Proc.enumeration, h1, h2, List.range'_succ, List.map_cons, hks.length_eq]

/-- the loop of `is_subclass`: `all(p not in self for p in ps)` evaluated on the spec levels -/
theorem isSubclassLoop_spec : ∀ (ps : List NSeq) {s : Proc}, ProcInv s →
    ∀ {name : String} {id : Nat} {o : AvObj}, s.obj? name = some (id, o) →
    ∃ s', s.isSubclassLoop name ps =
        .ok (s', ps.all fun p => !(specLevel o.basis p.length).contains p) ∧
      ProcInv s' ∧ ProcExt s s'
  | [], s, h, _, _, _, _ => ⟨s, rfl, h, ProcExt.refl s h⟩
  | p :: ps, s, h, name, id, o, ho => by
    obtain ⟨s1, ks, h1, hi1, he1, hks⟩ := level_spec h ho p.length
    have hc : ks.contains p = (specLevel o.basis p.length).contains p := by
      rw [Bool.eq_iff_iff, List.contains_iff_mem, List.contains_iff_mem, hks.mem_iff]
    by_cases hp : (specLevel o.basis p.length).contains p
    · exact ⟨s1, by simp only [Proc.isSubclassLoop, h1, hc, hp, List.all_cons]; simp, hi1, he1⟩
    · obtain ⟨o1, ho1, hext1⟩ := he1.obj? ho
      obtain ⟨s2, h2, hi2, he2⟩ := isSubclassLoop_spec ps hi1 ho1
      rw [hext1.basis] at h2
      exact ⟨s2, by simp only [Proc.isSubclassLoop, h1, hc, hp, h2, List.all_cons]; simp, hi2,
        he1.trans he2⟩

/-! ### iterators: consuming one never damages an object -/

theorem upToFetch_inv (obj maxLen : Nat) : ∀ (fuel : Nat) (s : Proc) (next : Nat), ProcInv s →
    ∀ {s' : Proc} {it' : IterSt} {r : Option NSeq},
    Proc.iterNext.upToFetch s obj next maxLen fuel = .ok (s', it', r) → ProcInv s' ∧ ProcExt s s'
  | 0, s, next, h, s', it', r, hr => by
    simp only [Proc.iterNext.upToFetch, Except.ok.injEq, Prod.mk.injEq] at hr
    obtain ⟨rfl, _⟩ := hr
    exact ⟨h, ProcExt.refl _ h⟩
  | fuel+1, s, next, h, s', it', r, hr => by
    cases ho : s.objs[obj]? with
    | none => simp [Proc.iterNext.upToFetch, levelById_none ho] at hr
    | some o =>
      obtain ⟨s1, ks, h1, hi1, he1, _⟩ := levelById_spec h ho next
      cases ks with
      | nil =>
        simp only [Proc.iterNext.upToFetch, h1] at hr
        obtain ⟨hi2, he2⟩ := upToFetch_inv obj maxLen fuel s1 (next+1) hi1 hr
        exact ⟨hi2, he1.trans he2⟩
      | cons p rest =>
        simp only [Proc.iterNext.upToFetch, h1, Except.ok.injEq, Prod.mk.injEq] at hr
        obtain ⟨rfl, _⟩ := hr
        exact ⟨hi1, he1⟩

/-- `next(it)` on any iterator state keeps every object's invariant -/
theorem iterNext_inv {s : Proc} (h : ProcInv s) (it : IterSt) {s' : Proc} {it' : IterSt} {r : Option NSeq}
    (hr : s.iterNext it = .ok (s', it', r)) : ProcInv s' ∧ ProcExt s s' := by
  unfold Proc.iterNext at hr
  split at hr
  all_goals try (simp only [Except.ok.injEq, Prod.mk.injEq] at hr; obtain ⟨rfl, _⟩ := hr;
                 exact ⟨h, ProcExt.refl _ h⟩)
  · exact upToFetch_inv _ _ _ _ _ h hr
  · rename_i obj r' nextLen
    cases ho : s.objs[obj]? with
    | none => simp [levelById_none ho] at hr
    | some o =>
      obtain ⟨s1, ks, h1, hi1, he1, _⟩ := levelById_spec h ho nextLen
      cases ks with
      | nil =>
        simp only [h1, Except.ok.injEq, Prod.mk.injEq] at hr
        obtain ⟨rfl, _⟩ := hr
        exact ⟨hi1, he1⟩
      | cons p rest =>
        simp only [h1, Except.ok.injEq, Prod.mk.injEq] at hr
        obtain ⟨rfl, _⟩ := hr
        exact ⟨hi1, he1⟩

/-- taking any number of items from any iterator keeps every object's invariant -/
theorem iterTake_inv : ∀ (k : Nat) {s : Proc}, ProcInv s → ∀ (it : IterSt) {s' : Proc} {it' : IterSt}
    {items : List NSeq}, s.iterTake it k = .ok (s', it', items) → ProcInv s' ∧ ProcExt s s'
  | 0, s, h, it, s', it', items, hr => by
    simp only [Proc.iterTake, Except.ok.injEq, Prod.mk.injEq] at hr
    obtain ⟨rfl, _⟩ := hr
    exact ⟨h, ProcExt.refl _ h⟩
  | k+1, s, h, it, s', it', items, hr => by
    simp only [Proc.iterTake] at hr
    cases h1 : s.iterNext it with
    | error e => simp [h1] at hr
    | ok v =>
      obtain ⟨s1, it1, r⟩ := v
      obtain ⟨hi1, he1⟩ := iterNext_inv h it h1
      cases r with
      | none =>
        simp only [h1, Except.ok.injEq, Prod.mk.injEq] at hr
        obtain ⟨rfl, _⟩ := hr
        exact ⟨hi1, he1⟩
      | some p =>
        simp only [h1] at hr
        cases h2 : s1.iterTake it1 k with
        | error e => simp [h2] at hr
        | ok v2 =>
          obtain ⟨s2, it2, ps⟩ := v2
          obtain ⟨hi2, he2⟩ := iterTake_inv k hi1 it1 h2
          simp only [h2, Except.ok.injEq, Prod.mk.injEq] at hr
          obtain ⟨rfl, _⟩ := hr
          exact ⟨hi2, he1.trans he2⟩

/-! ### creating classes, clearing the class cache -/

theorem obj?_bind (s : Proc) (name : String) (id : Nat) {o : AvObj} (ho : s.objs[id]? = some o) :
    (s.bind name id).obj? name = some (id, o) := by
  simp [Proc.obj?, Proc.bind, ho]

/-- `Av.clear_cache()`: objects are untouched -/
theorem clearCache_inv {s : Proc} (h : ProcInv s) : ProcInv { s with classCache := [] } :=
  ⟨h.objs, by simp⟩

/-- the guard of `Av.__new__`: empty basis, or the basis `{ε}` -/
def forbiddenB : BasisV → Bool
  | .classical l => l.isEmpty || l == [[]]
  | .mesh l => l.isEmpty

theorem newClass_eq (s : Proc) (name : String) (b : BasisV) :
    s.newClass name b =
      if forbiddenB b then .error .valueError
      else match s.classCache.find? (·.1 == b) with
        | some (_, id) => .ok (s.bind name id)
        | none => .ok ({ s with classCache := (b, s.objs.length) :: s.classCache,
                                objs := s.objs ++ [freshObj b] }.bind name s.objs.length) := by
  cases b <;> rfl

/-- `Av(basis)`: either `ValueError`, or the name is bound to an object with that basis satisfying
    its invariant - the cached one if the class cache has the basis, else a fresh one; existing
    objects are untouched -/
theorem newClass_spec {s : Proc} (h : ProcInv s) (name : String) {b : BasisV} (hb : ValidBasisV b) :
    s.newClass name b = .error .valueError ∨
    ∃ s', s.newClass name b = .ok s' ∧ ProcInv s' ∧
      (∃ id o, s'.obj? name = some (id, o) ∧ o.basis = b ∧
        (∀ e, s.classCache.find? (·.1 == b) = some e → id = e.2)) ∧
      (∀ (id : Nat) (o : AvObj), s.objs[id]? = some o → s'.objs[id]? = some o) := by
  rw [newClass_eq]
  rcases Bool.eq_false_or_eq_true (forbiddenB b) with hflag | hflag
  · left; simp only [hflag, if_true]
  · right
    simp only [hflag, Bool.false_eq_true, if_false]
    cases hf : s.classCache.find? (·.1 == b) with
    | some e =>
      obtain ⟨b', id⟩ := e
      have hmem := List.mem_of_find?_eq_some hf
      have hb' : b' = b := by simpa using List.find?_some hf
      subst hb'
      obtain ⟨o, ho, hob⟩ := h.cc _ hmem
      refine ⟨s.bind name id, rfl, ⟨h.objs, h.cc⟩, ⟨id, o, obj?_bind s name id ho, hob, ?_⟩,
        fun _ _ h' => h'⟩
      intro e he; simp at he; rw [← he]
    | none =>
      have hnew : (s.objs ++ [freshObj b])[s.objs.length]? = some (freshObj b) := by simp
      refine ⟨_, rfl, ⟨?_, ?_⟩, ⟨s.objs.length, freshObj b, ?_, freshObj_basis b, by simp⟩, ?_⟩
      · intro o ho
        simp only [Proc.bind, List.mem_append, List.mem_singleton] at ho
        rcases ho with ho | rfl
        · exact h.objs o ho
        · exact ObjInv.fresh hb
      · intro e he
        simp only [Proc.bind, List.mem_cons] at he ⊢
        rcases he with rfl | he
        · exact ⟨freshObj b, hnew, freshObj_basis b⟩
        · obtain ⟨o, ho, hob⟩ := h.cc e he
          have hlt := (List.getElem?_eq_some_iff.mp ho).1
          exact ⟨o, by rw [List.getElem?_append_left hlt]; exact ho, hob⟩
      · exact obj?_bind _ name _ hnew
      · intro id o ho
        have hlt := (List.getElem?_eq_some_iff.mp ho).1
        simp only [Proc.bind]
        rw [List.getElem?_append_left hlt]; exact ho

end C02L
