import PermutaModel.Lemmas.C16PinGeo
import PermutaModel.Lemmas.C14SoundPts
import PermutaModel.Spec.C10
/-!
# C16 (pin half) — from point configurations to permutations, from strict pin words to pin sequences
-/
namespace C16P
open Model.C14 Model.C14.Letter Spec.C14 Proto C14L C14S

/-! ### a configuration without proper interval has a simple permutation -/

theorem inj_of_ys_nodup {P : List Pt} (h : (ys P).Nodup) {a b : Pt} (ha : a ∈ P) (hb : b ∈ P)
    (hab : a.2 = b.2) : a = b :=
  List.inj_on_of_nodup_map h ha hb hab

theorem oe_refl (S : List Pt) : OE S S := by
  refine ⟨rfl, ?_⟩
  have key : ∀ x ∈ S.zip S, x.1 = x.2 := by
    intro x hx
    induction S with
    | nil => simp at hx
    | cons a S ih =>
      simp only [List.zip_cons_cons, List.mem_cons] at hx
      rcases hx with rfl | hx
      · rfl
      · exact ih hx
  intro x hx y hy
  rw [← key x hx, ← key y hy]
  exact ⟨Iff.rfl, Iff.rfl⟩

/-- a sub-configuration gives a pattern -/
theorem contains_sub {P P' : List Pt} (hs : P'.Sublist P) (hPx : (xs P).Nodup) :
    Contains (permOfPts P) (permOfPts P') :=
  contains_of_oe (fun _ h => hs.subset h) hPx ((hs.map Prod.fst).nodup hPx) ((hs.map Prod.fst).nodup hPx)
    (oe_refl P')

theorem simple_permOfPts {P : List Pt} (hx : (xs P).Nodup) (hy : (ys P).Nodup) (hS : Simple P) :
    Spec.C10.IsSimple (permOfPts P) := by
  intro i l hl2 hln hiv
  obtain ⟨hil, m, hm⟩ := hiv
  rw [permOfPts_length] at hln hil
  have hsl : (sortedPins P).length = P.length := (sortedPins_perm P).length_eq
  have hsx := sortedPins_xs_sorted hx
  have hsy : (ys (sortedPins P)).Nodup := sortedPins_ys_nodup hy
  -- the window of points
  have hsplit : sortedPins P = (sortedPins P).take i ++ (((sortedPins P).drop i).take l ++ ((sortedPins P).drop i).drop l) := by
    rw [List.take_append_drop, List.take_append_drop]
  generalize hA : (sortedPins P).take i = A at hsplit
  generalize hW : ((sortedPins P).drop i).take l = W at hsplit
  generalize hC : ((sortedPins P).drop i).drop l = C at hsplit
  have hWl : W.length = l := by rw [← hW]; simp; omega
  have hwin : Spec.C10.window (permOfPts P) i l = (ys W).map (rank (ys (sortedPins P))) := by
    rw [permOfPts_eq, Spec.C10.window, ← hW]
    simp [List.map_drop, List.map_take]
  have hmemS : ∀ c, c ∈ sortedPins P ↔ c ∈ P := fun c => (sortedPins_perm P).mem_iff
  have hsx' := hsx
  rw [hsplit] at hsx'
  simp only [xs, List.map_append, List.pairwise_append, List.mem_map, List.mem_append] at hsx'
  -- values of the window
  have hval : ∀ s ∈ W, m ≤ rank (ys (sortedPins P)) s.2 ∧ rank (ys (sortedPins P)) s.2 < m + l := by
    intro s hs
    apply (hm _).mp
    rw [hwin]
    exact List.mem_map.mpr ⟨s.2, List.mem_map.mpr ⟨s, hs, rfl⟩, rfl⟩
  have hWsub : ∀ s ∈ W, s ∈ sortedPins P := by
    intro s hs; rw [hsplit]; simp [hs]
  have hyin : ∀ c ∈ sortedPins P, c.2 ∈ ys (sortedPins P) := fun c hc => List.mem_map.mpr ⟨c, hc, rfl⟩
  have hout : ∀ c ∈ sortedPins P, c ∉ W →
      ¬ (m ≤ rank (ys (sortedPins P)) c.2 ∧ rank (ys (sortedPins P)) c.2 < m + l) := by
    intro c hc hcW hr
    have := (hm _).mpr hr
    rw [hwin] at this
    obtain ⟨y, hy', hry⟩ := List.mem_map.mp this
    obtain ⟨s, hs, rfl⟩ := List.mem_map.mp hy'
    have hs' := hWsub s hs
    have : s.2 = c.2 := by
      by_cases h1 : s.2 < c.2
      · have := rank_lt_of_lt (hyin s hs') h1; omega
      · by_cases h2 : c.2 < s.2
        · have := rank_lt_of_lt (hyin c hc) h2; omega
        · grind
    have := inj_of_ys_nodup hy ((hmemS s).mp hs') ((hmemS c).mp hc) this
    exact hcW (this ▸ hs)
  apply hS (fun c => c ∈ W)
  · -- interval
    intro c hc hcW
    have hc' := (hmemS c).mpr hc
    constructor
    · -- abscissae
      have hc'' := hc'
      rw [hsplit] at hc''
      simp only [List.mem_append] at hc''
      rcases hc'' with h | h | h
      · left
        intro s _ hs
        simp only [co, if_true]
        exact hsx'.2.2 c.1 ⟨c, h, rfl⟩ s.1 (Or.inl ⟨s, hs, rfl⟩)
      · exact absurd h hcW
      · right
        intro s _ hs
        simp only [co, if_true]
        exact hsx'.2.1.2.2 s.1 ⟨s, hs, rfl⟩ c.1 ⟨c, h, rfl⟩
    · -- ordinates
      have hno := hout c hc' hcW
      by_cases hlow : rank (ys (sortedPins P)) c.2 < m
      · left
        intro s _ hs
        simp only [co, Bool.false_eq_true, if_false]
        have := (hval s hs).1
        exact (rank_lt_iff (hyin c hc') (hyin s (hWsub s hs))).mp (by omega)
      · right
        intro s _ hs
        simp only [co, Bool.false_eq_true, if_false]
        have := (hval s hs).2
        exact (rank_lt_iff (hyin s (hWsub s hs)) (hyin c hc')).mp (by omega)
  · -- proper
    constructor
    · match W, hWl with
      | a :: b :: W', _ =>
        refine ⟨a, (hmemS a).mp (hWsub a (by simp)), b, (hmemS b).mp (hWsub b (by simp)), ?_, by simp, by simp⟩
        intro hab
        have := hsx'.2.1.1
        simp only [List.map_cons, List.pairwise_cons, List.mem_cons, List.mem_map] at this
        have := this.1 b.1 (Or.inl rfl)
        rw [hab] at this
        exact absurd this (by grind)
      | [], h => simp at h; omega
      | [_], h => simp at h; omega
    · -- a point outside the window
      have hAC : A ≠ [] ∨ C ≠ [] := by
        have h1 := congrArg List.length hsplit
        simp only [List.length_append] at h1
        by_cases hA0 : A = []
        · right; intro hC0; subst hA0 hC0; simp at h1; omega
        · exact Or.inl hA0
      rcases hAC with h | h
      · obtain ⟨c, hc⟩ := List.exists_mem_of_ne_nil _ h
        refine ⟨c, (hmemS c).mp (by rw [hsplit]; simp [hc]), fun hcW => ?_⟩
        have := hsx'.2.2 c.1 ⟨c, hc, rfl⟩ c.1 (Or.inl ⟨c, hcW, rfl⟩)
        exact absurd this (by grind)
      · obtain ⟨c, hc⟩ := List.exists_mem_of_ne_nil _ h
        refine ⟨c, (hmemS c).mp (by rw [hsplit]; simp [hc]), fun hcW => ?_⟩
        have := hsx'.2.1.2.2 c.1 ⟨c, hcW, rfl⟩ c.1 ⟨c, hc, rfl⟩
        exact absurd this (by grind)

/-! ### a strict pin word places a proper pin sequence -/

theorem dir_axes {a c : Letter} (ha : a.isDir = true) (hc : c.isDir = true) (h : sameAxis a c = false) :
    a.isVert = !c.isVert := by
  cases a <;> cases c <;> simp_all [isDir, isVert, isHoriz, sameAxis]

/-- the geometric reading of a direction letter is a proper pin w.r.t. the real points -/
theorem sepA_of_geo {c : Letter} (hc : c.isDir = true) {p last : Pt} {init' : List Pt} {o : Pt}
    (h : Geo c p (last :: (init' ++ [o]))) : SepA c.isVert p last init' := by
  have hq : c.isQuad = false := by cases c <;> simp_all [isDir, isQuad]
  simp only [Geo, hq, Bool.false_eq_true, if_false, SepPin] at h
  by_cases hv : c.isVert = true
  · simp only [hv, if_true] at h
    obtain ⟨h1, h2⟩ := h
    rw [hv]
    refine ⟨?_, ?_⟩
    · simp only [Btw, co, if_true]
      rcases h2 with ⟨b1, b2⟩ | ⟨b1, b2⟩
      · exact Or.inl ⟨fun r hr => b1 r.1 (List.mem_map.mpr ⟨r, by simp [hr], rfl⟩), b2⟩
      · exact Or.inr ⟨fun r hr => b1 r.1 (List.mem_map.mpr ⟨r, by simp [hr], rfl⟩), b2⟩
    · simp only [Extr, co, Bool.not_true, Bool.false_eq_true, if_false]
      have key : ∀ r ∈ last :: init', r.2 ∈ ys (last :: (init' ++ [o])) := by
        intro r hr
        refine List.mem_map.mpr ⟨r, ?_, rfl⟩
        rcases List.mem_cons.mp hr with rfl | hr
        · simp
        · simp [hr]
      cases hu : namesUp c
      · right; intro r hr; have := h1 r.2 (key r hr); simpa [hu] using this
      · left; intro r hr; have := h1 r.2 (key r hr); simpa [hu] using this
  · have hv' : c.isVert = false := by simpa using hv
    simp only [hv', Bool.false_eq_true, if_false] at h
    obtain ⟨h1, h2⟩ := h
    rw [hv']
    refine ⟨?_, ?_⟩
    · simp only [Btw, co, Bool.false_eq_true, if_false]
      rcases h2 with ⟨b1, b2⟩ | ⟨b1, b2⟩
      · exact Or.inl ⟨fun r hr => b1 r.2 (List.mem_map.mpr ⟨r, by simp [hr], rfl⟩), b2⟩
      · exact Or.inr ⟨fun r hr => b1 r.2 (List.mem_map.mpr ⟨r, by simp [hr], rfl⟩), b2⟩
    · simp only [Extr, co, Bool.not_false, if_true]
      have key : ∀ r ∈ last :: init', r.1 ∈ xs (last :: (init' ++ [o])) := by
        intro r hr
        refine List.mem_map.mpr ⟨r, ?_, rfl⟩
        rcases List.mem_cons.mp hr with rfl | hr
        · simp
        · simp [hr]
      cases hu : namesRight c
      · right; intro r hr; have := h1 r.1 (key r hr); simpa [hu] using this
      · left; intro r hr; have := h1 r.1 (key r hr); simpa [hu] using this

theorem pinSeq_of_run (ds : Word) : ∀ (prev : Letter) (A : List Pt) (o : Pt) (t : List Pt),
    chainOK prev ds = true → (∀ d ∈ ds, d.isDir = true) → GeoRun (A ++ [o]) ds t →
    PinSeqA prev.isVert A → (prev.isDir = true ∨ A.length ≤ 1) → A ≠ [] →
    ∃ A' v, t = A' ++ [o] ∧ A'.length = A.length + ds.length ∧ PinSeqA v A' := by
  induction ds with
  | nil =>
    intro prev A o t _ _ hG hP _ _
    simp only [GeoRun] at hG
    exact ⟨A, _, hG, by simp, hP⟩
  | cons c ds ih =>
    intro prev A o t hch hdir hG hP hprev hne
    simp only [chainOK, Bool.and_eq_true] at hch
    obtain ⟨p, hp, hG'⟩ := hG
    have hc : c.isDir = true := hdir c (by simp)
    have hq : c.isQuad = false := by cases c <;> simp_all [isDir, isQuad]
    have hsame : sameAxis prev c = false := by
      have := hch.1; simp only [hq, hc, Bool.false_or, Bool.true_and, Bool.not_eq_true'] at this; exact this
    match A, hne with
    | last :: init', _ =>
      have hP' : PinSeqA c.isVert (p :: last :: init') := by
        cases init' with
        | nil => exact pinSeqA_short _ _ (by simp)
        | cons r rest =>
          rw [pinSeqA_cons (by simp)]
          refine ⟨sepA_of_geo hc hp, ?_⟩
          rcases hprev with h | h
          · rw [← dir_axes h hc hsame]; exact hP
          · simp at h
      obtain ⟨A', v, h1, h2, h3⟩ := ih c (p :: last :: init') o t hch.2
        (fun d hd => hdir d (List.mem_cons_of_mem _ hd)) hG' hP' (Or.inl hc) (by simp)
      exact ⟨A', v, h1, by simp at h2 ⊢; omega, h3⟩

/-- **the points of a strict pin word form a proper pin sequence**; their permutation contains a
    simple permutation that is at most one point shorter -/
theorem strict_large_simple (w : Word) (σ : NSeq) (hs : isStrict w = true) (hσ : pinwordToPerm w = .ok σ)
    (hlen : 7 ≤ σ.length) :
    ∃ τ, IsPerm τ ∧ Spec.C10.IsSimple τ ∧ σ.length ≤ τ.length + 1 ∧ Contains σ τ := by
  have hw : inLang w = true := by
    by_cases h : inLang w = true
    · exact h
    · exfalso
      obtain ⟨u, c, post, rfl, h1, h2⟩ := lang_split w (by simpa using h)
      have := build_reject u c post h1 h2
      simp [pinwordToPerm, this] at hσ
  obtain ⟨pts, h1, hI, hG, hl⟩ := build_lang w hw
  have hσ' : σ = permOfPts pts.dropLast := by
    simp only [pinwordToPerm, h1] at hσ; exact (Except.ok.inj hσ).symm
  match w, hs, hw, hG, hl with
  | [], _, _, _, hl =>
    exfalso
    rw [hσ', permOfPts_length, List.length_dropLast, hl] at hlen
    simp at hlen
  | q :: ds, hs, hw, hG, hl =>
    simp only [isStrict, Bool.and_eq_true, List.all_eq_true] at hs
    simp only [inLang, Bool.and_eq_true] at hw
    obtain ⟨p1, _, hG'⟩ := hG
    obtain ⟨A', v, ht, hA'l, hPA⟩ := pinSeq_of_run ds q [p1] origin pts hw.2 hs.2 hG'
      (pinSeqA_short _ _ (by simp)) (Or.inr (by simp)) (by simp)
    have hdl : pts.dropLast = A' := by rw [ht]; simp
    rw [hdl] at hσ'
    have hxA : (xs A').Nodup := by
      have := hI.xnd; rw [ht] at this
      exact ((List.sublist_append_left A' [origin]).map Prod.fst).nodup this
    have hyA : (ys A').Nodup := by
      have := hI.ynd; rw [ht] at this
      exact ((List.sublist_append_left A' [origin]).map Prod.snd).nodup this
    have hNA : A'.Nodup := by
      have : (xs A').Nodup := hxA
      exact List.Nodup.of_map _ this
    have hlenA : 7 ≤ A'.length := by rw [hσ', permOfPts_length] at hlen; exact hlen
    obtain ⟨L', hsub, hL'l, hL's⟩ := pinSeq_simple_sub A' v hPA hNA hlenA
    have hxL : (xs L').Nodup := (hsub.map Prod.fst).nodup hxA
    have hyL : (ys L').Nodup := (hsub.map Prod.snd).nodup hyA
    refine ⟨permOfPts L', permOfPts_isPerm hyL, simple_permOfPts hxL hyL hL's, ?_, ?_⟩
    · rw [hσ', permOfPts_length, permOfPts_length]; exact hL'l
    · rw [hσ']; exact contains_sub hsub hxA

/-! ### prefixes of a strict pin word -/

theorem isStrict_take (w : Word) (hs : isStrict w = true) (k : Nat) : isStrict (w.take k) = true := by
  cases w with
  | nil => simp [isStrict]
  | cons q ds =>
    cases k with
    | zero => simp [isStrict]
    | succ k =>
      simp only [isStrict, Bool.and_eq_true, List.all_eq_true, List.take_succ_cons] at hs ⊢
      exact ⟨hs.1, fun d hd => hs.2 d (List.mem_of_mem_take hd)⟩

/-- the permutation of a prefix of a pin word is a pattern of the permutation of the word -/
theorem prefix_contains (w : Word) (σ : NSeq) (hσ : pinwordToPerm w = .ok σ) (k : Nat) (hk : k ≤ w.length) :
    ∃ σ', pinwordToPerm (w.take k) = .ok σ' ∧ σ'.length = k ∧ Contains σ σ' := by
  have hw : inLang w = true := by
    by_cases h : inLang w = true
    · exact h
    · exfalso
      obtain ⟨u, c, post, rfl, h1, h2⟩ := lang_split w (by simpa using h)
      have := build_reject u c post h1 h2
      simp [pinwordToPerm, this] at hσ
  have hsplit : w = w.take k ++ w.drop k := (List.take_append_drop _ _).symm
  have hpre : inLang (w.take k) = true := inLang_prefix _ (w.drop k) (hsplit ▸ hw)
  obtain ⟨pts, h1, hI, _, hl⟩ := build_lang w hw
  obtain ⟨ptsk, k1, _, _, kl⟩ := build_lang (w.take k) hpre
  have happ : pinPoints w = match pinPoints (w.take k) with
      | .error e => .error e
      | .ok pts' => buildPts pts' (w.drop k) := by
    unfold pinPoints
    have := buildPts_append (w.take k) (w.drop k) [origin]
    rwa [← hsplit] at this
  rw [h1, k1] at happ
  obtain ⟨newer, hn, _⟩ := buildPts_suffix _ _ _ happ.symm
  have hne : ptsk ≠ [] := by intro h; rw [h] at kl; simp at kl
  have hdl : pts.dropLast = newer ++ ptsk.dropLast := by rw [hn, List.dropLast_append_of_ne_nil hne]
  have hσ' : σ = permOfPts pts.dropLast := by
    simp only [pinwordToPerm, h1] at hσ; exact (Except.ok.inj hσ).symm
  refine ⟨permOfPts ptsk.dropLast, by simp [pinwordToPerm, k1], ?_, ?_⟩
  · rw [permOfPts_length, List.length_dropLast, kl, List.length_take]; omega
  · rw [hσ', hdl]
    apply contains_sub (List.sublist_append_right _ _)
    have := hI.xnd
    have hs : (xs (newer ++ ptsk.dropLast)).Sublist (xs pts) := by
      rw [← hdl]; exact (List.dropLast_sublist pts).map _
    exact hs.nodup this

end C16P
