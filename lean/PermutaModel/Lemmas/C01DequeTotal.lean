import PermutaModel.Lemmas.C01DequeRot
import Mathlib.Data.List.TakeWhile
/-! C01 deque: termination of the three `while` loops of `left_floor_and_ceiling` on every input
    (`smallest`/`biggest` are values present in the deque; discrete intermediate-value argument for
    the third loop). -/
open Model

theorem front_cons (x : Nat × Nat) (t : Dq) : front (x :: t) = x := by simp [front]
theorem back_concat (t : Dq) (x : Nat × Nat) : back (t ++ [x]) = x := by simp [back]
theorem back_append_cons (a : Dq) (x : Nat × Nat) (t : Dq) : back (a ++ x :: t) = back (x :: t) := by
  simp only [back, List.getLast?_append]
  cases h : (x :: t).getLast? with
  | none => simp at h
  | some y => simp
theorem back_mem (x : Nat × Nat) (t : Dq) : back (x :: t) ∈ x :: t := by
  unfold back
  cases h : (x :: t).getLast? with
  | none => simp at h
  | some y => simpa using List.mem_of_getLast? h

theorem exists_front {d : Dq} {x : Nat × Nat} (hx : x ∈ d) : ∃ e, e ~r d ∧ front e = x := by
  obtain ⟨a, b, rfl⟩ := List.append_of_mem hx
  exact ⟨x :: b ++ a, List.isRotated_append, by simp [front]⟩

theorem exists_back {d : Dq} {x : Nat × Nat} (hx : x ∈ d) : ∃ e, e ~r d ∧ back e = x := by
  obtain ⟨a, b, rfl⟩ := List.append_of_mem hx
  refine ⟨b ++ (a ++ [x]), ?_, ?_⟩
  · have : a ++ x :: b = (a ++ [x]) ++ b := by simp
    rw [this]; exact List.isRotated_append
  · rw [← List.append_assoc, back_concat]

theorem dq_exists_between {d : Dq} {val : Nat} (hlo : ∃ x ∈ d, x.1 ≤ val) (hhi : ∃ y ∈ d, val ≤ y.1) :
    ∃ e, e ~r d ∧ (back e).1 ≤ val ∧ val ≤ (front e).1 := by
  by_cases hall : ∀ w ∈ d, w.1 ≤ val
  · obtain ⟨y, hy, hvy⟩ := hhi
    obtain ⟨e, he, hf⟩ := exists_front hy
    refine ⟨e, he, ?_, by rw [hf]; exact hvy⟩
    cases e with
    | nil => exact absurd (he.perm.mem_iff.mpr hy) (by simp)
    | cons z t => exact hall _ (he.perm.mem_iff.mp (back_mem z t))
  · obtain ⟨x, hx, hxv⟩ := hlo
    obtain ⟨a, b, rfl⟩ := List.append_of_mem hx
    -- rotate `x` to the front
    let t := b ++ a
    have ht : (x :: t) ~r (a ++ x :: b) := by
      show (x :: b) ++ a ~r a ++ x :: b
      exact List.isRotated_append
    have hex : ∃ w ∈ t, ¬ w.1 ≤ val := by
      simp only [not_forall] at hall
      obtain ⟨w, hw, hwv⟩ := hall
      have : w ∈ x :: t := ht.perm.mem_iff.mpr hw
      rcases List.mem_cons.mp this with h | h
      · subst h; exact absurd hxv hwv
      · exact ⟨w, h, hwv⟩
    let p : Nat × Nat → Bool := fun w => decide (w.1 ≤ val)
    have hsplit : t = t.takeWhile p ++ t.dropWhile p := (List.takeWhile_append_dropWhile).symm
    cases hdw : t.dropWhile p with
    | nil =>
      obtain ⟨w, hw, hwv⟩ := hex
      have := List.dropWhile_eq_nil_iff.mp hdw w hw
      simp [p] at this; exact absurd this hwv
    | cons w t' =>
      have hw : ¬ p w = true := by
        have := List.head_dropWhile_not p (l := t) (by rw [hdw]; simp)
        simpa [hdw] using this
      refine ⟨(w :: t') ++ (x :: t.takeWhile p), ?_, ?_, ?_⟩
      · refine List.IsRotated.trans ?_ ht
        have : x :: t = (x :: t.takeWhile p) ++ (w :: t') := by
          rw [← hdw, List.cons_append, ← hsplit]
        rw [this]; exact List.isRotated_append
      · rw [back_append_cons]
        have := back_mem x (t.takeWhile p)
        rcases List.mem_cons.mp this with h | h
        · rw [h]; exact hxv
        · have := List.mem_takeWhile_imp h
          simpa [p] using this
      · simp [front]
        simp [p] at hw; omega

theorem rotWhileL_isSome {c : Dq → Bool} {d : Dq} (h : ∃ e, e ~r d ∧ c e = false) :
    ∃ d', rotWhile c rotL d.length d = some d' ∧ d' ~r d ∧ c d' = false := by
  obtain ⟨e, he, hc⟩ := h
  obtain ⟨k, hk, hke⟩ := isRotated_iterL he.symm
  have := rotWhile_isSome (c := c) (r := rotL) d.length d ⟨k, hk, by rw [hke]; exact hc⟩
  obtain ⟨d', hd'⟩ := Option.isSome_iff_exists.mp this
  exact ⟨d', hd', rotWhile_some rotL_isRotated _ _ _ hd'⟩

theorem rotWhileR_isSome {c : Dq → Bool} {d : Dq} (h : ∃ e, e ~r d ∧ c e = false) :
    ∃ d', rotWhile c rotR d.length d = some d' ∧ d' ~r d ∧ c d' = false := by
  obtain ⟨e, he, hc⟩ := h
  obtain ⟨k, hk, hke⟩ := isRotated_iterR he.symm
  have := rotWhile_isSome (c := c) (r := rotR) d.length d ⟨k, hk, by rw [hke]; exact hc⟩
  obtain ⟨d', hd'⟩ := Option.isSome_iff_exists.mp this
  exact ⟨d', hd', rotWhile_some rotR_isRotated _ _ _ hd'⟩

/-- what every loop needs: `smallest` and `biggest` are values present in the deque -/
def DqG (st : DqState) : Prop :=
  (∃ x ∈ st.deq, (x.1 : Int) = st.smallest) ∧ (∃ x ∈ st.deq, (x.1 : Int) = st.biggest)

theorem loop1_exit (st : DqState) (hG : DqG st) :
    ∃ d', rotWhile (condSmallest st.smallest) rotL st.deq.length st.deq = some d' ∧ d' ~r st.deq ∧
      ((front d').1 : Int) = st.smallest := by
  obtain ⟨x, hx, hxs⟩ := hG.1
  obtain ⟨e, he, hf⟩ := exists_front hx
  obtain ⟨d', h1, h2, h3⟩ := rotWhileL_isSome (c := condSmallest st.smallest) ⟨e, he, by simp [condSmallest, hf, hxs]⟩
  exact ⟨d', h1, h2, by simpa [condSmallest] using h3⟩

theorem loop2_exit (st : DqState) (hG : DqG st) :
    ∃ d', rotWhile (condBiggest st.biggest) rotL st.deq.length st.deq = some d' ∧ d' ~r st.deq ∧
      ((back d').1 : Int) = st.biggest := by
  obtain ⟨x, hx, hxs⟩ := hG.2
  obtain ⟨e, he, hf⟩ := exists_back hx
  obtain ⟨d', h1, h2, h3⟩ := rotWhileL_isSome (c := condBiggest st.biggest) ⟨e, he, by simp [condBiggest, hf, hxs]⟩
  exact ⟨d', h1, h2, by simpa [condBiggest] using h3⟩

theorem loop3_exit (st : DqState) (hG : DqG st) (val : Nat) (h1 : ¬ (val : Int) < st.smallest)
    (h2 : ¬ (val : Int) > st.biggest) :
    ∃ d', rotWhile (condBetween val) rotR st.deq.length st.deq = some d' ∧ d' ~r st.deq ∧
      (back d').1 ≤ val ∧ val ≤ (front d').1 := by
  obtain ⟨x, hx, hxs⟩ := hG.1
  obtain ⟨y, hy, hys⟩ := hG.2
  obtain ⟨e, he, hb, hf⟩ := dq_exists_between (d := st.deq) (val := val) ⟨x, hx, by omega⟩ ⟨y, hy, by omega⟩
  obtain ⟨d', h1, h2, h3⟩ := rotWhileR_isSome (c := condBetween val) ⟨e, he, by simp [condBetween, hb, hf]⟩
  refine ⟨d', h1, h2, ?_⟩
  simpa [condBetween] using h3

theorem lfcStep_total (st : DqState) (idx val : Nat) (h : idx = 0 ∨ DqG st) :
    ∃ st' y, lfcStep st idx val = some (st', y) ∧ DqG st' := by
  unfold lfcStep
  by_cases h0 : idx = 0
  · simp only [h0, if_true]
    exact ⟨_, _, rfl, ⟨(val, 0), by simp, rfl⟩, ⟨(val, 0), by simp, rfl⟩⟩
  · have hG : DqG st := h.resolve_left h0
    simp only [h0, if_false]
    by_cases h1 : (val : Int) < st.smallest
    · simp only [h1, if_true]
      obtain ⟨d', hd', hrot, _⟩ := loop1_exit st hG
      rw [hd']
      refine ⟨_, _, rfl, ⟨(val, idx), by simp, rfl⟩, ?_⟩
      obtain ⟨y, hy, hys⟩ := hG.2
      exact ⟨y, List.mem_cons_of_mem _ (hrot.perm.mem_iff.mpr hy), hys⟩
    · simp only [h1, if_false]
      by_cases h2 : (val : Int) > st.biggest
      · simp only [h2, if_true]
        obtain ⟨d', hd', hrot, _⟩ := loop2_exit st hG
        rw [hd']
        refine ⟨_, _, rfl, ?_, ⟨(val, idx), by simp, rfl⟩⟩
        obtain ⟨y, hy, hys⟩ := hG.1
        exact ⟨y, List.mem_append_left _ (hrot.perm.mem_iff.mpr hy), hys⟩
      · simp only [h2, if_false]
        obtain ⟨d', hd', hrot, _⟩ := loop3_exit st hG val h1 h2
        rw [hd']
        obtain ⟨x, hx, hxs⟩ := hG.1
        obtain ⟨y, hy, hys⟩ := hG.2
        exact ⟨_, _, rfl, ⟨x, List.mem_cons_of_mem _ (hrot.perm.mem_iff.mpr hx), hxs⟩,
          ⟨y, List.mem_cons_of_mem _ (hrot.perm.mem_iff.mpr hy), hys⟩⟩

theorem lfcLoop_total : ∀ (rest : List Nat) (st : DqState) (idx : Nat), (idx = 0 ∨ DqG st) →
    (lfcLoop st idx rest).isSome
  | [], _, _, _ => by simp [lfcLoop]
  | v :: vs, st, idx, h => by
    obtain ⟨st', y, hs, hG⟩ := lfcStep_total st idx v h
    have := lfcLoop_total vs st' (idx+1) (Or.inr hG)
    simp only [lfcLoop, hs]
    simpa using this

/-- every `while` loop of `left_floor_and_ceiling` terminates, on every input sequence -/
theorem lfcDeque_total (π : NSeq) : (lfcDeque π).isSome :=
  lfcLoop_total π _ 0 (Or.inl rfl)
