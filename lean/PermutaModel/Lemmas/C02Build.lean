import PermutaModel.Lemmas.C02Valid

/-! C02 helpers, part 6: the cache invariant and one round of the level builder (`buildOne`). -/
open List Model Model.C02

namespace C02L
open C10L

/-- what is known of a list that is still being filled (values of the last level): entries are in
    range and - unless the next level is empty (the level-0 quirk `{(): [0]}` with `Perm((0,))` in the
    basis) - valid end-insertions -/
def LastOK (b : List NSeq) (ρ : NSeq) (l : List Nat) : Prop :=
  (∀ v ∈ l, v ≤ ρ.length) ∧ (Spec.C02.level b (ρ.length + 1) ≠ [] → ∀ v ∈ l, ValidIns b ρ v)

/-- a finished list (values of the level before the last): additionally every valid end-insertion
    is listed -/
def SpotsOK (b : List NSeq) (ρ : NSeq) (l : List Nat) : Prop :=
  LastOK b ρ l ∧ ∀ v, ValidIns b ρ v → v ∈ l

/-- **cache invariant** of an `Av` object with classical basis `b` -/
structure CacheInv (b : List NSeq) (c : List Level) : Prop where
  pos : 0 < c.length
  keys : ∀ i, i < c.length → ((c.getD i []).keys).Perm (Spec.C02.level b i)
  last : ∀ e ∈ c.getD (c.length - 1) [], ∃ l, e.2 = some l ∧ LastOK b e.1 l
  prev : 2 ≤ c.length → ∀ e ∈ c.getD (c.length - 2) [], ∃ l, e.2 = some l ∧ SpotsOK b e.1 l

theorem CacheInv.keys_nodup {b : List NSeq} {c : List Level} (h : CacheInv b c) {i : Nat}
    (hi : i < c.length) : ((c.getD i []).keys).Nodup :=
  (h.keys i hi).nodup_iff.mpr (level_nodup b i)

theorem CacheInv.mem_keys {b : List NSeq} {c : List Level} (h : CacheInv b c) {i : Nat}
    (hi : i < c.length) {σ : NSeq} : σ ∈ (c.getD i []).keys ↔ InAv b σ ∧ σ.length = i := by
  rw [(h.keys i hi).mem_iff, mem_level]

theorem CacheInv.fresh {b : List NSeq} (hb : ValidBasis b) : CacheInv b (freshObj (.classical b)).cache := by
  refine ⟨by simp [freshObj], ?_, ?_, ?_⟩
  · intro i hi
    have : i = 0 := by simp [freshObj] at hi; omega
    subst this
    simp [freshObj, Level.keys, level_zero hb]
  · intro e he
    have : e = ([], some [0]) := by simpa [freshObj] using he
    subst this
    refine ⟨[0], rfl, by simp, ?_⟩
    intro hne v hv
    have hv0 : v = 0 := by simpa using hv
    subst hv0
    refine ⟨by simp, ?_⟩
    obtain ⟨σ, hσ⟩ := List.exists_mem_of_ne_nil _ hne
    obtain ⟨π, hπ, v, hvi, rfl⟩ := (mem_level_succ hb).mp hσ
    have hπ0 : π = [] := List.eq_nil_of_length_eq_zero (mem_level.mp hπ).2
    subst hπ0
    have hv0 : v = 0 := by have := hvi.1; simpa using this
    subst hv0
    exact hvi.2
  · intro h; simp [freshObj] at h

/-! ### `extendPerm` and `buildLoop` in closed form -/

theorem extendPerm_snd (forb : List NSeq) (π : NSeq) : ∀ vals : List Nat,
    (extendPerm forb π vals).2 = vals.filter (fun v => !forb.contains (appendValue π v))
  | [] => rfl
  | v :: vs => by
    by_cases h : forb.contains (appendValue π v)
    · simp only [extendPerm, h, if_true, extendPerm_snd forb π vs]
      rw [List.filter_cons_of_neg (by simpa using h)]
    · simp only [extendPerm, h, extendPerm_snd forb π vs]
      rw [List.filter_cons_of_pos (by simpa using h)]; simp

theorem extendPerm_fst (forb : List NSeq) (π : NSeq) : ∀ vals : List Nat,
    (extendPerm forb π vals).1 =
      ((extendPerm forb π vals).2).map (fun v => (appendValue π v, some []))
  | [] => rfl
  | v :: vs => by
    by_cases h : forb.contains (appendValue π v)
    · simp only [extendPerm, h, if_true, extendPerm_fst forb π vs]
    · simp only [extendPerm, h, extendPerm_fst forb π vs]
      simp

/-- the values actually inserted for `π` -/
def goodVals (P : Level) (m : Nat) (forb : List NSeq) (π : NSeq) : List Nat :=
  match validInsertions P m π with
  | .ok vals => vals.filter (fun v => !forb.contains (appendValue π v))
  | .error _ => []

theorem buildLoop_spec (P : Level) (m : Nat) (forb : List NSeq) : ∀ (last : Level),
    (∀ e ∈ last, (∃ l, e.2 = some l) ∧ ∃ vals, validInsertions P m e.1 = .ok vals) →
    buildLoop P m forb last = .ok
      (last.map (fun e => (e.1, some (e.2.getD [] ++ goodVals P m forb e.1))),
       last.flatMap (fun e => (goodVals P m forb e.1).map (fun v => (appendValue e.1 v, some []))))
  | [], _ => rfl
  | (π, lis) :: rest, h => by
    obtain ⟨⟨l, hl⟩, vals, hv⟩ := h (π, lis) (by simp)
    simp only at hl hv
    subst hl
    have ih := buildLoop_spec P m forb rest (fun e he => h e (by simp [he]))
    simp only [buildLoop, hv, ih, List.map_cons, List.flatMap_cons, Option.getD_some, goodVals,
      extendPerm_fst forb π vals, extendPerm_snd]

end C02L
