import PermutaModel.Lemmas.C13Enum

/-! C13 helper lemmas, part 6: the symmetries `reverse` and `complement` permute the four
    juxtaposition classes; `reverse`, `complement`, `inverse` exchange / preserve "increasing" and
    "decreasing". -/
open Model.C13 Spec.C13

namespace C13

theorem mono_reverse (up : Bool) (l : List Nat) : Mono up l.reverse ↔ Mono (!up) l := by
  cases up <;> simp [Mono, List.pairwise_reverse]

/-- reversal turns "monotone-`a` then monotone-`b`" into "monotone-`¬b` then monotone-`¬a`" -/
theorem juxt_reverse (a b : Bool) (σ : NSeq) : Juxt a b (Model.reverse σ) ↔ Juxt (!b) (!a) σ := by
  unfold Juxt Model.reverse
  constructor
  · rintro ⟨k, h1, h2⟩
    refine ⟨σ.length - k, ?_, ?_⟩
    · rw [List.drop_reverse, mono_reverse] at h2; exact h2
    · rw [List.take_reverse, mono_reverse] at h1; exact h1
  · rintro ⟨k, h1, h2⟩
    refine ⟨σ.length - k, ?_, ?_⟩
    · rw [List.take_reverse, mono_reverse]
      by_cases hk : k ≤ σ.length
      · rw [show σ.length - (σ.length - k) = k by omega]; simpa using h2
      · rw [show σ.length - (σ.length - k) = σ.length by omega]
        rw [List.drop_of_length_le (by omega)] at h2
        rw [List.drop_of_length_le (le_refl _)]; cases b <;> simp [Mono]
    · rw [List.drop_reverse, mono_reverse]
      by_cases hk : k ≤ σ.length
      · rw [show σ.length - (σ.length - k) = k by omega]; simpa using h1
      · rw [show σ.length - (σ.length - k) = σ.length by omega]
        rw [List.take_of_length_le (by omega)] at h1
        rw [List.take_of_length_le (le_refl _)]; simpa using h1

theorem mono_map_compl (up : Bool) (n : Nat) (l : List Nat) (hl : ∀ x ∈ l, x < n) :
    Mono up (l.map fun v => n - 1 - v) ↔ Mono (!up) l := by
  cases up
  · simp only [Mono, Bool.false_eq_true, if_false, Bool.not_false, if_true, List.pairwise_map]
    constructor <;> intro h <;> refine List.Pairwise.imp_of_mem ?_ h <;> intro x y hx hy hxy <;>
      (have := hl x hx; have := hl y hy; omega)
  · simp only [Mono, if_true, Bool.not_true, Bool.false_eq_true, if_false, List.pairwise_map]
    constructor <;> intro h <;> refine List.Pairwise.imp_of_mem ?_ h <;> intro x y hx hy hxy <;>
      (have := hl x hx; have := hl y hy; omega)

/-- complementation flips both parts -/
theorem juxt_complement (a b : Bool) (σ : NSeq) (hσ : ∀ x ∈ σ, x < σ.length) :
    Juxt a b (Model.complement σ) ↔ Juxt (!a) (!b) σ := by
  unfold Juxt Model.complement
  refine exists_congr fun k => ?_
  rw [← List.map_take, ← List.map_drop,
    mono_map_compl a σ.length _ (fun x hx => hσ x (List.mem_of_mem_take hx)),
    mono_map_compl b σ.length _ (fun x hx => hσ x (List.mem_of_mem_drop hx))]

theorem rightmost_map_reverse (B : List NSeq) : Rightmost (B.map Model.reverse) ↔ Rightmost B := by
  unfold Rightmost
  constructor
  · intro h a b
    obtain ⟨p, hp, hj⟩ := h (!b) (!a)
    obtain ⟨q, hq, rfl⟩ := List.mem_map.mp hp
    exact ⟨q, hq, by simpa using (juxt_reverse (!b) (!a) q).mp hj⟩
  · intro h a b
    obtain ⟨q, hq, hj⟩ := h (!b) (!a)
    exact ⟨Model.reverse q, List.mem_map.mpr ⟨q, hq, rfl⟩, (juxt_reverse a b q).mpr hj⟩

theorem rightmost_map_complement (B : List NSeq) (hB : ∀ p ∈ B, IsPerm p) :
    Rightmost (B.map Model.complement) ↔ Rightmost B := by
  unfold Rightmost
  constructor
  · intro h a b
    obtain ⟨p, hp, hj⟩ := h (!a) (!b)
    obtain ⟨q, hq, rfl⟩ := List.mem_map.mp hp
    exact ⟨q, hq, by simpa using (juxt_complement (!a) (!b) q (hB q hq).2).mp hj⟩
  · intro h a b
    obtain ⟨q, hq, hj⟩ := h (!a) (!b)
    exact ⟨Model.complement q, List.mem_map.mpr ⟨q, hq, rfl⟩, (juxt_complement a b q (hB q hq).2).mpr hj⟩

/-! ### monotone permutations under the three generators -/

theorem isPerm_complement {p : NSeq} (hp : IsPerm p) : IsPerm (Model.complement p) := by
  unfold Model.complement
  refine ⟨List.Nodup.map_on ?_ hp.1, ?_⟩
  · intro x hx y hy hxy
    have := hp.2 x hx; have := hp.2 y hy; omega
  · intro x hx
    obtain ⟨y, hy, rfl⟩ := List.mem_map.mp hx
    have := hp.2 y hy
    simp only [List.length_map]; omega

theorem isIncreasing_reverse (p : NSeq) : Model.isIncreasing (Model.reverse p) = Model.isDecreasing p := by
  unfold Model.isIncreasing Model.isDecreasing Model.reverse
  rw [Bool.eq_iff_iff]
  simp only [beq_iff_eq, List.length_reverse]
  exact List.reverse_eq_iff

theorem isDecreasing_reverse (p : NSeq) : Model.isDecreasing (Model.reverse p) = Model.isIncreasing p := by
  unfold Model.isIncreasing Model.isDecreasing Model.reverse
  rw [Bool.eq_iff_iff]
  simp only [beq_iff_eq, List.length_reverse, List.reverse_inj]

theorem map_compl_range (n : Nat) : (List.range n).map (fun v => n - 1 - v) = (List.range n).reverse := by
  apply List.ext_getElem
  · simp
  · intro i h1 h2
    simp only [List.length_map, List.length_range] at h1
    simp only [List.getElem_map, List.getElem_range, List.getElem_reverse, List.length_range]

theorem map_compl_involutive (n : Nat) (l : List Nat) (hl : ∀ x ∈ l, x < n) :
    (l.map fun v => n - 1 - v).map (fun v => n - 1 - v) = l := by
  rw [List.map_map, List.map_congr_left (g := id)]
  · simp
  · intro x hx; have := hl x hx; simp; omega

theorem isIncreasing_complement {p : NSeq} (hp : IsPerm p) :
    Model.isIncreasing (Model.complement p) = Model.isDecreasing p := by
  unfold Model.isIncreasing Model.isDecreasing Model.complement
  rw [Bool.eq_iff_iff]
  simp only [beq_iff_eq, List.length_map]
  constructor
  · intro h
    have := congrArg (List.map fun v => p.length - 1 - v) h
    rwa [map_compl_involutive p.length p hp.2, map_compl_range] at this
  · intro h
    have := congrArg (List.map fun v => p.length - 1 - v) h
    rw [← map_compl_range, map_compl_involutive p.length _ (fun x hx => by simpa using hx)] at this
    exact this

theorem isDecreasing_complement {p : NSeq} (hp : IsPerm p) :
    Model.isDecreasing (Model.complement p) = Model.isIncreasing p := by
  unfold Model.isIncreasing Model.isDecreasing Model.complement
  rw [Bool.eq_iff_iff]
  simp only [beq_iff_eq, List.length_map]
  constructor
  · intro h
    have := congrArg (List.map fun v => p.length - 1 - v) h
    rwa [map_compl_involutive p.length p hp.2, ← map_compl_range,
      map_compl_involutive p.length _ (fun x hx => by simpa using hx)] at this
  · intro h
    have := congrArg (List.map fun v => p.length - 1 - v) h
    rwa [map_compl_range] at this

/-! ### position of a value in a permutation; inverse and rotation -/

theorem idxOf_eq_iff {p : NSeq} (hp : IsPerm p) {v i : Nat} (hv : v < p.length) (hi : i < p.length) :
    p.idxOf v = i ↔ p[i] = v := by
  constructor
  · intro h
    have hlt : p.idxOf v < p.length := idxOf_lt_of_isPerm hp hv
    have := List.getElem_idxOf hlt
    simp only [h] at this
    exact this
  · intro h
    rw [← h]; exact hp.1.idxOf_getElem i hi

theorem isPerm_inverse {p : NSeq} (hp : IsPerm p) : IsPerm (Model.inverse p) := by
  refine ⟨?_, ?_⟩
  · unfold Model.inverse
    refine List.Nodup.map_on ?_ List.nodup_range
    intro x hx y hy hxy
    exact (List.idxOf_inj (mem_of_isPerm hp (List.mem_range.mp hx))).mp hxy
  · intro x hx
    rw [length_inverse]
    unfold Model.inverse at hx
    obtain ⟨v, hv, rfl⟩ := List.mem_map.mp hx
    exact idxOf_lt_of_isPerm hp (List.mem_range.mp hv)

theorem inverse_getElem (p : NSeq) {v : Nat} (hv : v < (Model.inverse p).length) :
    (Model.inverse p)[v] = p.idxOf v := by
  simp [Model.inverse]

/-- the inverse is an involution on permutations -/
theorem inverse_inverse {p : NSeq} (hp : IsPerm p) : Model.inverse (Model.inverse p) = p := by
  have hip := isPerm_inverse hp
  apply List.ext_getElem
  · rw [length_inverse, length_inverse]
  · intro v h1 h2
    rw [inverse_getElem]
    have hv : v < p.length := h2
    have hpv : p[v] < p.length := hp.2 _ (List.getElem_mem _)
    rw [idxOf_eq_iff hip (by rw [length_inverse]; exact hv) (by rw [length_inverse]; exact hpv), inverse_getElem]
    exact hp.1.idxOf_getElem v hv

theorem isIncreasing_inverse {p : NSeq} (hp : IsPerm p) :
    Model.isIncreasing (Model.inverse p) = Model.isIncreasing p := by
  have key : ∀ q : NSeq, IsPerm q → q = List.range q.length → Model.inverse q = List.range q.length := by
    intro q hq h
    apply List.ext_getElem
    · rw [length_inverse]; simp
    · intro v h1 h2
      have hv : v < q.length := by simpa using h2
      rw [inverse_getElem, List.getElem_range, idxOf_eq_iff hq hv hv]
      conv_lhs => rw [List.getElem_of_eq h hv]
      simp
  unfold Model.isIncreasing
  rw [Bool.eq_iff_iff]
  simp only [beq_iff_eq, length_inverse]
  constructor
  · intro h
    have := key (Model.inverse p) (isPerm_inverse hp) (by rw [length_inverse]; exact h)
    rw [inverse_inverse hp, length_inverse] at this
    exact this
  · exact key p hp

theorem isDecreasing_inverse {p : NSeq} (hp : IsPerm p) :
    Model.isDecreasing (Model.inverse p) = Model.isDecreasing p := by
  have key : ∀ q : NSeq, IsPerm q → q = (List.range q.length).reverse →
      Model.inverse q = (List.range q.length).reverse := by
    intro q hq h
    apply List.ext_getElem
    · rw [length_inverse]; simp
    · intro v h1 h2
      have hv : v < q.length := by simpa using h2
      rw [inverse_getElem]
      simp only [List.getElem_reverse, List.getElem_range, List.length_range]
      rw [idxOf_eq_iff hq hv (by omega)]
      conv_lhs => rw [List.getElem_of_eq h (by omega)]
      simp only [List.getElem_reverse, List.getElem_range, List.length_range]
      omega
  unfold Model.isDecreasing
  rw [Bool.eq_iff_iff]
  simp only [beq_iff_eq, length_inverse]
  constructor
  · intro h
    have := key (Model.inverse p) (isPerm_inverse hp) (by rw [length_inverse]; exact h)
    rw [inverse_inverse hp, length_inverse] at this
    exact this
  · exact key p hp

/-- `rotate()` is "inverse, then complement" -/
theorem rotate_one_eq (p : NSeq) : Model.rotate p 1 = Model.complement (Model.inverse p) := by
  have : Model.rotate p 1 = Model.rotate1 p := by simp [Model.rotate]
  rw [this]
  unfold Model.rotate1 Model.complement
  rw [length_inverse]
  simp [Model.inverse, List.map_map, Function.comp_def]

theorem isPerm_rotate_one {p : NSeq} (hp : IsPerm p) : IsPerm (Model.rotate p 1) := by
  rw [rotate_one_eq]; exact isPerm_complement (isPerm_inverse hp)

theorem reverse_getElem' (p : NSeq) {i : Nat} (hi : i < (Model.reverse p).length) :
    (Model.reverse p)[i] = p[p.length - 1 - i]'(by simp [Model.reverse] at hi; omega) := by
  simp [Model.reverse]

/-- position of a value after reversal -/
theorem inverse_reverse {p : NSeq} (hp : IsPerm p) :
    Model.inverse (Model.reverse p) = Model.complement (Model.inverse p) := by
  have hrp : IsPerm (Model.reverse p) := isPerm_reverse hp
  have hlen : (Model.reverse p).length = p.length := by simp [Model.reverse]
  apply List.ext_getElem
  · simp [Model.complement, length_inverse, hlen]
  · intro v h1 h2
    have hv : v < p.length := by rw [length_inverse, hlen] at h1; exact h1
    have hidx := idxOf_lt_of_isPerm hp hv
    rw [inverse_getElem]
    simp only [Model.complement, List.getElem_map, inverse_getElem, length_inverse]
    rw [idxOf_eq_iff hrp (by rw [hlen]; exact hv) (by rw [hlen]; omega), reverse_getElem']
    have : p.length - 1 - (p.length - 1 - List.idxOf v p) = List.idxOf v p := by omega
    simp only [this]
    exact List.getElem_idxOf hidx

/-- position of a value after complementation -/
theorem inverse_complement {p : NSeq} (hp : IsPerm p) :
    Model.inverse (Model.complement p) = Model.reverse (Model.inverse p) := by
  have hcp : IsPerm (Model.complement p) := isPerm_complement hp
  have hlen : (Model.complement p).length = p.length := by simp [Model.complement]
  apply List.ext_getElem
  · simp [Model.reverse, length_inverse, hlen]
  · intro v h1 h2
    have hv : v < p.length := by rw [length_inverse, hlen] at h1; exact h1
    have hv' : p.length - 1 - v < p.length := by omega
    have hidx := idxOf_lt_of_isPerm hp hv'
    rw [inverse_getElem, reverse_getElem', inverse_getElem, length_inverse]
    rw [idxOf_eq_iff hcp (by rw [hlen]; exact hv) (by rw [hlen]; exact hidx)]
    simp only [Model.complement, List.getElem_map]
    rw [List.getElem_idxOf hidx]
    omega

theorem isInsEnc_list (D : List NSeq) :
    isInsEnc ⟨D, false⟩ = (isRightmost ⟨D, false⟩ || isMaximum ⟨D, false⟩) := by
  unfold isInsEnc isRightmost isMaximum
  by_cases h : (encGo 0 0 D).1 = true <;> simp [h]

end C13
