import PermutaModel.Model.C20

/-! Decimal numerals of the C20 model: `natDigits` / `takeDigits` round trip. -/
namespace Model.C20

theorem digitVal?_digitChar : ∀ k, k < 10 → digitVal? (digitChar k) = some k := by decide

theorem isDig_iff (c : Char) : isDig c = true ↔
    (c = '0' ∨ c = '1' ∨ c = '2' ∨ c = '3' ∨ c = '4' ∨ c = '5' ∨ c = '6' ∨ c = '7' ∨ c = '8' ∨ c = '9') := by
  unfold isDig digitVal?
  constructor
  · intro h
    repeat' split at h
    all_goals first | (simp_all; done) | skip
  · intro h
    rcases h with h | h | h | h | h | h | h | h | h | h <;> subst h <;> decide

theorem digitChar_isDig (k : Nat) : isDig (digitChar k) = true := by
  unfold digitChar
  split <;> decide

theorem digitChar_ne_zero : ∀ k, k < 10 → k ≠ 0 → digitChar k ≠ '0' := by decide

theorem isDig_not_ws {c : Char} (h : isDig c = true) : isWs c = false := by
  rcases (isDig_iff c).mp h with h | h | h | h | h | h | h | h | h | h <;> subst h <;> decide

/-- a digit is none of the characters the scanner dispatches on before numbers -/
theorem isDig_dispatch {c : Char} (h : isDig c = true) :
    c ≠ '"' ∧ c ≠ '[' ∧ c ≠ '{' ∧ c ≠ 'n' ∧ c ≠ 't' ∧ c ≠ 'f' ∧ c ≠ '\n' ∧ c ≠ '\\' ∧ ¬ c.toNat < 32 := by
  rcases (isDig_iff c).mp h with h | h | h | h | h | h | h | h | h | h <;> subst h <;> decide

theorem natDigitsAux_eq (n : Nat) : ∀ f acc, n < f → natDigitsAux f n acc = natDigits n ++ acc := by
  induction n using Nat.strongRecOn with
  | _ n ih =>
    intro f acc hf
    obtain ⟨f', rfl⟩ : ∃ f', f = f' + 1 := ⟨f - 1, by omega⟩
    by_cases h10 : n < 10
    · simp [natDigitsAux, natDigits, h10]
    · have hdiv : n / 10 < n := by omega
      have h1 : natDigitsAux (f' + 1) n acc = natDigitsAux f' (n / 10) (digitChar (n % 10) :: acc) := by
        simp [natDigitsAux, h10]
      have h2 : natDigits n = natDigitsAux n (n / 10) [digitChar (n % 10)] := by
        obtain ⟨m, rfl⟩ : ∃ m, n = m + 1 := ⟨n - 1, by omega⟩
        simp only [natDigits]
        rw [natDigitsAux]
        simp [h10]
      rw [h1, h2, ih (n / 10) hdiv f' _ (by omega), ih (n / 10) hdiv n _ hdiv]
      simp

theorem natDigits_lt {n : Nat} (h : n < 10) : natDigits n = [digitChar n] := by
  simp [natDigits, natDigitsAux, h]

theorem natDigits_ge {n : Nat} (h : 10 ≤ n) : natDigits n = natDigits (n / 10) ++ [digitChar (n % 10)] := by
  obtain ⟨m, rfl⟩ : ∃ m, n = m + 1 := ⟨n - 1, by omega⟩
  have h10 : ¬ m + 1 < 10 := by omega
  have : natDigits (m + 1) = natDigitsAux (m + 1) ((m + 1) / 10) [digitChar ((m + 1) % 10)] := by
    simp only [natDigits]
    rw [natDigitsAux]
    simp [h10]
  rw [this, natDigitsAux_eq _ _ _ (by omega)]

theorem natDigits_all_dig (n : Nat) : ∀ c ∈ natDigits n, isDig c = true := by
  induction n using Nat.strongRecOn with
  | _ n ih =>
    by_cases h : n < 10
    · rw [natDigits_lt h]
      intro c hc
      simp at hc
      subst hc
      exact digitChar_isDig n
    · rw [natDigits_ge (by omega)]
      intro c hc
      rw [List.mem_append] at hc
      rcases hc with hc | hc
      · exact ih (n / 10) (by omega) c hc
      · simp at hc
        subst hc
        exact digitChar_isDig _

theorem natDigits_ne_nil (n : Nat) : natDigits n ≠ [] := by
  by_cases h : n < 10
  · rw [natDigits_lt h]; simp
  · rw [natDigits_ge (by omega)]; simp

/-- the first digit is not `0` unless the number is `0` -/
theorem natDigits_head (n : Nat) (hn : n ≠ 0) :
    ∃ c cs, natDigits n = c :: cs ∧ isDig c = true ∧ c ≠ '0' := by
  induction n using Nat.strongRecOn with
  | _ n ih =>
    by_cases h : n < 10
    · exact ⟨digitChar n, [], natDigits_lt h, digitChar_isDig n, digitChar_ne_zero n h hn⟩
    · obtain ⟨c, cs, hc, hd, h0⟩ := ih (n / 10) (by omega) (by omega)
      refine ⟨c, cs ++ [digitChar (n % 10)], ?_, hd, h0⟩
      rw [natDigits_ge (by omega), hc]
      rfl

theorem natDigits_zero : natDigits 0 = ['0'] := by decide

theorem natDigits_head_dig (n : Nat) : ∃ c cs, natDigits n = c :: cs ∧ isDig c = true := by
  match h : natDigits n with
  | [] => exact absurd h (natDigits_ne_nil n)
  | c :: cs => exact ⟨c, cs, rfl, natDigits_all_dig n c (by rw [h]; simp)⟩

theorem takeDigits_dig {c : Char} {d : Nat} (h : digitVal? c = some d) (cs : Str) (acc : Nat) :
    takeDigits (c :: cs) acc = takeDigits cs (acc * 10 + d) := by
  simp [takeDigits, h]

theorem takeDigits_natDigits (n : Nat) : ∀ (rest : Str) (acc : Nat),
    takeDigits (natDigits n ++ rest) acc = takeDigits rest (acc * 10 ^ (natDigits n).length + n) := by
  induction n using Nat.strongRecOn with
  | _ n ih =>
    intro rest acc
    by_cases h : n < 10
    · rw [natDigits_lt h]
      simp [takeDigits_dig (digitVal?_digitChar n h)]
    · rw [natDigits_ge (by omega), List.append_assoc, ih (n / 10) (by omega)]
      have hm : n % 10 < 10 := Nat.mod_lt _ (by omega)
      simp only [List.singleton_append, takeDigits_dig (digitVal?_digitChar _ hm), List.length_append,
        List.length_singleton, Nat.pow_succ]
      congr 1
      have : acc * (10 ^ (natDigits (n / 10)).length * 10) = acc * 10 ^ (natDigits (n / 10)).length * 10 := by
        rw [Nat.mul_assoc]
      rw [this]
      omega

/-- a string that does not continue the numeral -/
def NoDigitHead : Str → Prop
  | [] => True
  | c :: _ => digitVal? c = none

theorem takeDigits_stop {rest : Str} (h : NoDigitHead rest) (acc : Nat) : takeDigits rest acc = (acc, rest) := by
  cases rest with
  | nil => rfl
  | cons c cs => simp [NoDigitHead] at h; simp [takeDigits, h]

theorem takeDigits_natDigits_stop (n : Nat) {rest : Str} (h : NoDigitHead rest) :
    takeDigits (natDigits n ++ rest) 0 = (n, rest) := by
  rw [takeDigits_natDigits, takeDigits_stop h]
  simp

theorem natDigits_injective {a b : Nat} (h : natDigits a = natDigits b) : a = b := by
  have ha := takeDigits_natDigits_stop a (rest := []) trivial
  have hb := takeDigits_natDigits_stop b (rest := []) trivial
  rw [h] at ha
  rw [ha] at hb
  exact (Prod.mk.inj hb).1

end Model.C20
