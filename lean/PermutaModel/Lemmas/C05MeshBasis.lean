import PermutaModel.Lemmas.C05MeshOrder
/-! The result of `MeshBasis(*patts)` on valid patterns is *the* key-sorted antichain (w.r.t. mesh
    containment) inside the input that covers the input; it is unique up to the classes of the objects. -/
open Model Model.C08 Model.C05 Generated

namespace C05

/-- `MeshBasis._pruner` on Boolean containment -/
def mpruner : List MObj → List MObj
  | [] => []
  | p0 :: rest => if p0.pattern.length = 0 ∧ p0.shading = [] then [p0] else mprunerGo [] (p0 :: rest)

theorem mprunerE_eq (s : List MObj) (hv : ∀ x ∈ s, IsPerm x.pattern) : mprunerE s = .ok (mpruner s) := by
  cases s with
  | nil => rfl
  | cons p0 rest =>
    simp only [mprunerE, mpruner]
    split
    · rfl
    · exact mprunerGoE_eq (p0 :: rest) [] (by simpa using hv)

/-- invariants of the loop on a key-sorted list of valid patterns -/
structure MGoInv (acc R rest : List MObj) : Prop where
  sub : ∀ x ∈ R, x ∈ acc ++ rest
  pre : ∀ x ∈ acc, x ∈ R
  anti : R.Pairwise (fun q p => meshIn q p = false ∧ meshIn p q = false)
  sorted : R.Pairwise (fun x y => meshKey2Lt y x = false)
  cover : ∀ x ∈ acc ++ rest, ∃ q ∈ R, meshIn q x = true

theorem mprunerGo_inv : ∀ (rest acc : List MObj),
    (∀ x ∈ acc ++ rest, ValidM x) →
    (acc ++ rest).Pairwise (fun x y => meshKey2Lt y x = false) →
    acc.Pairwise (fun q p => meshIn q p = false ∧ meshIn p q = false) →
    MGoInv acc (mprunerGo acc rest) rest
  | [], acc, hv, hs, hanti => by
    simp only [mprunerGo]
    exact ⟨fun x hx => by simpa using hx, fun x hx => hx, hanti, by simpa using hs,
      fun x hx => ⟨x, by simpa using hx, meshIn_refl x (hv x hx)⟩⟩
  | p :: ps, acc, hv, hs, hanti => by
    unfold mprunerGo
    have hpv : ValidM p := hv p (by simp)
    have hle : ∀ q ∈ acc, meshKey2Lt p q = false := fun q hq =>
      (List.pairwise_append.mp hs).2.2 q hq p (List.mem_cons_self ..)
    by_cases hav : (acc.all fun q => !meshIn q p) = true
    · rw [if_pos hav]
      have hav' : ∀ q ∈ acc, meshIn q p = false := by
        intro q hq
        have := List.all_eq_true.mp hav q hq
        simpa using this
      have hanti' : (acc ++ [p]).Pairwise (fun q p => meshIn q p = false ∧ meshIn p q = false) := by
        rw [List.pairwise_append]
        refine ⟨hanti, List.pairwise_singleton _ _, ?_⟩
        intro q hq x hx
        rw [List.mem_singleton] at hx
        subst hx
        refine ⟨hav' q hq, ?_⟩
        have hqv : ValidM q := hv q (by simp [hq])
        by_cases hqx : meshVal x = meshVal q
        · rw [meshIn_congr hqx hqx.symm]; exact hav' q hq
        · cases hc : meshIn x q with
          | false => rfl
          | true =>
            have := key_linear_ext x q hpv hqv hc hqx
            rw [hle q hq] at this
            exact absurd this (by decide)
      have ih := mprunerGo_inv ps (acc ++ [p]) (by simpa using hv) (by simpa using hs) hanti'
      exact ⟨by simpa using ih.sub, fun x hx => ih.pre x (by simp [hx]), ih.anti, ih.sorted, by simpa using ih.cover⟩
    · rw [if_neg hav]
      have hs' : (acc ++ ps).Pairwise (fun x y => meshKey2Lt y x = false) := by
        rw [List.pairwise_append] at hs ⊢
        exact ⟨hs.1, (List.pairwise_cons.mp hs.2.1).2, fun a ha b hb => hs.2.2 a ha b (List.mem_cons_of_mem _ hb)⟩
      have ih := mprunerGo_inv ps acc (fun x hx => hv x (by simp at hx ⊢; tauto)) hs' hanti
      refine ⟨fun x hx => ?_, ih.pre, ih.anti, ih.sorted, ?_⟩
      · have := ih.sub x hx; simp at this ⊢; tauto
      · intro x hx
        simp only [List.mem_append, List.mem_cons] at hx
        rcases hx with hx | rfl | hx
        · exact ih.cover x (by simp [hx])
        · have : ∃ q ∈ acc, meshIn q x = true := by
            by_contra hcon
            apply hav
            rw [List.all_eq_true]
            intro q hq
            cases hc : meshIn q x with
            | false => rfl
            | true => exact absurd ⟨q, hq, hc⟩ hcon
          obtain ⟨q, hq, hc⟩ := this
          exact ⟨q, ih.pre q hq, hc⟩
        · exact ih.cover x (by simp [hx])

/-- a list in which no earlier element is contained in a later one is left unchanged by the loop -/
theorem mprunerGo_id : ∀ (rest acc : List MObj),
    (acc ++ rest).Pairwise (fun q p => meshIn q p = false) → mprunerGo acc rest = acc ++ rest
  | [], acc, _ => by simp [mprunerGo]
  | p :: ps, acc, h => by
    unfold mprunerGo
    have hav : (acc.all fun q => !meshIn q p) = true := by
      rw [List.all_eq_true]
      intro q hq
      have := (List.pairwise_append.mp h).2.2 q hq p (List.mem_cons_self ..)
      simp [this]
    rw [if_pos hav, mprunerGo_id ps (acc ++ [p]) (by simpa using h)]
    simp

/-- the empty unshaded pattern is contained in every valid pattern -/
theorem meshIn_empty (e x : MObj) (he : meshVal e = ([], [])) (hx : ValidM x) : meshIn e x = true := by
  have hev : ValidM e := by
    obtain ⟨c, p, s⟩ := e
    simp only [meshVal, Prod.mk.injEq] at he
    obtain ⟨rfl, rfl⟩ := he
    exact ⟨(by decide : IsPerm []), by simp, List.Pairwise.nil⟩
  rw [meshIn_iff_sem e x hev hx]
  refine ⟨[], by simp, ?_⟩
  intro σ d _ _
  have h1 : (toMesh e).pattern = [] := by simp [toMesh, (Prod.mk.injEq ..).mp he |>.1]
  have h2 : (toMesh e).shading = [] := by simp [toMesh, (Prod.mk.injEq ..).mp he |>.2]
  refine ⟨?_, ?_⟩
  · rw [h1]
    exact ⟨rfl, List.Pairwise.nil, by simp [Spec.compose], by intro a b ha; simp at ha⟩
  · intro i _ _; rw [h2]; simp

/-- `R` is the mesh basis of `S` -/
structure IsMBasisOf (R S : List MObj) : Prop where
  sub : ∀ x ∈ R, x ∈ S
  anti : R.Pairwise (fun q p => meshIn q p = false ∧ meshIn p q = false)
  cover : ∀ x ∈ S, ∃ q ∈ R, meshIn q x = true
  sorted : R.Pairwise (fun a b => meshKey2Lt a b = true)

theorem strict_of_sorted_anti {R : List MObj} (hv : ∀ x ∈ R, ValidM x)
    (hs : R.Pairwise (fun x y => meshKey2Lt y x = false))
    (ha : R.Pairwise (fun q p => meshIn q p = false ∧ meshIn p q = false)) :
    R.Pairwise (fun a b => meshKey2Lt a b = true) := by
  induction R with
  | nil => exact List.Pairwise.nil
  | cons a t ih =>
    rw [List.pairwise_cons] at hs ha ⊢
    refine ⟨?_, ih (fun x hx => hv x (List.mem_cons_of_mem _ hx)) hs.2 ha.2⟩
    intro b hb
    rw [meshKey2Lt_eq]
    rcases valKeyLt_strictTotal.tri (meshVal a) (meshVal b) with h | h | h
    · exact h
    · exfalso
      have := (ha.1 b hb).1
      rw [meshIn_congr (a := a) (a' := a) rfl h.symm, meshIn_refl a (hv a (List.mem_cons_self ..))] at this
      exact absurd this (by decide)
    · have := hs.1 b hb
      rw [meshKey2Lt_eq] at this
      rw [this] at h; exact absurd h (by decide)

/-- **the pruner computes the mesh basis of a key-sorted list of valid patterns** -/
theorem mpruner_isMBasisOf (s : List MObj) (hv : ∀ x ∈ s, ValidM x)
    (hs : s.Pairwise (fun x y => meshKey2Lt y x = false)) : IsMBasisOf (mpruner s) s := by
  cases s with
  | nil => exact ⟨by simp [mpruner], List.Pairwise.nil, by simp, List.Pairwise.nil⟩
  | cons p0 rest =>
    simp only [mpruner]
    split
    · rename_i h0
      have hval : meshVal p0 = ([], []) := by
        simp only [meshVal]; exact Prod.ext (List.eq_nil_of_length_eq_zero h0.1) h0.2
      refine ⟨by simp, List.pairwise_singleton _ _, ?_, List.pairwise_singleton _ _⟩
      intro x hx
      exact ⟨p0, by simp, meshIn_empty p0 x hval (hv x hx)⟩
    · have inv := mprunerGo_inv (p0 :: rest) [] (by simpa using hv) (by simpa using hs) List.Pairwise.nil
      have hvR : ∀ x ∈ mprunerGo [] (p0 :: rest), ValidM x := fun x hx => hv x (by simpa using inv.sub x hx)
      exact ⟨by simpa using inv.sub, inv.anti, by simpa using inv.cover, strict_of_sorted_anti hvR inv.sorted inv.anti⟩

/-- the mesh basis of a set of values is unique up to the classes of the objects -/
theorem isMBasisOf_unique {R R' S S' : List MObj} (h : IsMBasisOf R S) (h' : IsMBasisOf R' S')
    (hv : ∀ x ∈ S, ValidM x) (hv' : ∀ x ∈ S', ValidM x)
    (hS : ∀ v, v ∈ S.map meshVal ↔ v ∈ S'.map meshVal) : R.map meshVal = R'.map meshVal := by
  -- every value of one basis is a value of the other
  have key : ∀ {A A' T T' : List MObj}, IsMBasisOf A T → IsMBasisOf A' T' → (∀ x ∈ T, ValidM x) →
      (∀ x ∈ T', ValidM x) → (∀ v, v ∈ T.map meshVal ↔ v ∈ T'.map meshVal) →
      ∀ a ∈ A, meshVal a ∈ A'.map meshVal := by
    intro A A' T T' hA hA' hT hT' hTT a ha
    have haT := hA.sub a ha
    obtain ⟨t', ht', hvt'⟩ := List.mem_map.mp ((hTT _).mp (List.mem_map_of_mem (f := meshVal) haT))
    obtain ⟨a', ha', hc1⟩ := hA'.cover t' ht'
    have ha'T' := hA'.sub a' ha'
    obtain ⟨t, ht, hvt⟩ := List.mem_map.mp ((hTT _).mpr (List.mem_map_of_mem (f := meshVal) ha'T'))
    obtain ⟨a'', ha'', hc2⟩ := hA.cover t ht
    -- a'' ≤ a' ≤ a as values
    have hc1' : meshIn a' a = true := by rw [meshIn_congr (a := a') (a' := a') rfl hvt'.symm]; exact hc1
    have hc2' : meshIn a'' a' = true := by rw [meshIn_congr (a := a'') (a' := a'') rfl hvt.symm]; exact hc2
    have va := hT a haT
    have va' := hT' a' ha'T'
    have va'' := hT a'' (hA.sub a'' ha'')
    have hc := meshIn_trans a'' a' a va'' va' va hc2' hc1'
    -- a'' and a are in the antichain A: they are the same element
    have haa : a'' = a := by
      by_contra hne
      have hget := List.pairwise_iff_getElem.mp hA.anti
      obtain ⟨i, hi, rfl⟩ := List.getElem_of_mem ha''
      obtain ⟨j, hj, rfl⟩ := List.getElem_of_mem ha
      rcases Nat.lt_trichotomy i j with hij | hij | hij
      · have := (hget i j hi hj hij).1; rw [hc] at this; exact absurd this (by decide)
      · subst hij; exact hne rfl
      · have := (hget j i hj hi hij).2; rw [hc] at this; exact absurd this (by decide)
    subst haa
    have : meshVal a' = meshVal a'' := meshIn_antisymm a' a'' va' va'' hc1' hc2'
    rw [← this]
    exact List.mem_map_of_mem (f := meshVal) ha'
  have hmem : ∀ v, v ∈ R.map meshVal ↔ v ∈ R'.map meshVal := by
    intro v
    constructor
    · intro hv0
      obtain ⟨a, ha, rfl⟩ := List.mem_map.mp hv0
      exact key h h' hv hv' hS a ha
    · intro hv0
      obtain ⟨a, ha, rfl⟩ := List.mem_map.mp hv0
      exact key h' h hv' hv (fun v => (hS v).symm) a ha
  have hsr : (R.map meshVal).Pairwise (fun a b => valKeyLt a b = true) := by
    rw [List.pairwise_map]; exact h.sorted.imp (fun hab => by rwa [meshKey2Lt_eq] at hab)
  have hsr' : (R'.map meshVal).Pairwise (fun a b => valKeyLt a b = true) := by
    rw [List.pairwise_map]; exact h'.sorted.imp (fun hab => by rwa [meshKey2Lt_eq] at hab)
  have hnd : (R.map meshVal).Nodup := hsr.imp (fun hab => valKeyLt_strictTotal.ne_of_lt hab)
  have hnd' : (R'.map meshVal).Nodup := hsr'.imp (fun hab => valKeyLt_strictTotal.ne_of_lt hab)
  have hp : (R.map meshVal).Perm (R'.map meshVal) := (List.perm_ext_iff_of_nodup hnd hnd').mpr hmem
  exact PySort.sorted_perm_unique valKeyLt_strictTotal _ _ hp
    (hsr.imp (fun hab => valKeyLt_strictTotal.asymm hab))
    (hsr'.imp (fun hab => valKeyLt_strictTotal.asymm hab))

/-- `MeshBasis(*patts)` on valid patterns: never raises, and the result is the pruner applied to the
    key-sorted arrangement of the (wrapped) arguments -/
theorem meshBasisNew_ok (l : List Atom) (hv : ∀ a ∈ l, ValidM (wrap a)) :
    ∃ s, s.Perm (l.map wrap) ∧ s.Pairwise (fun x y => meshKey2Lt y x = false) ∧
      meshBasisNew l = .ok (mpruner s) := by
  obtain ⟨s, hs1, hs2, hs3⟩ := meshSort_ok (l.map wrap)
  refine ⟨s, hs2, hs3, ?_⟩
  unfold meshBasisNew
  by_cases he : l.isEmpty = true
  · have : l = [] := List.isEmpty_iff.mp he
    subst this
    have : s = [] := by simpa using hs2.eq_nil
    subst this
    rfl
  · rw [if_neg he, hs1]
    apply mprunerE_eq
    intro x hx
    obtain ⟨a, ha, rfl⟩ := List.mem_map.mp (hs2.mem_iff.mp hx)
    exact (hv a ha).perm

theorem meshBasisNew_isMBasisOf (l : List Atom) (hv : ∀ a ∈ l, ValidM (wrap a)) :
    ∃ R, meshBasisNew l = .ok R ∧ IsMBasisOf R (l.map wrap) := by
  obtain ⟨s, hp, hs, he⟩ := meshBasisNew_ok l hv
  have hvs : ∀ x ∈ s, ValidM x := by
    intro x hx
    obtain ⟨a, ha, rfl⟩ := List.mem_map.mp (hp.mem_iff.mp hx)
    exact hv a ha
  have hb := mpruner_isMBasisOf s hvs hs
  exact ⟨_, he, fun x hx => hp.mem_iff.mp (hb.sub x hx), hb.anti, fun x hx => hb.cover x (hp.mem_iff.mpr hx), hb.sorted⟩

end C05
