import PermutaModel.Lemmas.C16Fam
import PermutaModel.Lemmas.C10Blocks
/-!
Simplicity (in the sense of C10: no proper interval) of the three explicit families of `C16Fam`, for
every member, and its invariance under the eight symmetries.

Method.  A window of positions `[i, i+l)` is *not* an interval as soon as some position `q` outside
the window carries a value strictly between the values of two positions `a`, `b` inside
(`not_interval_sep`).  For each family and each window `2 ≤ l < n` the triple `(a, b, q)` is given
explicitly from the closed form; the inequalities are linear arithmetic.

For the symmetries, intervals are re-expressed as *blocks* (`IsBlock`: a rectangle of positions × values
that contains exactly the points of its rows and of its columns), a notion that is visibly symmetric
under reverse / complement / inverse.
-/
open Model Spec.C10

namespace C16Simple
open C04L

/-- membership in a window of positions -/
theorem mem_window (p : NSeq) (i l v : Nat) :
    v ∈ window p i l ↔ ∃ c, i ≤ c ∧ c < i + l ∧ c < p.length ∧ p.getD c 0 = v := by
  unfold window
  rw [List.mem_iff_getElem?]
  constructor
  · rintro ⟨k, hk⟩
    rw [List.getElem?_take] at hk
    split at hk
    · next hkl =>
      rw [List.getElem?_drop] at hk
      have hlt : i + k < p.length := by
        by_contra hc
        rw [List.getElem?_eq_none (by omega)] at hk
        cases hk
      refine ⟨i + k, by omega, by omega, hlt, ?_⟩
      rw [List.getD_eq_getElem?_getD, hk]; rfl
    · cases hk
  · rintro ⟨c, h1, h2, h3, rfl⟩
    refine ⟨c - i, ?_⟩
    rw [List.getElem?_take, if_pos (by omega), List.getElem?_drop, show i + (c - i) = c by omega,
      List.getElem?_eq_getElem h3, getD_of_lt p h3]

/-- a position outside the window whose value separates two values inside refutes the interval -/
theorem not_interval_sep {p : NSeq} (hp : IsPerm p) {i l a b q : Nat} (ha : i ≤ a ∧ a < i + l)
    (hb : i ≤ b ∧ b < i + l) (hq : q < p.length) (hqo : q < i ∨ i + l ≤ q)
    (h1 : p.getD a 0 < p.getD q 0) (h2 : p.getD q 0 < p.getD b 0) : ¬ IsInterval p i l := by
  rintro ⟨hle, m, hm⟩
  have hma := ((hm _).mp ((mem_window p i l _).mpr ⟨a, ha.1, ha.2, by omega, rfl⟩)).1
  have hmb := ((hm _).mp ((mem_window p i l _).mpr ⟨b, hb.1, hb.2, by omega, rfl⟩)).2
  obtain ⟨c, hc1, hc2, hc3, hv⟩ := (mem_window p i l _).mp ((hm (p.getD q 0)).mpr ⟨by omega, by omega⟩)
  have := hp.getD_inj hc3 hq hv
  omega

/-- simplicity of a list given by a closed form from explicit separators -/
theorem simple_of_sep (n : Nat) (e : Nat → Nat) (hperm : IsPerm ((List.range n).map e))
    (H : ∀ i l, 2 ≤ l → l < n → i + l ≤ n → ∃ a b q, i ≤ a ∧ a < i + l ∧ i ≤ b ∧ b < i + l ∧ q < n ∧
      (q < i ∨ i + l ≤ q) ∧ e a < e q ∧ e q < e b) : IsSimple ((List.range n).map e) := by
  intro i l h2 hl hint
  have hlen : ((List.range n).map e).length = n := by simp
  rw [hlen] at hl
  have hle : i + l ≤ n := by have := hint.1; rwa [hlen] at this
  obtain ⟨a, b, q, ha1, ha2, hb1, hb2, hq, hqo, h1, h2'⟩ := H i l h2 hl hle
  refine not_interval_sep hperm ⟨ha1, ha2⟩ ⟨hb1, hb2⟩ (by rw [hlen]; exact hq) hqo ?_ ?_ hint
  · rw [C16Fam.getD_mapRange n e a (by omega), C16Fam.getD_mapRange n e q hq]; exact h1
  · rw [C16Fam.getD_mapRange n e b (by omega), C16Fam.getD_mapRange n e q hq]; exact h2'

/-! ### the three families -/

/-- every parallel alternation is simple (the members of length 0 and 2 trivially so) -/
theorem parAlt_simple (m : Nat) : IsSimple (C16Fam.parAlt m) := by
  apply simple_of_sep (2 * m) (C16Fam.altEntry m) (C16Fam.isPerm_parAlt m)
  intro i l h2 hl hle
  by_cases hA : i + l ≤ m
  · refine ⟨i + 1, i, m + 1 + i, by omega, by omega, by omega, by omega, by omega, by omega, ?_, ?_⟩ <;>
      (unfold C16Fam.altEntry; split_ifs <;> omega)
  · by_cases hB : m ≤ i
    · refine ⟨i + 1, i, i - m, by omega, by omega, by omega, by omega, by omega, by omega, ?_, ?_⟩ <;>
        (unfold C16Fam.altEntry; split_ifs <;> omega)
    · by_cases h0 : 0 < i
      · refine ⟨m - 1, m, 0, by omega, by omega, by omega, by omega, by omega, by omega, ?_, ?_⟩ <;>
          (unfold C16Fam.altEntry; split_ifs <;> omega)
      · refine ⟨m - 1, m, 2 * m - 1, by omega, by omega, by omega, by omega, by omega, by omega, ?_, ?_⟩ <;>
          (unfold C16Fam.altEntry; split_ifs <;> omega)

/-- every wedge permutation of the first kind with `m ≥ 2` (length `≥ 5`) is simple -/
theorem wedge1_simple (m : Nat) (hm : 2 ≤ m) : IsSimple (C16Fam.wedge1 m) := by
  apply simple_of_sep (2 * m + 1) (C16Fam.w1Entry m) (C16Fam.isPerm_wedge1 m)
  intro i l h2 hl hle
  by_cases h1 : i + 1 = 2 * m
  · have e1 : C16Fam.w1Entry m 1 = m + 1 := by
      unfold C16Fam.w1Entry; rw [if_neg (by omega), if_neg (by omega)]
    have e2 : C16Fam.w1Entry m (2 * m) = m := by unfold C16Fam.w1Entry; rw [if_pos rfl]
    have e3 : C16Fam.w1Entry m (2 * m - 1) = 2 * m := by
      unfold C16Fam.w1Entry; rw [if_neg (by omega), if_neg (by omega)]; omega
    exact ⟨2 * m, 2 * m - 1, 1, by omega, by omega, by omega, by omega, by omega, by omega,
      by rw [e1, e2]; omega, by rw [e1, e3]; omega⟩
  · by_cases h3 : i + l ≤ 2 * m
    · by_cases he : i % 2 = 0
      · refine ⟨i, i + 1, 2 * m, by omega, by omega, by omega, by omega, by omega, by omega, ?_, ?_⟩ <;>
          (unfold C16Fam.w1Entry; split_ifs <;> omega)
      · refine ⟨i + 1, i, 2 * m, by omega, by omega, by omega, by omega, by omega, by omega, ?_, ?_⟩ <;>
          (unfold C16Fam.w1Entry; split_ifs <;> omega)
    · refine ⟨2 * m - 2, 2 * m - 1, 0, by omega, by omega, by omega, by omega, by omega, by omega, ?_, ?_⟩ <;>
        (unfold C16Fam.w1Entry; split_ifs <;> omega)

/-- every wedge permutation of the second kind with `m ≥ 2` (length `≥ 5`) is simple -/
theorem wedge2_simple (m : Nat) (hm : 2 ≤ m) : IsSimple (C16Fam.wedge2 m) := by
  apply simple_of_sep (2 * m + 1) (C16Fam.w2Entry m) (C16Fam.isPerm_wedge2 m (by omega))
  intro i l h2 hl hle
  by_cases hC1 : i + 1 ≤ m ∧ m ≤ i + l
  · by_cases h1a : i + l ≤ 2 * m
    · by_cases h1 : i + 2 ≤ m
      · refine ⟨m - 2, m - 1, 2 * m, by omega, by omega, by omega, by omega, by omega, by omega, ?_, ?_⟩ <;>
          (unfold C16Fam.w2Entry; split_ifs <;> omega)
      · refine ⟨m, m - 1, 2 * m, by omega, by omega, by omega, by omega, by omega, by omega, ?_, ?_⟩ <;>
          (unfold C16Fam.w2Entry; split_ifs <;> omega)
    · refine ⟨2 * m - 1, m - 1, 0, by omega, by omega, by omega, by omega, by omega, by omega, ?_, ?_⟩ <;>
        (unfold C16Fam.w2Entry; split_ifs <;> omega)
  · by_cases hC2 : m ≤ i
    · by_cases h2a : i + 1 < 2 * m
      · refine ⟨i + 1, i, 2 * m - 2 - i, by omega, by omega, by omega, by omega, by omega, by omega, ?_, ?_⟩ <;>
          (unfold C16Fam.w2Entry; split_ifs <;> omega)
      · refine ⟨2 * m - 1, 2 * m, 0, by omega, by omega, by omega, by omega, by omega, by omega, ?_, ?_⟩ <;>
          (unfold C16Fam.w2Entry; split_ifs <;> omega)
    · refine ⟨i, i + 1, 2 * m - 2 - i, by omega, by omega, by omega, by omega, by omega, by omega, ?_, ?_⟩ <;>
        (unfold C16Fam.w2Entry; split_ifs <;> omega)

/-! ### blocks: the symmetric form of intervals -/

/-- the rectangle positions `[i, i+l)` × values `[m, m+l)` contains exactly the points of its
    columns and exactly the points of its rows -/
def IsBlock (p : NSeq) (i m l : Nat) : Prop :=
  i + l ≤ p.length ∧ m + l ≤ p.length ∧
    ∀ j, j < p.length → ((i ≤ j ∧ j < i + l) ↔ (m ≤ p.getD j 0 ∧ p.getD j 0 < m + l))

theorem isInterval_iff_block {p : NSeq} (hp : IsPerm p) (i l : Nat) (hl : 1 ≤ l) :
    IsInterval p i l ↔ ∃ m, IsBlock p i m l := by
  constructor
  · rintro ⟨hle, m, hm⟩
    refine ⟨m, hle, ?_, fun j hj => ⟨?_, ?_⟩⟩
    · obtain ⟨c, _, _, hc, hv⟩ := (mem_window p i l _).mp ((hm (m + l - 1)).mpr ⟨by omega, by omega⟩)
      have := hp.getD_lt hc
      omega
    · rintro ⟨h1, h2⟩
      exact (hm _).mp ((mem_window p i l _).mpr ⟨j, h1, h2, hj, rfl⟩)
    · intro h
      obtain ⟨c, hc1, hc2, hc3, hv⟩ := (mem_window p i l _).mp ((hm _).mpr h)
      have := hp.getD_inj hc3 hj hv
      subst this
      exact ⟨hc1, hc2⟩
  · rintro ⟨m, hle, hml, hb⟩
    refine ⟨hle, m, fun v => ⟨?_, ?_⟩⟩
    · intro hv
      obtain ⟨c, h1, h2, h3, rfl⟩ := (mem_window p i l _).mp hv
      exact (hb c h3).mp ⟨h1, h2⟩
    · intro hv
      obtain ⟨a, ha, rfl⟩ := hp.surj (show v < p.length by omega)
      have := (hb a ha).mpr hv
      exact (mem_window p i l _).mpr ⟨a, this.1, this.2, ha, rfl⟩

theorem block_reverse {p : NSeq} {i m l : Nat} (h : IsBlock (reverse p) i m l) :
    IsBlock p (p.length - i - l) m l := by
  obtain ⟨h1, h2, h3⟩ := h
  simp only [length_reverse] at h1 h2 h3
  refine ⟨by omega, h2, fun j hj => ?_⟩
  have := h3 (p.length - 1 - j) (by omega)
  rw [getD_reverse p (by omega), show p.length - 1 - (p.length - 1 - j) = j by omega] at this
  rw [← this]
  omega

theorem block_complement {p : NSeq} (hp : IsPerm p) {i m l : Nat} (h : IsBlock (complement p) i m l) :
    IsBlock p i (p.length - m - l) l := by
  obtain ⟨h1, h2, h3⟩ := h
  simp only [length_complement] at h1 h2 h3
  refine ⟨h1, by omega, fun j hj => ?_⟩
  have := h3 j hj
  rw [getD_complement p hj] at this
  have hlt := hp.getD_lt hj
  rw [this]
  omega

theorem block_inverse {p : NSeq} (hp : IsPerm p) {i m l : Nat} (h : IsBlock (inverse p) i m l) :
    IsBlock p m i l := by
  obtain ⟨h1, h2, h3⟩ := h
  simp only [length_inverse] at h1 h2 h3
  refine ⟨h2, h1, fun k hk => ?_⟩
  have := h3 (p.getD k 0) (hp.getD_lt hk)
  rw [C10L.inverse_getD_getD hp hk] at this
  exact this.symm

theorem simple_reverse {p : NSeq} (hp : IsPerm p) (hs : IsSimple p) : IsSimple (reverse p) := by
  intro i l h2 hl hint
  rw [length_reverse] at hl
  obtain ⟨m, hb⟩ := (isInterval_iff_block (isPerm_reverse hp) i l (by omega)).mp hint
  exact hs _ l h2 hl ((isInterval_iff_block hp _ l (by omega)).mpr ⟨m, block_reverse hb⟩)

theorem simple_complement {p : NSeq} (hp : IsPerm p) (hs : IsSimple p) : IsSimple (complement p) := by
  intro i l h2 hl hint
  rw [length_complement] at hl
  obtain ⟨m, hb⟩ := (isInterval_iff_block (isPerm_complement hp) i l (by omega)).mp hint
  exact hs _ l h2 hl ((isInterval_iff_block hp _ l (by omega)).mpr ⟨_, block_complement hp hb⟩)

theorem simple_inverse {p : NSeq} (hp : IsPerm p) (hs : IsSimple p) : IsSimple (inverse p) := by
  intro i l h2 hl hint
  rw [length_inverse] at hl
  obtain ⟨m, hb⟩ := (isInterval_iff_block (isPerm_inverse hp) i l (by omega)).mp hint
  exact hs _ l h2 hl ((isInterval_iff_block hp _ l (by omega)).mpr ⟨_, block_inverse hp hb⟩)

/-- simplicity is preserved by each of the eight symmetries -/
theorem simple_act {p : NSeq} (hp : IsPerm p) (hs : IsSimple p) (g : D8) : IsSimple (g.act p) := by
  rcases g with ⟨r, c, i⟩
  have hi : IsPerm (if i then inverse p else p) ∧ IsSimple (if i then inverse p else p) := by
    cases i
    · exact ⟨hp, hs⟩
    · exact ⟨isPerm_inverse hp, simple_inverse hp hs⟩
  have hc : IsPerm (if c then complement (if i then inverse p else p) else (if i then inverse p else p)) ∧
      IsSimple (if c then complement (if i then inverse p else p) else (if i then inverse p else p)) := by
    cases c
    · exact hi
    · exact ⟨isPerm_complement hi.1, simple_complement hi.1 hi.2⟩
  unfold D8.act
  cases r
  · exact hc.2
  · exact simple_reverse hc.1 hc.2

/-- … and hence equivalent to simplicity of the image -/
theorem simple_act_iff {p : NSeq} (hp : IsPerm p) (g : D8) : IsSimple (g.act p) ↔ IsSimple p := by
  constructor
  · intro h
    have := simple_act (isPerm_act hp g) h g.inv
    rwa [act_mul hp, inv_mul, act_one] at this
  · exact fun h => simple_act hp h g

/-! ### `Basis(*patts)` only keeps given patterns -/

theorem pruner_subset : ∀ (l acc : List NSeq) (x : NSeq), x ∈ Model.C16.pruner acc l → x ∈ acc ∨ x ∈ l := by
  intro l
  induction l with
  | nil => intro acc x hx; exact Or.inl hx
  | cons p ps ih =>
    intro acc x hx
    unfold Model.C16.pruner at hx
    split at hx
    · rcases ih _ x hx with h | h
      · rcases List.mem_append.mp h with h | h
        · exact Or.inl h
        · exact Or.inr (by simp only [List.mem_singleton] at h; subst h; simp)
      · exact Or.inr (List.mem_cons_of_mem _ h)
    · rcases ih _ x hx with h | h
      · exact Or.inl h
      · exact Or.inr (List.mem_cons_of_mem _ h)

/-- the normalised basis is a sublist (as a set) of the given patterns -/
theorem basisOf_subset (B : List NSeq) (x : NSeq) (hx : x ∈ Model.C16.basisOf B) : x ∈ B := by
  unfold Model.C16.basisOf at hx
  split at hx
  · cases hx
  · simp only at hx
    split at hx
    · simp only [List.mem_singleton] at hx
      cases hs : B.mergeSort permLe with
      | nil =>
        have := List.length_mergeSort (le := permLe) B
        rw [hs] at this
        have hB : B = [] := List.eq_nil_of_length_eq_zero this.symm
        simp [hB] at *
      | cons a t =>
        rw [hs] at hx
        simp only [List.headD_cons] at hx
        subst hx
        exact List.mem_mergeSort.mp (by rw [hs]; simp)
    · rcases pruner_subset _ _ x hx with h | h
      · cases h
      · exact List.mem_mergeSort.mp h

end C16Simple
