import PermutaModel.Lemmas.C02Hist

/-! C02 helpers, part 14: what the lazily evaluated iterators (`of_length`, `up_to_length`, `first`)
    yield, also when consumed in pieces with other operations in between. -/
open List Model Model.C02 Proto

namespace C02L

/-- `Av._all` cut after `fuel` levels: levels `n, n+1, …` up to the first empty one -/
def firstLevels (lv : Nat → List NSeq) : Nat → Nat → List NSeq
  | 0, _ => []
  | f+1, n => if (lv n).isEmpty then [] else lv n ++ firstLevels lv f (n + 1)

/-- everything the iterator will still yield, given the listing `lv j` of each level `j` -/
def stream (lv : Nat → List NSeq) : IterSt → List NSeq
  | .ofLen rest => rest
  | .upTo _ next maxLen cur => cur ++ (List.range' next (maxLen + 1 - next)).flatMap lv
  | .first _ remaining nextLen cur done =>
    (cur ++ if done then [] else firstLevels lv remaining nextLen).take remaining

/-- `lv` lists every level of the class of object `obj` in an order consistent with the levels
    already cached in state `s` -/
def LevelFn (s : Proc) (obj : Nat) (lv : Nat → List NSeq) : Prop :=
  ∀ o, s.objs[obj]? = some o →
    (∀ j, (lv j).Perm (specLevel o.basis j)) ∧ ∀ j, j < o.cache.length → lv j = (o.cache.getD j []).keys

def LevelOK (s : Proc) (lv : Nat → List NSeq) : IterSt → Prop
  | .ofLen _ => True
  | .upTo obj _ _ _ => LevelFn s obj lv
  | .first obj _ _ _ _ => LevelFn s obj lv

theorem LevelFn.pull {s s' : Proc} (he : ProcExt s s') {obj : Nat} {lv : Nat → List NSeq}
    (h : LevelFn s' obj lv) : LevelFn s obj lv := by
  intro o ho
  obtain ⟨o', ho', hext⟩ := he.objs obj o ho
  obtain ⟨h1, h2⟩ := h o' ho'
  refine ⟨fun j => by rw [← hext.basis]; exact h1 j, fun j hj => ?_⟩
  rw [h2 j (Nat.lt_of_lt_of_le hj hext.len), hext.keys j hj]

theorem LevelOK.pull {s s' : Proc} (he : ProcExt s s') {lv : Nat → List NSeq} {it : IterSt}
    (h : LevelOK s' lv it) : LevelOK s lv it := by
  cases it with
  | ofLen _ => trivial
  | upTo => exact LevelFn.pull he h
  | first => exact LevelFn.pull he h

/-- a level fetched by id is the listing `lv` chose, for every `lv` consistent with the state after -/
theorem levelById_lv {s : Proc} (h : ProcInv s) {obj n : Nat} {s1 : Proc} {ks : List NSeq}
    (hr : s.levelById obj n = .ok (s1, ks)) {lv : Nat → List NSeq} (hlv : LevelFn s1 obj lv) :
    ks = lv n ∧ ProcInv s1 ∧ ProcExt s s1 := by
  cases ho : s.objs[obj]? with
  | none => rw [levelById_none ho] at hr; simp at hr
  | some o =>
    obtain ⟨o', h1, hext, hn⟩ := getLevel_eq o (h.obj ho) n
    simp only [Proc.levelById, ho, h1, Except.ok.injEq, Prod.mk.injEq] at hr
    obtain ⟨rfl, rfl⟩ := hr
    obtain ⟨hi, he⟩ := setObj_spec h ho hext
    have hid : obj < s.objs.length := (List.getElem?_eq_some_iff.mp ho).1
    have : (s.setObj obj o').objs[obj]? = some o' := by simp [Proc.setObj, hid]
    exact ⟨((hlv o' this).2 n hn).symm, hi, he⟩

theorem take_append_congr {α} (L A B : List α) (r : Nat)
    (h : A.take (r - L.length) = B.take (r - L.length)) : (L ++ A).take r = (L ++ B).take r := by
  rw [List.take_append, List.take_append, h]

/-- more fuel than items requested makes no difference -/
theorem firstLevels_take (lv : Nat → List NSeq) : ∀ (f g n r : Nat), r ≤ f → r ≤ g →
    (firstLevels lv f n).take r = (firstLevels lv g n).take r
  | 0, g, n, r, hf, _ => by
    have : r = 0 := by omega
    subst this; simp
  | f+1, 0, n, r, _, hg => by
    have : r = 0 := by omega
    subst this; simp
  | f+1, g+1, n, r, hf, hg => by
    simp only [firstLevels]
    cases hl : lv n with
    | nil => simp
    | cons a t =>
      simp only [List.isEmpty_cons, Bool.false_eq_true, if_false]
      apply take_append_congr
      apply firstLevels_take lv f g (n + 1)
      · simp only [List.length_cons]; omega
      · simp only [List.length_cons]; omega

/-- the inner loop of the `up_to_length` generator -/
theorem upToFetch_stream (obj maxLen : Nat) (lv : Nat → List NSeq) : ∀ (fuel : Nat) (s : Proc) (next : Nat),
    ProcInv s → next + fuel = maxLen + 1 →
    ∀ {s' : Proc} {it' : IterSt} {r : Option NSeq},
    Proc.iterNext.upToFetch s obj next maxLen fuel = .ok (s', it', r) → LevelOK s' lv it' →
    (List.range' next fuel).flatMap lv = r.toList ++ stream lv it' ∧
      (r = none → stream lv it' = []) ∧ ∃ n' m' c', it' = .upTo obj n' m' c'
  | 0, s, next, h, hf, s', it', r, hr, _ => by
    simp only [Proc.iterNext.upToFetch, Except.ok.injEq, Prod.mk.injEq] at hr
    obtain ⟨_, rfl, rfl⟩ := hr
    have : maxLen + 1 - next = 0 := by omega
    simp [stream, this]
  | fuel+1, s, next, h, hf, s', it', r, hr, hok => by
    cases h1 : s.levelById obj next with
    | error e => simp [Proc.iterNext.upToFetch, h1] at hr
    | ok v =>
      obtain ⟨s1, ks⟩ := v
      cases ks with
      | nil =>
        simp only [Proc.iterNext.upToFetch, h1] at hr
        have hi1 : ProcInv s1 := by
          cases ho : s.objs[obj]? with
          | none => rw [levelById_none ho] at h1; simp at h1
          | some o =>
            obtain ⟨s1', ks', h1', hi, _, _⟩ := levelById_spec h ho next
            rw [h1] at h1'; simp only [Except.ok.injEq, Prod.mk.injEq] at h1'
            rw [h1'.1]; exact hi
        obtain ⟨hst, hnone, n', m', c', hit⟩ :=
          upToFetch_stream obj maxLen lv fuel s1 (next + 1) hi1 (by omega) hr hok
        obtain ⟨he2⟩ : Nonempty (ProcExt s1 s') := ⟨(upToFetch_inv obj maxLen fuel s1 (next+1) hi1 hr).2⟩
        have hlv1 : LevelFn s1 obj lv := by
          subst hit; exact LevelFn.pull he2 hok
        have hks := (levelById_lv h h1 hlv1).1
        refine ⟨?_, hnone, n', m', c', hit⟩
        rw [List.range'_succ, List.flatMap_cons, ← hks, List.nil_append]
        exact hst
      | cons p rest =>
        simp only [Proc.iterNext.upToFetch, h1, Except.ok.injEq, Prod.mk.injEq] at hr
        obtain ⟨rfl, rfl, rfl⟩ := hr
        have hks := (levelById_lv h h1 hok).1
        refine ⟨?_, by simp, _, _, _, rfl⟩
        rw [List.range'_succ, List.flatMap_cons, ← hks]
        have : maxLen + 1 - (next + 1) = fuel := by omega
        simp [stream, this]

/-- one `next(it)`: the stream of `it` is the yielded item followed by the stream of the new
    iterator state (and is empty on exhaustion); `lv` may be any listing consistent with the state
    *after* the call -/
theorem iterNext_stream {s : Proc} (h : ProcInv s) (it : IterSt) {s' : Proc} {it' : IterSt} {r : Option NSeq}
    (hr : s.iterNext it = .ok (s', it', r)) (lv : Nat → List NSeq) (hok : LevelOK s' lv it') :
    stream lv it = r.toList ++ stream lv it' ∧ (r = none → stream lv it' = []) := by
  unfold Proc.iterNext at hr
  split at hr
  · simp only [Except.ok.injEq, Prod.mk.injEq] at hr
    obtain ⟨_, rfl, rfl⟩ := hr; simp [stream]
  · simp only [Except.ok.injEq, Prod.mk.injEq] at hr
    obtain ⟨_, rfl, rfl⟩ := hr; simp [stream]
  · simp only [Except.ok.injEq, Prod.mk.injEq] at hr
    obtain ⟨_, rfl, rfl⟩ := hr; simp [stream]
  · rename_i obj next maxLen
    by_cases hle : next ≤ maxLen + 1
    · obtain ⟨h1, h2, _⟩ := upToFetch_stream obj maxLen lv (maxLen + 1 - next) s next h (by omega) hr hok
      exact ⟨by simpa [stream] using h1, h2⟩
    · have h0 : maxLen + 1 - next = 0 := by omega
      rw [h0] at hr
      simp only [Proc.iterNext.upToFetch, Except.ok.injEq, Prod.mk.injEq] at hr
      obtain ⟨_, rfl, rfl⟩ := hr
      simp [stream, h0]
  · simp only [Except.ok.injEq, Prod.mk.injEq] at hr
    obtain ⟨_, rfl, rfl⟩ := hr; simp [stream]
  · rename_i obj r0 nextLen p rest done
    simp only [Except.ok.injEq, Prod.mk.injEq] at hr
    obtain ⟨_, rfl, rfl⟩ := hr
    refine ⟨?_, by simp⟩
    simp only [stream, Option.toList_some, List.cons_append, List.take_succ_cons,
      List.cons.injEq, true_and]
    apply take_append_congr
    cases done with
    | true => simp
    | false =>
      simp only [Bool.false_eq_true, if_false]
      exact firstLevels_take lv (r0 + 1) r0 nextLen _ (by omega) (by omega)
  · simp only [Except.ok.injEq, Prod.mk.injEq] at hr
    obtain ⟨_, rfl, rfl⟩ := hr; simp [stream]
  · rename_i obj r0 nextLen
    cases h1 : s.levelById obj nextLen with
    | error e => simp [h1] at hr
    | ok v =>
      obtain ⟨s1, ks⟩ := v
      cases ks with
      | nil =>
        simp only [h1, Except.ok.injEq, Prod.mk.injEq] at hr
        obtain ⟨rfl, rfl, rfl⟩ := hr
        have hks := (levelById_lv h h1 hok).1
        simp [stream, firstLevels, ← hks]
      | cons p rest =>
        simp only [h1, Except.ok.injEq, Prod.mk.injEq] at hr
        obtain ⟨rfl, rfl, rfl⟩ := hr
        have hks := (levelById_lv h h1 hok).1
        refine ⟨?_, by simp⟩
        simp [stream, firstLevels, ← hks]

/-- the object an iterator reads from -/
def objOf : IterSt → Option Nat
  | .ofLen _ => none
  | .upTo obj _ _ _ => some obj
  | .first obj _ _ _ _ => some obj

theorem LevelOK_congr {s : Proc} {lv : Nat → List NSeq} {it it' : IterSt} (h : objOf it = objOf it') :
    LevelOK s lv it ↔ LevelOK s lv it' := by
  cases it <;> cases it' <;> simp_all [objOf, LevelOK]

theorem upToFetch_objOf (obj maxLen : Nat) : ∀ (fuel : Nat) (s : Proc) (next : Nat)
    {s' : Proc} {it' : IterSt} {r : Option NSeq},
    Proc.iterNext.upToFetch s obj next maxLen fuel = .ok (s', it', r) → objOf it' = some obj
  | 0, s, next, s', it', r, hr => by
    simp only [Proc.iterNext.upToFetch, Except.ok.injEq, Prod.mk.injEq] at hr
    obtain ⟨_, rfl, _⟩ := hr; rfl
  | fuel+1, s, next, s', it', r, hr => by
    cases h1 : s.levelById obj next with
    | error e => simp [Proc.iterNext.upToFetch, h1] at hr
    | ok v =>
      obtain ⟨s1, ks⟩ := v
      cases ks with
      | nil =>
        simp only [Proc.iterNext.upToFetch, h1] at hr
        exact upToFetch_objOf obj maxLen fuel s1 (next + 1) hr
      | cons p rest =>
        simp only [Proc.iterNext.upToFetch, h1, Except.ok.injEq, Prod.mk.injEq] at hr
        obtain ⟨_, rfl, _⟩ := hr; rfl

theorem iterNext_objOf {s : Proc} (it : IterSt) {s' : Proc} {it' : IterSt} {r : Option NSeq}
    (hr : s.iterNext it = .ok (s', it', r)) : objOf it' = objOf it := by
  unfold Proc.iterNext at hr
  split at hr
  all_goals try (simp only [Except.ok.injEq, Prod.mk.injEq] at hr; obtain ⟨_, rfl, _⟩ := hr; rfl)
  · exact upToFetch_objOf _ _ _ _ _ hr
  · rename_i obj r0 nextLen
    cases h1 : s.levelById obj nextLen with
    | error e => simp [h1] at hr
    | ok v =>
      obtain ⟨s1, ks⟩ := v
      cases ks with
      | nil => simp only [h1, Except.ok.injEq, Prod.mk.injEq] at hr; obtain ⟨_, rfl, _⟩ := hr; rfl
      | cons p rest => simp only [h1, Except.ok.injEq, Prod.mk.injEq] at hr; obtain ⟨_, rfl, _⟩ := hr; rfl

/-- **iterators, consumed in pieces**: taking `k` items from the iterator state `it` yields a prefix
    `items` of its stream, leaves an iterator whose stream is the rest, and stops early only when
    the stream is exhausted; `lv` may be any listing consistent with the state after the call -/
theorem iterTake_stream : ∀ (k : Nat) {s : Proc}, ProcInv s → ∀ (it : IterSt) {s' : Proc} {it' : IterSt}
    {items : List NSeq}, s.iterTake it k = .ok (s', it', items) →
    ∀ (lv : Nat → List NSeq), LevelOK s' lv it' →
    stream lv it = items ++ stream lv it' ∧ items.length ≤ k ∧ (items.length < k → stream lv it' = []) ∧
      objOf it' = objOf it
  | 0, s, h, it, s', it', items, hr, lv, _ => by
    simp only [Proc.iterTake, Except.ok.injEq, Prod.mk.injEq] at hr
    obtain ⟨_, rfl, rfl⟩ := hr
    simp
  | k+1, s, h, it, s', it', items, hr, lv, hok => by
    simp only [Proc.iterTake] at hr
    cases h1 : s.iterNext it with
    | error e => simp [h1] at hr
    | ok v =>
      obtain ⟨s1, it1, r⟩ := v
      obtain ⟨hi1, he1⟩ := iterNext_inv h it h1
      have ho1 := iterNext_objOf it h1
      cases r with
      | none =>
        simp only [h1, Except.ok.injEq, Prod.mk.injEq] at hr
        obtain ⟨rfl, rfl, rfl⟩ := hr
        obtain ⟨e1, e2⟩ := iterNext_stream h it h1 lv hok
        exact ⟨by simpa using e1, by simp, fun _ => e2 rfl, ho1⟩
      | some p =>
        simp only [h1] at hr
        cases h2 : s1.iterTake it1 k with
        | error e => simp [h2] at hr
        | ok v2 =>
          obtain ⟨s2, it2, ps⟩ := v2
          simp only [h2, Except.ok.injEq, Prod.mk.injEq] at hr
          obtain ⟨rfl, rfl, rfl⟩ := hr
          obtain ⟨e1, e2, e3, e4⟩ := iterTake_stream k hi1 it1 h2 lv hok
          have he2 := (iterTake_inv k hi1 it1 h2).2
          have hok1 : LevelOK s1 lv it1 := LevelOK.pull he2 ((LevelOK_congr e4).mp hok)
          obtain ⟨f1, _⟩ := iterNext_stream h it h1 lv hok1
          refine ⟨by rw [f1, e1]; simp, by simp; omega, fun hl => e3 (by simp at hl; omega), e4.trans ho1⟩

/-- the items taken are the first `k` of the stream -/
theorem iterTake_take {k : Nat} {s : Proc} (h : ProcInv s) (it : IterSt) {s' : Proc} {it' : IterSt}
    {items : List NSeq} (hr : s.iterTake it k = .ok (s', it', items)) (lv : Nat → List NSeq)
    (hok : LevelOK s' lv it') : items = (stream lv it).take k := by
  obtain ⟨e1, e2, e3, _⟩ := iterTake_stream k h it hr lv hok
  rw [e1]
  by_cases hl : items.length < k
  · rw [e3 hl, List.append_nil, List.take_of_length_le (by omega)]
  · have : items.length = k := by omega
    rw [List.take_append, ← this]; simp

/-- a listing consistent with a given state always exists -/
theorem exists_levelFn {s : Proc} (h : ProcInv s) (obj : Nat) : ∃ lv, LevelFn s obj lv := by
  cases ho : s.objs[obj]? with
  | none => exact ⟨fun _ => [], fun o ho' => by rw [ho] at ho'; simp at ho'⟩
  | some o =>
    refine ⟨fun j => if j < o.cache.length then (o.cache.getD j []).keys else specLevel o.basis j, ?_⟩
    intro o' ho'
    rw [ho] at ho'
    simp only [Option.some.injEq] at ho'
    subst ho'
    refine ⟨fun j => ?_, fun j hj => by simp [hj]⟩
    by_cases hj : j < o.cache.length
    · simp only [hj, if_true]; exact (h.obj ho).keys hj
    · simp only [hj, if_false]; exact List.Perm.refl _

/-! ### iterators never fail on an existing object -/

theorem upToFetch_ok (obj maxLen : Nat) : ∀ (fuel : Nat) (s : Proc) (next : Nat), ProcInv s →
    obj < s.objs.length → ∃ v, Proc.iterNext.upToFetch s obj next maxLen fuel = .ok v
  | 0, s, next, _, _ => ⟨_, rfl⟩
  | fuel+1, s, next, h, hlt => by
    have ho : s.objs[obj]? = some s.objs[obj] := List.getElem?_eq_getElem hlt
    obtain ⟨s1, ks, h1, hi1, he1, _⟩ := levelById_spec h ho next
    cases ks with
    | nil =>
      obtain ⟨v, hv⟩ := upToFetch_ok obj maxLen fuel s1 (next + 1) hi1 (by rw [he1.len]; exact hlt)
      exact ⟨v, by simp only [Proc.iterNext.upToFetch, h1, hv]⟩
    | cons p rest => exact ⟨(s1, .upTo obj (next + 1) maxLen rest, some p), by simp only [Proc.iterNext.upToFetch, h1]⟩

theorem iterNext_ok {s : Proc} (h : ProcInv s) (it : IterSt)
    (hobj : ∀ obj, objOf it = some obj → obj < s.objs.length) : ∃ v, s.iterNext it = .ok v := by
  unfold Proc.iterNext
  split
  all_goals try exact ⟨_, rfl⟩
  · exact upToFetch_ok _ _ _ _ _ h (hobj _ rfl)
  · rename_i obj r0 nextLen
    have hlt := hobj obj rfl
    have ho : s.objs[obj]? = some s.objs[obj] := List.getElem?_eq_getElem hlt
    obtain ⟨s1, ks, h1, _, _, _⟩ := levelById_spec h ho nextLen
    cases ks with
    | nil => exact ⟨(s1, .first obj (r0 + 1) nextLen [] true, none), by simp only [h1]⟩
    | cons p rest => exact ⟨(s1, .first obj r0 (nextLen + 1) rest false, some p), by simp only [h1]⟩

theorem iterTake_ok : ∀ (k : Nat) {s : Proc}, ProcInv s → ∀ (it : IterSt),
    (∀ obj, objOf it = some obj → obj < s.objs.length) → ∃ v, s.iterTake it k = .ok v
  | 0, s, _, it, _ => ⟨_, rfl⟩
  | k+1, s, h, it, hobj => by
    obtain ⟨⟨s1, it1, r⟩, h1⟩ := iterNext_ok h it hobj
    obtain ⟨hi1, he1⟩ := iterNext_inv h it h1
    cases r with
    | none => exact ⟨(s1, it1, []), by simp only [Proc.iterTake, h1]⟩
    | some p =>
      obtain ⟨⟨s2, it2, ps⟩, h2⟩ := iterTake_ok k hi1 it1 (fun obj ho => by
        rw [iterNext_objOf it h1] at ho; rw [he1.len]; exact hobj obj ho)
      exact ⟨(s2, it2, p :: ps), by simp only [Proc.iterTake, h1, h2]⟩

theorem iterTake_objOf : ∀ (k : Nat) {s : Proc} (it : IterSt) {s' : Proc} {it' : IterSt}
    {items : List NSeq}, s.iterTake it k = .ok (s', it', items) → objOf it' = objOf it
  | 0, s, it, s', it', items, hr => by
    simp only [Proc.iterTake, Except.ok.injEq, Prod.mk.injEq] at hr
    obtain ⟨_, rfl, _⟩ := hr; rfl
  | k+1, s, it, s', it', items, hr => by
    simp only [Proc.iterTake] at hr
    cases h1 : s.iterNext it with
    | error e => simp [h1] at hr
    | ok v =>
      obtain ⟨s1, it1, r⟩ := v
      have ho1 := iterNext_objOf it h1
      cases r with
      | none =>
        simp only [h1, Except.ok.injEq, Prod.mk.injEq] at hr
        obtain ⟨_, rfl, _⟩ := hr; exact ho1
      | some p =>
        simp only [h1] at hr
        cases h2 : s1.iterTake it1 k with
        | error e => simp [h2] at hr
        | ok v2 =>
          obtain ⟨s2, it2, ps⟩ := v2
          simp only [h2, Except.ok.injEq, Prod.mk.injEq] at hr
          obtain ⟨_, rfl, _⟩ := hr
          exact (iterTake_objOf k it1 h2).trans ho1

/-- an iterator over an existing class, started in any state satisfying the invariant: taking `k`
    items succeeds and yields the first `k` items of its stream for a listing `lv` of the levels
    (each `lv j` a permutation of the spec level `j`) -/
theorem iterTake_obj_correct {s : Proc} (h : ProcInv s) {id : Nat} {o : AvObj} (ho : s.objs[id]? = some o)
    (it : IterSt) (hit : objOf it = some id) (k : Nat) :
    ∃ s' it' items lv, s.iterTake it k = .ok (s', it', items) ∧ ProcInv s' ∧ ProcExt s s' ∧
      (∀ j, (lv j).Perm (specLevel o.basis j)) ∧ items = (stream lv it).take k := by
  have hlt : id < s.objs.length := (List.getElem?_eq_some_iff.mp ho).1
  obtain ⟨⟨s', it', items⟩, hr⟩ := iterTake_ok k h it (fun obj hobj => by
    rw [hit] at hobj; simp only [Option.some.injEq] at hobj; rw [← hobj]; exact hlt)
  obtain ⟨hi', he⟩ := iterTake_inv k h it hr
  obtain ⟨lv, hlv⟩ := exists_levelFn hi' id
  obtain ⟨o', ho', hext⟩ := he.objs id o ho
  have hobj' : objOf it' = some id := (iterTake_objOf k it hr).trans hit
  have hok : LevelOK s' lv it' := by
    cases it' with
    | ofLen _ => trivial
    | upTo obj _ _ _ =>
      simp only [objOf, Option.some.injEq] at hobj'; subst hobj'; exact hlv
    | first obj _ _ _ _ =>
      simp only [objOf, Option.some.injEq] at hobj'; subst hobj'; exact hlv
  refine ⟨s', it', items, lv, hr, hi', he, fun j => ?_, iterTake_take h it hr lv hok⟩
  rw [← hext.basis]; exact (hlv o' ho').1 j

end C02L
