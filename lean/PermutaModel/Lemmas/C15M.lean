import PermutaModel.Spec.C15
/-! the generated table of `make_dfa_for_m` accepts exactly `M` -/
namespace C15M
open Model.C15 Spec.C15

/-- acceptance from an arbitrary state of the generated table -/
def accFrom (q : Nat) (w : Word) : Bool :=
  match tblRun Generated.c15_dfaM_trans (some q) w with
  | some r => Generated.c15_dfaM_finals.contains r
  | none => false

/-- recursive reading of `M`: `last` is the axis of the previous letter -/
def goodFrom : Option Bool → Word → Bool
  | _, [] => true
  | last, c :: w => DIRS.contains c && (last != some (vertical c)) && goodFrom (some (vertical c)) w

theorem mem_DIRS (c : Char) : c ∈ DIRS ↔ c = 'U' ∨ c = 'L' ∨ c = 'D' ∨ c = 'R' := by
  simp [DIRS, Generated.c15_DIRS]

theorem tblRun_none (w : Word) : tblRun Generated.c15_dfaM_trans none w = none := by
  cases w <;> rfl

theorem lookup_other (c : Char) (hU : c ≠ 'U') (hL : c ≠ 'L') (hD : c ≠ 'D') (hR : c ≠ 'R') (a b d e : Nat) :
    List.lookup c [('U', a), ('D', b), ('L', d), ('R', e)] = none := by
  have h1 : (c == 'U') = false := by simp [hU]
  have h2 : (c == 'D') = false := by simp [hD]
  have h3 : (c == 'L') = false := by simp [hL]
  have h4 : (c == 'R') = false := by simp [hR]
  simp [List.lookup, h1, h2, h3, h4]

theorem accFrom_cons (q : Nat) (c : Char) (w : Word) :
    accFrom q (c :: w) = match tblStep Generated.c15_dfaM_trans q c with
      | some r => accFrom r w
      | none => false := by
  unfold accFrom
  cases h : tblStep Generated.c15_dfaM_trans q c <;> simp [tblRun, h, tblRun_none]

theorem step_other (q : Nat) (hq : q < 4) (c : Char) (hU : c ≠ 'U') (hL : c ≠ 'L') (hD : c ≠ 'D') (hR : c ≠ 'R') :
    tblStep Generated.c15_dfaM_trans q c = none := by
  have : q = 0 ∨ q = 1 ∨ q = 2 ∨ q = 3 := by omega
  have h1 : (c == 'U') = false := by simp [hU]
  have h2 : (c == 'D') = false := by simp [hD]
  have h3 : (c == 'L') = false := by simp [hL]
  have h4 : (c == 'R') = false := by simp [hR]
  rcases this with h | h | h | h <;> subst h <;>
    simp [tblStep, Generated.c15_dfaM_trans, List.lookup, h1, h2, h3, h4]

/-- the transition table, entry by entry (kernel evaluation of the generated constant) -/
theorem step_table :
    (∀ c, c ∈ ['U', 'D'] → tblStep Generated.c15_dfaM_trans 0 c = some 1) ∧
    (∀ c, c ∈ ['L', 'R'] → tblStep Generated.c15_dfaM_trans 0 c = some 2) ∧
    (∀ c, c ∈ ['U', 'D'] → tblStep Generated.c15_dfaM_trans 1 c = some 3) ∧
    (∀ c, c ∈ ['L', 'R'] → tblStep Generated.c15_dfaM_trans 1 c = some 2) ∧
    (∀ c, c ∈ ['U', 'D'] → tblStep Generated.c15_dfaM_trans 2 c = some 1) ∧
    (∀ c, c ∈ ['L', 'R'] → tblStep Generated.c15_dfaM_trans 2 c = some 3) ∧
    (∀ c, c ∈ ['U', 'D', 'L', 'R'] → tblStep Generated.c15_dfaM_trans 3 c = some 3) := by
  decide

theorem accFrom_dead (w : Word) : accFrom 3 w = false := by
  induction w with
  | nil => decide
  | cons c w ih =>
    rw [accFrom_cons]
    by_cases hc : c ∈ ['U', 'D', 'L', 'R']
    · rw [step_table.2.2.2.2.2.2 c hc]; exact ih
    · simp at hc
      rw [step_other 3 (by omega) c hc.1 hc.2.2.1 hc.2.1 hc.2.2.2]

/-- state `0` = nothing read, `1` = last letter vertical, `2` = last letter horizontal -/
def axisOf : Nat → Option Bool
  | 0 => none
  | 1 => some true
  | _ => some false

theorem accFrom_eq_goodFrom (w : Word) : ∀ q, q < 3 → accFrom q w = goodFrom (axisOf q) w := by
  induction w with
  | nil =>
    intro q hq
    have : q = 0 ∨ q = 1 ∨ q = 2 := by omega
    rcases this with h | h | h <;> subst h <;> decide
  | cons c w ih =>
    intro q hq
    have hq' : q = 0 ∨ q = 1 ∨ q = 2 := by omega
    have e1 := ih 1 (by omega)
    have e2 := ih 2 (by omega)
    have e3 := accFrom_dead w
    obtain ⟨t0v, t0h, t1v, t1h, t2v, t2h, _⟩ := step_table
    rw [accFrom_cons]
    by_cases hv : c ∈ ['U', 'D']
    · have hvert : vertical c = true := by
        simp at hv; rcases hv with rfl | rfl <;> decide
      have hd : c ∈ DIRS := by
        simp at hv; rcases hv with rfl | rfl <;> decide
      rcases hq' with h | h | h <;> subst h
      · rw [t0v c hv]; simp [goodFrom, hd, hvert, axisOf, e1]
      · rw [t1v c hv]; simp [goodFrom, hd, hvert, axisOf, e3]
      · rw [t2v c hv]; simp [goodFrom, hd, hvert, axisOf, e1]
    by_cases hh : c ∈ ['L', 'R']
    · have hvert : vertical c = false := by
        simp at hh; rcases hh with rfl | rfl <;> decide
      have hd : c ∈ DIRS := by
        simp at hh; rcases hh with rfl | rfl <;> decide
      rcases hq' with h | h | h <;> subst h
      · rw [t0h c hh]; simp [goodFrom, hd, hvert, axisOf, e2]
      · rw [t1h c hh]; simp [goodFrom, hd, hvert, axisOf, e2]
      · rw [t2h c hh]; simp [goodFrom, hd, hvert, axisOf, e3]
    · simp at hv hh
      have hs := step_other q (by omega) c hv.1 hh.1 hv.2 hh.2
      have hm : c ∉ DIRS := by
        simp [DIRS, Generated.c15_DIRS, hv.1, hv.2, hh.1, hh.2]
      rw [hs]; simp [goodFrom, hm]

theorem alternating_cons_cons (a b : Char) (t : Word) :
    Alternating (a :: b :: t) ↔ vertical a ≠ vertical b ∧ Alternating (b :: t) := by
  constructor
  · intro h
    refine ⟨h [] a b t rfl, ?_⟩
    intro u x y v e
    exact h (a :: u) x y v (by simp [e])
  · rintro ⟨h1, h2⟩ u x y v e
    cases u with
    | nil => simp at e; obtain ⟨rfl, rfl, _⟩ := e; exact h1
    | cons z u => simp at e; exact h2 u x y v e.2

theorem alternating_short (w : Word) (h : w.length ≤ 1) : Alternating w := by
  intro u a b v e
  have := congrArg List.length e
  simp at this; omega

theorem goodFrom_iff (w : Word) : ∀ last, goodFrom last w = true ↔
    AStar w ∧ Alternating w ∧ ∀ c t, w = c :: t → last ≠ some (vertical c) := by
  induction w with
  | nil =>
    intro last
    simp [goodFrom, AStar, alternating_short]
  | cons c w ih =>
    intro last
    simp only [goodFrom, Bool.and_eq_true, ih]
    constructor
    · rintro ⟨⟨hc, hl⟩, hA, hAlt, hhead⟩
      refine ⟨?_, ?_, ?_⟩
      · intro x hx
        rcases List.mem_cons.mp hx with rfl | hx
        · simpa using hc
        · exact hA x hx
      · cases w with
        | nil => exact alternating_short _ (by simp)
        | cons b t =>
          rw [alternating_cons_cons]
          refine ⟨?_, hAlt⟩
          have := hhead b t rfl
          intro e; apply this; simp [e]
      · intro c' t' e
        simp at e; obtain ⟨rfl, rfl⟩ := e
        simpa using hl
    · rintro ⟨hA, hAlt, hhead⟩
      refine ⟨⟨?_, ?_⟩, ?_, ?_, ?_⟩
      · simpa using hA c (by simp)
      · simpa using hhead c w rfl
      · intro x hx; exact hA x (by simp [hx])
      · cases w with
        | nil => exact alternating_short _ (by simp)
        | cons b t => exact ((alternating_cons_cons c b t).mp hAlt).2
      · intro b t e
        subst e
        have := ((alternating_cons_cons c b t).mp hAlt).1
        intro e; apply this; exact Option.some.inj e

end C15M
