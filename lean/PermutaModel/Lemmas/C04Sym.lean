import PermutaModel.Lemmas.PermBasic
import PermutaModel.Model.C04
/-! C04 helper lemmas: pointwise (`getD`) descriptions of the symmetries, `IsPerm` preservation and
    the generator relations of the dihedral group. -/
open Model

namespace C04L

theorem getD_of_lt (l : NSeq) {i : Nat} (h : i < l.length) : l.getD i 0 = l[i] := by
  simp [List.getD_eq_getElem?_getD, List.getElem?_eq_getElem h]

theorem ext_getD {a b : NSeq} (hl : a.length = b.length)
    (h : ∀ i, i < a.length → a.getD i 0 = b.getD i 0) : a = b := by
  apply List.ext_getElem hl
  intro i h1 h2
  have := h i h1
  rwa [getD_of_lt a h1, getD_of_lt b h2] at this

theorem getD_map_range (f : Nat → Nat) {n i : Nat} (h : i < n) :
    ((List.range n).map f).getD i 0 = f i := by
  rw [getD_of_lt _ (by simpa using h)]; simp

/-! ### lengths -/
@[simp] theorem length_inverse (p : NSeq) : (inverse p).length = p.length := by simp [inverse]
@[simp] theorem length_reverse (p : NSeq) : (reverse p).length = p.length := by simp [reverse]
@[simp] theorem length_complement (p : NSeq) : (complement p).length = p.length := by simp [complement]
@[simp] theorem length_reverseComplement (p : NSeq) : (reverseComplement p).length = p.length := by
  simp [reverseComplement]
@[simp] theorem length_rotate1 (p : NSeq) : (rotate1 p).length = p.length := by simp [rotate1]
@[simp] theorem length_rotate3 (p : NSeq) : (rotate3 p).length = p.length := by simp [rotate3]
@[simp] theorem length_flipAntidiagonal (p : NSeq) : (flipAntidiagonal p).length = p.length := by
  simp [flipAntidiagonal]
@[simp] theorem length_rotate (p : NSeq) (t : Int) : (rotate p t).length = p.length := by
  unfold rotate; split_ifs <;> simp

/-! ### pointwise descriptions -/
theorem getD_inverse (p : NSeq) {v : Nat} (h : v < p.length) : (inverse p).getD v 0 = p.idxOf v := by
  unfold inverse; exact getD_map_range _ h

theorem getD_reverse (p : NSeq) {i : Nat} (h : i < p.length) :
    (reverse p).getD i 0 = p.getD (p.length - 1 - i) 0 := by
  unfold reverse
  rw [getD_of_lt _ (by simpa using h), getD_of_lt _ (by omega), List.getElem_reverse]

theorem getD_complement (p : NSeq) {i : Nat} (h : i < p.length) :
    (complement p).getD i 0 = p.length - 1 - p.getD i 0 := by
  unfold complement
  rw [getD_of_lt _ (by simpa using h), getD_of_lt _ h]; simp

/-! ### `idxOf` on permutations -/
theorem _root_.IsPerm.mem {p : NSeq} (hp : IsPerm p) {v : Nat} (hv : v < p.length) : v ∈ p := by
  obtain ⟨a, ha, rfl⟩ := hp.surj hv
  rw [getD_of_lt p ha]; exact List.getElem_mem ha

theorem _root_.IsPerm.idxOf_lt {p : NSeq} (hp : IsPerm p) {v : Nat} (hv : v < p.length) : p.idxOf v < p.length :=
  List.idxOf_lt_length_of_mem (hp.mem hv)

theorem _root_.IsPerm.getD_idxOf {p : NSeq} (hp : IsPerm p) {v : Nat} (hv : v < p.length) :
    p.getD (p.idxOf v) 0 = v := by
  have := hp.idxOf_lt hv
  rw [getD_of_lt p this]; exact List.getElem_idxOf this

theorem _root_.IsPerm.idxOf_getD {p : NSeq} (hp : IsPerm p) {i : Nat} (hi : i < p.length) :
    p.idxOf (p.getD i 0) = i := by
  rw [getD_of_lt p hi]; exact List.Nodup.idxOf_getElem hp.1 i hi

theorem _root_.IsPerm.idxOf_inj {p : NSeq} (hp : IsPerm p) {v w : Nat} (hv : v < p.length) (hw : w < p.length)
    (h : p.idxOf v = p.idxOf w) : v = w := by
  rw [← hp.getD_idxOf hv, ← hp.getD_idxOf hw, h]

/-! ### `IsPerm` is preserved -/
theorem isPerm_reverse {p : NSeq} (hp : IsPerm p) : IsPerm (reverse p) := by
  refine ⟨by simpa [reverse] using hp.1, ?_⟩
  intro x hx
  simp only [reverse, List.mem_reverse] at hx
  simpa using hp.2 x hx

theorem isPerm_complement {p : NSeq} (hp : IsPerm p) : IsPerm (complement p) := by
  refine ⟨?_, ?_⟩
  · unfold complement
    refine List.Nodup.map_on ?_ hp.1
    intro x hx y hy hxy
    have := hp.2 x hx; have := hp.2 y hy; omega
  · intro x hx
    simp only [complement, List.mem_map] at hx
    obtain ⟨v, hv, rfl⟩ := hx
    have := hp.2 v hv
    simp only [length_complement]; omega

theorem isPerm_inverse {p : NSeq} (hp : IsPerm p) : IsPerm (inverse p) := by
  refine ⟨?_, ?_⟩
  · unfold inverse
    refine List.Nodup.map_on ?_ List.nodup_range
    intro x hx y hy hxy
    exact hp.idxOf_inj (List.mem_range.mp hx) (List.mem_range.mp hy) hxy
  · intro x hx
    simp only [inverse, List.mem_map, List.mem_range] at hx
    obtain ⟨v, hv, rfl⟩ := hx
    simpa using hp.idxOf_lt hv

/-! ### identities valid for every tuple -/
theorem reverse_reverse (p : NSeq) : reverse (reverse p) = p := by simp [reverse]

theorem reverseComplement_eq_complement_reverse (p : NSeq) :
    reverseComplement p = complement (reverse p) := by
  simp [reverseComplement, complement, reverse]

theorem reverseComplement_eq_reverse_complement (p : NSeq) :
    reverseComplement p = reverse (complement p) := by
  simp [reverseComplement, complement, reverse, List.map_reverse]

theorem complement_reverse (p : NSeq) : complement (reverse p) = reverse (complement p) := by
  rw [← reverseComplement_eq_complement_reverse, reverseComplement_eq_reverse_complement]

theorem rotate1_eq (p : NSeq) : rotate1 p = complement (inverse p) := by
  simp [rotate1, complement, inverse, List.map_map, Function.comp_def]

theorem reverse_range_map (n : Nat) (f : Nat → Nat) :
    ((List.range n).map f).reverse = (List.range n).map fun j => f (n - 1 - j) := by
  apply ext_getD (by simp)
  intro i hi
  have hi' : i < n := by simpa using hi
  rw [getD_map_range _ hi', getD_of_lt _ hi, List.getElem_reverse]
  simp

theorem rotate3_eq (p : NSeq) : rotate3 p = reverse (inverse p) := by
  simp only [rotate3, reverse, inverse]
  rw [reverse_range_map]

theorem flipAntidiagonal_eq (p : NSeq) : flipAntidiagonal p = reverseComplement (inverse p) := by
  rw [reverseComplement_eq_reverse_complement]
  simp only [flipAntidiagonal, reverse, complement, inverse, List.map_map, List.length_map,
    List.length_range, Function.comp_def]
  rw [reverse_range_map]

/-! ### identities on permutations -/
theorem complement_complement {p : NSeq} (hp : IsPerm p) : complement (complement p) = p := by
  apply ext_getD (by simp)
  intro i hi
  have hi' : i < p.length := by simpa using hi
  rw [getD_complement _ (by simpa using hi'), getD_complement _ hi', length_complement]
  have := hp.getD_lt hi'; omega

theorem inverse_inverse {p : NSeq} (hp : IsPerm p) : inverse (inverse p) = p := by
  apply ext_getD (by simp)
  intro i hi
  have hi' : i < p.length := by simpa using hi
  rw [getD_inverse _ (by simpa using hi')]
  -- the position of `i` in `inverse p` is `p[i]`
  have hv := hp.getD_lt hi'
  have h1 : (inverse p).getD (p.getD i 0) 0 = i := by
    rw [getD_inverse _ hv, hp.idxOf_getD hi']
  have := (isPerm_inverse hp).idxOf_getD (i := p.getD i 0) (by simpa using hv)
  rw [h1] at this; exact this

/-- `inverse (reverse p) = complement (inverse p)` -/
theorem inverse_reverse {p : NSeq} (hp : IsPerm p) : inverse (reverse p) = complement (inverse p) := by
  apply ext_getD (by simp)
  intro v hv
  have hv' : v < p.length := by simpa using hv
  rw [getD_inverse _ (by simpa using hv'), getD_complement _ (by simpa using hv'), getD_inverse _ hv',
    length_inverse]
  -- position of v in reverse p is n-1-idxOf v
  have hi := hp.idxOf_lt hv'
  have h1 : (reverse p).getD (p.length - 1 - p.idxOf v) 0 = v := by
    rw [getD_reverse _ (by omega)]
    have : p.length - 1 - (p.length - 1 - p.idxOf v) = p.idxOf v := by omega
    rw [this, hp.getD_idxOf hv']
  have := (isPerm_reverse hp).idxOf_getD (i := p.length - 1 - p.idxOf v) (by simp; omega)
  rw [h1] at this; exact this

/-- `inverse (complement p) = reverse (inverse p)` -/
theorem inverse_complement {p : NSeq} (hp : IsPerm p) : inverse (complement p) = reverse (inverse p) := by
  apply ext_getD (by simp)
  intro v hv
  have hv' : v < p.length := by simpa using hv
  rw [getD_inverse _ (by simpa using hv'), getD_reverse _ (by simpa using hv'), length_inverse,
    getD_inverse _ (by omega)]
  have hw : p.length - 1 - v < p.length := by omega
  have hi := hp.idxOf_lt hw
  have h1 : (complement p).getD (p.idxOf (p.length - 1 - v)) 0 = v := by
    rw [getD_complement _ hi, hp.getD_idxOf hw]; omega
  have := (isPerm_complement hp).idxOf_getD (i := p.idxOf (p.length - 1 - v)) (by simpa using hi)
  rw [h1] at this; exact this

end C04L
