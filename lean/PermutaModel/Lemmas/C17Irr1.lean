import PermutaModel.Lemmas.C17Complete
/-! B2 (first half): the sets returned by `find_badpatts` are minimal: removing a cell leaves some
    recorded hit set unmet.  Ingredients: monotonicity of the pruning test, completeness of the
    hitting-set enumeration, the size-sorted minimal filter. -/

namespace Model.C17

/-! ### the pruning test is monotone in the shading -/

theorem rectShaded_mono (S S' : Shading) (hS : ∀ c ∈ S, c ∈ S') (a b c d : Nat)
    (h : rectShaded S a b c d = true) : rectShaded S' a b c d = true := by
  unfold rectShaded at *
  rw [List.all_eq_true] at *
  intro y hy
  have := h y hy
  rw [List.all_eq_true] at *
  intro x hx
  have := this x hx
  rw [List.contains_iff_mem] at *
  exact hS _ this

theorem subMeshShading_mono (perm : NSeq) (S S' : Shading) (hS : ∀ c ∈ S, c ∈ S') (idx : List Nat)
    (cell : Cell) (h : cell ∈ subMeshShading perm S idx) : cell ∈ subMeshShading perm S' idx := by
  unfold subMeshShading at *
  simp only [List.mem_flatMap, List.mem_filterMap] at *
  obtain ⟨x, hx, y, hy, hc⟩ := h
  refine ⟨x, hx, y, hy, ?_⟩
  split at hc
  · rename_i hcond
    simp only [Bool.and_eq_true] at hcond
    rw [if_pos]
    · exact hc
    · simp only [Bool.and_eq_true]
      exact ⟨rectShaded_mono S S' hS _ _ _ _ hcond.1, hcond.2⟩
  · cases hc

theorem meshContainsPos_mono (perm : NSeq) (S S' : Shading) (hS : ∀ c ∈ S, c ∈ S')
    (occs : List (List Nat)) (Rs : List Shading) (h : meshContainsPos perm S occs Rs = true) :
    meshContainsPos perm S' occs Rs = true := by
  unfold meshContainsPos at *
  rw [List.any_eq_true] at *
  obtain ⟨c, hc, h⟩ := h
  refine ⟨c, hc, ?_⟩
  rw [List.any_eq_true] at *
  obtain ⟨R, hR, h⟩ := h
  refine ⟨R, hR, ?_⟩
  simp only [Bool.and_eq_true] at *
  refine ⟨h.1, ?_⟩
  rw [subsetB_iff] at *
  exact fun cell hcell => subMeshShading_mono perm S S' hS c cell (h.2 cell hcell)

theorem prunable_mono (perm : NSeq) (S S' : Shading) (hS : ∀ c ∈ S, c ∈ S') (bad : PattDict)
    (ci : List Nat) (h : prunable perm S bad ci = true) : prunable perm S' bad ci = true := by
  unfold prunable at *
  rw [List.any_eq_true] at *
  obtain ⟨j, hj, h⟩ := h
  refine ⟨j, hj, ?_⟩
  rw [List.any_eq_true] at *
  obtain ⟨e, he, h⟩ := h
  exact ⟨e, he, meshContainsPos_mono perm S S' hS _ _ h⟩

/-! ### the enumeration is complete and stays inside the admissible family -/

theorem hitting_complete (perm : NSeq) (bad : PattDict) (ci : List Nat) (C forb : Shading)
    (lst : List Shading) (H : Shading) :
    (∀ L ∈ lst, ∃ b ∈ H, b ∈ L) → prunable perm H bad ci = false →
    (∀ b ∈ C, b ∈ H) → (∀ b ∈ forb, b ∉ H) →
    ∃ H' ∈ hitting perm bad ci C forb lst, ∀ b ∈ H', b ∈ H := by
  fun_induction hitting perm bad ci C forb lst with
  | case1 C forb lst h =>
    intro hhit _ _ hforb
    exfalso
    obtain ⟨L, hL, hsub⟩ := List.any_eq_true.mp h
    obtain ⟨b, hbH, hbL⟩ := hhit L hL
    exact hforb b (subsetB_iff.mp hsub b hbL) hbH
  | case2 C forb lst hno hfil =>
    intro _ _ hC _
    exact ⟨C, by simp, hC⟩
  | case3 C forb lst hno lst0 rest hfil hpr ih =>
    intro hhit hF hC hforb
    have hsub : ∀ L ∈ lst0 :: rest, ∃ b ∈ H, b ∈ L := by
      intro L hL; rw [← hfil] at hL; exact hhit L (List.mem_filter.mp hL).1
    apply ih hsub hF hC
    intro b hb
    rcases List.mem_cons.mp hb with rfl | hb
    · intro hBH
      have : prunable perm H bad ci = true :=
        prunable_mono perm _ H (by
          intro c hc
          rcases List.mem_cons.mp hc with rfl | hc
          · exact hBH
          · exact hC c hc) bad ci hpr
      rw [hF] at this; cases this
    · exact hforb b hb
  | case4 C forb lst hno lst0 rest hfil hpr ih1 ih2 =>
    intro hhit hF hC hforb
    have hsub : ∀ L ∈ lst0 :: rest, ∃ b ∈ H, b ∈ L := by
      intro L hL; rw [← hfil] at hL; exact hhit L (List.mem_filter.mp hL).1
    by_cases hBH : pickB lst0 forb ∈ H
    · obtain ⟨H', hH', hsubH⟩ := ih1 hsub hF (by
        intro b hb
        rcases List.mem_cons.mp hb with rfl | hb
        · exact hBH
        · exact hC b hb) hforb
      exact ⟨H', List.mem_append_left _ hH', hsubH⟩
    · obtain ⟨H', hH', hsubH⟩ := ih2 hsub hF hC (by
        intro b hb
        rcases List.mem_cons.mp hb with rfl | hb
        · exact hBH
        · exact hforb b hb)
      exact ⟨H', List.mem_append_right _ hH', hsubH⟩

theorem hitting_admissible (perm : NSeq) (bad : PattDict) (ci : List Nat) (C forb : Shading)
    (lst : List Shading) :
    ∀ H ∈ hitting perm bad ci C forb lst, H = C ∨ prunable perm H bad ci = false := by
  fun_induction hitting perm bad ci C forb lst with
  | case1 C forb lst h => intro H hH; cases hH
  | case2 C forb lst hno hfil => intro H hH; left; simpa using hH
  | case3 C forb lst hno lst0 rest hfil hpr ih => exact ih
  | case4 C forb lst hno lst0 rest hfil hpr ih1 ih2 =>
    intro H hH
    rcases List.mem_append.mp hH with hH | hH
    · rcases ih1 H hH with rfl | h
      · right; simpa using hpr
      · right; exact h
    · exact ih2 H hH

/-! ### the minimal filter -/

theorem keepMinimal_split (l : List Shading) (R : Shading) (h : R ∈ keepMinimal l) :
    ∃ l1 l2, l = l1 ++ R :: l2 ∧ ∀ s ∈ l2, subsetB s R = false := by
  induction l with
  | nil => cases h
  | cons a t ih =>
    unfold keepMinimal at h
    by_cases hany : t.any (fun s => subsetB s a) = true
    · simp only [hany, if_true] at h
      obtain ⟨l1, l2, rfl, hl2⟩ := ih h
      exact ⟨a :: l1, l2, rfl, hl2⟩
    · simp only [hany] at h
      rcases List.mem_cons.mp h with rfl | h
      · refine ⟨[], t, rfl, fun s hs => ?_⟩
        cases hsb : subsetB s R with
        | false => rfl
        | true => exact absurd (List.any_eq_true.mpr ⟨s, hs, hsb⟩) hany
      · obtain ⟨l1, l2, rfl, hl2⟩ := ih h
        exact ⟨a :: l1, l2, rfl, hl2⟩

theorem mem_dedupCells (l : Shading) (a : Cell) : a ∈ dedupCells l ↔ a ∈ l := by
  induction l with
  | nil => simp [dedupCells]
  | cons b t ih =>
    unfold dedupCells
    by_cases h : t.contains b = true
    · simp only [h, if_true, ih, List.mem_cons]
      constructor
      · exact Or.inr
      · rintro (rfl | h')
        · exact List.contains_iff_mem.mp h
        · exact h'
    · simp only [h, Bool.false_eq_true, if_false, List.mem_cons, ih]

theorem nodup_dedupCells (l : Shading) : (dedupCells l).Nodup := by
  induction l with
  | nil => simp [dedupCells]
  | cons b t ih =>
    unfold dedupCells
    by_cases h : t.contains b = true
    · simp only [h, if_true]; exact ih
    · simp only [h, Bool.false_eq_true, if_false, List.nodup_cons]
      refine ⟨fun hm => h ?_, ih⟩
      exact List.contains_iff_mem.mpr ((mem_dedupCells t b).mp hm)

theorem setSize_lt (H' R : Shading) (r : Cell) (hsub : ∀ b ∈ H', b ∈ R) (hr : r ∈ R) (hrH : r ∉ H') :
    setSize H' < setSize R := by
  unfold setSize
  have h1 : (r :: dedupCells H').Nodup := by
    rw [List.nodup_cons]
    exact ⟨fun h => hrH ((mem_dedupCells _ _).mp h), nodup_dedupCells _⟩
  have h2 : r :: dedupCells H' ⊆ dedupCells R := by
    intro x hx
    rw [mem_dedupCells]
    rcases List.mem_cons.mp hx with rfl | hx
    · exact hr
    · exact hsub x ((mem_dedupCells _ _).mp hx)
  have := List.Nodup.length_le_of_subset h1 h2
  simp only [List.length_cons] at this
  omega

/-- **minimality** of a learned shading: dropping the cell `r` leaves a recorded set unmet -/
theorem findBadpatts_minimal (gp : List Level) (bad : PattDict) (ci : List Nat) (p : NSeq) (R : Shading)
    (hR : R ∈ findBadpatts gp bad ci p) (r : Cell) (hr : r ∈ R) :
    ∃ Ls, alGet (gp.getD p.length []) p = some Ls ∧ ∃ L ∈ Ls, ∀ b ∈ L, b ∈ R → b = r := by
  unfold findBadpatts at hR
  cases hg : alGet (gp.getD p.length []) p with
  | none =>
    rw [hg] at hR; simp only at hR
    split at hR
    · cases hR
    · simp only [List.mem_singleton] at hR; subst hR; cases hr
  | some Ls =>
    rw [hg] at hR; simp only at hR
    refine ⟨Ls, rfl, ?_⟩
    apply Classical.byContradiction
    intro hno
    have hhit' : ∀ L ∈ Ls, ∃ b ∈ R.filter (fun b => b != r), b ∈ L := by
      intro L hL
      apply Classical.byContradiction
      intro hnb
      apply hno
      refine ⟨L, hL, fun b hbL hbR => ?_⟩
      apply Classical.byContradiction
      intro hbr
      exact hnb ⟨b, List.mem_filter.mpr ⟨hbR, by simpa using hbr⟩, hbL⟩
    have hRmem := keepMinimal_subset _ R hR
    rw [List.mem_mergeSort] at hRmem
    have hRF : prunable p R bad ci = false := by
      rcases hitting_admissible p bad ci [] [] Ls R hRmem with h | h
      · subst h; cases hr
      · exact h
    have hR'F : prunable p (R.filter fun b => b != r) bad ci = false := by
      cases hp : prunable p (R.filter fun b => b != r) bad ci with
      | false => rfl
      | true =>
        have := prunable_mono p _ R (fun c hc => (List.mem_filter.mp hc).1) bad ci hp
        rw [hRF] at this; cases this
    obtain ⟨H', hH', hsubH⟩ := hitting_complete p bad ci [] [] Ls _ hhit' hR'F
      (fun b hb => by cases hb) (fun b hb => by cases hb)
    have hH'R : ∀ b ∈ H', b ∈ R := fun b hb => (List.mem_filter.mp (hsubH b hb)).1
    have hrH' : r ∉ H' := by
      intro h; have := (List.mem_filter.mp (hsubH r h)).2; simp at this
    have hlt := setSize_lt H' R r hH'R hr hrH'
    obtain ⟨l1, l2, hl, hl2⟩ := keepMinimal_split _ R hR
    have hsorted := List.pairwise_mergeSort (le := fun a b : Shading => decide (setSize a ≥ setSize b))
      (by intro a b c h1 h2; simp only [decide_eq_true_eq] at *; omega)
      (by intro a b; simp only [Bool.or_eq_true, decide_eq_true_eq]; omega)
      (hitting p bad ci [] [] Ls)
    have hH'l : H' ∈ (hitting p bad ci [] [] Ls).mergeSort (fun a b => decide (setSize a ≥ setSize b)) :=
      List.mem_mergeSort.mpr hH'
    rw [hl] at hsorted hH'l
    rcases List.mem_append.mp hH'l with h1 | h1
    · rw [List.pairwise_append] at hsorted
      have := hsorted.2.2 H' h1 R (by simp)
      simp only [decide_eq_true_eq] at this
      omega
    · rcases List.mem_cons.mp h1 with rfl | h1
      · exact hrH' hr
      · have := hl2 H' h1
        rw [subsetB_iff.mpr hH'R] at this; cases this

end Model.C17
