import PermutaModel.Lemmas.C01Main
/-! C01, coloured search: `goC` is `go` filtered by the colour test (no hypothesis on the
    search table, the permutations or the colour lists is needed). -/
open Model

/-- colour test on slots `k … n-1` -/
def colFrom (n : Nat) (cπ cσ : List Nat) (k : Nat) (c : List Nat) : Bool :=
  decide (∀ j < n, k ≤ j → cσ.getD (c.getD j 0) 0 = cπ.getD j 0)

theorem go_prefix (σ : NSeq) (det : List Details) (n i k : Nat) (occ : List Nat) :
    ∀ c ∈ go σ det n i k occ, ∃ i' t, c = occ ++ i' :: t := by
  fun_induction go σ det n i k occ with
  | case1 => simp
  | case2 i k occ hcut hi hfit hlast ih =>
    intro c hc
    rcases List.mem_cons.mp hc with h | h
    · exact ⟨i, [], h⟩
    · exact ih c h
  | case3 i k occ hcut hi hfit hlast ih1 ih2 =>
    intro c hc
    rcases List.mem_append.mp hc with h | h
    · obtain ⟨i', t, rfl⟩ := ih1 c h
      exact ⟨i, i' :: t, by simp⟩
    · exact ih2 c h
  | case4 i k occ hcut hi hfit ih => exact ih
  | case5 => simp

theorem go_getD (σ : NSeq) (det : List Details) (n i k : Nat) (occ : List Nat) (j : Nat)
    (hj : j < occ.length) : ∀ c ∈ go σ det n i k occ, c.getD j 0 = occ.getD j 0 := by
  intro c hc
  obtain ⟨i', t, rfl⟩ := go_prefix σ det n i k occ c hc
  simp [List.getD_eq_getElem?_getD, List.getElem?_append_left hj]

theorem goC_eq_filter (σ : NSeq) (det : List Details) (n : Nat) (cπ cσ : List Nat)
    (i k : Nat) (occ : List Nat) (hk : occ.length = k) (hkn : k < n) :
    goC σ det n cπ cσ i k occ = (go σ det n i k occ).filter (colFrom n cπ cσ k) := by
  fun_induction goC σ det n cπ cσ i k occ with
  | case1 i k occ hcut => rw [go]; simp [hcut]
  | case2 i k occ hcut hi hfit hlast ih =>
    rw [go, if_neg hcut, if_pos hi, if_pos hfit.2, if_pos hlast, ih hk hkn]
    have : colFrom n cπ cσ k (occ ++ [i]) = true := by
      simp only [colFrom, decide_eq_true_eq]
      intro j hj hkj
      have : j = occ.length := by omega
      subst this
      subst hk
      simpa [List.getD_eq_getElem?_getD] using hfit.1
    simp [this]
  | case3 i k occ hcut hi hfit hlast ih1 ih2 =>
    rw [go, if_neg hcut, if_pos hi, if_pos hfit.2, if_neg hlast, ih1 (by simp; omega) (by omega),
      ih2 hk hkn, List.filter_append]
    congr 1
    apply List.filter_congr
    intro c hc
    have hck : c.getD k 0 = i := by
      rw [go_getD σ det n (i+1) (k+1) (occ ++ [i]) k (by simp; omega) c hc]
      simp [List.getD_eq_getElem?_getD, ← hk]
    simp only [colFrom, decide_eq_decide]
    constructor
    · intro h j hj hkj
      rcases Nat.lt_or_ge k j with h' | h'
      · exact h j hj h'
      · have : j = k := by omega
        subst this; rw [hck]; exact hfit.1
    · intro h j hj hkj
      exact h j hj (by omega)
  | case4 i k occ hcut hi hfit ih =>
    rw [ih hk hkn]
    by_cases hf : fits σ det i k occ
    · have hcol : ¬ cσ.getD i 0 = cπ.getD k 0 := fun h => hfit ⟨h, hf⟩
      have hkill : ∀ c, c.getD k 0 = i → colFrom n cπ cσ k c = false := by
        intro c hc
        simp only [colFrom, decide_eq_false_iff_not]
        intro h
        apply hcol
        have := h k hkn (Nat.le_refl _)
        rwa [hc] at this
      conv => rhs; rw [go, if_neg hcut, if_pos hi, if_pos hf]
      split
      · rw [List.filter_cons, hkill _ (by simp [List.getD_eq_getElem?_getD, ← hk])]
        simp
      · rw [List.filter_append]
        have : List.filter (colFrom n cπ cσ k) (go σ det n (i + 1) (k + 1) (occ ++ [i])) = [] := by
          rw [List.filter_eq_nil_iff]
          intro c hc
          rw [hkill c]; simp
          rw [go_getD σ det n (i+1) (k+1) (occ ++ [i]) k (by simp; omega) c hc]
          simp [List.getD_eq_getElem?_getD, ← hk]
        rw [this, List.nil_append]
    · conv => rhs; rw [go, if_neg hcut, if_pos hi, if_neg hf]
  | case5 i k occ hcut hi => rw [go]; simp [hcut, hi]

theorem colFrom_zero (n : Nat) (cπ cσ c : List Nat) :
    colFrom n cπ cσ 0 c = Spec.colourMatch n cπ cσ c := by
  rw [Bool.eq_iff_iff]
  simp [colFrom, Spec.colourMatch, List.all_eq_true]
