import PermutaModel.Lemmas.C13Sym

/-! C13 helper lemmas, part 7: `L2` (direct sums of `1` and `21`) is closed under
    reverse-complement and under the inverse; the ten classes under the three generators. -/
open Model.C13 Spec.C13

namespace C13

theorem isPerm_snoc_one {p : NSeq} (hp : IsPerm p) : IsPerm (Model.directSum p [0]) := by
  unfold Model.directSum
  simp only [List.map_cons, List.map_nil, Nat.zero_add]
  refine ⟨?_, ?_⟩
  · rw [List.nodup_append]
    refine ⟨hp.1, by simp, ?_⟩
    intro a ha b hb hab
    simp at hb; subst hb
    have := hp.2 a ha; omega
  · intro x hx
    simp only [List.length_append, List.length_cons, List.length_nil]
    rcases List.mem_append.mp hx with h | h
    · have := hp.2 x h; omega
    · simp at h; omega

theorem isPerm_snoc_two {p : NSeq} (hp : IsPerm p) : IsPerm (Model.directSum p [1, 0]) := by
  unfold Model.directSum
  simp only [List.map_cons, List.map_nil, Nat.zero_add]
  refine ⟨?_, ?_⟩
  · rw [List.nodup_append]
    refine ⟨hp.1, by simp, ?_⟩
    intro a ha b hb hab
    have := hp.2 a ha
    simp at hb
    omega
  · intro x hx
    simp only [List.length_append, List.length_cons, List.length_nil]
    rcases List.mem_append.mp hx with h | h
    · have := hp.2 x h; omega
    · simp at h; omega

theorem isPerm_of_L2 {σ : NSeq} (h : L2 σ) : IsPerm σ := by
  induction h with
  | nil => exact ⟨List.nodup_nil, by simp⟩
  | one _ ih => exact isPerm_snoc_one ih
  | two _ ih => exact isPerm_snoc_two ih

theorem directSum_assoc (a b c : NSeq) :
    Model.directSum (Model.directSum a b) c = Model.directSum a (Model.directSum b c) := by
  simp only [Model.directSum, List.map_append, List.map_map, Function.comp_def, List.length_append,
    List.length_map, List.append_assoc]
  congr 2
  apply List.map_congr_left
  intro x _; omega

theorem directSum_nil_right (a : NSeq) : Model.directSum a [] = a := by simp [Model.directSum]
theorem directSum_nil_left (a : NSeq) : Model.directSum [] a = a := by simp [Model.directSum]

theorem L2_left (blk : NSeq) (hblk : L2 blk) {q : NSeq} (h : L2 q) : L2 (Model.directSum blk q) := by
  induction h with
  | nil => rw [directSum_nil_right]; exact hblk
  | @one p _ ih => rw [← directSum_assoc]; exact L2.one ih
  | @two p _ ih => rw [← directSum_assoc]; exact L2.two ih

theorem L2_single : L2 [0] := by
  have := L2.one L2.nil
  rwa [directSum_nil_left] at this

theorem L2_pair : L2 [1, 0] := by
  have := L2.two L2.nil
  rwa [directSum_nil_left] at this

theorem rc_snoc_one {p : NSeq} (hp : ∀ x ∈ p, x < p.length) :
    Model.reverseComplement (Model.directSum p [0]) = Model.directSum [0] (Model.reverseComplement p) := by
  unfold Model.reverseComplement Model.directSum
  simp only [List.map_cons, List.map_nil, Nat.zero_add, List.reverse_append, List.reverse_cons,
    List.reverse_nil, List.nil_append, List.length_append, List.length_cons, List.length_nil,
    List.cons_append, List.map_map, List.singleton_append]
  congr 1
  · omega
  · apply List.map_congr_left
    intro x hx
    have := hp x (List.mem_reverse.mp hx)
    simp only [Function.comp_def]
    omega

theorem rc_snoc_two {p : NSeq} (hp : ∀ x ∈ p, x < p.length) :
    Model.reverseComplement (Model.directSum p [1, 0]) = Model.directSum [1, 0] (Model.reverseComplement p) := by
  unfold Model.reverseComplement Model.directSum
  simp only [List.map_cons, List.map_nil, Nat.zero_add, List.reverse_append, List.reverse_cons,
    List.reverse_nil, List.nil_append, List.length_append, List.length_cons, List.length_nil,
    List.cons_append, List.map_map, List.singleton_append]
  congr 1
  · omega
  · congr 1
    · omega
    · apply List.map_congr_left
      intro x hx
      have := hp x (List.mem_reverse.mp hx)
      simp only [Function.comp_def]
      omega

theorem L2_rc_of_L2 {σ : NSeq} (h : L2 σ) : L2 (Model.reverseComplement σ) := by
  induction h with
  | nil => exact L2.nil
  | @one p hp ih => rw [rc_snoc_one (isPerm_of_L2 hp).2]; exact L2_left _ L2_single ih
  | @two p hp ih => rw [rc_snoc_two (isPerm_of_L2 hp).2]; exact L2_left _ L2_pair ih

theorem rc_rc {σ : NSeq} (hσ : ∀ x ∈ σ, x < σ.length) :
    Model.reverseComplement (Model.reverseComplement σ) = σ := by
  unfold Model.reverseComplement
  simp only [List.length_map, List.length_reverse]
  rw [← List.map_reverse, List.reverse_reverse, List.map_map, List.map_congr_left (g := id)]
  · simp
  · intro x hx; have := hσ x hx; simp only [Function.comp_def, id]; omega

theorem isPerm_rc {σ : NSeq} (hσ : IsPerm σ) : IsPerm (Model.reverseComplement σ) := by
  rw [show Model.reverseComplement σ = Model.complement (Model.reverse σ) by
    simp [Model.reverseComplement, Model.complement, Model.reverse]]
  exact isPerm_complement (isPerm_reverse hσ)

/-- `L2` is closed under reverse-complement -/
theorem L2_rc_iff {σ : NSeq} (hσ : IsPerm σ) : L2 (Model.reverseComplement σ) ↔ L2 σ :=
  ⟨fun h => by have := L2_rc_of_L2 h; rwa [rc_rc hσ.2] at this, L2_rc_of_L2⟩

theorem inverse_snoc_one {p : NSeq} (hp : IsPerm p) :
    Model.inverse (Model.directSum p [0]) = Model.directSum (Model.inverse p) [0] := by
  unfold Model.inverse Model.directSum
  simp only [List.map_cons, List.map_nil, Nat.zero_add, List.length_append, List.length_cons,
    List.length_nil, List.length_map, List.length_range, List.range_succ, List.map_append]
  congr 1
  · apply List.map_congr_left
    intro v hv
    exact List.idxOf_append_of_mem (mem_of_isPerm hp (List.mem_range.mp hv))
  · have hn : p.length ∉ p := fun h => by have := hp.2 _ h; omega
    simp [List.idxOf_append_of_notMem hn]

theorem inverse_snoc_two {p : NSeq} (hp : IsPerm p) :
    Model.inverse (Model.directSum p [1, 0]) = Model.directSum (Model.inverse p) [1, 0] := by
  unfold Model.inverse Model.directSum
  simp only [List.map_cons, List.map_nil, Nat.zero_add, List.length_append, List.length_cons,
    List.length_nil, List.length_map, List.length_range, List.range_succ, List.map_append]
  have hn : p.length ∉ p := fun h => by have := hp.2 _ h; omega
  have hn1 : p.length + 1 ∉ p := fun h => by have := hp.2 _ h; omega
  rw [List.append_assoc]
  congr 1
  · apply List.map_congr_left
    intro v hv
    exact List.idxOf_append_of_mem (mem_of_isPerm hp (List.mem_range.mp hv))
  · simp [List.idxOf_append_of_notMem hn, List.idxOf_append_of_notMem hn1, List.idxOf_cons, Nat.add_comm]

theorem L2_inverse_of_L2 {σ : NSeq} (h : L2 σ) : L2 (Model.inverse σ) := by
  induction h with
  | nil => exact L2.nil
  | @one p hp ih => rw [inverse_snoc_one (isPerm_of_L2 hp)]; exact L2.one ih
  | @two p hp ih => rw [inverse_snoc_two (isPerm_of_L2 hp)]; exact L2.two ih

/-- `L2` is closed under the inverse -/
theorem L2_inverse_iff {σ : NSeq} (hσ : IsPerm σ) : L2 (Model.inverse σ) ↔ L2 σ :=
  ⟨fun h => by have := L2_inverse_of_L2 h; rwa [inverse_inverse hσ] at this, L2_inverse_of_L2⟩

/-! ### the ten classes under reverse, complement, inverse -/

/-- how each generator permutes the ten type numbers -/
def revType : Nat → Nat
  | 0 => 3 | 1 => 1 | 2 => 2 | 3 => 0 | 4 => 7 | 5 => 6 | 6 => 5 | 7 => 4 | 8 => 9 | 9 => 8 | t => t
def compType : Nat → Nat
  | 0 => 3 | 1 => 2 | 2 => 1 | 3 => 0 | 4 => 7 | 5 => 5 | 6 => 6 | 7 => 4 | 8 => 9 | 9 => 8 | t => t
def invType : Nat → Nat
  | 0 => 4 | 1 => 5 | 2 => 6 | 3 => 7 | 4 => 0 | 5 => 1 | 6 => 2 | 7 => 3 | 8 => 8 | 9 => 9 | t => t

theorem reverse_reverse' (σ : NSeq) : Model.reverse (Model.reverse σ) = σ := by simp [Model.reverse]

theorem rc_complement {σ : NSeq} (hσ : ∀ x ∈ σ, x < σ.length) :
    Model.reverseComplement (Model.complement σ) = Model.reverse σ := by
  unfold Model.reverseComplement Model.complement Model.reverse
  simp only [List.length_map]
  rw [← List.map_reverse, List.map_map, List.map_congr_left (g := id)]
  · simp
  · intro x hx; have := hσ x (List.mem_reverse.mp hx); simp only [Function.comp_def, id]; omega

theorem reverse_complement_eq_rc (σ : NSeq) :
    Model.reverse (Model.complement σ) = Model.reverseComplement σ := by
  unfold Model.reverseComplement Model.complement Model.reverse
  rw [List.map_reverse]

theorem L2_complement_iff {σ : NSeq} (hσ : IsPerm σ) : L2 (Model.complement σ) ↔ L2 (Model.reverse σ) := by
  rw [← L2_rc_iff (isPerm_complement hσ), rc_complement hσ.2]

theorem polyClass_reverse {σ : NSeq} (hσ : IsPerm σ) (t : Nat) (ht : t < 10) :
    polyClass t (Model.reverse σ) ↔ polyClass (revType t) σ := by
  have hi := isPerm_inverse hσ
  have hb : ∀ x ∈ Model.inverse σ, x < (Model.inverse σ).length := hi.2
  rcases t with _|_|_|_|_|_|_|_|_|_|t
  · simpa [polyClass, revType] using juxt_reverse true true σ
  · simpa [polyClass, revType] using juxt_reverse true false σ
  · simpa [polyClass, revType] using juxt_reverse false true σ
  · simpa [polyClass, revType] using juxt_reverse false false σ
  · simp only [polyClass, revType]; rw [inverse_reverse hσ]; simpa using juxt_complement true true _ hb
  · simp only [polyClass, revType]; rw [inverse_reverse hσ]; simpa using juxt_complement true false _ hb
  · simp only [polyClass, revType]; rw [inverse_reverse hσ]; simpa using juxt_complement false true _ hb
  · simp only [polyClass, revType]; rw [inverse_reverse hσ]; simpa using juxt_complement false false _ hb
  · simp [polyClass, revType]
  · simp [polyClass, revType, reverse_reverse']
  · omega

theorem polyClass_complement {σ : NSeq} (hσ : IsPerm σ) (t : Nat) (ht : t < 10) :
    polyClass t (Model.complement σ) ↔ polyClass (compType t) σ := by
  rcases t with _|_|_|_|_|_|_|_|_|_|t
  · simpa [polyClass, compType] using juxt_complement true true σ hσ.2
  · simpa [polyClass, compType] using juxt_complement true false σ hσ.2
  · simpa [polyClass, compType] using juxt_complement false true σ hσ.2
  · simpa [polyClass, compType] using juxt_complement false false σ hσ.2
  · simp only [polyClass, compType]; rw [inverse_complement hσ]; simpa using juxt_reverse true true _
  · simp only [polyClass, compType]; rw [inverse_complement hσ]; simpa using juxt_reverse true false _
  · simp only [polyClass, compType]; rw [inverse_complement hσ]; simpa using juxt_reverse false true _
  · simp only [polyClass, compType]; rw [inverse_complement hσ]; simpa using juxt_reverse false false _
  · simp only [polyClass, compType]; exact L2_complement_iff hσ
  · simp only [polyClass, compType]; rw [reverse_complement_eq_rc]; exact L2_rc_iff hσ
  · omega

theorem polyClass_inverse {σ : NSeq} (hσ : IsPerm σ) (t : Nat) (ht : t < 10) :
    polyClass t (Model.inverse σ) ↔ polyClass (invType t) σ := by
  rcases t with _|_|_|_|_|_|_|_|_|_|t
  · simp [polyClass, invType]
  · simp [polyClass, invType]
  · simp [polyClass, invType]
  · simp [polyClass, invType]
  · simp [polyClass, invType, inverse_inverse hσ]
  · simp [polyClass, invType, inverse_inverse hσ]
  · simp [polyClass, invType, inverse_inverse hσ]
  · simp [polyClass, invType, inverse_inverse hσ]
  · simp only [polyClass, invType]; exact L2_inverse_iff hσ
  · simp only [polyClass, invType]
    rw [← inverse_complement hσ, L2_inverse_iff (isPerm_complement hσ)]
    exact L2_complement_iff hσ
  · omega

/-- a generator that permutes the ten types (by an involution) preserves "meets all ten classes" -/
theorem polynomial_map (g : NSeq → NSeq) (π : Nat → Nat) (hπ : ∀ t, t < 10 → π t < 10 ∧ π (π t) = t)
    (B : List NSeq) (h : ∀ b ∈ B, ∀ t, t < 10 → (polyClass t (g b) ↔ polyClass (π t) b)) :
    Polynomial (B.map g) ↔ Polynomial B := by
  unfold Polynomial
  constructor
  · intro hp t ht
    obtain ⟨c, hc, hcl⟩ := hp (π t) (hπ t ht).1
    obtain ⟨b, hb, rfl⟩ := List.mem_map.mp hc
    refine ⟨b, hb, ?_⟩
    have := (h b hb (π t) (hπ t ht).1).mp hcl
    rwa [(hπ t ht).2] at this
  · intro hp t ht
    obtain ⟨b, hb, hcl⟩ := hp (π t) (hπ t ht).1
    exact ⟨g b, List.mem_map.mpr ⟨b, hb, rfl⟩, (h b hb t ht).mpr hcl⟩

theorem revType_invol : ∀ t, t < 10 → revType t < 10 ∧ revType (revType t) = t := by decide
theorem compType_invol : ∀ t, t < 10 → compType t < 10 ∧ compType (compType t) = t := by decide
theorem invType_invol : ∀ t, t < 10 → invType t < 10 ∧ invType (invType t) = t := by decide


/-! ### helpers for the symmetry theorems of `Props/C13` -/

theorem reverseComplement_eq (p : NSeq) : Model.reverseComplement p = Model.complement (Model.reverse p) := by
  simp [Model.reverseComplement, Model.complement, Model.reverse]

/-- the eight symmetries keep permutations permutations -/
theorem isPerm_sym (k : Nat) {p : NSeq} (hp : IsPerm p) : IsPerm (sym k p) := by
  unfold sym
  split
  · exact hp
  · exact isPerm_reverse hp
  · exact isPerm_complement hp
  · rw [reverseComplement_eq]; exact isPerm_complement (isPerm_reverse hp)
  · exact isPerm_inverse hp
  · exact isPerm_reverse (isPerm_inverse hp)
  · exact isPerm_complement (isPerm_inverse hp)
  · rw [reverseComplement_eq]; exact isPerm_complement (isPerm_reverse (isPerm_inverse hp))

theorem isFinite_map (g : NSeq → NSeq) (B : List NSeq) (o : Bool)
    (hall : (∀ p ∈ B, Model.isIncreasing (g p) = Model.isIncreasing p ∧ Model.isDecreasing (g p) = Model.isDecreasing p) ∨
      (∀ p ∈ B, Model.isIncreasing (g p) = Model.isDecreasing p ∧ Model.isDecreasing (g p) = Model.isIncreasing p)) :
    isFinite ⟨B.map g, o⟩ = isFinite ⟨B, o⟩ := by
  unfold isFinite
  rw [Bool.eq_iff_iff]
  simp only [Bool.and_eq_true, List.any_eq_true, List.mem_map, exists_exists_and_eq_and]
  rcases hall with h | h
  · constructor
    · rintro ⟨⟨p, hp, h1⟩, ⟨q, hq, h2⟩⟩
      exact ⟨⟨p, hp, by rw [← (h p hp).2]; exact h1⟩, ⟨q, hq, by rw [← (h q hq).1]; exact h2⟩⟩
    · rintro ⟨⟨p, hp, h1⟩, ⟨q, hq, h2⟩⟩
      exact ⟨⟨p, hp, by rw [(h p hp).2]; exact h1⟩, ⟨q, hq, by rw [(h q hq).1]; exact h2⟩⟩
  · constructor
    · rintro ⟨⟨p, hp, h1⟩, ⟨q, hq, h2⟩⟩
      exact ⟨⟨q, hq, by rw [← (h q hq).1]; exact h2⟩, ⟨p, hp, by rw [← (h p hp).2]; exact h1⟩⟩
    · rintro ⟨⟨p, hp, h1⟩, ⟨q, hq, h2⟩⟩
      exact ⟨⟨q, hq, by rw [(h q hq).2]; exact h2⟩, ⟨p, hp, by rw [(h p hp).1]; exact h1⟩⟩

theorem map_isPerm {g : NSeq → NSeq} {B : List NSeq} (hg : ∀ p, IsPerm p → IsPerm (g p)) (hB : ∀ p ∈ B, IsPerm p) :
    ∀ p ∈ B.map g, IsPerm p := by
  intro p hp; obtain ⟨q, hq, rfl⟩ := List.mem_map.mp hp; exact hg q (hB q hq)

/-- a verdict on lists of permutations that is invariant under reverse, complement and inverse is invariant
    under each of the eight symmetries `sym 0 … sym 7` -/
theorem sym_of_generators (V : List NSeq → Bool)
    (hr : ∀ B, (∀ p ∈ B, IsPerm p) → V (B.map Model.reverse) = V B)
    (hc : ∀ B, (∀ p ∈ B, IsPerm p) → V (B.map Model.complement) = V B)
    (hi : ∀ B, (∀ p ∈ B, IsPerm p) → V (B.map Model.inverse) = V B)
    (k : Nat) (B : List NSeq) (hB : ∀ p ∈ B, IsPerm p) : V (B.map (sym k)) = V B := by
  have hI := map_isPerm (g := Model.inverse) (fun _ => isPerm_inverse) hB
  have hR := map_isPerm (g := Model.reverse) (fun _ => isPerm_reverse) hB
  have hIR := map_isPerm (g := Model.reverse) (fun _ => isPerm_reverse) hI
  have e3 : B.map (sym 3) = (B.map Model.reverse).map Model.complement := by
    rw [List.map_map]; exact List.map_congr_left fun p _ => reverseComplement_eq p
  have e5 : B.map (sym 5) = (B.map Model.inverse).map Model.reverse := by rw [List.map_map]; rfl
  have e6 : B.map (sym 6) = (B.map Model.inverse).map Model.complement := by rw [List.map_map]; rfl
  have e7 : ∀ k, 7 ≤ k → B.map (sym k) = ((B.map Model.inverse).map Model.reverse).map Model.complement := by
    intro k hk
    rw [List.map_map, List.map_map]
    apply List.map_congr_left
    intro p _
    have : sym k p = Model.reverseComplement (Model.inverse p) := by
      unfold sym; split <;> first | omega | rfl
    rw [this, reverseComplement_eq]; rfl
  rcases k with _ | _ | _ | _ | _ | _ | _ | k
  · have : B.map (sym 0) = B := by
      have h0 : B.map (sym 0) = B.map id := List.map_congr_left fun p _ => rfl
      rw [h0, List.map_id]
    rw [this]
  · exact hr B hB
  · exact hc B hB
  · rw [e3]; exact (hc _ hR).trans (hr B hB)
  · exact hi B hB
  · rw [e5]; exact (hr _ hI).trans (hi B hB)
  · rw [e6]; exact (hc _ hI).trans (hi B hB)
  · rw [e7 (k + 7) (by omega)]; exact (hc _ hIR).trans ((hr _ hI).trans (hi B hB))


end C13
