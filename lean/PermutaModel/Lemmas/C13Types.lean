import PermutaModel.Lemmas.C13Scan
import PermutaModel.Spec.Basic

/-! C13 helper lemmas, part 2: `_of_type_8` against `L2`, `_find_type` against the ten classes. -/
open Model.C13 Spec.C13

namespace C13

theorem isPerm_reverse {p : NSeq} (h : IsPerm p) : IsPerm p.reverse :=
  ⟨List.nodup_reverse.mpr h.1, fun x hx => by
    rw [List.length_reverse]; exact h.2 x (List.mem_reverse.mp hx)⟩

theorem ofType8R_of_L2 {σ : NSeq} (h : L2 σ) : ofType8R σ.reverse = true := by
  induction h with
  | nil => simp [ofType8R]
  | @one p _ ih =>
    have : (Model.directSum p [0]).reverse = p.length :: p.reverse := by simp [Model.directSum]
    rw [this]
    cases hr : p.reverse with
    | nil => simp [ofType8R]
    | cons b t =>
      have hl : p.length = t.length + 1 := by
        have := congrArg List.length hr; simpa using this
      rw [ofType8R, if_pos hl, ← hr]; exact ih
  | @two p _ ih =>
    have : (Model.directSum p [1, 0]).reverse = p.length :: (p.length + 1) :: p.reverse := by
      simp [Model.directSum, Nat.add_comm]
    rw [this, ofType8R]
    have h1 : ¬ p.length = p.reverse.length + 1 := by simp
    have h2 : p.length = p.reverse.length ∧ p.length + 1 = p.reverse.length + 1 := by simp
    rw [if_neg h1, if_pos h2]; exact ih

theorem L2_of_ofType8R : ∀ r : NSeq, IsPerm r → ofType8R r = true → L2 r.reverse
  | [], _, _ => L2.nil
  | [x], hp, _ => by
    have hx : x = 0 := by have := hp.2 x (by simp); simpa using this
    subst hx
    exact L2.one L2.nil
  | a :: b :: t, hp, h => by
    rw [ofType8R] at h
    by_cases h1 : a = t.length + 1
    · rw [if_pos h1] at h
      have hp' : IsPerm (b :: t) := by
        refine ⟨(List.nodup_cons.mp hp.1).2, fun x hx => ?_⟩
        have hlt := hp.2 x (List.mem_cons_of_mem _ hx)
        have hne : x ≠ a := fun e => (List.nodup_cons.mp hp.1).1 (e ▸ hx)
        simp only [List.length_cons] at hlt ⊢
        omega
      have ih := L2_of_ofType8R (b :: t) hp' h
      have : (a :: b :: t).reverse = Model.directSum (b :: t).reverse [0] := by
        simp [Model.directSum, h1]
      rw [this]; exact L2.one ih
    · rw [if_neg h1] at h
      by_cases h2 : a = t.length ∧ b = t.length + 1
      · rw [if_pos h2] at h
        have hnd := List.nodup_cons.mp hp.1
        have hnd2 := List.nodup_cons.mp hnd.2
        have hp' : IsPerm t := by
          refine ⟨hnd2.2, fun x hx => ?_⟩
          have hlt := hp.2 x (List.mem_cons_of_mem _ (List.mem_cons_of_mem _ hx))
          have hne : x ≠ a := fun e => hnd.1 (e ▸ List.mem_cons_of_mem _ hx)
          have hne2 : x ≠ b := fun e => hnd2.1 (e ▸ hx)
          simp only [List.length_cons] at hlt
          omega
        have ih := L2_of_ofType8R t hp' h
        have : (a :: b :: t).reverse = Model.directSum t.reverse [1, 0] := by
          simp [Model.directSum, h2.1, h2.2, Nat.add_comm]
        rw [this]; exact L2.two ih
      · rw [if_neg h2] at h; exact absurd h (by simp)

/-- **`_of_type_8` decides `L2`** (direct sums of `1` and `21`) on permutations -/
theorem ofType8_iff (σ : NSeq) (hσ : IsPerm σ) : ofType8 σ = true ↔ L2 σ := by
  unfold ofType8
  constructor
  · intro h
    have := L2_of_ofType8R σ.reverse (isPerm_reverse hσ) h
    simpa using this
  · exact ofType8R_of_L2

/-- Boolean monotonicity test used by `_type_0_3` / `_type_4_7` -/
def monoB (up : Bool) (l : List Nat) : Bool := if up then isIncr l else isDecr l

theorem monoB_iff (up : Bool) (l : List Nat) : monoB up l = true ↔ Mono up l := by
  cases up
  · simp only [monoB, Mono, Bool.false_eq_true, if_false]; exact isDecr_iff l
  · simp only [monoB, Mono, if_true]; exact isIncr_iff l

/-- the number `_type_0_3` yields for (monotone-`a`, monotone-`b`) -/
def code (a b : Bool) : Nat := (if a then 0 else 2) + (if b then 0 else 1)

theorem mem_typeQuad (base : Nat) (s1 s2 : List Nat) (t : Nat) :
    t ∈ typeQuad base s1 s2 ↔ ∃ a b : Bool, t = base + code a b ∧ monoB a s1 = true ∧ monoB b s2 = true := by
  unfold typeQuad
  simp only [Bool.exists_bool, monoB, code]
  cases isIncr s1 <;> cases isDecr s1 <;> cases isIncr s2 <;> cases isDecr s2 <;> simp <;> omega

theorem juxt_iff_bounded (a b : Bool) (σ : NSeq) :
    Juxt a b σ ↔ ∃ k, k < σ.length + 1 ∧ monoB a (σ.take k) = true ∧ monoB b (σ.drop k) = true := by
  simp only [monoB_iff]
  constructor
  · rintro ⟨k, h1, h2⟩
    by_cases hk : k < σ.length + 1
    · exact ⟨k, hk, h1, h2⟩
    · refine ⟨σ.length, by omega, ?_, ?_⟩
      · rw [List.take_of_length_le (by omega)] at h1; simpa using h1
      · rw [List.drop_of_length_le (by omega)] at h2; simpa using h2
  · rintro ⟨k, _, h1, h2⟩; exact ⟨k, h1, h2⟩

theorem length_inverse (p : NSeq) : (Model.inverse p).length = p.length := by simp [Model.inverse]

theorem mem_findType (p : NSeq) (hp : IsPerm p) (t : Nat) :
    t ∈ findType p ↔
      (∃ a b : Bool, t = code a b ∧ Juxt a b p) ∨ (∃ a b : Bool, t = 4 + code a b ∧ Juxt a b (Model.inverse p)) ∨
      (t = 8 ∧ L2 p) ∨ (t = 9 ∧ L2 (Model.reverse p)) := by
  have hrev : IsPerm (Model.reverse p) := isPerm_reverse hp
  unfold findType
  simp only [List.mem_append, List.mem_flatMap, List.mem_range, splitTypes, mem_typeQuad]
  rw [show (t ∈ (if ofType8 p = true then [8] else [])) ↔ (t = 8 ∧ L2 p) by
        rw [← ofType8_iff p hp]; by_cases h : ofType8 p = true <;> simp [h],
      show (t ∈ (if ofType8 (Model.reverse p) = true then [9] else [])) ↔ (t = 9 ∧ L2 (Model.reverse p)) by
        rw [← ofType8_iff _ hrev]; by_cases h : ofType8 (Model.reverse p) = true <;> simp [h]]
  simp only [juxt_iff_bounded, length_inverse, Nat.zero_add]
  constructor
  · rintro ((⟨k, hk, h | h⟩ | h) | h)
    · obtain ⟨a, b, e, h1, h2⟩ := h
      exact Or.inl ⟨a, b, e, k, hk, h1, h2⟩
    · obtain ⟨a, b, e, h1, h2⟩ := h
      exact Or.inr (Or.inl ⟨a, b, e, k, hk, h1, h2⟩)
    · exact Or.inr (Or.inr (Or.inl h))
    · exact Or.inr (Or.inr (Or.inr h))
  · rintro (⟨a, b, e, k, hk, h1, h2⟩ | ⟨a, b, e, k, hk, h1, h2⟩ | h | h)
    · exact Or.inl (Or.inl ⟨k, hk, Or.inl ⟨a, b, e, h1, h2⟩⟩)
    · exact Or.inl (Or.inl ⟨k, hk, Or.inr ⟨a, b, e, h1, h2⟩⟩)
    · exact Or.inl (Or.inr h)
    · exact Or.inr h

/-- **`t ∈ _find_type(σ)` iff `σ` lies in the `t`-th of the ten classes** -/
theorem mem_findType_iff (p : NSeq) (hp : IsPerm p) (t : Nat) : t ∈ findType p ↔ polyClass t p := by
  rw [mem_findType p hp]
  simp only [Bool.exists_bool, code]
  rcases t with _|_|_|_|_|_|_|_|_|_|t <;> simp [polyClass]

theorem findType_lt (p : NSeq) (hp : IsPerm p) (t : Nat) (h : t ∈ findType p) : t < 10 := by
  rw [mem_findType_iff p hp] at h
  by_contra hge
  rcases t with _|_|_|_|_|_|_|_|_|_|t <;> simp [polyClass] at h hge

end C13
