import PermutaModel.Lemmas.C14SoundSel
/-! C14 completeness helpers: every sub-configuration of the points of a geometric run is the set of
    marked points of a marking (`Sel`), and the word read off describes it. -/
namespace C14S
open Model.C14 Model.C14.Letter Spec.C14 Proto C14L

theorem sublist_snoc {α} {l r : List α} {p : α} (h : l.Sublist (r ++ [p])) :
    l.Sublist r ∨ ∃ l', l = l' ++ [p] ∧ l'.Sublist r := by
  obtain ⟨l1, l2, rfl, h1, h2⟩ := List.sublist_append_iff.mp h
  cases l2 with
  | nil => left; simpa using h1
  | cons a t =>
    right
    have : a = p ∧ t = [] := by
      cases h2 with
      | cons _ h => simp at h
      | cons_cons _ h => simp at h; exact ⟨rfl, h⟩
    obtain ⟨rfl, rfl⟩ := this
    exact ⟨l1, rfl, h1⟩

/-- **every sub-configuration is a marking** -/
theorem sel_geo_conv (w : Word) : ∀ (prev : Letter) (ps : Bool) (A selA W : List Pt),
    chainOK prev w = true → HG prev A → SelInv ps A selA → GeoRun A w W →
    ∀ newer s1, W = newer ++ A → s1.Sublist newer →
    ∃ u, Sel prev ps w u ∧ GeoRun selA u (s1 ++ selA) ∧ u.length = s1.length := by
  induction w with
  | nil =>
    intro prev ps A selA W _ _ _ hR newer s1 hW hs
    simp only [GeoRun] at hR; subst hR
    have : newer = [] := by simpa using hW.symm
    subst this
    have : s1 = [] := by simpa using hs
    subst this
    exact ⟨[], Sel.nil _ _, rfl, rfl⟩
  | cons c w ih =>
    intro prev ps A selA W hch hH hI hR newer s1 hW hs
    obtain ⟨p, hp, hR⟩ := hR
    obtain ⟨hc1, hc2, hch'⟩ := chain_letter hch
    have hA : A ≠ [] := by obtain ⟨h, T, rfl, _⟩ := hI; simp
    obtain ⟨newer', hW', _⟩ := geoRun_suffix w _ _ hR
    have hnew : newer = newer' ++ [p] := by
      have : newer ++ A = (newer' ++ [p]) ++ A := by rw [← hW, hW']; simp
      exact List.append_cancel_right this
    subst hnew
    rcases sublist_snoc hs with hs' | ⟨s1', rfl, hs'⟩
    · have hI' : SelInv false (p :: A) selA := ⟨p, A, rfl, by simpa using hI.sub⟩
      obtain ⟨u, hu1, hu2, hu3⟩ := ih c false (p :: A) selA W hch' (hg_of_geo hp hc1 hA) hI' hR
        newer' s1 hW' hs'
      exact ⟨u, Sel.skip hu1, hu2, hu3⟩
    · have hI' : SelInv true (p :: A) (p :: selA) :=
        ⟨p, A, rfl, by simp only [if_true]; exact ⟨selA, rfl, hI.sub⟩⟩
      obtain ⟨u, hu1, hu2, hu3⟩ := ih c true (p :: A) (p :: selA) W hch' (hg_of_geo hp hc1 hA) hI' hR
        newer' s1' hW' hs'
      have hu2' : GeoRun (p :: selA) u (s1' ++ [p] ++ selA) := by simpa using hu2
      by_cases hcase : ps = true ∧ c.isDir = true
      · obtain ⟨rfl, hd⟩ := hcase
        exact ⟨c :: u, Sel.takeDir hd hu1, ⟨p, sep_of_geo hp hd hI, hu2'⟩, by simp [hu3]⟩
      · have hps : ps = false ∨ c.isQuad = true := by
          rcases hc1 with h | h
          · exact Or.inr h
          · left; cases ps <;> simp_all
        exact ⟨_ :: u, Sel.takeNum hps hu1, ⟨p, indep_of_geo hp ⟨hc1, hc2⟩ hH hI hps, hu2'⟩,
          by simp [hu3]⟩

/-- the word read off a word of the language is a word of the language -/
theorem sel_chain {prev : Letter} {ps : Bool} {w u : Word} (hS : Sel prev ps w u) :
    chainOK prev w = true → ∀ pu : Letter, (ps = true → pu = prev ∨ pu.isQuad = true) →
    chainOK pu u = true := by
  induction hS with
  | nil prev ps => intro _ _ _; rfl
  | @skip prev ps c w u _ ih =>
    intro hch pu _
    exact ih (chain_letter hch).2.2 pu (by intro h; cases h)
  | @takeDir prev c w u hd _ ih =>
    intro hch pu hpu
    obtain ⟨hc1, hc2, hch'⟩ := chain_letter hch
    have hq : c.isQuad = false := by cases c <;> simp_all [isDir, isQuad]
    simp only [chainOK, Bool.and_eq_true, Bool.or_eq_true, Bool.not_eq_true']
    refine ⟨Or.inr ⟨hd, ?_⟩, ih hch' c (fun _ => Or.inl rfl)⟩
    rcases hpu rfl with rfl | h
    · rcases hc2 with h | h
      · rw [hq] at h; cases h
      · exact h
    · cases pu <;> simp_all [isQuad, sameAxis, isVert, isHoriz]
  | @takeNum prev ps c w u hps _ ih =>
    intro hch pu _
    obtain ⟨_, _, hch'⟩ := chain_letter hch
    simp only [chainOK, quadOfSigns_isQuad', Bool.true_or, Bool.true_and]
    exact ih hch' _ (fun _ => Or.inr (quadOfSigns_isQuad' _))

theorem sel_head {prev : Letter} {ps : Bool} {w u : Word} (hS : Sel prev ps w u) :
    (ps = true → ∀ c, w.head? = some c → c.isQuad = true) →
    ∀ a, u.head? = some a → a.isQuad = true := by
  induction hS with
  | nil prev ps => intro _ a ha; simp at ha
  | @skip prev ps c w u _ ih => intro _ a ha; exact ih (by intro h; cases h) a ha
  | @takeDir prev c w u hd _ ih =>
    intro h a _
    have := h rfl c rfl
    cases c <;> simp_all [isDir, isQuad]
  | @takeNum prev ps c w u hps _ ih =>
    intro _ a ha
    simp only [List.head?_cons, Option.some.injEq] at ha
    subst ha
    exact quadOfSigns_isQuad' _

end C14S
