import PermutaModel.Lemmas.C16BhvMain
import PermutaModel.Lemmas.C16Special
/-!
# C16 — the unavoidable-substructures theorem for permutations (Brignall–Huczynska–Vatter)
-/
namespace C16Conv
open C16P Spec.C16 C04L

theorem entry_mem {τ : NSeq} {i : Nat} (hi : i < τ.length) : entry τ i ∈ plot τ :=
  mem_plot.mpr ⟨i, hi, rfl⟩

theorem entry_fst (τ : NSeq) (i : Nat) : (entry τ i).1 = ((i : Nat) : Rat) := rfl

theorem entry_ne {τ : NSeq} {i j : Nat} (h : i ≠ j) : entry τ i ≠ entry τ j := by
  intro he
  exact h (Rat.natCast_inj.mp (congrArg Prod.fst he))

/-- an outcome in the plot of `τ` is a family member contained in `τ` in one of the eight orientations -/
theorem hasFamilyMember_of_outcome (τ : NSeq) (hτ : IsPerm τ) (k : Nat) (h : Outcome (plot τ) k) :
    HasFamilyMember τ k := by
  obtain ⟨S, ts, fam, hsub, hN, hperm, hfam⟩ := h
  have hxP := plot_xs_nodup τ
  have hyP := plot_ys_nodup τ hτ
  have hxS : (S.map Prod.fst).Nodup :=
    List.Nodup.map_on (fun a ha b hb hab => List.inj_on_of_nodup_map hxP (hsub a ha) (hsub b hb) hab) hN
  have hyS : (S.map Prod.snd).Nodup :=
    List.Nodup.map_on (fun a ha b hb hab => List.inj_on_of_nodup_map hyP (hsub a ha) (hsub b hb) hab) hN
  obtain ⟨g, hg⟩ := permOfPts_applyAll ts S hxS hyS
  have hpS : IsPerm (Model.C14.permOfPts S) := C14L.permOfPts_isPerm hyS
  have hS : Model.C14.permOfPts S = g.inv.act fam := by
    rw [← hperm, hg, act_mul hpS, inv_mul, act_one]
  have hc : Contains τ (Model.C14.permOfPts S) := by
    have := C14S.contains_of_oe (P := plot τ) (S := S) (Q := S) hsub hxP hxS hxS (C16P.oe_refl S)
    rwa [permOfPts_plot τ hτ] at this
  rw [hS] at hc
  refine ⟨g.inv, ?_⟩
  rcases hfam with rfl | rfl | rfl
  · exact Or.inl hc
  · exact Or.inr (Or.inl hc)
  · exact Or.inr (Or.inr hc)

/-- **the unavoidable-substructures theorem** (Brignall–Huczynska–Vatter, Theorem 1.4): for every `k` there is
    `N` such that every simple permutation of length at least `N` contains a proper pin sequence of `k` points,
    or – in one of the eight orientations – the parallel alternation, the wedge permutation of the first kind or
    the wedge permutation of the second kind of index `k` -/
theorem unavoidable_substructures : UnavoidableSubstructures := by
  intro k
  by_cases hk : k = 0
  · subst hk
    exact ⟨0, fun τ _ _ _ => Or.inl ⟨[], true, trivial, List.nodup_nil, rfl, by simp⟩⟩
  have hk1 : 1 ≤ k := by omega
  obtain ⟨N, hN⟩ := bhv_cfg k hk1
  refine ⟨2 * N + 1, fun τ hτ hs hlen => ?_⟩
  by_cases hpin : HasPinCfg (plot τ) k
  · exact Or.inl hpin
  · right
    apply hasFamilyMember_of_outcome τ hτ k
    have hG : Good (plot τ) := ⟨plot_simple_of_isSimple τ hτ hs, plot_xs_nodup τ, plot_ys_nodup τ hτ⟩
    refine hN (plot τ) hG hpin (fun i => entry τ (2 * i)) (fun i => entry τ (2 * i + 1)) (entry τ (τ.length - 1)) ?_
    refine ⟨fun i hi => entry_mem (by omega), fun i hi => entry_mem (by omega), ?_, ?_, ?_,
      entry_mem (by omega), ?_, ?_⟩
    · intro i hi
      simp only [entry_fst]
      exact Rat.natCast_lt_natCast.mpr (by omega)
    · intro i hi z hz
      obtain ⟨j, hj, rfl⟩ := mem_plot.mp hz
      rintro ⟨h1, h2⟩
      have h1' : ((entry τ (2 * i)).1) < ((j : Nat) : Rat) := h1
      have h2' : ((j : Nat) : Rat) < (entry τ (2 * i + 1)).1 := h2
      simp only [entry_fst] at h1' h2'
      have := Rat.natCast_lt_natCast.mp h1'
      have := Rat.natCast_lt_natCast.mp h2'
      omega
    · intro i j hi hj hij
      exact ⟨entry_ne (by omega), entry_ne (by omega), entry_ne (by omega)⟩
    · intro s hs'
      obtain ⟨j, hj, rfl⟩ := mem_plot.mp hs'
      show ((j : Nat) : Rat) ≤ (entry τ (τ.length - 1)).1
      simp only [entry_fst]
      exact Rat.natCast_le_natCast.mpr (by omega)
    · intro i hi
      exact ⟨entry_ne (by omega), entry_ne (by omega)⟩

end C16Conv
