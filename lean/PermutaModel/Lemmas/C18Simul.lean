import PermutaModel.Lemmas.C18Comp

/-! The simultaneous shading lemma: the two cells east of a point. -/

namespace Spec.C18
open Model Model.C18

namespace Corner
variable {π σ : NSeq} {c : List Nat} {x y q : Nat} (H : Corner π σ c x y q)
include H

theorem not_mem_old {i : Nat} (hic' : i ∉ c.set (x - 1) q) (hiP : i ≠ c.getD (x - 1) 0) : i ∉ c := by
  intro hmem
  obtain ⟨k, hk, hki⟩ := List.getElem_of_mem hmem
  have hkx : x - 1 ≠ k := by
    intro h; apply hiP; rw [← hki, getD_eq_getElem' c H.xk]; simp [h]
  apply hic'
  rw [← hki, ← getD_eq_getElem' c hk]
  exact mem_set_of_ne q hk hkx

theorem col_P : colOf (c.set (x - 1) q) (c.getD (x - 1) 0) = x - 1 := by
  have hPq := H.P_lt_q
  show (c.set (x - 1) q).countP _ = _
  rw [countP_set_getD c (x - 1) _ q H.xk]
  have := colOf_occ H.occ.inc H.xk
  change c.countP _ = _ at this
  rw [this]
  have h2 : ¬ q < c.getD (x - 1) 0 := by omega
  simp only [decide_eq_true_eq, Nat.lt_irrefl, if_false, if_neg h2]; omega

/-- a position whose new cell is `(x, y)` or `(x, y-1)` was in one of these two cells before and
    lies right of `q` -/
theorem newcell_in_strip {i : Nat} (hi : i < σ.length) (hic' : i ∉ c.set (x - 1) q)
    (hcol : colOf (c.set (x - 1) q) i = x)
    (hrow : rowOf σ (c.set (x - 1) q) i = y ∨ rowOf σ (c.set (x - 1) q) i = y - 1) :
    q < i ∧ i ∉ c ∧ colOf c i = x ∧ (rowOf σ c i = y ∨ rowOf σ c i = y - 1) := by
  have hx := H.hx
  have hiq : i ≠ q := fun h => hic' (h ▸ List.mem_set H.xk q)
  by_cases hiP : i = c.getD (x - 1) 0
  · have := H.col_P; rw [← hiP] at this; omega
  · have hic := H.not_mem_old hic' hiP
    rcases H.col_cases hiP hiq with ⟨_, hc', hcb⟩ | ⟨_, _, _, hc'⟩ | ⟨hp, hc', _⟩
    · omega
    · omega
    · refine ⟨hp, hic, by omega, ?_⟩
      rcases H.row_cases hi hiP hiq with ⟨_, hr', _⟩ | ⟨_, _, hr, _⟩ | ⟨_, hr', _⟩
      · rw [hr'] at hrow; exact hrow
      · exact Or.inl hr
      · rw [hr'] at hrow; exact hrow

/-- replacement by the rightmost point of the two cells, when that point lies in the upper cell -/
theorem free_simul (R : List Cell)
    (hfree : ∀ i, i < σ.length → i ∉ c → cellOf σ c i ∉ R)
    (h3 : (x - 1, y - 1) ∉ R) (h4 : (x - 1, y) ∉ R)
    (h5 : ∀ a, a ≤ π.length → a ≠ x - 1 → a ≠ x → (a, y - 1) ∈ R → (a, y) ∈ R)
    (h6 : ∀ b, b ≤ π.length → b ≠ y - 1 → b ≠ y → (x - 1, b) ∈ R → (x, b) ∈ R)
    (hmax : ∀ i, i < σ.length → i ∉ c → colOf c i = x → (rowOf σ c i = y ∨ rowOf σ c i = y - 1) → i ≤ q) :
    ∀ i, i < σ.length → i ∉ c.set (x - 1) q →
      cellOf σ (c.set (x - 1) q) i ∉ R ∧ cellOf σ (c.set (x - 1) q) i ≠ (x, y) ∧
      cellOf σ (c.set (x - 1) q) i ≠ (x, y - 1) := by
  intro i hi hic'
  have hS : ∀ j, j < σ.length → j ∉ c → j ≠ q → cellOf σ c j = (x, y) →
      (j < q ∨ σ.getD j 0 < σ.getD q 0) ∧ (q < j → (x, y - 1) ∉ R) ∧
      (σ.getD q 0 < σ.getD j 0 → (x - 1, y) ∉ R) := by
    intro j hj hjc hjq hcell
    rw [cellOf_eq] at hcell
    have := hmax j hj hjc (Prod.mk.inj hcell).1 (Or.inl (Prod.mk.inj hcell).2)
    exact ⟨Or.inl (by omega), fun h => by omega, fun _ => h4⟩
  have h1 := H.free' R hfree h3 h5 h6 hS i hi hic'
  refine ⟨h1.1, h1.2, ?_⟩
  intro hcell
  rw [cellOf_eq] at hcell
  obtain ⟨hq, hic, hc, hr⟩ := H.newcell_in_strip hi hic' (Prod.mk.inj hcell).1 (Or.inr (Prod.mk.inj hcell).2)
  have := hmax i hi hic hc hr
  omega

end Corner

/-- the conditions of `north_east_simul_shading_lemma_conditions` for the cells `(x,y)`, `(x,y-1)` -/
structure NESimul (μ : Mesh) (x y : Nat) : Prop where
  hx : 1 ≤ x
  hpt : μ.pattern.getD (x - 1) 0 + 1 = y
  s3a : (x, y) ∉ μ.shading
  s3b : (x, y - 1) ∉ μ.shading
  s4a : (x - 1, y) ∉ μ.shading
  s4b : (x - 1, y - 1) ∉ μ.shading
  s5 : ∀ b, b ≤ μ.pattern.length → b ≠ y → b ≠ y - 1 → (x - 1, b) ∈ μ.shading → (x, b) ∈ μ.shading
  s6 : ∀ a, a ≤ μ.pattern.length → a ≠ x → a ≠ x - 1 → ((a, y) ∈ μ.shading ↔ (a, y - 1) ∈ μ.shading)

theorem neSimulB_iff (μ : Mesh) (x y : Nat) (p2 : Cell) :
    neSimulB μ (x, y) p2 = true ↔ p2 = (x, y - 1) ∧ NESimul μ x y := by
  unfold neSimulB simulColOk simulRowOk mlen
  simp only [Bool.and_eq_true, decide_eq_true_eq, Bool.not_eq_eq_eq_not, Bool.not_true,
    List.all_eq_true, List.mem_range, Bool.or_eq_true, beq_iff_eq, List.contains_iff_mem,
    ← Bool.not_eq_true]
  constructor
  · rintro ⟨⟨⟨⟨⟨⟨⟨h1, h2⟩, h3⟩, h4⟩, h5⟩, h6⟩, h7⟩, h8⟩
    have h5a : (x, y) ∉ μ.shading := fun h => h5 (Or.inl h)
    have h5b : p2 ∉ μ.shading := fun h => h5 (Or.inr h)
    have h6a : (x - 1, y) ∉ μ.shading := fun h => h6 (Or.inl h)
    have h6b : (p2.1 - 1, p2.2) ∉ μ.shading := fun h => h6 (Or.inr h)
    have hp2 : p2 = (x, y - 1) := by
      apply Prod.ext <;> simp only <;> omega
    subst hp2
    simp only at h5b h6b h8
    refine ⟨rfl, h1, h2, h5a, h5b, h6a, h6b, ?_, ?_⟩
    · intro b hb hne1 hne2 hm
      rcases h7 b (by omega) with ((h | h) | h) | h
      · omega
      · omega
      · exact absurd hm h
      · exact h
    · intro a ha hne1 hne2
      rcases h8 a (by omega) with (h | h) | h
      · omega
      · omega
      · by_cases hm : (a, y) ∈ μ.shading
        · simp only [hm, true_iff]; simpa [hm] using h
        · simp only [hm, false_iff]; simpa [hm] using h
  · rintro ⟨rfl, h1, h2, h5a, h5b, h6a, h6b, h7, h8⟩
    have hy : 1 ≤ y := by omega
    refine ⟨⟨⟨⟨⟨⟨⟨h1, h2⟩, rfl⟩, by simp only; omega⟩, fun h => h.elim h5a h5b⟩,
      fun h => h.elim h6a (by simpa using h6b)⟩, ?_⟩, ?_⟩
    · intro b hb
      by_cases e1 : b = y
      · exact Or.inl (Or.inl (Or.inl e1))
      by_cases e2 : b + 1 = y
      · exact Or.inl (Or.inl (Or.inr e2))
      by_cases hm : (x - 1, b) ∈ μ.shading
      · exact Or.inr (h7 b (by omega) e1 (by omega) hm)
      · exact Or.inl (Or.inr hm)
    · intro a ha
      by_cases e1 : a = x
      · exact Or.inl (Or.inl e1)
      by_cases e2 : a + 1 = x
      · exact Or.inl (Or.inr e2)
      refine Or.inr ?_
      have := h8 a (by omega) e1 (by omega)
      by_cases hm : (a, y) ∈ μ.shading
      · simp [hm, this.mp hm]
      · have hm' : (a, y - 1) ∉ μ.shading := fun h => hm (this.mpr h)
        simp [hm, hm']

theorem MeshEq.occ {μ ν : Mesh} (h : MeshEq μ ν) {σ : NSeq} {c : List Nat} (hc : MeshOcc μ σ c) :
    MeshOcc ν σ c :=
  ⟨h.1 ▸ hc.occ, fun i hi hic hm => hc.free i hi hic ((h.2 _).mpr hm)⟩

theorem mem_compMesh {μ : Mesh} (hμ : ValidMesh μ) {a b : Nat} (hb : b ≤ μ.pattern.length) :
    (a, b) ∈ (compMesh μ).shading ↔ (a, μ.pattern.length - b) ∈ μ.shading := by
  unfold compMesh
  simp only [List.mem_map, Prod.mk.injEq]
  constructor
  · rintro ⟨⟨u, v⟩, huv, h1, h2⟩
    simp only at h1 h2
    have := (hμ.2 _ huv).2
    simp only at this
    have e : μ.pattern.length - b = v := by omega
    rw [e, ← h1]; exact huv
  · intro h
    exact ⟨_, h, rfl, by simp only; omega⟩

/-- one direction of the simultaneous lemma -/
theorem simul_step {μ : Mesh} {x y : Nat} (hN : NESimul μ x y) (hxn : x ≤ μ.pattern.length)
    (hμ : ValidMesh μ) {σ : NSeq} (hσ : IsPerm σ) {c : List Nat} (hc : MeshOcc μ σ c) :
    ∃ c', MeshOcc (shade μ [(x, y), (x, y - 1)]) σ c' := by
  have hx := hN.hx
  have hyn : y ≤ μ.pattern.length := by
    have := hμ.1.getD_lt (show x - 1 < μ.pattern.length by omega)
    have := hN.hpt; omega
  have hy : 1 ≤ y := by have := hN.hpt; omega
  let S := (List.range σ.length).filter fun i =>
    decide (i ∉ c ∧ colOf c i = x ∧ (rowOf σ c i = y ∨ rowOf σ c i = y - 1))
  have hS : ∀ i, i ∈ S ↔ i < σ.length ∧ i ∉ c ∧ colOf c i = x ∧ (rowOf σ c i = y ∨ rowOf σ c i = y - 1) := by
    intro i; simp [S]
  by_cases hemp : S = []
  · refine ⟨c, hc.occ, ?_⟩
    intro i hi hic hm
    rcases mem_union.mp hm with hm | hm
    · exact hc.free i hi hic hm
    · have : i ∈ S := by
        rw [hS]
        refine ⟨hi, hic, ?_⟩
        rw [cellOf_eq] at hm
        simp only [List.mem_cons, Prod.mk.injEq, List.not_mem_nil, or_false] at hm
        rcases hm with ⟨h1, h2⟩ | ⟨h1, h2⟩
        · exact ⟨h1, Or.inl h2⟩
        · exact ⟨h1, Or.inr h2⟩
      rw [hemp] at this; simp at this
  · obtain ⟨q, hq, hmaxS⟩ := argmax_exists (fun i => i) S hemp
    obtain ⟨hqσ, hqc, hqcol, hqrow⟩ := (hS q).mp hq
    have hmax : ∀ i, i < σ.length → i ∉ c → colOf c i = x →
        (rowOf σ c i = y ∨ rowOf σ c i = y - 1) → i ≤ q :=
      fun i hi hic h1 h2 => hmaxS i ((hS i).mpr ⟨hi, hic, h1, h2⟩)
    rcases hqrow with hqrow | hqrow
    · -- the rightmost point lies in the upper cell
      have H : Corner μ.pattern σ c x y q :=
        ⟨hμ.1, hσ.1, hc.occ, hx, hxn, hN.hpt, hqσ, hqc, hqcol, hqrow⟩
      refine ⟨c.set (x - 1) q, H.occ', ?_⟩
      intro i hi hic hm
      have := H.free_simul μ.shading hc.free hN.s4b hN.s4a
        (fun a ha h1 h2 hm => (hN.s6 a ha h2 h1).mpr hm)
        (fun b hb h1 h2 hm => hN.s5 b hb h2 h1 hm) hmax i hi hic
      rcases mem_union.mp hm with hm | hm
      · exact this.1 hm
      · simp only [List.mem_cons, List.not_mem_nil, or_false] at hm
        rcases hm with hm | hm
        · exact this.2.1 hm
        · exact this.2.2 hm
    · -- the rightmost point lies in the lower cell: mirror everything
      have hc' := comp_step hμ hσ hc
      have hσ' := complement_isPerm hσ
      have hn' : (complement μ.pattern).length = μ.pattern.length := complement_length _
      have hcellq := comp_cell hσ hc.occ hqσ hqc
      rw [cellOf_eq] at hcellq
      have H : Corner (complement μ.pattern) (complement σ) c x (μ.pattern.length - y + 1) q := by
        refine ⟨complement_isPerm hμ.1, hσ'.1, hc'.occ, hx, by omega, ?_, by rw [complement_length]; exact hqσ,
          hqc, hqcol, ?_⟩
        · rw [complement_getD μ.pattern (by omega)]
          have := hN.hpt; omega
        · have := (Prod.mk.inj hcellq).2
          show rowOf (complement σ) c q = _
          rw [this, hqrow]; omega
      have e1 : μ.pattern.length - y + 1 - 1 = μ.pattern.length - y := by omega
      have m1 : ∀ a, (a, μ.pattern.length - y + 1) ∈ (compMesh μ).shading ↔ (a, y - 1) ∈ μ.shading := by
        intro a
        rw [mem_compMesh hμ (by omega), show μ.pattern.length - (μ.pattern.length - y + 1) = y - 1 by omega]
      have m2 : ∀ a, (a, μ.pattern.length - y) ∈ (compMesh μ).shading ↔ (a, y) ∈ μ.shading := by
        intro a
        rw [mem_compMesh hμ (by omega), show μ.pattern.length - (μ.pattern.length - y) = y by omega]
      have hfs := H.free_simul (compMesh μ).shading hc'.free
        (by rw [e1, m2]; exact hN.s4a) (by rw [m1]; exact hN.s4b)
        (by
          intro a ha h1 h2
          rw [e1, m1, m2]
          rw [hn'] at ha
          exact (hN.s6 a ha h2 h1).mp)
        (by
          intro b hb h1 h2
          rw [hn'] at hb
          rw [mem_compMesh hμ hb, mem_compMesh hμ hb]
          exact hN.s5 _ (by omega) (by omega) (by omega))
        (by
          intro i hi hic hcol hrow
          rw [complement_length] at hi
          have hcell := comp_cell hσ hc.occ hi hic
          rw [cellOf_eq] at hcell
          have hr : rowOf (complement σ) c i = μ.pattern.length - rowOf σ c i := (Prod.mk.inj hcell).2
          have hb : rowOf σ c i ≤ μ.pattern.length := hc.occ.len ▸ List.countP_le_length
          apply hmax i hi hic hcol
          rw [hr] at hrow
          omega)
      have hocc2 : MeshOcc (shade (compMesh μ) [(x, μ.pattern.length - y + 1), (x, μ.pattern.length - y)])
          (complement σ) (c.set (x - 1) q) := by
        refine ⟨H.occ', ?_⟩
        intro i hi hic hm
        have := hfs i hi hic
        rcases mem_union.mp hm with hm | hm
        · exact this.1 hm
        · simp only [List.mem_cons, List.not_mem_nil, or_false] at hm
          rcases hm with hm | hm
          · exact this.2.1 hm
          · rw [e1] at this; exact this.2.2 hm
      have hval : ValidMesh (shade μ [(x, y), (x, y - 1)]) := by
        refine ⟨hμ.1, fun d hd => ?_⟩
        rcases mem_union.mp hd with hd | hd
        · exact hμ.2 d hd
        · simp only [List.mem_cons, List.not_mem_nil, or_false] at hd
          rcases hd with rfl | rfl
          · exact ⟨hxn, hyn⟩
          · exact ⟨hxn, by show y - 1 ≤ μ.pattern.length; omega⟩
      have heq : MeshEq (shade (compMesh μ) [(x, μ.pattern.length - y + 1), (x, μ.pattern.length - y)])
          (compMesh (shade μ [(x, y), (x, y - 1)])) := by
        refine ⟨rfl, fun d => ?_⟩
        simp only [compMesh, shade, mem_union, List.mem_map, List.mem_cons, List.not_mem_nil, or_false]
        constructor
        · rintro (⟨e, he, rfl⟩ | rfl | rfl)
          · exact ⟨e, Or.inl he, rfl⟩
          · exact ⟨(x, y - 1), Or.inr (Or.inr rfl), by simp only [Prod.mk.injEq, true_and]; omega⟩
          · exact ⟨(x, y), Or.inr (Or.inl rfl), rfl⟩
        · rintro ⟨e, he | rfl | rfl, rfl⟩
          · exact Or.inl ⟨e, he, rfl⟩
          · exact Or.inr (Or.inr rfl)
          · refine Or.inr (Or.inl ?_)
            simp only [Prod.mk.injEq, true_and]; omega
      exact ⟨c.set (x - 1) q, comp_step_inv hval hσ (heq.occ hocc2)⟩

end Spec.C18
