import PermutaModel.Model.C08
/-! Strict total orders given by Boolean relations: `lexLt`, `permLt` (length, then lexicographic),
    list comparison `listLex`, cell comparison, the mesh sort key.  Core Lean only. -/
open Model Model.C08

/-- a Boolean relation that is a strict total order -/
structure StrictTotal {α : Type} (lt : α → α → Bool) : Prop where
  irrefl : ∀ a, lt a a = false
  trans : ∀ a b c, lt a b = true → lt b c = true → lt a c = true
  tri : ∀ a b, lt a b = true ∨ a = b ∨ lt b a = true

namespace StrictTotal
variable {α : Type} {lt : α → α → Bool}

theorem asymm (h : StrictTotal lt) {a b : α} (hab : lt a b = true) : lt b a = false := by
  cases hba : lt b a with
  | false => rfl
  | true => have := h.trans a b a hab hba; rw [h.irrefl] at this; exact absurd this (by decide)

theorem ne_of_lt (h : StrictTotal lt) {a b : α} (hab : lt a b = true) : a ≠ b := by
  intro e; subst e; rw [h.irrefl] at hab; exact absurd hab (by decide)

/-- exactly one of `a < b`, `a = b`, `b < a` -/
theorem not_lt_iff (h : StrictTotal lt) (a b : α) : lt a b = false ↔ (a = b ∨ lt b a = true) := by
  constructor
  · intro hf
    rcases h.tri a b with h1 | h1 | h1
    · rw [hf] at h1; exact absurd h1 (by decide)
    · exact Or.inl h1
    · exact Or.inr h1
  · rintro (rfl | h1)
    · exact h.irrefl a
    · exact h.asymm h1

end StrictTotal

theorem natLt_strictTotal : StrictTotal (fun a b : Nat => decide (a < b)) where
  irrefl := by intro a; simp
  trans := by intro a b c h1 h2; simp at *; omega
  tri := by intro a b; simp; omega

/-! ### `listLex` -/

theorem listLex_cons_self {α : Type} [BEq α] [LawfulBEq α] (lt : α → α → Bool) (x : α) (xs ys : List α) :
    listLex lt (x :: xs) (x :: ys) = listLex lt xs ys := by
  simp [listLex]

theorem listLex_cons_ne {α : Type} [BEq α] [LawfulBEq α] (lt : α → α → Bool) {x y : α} (h : x ≠ y)
    (xs ys : List α) : listLex lt (x :: xs) (y :: ys) = lt x y := by
  have : (x == y) = false := by simp [h]
  simp [listLex, this]

theorem listLex_strictTotal {α : Type} [BEq α] [LawfulBEq α] {lt : α → α → Bool} (h : StrictTotal lt) :
    StrictTotal (listLex lt) where
  irrefl := by
    intro a
    induction a with
    | nil => rfl
    | cons x xs ih => rw [listLex_cons_self]; exact ih
  trans := by
    intro a
    induction a with
    | nil =>
      intro b c h1 h2
      cases b with
      | nil => simp [listLex] at h1
      | cons y ys =>
        cases c with
        | nil => simp [listLex] at h2
        | cons z zs => rfl
    | cons x xs ih =>
      intro b c h1 h2
      cases b with
      | nil => simp [listLex] at h1
      | cons y ys =>
        cases c with
        | nil => simp [listLex] at h2
        | cons z zs =>
          by_cases hxy : x = y
          · subst hxy
            rw [listLex_cons_self] at h1
            by_cases hxz : x = z
            · subst hxz
              rw [listLex_cons_self] at h2 ⊢
              exact ih ys zs h1 h2
            · rw [listLex_cons_ne lt hxz] at h2 ⊢
              exact h2
          · rw [listLex_cons_ne lt hxy] at h1
            by_cases hyz : y = z
            · subst hyz
              rw [listLex_cons_ne lt hxy]
              exact h1
            · rw [listLex_cons_ne lt hyz] at h2
              have hxz := h.trans x y z h1 h2
              rw [listLex_cons_ne lt (h.ne_of_lt hxz)]
              exact hxz
  tri := by
    intro a
    induction a with
    | nil =>
      intro b
      cases b with
      | nil => exact Or.inr (Or.inl rfl)
      | cons y ys => exact Or.inl rfl
    | cons x xs ih =>
      intro b
      cases b with
      | nil => exact Or.inr (Or.inr rfl)
      | cons y ys =>
        by_cases hxy : x = y
        · subst hxy
          rw [listLex_cons_self, listLex_cons_self]
          rcases ih ys with h1 | h1 | h1
          · exact Or.inl h1
          · exact Or.inr (Or.inl (by rw [h1]))
          · exact Or.inr (Or.inr h1)
        · have hyx : y ≠ x := fun e => hxy e.symm
          rw [listLex_cons_ne lt hxy, listLex_cons_ne lt hyx]
          rcases h.tri x y with h1 | h1 | h1
          · exact Or.inl h1
          · exact absurd h1 hxy
          · exact Or.inr (Or.inr h1)

/-! ### `lexLt` (Spec/Basic) is `listLex` on naturals -/

theorem lexLt_eq_listLex : ∀ a b : List Nat, lexLt a b = listLex (fun x y => decide (x < y)) a b
  | [], [] => rfl
  | [], _ :: _ => rfl
  | _ :: _, [] => rfl
  | x :: xs, y :: ys => by
    simp only [lexLt, listLex, lexLt_eq_listLex xs ys]
    by_cases hxy : x = y
    · subst hxy; simp
    · have : (x == y) = false := by simp [hxy]
      simp [this]

theorem lexLt_strictTotal : StrictTotal lexLt := by
  have h := listLex_strictTotal natLt_strictTotal
  constructor
  · intro a; rw [lexLt_eq_listLex]; exact h.irrefl a
  · intro a b c; rw [lexLt_eq_listLex, lexLt_eq_listLex, lexLt_eq_listLex]; exact h.trans a b c
  · intro a b; rw [lexLt_eq_listLex, lexLt_eq_listLex]; exact h.tri a b

/-- `lexLt` is the lexicographic order of core Lean on lists of naturals -/
theorem lexLt_iff_lt : ∀ a b : List Nat, lexLt a b = true ↔ a < b
  | [], [] => by simp [lexLt]
  | [], _ :: _ => by simp [lexLt]
  | _ :: _, [] => by simp [lexLt]
  | x :: xs, y :: ys => by
    simp only [lexLt, Bool.or_eq_true, Bool.and_eq_true, decide_eq_true_eq, beq_iff_eq, lexLt_iff_lt xs ys,
      List.cons_lt_cons_iff]

/-! ### `permLt`: by length, then lexicographically -/

theorem permLt_iff (a b : NSeq) :
    permLt a b = true ↔ a.length < b.length ∨ (a.length = b.length ∧ lexLt a b = true) := by
  simp [permLt]

theorem permLt_strictTotal : StrictTotal permLt where
  irrefl := by intro a; simp [permLt, lexLt_strictTotal.irrefl]
  trans := by
    intro a b c h1 h2
    rw [permLt_iff] at *
    rcases h1 with h1 | ⟨e1, h1⟩ <;> rcases h2 with h2 | ⟨e2, h2⟩
    · left; omega
    · left; omega
    · left; omega
    · right; exact ⟨by omega, lexLt_strictTotal.trans a b c h1 h2⟩
  tri := by
    intro a b
    simp only [permLt_iff]
    rcases Nat.lt_trichotomy a.length b.length with h | h | h
    · exact Or.inl (Or.inl h)
    · rcases lexLt_strictTotal.tri a b with h1 | h1 | h1
      · exact Or.inl (Or.inr ⟨h, h1⟩)
      · exact Or.inr (Or.inl h1)
      · exact Or.inr (Or.inr (Or.inr ⟨h.symm, h1⟩))
    · exact Or.inr (Or.inr (Or.inl h))

theorem permLe_iff (a b : NSeq) : permLe a b = true ↔ permLt a b = true ∨ a = b := by
  simp [permLe]

/-! ### cells and the mesh key -/

theorem cellLt_strictTotal : StrictTotal cellLt where
  irrefl := by intro a; simp [cellLt]
  trans := by
    intro a b c h1 h2
    simp only [cellLt, Bool.or_eq_true, Bool.and_eq_true, decide_eq_true_eq, beq_iff_eq] at *
    omega
  tri := by
    intro a b
    obtain ⟨a1, a2⟩ := a
    obtain ⟨b1, b2⟩ := b
    simp only [cellLt, Bool.or_eq_true, Bool.and_eq_true, decide_eq_true_eq, beq_iff_eq, Prod.mk.injEq]
    omega

theorem cellsLt_strictTotal : StrictTotal cellsLt := listLex_strictTotal cellLt_strictTotal

theorem meshKeyEq_iff (a b : MObj) : meshKeyEq a b = true ↔ a.pattern = b.pattern ∧ a.shading = b.shading := by
  simp [meshKeyEq]

theorem meshKeyLt_irrefl (a : MObj) : meshKeyLt a a = false := by
  simp [meshKeyLt, cellsLt_strictTotal.irrefl]

theorem meshKeyLt_trans (a b c : MObj) (h1 : meshKeyLt a b = true) (h2 : meshKeyLt b c = true) :
    meshKeyLt a c = true := by
  simp only [meshKeyLt, beq_iff_eq] at *
  by_cases hab : a.pattern = b.pattern
  · simp only [hab, ↓reduceIte] at h1
    by_cases hbc : b.pattern = c.pattern
    · simp only [hbc, ↓reduceIte] at h2
      simp only [hab, hbc, ↓reduceIte]
      exact cellsLt_strictTotal.trans _ _ _ h1 h2
    · simp only [hbc, ↓reduceIte] at h2
      simp only [hab, hbc, ↓reduceIte]
      exact h2
  · simp only [hab, ↓reduceIte] at h1
    by_cases hbc : b.pattern = c.pattern
    · simp only [← hbc, hab, ↓reduceIte]
      exact h1
    · simp only [hbc, ↓reduceIte] at h2
      have h3 := permLt_strictTotal.trans _ _ _ h1 h2
      have : a.pattern ≠ c.pattern := permLt_strictTotal.ne_of_lt h3
      simp only [this, ↓reduceIte]
      exact h3

theorem meshKeyLt_tri (a b : MObj) :
    meshKeyLt a b = true ∨ meshKeyEq a b = true ∨ meshKeyLt b a = true := by
  simp only [meshKeyLt, meshKeyEq, beq_iff_eq, Bool.and_eq_true]
  by_cases hab : a.pattern = b.pattern
  · have hba : b.pattern = a.pattern := hab.symm
    simp only [hab, ↓reduceIte]
    rcases cellsLt_strictTotal.tri a.shading b.shading with h | h | h
    · exact Or.inl h
    · exact Or.inr (Or.inl ⟨trivial, h⟩)
    · exact Or.inr (Or.inr h)
  · have hba : ¬ b.pattern = a.pattern := fun e => hab e.symm
    simp only [hab, hba, ↓reduceIte]
    rcases permLt_strictTotal.tri a.pattern b.pattern with h | h | h
    · exact Or.inl h
    · exact absurd h hab
    · exact Or.inr (Or.inr h)

theorem meshKeyLt_asymm (a b : MObj) (h : meshKeyLt a b = true) : meshKeyLt b a = false := by
  cases hba : meshKeyLt b a with
  | false => rfl
  | true => have := meshKeyLt_trans a b a h hba; rw [meshKeyLt_irrefl] at this; exact absurd this (by decide)

theorem meshKeyLt_not_eq (a b : MObj) (h : meshKeyLt a b = true) : meshKeyEq a b = false := by
  cases he : meshKeyEq a b with
  | false => rfl
  | true =>
    rw [meshKeyEq_iff] at he
    simp only [meshKeyLt, he.1, he.2, beq_self_eq_true, ↓reduceIte, cellsLt_strictTotal.irrefl] at h
    exact absurd h (by decide)
