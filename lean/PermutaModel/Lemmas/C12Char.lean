import PermutaModel.Lemmas.C12West
import PermutaModel.Lemmas.C12QuickChar
import PermutaModel.Props.C03
/-! C12: everything `Props/C12.lean` needs for the West-2 and quicksort pattern characterisations
    (one import line there). -/
