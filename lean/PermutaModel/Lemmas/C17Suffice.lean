import PermutaModel.Lemmas.C17Contain
/-! the sanity checks `patterns_suffice_for_good/bad` decide avoidance / containment -/

namespace Model.C17

theorem sufficeGood_true_iff (SG : PattDict) (stop : Bool) (Dk : Nat → Option (List NSeq)) (ks : List Nat) :
    (sufficeGood SG stop Dk ks).1 = true ↔
      ∀ k ∈ ks, ∃ As, Dk k = some As ∧ ∀ a ∈ As, permContainsDict a SG = false := by
  induction ks with
  | nil => simp [sufficeGood]
  | cons k ks ih =>
    unfold sufficeGood
    cases hD : Dk k with
    | none =>
      simp only [Bool.false_eq_true, false_iff]
      intro h
      obtain ⟨As, hAs, _⟩ := h k (by simp)
      rw [hD] at hAs; cases hAs
    | some As =>
      simp only
      by_cases hE : (As.filter fun a => permContainsDict a SG).isEmpty = true
      · simp only [hE, if_true]
        rw [ih]
        have hall : ∀ a ∈ As, permContainsDict a SG = false := by
          intro a ha
          rw [List.isEmpty_iff, List.filter_eq_nil_iff] at hE
          simpa using hE a ha
        constructor
        · intro h k' hk'
          rcases List.mem_cons.mp hk' with rfl | hk'
          · exact ⟨As, hD, hall⟩
          · exact h k' hk'
        · intro h k' hk'; exact h k' (List.mem_cons_of_mem _ hk')
      · simp only [hE, Bool.false_eq_true, if_false]
        have hfalse : (if stop = true then (false, (As.filter fun a => permContainsDict a SG).take 1)
            else (false, As.filter fun a => permContainsDict a SG)).1 = false := by
          split <;> rfl
        rw [hfalse]
        simp only [Bool.false_eq_true, false_iff]
        intro h
        obtain ⟨As', hAs', hall⟩ := h k (by simp)
        rw [hD] at hAs'; cases hAs'
        apply hE
        rw [List.isEmpty_iff, List.filter_eq_nil_iff]
        intro a ha; simpa using hall a ha

theorem sufficeBad_true_iff (SG : PattDict) (stop : Bool) (Dk : Nat → Option (List NSeq)) (ks : List Nat) :
    (sufficeBad SG stop Dk ks).1 = true ↔
      ∀ k ∈ ks, ∃ Bs, Dk k = some Bs ∧ ∀ b ∈ Bs, permContainsDict b SG = true := by
  induction ks with
  | nil => simp [sufficeBad]
  | cons k ks ih =>
    unfold sufficeBad
    cases hD : Dk k with
    | none =>
      simp only [Bool.false_eq_true, false_iff]
      intro h
      obtain ⟨Bs, hBs, _⟩ := h k (by simp)
      rw [hD] at hBs; cases hBs
    | some Bs =>
      simp only
      by_cases hE : (Bs.filter fun b => !permContainsDict b SG).isEmpty = true
      · simp only [hE, if_true]
        rw [ih]
        have hall : ∀ b ∈ Bs, permContainsDict b SG = true := by
          intro b hb
          rw [List.isEmpty_iff, List.filter_eq_nil_iff] at hE
          simpa using hE b hb
        constructor
        · intro h k' hk'
          rcases List.mem_cons.mp hk' with rfl | hk'
          · exact ⟨Bs, hD, hall⟩
          · exact h k' hk'
        · intro h k' hk'; exact h k' (List.mem_cons_of_mem _ hk')
      · simp only [hE, Bool.false_eq_true, if_false]
        have hfalse : (if stop = true then (false, (Bs.filter fun b => !permContainsDict b SG).take 1)
            else (false, Bs.filter fun b => !permContainsDict b SG)).1 = false := by
          split <;> rfl
        rw [hfalse]
        simp only [Bool.false_eq_true, false_iff]
        intro h
        obtain ⟨Bs', hBs', hall⟩ := h k (by simp)
        rw [hD] at hBs'; cases hBs'
        apply hE
        rw [List.isEmpty_iff, List.filter_eq_nil_iff]
        intro b hb; simpa using hall b hb

end Model.C17
