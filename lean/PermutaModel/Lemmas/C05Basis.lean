import PermutaModel.Props.C01
import PermutaModel.Lemmas.Contains
import PermutaModel.Lemmas.PySort
import PermutaModel.Model.C05
import PermutaModel.Spec.C05
import Mathlib.Data.List.Sort
/-! The classical `Basis` construction: invariants of the pruning loop and the characterisation of
    its result as *the* sorted antichain that covers the input. -/
open Model Model.C05 Spec.C05

namespace C05

/-- the sort key `(length, lexicographic)` is a linear extension of containment -/
theorem permLt_of_contains {q p : NSeq} (h : Contains q p) (hq : IsPerm q) (hp : IsPerm p) (hne : p ≠ q) :
    permLt p q = true := by
  rw [permLt_iff]
  rcases Nat.lt_or_ge p.length q.length with hl | hl
  · exact Or.inl hl
  · exact absurd (h.eq_of_length_eq hq hp (Nat.le_antisymm h.length_le hl)).symm hne

theorem contains_nil (σ : NSeq) : Contains σ [] :=
  ⟨[], rfl, List.Pairwise.nil, by simp, by intro a b ha; simp at ha⟩

theorem avoidsAll_true_iff (p : NSeq) (acc : List NSeq) (hp : IsPerm p) (hacc : ∀ q ∈ acc, IsPerm q) :
    avoidsAll p acc = true ↔ ∀ q ∈ acc, ¬ Contains p q :=
  C01.avoidsAll_iff p acc hp hacc

/-- what the pruning loop guarantees (sorted input whose elements are permutations) -/
structure GoInv (acc R : List NSeq) (rest : List NSeq) : Prop where
  sub : ∀ x ∈ R, x ∈ acc ++ rest
  anti : Antichain R
  cover : Covers R (acc ++ rest)
  sorted : R.Pairwise (fun a b => permLt a b = true)

theorem prunerGo_inv : ∀ (rest acc : List NSeq),
    (∀ x ∈ acc ++ rest, IsPerm x) →
    (acc ++ rest).Pairwise (fun a b => permLt b a = false) →
    Antichain acc → acc.Pairwise (fun a b => permLt a b = true) →
    GoInv acc (prunerGo acc rest) rest
  | [], acc, _, _, hanti, hsorted => by
    simp only [prunerGo]
    exact ⟨fun x hx => by simpa using hx, hanti, fun x hx => ⟨x, by simpa using hx, Contains.refl x⟩, hsorted⟩
  | p :: ps, acc, hperm, hs, hanti, hsorted => by
    have hp : IsPerm p := hperm p (by simp)
    have hacc : ∀ q ∈ acc, IsPerm q := fun q hq => hperm q (by simp [hq])
    have hle : ∀ q ∈ acc, permLt p q = false := by
      intro q hq
      exact (List.pairwise_append.mp hs).2.2 q hq p (List.mem_cons_self ..)
    unfold prunerGo
    by_cases hav : avoidsAll p acc = true
    · rw [if_pos hav]
      have hav' := (avoidsAll_true_iff p acc hp hacc).mp hav
      have hne : ∀ q ∈ acc, p ≠ q := fun q hq e => hav' q hq (e ▸ Contains.refl p)
      have hanti' : Antichain (acc ++ [p]) := by
        unfold Antichain
        rw [List.pairwise_append]
        refine ⟨hanti, List.pairwise_singleton _ _, ?_⟩
        intro q hq x hx
        rw [List.mem_singleton] at hx
        subst hx
        refine ⟨?_, hav' q hq⟩
        intro hc
        have := permLt_of_contains hc (hacc q hq) hp (hne q hq)
        rw [hle q hq] at this
        exact absurd this (by decide)
      have hsorted' : (acc ++ [p]).Pairwise (fun a b => permLt a b = true) := by
        rw [List.pairwise_append]
        refine ⟨hsorted, List.pairwise_singleton _ _, ?_⟩
        intro q hq x hx
        rw [List.mem_singleton] at hx
        subst hx
        rcases permLt_strictTotal.tri q x with h | h | h
        · exact h
        · exact absurd h.symm (hne q hq)
        · rw [hle q hq] at h; exact absurd h (by decide)
      have ih := prunerGo_inv ps (acc ++ [p]) (by simpa using hperm) (by simpa using hs) hanti' hsorted'
      exact ⟨by simpa using ih.sub, ih.anti, by simpa using ih.cover, ih.sorted⟩
    · rw [if_neg hav]
      have hs' : (acc ++ ps).Pairwise (fun a b => permLt b a = false) := by
        rw [List.pairwise_append] at hs ⊢
        exact ⟨hs.1, (List.pairwise_cons.mp hs.2.1).2, fun a ha b hb => hs.2.2 a ha b (List.mem_cons_of_mem _ hb)⟩
      have ih := prunerGo_inv ps acc (fun x hx => hperm x (by simp at hx ⊢; tauto)) hs' hanti hsorted
      refine ⟨fun x hx => ?_, ih.anti, ?_, ih.sorted⟩
      · have := ih.sub x hx; simp at this ⊢; tauto
      · intro x hx
        simp only [List.mem_append, List.mem_cons] at hx
        rcases hx with hx | rfl | hx
        · exact ih.cover x (by simp [hx])
        · -- p contains some q ∈ acc, which survives (acc is a prefix of the result: it is covered)
          have : ¬ ∀ q ∈ acc, ¬ Contains x q := fun h => hav ((avoidsAll_true_iff x acc hp hacc).mpr h)
          have : ∃ q ∈ acc, Contains x q := by
            by_contra hcon
            exact this (fun q hq hc => hcon ⟨q, hq, hc⟩)
          obtain ⟨q, hq, hc⟩ := this
          obtain ⟨b, hb, hqb⟩ := ih.cover q (by simp [hq])
          exact ⟨b, hb, hc.trans hqb⟩
        · exact ih.cover x (by simp [hx])

/-- `R` is the basis of the pattern set `S`: a strictly sorted antichain inside `S` that covers `S` -/
structure IsBasisOf (R S : List NSeq) : Prop where
  sub : ∀ x ∈ R, x ∈ S
  anti : Antichain R
  cover : Covers R S
  sorted : R.Pairwise (fun a b => permLt a b = true)

theorem mergeSort_sorted (l : List NSeq) : (l.mergeSort permLe).Pairwise (fun a b => permLt b a = false) := by
  have hm : (l.mergeSort permLe).Pairwise (fun a b => permLe a b = true) := by
    apply List.pairwise_mergeSort
    · intro a b c h1 h2
      rw [permLe_iff] at *
      rcases h1 with h1 | rfl
      · rcases h2 with h2 | rfl
        · exact Or.inl (permLt_strictTotal.trans _ _ _ h1 h2)
        · exact Or.inl h1
      · exact h2
    · intro a b
      simp only [Bool.or_eq_true, permLe_iff]
      rcases permLt_strictTotal.tri a b with h | h | h
      · exact Or.inl (Or.inl h)
      · exact Or.inl (Or.inr h)
      · exact Or.inr (Or.inl h)
  refine hm.imp ?_
  intro a b hab
  rw [permLe_iff] at hab
  rcases hab with h | rfl
  · exact permLt_strictTotal.asymm h
  · exact permLt_strictTotal.irrefl a

/-- **the construction computes the basis of its input** -/
theorem basisNew_isBasisOf (l : List NSeq) (hperm : ∀ x ∈ l, IsPerm x) : IsBasisOf (basisNew l) l := by
  unfold basisNew
  by_cases he : l.isEmpty = true
  · rw [if_pos he]
    have : l = [] := List.isEmpty_iff.mp he
    subst this
    exact ⟨by simp, List.Pairwise.nil, by intro x hx; simp at hx, List.Pairwise.nil⟩
  · rw [if_neg he]
    have hmem : ∀ x, x ∈ l.mergeSort permLe ↔ x ∈ l := fun x => List.mem_mergeSort
    have hs := mergeSort_sorted l
    cases hms : l.mergeSort permLe with
    | nil =>
      have : l = [] := by
        cases l with
        | nil => rfl
        | cons a t => have := (hmem a).mpr (List.mem_cons_self ..); rw [hms] at this; simp at this
      simp [this] at he
    | cons p0 rest =>
      rw [hms] at hs
      simp only [pruner]
      by_cases h0 : p0.length = 0
      · rw [if_pos h0]
        have hp0 : p0 = [] := List.eq_nil_of_length_eq_zero h0
        subst hp0
        refine ⟨?_, List.pairwise_singleton _ _, ?_, List.pairwise_singleton _ _⟩
        · intro x hx; rw [List.mem_singleton] at hx; subst hx
          exact (hmem []).mp (by rw [hms]; exact List.mem_cons_self ..)
        · intro x _; exact ⟨[], List.mem_singleton.mpr rfl, contains_nil x⟩
      · rw [if_neg h0]
        have hperm' : ∀ x ∈ ([] : List NSeq) ++ (p0 :: rest), IsPerm x := by
          intro x hx; exact hperm x ((hmem x).mp (by rw [hms]; simpa using hx))
        have inv := prunerGo_inv (p0 :: rest) [] hperm' (by simpa using hs) List.Pairwise.nil List.Pairwise.nil
        refine ⟨?_, inv.anti, ?_, inv.sorted⟩
        · intro x hx
          have := inv.sub x hx
          exact (hmem x).mp (by rw [hms]; simpa using this)
        · intro x hx
          exact inv.cover x (by simpa [hms] using (hmem x).mpr hx)

/-- the basis of a pattern set is unique -/
theorem isBasisOf_unique {R R' S S' : List NSeq} (h : IsBasisOf R S) (h' : IsBasisOf R' S')
    (hS : ∀ x, x ∈ S ↔ x ∈ S') (hperm : ∀ x ∈ S, IsPerm x) : R = R' := by
  have key : ∀ {A A' T T' : List NSeq}, IsBasisOf A T → IsBasisOf A' T' → (∀ x, x ∈ T ↔ x ∈ T') →
      (∀ x ∈ T, IsPerm x) → ∀ a ∈ A, a ∈ A' := by
    intro A A' T T' hA hA' hT hp a ha
    obtain ⟨a', ha', hc1⟩ := hA'.cover a ((hT a).mp (hA.sub a ha))
    obtain ⟨a'', ha'', hc2⟩ := hA.cover a' ((hT a').mpr (hA'.sub a' ha'))
    -- a contains a'' with both in the antichain A: they coincide
    have hc := hc1.trans hc2
    have haa : a = a'' := by
      by_contra hne
      have hpw := hA.anti
      unfold Antichain at hpw
      rcases List.pairwise_iff_getElem.mp hpw with hget
      obtain ⟨i, hi, rfl⟩ := List.getElem_of_mem ha
      obtain ⟨j, hj, rfl⟩ := List.getElem_of_mem ha''
      rcases Nat.lt_trichotomy i j with hij | hij | hij
      · exact (hget i j hi hj hij).1 hc
      · subst hij; exact hne rfl
      · exact (hget j i hj hi hij).2 hc
    subst haa
    have hpa : IsPerm a := hp a (hA.sub a ha)
    have hpa' : IsPerm a' := hp a' ((hT a').mpr (hA'.sub a' ha'))
    have : a = a' := hc1.antisymm hc2 hpa hpa'
    exact this ▸ ha'
  have hmem : ∀ x, x ∈ R ↔ x ∈ R' :=
    fun x => ⟨key h h' hS hperm x, key h' h (fun y => (hS y).symm) (fun y hy => hperm y ((hS y).mpr hy)) x⟩
  have hnd : R.Nodup := h.sorted.imp (fun hab => permLt_strictTotal.ne_of_lt hab)
  have hnd' : R'.Nodup := h'.sorted.imp (fun hab => permLt_strictTotal.ne_of_lt hab)
  have hp : R.Perm R' := (List.perm_ext_iff_of_nodup hnd hnd').mpr hmem
  exact PySort.sorted_perm_unique permLt_strictTotal R R' hp
    (h.sorted.imp (fun hab => permLt_strictTotal.asymm hab))
    (h'.sorted.imp (fun hab => permLt_strictTotal.asymm hab))

/-- a concrete listing (evaluated on the specification side: the search itself is a well-founded recursion) -/
theorem occ_01_01 : occurrencesIn [0,1] [0,1] = [[0,1]] := by
  rw [C01.occurrencesIn_eq_spec _ _ (by decide) (by decide)]; decide

end C05
