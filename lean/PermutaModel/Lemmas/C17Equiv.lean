import PermutaModel.Lemmas.C17Run
/-! Order independence (part 2): `forb` as a relation `BadRun` (every call of the hitting-set
    recursion is an arbitrary `HitRun`), the equivalence "same keys, same patterns, per pattern the
    same set of cell sets" on learned dictionaries, and: two runs on `goodpatts` dictionaries with
    the same hitting sets produce equivalent, duplicate-free dictionaries. -/

namespace Model.C17

/-- the two lists denote the same set of sets of cells -/
def ShsEquiv (Rs Rs' : List Shading) : Prop :=
  (∀ R ∈ Rs, ∃ R' ∈ Rs', SetEq R R') ∧ (∀ R' ∈ Rs', ∃ R ∈ Rs, SetEq R R')

/-- same classical patterns in the same order, equivalent shading lists -/
def LevelEquiv (lv lv' : Level) : Prop :=
  List.Forall₂ (fun e e' => e.1 = e'.1 ∧ ShsEquiv e.2 e'.2) lv lv'

/-- same lengths in the same order, equivalent levels -/
def DictEquiv (d d' : PattDict) : Prop :=
  List.Forall₂ (fun lv lv' => lv.1 = lv'.1 ∧ LevelEquiv lv.2 lv'.2) d d'

/-- no repeated cell in a set, no set listed twice -/
def CleanShs (Rs : List Shading) : Prop :=
  (∀ R ∈ Rs, R.Nodup) ∧ Rs.Pairwise fun a b => ¬ SetEq a b

def CleanDict (d : PattDict) : Prop := ∀ lv ∈ d, ∀ e ∈ lv.2, CleanShs e.2

theorem ShsEquiv.refl (Rs : List Shading) : ShsEquiv Rs Rs :=
  ⟨fun R hR => ⟨R, hR, SetEq.refl R⟩, fun R hR => ⟨R, hR, SetEq.refl R⟩⟩

theorem ShsEquiv.nil_iff {Rs Rs' : List Shading} (h : ShsEquiv Rs Rs') : Rs = [] ↔ Rs' = [] := by
  constructor
  · rintro rfl
    cases Rs' with
    | nil => rfl
    | cons a t => obtain ⟨R, hR, _⟩ := h.2 a (by simp); cases hR
  · rintro rfl
    cases Rs with
    | nil => rfl
    | cons a t => obtain ⟨R, hR, _⟩ := h.1 a (by simp); cases hR

theorem LevelEquiv.refl (lv : Level) : LevelEquiv lv lv := by
  unfold LevelEquiv
  induction lv with
  | nil => exact .nil
  | cons a t ih => exact .cons ⟨rfl, ShsEquiv.refl _⟩ ih

/-! ### the tests used by `forb` do not distinguish equivalent dictionaries -/

theorem disjointB_congr (X : Shading) {R R' : Shading} (h : SetEq R R') :
    disjointB X R = disjointB X R' := by
  rw [Bool.eq_iff_iff, disjointB_iff, disjointB_iff]
  exact ⟨fun h1 c hc hc' => h1 c hc ((h c).mpr hc'), fun h1 c hc hc' => h1 c hc ((h c).mp hc')⟩

theorem subsetB_congr_left (X : Shading) {R R' : Shading} (h : SetEq R R') :
    subsetB R X = subsetB R' X := by
  rw [Bool.eq_iff_iff, subsetB_iff, subsetB_iff]
  exact ⟨fun h1 c hc => h1 c ((h c).mpr hc), fun h1 c hc => h1 c ((h c).mp hc)⟩

theorem meshContainsPos_congr (perm : NSeq) (S : Shading) (occs : List (List Nat))
    {Rs Rs' : List Shading} (h : ShsEquiv Rs Rs') :
    meshContainsPos perm S occs Rs = meshContainsPos perm S occs Rs' := by
  have one : ∀ Rs Rs' : List Shading, (∀ R ∈ Rs, ∃ R' ∈ Rs', SetEq R R') →
      meshContainsPos perm S occs Rs = true → meshContainsPos perm S occs Rs' = true := by
    intro Rs Rs' hsub hc
    unfold meshContainsPos at *
    rw [List.any_eq_true] at *
    obtain ⟨c, hc, h⟩ := hc
    refine ⟨c, hc, ?_⟩
    rw [List.any_eq_true] at *
    obtain ⟨R, hR, h⟩ := h
    obtain ⟨R', hR', he⟩ := hsub R hR
    refine ⟨R', hR', ?_⟩
    rw [← disjointB_congr _ he, ← subsetB_congr_left _ he]; exact h
  rw [Bool.eq_iff_iff]
  exact ⟨one Rs Rs' h.1, one Rs' Rs (fun R hR => by
    obtain ⟨R', hR', he⟩ := h.2 R hR; exact ⟨R', hR', he.symm⟩)⟩

theorem any_levelEquiv {lv lv' : Level} (h : LevelEquiv lv lv') (f : NSeq → List Shading → Bool)
    (hf : ∀ p Rs Rs', ShsEquiv Rs Rs' → f p Rs = f p Rs') :
    (lv.any fun e => f e.1 e.2) = lv'.any fun e => f e.1 e.2 := by
  unfold LevelEquiv at h
  induction h with
  | nil => rfl
  | @cons a b l1 l2 hab _ ih =>
    simp only [List.any_cons, ih]
    obtain ⟨h1, h2⟩ := hab
    rw [← h1, hf a.1 a.2 b.2 h2]

theorem lookup_dictEquiv {d d' : PattDict} (h : DictEquiv d d') (j : Nat) :
    LevelEquiv ((d.lookup j).getD []) ((d'.lookup j).getD []) := by
  unfold DictEquiv at h
  induction h with
  | nil => exact .nil
  | @cons a b l1 l2 hab _ ih =>
    obtain ⟨k, lv⟩ := a
    obtain ⟨k', lv'⟩ := b
    obtain ⟨h1, h2⟩ := hab
    simp only at h1 h2
    subst h1
    simp only [List.lookup_cons]
    by_cases hk : j == k
    · simp only [hk]; exact h2
    · simp only [hk]; exact ih

theorem prunable_congr (perm : NSeq) (S : Shading) {bad bad' : PattDict} (h : DictEquiv bad bad')
    (ci : List Nat) : prunable perm S bad ci = prunable perm S bad' ci := by
  unfold prunable
  congr 1
  funext j
  exact any_levelEquiv (lookup_dictEquiv h j) (fun p Rs => meshContainsPos perm S (occurrencesIn p perm) Rs)
    (fun p Rs Rs' he => meshContainsPos_congr perm S _ he)

theorem noneBranch_congr (perm : NSeq) {bad bad' : PattDict} (h : DictEquiv bad bad') (ci : List Nat) :
    ((ci.takeWhile fun j => j != perm.length).any fun j =>
        ((bad.lookup j).getD []).any fun e => meshContainsMany perm [] e.1 e.2) =
    ((ci.takeWhile fun j => j != perm.length).any fun j =>
        ((bad'.lookup j).getD []).any fun e => meshContainsMany perm [] e.1 e.2) := by
  congr 1
  funext j
  exact any_levelEquiv (lookup_dictEquiv h j) (fun p Rs => meshContainsMany perm [] p Rs)
    (fun p Rs Rs' he => by unfold meshContainsMany; exact meshContainsPos_congr perm [] _ he)

theorem minAdm_congr (perm : NSeq) {bad bad' : PattDict} (h : DictEquiv bad bad') (ci : List Nat)
    {Ls Ls' : List Shading} (hL : ∀ H, HitsAll H Ls ↔ HitsAll H Ls') (R : Shading) :
    MinAdm perm bad ci Ls R → MinAdm perm bad' ci Ls' R := by
  rintro ⟨h1, h2, h3⟩
  refine ⟨(hL R).mp h1, by rw [← prunable_congr perm R h ci]; exact h2, ?_⟩
  intro H hH hp
  exact h3 H ((hL H).mpr hH) (by rw [prunable_congr perm H h ci]; exact hp)

/-! ### `find_badpatts` with an arbitrary run of the recursion -/

/-- one possible result of `find_badpatts(perm)` -/
def FindRun (gp : List Level) (bad : PattDict) (ci : List Nat) (perm : NSeq) (out : List Shading) : Prop :=
  (∃ Ls r, alGet (gp.getD perm.length []) perm = some Ls ∧ HitRun perm bad ci [] [] Ls r ∧
      out = finalize r) ∨
  (alGet (gp.getD perm.length []) perm = none ∧ out = findBadpatts gp bad ci perm)

theorem findBadpatts_isRun (gp : List Level) (bad : PattDict) (ci : List Nat) (perm : NSeq) :
    FindRun gp bad ci perm (findBadpatts gp bad ci perm) := by
  unfold FindRun
  cases hg : alGet (gp.getD perm.length []) perm with
  | none => right; exact ⟨rfl, rfl⟩
  | some Ls =>
    left
    refine ⟨Ls, _, rfl, hitting_isRun perm bad ci [] [] Ls, ?_⟩
    unfold findBadpatts finalize; rw [hg]

/-- `goodpatts[|p|][p]` is absent in both dictionaries, or present in both with the same hitting
    sets -/
def GpEquivAt (gp gp' : List Level) (p : NSeq) : Prop :=
  (alGet (gp.getD p.length []) p = none ∧ alGet (gp'.getD p.length []) p = none) ∨
  ∃ Ls Ls', alGet (gp.getD p.length []) p = some Ls ∧ alGet (gp'.getD p.length []) p = some Ls' ∧
    ∀ H, HitsAll H Ls ↔ HitsAll H Ls'

theorem GpEquivAt.refl (gp : List Level) (p : NSeq) : GpEquivAt gp gp p := by
  unfold GpEquivAt
  cases hg : alGet (gp.getD p.length []) p with
  | none => left; exact ⟨rfl, rfl⟩
  | some Ls => right; exact ⟨Ls, Ls, rfl, rfl, fun _ => Iff.rfl⟩

/-- a family with the same hitting sets as the empty family is empty -/
theorem nil_of_hitsAll_iff {Ls' : List Shading} (h : ∀ H, HitsAll H [] ↔ HitsAll H Ls') : Ls' = [] := by
  cases Ls' with
  | nil => rfl
  | cons L t =>
    obtain ⟨b, hb, _⟩ := (h []).mp (fun L hL => by cases hL) L (by simp)
    cases hb

/-- with nothing to hit the recursion returns `[∅]`, whatever the choices -/
theorem HitRun.nil_family {perm : NSeq} {bad : PattDict} {ci : List Nat} {r : List Shading}
    (h : HitRun perm bad ci [] [] [] r) : r = [[]] := by
  cases h with
  | dead _ _ _ h => simp at h
  | done => rfl
  | pruned _ _ _ _ _ _ _ _ hf => simp at hf
  | branch _ _ _ _ _ _ _ _ _ hf => simp at hf

theorem GpEquivAt.symm {gp gp' : List Level} {p : NSeq} (h : GpEquivAt gp gp' p) : GpEquivAt gp' gp p := by
  rcases h with ⟨h1, h2⟩ | ⟨Ls, Ls', h1, h2, h5⟩
  · left; exact ⟨h2, h1⟩
  · right; exact ⟨Ls', Ls, h2, h1, fun H => (h5 H).symm⟩

theorem ShsEquiv.symm {Rs Rs' : List Shading} (h : ShsEquiv Rs Rs') : ShsEquiv Rs' Rs :=
  ⟨fun R hR => by obtain ⟨R', hR', he⟩ := h.2 R hR; exact ⟨R', hR', he.symm⟩,
    fun R hR => by obtain ⟨R', hR', he⟩ := h.1 R hR; exact ⟨R', hR', he.symm⟩⟩

theorem LevelEquiv.symm {lv lv' : Level} (h : LevelEquiv lv lv') : LevelEquiv lv' lv := by
  unfold LevelEquiv at *
  induction h with
  | nil => exact .nil
  | cons hcd _ ih2 => exact .cons ⟨hcd.1.symm, hcd.2.symm⟩ ih2

theorem DictEquiv.symm {d d' : PattDict} (h : DictEquiv d d') : DictEquiv d' d := by
  unfold DictEquiv at *
  induction h with
  | nil => exact .nil
  | cons hab _ ih => exact .cons ⟨hab.1.symm, hab.2.symm⟩ ih

theorem findRun_sub {gp gp' : List Level} {bad bad' : PattDict} {ci : List Nat} {p : NSeq}
    {out out' : List Shading} (hg : GpEquivAt gp gp' p) (hb : DictEquiv bad bad')
    (h : FindRun gp bad ci p out) (h' : FindRun gp' bad' ci p out') :
    ∀ R ∈ out, ∃ R' ∈ out', SetEq R R' := by
  rcases hg with ⟨g1, g2⟩ | ⟨Ls, Ls', g1, g2, hL⟩
  · rcases h with ⟨Ls, r, hs, _⟩ | ⟨_, ho⟩
    · rw [g1] at hs; cases hs
    · rcases h' with ⟨Ls, r, hs, _⟩ | ⟨_, ho'⟩
      · rw [g2] at hs; cases hs
      · intro R hR
        refine ⟨R, ?_, SetEq.refl R⟩
        rw [ho'] ; rw [ho] at hR
        unfold findBadpatts at hR ⊢
        rw [g1] at hR; rw [g2]
        simp only at hR ⊢
        rw [← noneBranch_congr p hb ci]; exact hR
  · rcases h with ⟨Ls0, r, hs, hr, ho⟩ | ⟨hn, _⟩
    · rcases h' with ⟨Ls0', r', hs', hr', ho'⟩ | ⟨hn', _⟩
      · rw [g1] at hs; cases hs
        rw [g2] at hs'; cases hs'
        intro R hR
        by_cases hne : Ls = []
        · subst hne
          have hne' := nil_of_hitsAll_iff hL
          subst hne'
          rw [hr.nil_family] at ho
          rw [hr'.nil_family] at ho'
          exact ⟨R, by rw [ho', ← ho]; exact hR, SetEq.refl R⟩
        have hne' : Ls' ≠ [] := by
          intro h0; subst h0
          exact hne (nil_of_hitsAll_iff fun H => (hL H).symm)
        rw [ho] at hR
        have hm := finalize_minAdm hr hne R hR
        have hm' := minAdm_congr p hb ci hL R hm
        obtain ⟨R', hR', he⟩ := finalize_complete hr' hne' R hm'
        exact ⟨R', by rw [ho']; exact hR', he.symm⟩
      · rw [g2] at hn'; cases hn'
    · rw [g1] at hn; cases hn

/-- equivalent inputs, arbitrary runs: the results denote the same set of sets -/
theorem findRun_equiv {gp gp' : List Level} {bad bad' : PattDict} {ci : List Nat} {p : NSeq}
    {out out' : List Shading} (hg : GpEquivAt gp gp' p) (hb : DictEquiv bad bad')
    (h : FindRun gp bad ci p out) (h' : FindRun gp' bad' ci p out') : ShsEquiv out out' := by
  refine ⟨findRun_sub hg hb h h', fun R' hR' => ?_⟩
  obtain ⟨R, hR, he⟩ := findRun_sub hg.symm hb.symm h' h R' hR'
  exact ⟨R, hR, he.symm⟩

theorem findRun_clean {gp : List Level} {bad : PattDict} {ci : List Nat} {p : NSeq}
    {out : List Shading} (h : FindRun gp bad ci p out) : CleanShs out := by
  rcases h with ⟨Ls, r, hs, hr, ho⟩ | ⟨hn, ho⟩
  · rw [ho]; exact finalize_clean hr
  · rw [ho]; unfold findBadpatts; rw [hn]; simp only
    split
    · exact ⟨fun R hR => (by cases hR), List.Pairwise.nil⟩
    · exact ⟨fun R hR => (by simp only [List.mem_singleton] at hR; subst hR; exact List.nodup_nil),
        List.pairwise_singleton _ _⟩

/-! ### `forb` with arbitrary runs -/

/-- one possible execution of the level loop of `forb` (lines 288-298) over the levels `js`,
    starting from `badpatts = bad` -/
inductive BadRun (gp : List Level) (ci : List Nat) : List Nat → PattDict → PattDict → Prop
  | nil (bad : PattDict) : BadRun gp ci [] bad bad
  | cons (j : Nat) (js : List Nat) (bad : PattDict) (lv : Level) (out : PattDict) :
      List.Forall₂ (fun p e => e.1 = p ∧ FindRun gp bad ci p e.2) (permsLex j) lv →
      BadRun gp ci js (bad ++ [(j, lv)]) out → BadRun gp ci (j :: js) bad out

/-- lines 309-316: keep the patterns with at least one shading -/
def forbOf (b : PattDict) : PattDict := b.map fun lv => (lv.1, lv.2.filter fun e => !e.2.isEmpty)

/-- one possible result of `forb(check_interval, goodpatts, M)` -/
def ForbRun (gp : List Level) (ci : List Nat) (M : Nat) (out : PattDict) : Prop :=
  ∃ b, BadRun gp ci (ci.takeWhile fun j => j ≤ M) [] b ∧ out = forbOf b

theorem forall₂_map_right {α β} (R : α → β → Prop) (f : α → β) (h : ∀ a, R a (f a)) (l : List α) :
    List.Forall₂ R l (l.map f) := by
  induction l with
  | nil => exact .nil
  | cons a t ih => exact .cons (h a) ih

theorem forbBad_isRun_gen (gp : List Level) (ci : List Nat) (js : List Nat) : ∀ bad : PattDict,
    BadRun gp ci js bad (js.foldl (fun bad j =>
      bad ++ [(j, (permsLex j).map fun p => (p, findBadpatts gp bad ci p))]) bad) := by
  induction js with
  | nil => intro bad; exact .nil bad
  | cons j js ih =>
    intro bad
    simp only [List.foldl_cons]
    refine .cons j js bad _ _ ?_ (ih _)
    exact forall₂_map_right _ _ (fun p => ⟨rfl, findBadpatts_isRun gp bad ci p⟩) _

/-- the model's `forb` is one run -/
theorem forb_isRun (gp : List Level) (ci : List Nat) (M : Nat) : ForbRun gp ci M (forb gp ci M) :=
  ⟨forbBad gp ci M, forbBad_isRun_gen gp ci _ [], rfl⟩

theorem forall₂_append_single {α β} {R : α → β → Prop} {l : List α} {l' : List β} {a : α} {b : β}
    (h : List.Forall₂ R l l') (hab : R a b) : List.Forall₂ R (l ++ [a]) (l' ++ [b]) := by
  induction h with
  | nil => exact .cons hab .nil
  | cons h1 _ ih => exact .cons h1 ih

theorem level_equiv_of_runs {gp gp' : List Level} {bad bad' : PattDict} {ci : List Nat}
    (hb : DictEquiv bad bad') (ps : List NSeq) (hg : ∀ p ∈ ps, GpEquivAt gp gp' p) :
    ∀ (lv lv' : Level),
    List.Forall₂ (fun p e => e.1 = p ∧ FindRun gp bad ci p e.2) ps lv →
    List.Forall₂ (fun p e => e.1 = p ∧ FindRun gp' bad' ci p e.2) ps lv' → LevelEquiv lv lv' := by
  induction ps with
  | nil => intro lv lv' h h'; cases h; cases h'; exact .nil
  | cons p ps ih =>
    intro lv lv' h h'
    cases h with
    | cons h1 ht =>
      cases h' with
      | cons h1' ht' =>
        refine .cons ⟨h1.1.trans h1'.1.symm, findRun_equiv (hg p (by simp)) hb h1.2 h1'.2⟩ ?_
        exact ih (fun q hq => hg q (List.mem_cons_of_mem _ hq)) _ _ ht ht'

/-- **order independence of `forb`**: runs on `goodpatts` dictionaries with the same hitting sets
    (at every pattern of a level that is visited), started from equivalent `badpatts`, end in
    equivalent `badpatts` -/
theorem badRun_equiv {gp gp' : List Level} {ci : List Nat} {js : List Nat} {bad out : PattDict}
    (h : BadRun gp ci js bad out) : ∀ {bad' out' : PattDict}, BadRun gp' ci js bad' out' →
    (∀ j ∈ js, ∀ p ∈ permsLex j, GpEquivAt gp gp' p) → DictEquiv bad bad' → DictEquiv out out' := by
  induction h with
  | nil bad => intro bad' out' h' _ hb; cases h'; exact hb
  | cons j js bad lv out hlv _ ih =>
    intro bad' out' h' hg hb
    cases h' with
    | cons _ _ _ lv' _ hlv' hrest' =>
      apply ih hrest' (fun j' hj' => hg j' (List.mem_cons_of_mem _ hj'))
      exact forall₂_append_single hb ⟨rfl, level_equiv_of_runs hb _ (hg j (by simp)) lv lv' hlv hlv'⟩

theorem badRun_clean {gp : List Level} {ci : List Nat} {js : List Nat} {bad out : PattDict}
    (h : BadRun gp ci js bad out) : CleanDict bad → CleanDict out := by
  induction h with
  | nil bad => exact id
  | cons j js bad lv out hlv _ ih =>
    intro hb
    apply ih
    intro lv0 hlv0 e he
    rcases List.mem_append.mp hlv0 with h0 | h0
    · exact hb lv0 h0 e he
    · simp only [List.mem_singleton] at h0; subst h0
      simp only at he
      have : ∀ (ps : List NSeq) (lv : Level),
          List.Forall₂ (fun p e => e.1 = p ∧ FindRun gp bad ci p e.2) ps lv → ∀ e ∈ lv, CleanShs e.2 := by
        intro ps lv h
        induction h with
        | nil => intro e he; cases he
        | cons h1 _ ih2 =>
          intro e he
          rcases List.mem_cons.mp he with rfl | he
          · exact findRun_clean h1.2
          · exact ih2 e he
      exact this _ _ hlv e he

theorem filter_levelEquiv {lv lv' : Level} (h : LevelEquiv lv lv') :
    LevelEquiv (lv.filter fun e => !e.2.isEmpty) (lv'.filter fun e => !e.2.isEmpty) := by
  unfold LevelEquiv at *
  induction h with
  | nil => exact .nil
  | @cons c d l1 l2 hcd _ ih2 =>
    have hnil := hcd.2.nil_iff
    simp only [List.filter_cons]
    by_cases hc : c.2 = []
    · have hd : d.2 = [] := hnil.mp hc
      simp only [hc, hd, List.isEmpty_nil, Bool.not_true, Bool.false_eq_true, if_false]
      exact ih2
    · have hd : ¬ d.2 = [] := fun hd => hc (hnil.mpr hd)
      have e1 : (!c.2.isEmpty) = true := by simpa [List.isEmpty_iff] using hc
      have e2 : (!d.2.isEmpty) = true := by simpa [List.isEmpty_iff] using hd
      simp only [e1, e2, if_true]
      exact .cons hcd ih2

theorem forbOf_equiv {b b' : PattDict} (h : DictEquiv b b') : DictEquiv (forbOf b) (forbOf b') := by
  unfold DictEquiv forbOf at *
  induction h with
  | nil => exact .nil
  | cons hab _ ih => exact .cons ⟨hab.1, filter_levelEquiv hab.2⟩ ih

theorem forbOf_clean {b : PattDict} (h : CleanDict b) : CleanDict (forbOf b) := by
  intro lv hlv e he
  unfold forbOf at hlv
  obtain ⟨lv0, hlv0, rfl⟩ := List.mem_map.mp hlv
  exact h lv0 hlv0 e (List.mem_filter.mp he).1

/-- **order independence of `forb`** (any cell choices, any order inside `goodpatts`): two runs on
    `goodpatts` dictionaries with the same hitting sets return equivalent dictionaries without
    repetitions -/
theorem forbRun_equiv {gp gp' : List Level} {ci : List Nat} {M : Nat} {out out' : PattDict}
    (h : ForbRun gp ci M out) (h' : ForbRun gp' ci M out')
    (hg : ∀ j ∈ ci, ∀ p ∈ permsLex j, GpEquivAt gp gp' p) :
    DictEquiv out out' ∧ CleanDict out ∧ CleanDict out' := by
  obtain ⟨b, hb, rfl⟩ := h
  obtain ⟨b', hb', rfl⟩ := h'
  refine ⟨forbOf_equiv (badRun_equiv hb hb' (fun j hj => hg j ((List.takeWhile_sublist _).subset hj)) .nil),
    forbOf_clean (badRun_clean hb (fun lv hlv => by cases hlv)),
    forbOf_clean (badRun_clean hb' (fun lv hlv => by cases hlv))⟩

end Model.C17
