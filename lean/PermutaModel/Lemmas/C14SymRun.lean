import PermutaModel.Lemmas.C14SymGeo
import PermutaModel.Lemmas.C14Comp
import PermutaModel.Spec.C04
/-! C14 symmetry: the permutations of (strict) pin words are closed under the eight symmetries. -/
namespace C14S
open Model.C14 Model.C14.Letter Spec.C14 Proto C14L C14C15

/-- a letter map that respects numerals, directions and "same axis" on the alphabet -/
structure LetterSym (τ : Letter → Letter) : Prop where
  quad : ∀ c, (c.isQuad = true ∨ c.isDir = true) → (τ c).isQuad = c.isQuad
  dir : ∀ c, (c.isQuad = true ∨ c.isDir = true) → (τ c).isDir = c.isDir
  same : ∀ a b, (a.isQuad = true ∨ a.isDir = true) → (b.isQuad = true ∨ b.isDir = true) →
    sameAxis (τ a) (τ b) = sameAxis a b

theorem letterSym_R : LetterSym tauR :=
  ⟨fun c hc => (tauR_facts c hc).1, fun c hc => (tauR_facts c hc).2.1, fun a b ha hb => by
    obtain ⟨_, _, a3, a4, _⟩ := tauR_facts a ha
    obtain ⟨_, _, b3, b4, _⟩ := tauR_facts b hb
    simp only [sameAxis, a3, a4, b3, b4]⟩
theorem letterSym_C : LetterSym tauC :=
  ⟨fun c hc => (tauC_facts c hc).1, fun c hc => (tauC_facts c hc).2.1, fun a b ha hb => by
    obtain ⟨_, _, a3, a4, _⟩ := tauC_facts a ha
    obtain ⟨_, _, b3, b4, _⟩ := tauC_facts b hb
    simp only [sameAxis, a3, a4, b3, b4]⟩
theorem letterSym_I : LetterSym tauI :=
  ⟨fun c hc => (tauI_facts c hc).1, fun c hc => (tauI_facts c hc).2.1, fun a b ha hb => by
    obtain ⟨_, _, a3, a4, _⟩ := tauI_facts a ha
    obtain ⟨_, _, b3, b4, _⟩ := tauI_facts b hb
    simp only [sameAxis, a3, a4, b3, b4, Bool.or_comm]⟩

theorem chainOK_map {τ : Letter → Letter} (hτ : LetterSym τ) (rest : Word) : ∀ p : Letter,
    (p.isQuad = true ∨ p.isDir = true) → chainOK p rest = true → chainOK (τ p) (rest.map τ) = true := by
  induction rest with
  | nil => intro _ _ _; rfl
  | cons c rest ih =>
    intro p hp h
    obtain ⟨hc1, _, hch⟩ := chain_letter h
    simp only [chainOK, Bool.and_eq_true] at h
    simp only [List.map_cons, chainOK, hτ.quad c hc1, hτ.dir c hc1, hτ.same p c hp hc1, h.1,
      Bool.true_and]
    exact ih c hc1 hch

theorem inLang_map {τ : Letter → Letter} (hτ : LetterSym τ) (w : Word) (hw : inLang w = true) :
    inLang (w.map τ) = true := by
  cases w with
  | nil => rfl
  | cons c rest =>
    simp only [inLang, Bool.and_eq_true] at hw
    simp only [List.map_cons, inLang, hτ.quad c (Or.inl hw.1), hw.1, Bool.true_and]
    exact chainOK_map hτ rest c (Or.inl hw.1) hw.2

theorem isStrict_map {τ : Letter → Letter} (hτ : LetterSym τ) (w : Word) (hs : isStrict w = true) :
    isStrict (w.map τ) = true := by
  cases w with
  | nil => rfl
  | cons c rest =>
    simp only [isStrict, Bool.and_eq_true, List.all_eq_true] at hs
    simp only [List.map_cons, isStrict, hτ.quad c (Or.inl hs.1), hs.1, Bool.true_and, List.all_eq_true]
    intro x hx
    obtain ⟨y, hy, rfl⟩ := List.mem_map.mp hx
    rw [hτ.dir y (Or.inr (hs.2 y hy))]
    exact hs.2 y hy

theorem geoRun_map {τ : Letter → Letter} {T : Pt → Pt}
    (hGeo : ∀ c p A, (c.isQuad = true ∨ c.isDir = true) → Geo c p A → Geo (τ c) (T p) (A.map T))
    (w : Word) : ∀ A W, Alpha w → GeoRun A w W → GeoRun (A.map T) (w.map τ) (W.map T) := by
  induction w with
  | nil => intro A W _ h; simp only [GeoRun] at h; subst h; rfl
  | cons c w ih =>
    intro A W ha h
    obtain ⟨p, hp, h⟩ := h
    exact ⟨T p, hGeo c p A (ha c List.mem_cons_self) hp,
      ih (p :: A) W (fun x hx => ha x (List.mem_cons_of_mem _ hx)) h⟩

/-- decoding commutes with a symmetry -/
theorem decode_map {τ : Letter → Letter} {T : Pt → Pt} {sym : NSeq → NSeq} (hτ : LetterSym τ)
    (hT0 : T origin = origin)
    (hGeo : ∀ c p A, (c.isQuad = true ∨ c.isDir = true) → Geo c p A → Geo (τ c) (T p) (A.map T))
    (hnd : ∀ pts : List Pt, (xs pts).Nodup → (ys pts).Nodup →
      (xs (pts.map T)).Nodup ∧ (ys (pts.map T)).Nodup ∧ permOfPts (pts.map T) = sym (permOfPts pts))
    (w : Word) (σ : NSeq) (hw : inLang w = true) (hσ : pinwordToPerm w = .ok σ) :
    pinwordToPerm (w.map τ) = .ok (sym σ) := by
  obtain ⟨W, hW1, hWI, hWR, _⟩ := build_lang w hw
  obtain ⟨newer, rfl, _⟩ := geoRun_suffix w _ _ hWR
  have hσ' : σ = permOfPts newer := by
    simp only [pinwordToPerm, hW1, List.dropLast_concat, Except.ok.injEq] at hσ
    exact hσ.symm
  subst hσ'
  have hrun := geoRun_map hGeo w _ _ (inLang_alpha w hw) hWR
  simp only [List.map_cons, List.map_nil, List.map_append, hT0] at hrun
  have hw' := inLang_map hτ w hw
  obtain ⟨U, hU1, hUI, hUR, _⟩ := build_lang _ hw'
  obtain ⟨Unew, rfl, _⟩ := geoRun_suffix _ _ _ hUR
  have hO := oe_dropLast (geoRun_unique _ [origin] [origin] _ _ hrun hUR oe_origin
    (Or.inr ⟨inLang_head hw', by simp⟩))
  have hnx : (xs newer).Nodup :=
    ((List.sublist_append_left newer [origin]).map Prod.fst).nodup hWI.xnd
  have hny : (ys newer).Nodup :=
    ((List.sublist_append_left newer [origin]).map Prod.snd).nodup hWI.ynd
  have hux : (xs Unew).Nodup :=
    ((List.sublist_append_left Unew [origin]).map Prod.fst).nodup hUI.xnd
  have huy : (ys Unew).Nodup :=
    ((List.sublist_append_left Unew [origin]).map Prod.snd).nodup hUI.ynd
  obtain ⟨n1, n2, n3⟩ := hnd newer hnx hny
  have heq := oe_perm_eq hO n1 n2 hux huy
  simp only [pinwordToPerm, hU1, List.dropLast_concat]
  rw [← heq, n3]


theorem decode_R (w : Word) (σ : NSeq) (hw : inLang w = true) (hσ : pinwordToPerm w = .ok σ) :
    pinwordToPerm (w.map tauR) = .ok (Model.reverse σ) :=
  decode_map letterSym_R (by simp [negX, origin]) (fun _ _ _ hc h => geo_negX hc h)
    (fun pts hx hy => ⟨by rw [xs_negX]; exact neg_nodup hx, by rw [ys_negX]; exact hy,
      permOfPts_negX hx⟩) w σ hw hσ

theorem decode_C (w : Word) (σ : NSeq) (hw : inLang w = true) (hσ : pinwordToPerm w = .ok σ) :
    pinwordToPerm (w.map tauC) = .ok (Model.complement σ) :=
  decode_map letterSym_C (by simp [negY, origin]) (fun _ _ _ hc h => geo_negY hc h)
    (fun pts hx hy => ⟨by rw [xs_negY]; exact hx, by rw [ys_negY]; exact neg_nodup hy,
      permOfPts_negY hx hy⟩) w σ hw hσ

theorem decode_I (w : Word) (σ : NSeq) (hw : inLang w = true) (hσ : pinwordToPerm w = .ok σ) :
    pinwordToPerm (w.map tauI) = .ok (Model.inverse σ) :=
  decode_map letterSym_I (by simp [swapXY, origin]) (fun _ _ _ hc h => geo_swap hc h)
    (fun pts hx hy => ⟨by rw [xs_swap]; exact hy, by rw [ys_swap]; exact hx,
      permOfPts_swap hx hy⟩) w σ hw hσ

/-- the action of the eight symmetries on pin words -/
def actWord (g : D8) (w : Word) : Word :=
  let v := if g.i then w.map tauI else w
  let v := if g.c then v.map tauC else v
  if g.r then v.map tauR else v

/-- **pin permutations are closed under the eight symmetries**: `g·perm(w) = perm(g·w)`, and `g·w` is
    strict when `w` is -/
theorem decode_act (g : D8) (w : Word) (σ : NSeq) (hσ : pinwordToPerm w = .ok σ) :
    pinwordToPerm (actWord g w) = .ok (g.act σ) ∧ (isStrict w = true → isStrict (actWord g w) = true)
      ∧ (actWord g w).length = w.length := by
  have lang : ∀ v ρ, pinwordToPerm v = .ok ρ → inLang v = true := by
    intro v ρ h
    by_contra hv
    obtain ⟨a, c, post, rfl, h1, h2⟩ := lang_split v (by simpa using hv)
    have := build_reject a c post h1 h2
    simp [pinwordToPerm, this] at h
  obtain ⟨r, c, i⟩ := g
  simp only [actWord, D8.act]
  -- step 1: inverse
  have s1 : ∃ v1 ρ1, v1 = (if i = true then w.map tauI else w)
      ∧ ρ1 = (if i = true then Model.inverse σ else σ) ∧ pinwordToPerm v1 = .ok ρ1
      ∧ (isStrict w = true → isStrict v1 = true) ∧ v1.length = w.length := by
    cases i
    · exact ⟨w, σ, rfl, rfl, hσ, id, rfl⟩
    · exact ⟨_, _, rfl, rfl, decode_I w σ (lang w σ hσ) hσ, isStrict_map letterSym_I w, by simp⟩
  obtain ⟨v1, ρ1, e1, e1', h1, hs1, hl1⟩ := s1
  have s2 : ∃ v2 ρ2, v2 = (if c = true then v1.map tauC else v1)
      ∧ ρ2 = (if c = true then Model.complement ρ1 else ρ1) ∧ pinwordToPerm v2 = .ok ρ2
      ∧ (isStrict w = true → isStrict v2 = true) ∧ v2.length = w.length := by
    cases c
    · exact ⟨v1, ρ1, rfl, rfl, h1, hs1, hl1⟩
    · exact ⟨_, _, rfl, rfl, decode_C v1 ρ1 (lang v1 ρ1 h1) h1,
        fun h => isStrict_map letterSym_C v1 (hs1 h), by simp [hl1]⟩
  obtain ⟨v2, ρ2, e2, e2', h2, hs2, hl2⟩ := s2
  rw [← e1, ← e1', ← e2, ← e2']
  cases r
  · exact ⟨h2, hs2, hl2⟩
  · exact ⟨decode_R v2 ρ2 (lang v2 ρ2 h2) h2, fun h => isStrict_map letterSym_R v2 (hs2 h), by simp [hl2]⟩

end C14S
