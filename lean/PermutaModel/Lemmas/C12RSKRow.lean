import PermutaModel.Model.C12
import Mathlib.Data.List.Basic
import Mathlib.Data.List.Induction
import Mathlib.Data.List.Nodup
import Mathlib.Data.List.Perm.Basic
/-! C12 / RSK, part 1: the first row of `_perm_to_yt` as a machine of its own.

`insert_in_row(0, k)` changes the first row by `rIns` (replace the first entry larger than `k`, or
append) and hands the replaced entry to the rows below.  Hence the tableau of a word `w` is
`rowOf w :: tableau (bumpsOf w)` where `bumpsOf w` lists the entries bumped out of the first row
in the order of bumping (`tabIns_cons`, `permToYt_rec`). -/
open Model List

namespace C12

/-- one step of the first row: the new row and the bumped entry -/
def rIns : List Nat → Nat → List Nat × Option Nat
  | [], k => ([k], none)
  | c :: t, k => if k < c then (k :: t, some c) else (c :: (rIns t k).1, (rIns t k).2)

theorem rIns_nil (k : Nat) : rIns [] k = ([k], none) := rfl
theorem rIns_cons_lt (c : Nat) (t : List Nat) (k : Nat) (h : k < c) : rIns (c :: t) k = (k :: t, some c) := by
  simp [rIns, h]
theorem rIns_cons_ge (c : Nat) (t : List Nat) (k : Nat) (h : ¬ k < c) :
    rIns (c :: t) k = (c :: (rIns t k).1, (rIns t k).2) := by
  simp [rIns, h]

/-- the first row after feeding the word `w` to the row `R` -/
def rowRun (R : List Nat) : List Nat → List Nat
  | [] => R
  | x :: w => rowRun (rIns R x).1 w

/-- the entries bumped out of the first row while feeding `w` to `R`, in order of bumping -/
def bumpRun (R : List Nat) : List Nat → List Nat
  | [] => []
  | x :: w => ((rIns R x).2).toList ++ bumpRun (rIns R x).1 w

/-- the first row of the tableau of `w` -/
def rowOf (w : List Nat) : List Nat := rowRun [] w
/-- the word that is inserted into the second row -/
def bumpsOf (w : List Nat) : List Nat := bumpRun [] w

/-- `for val in word: insert_in_row(0, val)` starting from the rows `T` -/
def tabIns (T : List (List Nat)) (w : List Nat) : List (List Nat) := w.foldl insertInRow T

/-! ### the model's `firstGreater` / `insertInRow` through `rIns` -/

theorem firstGreater_none (k : Nat) : ∀ (row : List Nat) (i : Nat),
    firstGreater k row i = none → rIns row k = (row ++ [k], none)
  | [], _, _ => rfl
  | c :: t, i, h => by
    unfold firstGreater at h
    split at h
    · cases h
    · rename_i hc
      simp only [rIns, hc, if_false, firstGreater_none k t (i + 1) h, List.cons_append]

theorem firstGreater_some (k : Nat) : ∀ (row : List Nat) (i ind cur : Nat),
    firstGreater k row i = some (ind, cur) →
      i ≤ ind ∧ rIns row k = (row.set (ind - i) k, some cur)
  | [], _, _, _, h => by cases h
  | c :: t, i, ind, cur, h => by
    unfold firstGreater at h
    split at h
    · rename_i hc
      cases h
      simp [rIns, hc]
    · rename_i hc
      obtain ⟨h1, h2⟩ := firstGreater_some k t (i + 1) ind cur h
      refine ⟨by omega, ?_⟩
      have e : ind - i = (ind - (i + 1)) + 1 := by omega
      simp only [rIns, hc, if_false, h2, e, List.set_cons_succ]

theorem insertInRow_nil (k : Nat) : insertInRow [] k = [(rIns [] k).1] := rfl

theorem insertInRow_cons (row : List Nat) (rest : List (List Nat)) (k : Nat) :
    insertInRow (row :: rest) k =
      (rIns row k).1 :: (match (rIns row k).2 with
        | none => rest
        | some c => insertInRow rest c) := by
  rw [insertInRow]
  cases h : firstGreater k row 0 with
  | none => simp [firstGreater_none k row 0 h]
  | some p =>
    obtain ⟨ind, cur⟩ := p
    obtain ⟨_, h2⟩ := firstGreater_some k row 0 ind cur h
    simp [h2]

theorem tabIns_nil (T : List (List Nat)) : tabIns T [] = T := rfl
theorem tabIns_cons' (T : List (List Nat)) (x : Nat) (w : List Nat) :
    tabIns T (x :: w) = tabIns (insertInRow T x) w := rfl

/-- the rows below the first one see exactly the bumped word -/
theorem tabIns_cons : ∀ (w : List Nat) (R : List Nat) (T : List (List Nat)),
    tabIns (R :: T) w = rowRun R w :: tabIns T (bumpRun R w)
  | [], R, T => rfl
  | x :: w, R, T => by
    rw [tabIns_cons', insertInRow_cons, rowRun, bumpRun]
    cases h : (rIns R x).2 with
    | none => simp only [Option.toList, List.nil_append]; exact tabIns_cons w _ T
    | some c =>
      simp only [Option.toList, List.singleton_append]
      rw [tabIns_cons w _ _]; rfl

theorem permToYt_eq (σ : List Nat) : permToYt σ = tabIns [] σ := by
  cases σ with
  | nil => rfl
  | cons x rest => rfl

/-- **row recursion**: the tableau of a non-empty word is its first row on top of the tableau of
    the bumped word -/
theorem tabIns_rec (w : List Nat) (h : w ≠ []) :
    tabIns [] w = rowOf w :: tabIns [] (bumpsOf w) := by
  cases w with
  | nil => exact absurd rfl h
  | cons x w =>
    have : tabIns [] (x :: w) = tabIns [[x]] w := rfl
    rw [this, tabIns_cons]
    rfl

/-! ### snoc lemmas -/

theorem rowRun_append (R : List Nat) (u v : List Nat) : rowRun R (u ++ v) = rowRun (rowRun R u) v := by
  induction u generalizing R with
  | nil => rfl
  | cons x u ih => simp only [List.cons_append, rowRun, ih]

theorem bumpRun_append (R : List Nat) (u v : List Nat) :
    bumpRun R (u ++ v) = bumpRun R u ++ bumpRun (rowRun R u) v := by
  induction u generalizing R with
  | nil => rfl
  | cons x u ih => simp only [List.cons_append, rowRun, bumpRun, ih, List.append_assoc]

theorem rowOf_nil : rowOf [] = [] := rfl
theorem bumpsOf_nil : bumpsOf [] = [] := rfl

theorem rowOf_snoc (v : List Nat) (x : Nat) : rowOf (v ++ [x]) = (rIns (rowOf v) x).1 := by
  unfold rowOf; rw [rowRun_append]; rfl

theorem bumpsOf_snoc (v : List Nat) (x : Nat) :
    bumpsOf (v ++ [x]) = bumpsOf v ++ ((rIns (rowOf v) x).2).toList := by
  unfold bumpsOf rowOf; rw [bumpRun_append]; simp [bumpRun]

theorem rowOf_append (u v : List Nat) : rowOf (u ++ v) = rowRun (rowOf u) v := rowRun_append [] u v
theorem bumpsOf_append (u v : List Nat) : bumpsOf (u ++ v) = bumpsOf u ++ bumpRun (rowOf u) v :=
  bumpRun_append [] u v

/-! ### one step of the row -/

theorem mem_rIns : ∀ (R : List Nat) (x y : Nat), y ∈ (rIns R x).1 → y = x ∨ y ∈ R
  | [], x, y, h => by simp [rIns] at h; exact Or.inl h
  | c :: t, x, y, h => by
    unfold rIns at h
    split at h
    · simp at h; rcases h with h | h
      · exact Or.inl h
      · exact Or.inr (List.mem_cons_of_mem _ h)
    · simp only [List.mem_cons] at h
      rcases h with h | h
      · exact Or.inr (by simp [h])
      · rcases mem_rIns t x y h with h | h
        · exact Or.inl h
        · exact Or.inr (List.mem_cons_of_mem _ h)

theorem self_mem_rIns : ∀ (R : List Nat) (x : Nat), x ∈ (rIns R x).1
  | [], x => by simp [rIns]
  | c :: t, x => by
    unfold rIns
    split
    · simp
    · exact List.mem_cons_of_mem _ (self_mem_rIns t x)

/-- the bumped entry was in the row and is larger than the inserted one -/
theorem bump_mem : ∀ (R : List Nat) (x b : Nat), (rIns R x).2 = some b → b ∈ R ∧ x < b
  | [], x, b, h => by simp [rIns] at h
  | c :: t, x, b, h => by
    unfold rIns at h
    split at h
    · rename_i hc; simp at h; subst h; exact ⟨by simp, hc⟩
    · obtain ⟨h1, h2⟩ := bump_mem t x b h
      exact ⟨List.mem_cons_of_mem _ h1, h2⟩

/-- an entry that is not bumped stays -/
theorem mem_rIns_of_mem : ∀ (R : List Nat) (x a : Nat), a ∈ R → (rIns R x).2 ≠ some a → a ∈ (rIns R x).1
  | [], _, _, h, _ => by cases h
  | c :: t, x, a, h, hb => by
    unfold rIns at hb ⊢
    split
    · rename_i hc
      simp only [hc, if_true] at hb
      rcases List.mem_cons.mp h with h | h
      · subst h; simp at hb
      · exact List.mem_cons_of_mem _ h
    · rename_i hc
      simp only [hc, if_false] at hb
      rcases List.mem_cons.mp h with h | h
      · subst h; simp
      · exact List.mem_cons_of_mem _ (mem_rIns_of_mem t x a h hb)

theorem rIns_perm : ∀ (R : List Nat) (x : Nat), (rIns R x).1 ++ ((rIns R x).2).toList ~ x :: R
  | [], x => by simp [rIns]
  | c :: t, x => by
    unfold rIns
    split
    · simp only [Option.toList]
      -- x :: t ++ [c] ~ x :: c :: t
      exact (List.Perm.cons x (List.perm_append_singleton c t))
    · have ih := rIns_perm t x
      simp only [List.cons_append]
      exact (List.Perm.cons c ih).trans (List.Perm.swap x c t)

theorem rIns_length (R : List Nat) (x : Nat) :
    (rIns R x).1.length + ((rIns R x).2).toList.length = R.length + 1 := by
  have := (rIns_perm R x).length_eq
  simpa using this

/-- a row that is strictly increasing stays so when a new value is inserted -/
theorem rIns_sorted : ∀ (R : List Nat) (x : Nat), R.Pairwise (· < ·) → x ∉ R → (rIns R x).1.Pairwise (· < ·)
  | [], x, _, _ => by simp [rIns]
  | c :: t, x, hs, hx => by
    rw [List.pairwise_cons] at hs
    unfold rIns
    split
    · rename_i hc
      rw [List.pairwise_cons]
      exact ⟨fun y hy => Nat.lt_trans hc (hs.1 y hy), hs.2⟩
    · rename_i hc
      have hne : x ≠ c := fun e => hx (by simp [e])
      rw [List.pairwise_cons]
      refine ⟨fun y hy => ?_, rIns_sorted t x hs.2 (fun h => hx (List.mem_cons_of_mem _ h))⟩
      rcases mem_rIns t x y hy with h | h
      · subst h; omega
      · exact hs.1 y h

/-- in a strictly increasing row the bumped entry is the least one above `x`: anything in the row
    above `x` is at least the bumped entry, and there is a bump as soon as something is above `x` -/
theorem bump_exists : ∀ (R : List Nat) (x a : Nat), R.Pairwise (· < ·) → a ∈ R → x < a →
    ∃ y, (rIns R x).2 = some y ∧ x < y ∧ y ≤ a
  | [], _, _, _, h, _ => by cases h
  | c :: t, x, a, hs, ha, hxa => by
    rw [List.pairwise_cons] at hs
    unfold rIns
    split
    · rename_i hc
      refine ⟨c, rfl, hc, ?_⟩
      rcases List.mem_cons.mp ha with h | h
      · omega
      · exact Nat.le_of_lt (hs.1 a h)
    · rename_i hc
      rcases List.mem_cons.mp ha with h | h
      · subst h; omega
      · exact bump_exists t x a hs.2 h hxa

/-- entries of a strictly increasing row below the bumped entry are at most the inserted value -/
theorem below_bump_le : ∀ (R : List Nat) (x b a : Nat), R.Pairwise (· < ·) → (rIns R x).2 = some b →
    a ∈ R → a < b → a ≤ x
  | [], _, _, _, _, _, h, _ => by cases h
  | c :: t, x, b, a, hs, hb, ha, hab => by
    rw [List.pairwise_cons] at hs
    unfold rIns at hb
    split at hb
    · simp at hb; subst hb
      rcases List.mem_cons.mp ha with h | h
      · omega
      · have := hs.1 a h; omega
    · rename_i hc
      rcases List.mem_cons.mp ha with h | h
      · subst h; omega
      · exact below_bump_le t x b a hs.2 hb h hab

/-! ### the whole run -/

theorem rowOf_bumpsOf_perm (w : List Nat) : rowOf w ++ bumpsOf w ~ w := by
  induction w using List.reverseRecOn with
  | nil => simp [rowOf, bumpsOf, rowRun, bumpRun]
  | append_singleton v x ih =>
    rw [rowOf_snoc, bumpsOf_snoc]
    have h1 := rIns_perm (rowOf v) x
    -- (r' ++ (B ++ o)) ~ v ++ [x]
    have h2 : (rIns (rowOf v) x).1 ++ (bumpsOf v ++ ((rIns (rowOf v) x).2).toList) ~
        ((rIns (rowOf v) x).1 ++ ((rIns (rowOf v) x).2).toList) ++ bumpsOf v := by
      rw [List.append_assoc]
      exact List.Perm.append_left _ List.perm_append_comm
    refine h2.trans ?_
    refine (List.Perm.append_right _ h1).trans ?_
    have : x :: rowOf v ++ bumpsOf v ~ x :: v := List.Perm.cons x ih
    exact this.trans (List.perm_append_singleton x v).symm

theorem rowOf_subset (w : List Nat) : ∀ y ∈ rowOf w, y ∈ w := fun _ hy =>
  (rowOf_bumpsOf_perm w).subset (List.mem_append_left _ hy)

theorem bumpsOf_subset (w : List Nat) : ∀ y ∈ bumpsOf w, y ∈ w := fun _ hy =>
  (rowOf_bumpsOf_perm w).subset (List.mem_append_right _ hy)

theorem rowOf_bumpsOf_length (w : List Nat) : (rowOf w).length + (bumpsOf w).length = w.length := by
  have := (rowOf_bumpsOf_perm w).length_eq
  simpa using this

theorem rowOf_ne_nil (w : List Nat) (h : w ≠ []) : rowOf w ≠ [] := by
  induction w using List.reverseRecOn with
  | nil => exact absurd rfl h
  | append_singleton v x _ =>
    rw [rowOf_snoc]
    intro e
    have := self_mem_rIns (rowOf v) x
    rw [e] at this; cases this

theorem bumpsOf_length_lt (w : List Nat) (h : w ≠ []) : (bumpsOf w).length < w.length := by
  have h1 := rowOf_bumpsOf_length w
  have h2 : (rowOf w).length ≠ 0 := fun e => rowOf_ne_nil w h (List.eq_nil_of_length_eq_zero e)
  omega

theorem bumpsOf_nodup (w : List Nat) (h : w.Nodup) : (bumpsOf w).Nodup :=
  ((List.nodup_append.mp ((rowOf_bumpsOf_perm w).nodup_iff.mpr h)).2.1)

theorem rowOf_nodup (w : List Nat) (h : w.Nodup) : (rowOf w).Nodup :=
  ((List.nodup_append.mp ((rowOf_bumpsOf_perm w).nodup_iff.mpr h)).1)

/-- the first row of a duplicate-free word is strictly increasing -/
theorem rowOf_sorted (w : List Nat) (h : w.Nodup) : (rowOf w).Pairwise (· < ·) := by
  induction w using List.reverseRecOn with
  | nil => simp [rowOf, rowRun]
  | append_singleton v x ih =>
    rw [rowOf_snoc]
    have hv : v.Nodup := (List.nodup_append.mp h).1
    have hx : x ∉ v := fun hm => by
      have := (List.nodup_append.mp h).2.2 x hm x (by simp)
      exact this rfl
    exact rIns_sorted _ x (ih hv) (fun hm => hx (rowOf_subset v x hm))

/-- an entry of the row at a later time that was already there in the word earlier was in the row
    all the time (entries never come back) -/
theorem rowOf_alive (u : List Nat) : ∀ (u' : List Nat) (b : Nat), (u ++ u').Nodup → b ∈ u →
    b ∈ rowOf (u ++ u') → b ∈ rowOf u := by
  intro u'
  induction u' using List.reverseRecOn with
  | nil => intro b _ _ h; simpa using h
  | append_singleton v y ih =>
    intro b hnd hb hm
    rw [← List.append_assoc, rowOf_snoc] at hm
    rw [← List.append_assoc] at hnd
    have hnd' : (u ++ v).Nodup := (List.nodup_append.mp hnd).1
    rcases mem_rIns _ _ _ hm with h | h
    · exfalso
      have := (List.nodup_append.mp hnd).2.2 b (List.mem_append_left _ hb) y (by simp)
      exact this h
    · exact ih b hnd' hb h

end C12
