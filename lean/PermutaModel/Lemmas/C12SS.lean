import PermutaModel.Lemmas.C12Bridge
/-! C12: Simion–Schmidt.  Inversion lemmas for the two loops, the `next(...)` searches, the
    invariants (image is a permutation, left-to-right minima are kept, image avoids 132 / 123,
    the inverse loop undoes the forward loop). -/
open Model Spec List

namespace C12

/-! ### the two searches -/

theorem firstUnusedUp_some {used : List Nat} {lo n k : Nat} (h : firstUnusedUp used lo n = some k) :
    k ∉ used ∧ lo ≤ k ∧ k < n ∧ ∀ j, lo ≤ j → j < k → j ∈ used := by
  unfold firstUnusedUp at h
  have hp := find?_some h
  have hm := mem_of_find?_eq_some h
  obtain ⟨i, hi, rfl⟩ := mem_map.mp hm
  have hi' := mem_range.mp hi
  refine ⟨by simpa using hp, by omega, by omega, ?_⟩
  intro j hj1 hj2
  obtain ⟨as, bs, he, hall⟩ := (find?_eq_some_iff_append.mp h).2
  have hsorted : (map (· + lo) (range (n - lo))).Pairwise (· < ·) := by
    rw [pairwise_map]; exact pairwise_lt_range.imp (by intro a b h; omega)
  have hjmem : j ∈ map (· + lo) (range (n - lo)) := mem_map.mpr ⟨j - lo, mem_range.mpr (by omega), by omega⟩
  rw [he] at hjmem hsorted
  rcases mem_append.mp hjmem with hj | hj
  · have := hall j hj; simpa using this
  · exfalso
    rcases mem_cons.mp hj with hj | hj
    · omega
    · have := (pairwise_cons.mp (pairwise_append.mp hsorted).2.1).1 j hj; omega

theorem firstUnusedUp_none {used : List Nat} {lo n : Nat} (h : firstUnusedUp used lo n = none) :
    ∀ j, lo ≤ j → j < n → j ∈ used := by
  unfold firstUnusedUp at h
  intro j h1 h2
  have := find?_eq_none.mp h j (mem_map.mpr ⟨j - lo, mem_range.mpr (by omega), by omega⟩)
  simpa using this

theorem firstUnusedDown_some {used : List Nat} {n k : Nat} (h : firstUnusedDown used n = some k) :
    k ∉ used ∧ k < n ∧ ∀ j, k < j → j < n → j ∈ used := by
  unfold firstUnusedDown at h
  have hp := find?_some h
  have hm := mem_of_find?_eq_some h
  have hk : k < n := mem_range.mp (mem_reverse.mp hm)
  refine ⟨by simpa using hp, hk, ?_⟩
  intro j hj1 hj2
  obtain ⟨as, bs, he, hall⟩ := (find?_eq_some_iff_append.mp h).2
  have hsorted : (range n).reverse.Pairwise (· > ·) := by
    rw [pairwise_reverse]; exact pairwise_lt_range
  have hjmem : j ∈ (range n).reverse := mem_reverse.mpr (mem_range.mpr hj2)
  rw [he] at hjmem hsorted
  rcases mem_append.mp hjmem with hj | hj
  · have := hall j hj; simpa using this
  · exfalso
    rcases mem_cons.mp hj with hj | hj
    · omega
    · have := (pairwise_cons.mp (pairwise_append.mp hsorted).2.1).1 j hj; omega

theorem firstUnusedDown_none {used : List Nat} {n : Nat} (h : firstUnusedDown used n = none) :
    ∀ j, j < n → j ∈ used := by
  unfold firstUnusedDown at h
  intro j h2
  have := find?_eq_none.mp h j (mem_reverse.mpr (mem_range.mpr h2))
  simpa using this

/-- the largest unused value is found when it is the largest one missing -/
theorem firstUnusedDown_eq {used : List Nat} {n v : Nat} (hv : v < n) (hnot : v ∉ used)
    (hall : ∀ j, v < j → j < n → j ∈ used) : firstUnusedDown used n = some v := by
  cases h : firstUnusedDown used n with
  | none => exact absurd (firstUnusedDown_none h v hv) hnot
  | some k =>
    obtain ⟨h1, h2, h3⟩ := firstUnusedDown_some h
    congr 1
    by_contra hne
    rcases Nat.lt_or_gt_of_ne hne with hlt | hgt
    · exact hnot (h3 v hlt hv)
    · exact h1 (hall k hgt h2)

/-- the smallest unused value above `lo` is found when it is the smallest one missing -/
theorem firstUnusedUp_eq {used : List Nat} {lo n v : Nat} (hlo : lo ≤ v) (hv : v < n) (hnot : v ∉ used)
    (hall : ∀ j, lo ≤ j → j < v → j ∈ used) : firstUnusedUp used lo n = some v := by
  cases h : firstUnusedUp used lo n with
  | none => exact absurd (firstUnusedUp_none h v hlo hv) hnot
  | some k =>
    obtain ⟨h1, h2, h3, h4⟩ := firstUnusedUp_some h
    congr 1
    by_contra hne
    rcases Nat.lt_or_gt_of_ne hne with hlt | hgt
    · exact h1 (hall k h2 hlt)
    · exact hnot (h4 v hlo hgt)

/-! ### inversion of the loops -/

def consOk (v : Nat) : Except SSErr (List Nat) → Except SSErr (List Nat)
  | .ok t => .ok (v :: t)
  | .error e => .error e

theorem consOk_eq_ok {v : Nat} {r : Except SSErr (List Nat)} {t : List Nat} (h : consOk v r = .ok t) :
    ∃ t', r = .ok t' ∧ t = v :: t' := by
  cases r with
  | error e => cases h
  | ok t' => cases h; exact ⟨t', rfl, rfl⟩

theorem ssGo_cons_lt {n val mn : Nat} {rest used : List Nat} (h : val < mn) :
    ssGo n (val :: rest) mn used = consOk val (ssGo n rest val (val :: used)) := by
  rw [ssGo]; simp only [h, if_true]; rfl

theorem ssGo_cons_some {n val mn k : Nat} {rest used : List Nat} (h : ¬ val < mn)
    (hk : firstUnusedUp used (mn + 1) n = some k) :
    ssGo n (val :: rest) mn used = consOk k (ssGo n rest mn (k :: used)) := by
  rw [ssGo]; simp only [h, if_false, hk]; rfl

theorem ssGo_cons_none {n val mn : Nat} {rest used : List Nat} (h : ¬ val < mn)
    (hk : firstUnusedUp used (mn + 1) n = none) :
    ssGo n (val :: rest) mn used = .error .stopIteration := by
  rw [ssGo]; simp only [h, if_false, hk]

theorem ssInvGo_cons_lt {n val mn : Nat} {rest used : List Nat} (h : val < mn) :
    ssInvGo n (val :: rest) mn used = consOk val (ssInvGo n rest val (val :: used)) := by
  rw [ssInvGo]; simp only [h, if_true]; rfl

theorem ssInvGo_cons_some {n val mn k : Nat} {rest used : List Nat} (h : ¬ val < mn)
    (hk : firstUnusedDown used n = some k) :
    ssInvGo n (val :: rest) mn used = consOk k (ssInvGo n rest mn (k :: used)) := by
  rw [ssInvGo]; simp only [h, if_false, hk]; rfl

theorem ssInvGo_cons_none {n val mn : Nat} {rest used : List Nat} (h : ¬ val < mn)
    (hk : firstUnusedDown used n = none) :
    ssInvGo n (val :: rest) mn used = .error .stopIteration := by
  rw [ssInvGo]; simp only [h, if_false, hk]

theorem ssGo_ok_cons {n val mn : Nat} {rest used t : List Nat} (h : ssGo n (val :: rest) mn used = .ok t) :
    (val < mn ∧ ∃ t', ssGo n rest val (val :: used) = .ok t' ∧ t = val :: t') ∨
    (¬ val < mn ∧ ∃ k t', firstUnusedUp used (mn + 1) n = some k ∧
      ssGo n rest mn (k :: used) = .ok t' ∧ t = k :: t') := by
  by_cases hv : val < mn
  · rw [ssGo_cons_lt hv] at h
    exact Or.inl ⟨hv, consOk_eq_ok h⟩
  · cases hk : firstUnusedUp used (mn + 1) n with
    | none => rw [ssGo_cons_none hv hk] at h; cases h
    | some k =>
      rw [ssGo_cons_some hv hk] at h
      obtain ⟨t', h1, h2⟩ := consOk_eq_ok h
      exact Or.inr ⟨hv, k, t', rfl, h1, h2⟩

theorem ssInvGo_ok_cons {n val mn : Nat} {rest used t : List Nat} (h : ssInvGo n (val :: rest) mn used = .ok t) :
    (val < mn ∧ ∃ t', ssInvGo n rest val (val :: used) = .ok t' ∧ t = val :: t') ∨
    (¬ val < mn ∧ ∃ k t', firstUnusedDown used n = some k ∧
      ssInvGo n rest mn (k :: used) = .ok t' ∧ t = k :: t') := by
  by_cases hv : val < mn
  · rw [ssInvGo_cons_lt hv] at h
    exact Or.inl ⟨hv, consOk_eq_ok h⟩
  · cases hk : firstUnusedDown used n with
    | none => rw [ssInvGo_cons_none hv hk] at h; cases h
    | some k =>
      rw [ssInvGo_cons_some hv hk] at h
      obtain ⟨t', h1, h2⟩ := consOk_eq_ok h
      exact Or.inr ⟨hv, k, t', rfl, h1, h2⟩

/-! ### the forward loop succeeds on permutations and its image is a permutation -/

theorem exists_unused_up {used : List Nat} {mn n : Nat} (hnd : used.Nodup)
    (hr : ∀ u ∈ used, mn ≤ u ∧ u < n) (hmn : mn ∈ used) (hlen : used.length < n - mn) :
    ∃ k, firstUnusedUp used (mn + 1) n = some k := by
  cases h : firstUnusedUp used (mn + 1) n with
  | some k => exact ⟨k, rfl⟩
  | none =>
    exfalso
    have hall := firstUnusedUp_none h
    have hsub : range' mn (n - mn) ⊆ used := by
      intro j hj
      have := mem_range'_1.mp hj
      by_cases e : j = mn
      · subst e; exact hmn
      · exact hall j (by omega) (by omega)
    have := (subperm_of_subset (nodup_range' (s := mn) (n := n - mn)) hsub).length_le
    simp at this; omega

theorem exists_unused_down {used : List Nat} {n : Nat} (hnd : used.Nodup)
    (hr : ∀ u ∈ used, u < n) (hlen : used.length < n) :
    ∃ k, firstUnusedDown used n = some k := by
  cases h : firstUnusedDown used n with
  | some k => exact ⟨k, rfl⟩
  | none =>
    exfalso
    have hall := firstUnusedDown_none h
    have hsub : range n ⊆ used := fun j hj => hall j (mem_range.mp hj)
    have := (subperm_of_subset (nodup_range (n := n)) hsub).length_le
    simp at this; omega

theorem ssGo_ok (n : Nat) : ∀ (rest : List Nat) (mn : Nat) (used : List Nat),
    rest.Nodup → (∀ v, v < mn → v ∈ rest) → (∀ v ∈ rest, v < n) →
    used.Nodup → (∀ u ∈ used, mn ≤ u ∧ u < n) → mn ∈ used → used.length + rest.length = n →
    ∃ t, ssGo n rest mn used = .ok t ∧ t.length = rest.length ∧ (t ++ used).Nodup ∧ ∀ v ∈ t, v < n
  | [], mn, used, _, _, _, hu, _, _, _ => ⟨[], rfl, rfl, by simpa using hu, by simp⟩
  | val :: rest, mn, used, hnd, hlow, hlt, hu, hur, hmn, hlen => by
    have hnd' := (nodup_cons.mp hnd).2
    have hvr := (nodup_cons.mp hnd).1
    have hlt' : ∀ v ∈ rest, v < n := fun v hv => hlt v (mem_cons_of_mem _ hv)
    simp only [length_cons] at hlen
    by_cases hv : val < mn
    · have hvu : val ∉ used := fun h => by have := (hur val h).1; omega
      obtain ⟨t, h1, h2, h3, h4⟩ := ssGo_ok n rest val (val :: used) hnd'
        (by intro v hv'
            rcases mem_cons.mp (hlow v (by omega)) with e | h
            · omega
            · exact h)
        hlt' (nodup_cons.mpr ⟨hvu, hu⟩)
        (by intro u hu'
            rcases mem_cons.mp hu' with rfl | hu'
            · exact ⟨Nat.le_refl _, hlt _ (by simp)⟩
            · have := hur u hu'; omega)
        (by simp) (by simp only [length_cons]; omega)
      refine ⟨val :: t, by rw [ssGo_cons_lt hv, h1]; rfl, by simp [h2], ?_, ?_⟩
      · exact (perm_middle (a := val) (l₁ := t) (l₂ := used)).nodup_iff.mp h3
      · intro v hv'
        rcases mem_cons.mp hv' with rfl | hv'
        · exact hlt _ (by simp)
        · exact h4 v hv'
    · -- |rest| ≥ mn: the values below `mn` are all still to come
      have hsub : range mn ⊆ rest := by
        intro j hj
        have hj' := mem_range.mp hj
        rcases mem_cons.mp (hlow j hj') with e | h
        · omega
        · exact h
      have hrl := (subperm_of_subset (nodup_range (n := mn)) hsub).length_le
      simp only [length_range] at hrl
      obtain ⟨k, hk⟩ := exists_unused_up hu hur hmn (by omega)
      obtain ⟨hk1, hk2, hk3, _⟩ := firstUnusedUp_some hk
      obtain ⟨t, h1, h2, h3, h4⟩ := ssGo_ok n rest mn (k :: used) hnd'
        (by intro v hv'
            rcases mem_cons.mp (hlow v hv') with e | h
            · omega
            · exact h)
        hlt' (nodup_cons.mpr ⟨hk1, hu⟩)
        (by intro u hu'
            rcases mem_cons.mp hu' with rfl | hu'
            · omega
            · exact hur u hu')
        (mem_cons_of_mem _ hmn) (by simp only [length_cons]; omega)
      refine ⟨k :: t, by rw [ssGo_cons_some hv hk, h1]; rfl, by simp [h2], ?_, ?_⟩
      · exact (perm_middle (a := k) (l₁ := t) (l₂ := used)).nodup_iff.mp h3
      · intro v hv'
        rcases mem_cons.mp hv' with rfl | hv'
        · exact hk3
        · exact h4 v hv'

theorem ssInvGo_ok (n : Nat) : ∀ (rest : List Nat) (mn : Nat) (used : List Nat),
    rest.Nodup → (∀ v, v < mn → v ∈ rest) → (∀ v ∈ rest, v < n) →
    used.Nodup → (∀ u ∈ used, mn ≤ u ∧ u < n) → used.length + rest.length = n →
    ∃ t, ssInvGo n rest mn used = .ok t ∧ t.length = rest.length ∧ (t ++ used).Nodup ∧ ∀ v ∈ t, v < n
  | [], mn, used, _, _, _, hu, _, _ => ⟨[], rfl, rfl, by simpa using hu, by simp⟩
  | val :: rest, mn, used, hnd, hlow, hlt, hu, hur, hlen => by
    have hnd' := (nodup_cons.mp hnd).2
    have hlt' : ∀ v ∈ rest, v < n := fun v hv => hlt v (mem_cons_of_mem _ hv)
    simp only [length_cons] at hlen
    by_cases hv : val < mn
    · have hvu : val ∉ used := fun h => by have := (hur val h).1; omega
      obtain ⟨t, h1, h2, h3, h4⟩ := ssInvGo_ok n rest val (val :: used) hnd'
        (by intro v hv'
            rcases mem_cons.mp (hlow v (by omega)) with e | h
            · omega
            · exact h)
        hlt' (nodup_cons.mpr ⟨hvu, hu⟩)
        (by intro u hu'
            rcases mem_cons.mp hu' with rfl | hu'
            · exact ⟨Nat.le_refl _, hlt _ (by simp)⟩
            · have := hur u hu'; omega)
        (by simp only [length_cons]; omega)
      refine ⟨val :: t, by rw [ssInvGo_cons_lt hv, h1]; rfl, by simp [h2], ?_, ?_⟩
      · exact (perm_middle (a := val) (l₁ := t) (l₂ := used)).nodup_iff.mp h3
      · intro v hv'
        rcases mem_cons.mp hv' with rfl | hv'
        · exact hlt _ (by simp)
        · exact h4 v hv'
    · obtain ⟨k, hk⟩ := exists_unused_down hu (fun u hu' => (hur u hu').2) (by omega)
      obtain ⟨hk1, hk3, _⟩ := firstUnusedDown_some hk
      -- the chosen value is not below the current minimum: all smaller values are still to come
      have hkmn : mn ≤ k := by
        by_contra hlt2
        -- `range (mn) ∪ {val}` ⊆ `val :: rest`, so |used| + mn + 1 ≤ n, while all of (k, n) ⊆ used
        have hall := (firstUnusedDown_some hk).2.2
        have hsub : range' (k + 1) (n - (k + 1)) ⊆ used := by
          intro j hj
          have := mem_range'_1.mp hj
          exact hall j (by omega) (by omega)
        have h1 := (subperm_of_subset (nodup_range' (s := k + 1) (n := n - (k + 1))) hsub).length_le
        -- but every used value is ≥ mn > k … so used ⊆ [mn, n) and the count is fine; use `rest`
        have hsub2 : range mn ⊆ val :: rest := fun j hj => hlow j (mem_range.mp hj)
        have h2 := (subperm_of_subset (nodup_range (n := mn)) hsub2).length_le
        have hsub3 : val :: range mn ⊆ val :: rest := by
          intro j hj
          rcases mem_cons.mp hj with rfl | hj
          · simp
          · exact hsub2 hj
        have hnd3 : (val :: range mn).Nodup := nodup_cons.mpr ⟨by simp; omega, nodup_range⟩
        have h3 := (subperm_of_subset hnd3 hsub3).length_le
        simp at h1 h2 h3
        omega
      obtain ⟨t, h1, h2, h3, h4⟩ := ssInvGo_ok n rest mn (k :: used) hnd'
        (by intro v hv'
            rcases mem_cons.mp (hlow v hv') with e | h
            · omega
            · exact h)
        hlt' (nodup_cons.mpr ⟨hk1, hu⟩)
        (by intro u hu'
            rcases mem_cons.mp hu' with rfl | hu'
            · omega
            · exact hur u hu')
        (by simp only [length_cons]; omega)
      refine ⟨k :: t, by rw [ssInvGo_cons_some hv hk, h1]; rfl, by simp [h2], ?_, ?_⟩
      · exact (perm_middle (a := k) (l₁ := t) (l₂ := used)).nodup_iff.mp h3
      · intro v hv'
        rcases mem_cons.mp hv' with rfl | hv'
        · exact hk3
        · exact h4 v hv'

/-! ### left-to-right minima are kept (positions and values) -/

theorem ssGo_ltrMin {n : Nat} : ∀ (rest : List Nat) (mn : Nat) (used t : List Nat) (idx : Nat),
    ssGo n rest mn used = .ok t → ltrMinGo t idx (some mn) = ltrMinGo rest idx (some mn)
  | [], mn, used, t, idx, h => by simp [ssGo] at h; subst h; rfl
  | val :: rest, mn, used, t, idx, h => by
    rcases ssGo_ok_cons h with ⟨hv, t', h1, rfl⟩ | ⟨hv, k, t', hk, h1, rfl⟩
    · simp only [ltrMinGo, hv, if_true]
      rw [ssGo_ltrMin rest val _ t' (idx + 1) h1]
    · have hk' := (firstUnusedUp_some hk).2.1
      have : ¬ k < mn := by omega
      simp only [ltrMinGo, hv, this, if_false]
      exact ssGo_ltrMin rest mn _ t' (idx + 1) h1

theorem ssInvGo_ltrMin {n : Nat} : ∀ (rest : List Nat) (mn : Nat) (used t : List Nat) (idx : Nat),
    (∀ v, v < mn → v ∈ rest) → rest.Nodup → used.length + rest.length = n → used.Nodup →
    (∀ u ∈ used, mn ≤ u ∧ u < n) → (∀ v ∈ rest, v < n) →
    ssInvGo n rest mn used = .ok t → ltrMinGo t idx (some mn) = ltrMinGo rest idx (some mn)
  | [], mn, used, t, idx, _, _, _, _, _, _, h => by simp [ssInvGo] at h; subst h; rfl
  | val :: rest, mn, used, t, idx, hlow, hnd, hlen, hu, hur, hlt, h => by
    have hnd' := (nodup_cons.mp hnd).2
    have hlt' : ∀ v ∈ rest, v < n := fun v hv => hlt v (mem_cons_of_mem _ hv)
    simp only [length_cons] at hlen
    rcases ssInvGo_ok_cons h with ⟨hv, t', h1, rfl⟩ | ⟨hv, k, t', hk, h1, rfl⟩
    · simp only [ltrMinGo, hv, if_true]
      have hvu : val ∉ used := fun h => by have := (hur val h).1; omega
      rw [ssInvGo_ltrMin rest val _ t' (idx + 1)
        (by intro v hv'
            rcases mem_cons.mp (hlow v (by omega)) with e | h
            · omega
            · exact h) hnd' (by simp only [length_cons]; omega) (nodup_cons.mpr ⟨hvu, hu⟩)
        (by intro u hu'
            rcases mem_cons.mp hu' with rfl | hu'
            · exact ⟨Nat.le_refl _, hlt _ (by simp)⟩
            · have := hur u hu'; omega) hlt' h1]
    · obtain ⟨hk1, hk3, hall⟩ := firstUnusedDown_some hk
      have hkmn : mn ≤ k := by
        by_contra hlt2
        have hsub : range' (k + 1) (n - (k + 1)) ⊆ used := by
          intro j hj
          have := mem_range'_1.mp hj
          exact hall j (by omega) (by omega)
        have h1 := (subperm_of_subset (nodup_range' (s := k + 1) (n := n - (k + 1))) hsub).length_le
        have hsub2 : range mn ⊆ val :: rest := fun j hj => hlow j (mem_range.mp hj)
        have hsub3 : val :: range mn ⊆ val :: rest := by
          intro j hj
          rcases mem_cons.mp hj with rfl | hj
          · simp
          · exact hsub2 hj
        have hnd3 : (val :: range mn).Nodup := nodup_cons.mpr ⟨by simp; omega, nodup_range⟩
        have h3 := (subperm_of_subset hnd3 hsub3).length_le
        simp at h1 h3
        omega
      have : ¬ k < mn := by omega
      simp only [ltrMinGo, hv, this, if_false]
      exact ssInvGo_ltrMin rest mn _ t' (idx + 1)
        (by intro v hv'
            rcases mem_cons.mp (hlow v hv') with e | h
            · omega
            · exact h) hnd' (by simp only [length_cons]; omega) (nodup_cons.mpr ⟨hk1, hu⟩)
        (by intro u hu'
            rcases mem_cons.mp hu' with rfl | hu'
            · omega
            · exact hur u hu') hlt' h1

/-! ### every non-minimum of the image is the least (greatest) value not used so far -/

theorem ssGo_between {n : Nat} : ∀ (rest : List Nat) (mn : Nat) (used t : List Nat),
    ssGo n rest mn used = .ok t → (∀ u ∈ used, mn ≤ u) →
    ∀ t1 b t2, t = t1 ++ b :: t2 → ∀ a, (a ∈ used ∨ a ∈ t1) → a < b →
      ∀ k, a < k → k < b → (k ∈ used ∨ k ∈ t1)
  | [], mn, used, t, h, _ => by
    simp [ssGo] at h; subst h
    intro t1 b t2 e; simp at e
  | val :: rest, mn, used, t, h, hge => by
    intro t1 b t2 e a ha hab k hak hkb
    rcases ssGo_ok_cons h with ⟨hv, t', h1, rfl⟩ | ⟨hv, k0, t', hk, h1, rfl⟩
    · match t1, e with
      | [], e =>
        simp only [nil_append, cons.injEq] at e
        obtain ⟨rfl, _⟩ := e
        rcases ha with ha | ha
        · have := hge a ha; omega
        · simp at ha
      | w :: t1', e =>
        simp only [cons_append, cons.injEq] at e
        obtain ⟨rfl, e⟩ := e
        have := ssGo_between rest val (val :: used) t' h1
          (by intro u hu; rcases mem_cons.mp hu with rfl | hu
              · exact Nat.le_refl _
              · have := hge u hu; omega)
          t1' b t2 e a (by simp only [mem_cons] at ha ⊢; tauto) hab k hak hkb
        simp only [mem_cons] at this ⊢; tauto
    · obtain ⟨hk1, hk2, hk3, hk4⟩ := firstUnusedUp_some hk
      match t1, e with
      | [], e =>
        simp only [nil_append, cons.injEq] at e
        obtain ⟨rfl, _⟩ := e
        rcases ha with ha | ha
        · have := hge a ha
          exact Or.inl (hk4 k (by omega) hkb)
        · simp at ha
      | w :: t1', e =>
        simp only [cons_append, cons.injEq] at e
        obtain ⟨rfl, e⟩ := e
        have := ssGo_between rest mn (k0 :: used) t' h1
          (by intro u hu; rcases mem_cons.mp hu with rfl | hu
              · omega
              · exact hge u hu)
          t1' b t2 e a (by simp only [mem_cons] at ha ⊢; tauto) hab k hak hkb
        simp only [mem_cons] at this ⊢; tauto

/-- the loop invariant of both loops on a permutation: `rest` = entries still to be read,
    `used` = image entries produced so far, `mn` = current minimum -/
structure InvSt (n : Nat) (rest : List Nat) (mn : Nat) (used : List Nat) : Prop where
  nd : rest.Nodup
  low : ∀ v, v < mn → v ∈ rest
  lt : ∀ v ∈ rest, v < n
  und : used.Nodup
  ur : ∀ u ∈ used, mn ≤ u ∧ u < n
  len : used.length + rest.length = n

theorem InvSt.step_min {n val mn : Nat} {rest used : List Nat} (h : InvSt n (val :: rest) mn used)
    (hv : val < mn) : InvSt n rest val (val :: used) where
  nd := (nodup_cons.mp h.nd).2
  low := by
    intro v hv'
    rcases mem_cons.mp (h.low v (by omega)) with e | h'
    · omega
    · exact h'
  lt := fun v hv' => h.lt v (mem_cons_of_mem _ hv')
  und := nodup_cons.mpr ⟨fun hh => by have := (h.ur val hh).1; omega, h.und⟩
  ur := by
    intro u hu'
    rcases mem_cons.mp hu' with rfl | hu'
    · exact ⟨Nat.le_refl _, h.lt _ (by simp)⟩
    · have := h.ur u hu'; omega
  len := by have := h.len; simp only [length_cons] at this ⊢; omega

theorem InvSt.step_nonmin {n val mn k : Nat} {rest used : List Nat} (h : InvSt n (val :: rest) mn used)
    (hv : ¬ val < mn) (hk1 : k ∉ used) (hk2 : mn ≤ k) (hk3 : k < n) : InvSt n rest mn (k :: used) where
  nd := (nodup_cons.mp h.nd).2
  low := by
    intro v hv'
    rcases mem_cons.mp (h.low v hv') with e | h'
    · omega
    · exact h'
  lt := fun v hv' => h.lt v (mem_cons_of_mem _ hv')
  und := nodup_cons.mpr ⟨hk1, h.und⟩
  ur := by
    intro u hu'
    rcases mem_cons.mp hu' with rfl | hu'
    · exact ⟨hk2, hk3⟩
    · exact h.ur u hu'
  len := by have := h.len; simp only [length_cons] at this ⊢; omega

/-- the greatest unused value is never below the current minimum -/
theorem InvSt.down_ge {n val mn k : Nat} {rest used : List Nat} (h : InvSt n (val :: rest) mn used)
    (hv : ¬ val < mn) (hk : firstUnusedDown used n = some k) : mn ≤ k := by
  obtain ⟨_, hk3, hall⟩ := firstUnusedDown_some hk
  by_contra hlt2
  have hsub : range' (k + 1) (n - (k + 1)) ⊆ used := by
    intro j hj
    have := mem_range'_1.mp hj
    exact hall j (by omega) (by omega)
  have h1 := (subperm_of_subset (nodup_range' (s := k + 1) (n := n - (k + 1))) hsub).length_le
  have hsub2 : range mn ⊆ val :: rest := fun j hj => h.low j (mem_range.mp hj)
  have hsub3 : val :: range mn ⊆ val :: rest := by
    intro j hj
    rcases mem_cons.mp hj with rfl | hj
    · simp
    · exact hsub2 hj
  have hnd3 : (val :: range mn).Nodup := nodup_cons.mpr ⟨by simp; omega, nodup_range⟩
  have h3 := (subperm_of_subset hnd3 hsub3).length_le
  have := h.len
  simp at h1 h3 this
  omega

theorem ssInvGo_between {n : Nat} : ∀ (rest : List Nat) (mn : Nat) (used t : List Nat),
    ssInvGo n rest mn used = .ok t → InvSt n rest mn used →
    ∀ t1 b t2, t = t1 ++ b :: t2 → ∀ a, (a ∈ used ∨ a ∈ t1) → a < b →
      ∀ k, b < k → k < n → (k ∈ used ∨ k ∈ t1)
  | [], mn, used, t, h, _ => by
    simp [ssInvGo] at h; subst h
    intro t1 b t2 e; simp at e
  | val :: rest, mn, used, t, h, inv => by
    intro t1 b t2 e a ha hab k hbk hkn
    rcases ssInvGo_ok_cons h with ⟨hv, t', h1, rfl⟩ | ⟨hv, k0, t', hk, h1, rfl⟩
    · match t1, e with
      | [], e =>
        simp only [nil_append, cons.injEq] at e
        obtain ⟨rfl, _⟩ := e
        rcases ha with ha | ha
        · have := (inv.ur a ha).1; omega
        · simp at ha
      | w :: t1', e =>
        simp only [cons_append, cons.injEq] at e
        obtain ⟨rfl, e⟩ := e
        have := ssInvGo_between rest val (val :: used) t' h1 (inv.step_min hv)
          t1' b t2 e a (by simp only [mem_cons] at ha ⊢; tauto) hab k hbk hkn
        simp only [mem_cons] at this ⊢; tauto
    · obtain ⟨hk1, hk3, hk4⟩ := firstUnusedDown_some hk
      match t1, e with
      | [], e =>
        simp only [nil_append, cons.injEq] at e
        obtain ⟨rfl, _⟩ := e
        exact Or.inl (hk4 k hbk hkn)
      | w :: t1', e =>
        simp only [cons_append, cons.injEq] at e
        obtain ⟨rfl, e⟩ := e
        have := ssInvGo_between rest mn (k0 :: used) t' h1
          (inv.step_nonmin hv hk1 (inv.down_ge hv hk) hk3)
          t1' b t2 e a (by simp only [mem_cons] at ha ⊢; tauto) hab k hbk hkn
        simp only [mem_cons] at this ⊢; tauto

/-- splitting an occurrence at its middle entry -/
theorem sub3_split {a b c : Nat} {τ : List Nat} (h : [a, b, c] <+ τ) :
    ∃ t1 t2, τ = t1 ++ b :: t2 ∧ a ∈ t1 ∧ c ∈ t2 := by
  obtain ⟨r1, r2, e1, ha, h2⟩ := cons_sublist_iff.mp h
  obtain ⟨s1, s2, e2, hb, h3⟩ := cons_sublist_iff.mp h2
  obtain ⟨p, q, e3⟩ := append_of_mem hb
  refine ⟨r1 ++ p, q ++ s2, ?_, mem_append_left _ ha, mem_append_right _ (singleton_sublist.mp h3)⟩
  rw [e1, e2, e3]; simp

/-! ### both loops only look at the left-to-right-minimum skeleton of their input -/

/-- same positions and values of the minima below `mn` -/
def SameSk : Nat → List Nat → List Nat → Prop
  | _, [], [] => True
  | mn, v :: r, v' :: r' => (v < mn ∧ v' = v ∧ SameSk v r r') ∨ (¬ v < mn ∧ ¬ v' < mn ∧ SameSk mn r r')
  | _, [], _ :: _ => False
  | _, _ :: _, [] => False

theorem ssGo_sameSk {n : Nat} : ∀ (rest : List Nat) (mn : Nat) (used t : List Nat),
    ssGo n rest mn used = .ok t → SameSk mn rest t
  | [], mn, used, t, h => by simp [ssGo] at h; subst h; trivial
  | val :: rest, mn, used, t, h => by
    rcases ssGo_ok_cons h with ⟨hv, t', h1, rfl⟩ | ⟨hv, k, t', hk, h1, rfl⟩
    · exact Or.inl ⟨hv, rfl, ssGo_sameSk rest val _ t' h1⟩
    · have := (firstUnusedUp_some hk).2.1
      exact Or.inr ⟨hv, by omega, ssGo_sameSk rest mn _ t' h1⟩

theorem ssInvGo_sameSk {n : Nat} : ∀ (rest : List Nat) (mn : Nat) (used t : List Nat),
    ssInvGo n rest mn used = .ok t → InvSt n rest mn used → SameSk mn rest t
  | [], mn, used, t, h, _ => by simp [ssInvGo] at h; subst h; trivial
  | val :: rest, mn, used, t, h, inv => by
    rcases ssInvGo_ok_cons h with ⟨hv, t', h1, rfl⟩ | ⟨hv, k, t', hk, h1, rfl⟩
    · exact Or.inl ⟨hv, rfl, ssInvGo_sameSk rest val _ t' h1 (inv.step_min hv)⟩
    · obtain ⟨hk1, hk3, _⟩ := firstUnusedDown_some hk
      have hge := inv.down_ge hv hk
      exact Or.inr ⟨hv, by omega, ssInvGo_sameSk rest mn _ t' h1 (inv.step_nonmin hv hk1 hge hk3)⟩

theorem ssInvGo_congr {n : Nat} : ∀ (r r' : List Nat) (mn : Nat) (used : List Nat),
    SameSk mn r r' → ssInvGo n r' mn used = ssInvGo n r mn used
  | [], [], _, _, _ => rfl
  | [], _ :: _, _, _, h => absurd h (by simp [SameSk])
  | _ :: _, [], _, _, h => absurd h (by simp [SameSk])
  | v :: r, v' :: r', mn, used, h => by
    rcases h with ⟨hv, rfl, h⟩ | ⟨hv, hv', h⟩
    · rw [ssInvGo_cons_lt hv, ssInvGo_cons_lt hv, ssInvGo_congr r r' v' _ h]
    · cases hk : firstUnusedDown used n with
      | none => rw [ssInvGo_cons_none hv hk, ssInvGo_cons_none hv' hk]
      | some k => rw [ssInvGo_cons_some hv hk, ssInvGo_cons_some hv' hk, ssInvGo_congr r r' mn _ h]

theorem ssGo_congr {n : Nat} : ∀ (r r' : List Nat) (mn : Nat) (used : List Nat),
    SameSk mn r r' → ssGo n r' mn used = ssGo n r mn used
  | [], [], _, _, _ => rfl
  | [], _ :: _, _, _, h => absurd h (by simp [SameSk])
  | _ :: _, [], _, _, h => absurd h (by simp [SameSk])
  | v :: r, v' :: r', mn, used, h => by
    rcases h with ⟨hv, rfl, h⟩ | ⟨hv, hv', h⟩
    · rw [ssGo_cons_lt hv, ssGo_cons_lt hv, ssGo_congr r r' v' _ h]
    · cases hk : firstUnusedUp used (mn + 1) n with
      | none => rw [ssGo_cons_none hv hk, ssGo_cons_none hv' hk]
      | some k => rw [ssGo_cons_some hv hk, ssGo_cons_some hv' hk, ssGo_congr r r' mn _ h]

/-! ### on a 123-avoider the inverse loop reproduces the input; on a 132-avoider the forward loop does -/

/-- `rest` and `used` split the values below `n` -/
structure Cover (n : Nat) (rest used : List Nat) (mn : Nat) : Prop where
  nd : rest.Nodup
  lt : ∀ v ∈ rest, v < n
  disj : ∀ v ∈ rest, v ∉ used
  cov : ∀ v, v < n → v ∈ rest ∨ v ∈ used
  mn_used : mn ∈ used

theorem Cover.step {n val mn mn' : Nat} {rest used : List Nat} (h : Cover n (val :: rest) used mn)
    (hm : mn' = val ∨ mn' = mn) : Cover n rest (val :: used) mn' where
  nd := (nodup_cons.mp h.nd).2
  lt := fun v hv => h.lt v (mem_cons_of_mem _ hv)
  disj := by
    intro v hv hu
    rcases mem_cons.mp hu with rfl | hu
    · exact (nodup_cons.mp h.nd).1 hv
    · exact h.disj v (mem_cons_of_mem _ hv) hu
  cov := by
    intro v hv
    rcases h.cov v hv with h' | h'
    · rcases mem_cons.mp h' with rfl | h'
      · exact Or.inr (by simp)
      · exact Or.inl h'
    · exact Or.inr (mem_cons_of_mem _ h')
  mn_used := by
    rcases hm with rfl | rfl
    · simp
    · exact mem_cons_of_mem _ h.mn_used

theorem ssInvGo_self {n : Nat} : ∀ (rest : List Nat) (mn : Nat) (used : List Nat),
    Cover n rest used mn → ¬ Has3 (fun a b c => a < b ∧ b < c) (mn :: rest) →
    ssInvGo n rest mn used = .ok rest
  | [], _, _, _, _ => rfl
  | val :: rest, mn, used, hc, hno => by
    by_cases hv : val < mn
    · rw [ssInvGo_cons_lt hv, ssInvGo_self rest val (val :: used) (hc.step (Or.inl rfl))
        (fun h => hno (h.mono (sublist_cons_self _ _)))]
      rfl
    · have hvu : val ∉ used := hc.disj val (by simp)
      have hne : val ≠ mn := fun e => hvu (e ▸ hc.mn_used)
      have hk : firstUnusedDown used n = some val := by
        apply firstUnusedDown_eq (hc.lt val (by simp)) hvu
        intro j hj1 hj2
        rcases hc.cov j hj2 with h' | h'
        · exfalso
          rcases mem_cons.mp h' with e | h'
          · omega
          · apply hno
            refine ⟨mn, val, j, ?_, by omega, hj1⟩
            exact ((singleton_sublist.mpr h').cons_cons val).cons_cons mn
        · exact h'
      rw [ssInvGo_cons_some hv hk, ssInvGo_self rest mn (val :: used) (hc.step (Or.inr rfl))
        (fun h => hno (h.mono ((sublist_cons_self _ _).cons_cons mn)))]
      rfl

theorem ssGo_self {n : Nat} : ∀ (rest : List Nat) (mn : Nat) (used : List Nat),
    Cover n rest used mn → ¬ Has3 (fun a b c => a < c ∧ c < b) (mn :: rest) →
    ssGo n rest mn used = .ok rest
  | [], _, _, _, _ => rfl
  | val :: rest, mn, used, hc, hno => by
    by_cases hv : val < mn
    · rw [ssGo_cons_lt hv, ssGo_self rest val (val :: used) (hc.step (Or.inl rfl))
        (fun h => hno (h.mono (sublist_cons_self _ _)))]
      rfl
    · have hvu : val ∉ used := hc.disj val (by simp)
      have hne : val ≠ mn := fun e => hvu (e ▸ hc.mn_used)
      have hk : firstUnusedUp used (mn + 1) n = some val := by
        apply firstUnusedUp_eq (by omega) (hc.lt val (by simp)) hvu
        intro j hj1 hj2
        rcases hc.cov j (by have := hc.lt val (by simp); omega) with h' | h'
        · exfalso
          rcases mem_cons.mp h' with e | h'
          · omega
          · apply hno
            refine ⟨mn, val, j, ?_, by omega, hj2⟩
            exact ((singleton_sublist.mpr h').cons_cons val).cons_cons mn
        · exact h'
      rw [ssGo_cons_some hv hk, ssGo_self rest mn (val :: used) (hc.step (Or.inr rfl))
        (fun h => hno (h.mono ((sublist_cons_self _ _).cons_cons mn)))]
      rfl

end C12
