import PermutaModel.Lemmas.C19Find
import PermutaModel.Lemmas.C04Orbit

/-! C19 helper lemmas, part 5: the eight sets tried by `EnumerationStrategyWithSymmetry.applies` are the
    orbit of the basis under the dihedral group `D8` of C04 (`symSets B = {g · B | g ∈ D8}`), hence the
    same collection for every member of the orbit (right multiplication by `g` permutes `D8`). -/
open Model.C13 Model.C19 Spec.C19
open Model
open Proto (Err)

namespace C19

/-- the eight sets in the code's order are the eight group elements applied to the basis -/
theorem symSets_eq {B : List NSeq} (hB : ∀ p ∈ B, IsPerm p) :
    symSets B = codeOrder.map fun g => B.map g.act := by
  simp only [symSets, codeOrder, List.map_cons, List.map_nil, List.map_map, Function.comp_def]
  have e0 : B.map (fun p => rotate p 1) = B.map (fun p => complement (inverse p)) :=
    List.map_congr_left fun p _ => C04L.rot1_eq
  have e1 : B.map (fun p => inverse (rotate p 1)) = B.map reverse :=
    List.map_congr_left fun p hp => C04L.inv_rot1_eq (hB p hp)
  have e2 : B.map (fun p => rotate (rotate p 1) 1) = B.map (fun p => reverse (complement p)) :=
    List.map_congr_left fun p hp => C04L.rot2_eq (hB p hp)
  have e3 : B.map (fun p => inverse (rotate (rotate p 1) 1)) =
      B.map (fun p => reverse (complement (inverse p))) :=
    List.map_congr_left fun p hp => C04L.inv_rot2_eq (hB p hp)
  have e4 : B.map (fun p => rotate (rotate (rotate p 1) 1) 1) = B.map (fun p => reverse (inverse p)) :=
    List.map_congr_left fun p hp => C04L.rot3_eq (hB p hp)
  have e5 : B.map (fun p => inverse (rotate (rotate (rotate p 1) 1) 1)) = B.map complement :=
    List.map_congr_left fun p hp => C04L.inv_rot3_eq (hB p hp)
  rw [e0, e1, e2, e3, e4, e5]
  unfold D8.act
  simp

/-- the sets tried are exactly the orbit `{g · B | g ∈ D8}` -/
theorem mem_symSets {B : List NSeq} (hB : ∀ p ∈ B, IsPerm p) (b : List NSeq) :
    b ∈ symSets B ↔ ∃ g : D8, b = B.map g.act := by
  rw [symSets_eq hB, List.mem_map]
  constructor
  · rintro ⟨g, _, rfl⟩; exact ⟨g, rfl⟩
  · rintro ⟨g, rfl⟩; exact ⟨g, C04L.mem_codeOrder g, rfl⟩

theorem isPerm_map_act {B : List NSeq} (hB : ∀ p ∈ B, IsPerm p) (g : D8) : ∀ p ∈ B.map g.act, IsPerm p := by
  intro p hp
  obtain ⟨q, hq, rfl⟩ := List.mem_map.mp hp
  exact C04L.isPerm_act (hB q hq) g

/-- **orbit closure**: the sets tried for a symmetric image of the basis are the sets tried for the basis -/
theorem mem_symSets_act {B : List NSeq} (hB : ∀ p ∈ B, IsPerm p) (g : D8) (b : List NSeq) :
    b ∈ symSets (B.map g.act) ↔ b ∈ symSets B := by
  rw [mem_symSets (isPerm_map_act hB g), mem_symSets hB]
  constructor
  · rintro ⟨h, rfl⟩; exact ⟨h.mul g, by rw [C04L.map_act_mul hB]⟩
  · rintro ⟨h, rfl⟩
    exact ⟨h.mul g.inv, by rw [C04L.map_act_mul hB, C04L.mul_inv_cancel]⟩

theorem length_act (g : D8) (p : NSeq) : (g.act p).length = p.length := by
  rcases g with ⟨r, c, i⟩
  cases r <;> cases c <;> cases i <;> simp [D8.act]

theorem good_act {q : NSeq} (h : Good q) (g : D8) : Good (g.act q) :=
  ⟨C04L.isPerm_act h.1 g, by rw [length_act]; exact h.2⟩

theorem good_map_act {B : List NSeq} (hB : ∀ q ∈ B, Good q) (g : D8) : ∀ q ∈ B.map g.act, Good q := by
  intro q hq
  obtain ⟨r, hr, rfl⟩ := List.mem_map.mp hq
  exact good_act (hB r hr) g

/-- every element of `D8` acts as one of the eight maps `sym 0 … sym 7` of C13 -/
theorem act_eq_sym (g : D8) : ∃ k, ∀ p, g.act p = Model.C13.sym k p := by
  rcases g with ⟨r, c, i⟩
  cases r <;> cases c <;> cases i
  · exact ⟨0, fun _ => rfl⟩
  · exact ⟨4, fun _ => rfl⟩
  · exact ⟨2, fun _ => rfl⟩
  · exact ⟨6, fun _ => rfl⟩
  · exact ⟨1, fun _ => rfl⟩
  · exact ⟨5, fun _ => rfl⟩
  · exact ⟨3, fun p => (C04L.reverseComplement_eq_reverse_complement p).symm⟩
  · exact ⟨7, fun p => (C04L.reverseComplement_eq_reverse_complement (inverse p)).symm⟩

end C19
