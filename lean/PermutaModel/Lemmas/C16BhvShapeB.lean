import PermutaModel.Lemmas.C16BhvDefs
/-!
# C16 — the literal shape `LitW2 k` is order-isomorphic to the plot of `wedge2 k`
-/
namespace C16P.ShapeB
open Model.C14 C14L C16Fam

/-- the point at position `a` of `w2List` -/
def e (k : Nat) (I D : Nat → Pt) (Ap X : Pt) (a : Nat) : Pt :=
  if a + 1 < k then I a else if a + 1 = k then Ap else if a < 2 * k then D (a - k) else X

/-- the point of value `v` -/
def pv (k : Nat) (I D : Nat → Pt) (Ap X : Pt) (v : Nat) : Pt :=
  if v = 2 * k then Ap else if v + 1 = 2 * k then X else if v % 2 = 1 then I (v / 2) else D (k - 1 - v / 2)

theorem w2List_eq (k : Nat) (hk : 1 ≤ k) (I D : Nat → Pt) (Ap X : Pt) :
    w2List k I D Ap X = (List.range (2 * k + 1)).map (e k I D Ap X) := by
  apply List.ext_getElem
  · simp [w2List]; omega
  · intro a h1 h2
    simp only [List.length_map, List.length_range] at h2
    simp only [w2List, List.getElem_map, List.getElem_range, List.getElem_append, List.length_append,
      List.length_map, List.length_range, List.length_singleton, e]
    rcases w2_cases k a h2 with h | h | h | h
    · have c1 : a < k - 1 + 1 + k := by omega
      have c2 : a < k - 1 + 1 := by omega
      have c3 : a < k - 1 := by omega
      simp [c1, c2, c3, h]
    · have c1 : a < k - 1 + 1 + k := by omega
      have c2 : a < k - 1 + 1 := by omega
      have c3 : ¬ a < k - 1 := by omega
      have c4 : ¬ a + 1 < k := by omega
      simp [c1, c2, c3, h]
    · have c1 : a < k - 1 + 1 + k := by omega
      have c2 : ¬ a < k - 1 + 1 := by omega
      have c4 : ¬ a + 1 < k := by omega
      have c5 : ¬ a + 1 = k := by omega
      have c6 : a - (k - 1 + 1) = a - k := by omega
      simp [c1, c2, c4, c5, c6, h.2]
    · have c1 : ¬ a < k - 1 + 1 + k := by omega
      have c4 : ¬ a + 1 < k := by omega
      have c5 : ¬ a + 1 = k := by omega
      have c6 : ¬ a < 2 * k := by omega
      simp [c1, c4, c5, c6]

theorem e_eq_pv (k : Nat) (hk : 1 ≤ k) (I D : Nat → Pt) (Ap X : Pt) (a : Nat) (ha : a < 2 * k + 1) :
    e k I D Ap X a = pv k I D Ap X (w2Entry k a) := by
  rcases w2_cases k a ha with h | h | h | h
  · rw [(w2_I h).2]; unfold e pv
    rw [if_pos h, if_neg (by omega), if_neg (by omega), if_pos (by omega)]
    congr 1; omega
  · rw [(w2_M h).2]; unfold e pv
    rw [if_neg (by omega), if_pos h, if_pos rfl]
  · rw [(w2_D h.1 h.2).2]; unfold e pv
    rw [if_neg (by omega), if_neg (by omega), if_pos h.2, if_neg (by omega), if_neg (by omega), if_neg (by omega)]
    congr 1; omega
  · rw [(w2_X hk h).2]; unfold e pv
    rw [if_neg (by omega), if_neg (by omega), if_neg (by omega), if_neg (by omega), if_pos (by omega)]

theorem pv_step (k : Nat) (hk : 1 ≤ k) (I D : Nat → Pt) (Ap X : Pt) (h : LitW2 k I D Ap X) (v : Nat)
    (hv : v + 1 ≤ 2 * k) : (pv k I D Ap X v).2 < (pv k I D Ap X (v + 1)).2 := by
  obtain ⟨_, _, _, _, _, hz, hX, hA⟩ := h
  unfold pv
  by_cases h1 : v + 1 = 2 * k
  · rw [if_neg (by omega), if_pos h1, if_pos h1]; exact hA
  · by_cases h2 : v + 2 = 2 * k
    · rw [if_neg (by omega), if_neg (by omega), if_neg (by omega), if_neg (by omega), if_pos (by omega)]
      exact hX _ (by omega)
    · have c1 : ¬ v = 2 * k := by omega
      have c2 : ¬ v + 1 + 1 = 2 * k := by omega
      rw [if_neg c1, if_neg h1, if_neg h1, if_neg c2]
      by_cases h3 : v % 2 = 1
      · have c3 : ¬ (v + 1) % 2 = 1 := by omega
        rw [if_pos h3, if_neg c3]
        have := (hz (v / 2) (by omega)).2
        have e1 : k - 1 - (v + 1) / 2 = k - 2 - v / 2 := by omega
        rw [e1]; exact this
      · have c3 : (v + 1) % 2 = 1 := by omega
        rw [if_neg h3, if_pos c3]
        have := (hz (v / 2) (by omega)).1
        have e1 : (v + 1) / 2 = v / 2 := by omega
        rw [e1]; exact this

theorem pv_mono (k : Nat) (hk : 1 ≤ k) (I D : Nat → Pt) (Ap X : Pt) (h : LitW2 k I D Ap X) (v d : Nat)
    (hv : v + d + 1 ≤ 2 * k) : (pv k I D Ap X v).2 < (pv k I D Ap X (v + d + 1)).2 := by
  induction d with
  | zero => exact pv_step k hk I D Ap X h v hv
  | succ d ih =>
    exact Std.lt_trans (ih (by omega)) (pv_step k hk I D Ap X h (v + d + 1) (by omega))

theorem w2Entry_le (k : Nat) (hk : 1 ≤ k) (a : Nat) (_ha : a < 2 * k + 1) : w2Entry k a ≤ 2 * k := by
  unfold w2Entry; split_ifs <;> omega

theorem w2Entry_inj (k : Nat) (hk : 1 ≤ k) (a b : Nat) (ha : a < 2 * k + 1) (hb : b < 2 * k + 1)
    (h : w2Entry k a = w2Entry k b) : a = b := by
  unfold w2Entry at h; split_ifs at h <;> omega

theorem y_of_lt (k : Nat) (hk : 1 ≤ k) (I D : Nat → Pt) (Ap X : Pt) (h : LitW2 k I D Ap X) (a b : Nat)
    (ha : a < 2 * k + 1) (hb : b < 2 * k + 1) (hab : w2Entry k a < w2Entry k b) :
    (e k I D Ap X a).2 < (e k I D Ap X b).2 := by
  rw [e_eq_pv k hk I D Ap X a ha, e_eq_pv k hk I D Ap X b hb]
  have hb' := w2Entry_le k hk b hb
  obtain ⟨d, hd⟩ : ∃ d, w2Entry k b = w2Entry k a + d + 1 := ⟨w2Entry k b - w2Entry k a - 1, by omega⟩
  rw [hd]
  exact pv_mono k hk I D Ap X h _ d (by omega)

theorem y_iff (k : Nat) (hk : 1 ≤ k) (I D : Nat → Pt) (Ap X : Pt) (h : LitW2 k I D Ap X) (a b : Nat)
    (ha : a < 2 * k + 1) (hb : b < 2 * k + 1) :
    (e k I D Ap X a).2 < (e k I D Ap X b).2 ↔ w2Entry k a < w2Entry k b := by
  constructor
  · intro hlt
    rcases Nat.lt_trichotomy (w2Entry k a) (w2Entry k b) with h1 | h1 | h1
    · exact h1
    · have := w2Entry_inj k hk a b ha hb h1
      subst this
      exact absurd hlt (Rat.lt_irrefl)
    · have := y_of_lt k hk I D Ap X h b a hb ha h1
      exact absurd (Std.lt_trans hlt this) (Rat.lt_irrefl)
  · exact y_of_lt k hk I D Ap X h a b ha hb

theorem x_mono (k : Nat) (hk : 1 ≤ k) (I D : Nat → Pt) (Ap X : Pt) (h : LitW2 k I D Ap X) (a b : Nat)
    (hab : a < b) (hb : b < 2 * k + 1) : (e k I D Ap X a).1 < (e k I D Ap X b).1 := by
  obtain ⟨hI, hIA, hAD, hD, hDX, _, _, _⟩ := h
  have hAX : Ap.1 < X.1 := Std.lt_trans (hAD 0 (by omega)) (hDX 0 (by omega))
  unfold e
  rcases w2_cases k a (by omega) with h1 | h1 | h1 | h1 <;>
  rcases w2_cases k b hb with h2 | h2 | h2 | h2 <;> try omega
  · rw [if_pos h1, if_pos h2]; exact hI a b hab h2
  · rw [if_pos h1, if_neg (by omega), if_pos h2]; exact hIA a h1
  · rw [if_pos h1, if_neg (by omega), if_neg (by omega), if_pos h2.2]
    exact Std.lt_trans (hIA a h1) (hAD _ (by omega))
  · rw [if_pos h1, if_neg (by omega), if_neg (by omega), if_neg (by omega)]
    exact Std.lt_trans (hIA a h1) hAX
  · rw [if_neg (by omega), if_pos h1, if_neg (by omega), if_neg (by omega), if_pos h2.2]
    exact hAD _ (by omega)
  · rw [if_neg (by omega), if_pos h1, if_neg (by omega), if_neg (by omega), if_neg (by omega)]
    exact hAX
  · rw [if_neg (by omega), if_neg (by omega), if_pos h1.2, if_neg (by omega), if_neg (by omega), if_pos h2.2]
    exact hD _ _ (by omega) (by omega)
  · rw [if_neg (by omega), if_neg (by omega), if_pos h1.2, if_neg (by omega), if_neg (by omega), if_neg (by omega)]
    exact hDX _ (by omega)

theorem x_pairwise (k : Nat) (hk : 1 ≤ k) (I D : Nat → Pt) (Ap X : Pt) (h : LitW2 k I D Ap X) :
    (w2List k I D Ap X).Pairwise (fun a b => a.1 < b.1) := by
  rw [w2List_eq k hk, List.pairwise_map]
  refine List.Pairwise.imp_of_mem ?_ List.pairwise_lt_range
  intro a b _ hb hab
  exact x_mono k hk I D Ap X h a b hab (by simpa using hb)

theorem sorted_eq (k : Nat) (hk : 1 ≤ k) (I D : Nat → Pt) (Ap X : Pt) (h : LitW2 k I D Ap X) :
    sortedPins (w2List k I D Ap X) = w2List k I D Ap X := by
  unfold sortedPins
  apply List.mergeSort_of_pairwise
  refine (x_pairwise k hk I D Ap X h).imp ?_
  intro a b hab
  simp only [ptLe, Bool.or_eq_true, decide_eq_true_eq]
  exact Or.inl hab

theorem ys_nodup (k : Nat) (hk : 1 ≤ k) (I D : Nat → Pt) (Ap X : Pt) (h : LitW2 k I D Ap X) :
    (ys (w2List k I D Ap X)).Nodup := by
  rw [w2List_eq k hk, ys, List.map_map]
  apply List.Nodup.map_on _ List.nodup_range
  intro a ha b hb hab
  simp only [List.mem_range] at ha hb
  simp only [Function.comp] at hab
  apply w2Entry_inj k hk a b ha hb
  rcases Nat.lt_trichotomy (w2Entry k a) (w2Entry k b) with h1 | h1 | h1
  · have := y_of_lt k hk I D Ap X h a b ha hb h1
    rw [hab] at this; exact absurd this Rat.lt_irrefl
  · exact h1
  · have := y_of_lt k hk I D Ap X h b a hb ha h1
    rw [hab] at this; exact absurd this Rat.lt_irrefl

end C16P.ShapeB

namespace C16P
open Model.C14 C14L C16Fam C16P.ShapeB

theorem litW2_perm (k : Nat) (hk : 1 ≤ k) (I D : Nat → Pt) (Ap X : Pt) (h : LitW2 k I D Ap X) :
    Model.C14.permOfPts (w2List k I D Ap X) = C16Fam.wedge2 k := by
  have hlen : (w2List k I D Ap X).length = 2 * k + 1 := by rw [w2List_eq k hk]; simp
  apply Model.C17.perm_eq_of_iso (permOfPts_isPerm (ys_nodup k hk I D Ap X h)) (isPerm_wedge2 k hk)
    (by rw [permOfPts_length, hlen]; simp [wedge2])
  intro a b ha hb
  rw [permOfPts_length, hlen] at ha hb
  rw [permOfPts_orderIso a b (by omega) (by omega), sorted_eq k hk I D Ap X h, w2List_eq k hk,
    wedge2, getD_mapRange _ _ a ha, getD_mapRange _ _ b hb]
  have ga : ((List.range (2 * k + 1)).map (e k I D Ap X)).getD a origin = e k I D Ap X a := by
    simp [List.getD_eq_getElem?_getD, ha]
  have gb : ((List.range (2 * k + 1)).map (e k I D Ap X)).getD b origin = e k I D Ap X b := by
    simp [List.getD_eq_getElem?_getD, hb]
  rw [ga, gb]
  exact y_iff k hk I D Ap X h a b ha hb

theorem litW2_nodup (k : Nat) (hk : 1 ≤ k) (I D : Nat → Pt) (Ap X : Pt) (h : LitW2 k I D Ap X) :
    (w2List k I D Ap X).Nodup := by
  refine (x_pairwise k hk I D Ap X h).imp ?_
  intro a b hab heq
  subst heq
  exact absurd hab Rat.lt_irrefl

end C16P

