import PermutaModel.Lemmas.C01GoSound
open Model

/-- decidable version of `FullIso` -/
def fullIsoB (π σ : NSeq) (c : List Nat) : Bool :=
  (List.range π.length).all fun a => (List.range π.length).all fun b =>
    decide (π.getD a 0 < π.getD b 0) == decide (σ.getD (c.getD a 0) 0 < σ.getD (c.getD b 0) 0)

theorem fullIsoB_iff (π σ : NSeq) (c : List Nat) : fullIsoB π σ c = true ↔ FullIso π σ c := by
  simp only [fullIsoB, List.all_eq_true, List.mem_range, beq_iff_eq, decide_eq_decide, FullIso]
  constructor
  · intro h a b ha hb; exact h a ha b hb
  · intro h a ha b hb; exact h a b ha hb

/-- the specification, in the shape of the search: all strictly increasing continuations of
    `occ` drawn from positions `i, i+1, …`, in lexicographic order, that are order-isomorphic -/
def specExt (π σ : NSeq) (i k : Nat) (occ : List Nat) : List (List Nat) :=
  ((Spec.subLen (π.length - k) (List.range' i (σ.length - i))).map (occ ++ ·)).filter (fullIsoB π σ)

theorem subLen_of_length_lt : ∀ (k : Nat) (l : List Nat), l.length < k → Spec.subLen k l = []
  | 0, _, h => by simp at h
  | k+1, [], _ => by simp [Spec.subLen]
  | k+1, x :: xs, h => by
    have h' : xs.length < k := by simp at h; omega
    simp [Spec.subLen, subLen_of_length_lt k xs h', subLen_of_length_lt (k+1) xs (by omega)]

theorem range'_split (i n : Nat) (h : i < n) :
    List.range' i (n - i) = i :: List.range' (i+1) (n - (i+1)) := by
  have : n - i = (n - (i+1)) + 1 := by omega
  rw [this, List.range'_succ]

structure PermHyp (π σ : NSeq) : Prop where
  inj : PInj π
  surj : PSurj π
  bdd : PBdd π
  σbdd : ∀ j, σ.getD j 0 < σ.length

theorem prefixIso_full {π σ : NSeq} {c : List Nat} (h : c.length = π.length) :
    PrefixIso π σ c ↔ FullIso π σ c := by
  simp only [PrefixIso, FullIso, h]

theorem go_eq_specExt (π σ : NSeq) (hp : PermHyp π σ)
    (i k : Nat) (occ : List Nat) (hk : occ.length = k) (hkn : k < π.length)
    (hgood : GoodPrefix π σ i occ) :
    go σ (patternDetails π) π.length i k occ = specExt π σ i k occ := by
  fun_induction go σ (patternDetails π) π.length i k occ with
  | case1 i k occ hcut =>
    have hl : (List.range' i (σ.length - i)).length < π.length - k := by simpa using hcut
    simp [specExt, subLen_of_length_lt _ _ hl]
  | case2 i k occ hcut hi hfit hlast ih =>
    have hiso := fits_sound π σ occ i (by omega) hp.inj hgood.iso (hk ▸ ceilOK π k)
      (by subst hk; exact hfit)
    have hfull : fullIsoB π σ (occ ++ [i]) = true :=
      (fullIsoB_iff _ _ _).mpr ((prefixIso_full (by simp; omega)).mp hiso)
    rw [ih hk hkn hgood.mono]
    simp only [specExt, range'_split i σ.length hi, hlast, Spec.subLen, List.map_cons, List.map_nil,
      List.map_append, List.filter_append, List.filter_cons, hfull, if_true, List.filter_nil,
      List.cons_append, List.nil_append]
  | case3 i k occ hcut hi hfit hlast ih1 ih2 =>
    have hiso := fits_sound π σ occ i (by omega) hp.inj hgood.iso (hk ▸ ceilOK π k)
      (by subst hk; exact hfit)
    rw [ih1 (by simp; omega) (by omega) (hgood.snoc hiso), ih2 hk hkn hgood.mono]
    obtain ⟨m, hm⟩ : ∃ m, π.length - k = m + 2 := ⟨π.length - k - 2, by omega⟩
    have hm' : π.length - (k + 1) = m + 1 := by omega
    simp only [specExt, range'_split i σ.length hi, hm, hm', Spec.subLen, List.map_append,
      List.filter_append, List.map_map]
    congr 2
    apply List.map_congr_left
    intro t _
    simp
  | case4 i k occ hcut hi hfit ih =>
    rw [ih hk hkn hgood.mono]
    obtain ⟨m, hm⟩ : ∃ m, π.length - k = m + 1 := ⟨π.length - k - 1, by omega⟩
    simp only [specExt, range'_split i σ.length hi, hm, Spec.subLen, List.map_append,
      List.filter_append, List.map_map]
    -- the continuations through `i` are all rejected by the spec
    have hnil : List.filter (fullIsoB π σ)
        (List.map ((fun x => occ ++ x) ∘ fun x => i :: x)
          (Spec.subLen m (List.range' (i + 1) (σ.length - (i + 1))))) = [] := by
      rw [List.filter_eq_nil_iff]
      intro c hc hiso
      obtain ⟨t, _, rfl⟩ := List.mem_map.mp hc
      have hfi := (fullIsoB_iff _ _ _).mp hiso
      apply hfit
      have := fits_complete π σ (occ ++ i :: t) k hkn hp.surj hp.bdd hfi
        (fun a _ => hp.σbdd _) (ceilOK π k) occ
        (by intro a ha; simp [List.getD_eq_getElem?_getD, List.getElem?_append_left (hk ▸ ha)])
      have hci : (occ ++ i :: t).getD k 0 = i := by
        simp [List.getD_eq_getElem?_getD, ← hk]
      rw [hci] at this
      exact this
    rw [hnil, List.nil_append]
  | case5 i k occ hcut hi => omega

/-- C01 main theorem on the spike model -/
theorem occurrencesIn_eq_spec (π σ : NSeq) (hp : PermHyp π σ) :
    occurrencesIn π σ = (Spec.subLen π.length (List.range σ.length)).filter (fullIsoB π σ) := by
  unfold occurrencesIn
  split
  · next h0 =>
    have : π = [] := List.eq_nil_of_length_eq_zero h0
    subst this; simp [Spec.subLen, fullIsoB]
  · next h0 =>
    split
    · next hgt =>
      have hl : (List.range σ.length).length < π.length := by simpa using hgt
      simp [subLen_of_length_lt _ _ hl]
    · next hle =>
      have := go_eq_specExt π σ hp 0 0 [] rfl (by omega)
        ⟨by simp, List.Pairwise.nil, by intro a b ha; simp at ha⟩
      rw [this]
      simp [specExt, List.range_eq_range']
