import PermutaModel.Lemmas.C14Step
import Mathlib.Data.List.Induction
/-! C14 helper lemmas: the whole decoding loop on a word of the language. -/
namespace C14L
open Model.C14 Model.C14.Letter Spec.C14 Proto

/-- what the next letter may rely on after the pin of letter `c` has been placed -/
def Ready (c : Letter) (pts : List Pt) : Prop :=
  (c.isVert = false → XExt pts) ∧ (c.isHoriz = false → YExt pts)

/-- what the next letter must *not* do: after a vertical (horizontal) letter the newest point is
    not x-extremal (y-extremal) -/
def Blocked (c : Letter) (pts : List Pt) : Prop :=
  (c.isVert = true → ¬ XExt pts) ∧ (c.isHoriz = true → ¬ YExt pts)

/-- the geometric condition of one letter: numeral = independent pin, direction = separating pin -/
def Geo (c : Letter) (p : Pt) (pts : List Pt) : Prop :=
  if c.isQuad then IndepPin c p pts else SepPin c p pts

/-- `pts'` arises from `pts` by placing one pin per letter of `w`, newest first, each pin
    satisfying the geometric condition of its letter w.r.t. all points placed before it -/
def GeoRun : List Pt → Word → List Pt → Prop
  | pts, [], pts' => pts' = pts
  | pts, c :: w, pts' => ∃ p, Geo c p pts ∧ GeoRun (p :: pts) w pts'

theorem step_letter {pts : List Pt} (hI : Inv pts) (p c : Letter) (hR : Ready p pts)
    (hc : (c.isQuad || (c.isDir && !sameAxis p c)) = true) :
    ∃ q, stepPts pts c = .ok (q :: pts) ∧ Inv (q :: pts) ∧ Ready c (q :: pts) ∧ Geo c q pts
      ∧ Blocked c (q :: pts) := by
  by_cases hq : c.isQuad = true
  · obtain ⟨q, h1, h2, h3, h4, h5⟩ := step_numeral hI c hq
    exact ⟨q, h1, h2, ⟨fun _ => h3, fun _ => h4⟩, by simp [Geo, hq, h5],
      ⟨fun h => by cases c <;> simp_all [isQuad, isVert], fun h => by cases c <;> simp_all [isQuad, isHoriz]⟩⟩
  · simp only [hq, Bool.false_or, Bool.and_eq_true, Bool.not_eq_true'] at hc
    by_cases hv : c.isVert = true
    · have hpv : p.isVert = false := by
        have := hc.2; simp only [sameAxis, hv] at this
        cases hp : p.isVert <;> simp_all
      obtain ⟨q, h1, h2, h3, h4, h5⟩ := step_vert hI (hR.1 hpv) c hv
      refine ⟨q, h1, h2, ⟨fun h => absurd hv (by simp [h]), fun _ => h3⟩, by simp [Geo, hq, h4],
        ⟨fun _ => h5, fun h => by cases c <;> simp_all [isVert, isHoriz]⟩⟩
    · have hh : c.isHoriz = true := by
        have := hc.1; cases c <;> simp_all [isDir, isVert, isHoriz]
      have hph : p.isHoriz = false := by
        have := hc.2; simp only [sameAxis, hh] at this
        cases hp : p.isHoriz <;> simp_all
      obtain ⟨q, h1, h2, h3, h4, h5⟩ := step_horiz hI (hR.2 hph) c hh
      refine ⟨q, h1, h2, ⟨fun _ => h3, fun h => absurd hh (by simp [h])⟩, by simp [Geo, hq, h4],
        ⟨fun h => by cases c <;> simp_all [isVert, isHoriz], fun _ => h5⟩⟩

theorem build_chain (rest : Word) : ∀ (p : Letter) (pts : List Pt), Inv pts → Ready p pts →
    Blocked p pts → chainOK p rest = true →
    ∃ pts', buildPts pts rest = .ok pts' ∧ Inv pts' ∧ Ready (lastOr p rest) pts'
      ∧ GeoRun pts rest pts' ∧ pts'.length = pts.length + rest.length
      ∧ Blocked (lastOr p rest) pts' := by
  induction rest with
  | nil =>
    intro p pts hI hR hB _
    exact ⟨pts, rfl, hI, by simpa [lastOr] using hR, rfl, by simp, by simpa [lastOr] using hB⟩
  | cons c rest ih =>
    intro p pts hI hR _ hch
    simp only [chainOK, Bool.and_eq_true] at hch
    obtain ⟨q, h1, h2, h3, h4, h5⟩ := step_letter hI p c hR hch.1
    obtain ⟨pts', g1, g2, g3, g4, g5, g6⟩ := ih c (q :: pts) h2 h3 h5 hch.2
    refine ⟨pts', ?_, g2, by rw [lastOr_cons]; exact g3, ⟨q, h4, g4⟩, ?_, by rw [lastOr_cons]; exact g6⟩
    · simp only [buildPts, h1, g1]
    · simp only [List.length_cons] at g5 ⊢; omega

/-- the decoding loop on a word of the language -/
theorem build_lang (w : Word) (hw : inLang w = true) :
    ∃ pts', pinPoints w = .ok pts' ∧ Inv pts' ∧ GeoRun [origin] w pts'
      ∧ pts'.length = w.length + 1 := by
  cases w with
  | nil => exact ⟨[origin], rfl, inv_origin, rfl, rfl⟩
  | cons c rest =>
    simp only [inLang, Bool.and_eq_true] at hw
    obtain ⟨q, h1, h2, h3, h4, h5⟩ := step_numeral inv_origin c hw.1
    have hB : Blocked c [q, origin] :=
      ⟨fun h => by have := hw.1; cases c <;> simp_all [isQuad, isVert],
       fun h => by have := hw.1; cases c <;> simp_all [isQuad, isHoriz]⟩
    obtain ⟨pts', g1, g2, _, g4, g5, _⟩ :=
      build_chain rest c (q :: [origin]) h2 ⟨fun _ => h3, fun _ => h4⟩ hB hw.2
    refine ⟨pts', ?_, g2, ⟨q, by simp [Geo, hw.1, h5], g4⟩, ?_⟩
    · simp only [pinPoints, buildPts, h1, g1]
    · simp only [List.length_cons, List.length_nil] at g5 ⊢; omega

/-- the loop on `a ++ b` is the loop on `a` followed by the loop on `b` -/
theorem buildPts_append (a b : Word) (pts : List Pt) :
    buildPts pts (a ++ b) =
      match buildPts pts a with
      | .error e => .error e
      | .ok pts' => buildPts pts' b := by
  induction a generalizing pts with
  | nil => simp [buildPts]
  | cons c a ih =>
    simp only [List.cons_append, buildPts]
    cases stepPts pts c with
    | error e => rfl
    | ok pts' => exact ih pts'

/-- the loop only conses: the earlier points stay where they are -/
theorem buildPts_suffix (v : Word) : ∀ (a b : List Pt), buildPts a v = .ok b →
    ∃ newer, b = newer ++ a ∧ newer.length = v.length := by
  induction v with
  | nil => intro a b h; simp only [buildPts, Except.ok.injEq] at h; subst h; exact ⟨[], rfl, rfl⟩
  | cons c v ih =>
    intro a b h
    simp only [buildPts] at h
    cases hs : stepPts a c with
    | error e => simp [hs] at h
    | ok a' =>
      simp only [hs] at h
      have ha' : ∃ p, a' = p :: a := by
        unfold stepPts at hs
        cases hc : call c a with
        | error e => simp [hc] at hs
        | ok p =>
          simp only [hc] at hs
          split at hs
          · simp at hs
          · exact ⟨p, (Except.ok.inj hs).symm⟩
      obtain ⟨p, rfl⟩ := ha'
      obtain ⟨newer, rfl, hl⟩ := ih _ _ h
      exact ⟨newer ++ [p], by simp, by simp [hl]⟩

/-- kind of the exception raised by the first letter `c` that leaves the language after the
    language prefix `w`: an unknown character is a `KeyError` of the dispatch dictionary, a leading
    direction is `max([])` (`ValueError`), a direction after a direction of its own axis reaches
    `assert False` -/
def rejectKind (w : Word) (c : Letter) : Err :=
  if c.isDir then (if w.isEmpty then .valueError else .assertion) else .keyError

theorem build_reject (w : Word) (c : Letter) (post : Word) (hw : inLang w = true)
    (hc : okNext w c = false) : pinPoints (w ++ c :: post) = .error (rejectKind w c) := by
  unfold pinPoints
  rw [buildPts_append]
  cases w with
  | nil =>
    simp only [buildPts]
    cases c <;> simp_all [okNext, isQuad, isVert, isHoriz, rejectKind, isDir] <;> rfl
  | cons q rest =>
    simp only [inLang, Bool.and_eq_true] at hw
    obtain ⟨p, h1, h2, h3, h4, _⟩ := step_numeral inv_origin q hw.1
    have hB : Blocked q [p, origin] :=
      ⟨fun h => by have := hw.1; cases q <;> simp_all [isQuad, isVert],
       fun h => by have := hw.1; cases q <;> simp_all [isQuad, isHoriz]⟩
    obtain ⟨pts', g1, g2, _, _, g5, g6⟩ :=
      build_chain rest q [p, origin] h2 ⟨fun _ => h3, fun _ => h4⟩ hB hw.2
    have hb : buildPts [origin] (q :: rest) = .ok pts' := by simp only [buildPts, h1, g1]
    rw [hb]
    simp only [buildPts]
    have hl := chainOK_last q rest (Or.inl hw.1) hw.2
    rw [okNext_eq q rest c hl] at hc
    simp only [Bool.or_eq_false_iff, Bool.and_eq_false_iff, Bool.not_eq_eq_eq_not, Bool.not_false] at hc
    have hlen : 2 ≤ pts'.length := by rw [g5]; simp
    match pts', hlen with
    | last :: i1 :: init, _ =>
      by_cases hd : c.isDir = true
      · have hsame : sameAxis (lastOr q rest) c = true := by
          rcases hc.2 with h | h
          · simp [hd] at h
          · exact h
        simp only [rejectKind, hd, if_true, List.isEmpty_cons, Bool.false_eq_true, if_false]
        by_cases hv : c.isVert = true
        · have hpv : (lastOr q rest).isVert = true := by
            simp only [sameAxis, hv, Bool.and_true] at hsame
            cases hh : c.isHoriz <;> simp_all
            cases c <;> simp_all [isVert, isHoriz]
          rw [step_vert_assert (by simp) (g6.1 hpv) c hv]
        · have hh : c.isHoriz = true := by cases c <;> simp_all [isDir, isVert, isHoriz]
          have hph : (lastOr q rest).isHoriz = true := by
            simp only [sameAxis, hh, Bool.and_true] at hsame
            cases hv' : c.isVert <;> simp_all
          rw [step_horiz_assert (by simp) (g6.2 hph) c hh]
      · have hq : c.isQuad = false := hc.1
        have : ∃ ch, c = X ch := by cases c <;> simp_all [isDir, isQuad]
        obtain ⟨ch, rfl⟩ := this
        simp [rejectKind, isDir, stepPts, call]

/-- a word outside the language splits at the first offending letter -/
theorem lang_split (v : Word) (hv : inLang v = false) :
    ∃ w c post, v = w ++ c :: post ∧ inLang w = true ∧ okNext w c = false := by
  induction v using List.reverseRecOn with
  | nil => simp [inLang] at hv
  | append_singleton u c ih =>
    by_cases hu : inLang u = true
    · rw [inLang_snoc, hu, Bool.true_and] at hv
      exact ⟨u, c, [], rfl, hu, hv⟩
    · obtain ⟨w, d, post, rfl, h1, h2⟩ := ih (by simpa using hu)
      exact ⟨w, d, post ++ [c], by simp, h1, h2⟩

end C14L
