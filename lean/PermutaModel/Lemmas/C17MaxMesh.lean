import PermutaModel.Lemmas.C17MineTop
/-! A1 (third part): `maximal_mesh_pattern_of_occurrence σ c = allCells ∖ hit σ c`. -/

namespace Model.C17

theorem hitBoxes_eq_map_colScan (cand : List Nat) (l : List Nat) (x : Nat) :
    hitBoxes cand l x = (colScan cand l x).map fun vc => (vc.2, (cand.filter (· < vc.1)).length) := by
  induction l generalizing x with
  | nil => simp [hitBoxes, colScan]
  | cons e rest ih =>
    unfold hitBoxes colScan
    by_cases h : cand.contains e = true
    · simp only [h, if_true]; exact ih (x + 1)
    · simp only [h, Bool.false_eq_true, if_false, List.map_cons]; rw [ih x]

theorem mem_colScan (con : List Nat) (l : List Nat) (x : Nat) (vc : Nat × Nat)
    (h : vc ∈ colScan con l x) : vc.1 ∈ l ∧ con.contains vc.1 = false := by
  induction l generalizing x with
  | nil => simp [colScan] at h
  | cons e rest ih =>
    unfold colScan at h
    by_cases hc : con.contains e = true
    · simp only [hc, if_true] at h
      have := ih (x + 1) h; exact ⟨List.mem_cons_of_mem _ this.1, this.2⟩
    · simp only [hc, Bool.false_eq_true, if_false] at h
      rcases List.mem_cons.mp h with rfl | h
      · exact ⟨by simp, by simpa using hc⟩
      · have := ih x h; exact ⟨List.mem_cons_of_mem _ this.1, this.2⟩

theorem lookup_colScan (con pre post : List Nat) (e : Nat) (he : con.contains e = false)
    (hne : e ∉ pre) (x0 : Nat) :
    (colScan con (pre ++ e :: post) x0).lookup e = some (x0 + pre.countP (fun a => con.contains a)) := by
  induction pre generalizing x0 with
  | nil =>
    have : e ∉ con := by simpa using he
    simp [colScan, this, List.lookup]
  | cons a pre ih =>
    have hae : e ≠ a := fun h => hne (by simp [h])
    have hne' : e ∉ pre := fun h => hne (List.mem_cons_of_mem _ h)
    simp only [List.cons_append, colScan]
    by_cases ha : con.contains a = true
    · simp only [ha, if_true, List.countP_cons_of_pos]
      rw [ih hne' (x0 + 1)]; congr 1; omega
    · simp only [ha, Bool.false_eq_true, if_false]
      rw [List.countP_cons_of_neg (by simpa using ha)]
      have : (e == a) = false := by simpa using hae
      simp only [List.lookup, this]
      exact ih hne' x0

theorem range_split (n e : Nat) (h : e < n) :
    List.range n = List.range e ++ e :: List.range' (e + 1) (n - e - 1) := by
  rw [List.range_eq_range', List.range_eq_range']
  have : n = e + (1 + (n - e - 1)) := by omega
  conv => lhs; rw [this]
  rw [← List.range'_append_1, ← List.range'_append_1]
  simp

theorem pick_nodup {σ : NSeq} (hσ : IsPerm σ) (c : List Nat) (hcn : c.Nodup) (hcr : ∀ i ∈ c, i < σ.length) :
    (pick σ c).Nodup := by
  unfold pick
  rw [List.nodup_map_iff_inj_on hcn]
  intro a ha b hb hab
  exact hσ.getD_inj (hcr a ha) (hcr b hb) hab

theorem maximalMesh_eq {σ : NSeq} (hσ : IsPerm σ) (c : List Nat) (hcn : c.Nodup)
    (hcr : ∀ i ∈ c, i < σ.length) :
    maximalMesh σ c = (List.range (c.length + 1)).flatMap fun u =>
      (List.range (c.length + 1)).filterMap fun v =>
        if (hitBoxes (pick σ c) σ 0).contains (u, v) then none else some (u, v) := by
  have hbad : ((colScan (pick σ c) σ 0).filterMap fun vc =>
      ((colScan (pick σ c) (List.range σ.length) 0).lookup vc.1).map fun r => (vc.2, r))
      = hitBoxes (pick σ c) σ 0 := by
    rw [hitBoxes_eq_map_colScan, ← List.filterMap_eq_map]
    apply List.filterMap_congr
    intro vc hvc
    obtain ⟨hm, hcon⟩ := mem_colScan _ _ _ vc hvc
    have hlt : vc.1 < σ.length := hσ.2 _ hm
    rw [range_split σ.length vc.1 hlt,
      lookup_colScan _ _ _ _ hcon (by rw [List.mem_range]; omega) 0]
    simp only [Nat.zero_add, Option.map_some, Function.comp, Option.some.injEq, Prod.mk.injEq, true_and]
    have := countP_range_mem (pick σ c) (pick_nodup hσ c hcn hcr) vc.1
    rw [← List.countP_eq_length_filter, ← this]
    apply List.countP_congr
    intro k _
    simp [List.contains_iff_mem]
  unfold maximalMesh
  simp only
  rw [hbad]

end Model.C17
