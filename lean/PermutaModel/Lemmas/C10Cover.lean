import PermutaModel.Lemmas.C10InsRem

/-! Shadow (`children`) and one-point extensions (`coveredby`). -/
open Model

namespace C10L

theorem mem_insertSorted (x y : NSeq) (l : List NSeq) : y ∈ insertSorted x l ↔ y = x ∨ y ∈ l := by
  induction l with
  | nil => simp [insertSorted]
  | cons z zs ih =>
    unfold insertSorted
    split
    · next h =>
      have : x = z := by simpa using h
      subst this
      simp
    · split
      · simp
      · simp only [List.mem_cons, ih]
        tauto

theorem mem_sortDedup (y : NSeq) (l : List NSeq) : y ∈ sortDedup l ↔ y ∈ l := by
  induction l with
  | nil => simp [sortDedup]
  | cons z zs ih =>
    have : sortDedup (z :: zs) = insertSorted z (sortDedup zs) := rfl
    rw [this, mem_insertSorted, ih]
    simp

theorem mem_children (p q : NSeq) : q ∈ children p ↔ ∃ i, i < p.length ∧ q = removeAt p i := by
  unfold children
  rw [mem_sortDedup, List.mem_map]
  constructor
  · rintro ⟨i, hi, rfl⟩; exact ⟨i, List.mem_range.mp hi, rfl⟩
  · rintro ⟨i, hi, rfl⟩; exact ⟨i, List.mem_range.mpr hi, rfl⟩

theorem mem_coveredby (p q : NSeq) :
    q ∈ coveredby p ↔ ∃ i v, i ≤ p.length ∧ v ≤ p.length ∧ q = insertAt p i v := by
  unfold coveredby
  rw [mem_sortDedup, List.mem_flatMap]
  constructor
  · rintro ⟨i, hi, h⟩
    obtain ⟨v, hv, rfl⟩ := List.mem_map.mp h
    exact ⟨i, v, by have := List.mem_range.mp hi; omega, by have := List.mem_range.mp hv; omega, rfl⟩
  · rintro ⟨i, v, hi, hv, rfl⟩
    exact ⟨i, List.mem_range.mpr (by omega), List.mem_map.mpr ⟨v, List.mem_range.mpr (by omega), rfl⟩⟩

/-- the covers of `p` are exactly the permutations of length `n+1` from which one point can be
    deleted to give `p` -/
theorem mem_coveredby_iff {p : NSeq} (hp : IsPerm p) (q : NSeq) :
    q ∈ coveredby p ↔ IsPerm q ∧ q.length = p.length + 1 ∧ ∃ i, i < q.length ∧ removeAt q i = p := by
  rw [mem_coveredby]
  constructor
  · rintro ⟨i, v, hi, hv, rfl⟩
    exact ⟨insertAt_isPerm hp i hv, length_insertAt p i v, i, by simp; omega, removeAt_insertAt p hi v⟩
  · rintro ⟨hq, hl, i, hi, rfl⟩
    refine ⟨i, q.getD i 0, ?_, ?_, (insertAt_removeAt hq.1 hi).symm⟩
    · rw [length_removeAt hq.1 hi]; omega
    · rw [length_removeAt hq.1 hi]
      have := hq.getD_lt hi
      omega

/-- duality: `q` covers `p` iff `p` is in the shadow of `q` -/
theorem coveredby_iff_children {p q : NSeq} (hp : IsPerm p) (hq : IsPerm q) :
    q ∈ coveredby p ↔ p ∈ children q := by
  rw [mem_coveredby_iff hp, mem_children]
  constructor
  · rintro ⟨_, _, i, hi, h⟩; exact ⟨i, hi, h.symm⟩
  · rintro ⟨i, hi, h⟩
    refine ⟨hq, ?_, i, hi, h.symm⟩
    rw [h, length_removeAt hq.1 hi]; omega

theorem children_isPerm {p q : NSeq} (hp : IsPerm p) (hq : q ∈ children p) :
    IsPerm q ∧ q.length + 1 = p.length := by
  obtain ⟨i, hi, rfl⟩ := (mem_children p q).mp hq
  have := removeAt_isPerm hp hi
  exact ⟨this.1, by rw [this.2]; omega⟩

end C10L
