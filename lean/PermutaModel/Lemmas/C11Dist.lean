import PermutaModel.Model.C11
/-! Helper lemmas for the distribution theorems of C11 (core Lean only). -/
open Model.Stat

namespace C11L

theorem sum_map_add' {α : Type} (l : List α) (f g : α → Nat) :
    (l.map fun a => f a + g a).sum = (l.map f).sum + (l.map g).sum := by
  induction l with
  | nil => rfl
  | cons a t ih => simp only [List.map_cons, List.sum_cons, ih]; omega

theorem sum_indicator (K : Nat) (v : Int) :
    ((List.range K).map fun (k : Nat) => if v = (k : Int) then 1 else 0).sum = if 0 ≤ v ∧ v < (K : Int) then 1 else 0 := by
  induction K with
  | zero => simp
  | succ K ih =>
    rw [List.range_succ, List.map_append, List.sum_append, ih]
    simp only [List.map_cons, List.map_nil, List.sum_cons, List.sum_nil]
    split <;> split <;> split <;> omega

/-- the histogram over `0 … K-1` of values that all lie in that range counts every value once -/
theorem sum_counts (vals : List Int) (K : Nat) (h : ∀ v ∈ vals, 0 ≤ v ∧ v < (K : Int)) :
    ((List.range K).map fun (k : Nat) => vals.count (k : Int)).sum = vals.length := by
  induction vals with
  | nil =>
    simp only [List.count_nil, List.length_nil]
    induction (List.range K) with
    | nil => rfl
    | cons a t ih => simpa using ih
  | cons v t ih =>
    have hv := h v (by simp)
    have : (fun (k : Nat) => (v :: t).count (k : Int)) =
        fun (k : Nat) => t.count (k : Int) + (if v = (k : Int) then 1 else 0) := by
      funext k
      rw [List.count_cons]
      simp only [beq_iff_eq]
    rw [this, sum_map_add', ih (fun w hw => h w (by simp [hw])), sum_indicator]
    simp [hv]

theorem le_foldl_max (l : List Int) (x : Int) : x ≤ l.foldl max x ∧ ∀ v ∈ l, v ≤ l.foldl max x := by
  induction l generalizing x with
  | nil => simp
  | cons a t ih =>
    simp only [List.foldl_cons]
    obtain ⟨h1, h2⟩ := ih (max x a)
    refine ⟨by omega, ?_⟩
    intro v hv
    rcases List.mem_cons.mp hv with rfl | hv
    · omega
    · exact h2 v hv

theorem le_maxIntD (l : List Int) (d : Int) : ∀ v ∈ l, v ≤ maxIntD l d := by
  intro v hv
  cases l with
  | nil => simp at hv
  | cons a t =>
    simp only [maxIntD]
    rcases List.mem_cons.mp hv with rfl | hv
    · exact (le_foldl_max t v).1
    · exact (le_foldl_max t a).2 v hv

end C11L
