import PermutaModel.Lemmas.C12Bridge
import PermutaModel.Spec.Mesh
/-! C12: classical and mesh occurrences of patterns of length 4 in the vocabulary of sublists
    (shared by the West-2 and quicksort characterisations). -/
open Model Spec List

namespace C12

/-- `[a, b, c, d]` is order-isomorphic to the pattern `π` of length 4 -/
def Rel4 (π : NSeq) (a b c d : Nat) : Prop :=
  ∀ x y, x < 4 → y < 4 → (π.getD x 0 < π.getD y 0 ↔ [a, b, c, d].getD x 0 < [a, b, c, d].getD y 0)

theorem isOcc4_iff (π σ : NSeq) (hπ : π.length = 4) (c : List Nat) :
    IsOcc π σ c ↔ ∃ i j k m, c = [i, j, k, m] ∧ i < j ∧ j < k ∧ k < m ∧ m < σ.length ∧
      Rel4 π (σ.getD i 0) (σ.getD j 0) (σ.getD k 0) (σ.getD m 0) := by
  constructor
  · rintro ⟨hlen, hinc, hrng, hiso⟩
    rw [hπ] at hlen
    match c, hlen with
    | [i, j, k, m], _ =>
      simp only [StrictInc, pairwise_cons, mem_cons, forall_eq_or_imp] at hinc
      refine ⟨i, j, k, m, rfl, hinc.1.1, hinc.2.1.1, hinc.2.2.1.1, hrng m (by simp), ?_⟩
      intro x y hx hy
      rw [hiso x y (by omega) (by omega)]
      have hx' : x = 0 ∨ x = 1 ∨ x = 2 ∨ x = 3 := by omega
      have hy' : y = 0 ∨ y = 1 ∨ y = 2 ∨ y = 3 := by omega
      rcases hx' with rfl | rfl | rfl | rfl <;> rcases hy' with rfl | rfl | rfl | rfl <;> simp
  · rintro ⟨i, j, k, m, rfl, hij, hjk, hkm, hm, hrel⟩
    refine ⟨by simp [hπ], ?_, ?_, ?_⟩
    · simp only [StrictInc, pairwise_cons, mem_cons, forall_eq_or_imp]
      simp
      omega
    · intro t ht
      simp at ht; omega
    · intro x y hx hy
      rw [hπ] at hx hy
      rw [hrel x y hx hy]
      have hx' : x = 0 ∨ x = 1 ∨ x = 2 ∨ x = 3 := by omega
      have hy' : y = 0 ∨ y = 1 ∨ y = 2 ∨ y = 3 := by omega
      rcases hx' with rfl | rfl | rfl | rfl <;> rcases hy' with rfl | rfl | rfl | rfl <;> simp

theorem pick4_sublist {σ : NSeq} {i j k m : Nat} (hij : i < j) (hjk : j < k) (hkm : k < m) (hm : m < σ.length) :
    [σ.getD i 0, σ.getD j 0, σ.getD k 0, σ.getD m 0] <+ σ := by
  have := sublist_of_pick (σ := σ) (c := [i, j, k, m])
    (by simp [StrictInc]; omega) (by intro t ht; simp at ht; omega)
  simpa using this

theorem pick3_sublist {σ : NSeq} {i j k : Nat} (hij : i < j) (hjk : j < k) (hk : k < σ.length) :
    [σ.getD i 0, σ.getD j 0, σ.getD k 0] <+ σ := by
  have := sublist_of_pick (σ := σ) (c := [i, j, k])
    (by simp [StrictInc]; omega) (by intro t ht; simp at ht; omega)
  simpa using this

theorem sub4_pick {σ : NSeq} {a b c d : Nat} (h : [a, b, c, d] <+ σ) :
    ∃ i j k m, i < j ∧ j < k ∧ k < m ∧ m < σ.length ∧
      a = σ.getD i 0 ∧ b = σ.getD j 0 ∧ c = σ.getD k 0 ∧ d = σ.getD m 0 := by
  obtain ⟨idx, hinc, hrng, he⟩ := exists_pick_of_sublist h
  have hl : idx.length = 4 := by
    have := congrArg List.length he; simpa using this.symm
  match idx, hl with
  | [i, j, k, m], _ =>
    simp only [map_cons, map_nil, cons.injEq, and_true] at he
    simp only [StrictInc, pairwise_cons, mem_cons, forall_eq_or_imp] at hinc
    exact ⟨i, j, k, m, hinc.1.1, hinc.2.1.1, hinc.2.2.1.1, hrng m (by simp), he.1, he.2.1, he.2.2.1, he.2.2.2⟩

theorem sub3_pick {σ : NSeq} {a b c : Nat} (h : [a, b, c] <+ σ) :
    ∃ i j k, i < j ∧ j < k ∧ k < σ.length ∧ a = σ.getD i 0 ∧ b = σ.getD j 0 ∧ c = σ.getD k 0 := by
  obtain ⟨idx, hinc, hrng, he⟩ := exists_pick_of_sublist h
  have hl : idx.length = 3 := by
    have := congrArg List.length he; simpa using this.symm
  match idx, hl with
  | [i, j, k], _ =>
    simp only [map_cons, map_nil, cons.injEq, and_true] at he
    simp only [StrictInc, pairwise_cons, mem_cons, forall_eq_or_imp] at hinc
    exact ⟨i, j, k, hinc.1.1, hinc.2.1.1, hrng k (by simp), he.1, he.2.1, he.2.2⟩

theorem contains4_iff (π σ : NSeq) (hπ : π.length = 4) :
    Contains σ π ↔ ∃ a b c d, [a, b, c, d] <+ σ ∧ Rel4 π a b c d := by
  constructor
  · rintro ⟨c, hc⟩
    obtain ⟨i, j, k, m, rfl, hij, hjk, hkm, hm, hrel⟩ := (isOcc4_iff π σ hπ c).mp hc
    exact ⟨_, _, _, _, pick4_sublist hij hjk hkm hm, hrel⟩
  · rintro ⟨a, b, c, d, hs, hrel⟩
    obtain ⟨i, j, k, m, hij, hjk, hkm, hm, rfl, rfl, rfl, rfl⟩ := sub4_pick hs
    exact ⟨[i, j, k, m], (isOcc4_iff π σ hπ _).mpr ⟨i, j, k, m, rfl, hij, hjk, hkm, hm, hrel⟩⟩

theorem getD_inj_of_nodup {σ : NSeq} (hnd : σ.Nodup) {i j : Nat} (hi : i < σ.length) (hj : j < σ.length)
    (h : σ.getD i 0 = σ.getD j 0) : i = j := by
  rw [List.getD_eq_getElem?_getD, List.getD_eq_getElem?_getD, List.getElem?_eq_getElem hi,
    List.getElem?_eq_getElem hj] at h
  simp only [Option.getD_some] at h
  exact (hnd.getElem_inj_iff).mp h

theorem filter4_len (p : Nat → Bool) (i j k m : Nat) :
    ([i, j, k, m].filter p).length = (p i).toNat + (p j).toNat + (p k).toNat + (p m).toNat := by
  cases h1 : p i <;> cases h2 : p j <;> cases h3 : p k <;> cases h4 : p m <;> simp [List.filter, h1, h2, h3, h4]

theorem cnt4_eq4 (p : Nat → Bool) (i j k m : Nat) :
    (p i).toNat + (p j).toNat + (p k).toNat + (p m).toNat = 4 ↔
      p i = true ∧ p j = true ∧ p k = true ∧ p m = true := by
  cases p i <;> cases p j <;> cases p k <;> cases p m <;> simp

end C12
