import PermutaModel.Lemmas.C16ConvMax
import PermutaModel.Lemmas.C16ConvSimple
import PermutaModel.Lemmas.C14SymPerm
import PermutaModel.Lemmas.C14Comp
/-!
# C16 — the unavoidable-substructures theorem: shared definitions

* the three generators of the symmetries of the plane acting on points (`Gen`: `nx` = reflection `x ↦ -x`,
  `ny` = reflection `y ↦ -y`, `sw` = transposition) and their compositions `applyAll`;
* the *literal shapes*: point configurations that are order-isomorphic to the plots of `parAlt k`, `wedge1 k`,
  `wedge2 k`, given by the inequalities between named points;
* `Outcome P k`: the configuration `P` contains, after some symmetry, a literal shape of index `k`.
-/
namespace C16P

inductive Gen | nx | ny | sw
  deriving DecidableEq

def Gen.app : Gen → Pt → Pt
  | .nx, p => (-p.1, p.2)
  | .ny, p => (p.1, -p.2)
  | .sw, p => (p.2, p.1)

/-- apply the generators in list order -/
def applyAll (ts : List Gen) (p : Pt) : Pt := ts.foldl (fun p t => t.app p) p

def Gen.d8 : Gen → D8
  | .nx => ⟨true, false, false⟩
  | .ny => ⟨false, true, false⟩
  | .sw => ⟨false, false, true⟩

/-- literal shape of `parAlt k`: left chain `A 0, …, A (k-1)`, right chain `B 0, …, B (k-1)` (in `x`-order),
    both decreasing, with `y`-order `A (k-1) < B (k-1) < A (k-2) < … < A 0 < B 0` -/
def LitPar (k : Nat) (A B : Nat → Pt) : Prop :=
  (∀ i j, i < j → j < k → (A i).1 < (A j).1 ∧ (B i).1 < (B j).1) ∧
  (∀ i j, i < k → j < k → (A i).1 < (B j).1) ∧
  (∀ i, i < k → (A i).2 < (B i).2) ∧ (∀ i, i + 1 < k → (B (i + 1)).2 < (A i).2)

def parList (k : Nat) (A B : Nat → Pt) : List Pt := (List.range k).map A ++ (List.range k).map B

/-- literal shape of `wedge1 k`: `x`-order `L 0 < U 0 < L 1 < U 1 < … < U (k-1) < Z`, `L` decreasing,
    `U` increasing, `L 0 < Z < U 0` in `y` -/
def LitW1 (k : Nat) (L U : Nat → Pt) (Z : Pt) : Prop :=
  (∀ j, j < k → (L j).1 < (U j).1) ∧ (∀ j, j + 1 < k → (U j).1 < (L (j + 1)).1) ∧
  (∀ j, j < k → (U j).1 < Z.1) ∧
  (∀ j, j + 1 < k → (L (j + 1)).2 < (L j).2 ∧ (U j).2 < (U (j + 1)).2) ∧
  (0 < k → (L 0).2 < Z.2 ∧ Z.2 < (U 0).2)

def w1List (k : Nat) (L U : Nat → Pt) (Z : Pt) : List Pt :=
  (List.range k).flatMap (fun j => [L j, U j]) ++ [Z]

/-- literal shape of `wedge2 k` (`k ≥ 1`): `x`-order `I 0 < … < I (k-2) < Ap < D 0 < … < D (k-1) < X`;
    `y`-order `D (k-1) < I 0 < D (k-2) < I 1 < … < I (k-2) < D 0 < X < Ap` -/
def LitW2 (k : Nat) (I D : Nat → Pt) (Ap X : Pt) : Prop :=
  (∀ i j, i < j → j + 1 < k → (I i).1 < (I j).1) ∧ (∀ i, i + 1 < k → (I i).1 < Ap.1) ∧
  (∀ j, j < k → Ap.1 < (D j).1) ∧ (∀ i j, i < j → j < k → (D i).1 < (D j).1) ∧
  (∀ j, j < k → (D j).1 < X.1) ∧
  (∀ p, p + 1 < k → (D (k - 1 - p)).2 < (I p).2 ∧ (I p).2 < (D (k - 2 - p)).2) ∧
  (∀ j, j < k → (D j).2 < X.2) ∧ X.2 < Ap.2

def w2List (k : Nat) (I D : Nat → Pt) (Ap X : Pt) : List Pt :=
  (List.range (k - 1)).map I ++ [Ap] ++ (List.range k).map D ++ [X]

/-- the configuration `P` contains, after a symmetry of the plane, a sub-configuration whose permutation is
    the member of index `k` of one of the three families -/
def Outcome (P : List Pt) (k : Nat) : Prop :=
  ∃ (S : List Pt) (ts : List Gen) (fam : NSeq), (∀ s ∈ S, s ∈ P) ∧ S.Nodup ∧
    Model.C14.permOfPts (S.map (applyAll ts)) = fam ∧
    (fam = C16Fam.parAlt k ∨ fam = C16Fam.wedge1 k ∨ fam = C16Fam.wedge2 k)

/-- the axis of a pin after applying a generator: the transposition exchanges the axes -/
def Gen.ax : Gen → Bool → Bool
  | .sw, v => !v
  | _, v => v

/-- the configuration `P` contains a proper pin sequence of `k` points -/
def HasPinCfg (P : List Pt) (k : Nat) : Prop :=
  ∃ (L : List Pt) (v : Bool), PinSeqA v L ∧ L.Nodup ∧ L.length = k ∧ ∀ p ∈ L, p ∈ P

/-- the hypotheses under which the theorem is proved for a configuration: no proper interval, distinct
    abscissae, distinct ordinates -/
structure Good (P : List Pt) : Prop where
  simple : Simple P
  xnd : (P.map Prod.fst).Nodup
  ynd : (P.map Prod.snd).Nodup

end C16P
