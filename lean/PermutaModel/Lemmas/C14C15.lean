import PermutaModel.Lemmas.C14Occ
import PermutaModel.Lemmas.C14Signs
import PermutaModel.Lemmas.C15Nfa
/-!
# C14 ↔ C15: `pinword_contains` on a strict pin word agrees with the NFA on its `M`-word

Helper lemmas for `C14.nfa_vs_occurrences`.

* Part 1 (C14 only): the generator stack `pinword_occurrences` + gap test of `pinword_contains`
  unrolled into a recursive predicate `Good`.
* Part 2 (C14 only): for a strict pin word `w` of the language and `m ∈ sp_to_m w`, `Good` is
  "the images `sp_to_m fⱼ` of the factors occur in `m` one after the other without overlap" (`FitsL`).
* Part 3: C15's own copies of `factor_pinword` / `sp_to_m` agree with C14's through
  `Letter.ofChar`; `FitsL` becomes `Spec.C15.regexLang`.
* Part 4: pin words `w` with several numerals: `Good` splits along the strict factors of `w`.
-/
namespace C14C15
open Model.C14 Model.C14.Letter Spec.C14 Proto C14L

/-! ## Part 1 — unrolling the generators -/

/-- every factor is numeral-led -/
def QuadLed (fs : List Word) : Prop := ∀ f ∈ fs, ∃ q ds, f = q :: ds ∧ q.isQuad = true

theorem occSpTest_ok (w : Word) (hw : inLang w = true) (q : Letter) (ds : Word) (hq : q.isQuad = true)
    (i : Nat) (hi : i < w.length) :
    occSpTest w (q :: ds) i = .ok (quadOfSigns (signs w i) = q
      && slice w (i + 1) (i + (q :: ds).length) = ds) := by
  have h1 := quadrant_eq_signs w hw i hi
  have h2 : quadrant (q :: ds) 0 = .ok q := by simp [quadrant, hq]
  simp only [occSpTest, h1, h2, List.drop_one, List.tail_cons]

/-- without errors the inner generator is a filter -/
theorem occSpOver_eq (w : Word) (hw : inLang w = true) (q : Letter) (ds : Word) (hq : q.isQuad = true)
    (idxs : List Nat) (hi : ∀ i ∈ idxs, i < w.length) :
    occSpOver w (q :: ds) idxs = (idxs.filter fun i => occSpTest w (q :: ds) i == .ok true, none) := by
  induction idxs with
  | nil => rfl
  | cons i rest ih =>
    have ih' := ih fun j hj => hi j (List.mem_cons_of_mem _ hj)
    have h := occSpTest_ok w hw q ds hq i (hi i List.mem_cons_self)
    simp only [occSpOver, List.filter_cons]
    rw [h] at *
    cases hb : (quadOfSigns (signs w i) = q && slice w (i + 1) (i + (q :: ds).length) = ds)
    · simp only [ih']
      rfl
    · simp only [ih']
      rfl

theorem mem_occSp (w : Word) (hw : inLang w = true) (q : Letter) (ds : Word) (hq : q.isQuad = true)
    (start occ : Nat) :
    occ ∈ (occSp w (q :: ds) start).1 ↔ start ≤ occ ∧ occ < w.length ∧ occSpTest w (q :: ds) occ = .ok true := by
  unfold occSp
  rw [occSpOver_eq w hw q ds hq _ (by intro i hi; simp only [List.mem_range'_1] at hi; omega)]
  simp only [List.mem_filter, List.mem_range'_1, beq_iff_eq]
  constructor
  · rintro ⟨⟨h1, h2⟩, h3⟩; exact ⟨h1, by omega, h3⟩
  · rintro ⟨h1, h2, h3⟩; exact ⟨⟨h1, by omega⟩, h3⟩

theorem mem_bindOver {α β} (f : α → Gen β) (l : List α) (hf : ∀ a ∈ l, (f a).2 = none) (t : β) :
    t ∈ (bindOver f none l).1 ↔ ∃ a ∈ l, t ∈ (f a).1 := by
  induction l with
  | nil => simp [bindOver]
  | cons a l ih =>
    simp only [bindOver, hf a List.mem_cons_self, List.mem_append, List.mem_cons, exists_eq_or_imp,
      ih fun b hb => hf b (List.mem_cons_of_mem _ hb)]

/-- index lists the recursion `rec` walks through (no errors) -/
def Occs (w : Word) : List Word → Nat → List Nat → Prop
  | [], _, is => is = []
  | f :: fs, i, is => ∃ occ rest, is = occ :: rest ∧ i ≤ occ ∧ occ < w.length
      ∧ occSpTest w f occ = .ok true ∧ Occs w fs (occ + f.length) rest

theorem mem_occRec (w : Word) (hw : inLang w = true) (fs : List Word) (hfs : QuadLed fs) :
    ∀ i res t, t ∈ (occRec w fs i res).1 ↔ ∃ is, t = res ++ is ∧ Occs w fs i is := by
  induction fs with
  | nil => intro i res t; simp [occRec, Occs]
  | cons f fs ih =>
    intro i res t
    obtain ⟨q, ds, rfl, hq⟩ := hfs _ List.mem_cons_self
    have hfs' : QuadLed fs := fun f hf => hfs f (List.mem_cons_of_mem _ hf)
    simp only [occRec]
    split
    · rename_i hge
      simp only [List.not_mem_nil, false_iff, Occs]
      rintro ⟨is, _, occ, rest, _, h1, h2, _⟩
      omega
    · simp only [bindStream, occSp_noerr w hw q ds hq i]
      rw [mem_bindOver _ _ (fun a _ => occRec_noerr w hw fs hfs' _ _)]
      constructor
      · rintro ⟨occ, hocc, ht⟩
        obtain ⟨is, rfl, his⟩ := (ih hfs' _ _ t).mp ht
        obtain ⟨h1, h2, h3⟩ := (mem_occSp w hw q ds hq i occ).mp hocc
        exact ⟨occ :: is, by simp, occ, is, rfl, h1, h2, h3, his⟩
      · rintro ⟨is, rfl, occ, rest, rfl, h1, h2, h3, his⟩
        exact ⟨occ, (mem_occSp w hw q ds hq i occ).mpr ⟨h1, h2, h3⟩,
          (ih hfs' _ _ _).mpr ⟨rest, by simp, his⟩⟩

/-- is the letter at `i` a numeral (`word[nxt] in QUADS`) -/
def quadAt (w : Word) (i : Nat) : Bool := ((w[i]?).map isQuad).getD false

theorem gapOK_nil (w : Word) (fs : List Word) : gapOK w fs [] = true := by simp [gapOK]
theorem gapOK_single (w : Word) (fs : List Word) (o : Nat) : gapOK w fs [o] = true := by simp [gapOK]
theorem gapOK_cons (w : Word) (f : Word) (fs : List Word) (o o' : Nat) (os : List Nat) :
    gapOK w (f :: fs) (o :: o' :: os) = ((o' != o + f.length || quadAt w o') && gapOK w fs (o' :: os)) := by
  simp [gapOK, quadAt]

/-- the gap condition of the first index of a tuple with respect to the start index `i` -/
def headCond (w : Word) (i : Nat) : List Nat → Prop
  | [] => True
  | o :: _ => o ≠ i ∨ quadAt w o = true

/-- `pinword_contains` unrolled: the factors `fs` are found one after the other from index `i` on;
    unless `first`, a factor found exactly at the start index must sit on a numeral of `w` -/
def Good (w : Word) : List Word → Nat → Bool → Prop
  | [], _, _ => True
  | f :: fs, i, first => ∃ occ, i ≤ occ ∧ occ < w.length ∧ occSpTest w f occ = .ok true
      ∧ (first = true ∨ occ ≠ i ∨ quadAt w occ = true) ∧ Good w fs (occ + f.length) false

theorem good_iff (w : Word) (fs : List Word) : ∀ i first,
    Good w fs i first ↔ ∃ is, Occs w fs i is ∧ gapOK w fs is = true ∧ (first = true ∨ headCond w i is) := by
  induction fs with
  | nil => intro i first; simp [Good, Occs, gapOK_nil, headCond]
  | cons f fs ih =>
    intro i first
    simp only [Good, Occs]
    constructor
    · rintro ⟨occ, h1, h2, h3, h4, h5⟩
      obtain ⟨rest, hr1, hr2, hr3⟩ := (ih _ _).mp h5
      refine ⟨occ :: rest, ⟨occ, rest, rfl, h1, h2, h3, hr1⟩, ?_, ?_⟩
      · cases rest with
        | nil => exact gapOK_single _ _ _
        | cons o' os =>
          rw [gapOK_cons, hr2, Bool.and_true]
          rcases hr3 with h | h
          · cases h
          · simp only [headCond] at h
            rcases h with h | h
            · simp [h]
            · simp [h]
      · simpa [headCond] using h4
    · rintro ⟨is, ⟨occ, rest, rfl, h1, h2, h3, hr1⟩, hg, hh⟩
      refine ⟨occ, h1, h2, h3, by simpa [headCond] using hh, (ih _ _).mpr ⟨rest, hr1, ?_, Or.inr ?_⟩⟩
      · cases rest with
        | nil => exact gapOK_nil _ _
        | cons o' os =>
          rw [gapOK_cons, Bool.and_eq_true] at hg
          exact hg.2
      · cases rest with
        | nil => trivial
        | cons o' os =>
          rw [gapOK_cons, Bool.and_eq_true, Bool.or_eq_true] at hg
          simp only [headCond]
          rcases hg.1 with h | h
          · left; simpa using h
          · right; exact h

theorem contains_true_iff (w u : Word) :
    contains w u = .ok true ↔ ∃ t ∈ (occurrences w u).1, gapOK w (factor u) t = true := by
  unfold contains
  rcases occurrences w u with ⟨l, e⟩
  cases e with
  | none => simp
  | some e =>
    simp only
    split
    · rename_i h; simpa using h
    · rename_i h; simp only [reduceCtorEq, false_iff]; simpa using h

/-- **Part 1**: on a word of the language, for `u` whose factors are numeral-led -/
theorem contains_iff_good (w u : Word) (hw : inLang w = true) (hu : QuadLed (factor u)) :
    contains w u = .ok true ↔ Good w (factor u) 0 true := by
  rw [contains_true_iff, good_iff]
  unfold occurrences
  constructor
  · rintro ⟨t, ht, hg⟩
    obtain ⟨js, hjs, his⟩ := (mem_occRec w hw _ hu 0 [] t).mp ht
    rw [List.nil_append] at hjs
    subst hjs
    exact ⟨t, his, hg, Or.inl rfl⟩
  · rintro ⟨js, hjs, hg, _⟩
    exact ⟨js, (mem_occRec w hw _ hu 0 [] js).mpr ⟨js, by simp, hjs⟩, hg⟩

/-! ## Part 2 — a strict pin word and its `M`-word -/

theorem dir_not_quad {c : Letter} (h : c.isDir = true) : c.isQuad = false := by
  cases c <;> simp_all [isDir, isQuad]

/-- two neighbouring letters of a word of `M` -/
theorem inM_adj (m : Word) (hm : inM m = true) (i : Nat) (x y : Letter)
    (hx : m[i]? = some x) (hy : m[i + 1]? = some y) :
    x.isDir = true ∧ y.isDir = true ∧ sameAxis x y = false := by
  cases m with
  | nil => simp at hx
  | cons c rest =>
    simp only [inM, Bool.and_eq_true, List.all_eq_true] at hm
    obtain ⟨⟨hc, hch⟩, hall⟩ := hm
    have hyr : rest[i]? = some y := by simpa using hy
    have hyd : y.isDir = true := hall y (List.mem_of_getElem? hyr)
    obtain ⟨pr, h1, _, h3⟩ := chain_get rest c i y (Or.inr hc) hch hyr
    rw [hx] at h1
    cases h1
    have hxd : x.isDir = true := by
      cases i with
      | zero => simp at hx; subst hx; exact hc
      | succ k => exact hall x (List.mem_of_getElem? (by simpa using hx))
    rcases h3 with h3 | h3
    · rw [dir_not_quad hyd] at h3; cases h3
    · exact ⟨hxd, hyd, h3.2⟩

/-- the numeral of two direction letters on different axes (what `m_to_sp` looks up) -/
theorem pair_signs (x y : Letter) (hx : x.isDir = true) (hy : y.isDir = true) (hxy : sameAxis x y = false) :
    revLetterDict.lookup [x, y] = some (quadOfSigns
      (if y.isVert then (namesRight x, namesUp y) else (namesRight y, namesUp x))) := by
  rw [revLetterDict_eq]
  cases x <;> simp only [isDir] at hx <;> try exact absurd hx (by decide)
  all_goals
    cases y <;> simp only [isDir] at hy <;> try exact absurd hy (by decide)
  all_goals first
    | exact absurd hxy (by decide)
    | rfl

/-- what `sp_to_m` returns on a strict pin word of the language: words `a b ds` of `M` whose first
    two letters name the numeral -/
theorem spToM_strict (q : Letter) (ds : Word) (hq : q.isQuad = true) (hds : ∀ d ∈ ds, d.isDir = true)
    (hch : chainOK q ds = true) :
    ∃ ms, spToM (q :: ds) = .ok ms ∧ ms ≠ [] ∧ ∀ m ∈ ms, ∃ a b, m = a :: b :: ds ∧ inM m = true
      ∧ revLetterDict.lookup [a, b] = some q := by
  rw [revLetterDict_eq]
  cases ds with
  | nil =>
    cases q <;> simp only [isQuad] at hq <;> try exact absurd hq (by decide)
    all_goals
      refine ⟨_, rfl, List.cons_ne_nil _ _, ?_⟩
      simp only [List.mem_cons, List.not_mem_nil, or_false, forall_eq_or_imp, forall_eq]
      exact ⟨⟨_, _, rfl, by decide, by decide⟩, ⟨_, _, rfl, by decide, by decide⟩⟩
  | cons d tl =>
    have hd : d.isDir = true := hds d List.mem_cons_self
    have htl : tl.all isDir = true := List.all_eq_true.mpr fun x hx => hds x (List.mem_cons_of_mem _ hx)
    simp only [chainOK, Bool.and_eq_true] at hch
    have hch2 := hch.2
    cases q <;> simp only [isQuad] at hq <;> try exact absurd hq (by decide)
    all_goals
      cases d <;> simp only [isDir] at hd <;> try exact absurd hd (by decide)
    all_goals
      refine ⟨_, rfl, List.cons_ne_nil _ _, ?_⟩
      simp only [List.mem_cons, List.not_mem_nil, or_false, forall_eq]
      refine ⟨_, _, rfl, ?_, by decide⟩
      simp [inM, chainOK, isDir, isQuad, sameAxis, isVert, isHoriz, hch2, htl]

/-- the data of Part 2: `w = q ds` strict in the language, `m = a b ds ∈ sp_to_m w` -/
structure Ctx (q : Letter) (ds : Word) (a b : Letter) : Prop where
  hq : q.isQuad = true
  hds : ∀ d ∈ ds, d.isDir = true
  hch : chainOK q ds = true
  hm : inM (a :: b :: ds) = true
  hlk : revLetterDict.lookup [a, b] = some q

theorem Ctx.lang {q ds a b} (c : Ctx q ds a b) : inLang (q :: ds) = true := by
  simp [inLang, c.hq, c.hch]

theorem quadOfSigns_quad (q : Letter) (hq : q.isQuad = true) : quadOfSigns (namesRight q, namesUp q) = q := by
  cases q <;> simp only [isQuad] at hq <;> first | exact absurd hq (by decide) | rfl

/-- **Lemma 3.10 on the `M` side**: the quadrant of pin `i` of `w` is named by letters `i`, `i+1` of `m` -/
theorem quadrant_pair {q ds a b} (c : Ctx q ds a b) (i : Nat) (hi : i < (q :: ds).length) :
    ∃ x y, (a :: b :: ds)[i]? = some x ∧ (a :: b :: ds)[i + 1]? = some y
      ∧ revLetterDict.lookup [x, y] = some (quadOfSigns (signs (q :: ds) i)) := by
  match i, hi with
  | 0, _ =>
    refine ⟨a, b, rfl, rfl, ?_⟩
    have : signs (q :: ds) 0 = (namesRight q, namesUp q) := by simp [signs, c.hq]
    rw [this, quadOfSigns_quad q c.hq]; exact c.hlk
  | 1, hi =>
    match ds, c, hi with
    | d :: tl, c, _ =>
      refine ⟨b, d, rfl, rfl, ?_⟩
      obtain ⟨ha, hb, hab⟩ := inM_adj _ c.hm 0 a b rfl rfl
      obtain ⟨_, hd, hbd⟩ := inM_adj _ c.hm 1 b d rfl rfl
      have hs : signs (q :: d :: tl) 1 =
          (if d.isVert then (namesRight q, namesUp d) else (namesRight d, namesUp q)) := by
        simp [signs, dir_not_quad hd]
      rw [hs]
      have hq := c.hq
      have hlk := c.hlk
      rw [revLetterDict_eq] at hlk ⊢
      cases q <;> simp only [isQuad] at hq <;> try exact absurd hq (by decide)
      all_goals
        cases b <;> simp only [isDir] at hb <;> try exact absurd hb (by decide)
      all_goals
        cases d <;> simp only [isDir] at hd <;> try exact absurd hd (by decide)
      all_goals first
        | exact absurd hbd (by decide)
        | rfl
        | (cases a <;> simp only [isDir] at ha <;> first
            | exact absurd ha (by decide) | exact absurd hab (by decide) | exact absurd hlk (by decide))
  | j + 2, hi =>
    have hj : j + 1 < ds.length := by simp only [List.length_cons] at hi; omega
    have h1 : (a :: b :: ds)[j + 2]? = some ds[j] := by simp
    have h2 : (a :: b :: ds)[j + 2 + 1]? = some ds[j + 1] := by simp
    refine ⟨ds[j], ds[j + 1], h1, h2, ?_⟩
    obtain ⟨hx, hy, hxy⟩ := inM_adj _ c.hm (j + 2) _ _ h1 h2
    have hs : signs (q :: ds) (j + 2) =
        (if ds[j + 1].isVert then (namesRight ds[j], namesUp ds[j + 1])
         else (namesRight ds[j + 1], namesUp ds[j])) := by
      have e1 : ds[j + 1]? = some ds[j + 1] := List.getElem?_eq_getElem hj
      have e0 : ds[j]? = some ds[j] := List.getElem?_eq_getElem (by omega)
      simp [signs, e1, e0, dir_not_quad hy]
    rw [hs]
    exact pair_signs _ _ hx hy hxy

/-- `sp_to_m` of a factor `q' es` of `u`: words `x y es`; for direction letters `x y` on different
    axes, `y` not on the axis of the first letter of `es`, "`x y` names `q'`" is "`x y es` is one of
    the alternatives" -/
theorem spToM_arr (q' : Letter) (es : Word) (hq : q'.isQuad = true)
    (he : ∀ e, es.head? = some e → e.isDir = true) :
    ∃ ms, spToM (q' :: es) = .ok ms ∧ (∀ v ∈ ms, ∃ x y, v = x :: y :: es) ∧
      ∀ x y, x.isDir = true → y.isDir = true → sameAxis x y = false →
        (∀ e, es.head? = some e → sameAxis y e = false) →
        (revLetterDict.lookup [x, y] = some q' ↔ x :: y :: es ∈ ms) := by
  rw [revLetterDict_eq]
  cases es with
  | nil =>
    cases q' <;> simp only [isQuad] at hq <;> try exact absurd hq (by decide)
    all_goals
      refine ⟨_, rfl, ?_, ?_⟩
      · simp only [List.mem_cons, List.not_mem_nil, or_false, forall_eq_or_imp, forall_eq]
        exact ⟨⟨_, _, rfl⟩, ⟨_, _, rfl⟩⟩
      · intro x y hx hy hxy _
        cases x <;> simp only [isDir] at hx <;> try exact absurd hx (by decide)
        all_goals
          cases y <;> simp only [isDir] at hy <;> try exact absurd hy (by decide)
        all_goals first
          | exact absurd hxy (by decide)
          | decide
  | cons e tl =>
    have hed := he e rfl
    cases q' <;> simp only [isQuad] at hq <;> try exact absurd hq (by decide)
    all_goals
      cases e <;> simp only [isDir] at hed <;> try exact absurd hed (by decide)
    all_goals
      refine ⟨_, rfl, ?_, ?_⟩
      · simp only [List.mem_cons, List.not_mem_nil, or_false, forall_eq]
        exact ⟨_, _, rfl⟩
      · intro x y hx hy hxy hye
        have hye' := hye _ rfl
        simp only [List.mem_cons, List.not_mem_nil, or_false, List.cons.injEq, and_true]
        cases x <;> simp only [isDir] at hx <;> try exact absurd hx (by decide)
        all_goals
          cases y <;> simp only [isDir] at hy <;> try exact absurd hy (by decide)
        all_goals first
          | exact absurd hxy (by decide)
          | exact absurd hye' (by decide)
          | decide

theorem slice_prefix (w es : Word) (i : Nat) : slice w i (i + es.length) = es ↔ es <+: w.drop i := by
  rw [List.prefix_iff_eq_take]
  simp only [slice, List.drop_take, Nat.add_sub_cancel_left]
  exact eq_comm

theorem drop_two {α} (m : List α) (i : Nat) (x y : α) (hx : m[i]? = some x) (hy : m[i + 1]? = some y) :
    m.drop i = x :: y :: m.drop (i + 2) := by
  have hi : i < m.length := (List.getElem?_eq_some_iff.mp hx).1
  have hi1 : i + 1 < m.length := (List.getElem?_eq_some_iff.mp hy).1
  rw [List.drop_eq_getElem_cons hi, List.drop_eq_getElem_cons hi1]
  rw [List.getElem?_eq_getElem hi] at hx
  rw [List.getElem?_eq_getElem hi1] at hy
  cases hx; cases hy; rfl

/-- images of a factor under `sp_to_m` -/
def Img (f v : Word) : Prop := ∃ ms, spToM f = .ok ms ∧ v ∈ ms

/-- **Lemma 3.12 on the `M` side**: a numeral-led factor `f = q' es` of `u` occurs in the strict pin
    word `w` at `occ` (in the sense of `pinword_occurrences_sp`) iff some image of `f` under
    `sp_to_m` is a factor of `m` at `occ` -/
theorem match_iff {q ds a b} (c : Ctx q ds a b) (q' : Letter) (es : Word) (hq' : q'.isQuad = true)
    (hes : ∀ e ∈ es, e.isDir = true) (occ : Nat) (hocc : occ < (q :: ds).length) :
    occSpTest (q :: ds) (q' :: es) occ = .ok true ↔
      ∃ v, Img (q' :: es) v ∧ v <+: (a :: b :: ds).drop occ := by
  rw [occSpTest_ok _ c.lang q' es hq' occ hocc]
  obtain ⟨x, y, hx, hy, hlk⟩ := quadrant_pair c occ hocc
  obtain ⟨hxd, hyd, hxy⟩ := inM_adj _ c.hm occ x y hx hy
  have hdrop := drop_two _ occ x y hx hy
  have hd2 : (a :: b :: ds).drop (occ + 2) = ds.drop occ := by simp
  rw [hd2] at hdrop
  have hsl : slice (q :: ds) (occ + 1) (occ + (q' :: es).length) = es ↔ es <+: ds.drop occ := by
    rw [show occ + (q' :: es).length = (occ + es.length) + 1 from by simp; omega, slice_succ, slice_prefix]
  obtain ⟨ms, hms, hshape, harr⟩ := spToM_arr q' es hq' fun e he => hes e (List.mem_of_mem_head? he)
  have hhead : es <+: ds.drop occ → ∀ e, es.head? = some e → sameAxis y e = false := by
    intro hp e he
    cases es with
    | nil => simp at he
    | cons e' tl =>
      simp only [List.head?_cons, Option.some.injEq] at he
      subst he
      obtain ⟨t, ht⟩ := hp
      have h2 : (a :: b :: ds)[occ + 1 + 1]? = some e' := by
        have : (a :: b :: ds)[occ + 1 + 1]? = (ds.drop occ)[0]? := by simp
        rw [this, ← ht]; rfl
      exact (inM_adj _ c.hm (occ + 1) y e' hy h2).2.2
  simp only [Except.ok.injEq, Bool.and_eq_true, decide_eq_true_eq, hsl, hdrop]
  constructor
  · rintro ⟨h1, h2⟩
    refine ⟨x :: y :: es, ⟨ms, hms, (harr x y hxd hyd hxy (hhead h2)).mp (h1 ▸ hlk)⟩, ?_⟩
    obtain ⟨t, ht⟩ := h2
    exact ⟨t, by simp [← ht]⟩
  · rintro ⟨v, ⟨ms', hms', hv⟩, hp⟩
    rw [hms] at hms'
    cases hms'
    obtain ⟨x', y', rfl⟩ := hshape v hv
    obtain ⟨t, ht⟩ := hp
    simp only [List.cons_append, List.cons.injEq] at ht
    obtain ⟨rfl, rfl, ht⟩ := ht
    have hpre : es <+: ds.drop occ := ⟨t, ht⟩
    have := (harr x' y' hxd hyd hxy (hhead hpre)).mpr hv
    rw [hlk] at this
    exact ⟨by simpa using this, hpre⟩

theorem img_length {q' es v} (hq' : q'.isQuad = true) (hes : ∀ e ∈ es, e.isDir = true)
    (h : Img (q' :: es) v) : v.length = (q' :: es).length + 1 := by
  obtain ⟨ms, hms, hshape, _⟩ := spToM_arr q' es hq' fun e he => hes e (List.mem_of_mem_head? he)
  obtain ⟨ms', hms', hv⟩ := h
  rw [hms] at hms'; cases hms'
  obtain ⟨x, y, rfl⟩ := hshape v hv
  simp

/-- the images of the factors occur in `m` one after the other, without overlap, from `lo` on -/
def FitsL (m : Word) : List Word → Nat → Prop
  | [], _ => True
  | f :: fs, lo => ∃ p v, lo ≤ p ∧ Img f v ∧ v <+: m.drop p ∧ FitsL m fs (p + v.length)

/-- numeral followed by direction letters -/
def StrictFs (fs : List Word) : Prop :=
  ∀ f ∈ fs, ∃ q' es, f = q' :: es ∧ q'.isQuad = true ∧ ∀ e ∈ es, e.isDir = true

theorem quadAt_strict {q ds a b} (c : Ctx q ds a b) (i : Nat) (hi : 1 ≤ i) : quadAt (q :: ds) i = false := by
  obtain ⟨k, rfl⟩ : ∃ k, i = k + 1 := ⟨i - 1, by omega⟩
  simp only [quadAt, List.getElem?_cons_succ]
  cases h : ds[k]? with
  | none => rfl
  | some d => exact dir_not_quad (c.hds d (List.mem_of_getElem? h))

/-- **Part 2** -/
theorem good_iff_fits {q ds a b} (c : Ctx q ds a b) (fs : List Word) (hfs : StrictFs fs) :
    ∀ i first, (first = true → i = 0) → (first = false → 1 ≤ i) →
      (Good (q :: ds) fs i first ↔ FitsL (a :: b :: ds) fs (if first then 0 else i + 1)) := by
  induction fs with
  | nil => intro i first _ _; simp [Good, FitsL]
  | cons f fs ih =>
    intro i first h1 h2
    obtain ⟨q', es, rfl, hq', hes⟩ := hfs _ List.mem_cons_self
    have hfs' : StrictFs fs := fun f hf => hfs f (List.mem_cons_of_mem _ hf)
    simp only [Good, FitsL]
    constructor
    · rintro ⟨occ, ho1, ho2, ho3, ho4, ho5⟩
      obtain ⟨v, hv, hp⟩ := (match_iff c q' es hq' hes occ ho2).mp ho3
      refine ⟨occ, v, ?_, hv, hp, ?_⟩
      · cases first with
        | true => simp
        | false =>
          have hi := h2 rfl
          simp only [Bool.false_eq_true, if_false]
          rcases ho4 with h | h | h
          · cases h
          · omega
          · rw [quadAt_strict c occ (by omega)] at h; cases h
      · rw [img_length hq' hes hv]
        have := (ih hfs' (occ + (q' :: es).length) false (by simp) (by simp only [List.length_cons]; omega)).mp ho5
        simpa [Nat.add_assoc] using this
    · rintro ⟨p, v, hp1, hv, hp, hrest⟩
      have hvl := img_length hq' hes hv
      have hlt : p < (q :: ds).length := by
        have := hp.length_le
        simp only [List.length_drop, List.length_cons] at this hvl ⊢
        omega
      refine ⟨p, ?_, hlt, (match_iff c q' es hq' hes p hlt).mpr ⟨v, hv, hp⟩, ?_, ?_⟩
      · cases first with
        | true => rw [h1 rfl]; omega
        | false => simp at hp1; omega
      · cases first with
        | true => exact Or.inl rfl
        | false => simp at hp1; right; left; omega
      · rw [hvl] at hrest
        exact (ih hfs' (p + (q' :: es).length) false (by simp) (by simp only [List.length_cons]; omega)).mpr
          (by simpa [Nat.add_assoc] using hrest)

/-! ## Part 3 — C15's copies of the helpers, `Letter.ofChar`, and the regular language -/

abbrev CW := Model.C15.Word
def toL (w : CW) : Word := w.map ofChar

theorem toChar_ofChar (c : Char) : toChar (ofChar c) = c := by
  unfold ofChar
  split_ifs <;> simp_all [toChar]

theorem mem_dirs (c : Char) : c ∈ Model.C15.DIRS ↔ c = 'U' ∨ c = 'L' ∨ c = 'D' ∨ c = 'R' := by
  simp [Model.C15.DIRS, Generated.c15_DIRS]

theorem isDir_ofChar (c : Char) : (ofChar c).isDir = Model.C15.DIRS.contains c := by
  rw [Bool.eq_iff_iff, List.contains_iff_mem, mem_dirs]
  unfold ofChar
  split_ifs <;> simp_all [isDir]

theorem isQuad_ofChar (c : Char) : (ofChar c).isQuad = Model.C15.QUADS.contains c := by
  rw [Bool.eq_iff_iff, List.contains_iff_mem]
  simp only [Model.C15.QUADS, Generated.c15_QUADS, List.mem_cons, List.not_mem_nil, or_false]
  unfold ofChar
  split_ifs <;> simp_all [isQuad]
theorem toL_injective : Function.Injective toL := by
  intro a b h
  have : (toL a).map toChar = (toL b).map toChar := by rw [h]
  simpa [toL, List.map_map, Function.comp_def, toChar_ofChar] using this

theorem spanDirs_eq (t : CW) :
    Model.C15.spanDirs t = (t.takeWhile Model.C15.DIRS.contains, t.dropWhile Model.C15.DIRS.contains) := by
  induction t with
  | nil => rfl
  | cons c t ih =>
    unfold Model.C15.spanDirs
    rw [ih]
    simp only [List.takeWhile_cons, List.dropWhile_cons]
    split <;> rfl

theorem takeWhile_toL (t : CW) : (toL t).takeWhile isDir = toL (t.takeWhile Model.C15.DIRS.contains) := by
  induction t with
  | nil => rfl
  | cons c t ih =>
    simp only [toL, List.map_cons, List.takeWhile_cons, isDir_ofChar] at ih ⊢
    split <;> simp [ih]

theorem dropWhile_toL (t : CW) : (toL t).dropWhile isDir = toL (t.dropWhile Model.C15.DIRS.contains) := by
  induction t with
  | nil => rfl
  | cons c t ih =>
    simp only [toL, List.map_cons, List.dropWhile_cons, isDir_ofChar] at ih ⊢
    split <;> simp [ih]

/-- C15's copy of `factor_pinword` is C14's -/
theorem factor_toL (u : CW) : factor (toL u) = (Model.C15.factorPinword u).map toL := by
  fun_induction Model.C15.factorPinword u with
  | case1 => simp [toL, factor]
  | case2 c t ih =>
    rw [spanDirs_eq] at ih ⊢
    simp only at ih ⊢
    have : toL (c :: t) = ofChar c :: toL t := rfl
    rw [this, factor, takeWhile_toL, dropWhile_toL, ih]
    rfl

/-- the shape of the factors: a letter that is not a direction (except possibly in the first
    factor) followed by directions -/
theorem factor_shape (u : CW) : ∀ f ∈ Model.C15.factorPinword u, ∃ c t, f = c :: t ∧ ∀ d ∈ t, d ∈ Model.C15.DIRS := by
  fun_induction Model.C15.factorPinword u with
  | case1 => intro f hf; simp at hf
  | case2 c t ih =>
    intro f hf
    rcases List.mem_cons.mp hf with rfl | hf
    · refine ⟨c, _, rfl, ?_⟩
      rw [spanDirs_eq]
      intro d hd
      simp only at hd
      have := List.all_takeWhile (l := t) (p := Model.C15.DIRS.contains)
      rw [List.all_eq_true] at this
      simpa using this d hd
    · exact ih f hf

theorem factor_heads15 (u : CW) (hu : ∀ c, u.head? = some c → c ∉ Model.C15.DIRS) :
    ∀ f ∈ Model.C15.factorPinword u, ∀ c, f.head? = some c → c ∉ Model.C15.DIRS := by
  fun_induction Model.C15.factorPinword u with
  | case1 => intro f hf; simp at hf
  | case2 c t ih =>
    intro f hf
    rcases List.mem_cons.mp hf with rfl | hf
    · intro c' hc'; simp at hc'; subst hc'; exact hu c rfl
    · apply ih _ f hf
      rw [spanDirs_eq]
      intro d hd
      simp only at hd
      cases hdw : t.dropWhile Model.C15.DIRS.contains with
      | nil => simp [hdw] at hd
      | cons y ys =>
        simp only [hdw, List.head?_cons, Option.some.injEq] at hd
        subst hd
        have := List.head_dropWhile_not Model.C15.DIRS.contains (l := t) (by simp [hdw])
        simpa [hdw] using this

theorem mem_quads (c : Char) : c ∈ Model.C15.QUADS ↔ c = '1' ∨ c = '2' ∨ c = '3' ∨ c = '4' := by
  simp [Model.C15.QUADS, Generated.c15_QUADS]

theorem letterDict_none (l : Letter) (h : l.isQuad = false) : letterDict.lookup l = none := by
  cases l <;> first | rfl | exact absurd h (by decide)

/-- C15's copy of `sp_to_m` is C14's on every factor (a letter followed by direction letters) -/
theorem spToM_toL (c : Char) (t : CW) (ht : ∀ d ∈ t, d ∈ Model.C15.DIRS) :
    spToM (toL (c :: t)) = .ok ((Model.C15.spToM (c :: t)).map toL) := by
  by_cases hc : c ∈ Model.C15.QUADS
  · cases t with
    | nil =>
      rcases (mem_quads c).mp hc with rfl | rfl | rfl | rfl <;> rfl
    | cons d t' =>
      have hd := (mem_dirs d).mp (ht d List.mem_cons_self)
      rcases (mem_quads c).mp hc with rfl | rfl | rfl | rfl <;>
        rcases hd with rfl | rfl | rfl | rfl <;> rfl
  · have h1 : (ofChar c).isQuad = false := by
      rw [isQuad_ofChar]; simpa using hc
    have h2 : Model.C15.QUADS.contains c = false := by simpa using hc
    simp only [toL, List.map_cons, spToM, letterDict_none _ h1, Model.C15.spToM, h2]
    simp [toL]

open Spec.C15 in
theorem regexLang_nil (x : CW) : regexLang [] x ↔ AStar x := by
  simp only [regexLang, tailLang]
  constructor
  · rintro ⟨w0, w1, rfl, h, rfl⟩; simpa using h
  · intro h; exact ⟨x, [], by simp, h, rfl⟩

open Spec.C15 in
theorem regexLang_cons (alts : List CW) (rest : List (List CW)) (x : CW) :
    regexLang (alts :: rest) x ↔
      ∃ w0 v y, x = w0 ++ v ++ y ∧ AStar w0 ∧ v ∈ alts ∧ regexLang rest y := by
  simp only [regexLang, tailLang]
  constructor
  · rintro ⟨w0, w1, rfl, h0, v, w2, w3, rfl, hv, h2, h3⟩
    exact ⟨w0, v, w2 ++ w3, by simp, h0, hv, w2, w3, rfl, h2, h3⟩
  · rintro ⟨w0, v, y, rfl, h0, hv, w2, w3, rfl, h2, h3⟩
    exact ⟨w0, v ++ w2 ++ w3, by simp, h0, v, w2, w3, rfl, hv, h2, h3⟩

theorem toL_prefix (v x : CW) : toL v <+: toL x ↔ v <+: x := by
  constructor
  · intro h
    rw [List.prefix_iff_eq_take] at h ⊢
    have : toL v = toL (x.take v.length) := by
      rw [h]; simp [toL, List.map_take]
    exact toL_injective this
  · intro h; exact h.map _

theorem img_toL (c : Char) (t : CW) (ht : ∀ d ∈ t, d ∈ Model.C15.DIRS) (V : Word) :
    Img (toL (c :: t)) V ↔ ∃ v ∈ Model.C15.spToM (c :: t), V = toL v := by
  unfold Img
  rw [spToM_toL c t ht]
  constructor
  · rintro ⟨ms, hms, hV⟩
    cases hms
    obtain ⟨v, hv, rfl⟩ := List.mem_map.mp hV
    exact ⟨v, hv, rfl⟩
  · rintro ⟨v, hv, rfl⟩
    exact ⟨_, rfl, List.mem_map.mpr ⟨v, hv, rfl⟩⟩

/-- **Part 3**: on a word over `DIRS`, `FitsL` is membership in the regular language of the NFA -/
theorem fits_iff_regex (m : CW) (hm : Spec.C15.AStar m) (fs : List CW)
    (hfs : ∀ f ∈ fs, ∃ c t, f = c :: t ∧ ∀ d ∈ t, d ∈ Model.C15.DIRS) :
    ∀ lo, FitsL (toL m) (fs.map toL) lo ↔ Spec.C15.regexLang (fs.map Model.C15.spToM) (m.drop lo) := by
  induction fs with
  | nil =>
    intro lo
    simp only [List.map_nil, FitsL, regexLang_nil, true_iff]
    intro c hc; exact hm c (List.mem_of_mem_drop hc)
  | cons f fs ih =>
    intro lo
    obtain ⟨c, t, rfl, ht⟩ := hfs _ List.mem_cons_self
    have ih' := ih fun f hf => hfs f (List.mem_cons_of_mem _ hf)
    simp only [List.map_cons, FitsL, regexLang_cons]
    constructor
    · rintro ⟨p, V, hp, hV, hpre, hrest⟩
      obtain ⟨v, hv, rfl⟩ := (img_toL c t ht V).mp hV
      have hpre' : v <+: m.drop p := by
        rw [← toL_prefix]; simpa [toL, List.map_drop] using hpre
      obtain ⟨y, hy⟩ := hpre'
      refine ⟨(m.drop lo).take (p - lo), v, y, ?_, ?_, hv, ?_⟩
      · have h1 : (m.drop lo).drop (p - lo) = m.drop p := by
          rw [List.drop_drop]; congr 1; omega
        rw [List.append_assoc, hy, ← h1, List.take_append_drop]
      · intro c hc; exact hm c (List.mem_of_mem_drop (List.mem_of_mem_take hc))
      · have := (ih' (p + (toL v).length)).mp hrest
        have h2 : m.drop (p + (toL v).length) = y := by
          rw [← List.drop_drop, ← hy]; simp [toL]
        rwa [h2] at this
    · rintro ⟨w0, v, y, hx, h0, hv, hy⟩
      have hp : m.drop (lo + w0.length) = v ++ y := by
        rw [← List.drop_drop, hx]; simp
      refine ⟨lo + w0.length, toL v, by omega, (img_toL c t ht _).mpr ⟨v, hv, rfl⟩, ?_, ?_⟩
      · have : toL v <+: toL (m.drop (lo + w0.length)) := (toL_prefix _ _).mpr ⟨y, hp.symm⟩
        simpa [toL, List.map_drop] using this
      · apply (ih' _).mpr
        have h2 : m.drop (lo + w0.length + (toL v).length) = y := by
          rw [← List.drop_drop, hp]; simp [toL]
        rwa [h2]

/-! ## factors that are not numeral-led: both sides say "no" -/

theorem lookup_short (l : Word) (h : l.length < 2) : revLetterDict.lookup l = none := by
  rw [revLetterDict_eq]
  match l, h with
  | [], _ => rfl
  | [c], _ => simp [List.lookup]

/-- `quadrant(f, 0)` raises (`KeyError` of `m_to_sp`) for a factor whose first letter is no numeral -/
theorem quadrant_bad (c : Letter) (t : Word) (hc : c.isQuad = false) (ht : ∀ d ∈ t, d.isDir = true) :
    ∃ e, quadrant (c :: t) 0 = .error e := by
  have hlast : ∃ p, (c :: t)[(c :: t).length - 1]? = some p ∧ p.isQuad = false := by
    cases t with
    | nil => exact ⟨c, rfl, hc⟩
    | cons d t' =>
      have hlt : t'.length < (d :: t').length := by simp
      refine ⟨(d :: t')[t'.length], by simp, dir_not_quad (ht _ (List.getElem_mem hlt))⟩
  obtain ⟨p, hp1, hp2⟩ := hlast
  have hsl : (slice (c :: t) ((c :: t).length - 1) (0 + 1)).length < 2 := by
    simp only [slice, List.length_drop, List.length_take]; omega
  unfold quadrant
  simp only [List.getElem?_cons_zero, hc, Bool.false_eq_true, if_false, if_true, hp1, hp2]
  unfold mToSp
  rw [lookup_short _ (by simp only [List.length_take]; omega)]
  exact ⟨_, rfl⟩

/-- a factor the code cannot place: first letter neither numeral nor … (any non-numeral), then directions -/
def Bad (f : Word) : Prop := ∃ c t, f = c :: t ∧ c.isQuad = false ∧ ∀ d ∈ t, d.isDir = true

theorem occSp_bad (w f : Word) (hf : Bad f) (i : Nat) (hi : i < w.length) : (occSp w f i).1 = [] := by
  obtain ⟨c, t, rfl, hc, ht⟩ := hf
  obtain ⟨e, he⟩ := quadrant_bad c t hc ht
  unfold occSp
  obtain ⟨k, hk⟩ : ∃ k, w.length - i = k + 1 := ⟨w.length - i - 1, by omega⟩
  rw [hk, List.range'_succ]
  simp only [occSpOver, occSpTest, he]
  cases quadrant w i <;> rfl

theorem bindOver_nil {α β} (f : α → Gen β) (e : Option Err) (l : List α) (hf : ∀ a ∈ l, (f a).1 = []) :
    (bindOver f e l).1 = [] := by
  induction l with
  | nil => rfl
  | cons a l ih =>
    have h1 := hf a List.mem_cons_self
    have h2 := ih fun b hb => hf b (List.mem_cons_of_mem _ hb)
    simp only [bindOver]
    split
    · exact h1
    · simp [h1, h2]

theorem occRec_bad (w : Word) (fs : List Word) (hbad : ∃ f ∈ fs, Bad f) :
    ∀ i res, (occRec w fs i res).1 = [] := by
  induction fs with
  | nil => obtain ⟨f, hf, _⟩ := hbad; simp at hf
  | cons f fs ih =>
    intro i res
    simp only [occRec]
    split
    · rfl
    · rename_i hlt
      by_cases hb : Bad f
      · simp only [bindStream, occSp_bad w f hb i (by omega), bindOver]
      · have hbad' : ∃ f ∈ fs, Bad f := by
          obtain ⟨g, hg, hgb⟩ := hbad
          rcases List.mem_cons.mp hg with rfl | hg
          · exact absurd hgb hb
          · exact ⟨g, hg, hgb⟩
        exact bindOver_nil _ _ _ fun a _ => ih hbad' _ _

theorem contains_bad (w u : Word) (hbad : ∃ f ∈ factor u, Bad f) : contains w u ≠ .ok true := by
  rw [Ne, contains_true_iff]
  unfold occurrences
  rw [occRec_bad w _ hbad]
  simp

open Spec.C15 in
theorem regexLang_letters (fs : List (List CW)) : ∀ x, regexLang fs x →
    ∀ alts ∈ fs, ∃ v ∈ alts, ∀ c ∈ v, c ∈ x := by
  induction fs with
  | nil => intro x _ alts h; simp at h
  | cons a rest ih =>
    intro x hx alts h
    obtain ⟨w0, v, y, rfl, _, hv, hy⟩ := (regexLang_cons a rest x).mp hx
    rcases List.mem_cons.mp h with rfl | h
    · exact ⟨v, hv, fun c hc => by simp [hc]⟩
    · obtain ⟨v', hv', hc'⟩ := ih y hy alts h
      exact ⟨v', hv', fun c hc => by simp [hc' c hc]⟩

/-! ## assembly -/

theorem ctx_dirs {q ds a b} (c : Ctx q ds a b) : ∀ x ∈ a :: b :: ds, x.isDir = true := by
  obtain ⟨ha, hb, _⟩ := inM_adj _ c.hm 0 a b rfl rfl
  intro x hx
  rcases List.mem_cons.mp hx with rfl | hx
  · exact ha
  rcases List.mem_cons.mp hx with rfl | hx
  · exact hb
  · exact c.hds x hx

theorem nfa_regex (u m : CW) :
    Model.C15.nfaAccepts (Model.C15.nfaForPinword u) m = true ↔
      Spec.C15.regexLang ((Model.C15.factorPinword u).map Model.C15.spToM) m := by
  unfold Model.C15.nfaForPinword
  apply C15Nfa.nfaOfDecomp_language
  intro alts h
  obtain ⟨f, hf, rfl⟩ := List.mem_map.mp h
  exact C15Nfa.spToM_good f (C15Nfa.factor_ne_nil u f hf)

/-- **core**: `w = q ds` a strict pin word of the language, `m` (as a string) one of the words
    `sp_to_m w`; `u` any string that does not start with a direction letter -/
theorem core {q ds a b} (c : Ctx q ds a b) (m u : CW) (hm : toL m = a :: b :: ds)
    (hu : ∀ x, u.head? = some x → x ∉ Model.C15.DIRS) :
    contains (q :: ds) (toL u) = .ok true ↔
      Model.C15.nfaAccepts (Model.C15.nfaForPinword u) m = true := by
  have hA : Spec.C15.AStar m := by
    intro x hx
    have : ofChar x ∈ toL m := List.mem_map.mpr ⟨x, hx, rfl⟩
    rw [hm] at this
    have := ctx_dirs c _ this
    rw [isDir_ofChar] at this
    simpa using this
  rw [nfa_regex]
  by_cases hall : ∀ f ∈ Model.C15.factorPinword u, ∀ x, f.head? = some x → x ∈ Model.C15.QUADS
  · have hS : StrictFs (factor (toL u)) := by
      intro f hf
      rw [factor_toL] at hf
      obtain ⟨f', hf', rfl⟩ := List.mem_map.mp hf
      obtain ⟨c', t', rfl, ht'⟩ := factor_shape u f' hf'
      refine ⟨ofChar c', toL t', rfl, ?_, ?_⟩
      · rw [isQuad_ofChar]; simpa using hall _ hf' c' rfl
      · intro e he
        obtain ⟨x, hx, rfl⟩ := List.mem_map.mp he
        rw [isDir_ofChar]; simpa using ht' x hx
    have hQ : QuadLed (factor (toL u)) := by
      intro f hf
      obtain ⟨q', es, rfl, h, _⟩ := hS f hf
      exact ⟨q', es, rfl, h⟩
    rw [contains_iff_good _ _ c.lang hQ, good_iff_fits c _ hS 0 true (fun _ => rfl) (by simp)]
    simp only [if_true]
    rw [← hm, factor_toL, fits_iff_regex m hA _ (factor_shape u) 0, List.drop_zero]
  · simp only [not_forall] at hall
    obtain ⟨f, hf, x, hx, hxq⟩ := hall
    obtain ⟨c', t', rfl, ht'⟩ := factor_shape u f hf
    simp only [List.head?_cons, Option.some.injEq] at hx
    subst hx
    have hnd : c' ∉ Model.C15.DIRS := factor_heads15 u hu _ hf c' rfl
    constructor
    · intro h
      exfalso
      refine contains_bad (q :: ds) (toL u) ⟨toL (c' :: t'), ?_, ofChar c', toL t', rfl, ?_, ?_⟩ h
      · rw [factor_toL]; exact List.mem_map.mpr ⟨_, hf, rfl⟩
      · rw [isQuad_ofChar]; simpa using hxq
      · intro e he
        obtain ⟨y, hy, rfl⟩ := List.mem_map.mp he
        rw [isDir_ofChar]; simpa using ht' y hy
    · intro h
      exfalso
      obtain ⟨v, hv, hvm⟩ := regexLang_letters _ m h (Model.C15.spToM (c' :: t'))
        (List.mem_map.mpr ⟨_, hf, rfl⟩)
      have hq2 : Model.C15.QUADS.contains c' = false := by simpa using hxq
      simp only [Model.C15.spToM, hq2, Bool.false_eq_true, if_false, List.mem_cons, List.not_mem_nil,
        or_false] at hv
      subst hv
      exact hnd (hA c' (hvm c' List.mem_cons_self))

/-! ## the two front ends -/

/-- from a strict pin word (as a string) and one of its `sp_to_m` images -/
theorem ctx_of_strict (c0 : Char) (t0 m : CW) (hs : Model.C15.isStrict (c0 :: t0) = true)
    (hw : inLang (toL (c0 :: t0)) = true) (hm : m ∈ Model.C15.spToM (c0 :: t0)) :
    ∃ a b, Ctx (ofChar c0) (toL t0) a b ∧ toL m = a :: b :: toL t0 := by
  simp only [Model.C15.isStrict, Bool.and_eq_true, List.all_eq_true] at hs
  have hq : (ofChar c0).isQuad = true := by rw [isQuad_ofChar]; exact hs.1
  have ht : ∀ d ∈ t0, d ∈ Model.C15.DIRS := fun d hd => by simpa using hs.2 d hd
  have hds : ∀ d ∈ toL t0, d.isDir = true := by
    intro e he
    obtain ⟨y, hy, rfl⟩ := List.mem_map.mp he
    rw [isDir_ofChar]; exact hs.2 y hy
  have hch : chainOK (ofChar c0) (toL t0) = true := by
    have : inLang (ofChar c0 :: toL t0) = true := hw
    simp only [inLang, Bool.and_eq_true] at this
    exact this.2
  obtain ⟨ms, hms, _, hall⟩ := spToM_strict _ _ hq hds hch
  have h2 := spToM_toL c0 t0 ht
  have e : toL (c0 :: t0) = ofChar c0 :: toL t0 := rfl
  rw [e, hms] at h2
  cases h2
  obtain ⟨a, b, hab, hM, hlk⟩ := hall (toL m) (List.mem_map.mpr ⟨m, hm, rfl⟩)
  exact ⟨a, b, ⟨hq, hds, hch, hab ▸ hM, hlk⟩, hab⟩

theorem quadOfSigns_isQuad (s : Bool × Bool) : (quadOfSigns s).isQuad = true := by
  rcases s with ⟨_ | _, _ | _⟩ <;> rfl

theorem quad_sameAxis (q d : Letter) (hq : q.isQuad = true) : sameAxis q d = false := by
  cases q <;> simp only [isQuad] at hq <;> first | exact absurd hq (by decide) | (cases d <;> rfl)

/-- from a word of `M` with at least two letters: `m_to_sp` succeeds on it -/
theorem ctx_of_M (m : Word) (hm : inM m = true) (hlen : 2 ≤ m.length) :
    ∃ q ds a b, m = a :: b :: ds ∧ Ctx q ds a b ∧ mToSp m = .ok (q :: ds) := by
  match m, hlen with
  | a :: b :: ds, _ =>
    obtain ⟨ha, hb, hab⟩ := inM_adj _ hm 0 a b rfl rfl
    have hlk := pair_signs a b ha hb hab
    generalize hq0 : quadOfSigns (if b.isVert = true then (namesRight a, namesUp b) else (namesRight b, namesUp a)) = q0 at hlk
    have hq : q0.isQuad = true := hq0 ▸ quadOfSigns_isQuad _
    have hm' := hm
    simp only [inM, chainOK, List.all_cons, Bool.and_eq_true, List.all_eq_true] at hm'
    obtain ⟨⟨_, _, hchb⟩, _, hall⟩ := hm'
    have hch : chainOK q0 ds = true := by
      cases ds with
      | nil => rfl
      | cons d tl =>
        simp only [chainOK, Bool.and_eq_true] at hchb ⊢
        refine ⟨?_, hchb.2⟩
        have hd : d.isDir = true := hall d List.mem_cons_self
        simp [hd, quad_sameAxis q0 d hq]
    refine ⟨q0, ds, a, b, rfl, ⟨hq, hall, hch, hm, hlk⟩, ?_⟩
    rw [mToSp_pair, hlk]

/-- `Spec.C15.InM` (the language of `make_dfa_for_m`, theorem `C15.dfaM_language`) is C14's `inM` -/
theorem inM_of_InM (m : CW) (h : Spec.C15.InM m) : inM (toL m) = true := by
  obtain ⟨hA, hAlt⟩ := h
  have hd : ∀ x ∈ m, (ofChar x).isDir = true := fun x hx => by
    rw [isDir_ofChar]; simpa using hA x hx
  have hsa : ∀ x y, x ∈ Model.C15.DIRS → y ∈ Model.C15.DIRS → Spec.C15.vertical x ≠ Spec.C15.vertical y →
      sameAxis (ofChar x) (ofChar y) = false := by
    intro x y hx hy
    rcases (mem_dirs x).mp hx with rfl | rfl | rfl | rfl <;>
      rcases (mem_dirs y).mp hy with rfl | rfl | rfl | rfl <;> decide
  cases m with
  | nil => rfl
  | cons c r0 =>
    have hall : (toL r0).all isDir = true := by
      rw [List.all_eq_true]
      intro e he
      obtain ⟨y, hy, rfl⟩ := List.mem_map.mp he
      exact hd y (List.mem_cons_of_mem _ hy)
    have hchain : ∀ (rest pre : CW) (p : Char), c :: r0 = pre ++ p :: rest →
        chainOK (ofChar p) (toL rest) = true := by
      intro rest
      induction rest with
      | nil => intro _ _ _; rfl
      | cons d tl ih =>
        intro pre p he
        have hp : p ∈ c :: r0 := by rw [he]; simp
        have hdm : d ∈ c :: r0 := by rw [he]; simp
        have := hsa p d (hA p hp) (hA d hdm) (hAlt pre p d tl he)
        simp only [toL, List.map_cons, chainOK, Bool.and_eq_true]
        refine ⟨by simp [hd d hdm, this], ih (pre ++ [p]) d (by simp [he])⟩
    have : toL (c :: r0) = ofChar c :: toL r0 := rfl
    rw [this]
    simp only [inM, Bool.and_eq_true]
    exact ⟨⟨hd c List.mem_cons_self, hchain r0 [] c rfl⟩, hall⟩

/-- the empty strict pin word (the code lets it pass `is_strict_pinword`): `sp_to_m "" = ("",)` -/
theorem core_nil (u : CW) :
    contains [] (toL u) = .ok true ↔ Model.C15.nfaAccepts (Model.C15.nfaForPinword u) [] = true := by
  rw [nfa_regex]
  cases hf : Model.C15.factorPinword u with
  | nil =>
    have : factor (toL u) = [] := by rw [factor_toL, hf]; rfl
    simp only [contains, occurrences, this, occRec, List.map_nil, regexLang_nil]
    simp [gapOK, C15Nfa.astar_nil]
  | cons f fs =>
    have : factor (toL u) = toL f :: fs.map toL := by rw [factor_toL, hf]; rfl
    simp only [contains, occurrences, this, occRec, List.length_nil, ge_iff_le, Nat.le_refl, if_true,
      List.any_nil, List.map_cons, regexLang_cons]
    simp only [Except.ok.injEq, Bool.false_eq_true, false_iff, not_exists]
    rintro w0 v y ⟨h, _, hv, _⟩
    have hv0 : v = [] := by
      have := congrArg List.length h
      simp at this
      exact List.eq_nil_of_length_eq_zero (by omega)
    subst hv0
    have hfne : f ≠ [] := C15Nfa.factor_ne_nil u f (by rw [hf]; exact List.mem_cons_self)
    rcases C15Nfa.spToM_good f hfne with ⟨a1, b1, a2, b2, hh⟩ | ⟨x, hx, hh⟩
    · rw [hh] at hv; simp at hv
    · rw [hh] at hv; simp at hv; exact hx hv

/-! ## Part 4 — pin words with several numerals: `pinword_contains` works factor by factor -/

/-- `y` is empty or starts with a numeral -/
def QuadHead (y : Word) : Prop := ∀ c, y.head? = some c → c.isQuad = true

theorem getD_append_left' (x y : Word) (i : Nat) (hi : i < x.length) (d : Letter) :
    (x ++ y).getD i d = x.getD i d := by
  simp only [List.getD_eq_getElem?_getD, List.getElem?_append_left hi]

theorem getD_append_right' (x y : Word) (j : Nat) (d : Letter) :
    (x ++ y).getD (x.length + j) d = y.getD j d := by
  simp only [List.getD_eq_getElem?_getD, List.getElem?_append_right (Nat.le_add_right _ _),
    Nat.add_sub_cancel_left]

theorem signs_append_left (x y : Word) (i : Nat) (hi : i < x.length) : signs (x ++ y) i = signs x i := by
  have h2 : i - 1 < x.length := by omega
  simp only [signs, getD_append_left' x y i hi, getD_append_left' x y (i - 1) h2]

theorem signs_append_right (x y : Word) (hy : QuadHead y) (j : Nat) (hj : j < y.length) :
    signs (x ++ y) (x.length + j) = signs y j := by
  have h1 := getD_append_right' x y j (X ' ')
  cases j with
  | zero =>
    cases y with
    | nil => simp at hj
    | cons c r =>
      have hc := hy c rfl
      simp only [signs, h1]
      simp [hc]
  | succ k =>
    have h2 : (x ++ y).getD (x.length + (k + 1) - 1) (X ' ') = y.getD (k + 1 - 1) (X ' ') := by
      rw [show x.length + (k + 1) - 1 = x.length + k from by omega, getD_append_right']; rfl
    simp only [signs, h1, h2]

theorem prefix_append_dirs (es : Word) (hes : ∀ e ∈ es, e.isDir = true) (y : Word) (hy : QuadHead y) :
    ∀ a : Word, es <+: a ++ y ↔ es <+: a := by
  induction es with
  | nil => intro a; simp
  | cons e es ih =>
    intro a
    have hed : e.isDir = true := hes e List.mem_cons_self
    cases a with
    | nil =>
      simp only [List.nil_append, List.prefix_nil, reduceCtorEq, iff_false]
      cases y with
      | nil => simp
      | cons c r =>
        rw [List.cons_prefix_cons]
        rintro ⟨rfl, _⟩
        have := hy _ rfl
        rw [dir_not_quad hed] at this; cases this
    | cons c a' =>
      rw [List.cons_append, List.cons_prefix_cons, List.cons_prefix_cons,
        ih (fun x hx => hes x (List.mem_cons_of_mem _ hx)) a']


theorem chainOK_suffix (a : Word) : ∀ (p c : Letter) (r : Word), chainOK p (a ++ c :: r) = true → chainOK c r = true := by
  induction a with
  | nil => intro p c r h; simp only [List.nil_append, chainOK, Bool.and_eq_true] at h; exact h.2
  | cons d a ih => intro p c r h; simp only [List.cons_append, chainOK, Bool.and_eq_true] at h; exact ih d c r h.2

theorem inLang_suffix (x y : Word) (h : inLang (x ++ y) = true) (hy : QuadHead y) : inLang y = true := by
  cases y with
  | nil => rfl
  | cons c r =>
    have hc := hy c rfl
    cases x with
    | nil => simpa using h
    | cons q a =>
      simp only [List.cons_append, inLang, Bool.and_eq_true] at h
      simp only [inLang, hc, Bool.true_and]
      exact chainOK_suffix a q c r h.2

theorem slice_iff (w : Word) (q' : Letter) (es : Word) (occ : Nat) :
    slice w (occ + 1) (occ + (q' :: es).length) = es ↔ es <+: w.drop (occ + 1) := by
  rw [show occ + (q' :: es).length = (occ + 1) + es.length from by simp; omega, slice_prefix]

theorem bool_and_congr {A A' B B' : Prop} [Decidable A] [Decidable A'] [Decidable B] [Decidable B']
    (h1 : A ↔ A') (h2 : B ↔ B') : (decide A && decide B) = (decide A' && decide B') := by
  rw [decide_eq_decide.mpr h1, decide_eq_decide.mpr h2]

/-- an occurrence test inside the first part of `x ++ y` only looks at `x` -/
theorem occSpTest_left (x y : Word) (hxy : inLang (x ++ y) = true) (hy : QuadHead y)
    (q' : Letter) (es : Word) (hq' : q'.isQuad = true) (hes : ∀ e ∈ es, e.isDir = true)
    (occ : Nat) (hocc : occ < x.length) :
    occSpTest (x ++ y) (q' :: es) occ = occSpTest x (q' :: es) occ := by
  have hx : inLang x = true := inLang_prefix x y hxy
  rw [occSpTest_ok _ hxy q' es hq' occ (by simp; omega), occSpTest_ok _ hx q' es hq' occ hocc]
  congr 1
  apply bool_and_congr
  · rw [signs_append_left x y occ hocc]
  · rw [slice_iff, slice_iff, List.drop_append_of_le_length (by omega), prefix_append_dirs es hes y hy]

/-- … and one in the second part only looks at `y` -/
theorem occSpTest_right (x y : Word) (hxy : inLang (x ++ y) = true) (hy : QuadHead y)
    (q' : Letter) (es : Word) (hq' : q'.isQuad = true) (j : Nat) (hj : j < y.length) :
    occSpTest (x ++ y) (q' :: es) (x.length + j) = occSpTest y (q' :: es) j := by
  have hyl : inLang y = true := inLang_suffix x y hxy hy
  rw [occSpTest_ok _ hxy q' es hq' _ (by simp; omega), occSpTest_ok _ hyl q' es hq' j hj]
  congr 1
  apply bool_and_congr
  · rw [signs_append_right x y hy j hj]
  · have hd : (x ++ y).drop (x.length + j + 1) = y.drop (j + 1) := by
      rw [Nat.add_assoc, List.drop_append, List.drop_of_length_le (by omega), Nat.add_sub_cancel_left]
      rfl
    rw [slice_iff, slice_iff, hd]

theorem quadAt_left (x y : Word) (i : Nat) (hi : i < x.length) : quadAt (x ++ y) i = quadAt x i := by
  simp only [quadAt, List.getElem?_append_left hi]

theorem quadAt_right (x y : Word) (j : Nat) : quadAt (x ++ y) (x.length + j) = quadAt y j := by
  simp only [quadAt, List.getElem?_append_right (Nat.le_add_right _ _), Nat.add_sub_cancel_left]

/-- a match inside `x` ends inside `x` -/
theorem match_fits (x : Word) (hx : inLang x = true) (q' : Letter) (es : Word) (hq' : q'.isQuad = true)
    (occ : Nat) (hocc : occ < x.length) (h : occSpTest x (q' :: es) occ = .ok true) :
    occ + (q' :: es).length ≤ x.length := by
  rw [occSpTest_ok _ hx q' es hq' occ hocc] at h
  simp only [Except.ok.injEq, Bool.and_eq_true, decide_eq_true_eq] at h
  have := ((slice_iff x q' es occ).mp h.2).length_le
  simp only [List.length_drop, List.length_cons] at this ⊢
  omega


theorem good_shift (x y : Word) (hxy : inLang (x ++ y) = true) (hy : QuadHead y) (fs : List Word)
    (hfs : StrictFs fs) : ∀ j first, Good (x ++ y) fs (x.length + j) first ↔ Good y fs j first := by
  induction fs with
  | nil => intro j first; simp [Good]
  | cons f fs ih =>
    intro j first
    obtain ⟨q', es, rfl, hq', hes⟩ := hfs _ List.mem_cons_self
    have ih' := ih fun f hf => hfs f (List.mem_cons_of_mem _ hf)
    simp only [Good]
    constructor
    · rintro ⟨occ, h1, h2, h3, h4, h5⟩
      obtain ⟨o, rfl⟩ : ∃ o, occ = x.length + o := ⟨occ - x.length, by omega⟩
      have ho : o < y.length := by simp only [List.length_append] at h2; omega
      rw [occSpTest_right x y hxy hy q' es hq' o ho] at h3
      rw [quadAt_right] at h4
      rw [Nat.add_assoc, ih'] at h5
      exact ⟨o, by omega, ho, h3, by rcases h4 with h | h | h <;> [exact Or.inl h; (right; left; omega); exact Or.inr (Or.inr h)], h5⟩
    · rintro ⟨o, h1, h2, h3, h4, h5⟩
      refine ⟨x.length + o, by omega, by simp only [List.length_append]; omega, ?_, ?_, ?_⟩
      · rw [occSpTest_right x y hxy hy q' es hq' o h2]; exact h3
      · rw [quadAt_right]
        rcases h4 with h | h | h <;> [exact Or.inl h; (right; left; omega); exact Or.inr (Or.inr h)]
      · rw [Nat.add_assoc, ih']; exact h5

/-- **the factors of `w` are searched independently**: the factors of `u` found in `x ++ y` (`y` empty or
    numeral-led) split into those found in `x` and those found in `y`; a factor may start exactly at
    the numeral that begins `y` (that is the `word[nxt] in QUADS` clause of the gap test) -/
theorem good_split (x y : Word) (hxy : inLang (x ++ y) = true) (hy : QuadHead y) (fs : List Word)
    (hfs : StrictFs fs) : ∀ i first, i ≤ x.length →
      (Good (x ++ y) fs i first ↔ ∃ g1 g2, fs = g1 ++ g2 ∧ Good x g1 i first ∧ Good y g2 0 true) := by
  have hx : inLang x = true := inLang_prefix x y hxy
  induction fs with
  | nil =>
    intro i first _
    simp only [Good, true_iff]
    exact ⟨[], [], rfl, trivial, trivial⟩
  | cons f fs ih =>
    intro i first hi
    obtain ⟨q', es, rfl, hq', hes⟩ := hfs _ List.mem_cons_self
    have hfs' : StrictFs fs := fun f hf => hfs f (List.mem_cons_of_mem _ hf)
    have ih' := ih hfs'
    constructor
    · rintro ⟨occ, h1, h2, h3, h4, h5⟩
      by_cases hlt : occ < x.length
      · rw [occSpTest_left x y hxy hy q' es hq' hes occ hlt] at h3
        rw [quadAt_left x y occ hlt] at h4
        have hfit := match_fits x hx q' es hq' occ hlt h3
        obtain ⟨g1, g2, rfl, hg1, hg2⟩ := (ih' _ false hfit).mp h5
        exact ⟨(q' :: es) :: g1, g2, rfl, ⟨occ, h1, hlt, h3, h4, hg1⟩, hg2⟩
      · obtain ⟨o, rfl⟩ : ∃ o, occ = x.length + o := ⟨occ - x.length, by omega⟩
        have ho : o < y.length := by simp only [List.length_append] at h2; omega
        rw [occSpTest_right x y hxy hy q' es hq' o ho] at h3
        rw [Nat.add_assoc, good_shift x y hxy hy fs hfs'] at h5
        exact ⟨[], (q' :: es) :: fs, rfl, trivial, ⟨o, Nat.zero_le _, ho, h3, Or.inl rfl, h5⟩⟩
    · rintro ⟨g1, g2, hsplit, hg1, hg2⟩
      cases g1 with
      | nil =>
        simp only [List.nil_append] at hsplit
        subst hsplit
        obtain ⟨o, _, ho, h3, _, h5⟩ := hg2
        refine ⟨x.length + o, by omega, by simp only [List.length_append]; omega, ?_, ?_, ?_⟩
        · rw [occSpTest_right x y hxy hy q' es hq' o ho]; exact h3
        · cases o with
          | zero =>
            right; right
            rw [quadAt_right]
            cases y with
            | nil => simp at ho
            | cons c r => simp [quadAt, hy c rfl]
          | succ k => right; left; omega
        · rw [Nat.add_assoc, good_shift x y hxy hy fs hfs']; exact h5
      | cons f' g1' =>
        simp only [List.cons_append, List.cons.injEq] at hsplit
        obtain ⟨rfl, rfl⟩ := hsplit
        obtain ⟨occ, h1, hlt, h3, h4, h5⟩ := hg1
        have hfit := match_fits x hx q' es hq' occ hlt h3
        refine ⟨occ, h1, by simp only [List.length_append]; omega, ?_, ?_, ?_⟩
        · rw [occSpTest_left x y hxy hy q' es hq' hes occ hlt]; exact h3
        · rw [quadAt_left x y occ hlt]; exact h4
        · exact (ih' _ false hfit).mpr ⟨g1', g2, rfl, h5, hg2⟩


/-! ### … and each factor of `w` against the automaton -/

/-- strings: a numeral followed by direction letters -/
def Shape15 (fs : List CW) : Prop :=
  ∀ f ∈ fs, ∃ c t, f = c :: t ∧ c ∈ Model.C15.QUADS ∧ ∀ d ∈ t, d ∈ Model.C15.DIRS

theorem strictFs_toL (fs : List CW) (h : Shape15 fs) : StrictFs (fs.map toL) := by
  intro f hf
  obtain ⟨f', hf', rfl⟩ := List.mem_map.mp hf
  obtain ⟨c', t', rfl, hc', ht'⟩ := h f' hf'
  refine ⟨ofChar c', toL t', rfl, ?_, ?_⟩
  · rw [isQuad_ofChar]; simpa using hc'
  · intro e he
    obtain ⟨x, hx, rfl⟩ := List.mem_map.mp he
    rw [isDir_ofChar]; simpa using ht' x hx

theorem astar_of_ctx {q ds a b} (c : Ctx q ds a b) (m : CW) (hm : toL m = a :: b :: ds) : Spec.C15.AStar m := by
  intro x hx
  have : ofChar x ∈ toL m := List.mem_map.mpr ⟨x, hx, rfl⟩
  rw [hm] at this
  have := ctx_dirs c _ this
  rw [isDir_ofChar] at this
  simpa using this

theorem nfa_regex_fs (g : List CW) (hg : ∀ f ∈ g, f ≠ []) (m : CW) :
    Model.C15.nfaAccepts (Model.C15.nfaOfDecomp (g.map Model.C15.spToM)) m = true ↔
      Spec.C15.regexLang (g.map Model.C15.spToM) m := by
  apply C15Nfa.nfaOfDecomp_language
  intro alts h
  obtain ⟨f, hf, rfl⟩ := List.mem_map.mp h
  exact C15Nfa.spToM_good f (hg f hf)

/-- `core` for an arbitrary list of numeral-led factors instead of `factor_pinword u` -/
theorem core_fs {q ds a b} (c : Ctx q ds a b) (m : CW) (hm : toL m = a :: b :: ds) (g : List CW)
    (hg : Shape15 g) :
    Good (q :: ds) (g.map toL) 0 true ↔
      Model.C15.nfaAccepts (Model.C15.nfaOfDecomp (g.map Model.C15.spToM)) m = true := by
  rw [nfa_regex_fs g (fun f hf => by obtain ⟨c', t', rfl, _⟩ := hg f hf; simp) m,
    good_iff_fits c _ (strictFs_toL g hg) 0 true (fun _ => rfl) (by simp)]
  simp only [if_true]
  rw [← hm, fits_iff_regex m (astar_of_ctx c m hm) g
    (fun f hf => by obtain ⟨c', t', rfl, _, ht'⟩ := hg f hf; exact ⟨c', t', rfl, ht'⟩) 0, List.drop_zero]

theorem spToM15_ne_nil (x : CW) : Model.C15.spToM x ≠ [] := by
  cases x with
  | nil => simp [Model.C15.spToM]
  | cons c t =>
    rcases C15Nfa.spToM_good (c :: t) (by simp) with ⟨a1, b1, a2, b2, h⟩ | ⟨y, _, h⟩ <;> rw [h] <;> simp

/-- one strict factor `x` of `w` and a group `g` of factors of `u`: every / some component of
    `sp_to_m x` is accepted by the automaton of the group -/
theorem pointwise (x : CW) (hs : Model.C15.isStrict x = true) (hne : x ≠ []) (hx : inLang (toL x) = true)
    (g : List CW) (hg : Shape15 g) :
    ((∀ m ∈ Model.C15.spToM x,
        Model.C15.nfaAccepts (Model.C15.nfaOfDecomp (g.map Model.C15.spToM)) m = true)
      ↔ Good (toL x) (g.map toL) 0 true) ∧
    ((∃ m ∈ Model.C15.spToM x,
        Model.C15.nfaAccepts (Model.C15.nfaOfDecomp (g.map Model.C15.spToM)) m = true)
      ↔ Good (toL x) (g.map toL) 0 true) := by
  cases x with
  | nil => exact absurd rfl hne
  | cons c0 t0 =>
    have key : ∀ m ∈ Model.C15.spToM (c0 :: t0),
        (Good (toL (c0 :: t0)) (g.map toL) 0 true ↔
          Model.C15.nfaAccepts (Model.C15.nfaOfDecomp (g.map Model.C15.spToM)) m = true) := by
      intro m hm
      obtain ⟨a, b, hc, hab⟩ := ctx_of_strict c0 t0 m hs hx hm
      exact core_fs hc m hab g hg
    obtain ⟨m0, hm0⟩ := List.exists_mem_of_ne_nil _ (spToM15_ne_nil (c0 :: t0))
    refine ⟨⟨fun h => (key m0 hm0).mpr (h m0 hm0), fun h m hm => (key m hm).mp h⟩,
      ⟨fun ⟨m, hm, h⟩ => (key m hm).mpr h, fun h => ⟨m0, hm0, (key m0 hm0).mp h⟩⟩⟩

/-- every factor of a word of the language is a non-empty strict pin word of the language -/
theorem toL_split (c : Char) (t : CW) :
    toL (c :: t) = toL (c :: (Model.C15.spanDirs t).1) ++ toL (Model.C15.spanDirs t).2 := by
  rw [spanDirs_eq]
  simp only [toL, ← List.map_append, List.cons_append, List.takeWhile_append_dropWhile]

theorem split_facts (c : Char) (t : CW) (hw : inLang (toL (c :: t)) = true) :
    Model.C15.isStrict (c :: (Model.C15.spanDirs t).1) = true
    ∧ inLang (toL (c :: (Model.C15.spanDirs t).1)) = true
    ∧ QuadHead (toL (Model.C15.spanDirs t).2)
    ∧ inLang (toL (Model.C15.spanDirs t).2) = true := by
  have hq : Model.C15.QUADS.contains c = true := by
    have : inLang (ofChar c :: toL t) = true := hw
    simp only [inLang, Bool.and_eq_true] at this
    rw [← isQuad_ofChar]; exact this.1
  rw [toL_split c t] at hw
  have hqh : QuadHead (toL (Model.C15.spanDirs t).2) := by
    intro d hd
    have hmem : d ∈ toL (Model.C15.spanDirs t).2 := List.mem_of_mem_head? hd
    have halpha := inLang_alpha _ hw d (List.mem_append_right _ hmem)
    rw [spanDirs_eq] at hd
    simp only [toL] at hd
    cases hdw : t.dropWhile Model.C15.DIRS.contains with
    | nil => simp [hdw] at hd
    | cons y ys =>
      simp only [hdw, List.map_cons, List.head?_cons, Option.some.injEq] at hd
      subst hd
      have := List.head_dropWhile_not Model.C15.DIRS.contains (l := t) (by simp [hdw])
      simp only [hdw, List.head_cons] at this
      rcases halpha with h | h
      · exact h
      · rw [isDir_ofChar, this] at h; cases h
  refine ⟨?_, inLang_prefix _ _ hw, hqh, inLang_suffix _ _ hw hqh⟩
  simp only [Model.C15.isStrict, hq, Bool.true_and]
  rw [spanDirs_eq]
  exact List.all_takeWhile

/-- **Part 4**: `Good` on a word with several numerals, factor by factor; `P` is any reading of "the
    strict factor `x` of `w` contains the group `g`" that agrees with `Good` on strict words -/
theorem good_general (P : CW → List CW → Prop)
    (hP : ∀ x g, Model.C15.isStrict x = true → x ≠ [] → inLang (toL x) = true → Shape15 g →
      (P x g ↔ Good (toL x) (g.map toL) 0 true))
    (w : CW) : inLang (toL w) = true → ∀ fs, Shape15 fs →
      (Good (toL w) (fs.map toL) 0 true ↔
        ∃ gs : List (List CW), gs.flatten = fs ∧ List.Forall₂ P (Model.C15.factorPinword w) gs) := by
  fun_induction Model.C15.factorPinword w with
  | case1 =>
    intro _ fs _
    cases fs with
    | nil => simp only [List.map_nil, Good, true_iff]; exact ⟨[], rfl, List.Forall₂.nil⟩
    | cons f fs =>
      simp only [toL, List.map_nil, List.map_cons, Good, List.length_nil, Nat.not_lt_zero, false_and, and_false,
        exists_false, false_iff, not_exists, not_and]
      intro gs hgs h
      cases h
      simp at hgs
  | case2 c t ih =>
    intro hw fs hfs
    obtain ⟨hs, hx, hqh, hy⟩ := split_facts c t hw
    rw [toL_split c t] at hw ⊢
    rw [good_split _ _ hw hqh _ (strictFs_toL fs hfs) 0 true (Nat.zero_le _)]
    constructor
    · rintro ⟨g1, g2, hsplit, hg1, hg2⟩
      obtain ⟨f1, f2, rfl, rfl, rfl⟩ := List.map_eq_append_iff.mp hsplit
      have hf1 : Shape15 f1 := fun f hf => hfs f (List.mem_append_left _ hf)
      have hf2 : Shape15 f2 := fun f hf => hfs f (List.mem_append_right _ hf)
      obtain ⟨gs', hgs', hall⟩ := (ih hy f2 hf2).mp hg2
      exact ⟨f1 :: gs', by simp [hgs'], List.Forall₂.cons ((hP _ f1 hs (by simp) hx hf1).mpr hg1) hall⟩
    · rintro ⟨gs, hgs, hall⟩
      cases hall with
      | cons h1 hrest =>
        rename_i g gs'
        subst hgs
        have hf1 : Shape15 g := fun f hf => hfs f (by simp [hf])
        have hf2 : Shape15 gs'.flatten := fun f hf => hfs f (by
          simp only [List.flatten_cons, List.mem_append]; exact Or.inr hf)
        refine ⟨g.map toL, gs'.flatten.map toL, by simp, (hP _ g hs (by simp) hx hf1).mp h1, ?_⟩
        exact (ih hy _ hf2).mpr ⟨gs', rfl, hrest⟩


theorem factor_facts (w : CW) : inLang (toL w) = true → ∀ x ∈ Model.C15.factorPinword w,
    Model.C15.isStrict x = true ∧ x ≠ [] ∧ inLang (toL x) = true := by
  fun_induction Model.C15.factorPinword w with
  | case1 => intro _ x hx; simp at hx
  | case2 c t ih =>
    intro hw x hx
    obtain ⟨hs, hxl, _, hy⟩ := split_facts c t hw
    rcases List.mem_cons.mp hx with rfl | hx
    · exact ⟨hs, by simp, hxl⟩
    · exact ih hy x hx

theorem forall2_mem_right {α β} {R : α → β → Prop} {l1 : List α} {l2 : List β} (h : List.Forall₂ R l1 l2) :
    ∀ b ∈ l2, ∃ a ∈ l1, R a b := by
  induction h with
  | nil => intro b hb; simp at hb
  | cons hab _ ih =>
    intro b hb
    rcases List.mem_cons.mp hb with rfl | hb
    · exact ⟨_, List.mem_cons_self, hab⟩
    · obtain ⟨a, ha, hr⟩ := ih b hb
      exact ⟨a, List.mem_cons_of_mem _ ha, hr⟩

/-- every component of `sp_to_m x` is accepted by the automaton built from the group `g` -/
def AccAll (x : CW) (g : List CW) : Prop :=
  ∀ m ∈ Model.C15.spToM x, Model.C15.nfaAccepts (Model.C15.nfaOfDecomp (g.map Model.C15.spToM)) m = true

/-- some component is -/
def AccSome (x : CW) (g : List CW) : Prop :=
  ∃ m ∈ Model.C15.spToM x, Model.C15.nfaAccepts (Model.C15.nfaOfDecomp (g.map Model.C15.spToM)) m = true

theorem accAll_some (x : CW) (g : List CW) (h : AccAll x g) : AccSome x g := by
  obtain ⟨m0, hm0⟩ := List.exists_mem_of_ne_nil _ (spToM15_ne_nil x)
  exact ⟨m0, hm0, h m0 hm0⟩

theorem shape_or_bad (u : CW) (hu : ∀ x, u.head? = some x → x ∉ Model.C15.DIRS) :
    Shape15 (Model.C15.factorPinword u) ∨
      ∃ c' t', (c' :: t') ∈ Model.C15.factorPinword u ∧ c' ∉ Model.C15.QUADS ∧ c' ∉ Model.C15.DIRS
        ∧ ∀ d ∈ t', d ∈ Model.C15.DIRS := by
  by_cases hall : ∀ f ∈ Model.C15.factorPinword u, ∀ x, f.head? = some x → x ∈ Model.C15.QUADS
  · left
    intro f hf
    obtain ⟨c', t', rfl, ht'⟩ := factor_shape u f hf
    exact ⟨c', t', rfl, hall _ hf c' rfl, ht'⟩
  · right
    simp only [not_forall] at hall
    obtain ⟨f, hf, x, hx, hxq⟩ := hall
    obtain ⟨c', t', rfl, ht'⟩ := factor_shape u f hf
    simp only [List.head?_cons, Option.some.injEq] at hx
    subst hx
    exact ⟨c', t', hf, hxq, factor_heads15 u hu _ hf c' rfl, ht'⟩

theorem contains_bad15 (w u : CW) (c' : Char) (t' : CW) (hf : (c' :: t') ∈ Model.C15.factorPinword u)
    (hq : c' ∉ Model.C15.QUADS) (ht' : ∀ d ∈ t', d ∈ Model.C15.DIRS) :
    contains (toL w) (toL u) ≠ .ok true := by
  refine contains_bad (toL w) (toL u) ⟨toL (c' :: t'), ?_, ofChar c', toL t', rfl, ?_, ?_⟩
  · rw [factor_toL]; exact List.mem_map.mpr ⟨_, hf, rfl⟩
  · rw [isQuad_ofChar]; simpa using hq
  · intro e he
    obtain ⟨y, hy, rfl⟩ := List.mem_map.mp he
    rw [isDir_ofChar]; simpa using ht' y hy

/-- **general words**: `w` any pin word of the language, `u` any string not starting with a
    direction letter -/
theorem general_some (w u : CW) (hw : inLang (toL w) = true)
    (hu : ∀ x, u.head? = some x → x ∉ Model.C15.DIRS) :
    contains (toL w) (toL u) = .ok true ↔
      ∃ gs : List (List CW), gs.flatten = Model.C15.factorPinword u ∧
        List.Forall₂ AccSome (Model.C15.factorPinword w) gs := by
  rcases shape_or_bad u hu with hsh | ⟨c', t', hf, hq, hnd, ht'⟩
  · have hS := strictFs_toL _ hsh
    have hQ : QuadLed (factor (toL u)) := by
      rw [factor_toL]
      intro f hf
      obtain ⟨q', es, rfl, h, _⟩ := hS f hf
      exact ⟨q', es, rfl, h⟩
    rw [contains_iff_good _ _ hw hQ, factor_toL]
    exact good_general AccSome (fun x g hs hne hx hg => (pointwise x hs hne hx g hg).2) w hw _ hsh
  · constructor
    · intro h; exact absurd h (contains_bad15 w u c' t' hf hq ht')
    · rintro ⟨gs, hgs, hall⟩
      exfalso
      have hfm : (c' :: t') ∈ gs.flatten := hgs ▸ hf
      obtain ⟨g, hg, hfg⟩ := List.mem_flatten.mp hfm
      obtain ⟨x, hx, m, hm, hacc⟩ := forall2_mem_right hall g hg
      obtain ⟨hs, hne, hxl⟩ := factor_facts w hw x hx
      have hA : Spec.C15.AStar m := by
        cases x with
        | nil => exact absurd rfl hne
        | cons c0 t0 =>
          obtain ⟨a, b, hc, hab⟩ := ctx_of_strict c0 t0 m hs hxl hm
          exact astar_of_ctx hc m hab
      have hgne : ∀ f ∈ g, f ≠ [] := fun f hf' =>
        C15Nfa.factor_ne_nil u f (hgs ▸ List.mem_flatten.mpr ⟨g, hg, hf'⟩)
      rw [nfa_regex_fs g hgne m] at hacc
      obtain ⟨v, hv, hvm⟩ := regexLang_letters _ m hacc (Model.C15.spToM (c' :: t'))
        (List.mem_map.mpr ⟨_, hfg, rfl⟩)
      have hq2 : Model.C15.QUADS.contains c' = false := by simpa using hq
      simp only [Model.C15.spToM, hq2, Bool.false_eq_true, if_false, List.mem_cons, List.not_mem_nil,
        or_false] at hv
      subst hv
      exact hnd (hA c' (hvm c' List.mem_cons_self))

theorem general_all (w u : CW) (hw : inLang (toL w) = true)
    (hu : ∀ x, u.head? = some x → x ∉ Model.C15.DIRS) :
    contains (toL w) (toL u) = .ok true ↔
      ∃ gs : List (List CW), gs.flatten = Model.C15.factorPinword u ∧
        List.Forall₂ AccAll (Model.C15.factorPinword w) gs := by
  constructor
  · intro h
    rcases shape_or_bad u hu with hsh | ⟨c', t', hf, hq, hnd, ht'⟩
    · have hS := strictFs_toL _ hsh
      have hQ : QuadLed (factor (toL u)) := by
        rw [factor_toL]
        intro f hf
        obtain ⟨q', es, rfl, h, _⟩ := hS f hf
        exact ⟨q', es, rfl, h⟩
      rw [contains_iff_good _ _ hw hQ, factor_toL] at h
      exact (good_general AccAll (fun x g hs hne hx hg => (pointwise x hs hne hx g hg).1) w hw _ hsh).mp h
    · exact absurd h (contains_bad15 w u c' t' hf hq ht')
  · rintro ⟨gs, hgs, hall⟩
    exact (general_some w u hw hu).mpr ⟨gs, hgs, hall.imp fun x g h => accAll_some x g h⟩

end C14C15
