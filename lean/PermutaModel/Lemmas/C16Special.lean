import PermutaModel.Model.C16
import PermutaModel.Lemmas.C04Orbit
import PermutaModel.Lemmas.C02Sub
import PermutaModel.Props.C01
/-!
Helpers for C16: the alternation / wedge tests of `pin_words.py` in terms of `Contains` and the
dihedral action, their set semantics and their invariance under the eight symmetries.
-/
open Model Model.C16

namespace C16L
open C04L

/-- containment in the dihedral image ⇔ containment -/
theorem contains_act_iff {σ π : NSeq} (hπ : IsPerm π) (hσ : IsPerm σ) (g : D8) :
    Contains (g.act σ) (g.act π) ↔ Contains σ π := by
  constructor
  · intro h
    have h' := contains_act_of (isPerm_act hπ g) (isPerm_act hσ g) g.inv h
    rwa [act_mul hσ, act_mul hπ, inv_mul, act_one, act_one] at h'
  · exact contains_act_of hπ hσ g

theorem contains_trans {σ τ π : NSeq} (h1 : Contains σ τ) (h2 : Contains τ π) : Contains σ π :=
  (C02L.SContains_iff_Contains σ π).mp
    (C02L.SContains_trans ((C02L.SContains_iff_Contains σ τ).mpr h1) ((C02L.SContains_iff_Contains τ π).mpr h2))

theorem contains_refl (σ : NSeq) : Contains σ σ :=
  (C02L.SContains_iff_Contains σ σ).mp (C02L.SContains_refl σ)

/-- `blockedBy sym B = false`: some basis element contains no element of `sym` -/
theorem blockedBy_false_iff (sym B : List NSeq) :
    blockedBy sym B = false ↔ ∃ x ∈ B, ∀ p ∈ sym, containsOne x p = false := by
  unfold blockedBy
  rw [← Bool.not_eq_true, List.all_eq_true]
  simp only [List.any_eq_true, not_forall, not_exists, not_and, Bool.not_eq_true]
  constructor
  · rintro ⟨x, hx, h⟩; exact ⟨x, hx, h⟩
  · rintro ⟨x, hx, h⟩; exact ⟨x, hx, h⟩

/-- the test of one table: for every symmetry some basis element avoids the whole image of the table -/
theorem hasFiniteFamily_iff (T B : List NSeq) (hT : ∀ p ∈ T, IsPerm p) (hB : ∀ x ∈ B, IsPerm x) :
    hasFiniteFamily T B = true ↔ ∀ g : D8, ∃ x ∈ B, ∀ p ∈ T, ¬ Contains x (g.act p) := by
  unfold hasFiniteFamily symSets
  rw [Bool.not_eq_true', List.any_eq_false]
  constructor
  · intro h g
    have hmem : sortPerms (T.map g.act) ∈ allSymmetrySetsList T :=
      (mem_allSymmetrySetsList hT _).mpr ⟨g, rfl⟩
    have hb := h _ hmem
    rw [Bool.not_eq_true, blockedBy_false_iff] at hb
    obtain ⟨x, hx, hall⟩ := hb
    refine ⟨x, hx, fun p hp hc => ?_⟩
    have hp' : g.act p ∈ sortPerms (T.map g.act) := by
      unfold sortPerms; rw [List.mem_mergeSort]; exact List.mem_map_of_mem hp
    have := hall _ hp'
    rw [← Bool.not_eq_true, C01.containsOne_iff x (g.act p) (isPerm_act (hT p hp) g) (hB x hx)] at this
    exact this hc
  · intro h sym hsym
    obtain ⟨g, rfl⟩ := (mem_allSymmetrySetsList hT sym).mp hsym
    rw [Bool.not_eq_true, blockedBy_false_iff]
    obtain ⟨x, hx, hall⟩ := h g
    refine ⟨x, hx, fun q hq => ?_⟩
    unfold sortPerms at hq
    rw [List.mem_mergeSort] at hq
    obtain ⟨p, hp, rfl⟩ := List.mem_map.mp hq
    rw [← Bool.not_eq_true, C01.containsOne_iff x (g.act p) (isPerm_act (hT p hp) g) (hB x hx)]
    exact hall p hp

/-- set semantics: only membership in the basis matters -/
theorem blockedBy_congr (sym B B' : List NSeq) (h : ∀ p, p ∈ B ↔ p ∈ B') : blockedBy sym B = blockedBy sym B' := by
  unfold blockedBy
  rw [Bool.eq_iff_iff, List.all_eq_true, List.all_eq_true]
  constructor
  · intro h1 x hx; exact h1 x ((h x).mpr hx)
  · intro h1 x hx; exact h1 x ((h x).mp hx)

theorem hasFiniteFamily_congr (T B B' : List NSeq) (h : ∀ p, p ∈ B ↔ p ∈ B') :
    hasFiniteFamily T B = hasFiniteFamily T B' := by
  unfold hasFiniteFamily
  congr 2
  funext sym
  exact blockedBy_congr sym B B' h

/-- invariance under the eight symmetries -/
theorem hasFiniteFamily_act (T B : List NSeq) (hT : ∀ p ∈ T, IsPerm p) (hB : ∀ x ∈ B, IsPerm x) (g : D8) :
    hasFiniteFamily T (B.map g.act) = hasFiniteFamily T B := by
  have hB' : ∀ x ∈ B.map g.act, IsPerm x := by
    intro x hx
    obtain ⟨y, hy, rfl⟩ := List.mem_map.mp hx
    exact isPerm_act (hB y hy) g
  rw [Bool.eq_iff_iff, hasFiniteFamily_iff T _ hT hB', hasFiniteFamily_iff T B hT hB]
  constructor
  · intro h k
    obtain ⟨x, hx, hall⟩ := h (g.mul k)
    obtain ⟨y, hy, rfl⟩ := List.mem_map.mp hx
    refine ⟨y, hy, fun p hp hc => hall p hp ?_⟩
    have := (contains_act_iff (isPerm_act (hT p hp) k) (hB y hy) g).mpr hc
    rwa [act_mul (hT p hp)] at this
  · intro h k
    obtain ⟨y, hy, hall⟩ := h (g.inv.mul k)
    refine ⟨g.act y, List.mem_map_of_mem hy, fun p hp hc => hall p hp ?_⟩
    have h1 := contains_act_of (isPerm_act (hT p hp) k) (isPerm_act (hB y hy) g) g.inv hc
    rwa [act_mul (hB y hy), inv_mul, act_one, act_mul (hT p hp)] at h1

/-- `Av(g·T) ⊆ Av(B)` ⇔ every basis element contains an element of `g·T` -/
theorem subclass_iff_blocked (S B : List NSeq) (hB : ∀ x ∈ B, IsPerm x) :
    (∀ σ, IsPerm σ → (∀ p ∈ S, ¬ Contains σ p) → ∀ x ∈ B, ¬ Contains σ x) ↔
      ∀ x ∈ B, ∃ p ∈ S, Contains x p := by
  constructor
  · intro h x hx
    by_contra hne
    simp only [not_exists, not_and] at hne
    exact h x (hB x hx) hne x hx (contains_refl x)
  · intro h σ _ hav x hx hc
    obtain ⟨p, hp, hxp⟩ := h x hx
    exact hav p hp (contains_trans hc hxp)

theorem tables_perm : (∀ p ∈ Generated.c16_altBasis, IsPerm p) ∧ (∀ p ∈ Generated.c16_wedge1, IsPerm p) ∧
    (∀ p ∈ Generated.c16_wedge2, IsPerm p) := by
  decide

end C16L
