import PermutaModel.Model.C07

/-! Schedule induction for the C07 small-step machine, generic in the sequential theory:
    `SeqOK spec Good` is exactly what C02 has to provide about `ensureTrace`. -/
namespace C07L
open Model.C02 Model.C07

/-- every visible level has the specification's keys (up to order) -/
def VisibleOK (spec : Nat → List NSeq) (o : AvObj) : Prop :=
  ∀ i, i < o.cache.length → ((o.cache.getD i []).keys).Perm (spec i)

/-- what the sequential theory must provide about `_ensure_level` started in a good state -/
structure SeqOK (spec : Nat → List NSeq) (Good : AvObj → Prop) : Prop where
  visible : ∀ o, Good o → VisibleOK spec o
  total : ∀ o n, Good o → ∃ tr, ensureTrace o n = .ok tr
  inter : ∀ o n tr, Good o → ensureTrace o n = .ok tr →
    ∀ w ∈ tr, VisibleOK spec w ∧ o.cache.length ≤ w.cache.length
  final : ∀ o n tr, Good o → ensureTrace o n = .ok tr →
    Good ((o :: tr).getLast (by simp)) ∧ n < ((o :: tr).getLast (by simp)).cache.length
  /-- no write of `_ensure_level` ever shortens the cache (needed for the lock-free fast path: a level
      that a reader has seen to exist still exists when it is read) -/
  mono : ∀ o n pre w post, Good o → ensureTrace o n = .ok (pre ++ w :: post) →
    ((o :: pre).getLast (by simp)).cache.length ≤ w.cache.length

/-- per-thread part of the invariant, relative to the last lock-free state `base` -/
def ThreadOK (spec : Nat → List NSeq) (base : AvObj) (s : Sys) (tid : Nat) (t : Thread) : Prop :=
  (match t.phase with
    | .idle => True
    | .waiting _ => True
    | .holding n plan => s.lock = some tid ∧
        ∃ done, ensureTrace base n = .ok (done ++ plan) ∧ s.obj = (base :: done).getLast (by simp)
    | .reading n => n < s.obj.cache.length
    | .failed _ => False) ∧
  ∀ g ∈ t.got, g.2.Perm (spec g.1)

structure Inv (spec : Nat → List NSeq) (Good : AvObj → Prop) (base : AvObj) (s : Sys) : Prop where
  good : Good base
  len : base.cache.length ≤ s.obj.cache.length
  vis : VisibleOK spec s.obj
  free : s.lock = none → s.obj = base
  thr : ∀ tid t, s.threads[tid]? = some t → ThreadOK spec base s tid t

theorem getElem?_setThread (s : Sys) (tid : Nat) (t : Thread) (j : Nat) :
    (s.setThread tid t).threads[j]? = if tid = j ∧ tid < s.threads.length then some t else s.threads[j]? := by
  unfold Sys.setThread
  simp only [List.getElem?_set]
  by_cases h : tid = j
  · subst h
    by_cases hl : tid < s.threads.length <;> simp [hl]
  · simp [h]

theorem getLast_snoc' {α} (b : α) (d : List α) (w : α) (h : b :: (d ++ [w]) ≠ []) :
    (b :: (d ++ [w])).getLast h = w := by
  rw [List.getLast_cons (by simp)]
  simp

theorem lt_of_getElem? {α} {l : List α} {i : Nat} {x : α} (h : l[i]? = some x) : i < l.length := by
  obtain ⟨h', _⟩ := List.getElem?_eq_some_iff.mp h
  exact h'

/-- a thread other than `tid` that satisfies `ThreadOK` and is not holding keeps it when only
    thread `tid`'s record, the lock and the object change in ways that do not concern it
    (the cache does not get shorter) -/
theorem threadOK_other {spec base} {s s' : Sys} {j : Nat} {t : Thread}
    (h : ThreadOK spec base s j t) (hnh : ∀ n plan, t.phase ≠ .holding n plan)
    (hlen : s.obj.cache.length ≤ s'.obj.cache.length) :
    ThreadOK spec base s' j t := by
  unfold ThreadOK at *
  refine ⟨?_, h.2⟩
  cases hp : t.phase with
  | idle => trivial
  | waiting n => trivial
  | holding n plan => exact absurd hp (hnh n plan)
  | reading n => have := h.1; rw [hp] at this; exact Nat.lt_of_lt_of_le this hlen
  | failed e => have := h.1; rw [hp] at this; exact this

/-- a step that only replaces thread `tid`'s record by one that is idle / waiting / reading an existing
    level, without touching the object or the lock, preserves the invariant -/
theorem setThread_inv {spec Good} {base : AvObj} {s : Sys} (hi : Inv spec Good base s) {tid : Nat}
    {t' : Thread} (hT' : ThreadOK spec base (s.setThread tid t') tid t') :
    Inv spec Good base (s.setThread tid t') := by
  refine ⟨hi.good, by simpa [Sys.setThread] using hi.len, by simpa [Sys.setThread] using hi.vis,
    fun h => hi.free (by simpa [Sys.setThread] using h), ?_⟩
  intro j tj hj
  rw [getElem?_setThread] at hj
  by_cases hjt : tid = j ∧ tid < s.threads.length
  · rw [if_pos hjt] at hj
    cases hj
    obtain ⟨rfl, _⟩ := hjt
    exact hT'
  · rw [if_neg hjt] at hj
    have hTj := hi.thr j tj hj
    unfold ThreadOK at hTj ⊢
    refine ⟨?_, hTj.2⟩
    cases hpj : tj.phase with
    | idle => trivial
    | waiting n' => trivial
    | holding n' plan' =>
      have := hTj.1; rw [hpj] at this
      simpa [Sys.setThread] using this
    | reading n' => have := hTj.1; rw [hpj] at this; exact this
    | failed e => have := hTj.1; rw [hpj] at this; exact this

/-- entering `with LOCK: _ensure_level(n)` preserves the invariant (whatever the thread was doing before,
    as long as its answers so far are right) -/
theorem tryAcquire_inv {spec Good} (hs : SeqOK spec Good) {base : AvObj} {s : Sys} (hi : Inv spec Good base s)
    {tid : Nat} {t : Thread} (htid : s.threads[tid]? = some t) (n : Nat) (rest : List Nat) :
    Inv spec Good base (tryAcquire s tid t n rest) := by
  have hT := hi.thr tid t htid
  unfold tryAcquire
  cases hl : s.lock with
  | some h => simpa using hi
  | none =>
    simp only []
    have hob := hi.free hl
    obtain ⟨tr, htr⟩ := hs.total base n hi.good
    have htr' : ensureTrace s.obj n = .ok tr := hob ▸ htr
    rw [htr']
    refine ⟨hi.good, ?_, ?_, ?_, ?_⟩
    · simpa [Sys.setThread] using hi.len
    · simpa [Sys.setThread] using hi.vis
    · intro h; simp [Sys.setThread] at h
    · intro j tj hj
      rw [getElem?_setThread] at hj
      by_cases hjt : tid = j ∧ tid < ({ s with lock := some tid } : Sys).threads.length
      · rw [if_pos hjt] at hj
        cases hj
        obtain ⟨rfl, _⟩ := hjt
        unfold ThreadOK
        exact ⟨⟨rfl, [], by simpa using htr, by simpa [Sys.setThread] using hob⟩, hT.2⟩
      · rw [if_neg hjt] at hj
        have hTj := hi.thr j tj hj
        apply threadOK_other hTj
        · intro n' plan' hph
          have := hTj.1; rw [hph] at this
          rw [hl] at this; exact absurd this.1 (by simp)
        · simp [Sys.setThread]

/-- **one step preserves the invariant** (possibly moving to a new base at release), for every lock
    discipline whose lock-free test implies that the level exists -/
theorem step_inv {spec Good} (hs : SeqOK spec Good) {d : Disc} (hd : d.OK) {base : AvObj} {s : Sys}
    (hi : Inv spec Good base s) (tid : Nat) : ∃ base', Inv spec Good base' (step d s tid) := by
  unfold step
  cases htid : s.threads[tid]? with
  | none => exact ⟨base, by simpa using hi⟩
  | some t =>
    have hlt := lt_of_getElem? htid
    have hT := hi.thr tid t htid
    simp only []
    cases hp : t.phase with
    | failed e => exact ⟨base, by simpa using hi⟩
    | idle =>
      simp only []
      cases htd : t.todo with
      | nil => exact ⟨base, by simpa using hi⟩
      | cons n rest =>
        simp only []
        cases hf : d.fast with
        | false => exact ⟨base, tryAcquire_inv hs hi htid n rest⟩
        | true =>
          simp only []
          cases hg : d.guard n s.obj.cache.length with
          | true =>
            refine ⟨base, setThread_inv hi ?_⟩
            exact ⟨by simpa [Sys.setThread] using hd n _ hg, hT.2⟩
          | false =>
            exact ⟨base, setThread_inv hi ⟨trivial, hT.2⟩⟩
    | waiting n => exact ⟨base, tryAcquire_inv hs hi htid n t.todo⟩
    | holding n plan =>
      have hH := hT.1; rw [hp] at hH
      obtain ⟨hlock, done, htr, hobj⟩ := hH
      cases plan with
      | cons w ws =>
        simp only []
        have hw : w ∈ done ++ w :: ws := by simp
        have hwv := hs.inter base n _ hi.good htr w hw
        have hmono : s.obj.cache.length ≤ w.cache.length := by
          rw [hobj]; exact hs.mono base n done w ws hi.good htr
        refine ⟨base, ⟨hi.good, ?_, ?_, ?_, ?_⟩⟩
        · simpa [Sys.setThread] using hwv.2
        · simpa [Sys.setThread] using hwv.1
        · intro h; simp [Sys.setThread, hlock] at h
        · intro j tj hj
          rw [getElem?_setThread] at hj
          by_cases hjt : tid = j ∧ tid < ({ s with obj := w } : Sys).threads.length
          · rw [if_pos hjt] at hj
            cases hj
            obtain ⟨rfl, _⟩ := hjt
            unfold ThreadOK
            exact ⟨⟨by simpa [Sys.setThread] using hlock, done ++ [w], by simpa using htr,
              by simp only [Sys.setThread]; exact (getLast_snoc' base done w _).symm⟩, hT.2⟩
          · rw [if_neg hjt] at hj
            have hTj := hi.thr j tj hj
            apply threadOK_other hTj
            · intro n' plan' hph
              have := hTj.1; rw [hph] at this
              have hEq : some j = some tid := this.1.symm.trans hlock
              have : j = tid := Option.some.inj hEq
              subst this
              exact hjt ⟨rfl, by simpa using hlt⟩
            · simpa [Sys.setThread] using hmono
      | nil =>
        simp only []
        -- release: the object is the final state of the trace, which becomes the new base
        have hfin := hs.final base n _ hi.good htr
        have hobj' : s.obj = (base :: (done ++ [])).getLast (by simp) := by simpa using hobj
        rw [← hobj'] at hfin
        refine ⟨s.obj, ⟨hfin.1, ?_, ?_, ?_, ?_⟩⟩
        · simp [Sys.setThread]
        · simpa [Sys.setThread] using hi.vis
        · intro _; simp [Sys.setThread]
        · intro j tj hj
          rw [getElem?_setThread] at hj
          by_cases hjt : tid = j ∧ tid < ({ s with lock := none } : Sys).threads.length
          · rw [if_pos hjt] at hj
            cases hj
            obtain ⟨rfl, _⟩ := hjt
            exact ⟨by simpa [Sys.setThread] using hfin.2, hT.2⟩
          · rw [if_neg hjt] at hj
            have hTj := hi.thr j tj hj
            unfold ThreadOK at hTj ⊢
            refine ⟨?_, hTj.2⟩
            cases hpj : tj.phase with
            | idle => trivial
            | waiting n' => trivial
            | holding n' plan' =>
              have := hTj.1; rw [hpj] at this
              have hEq : some j = some tid := this.1.symm.trans hlock
              have : j = tid := Option.some.inj hEq
              subst this
              exact absurd ⟨rfl, by simpa using hlt⟩ hjt
            | reading n' =>
              have := hTj.1; rw [hpj] at this
              simpa [Sys.setThread] using this
            | failed e => have := hTj.1; rw [hpj] at this; exact this
    | reading n =>
      simp only []
      have hR := hT.1; rw [hp] at hR
      refine ⟨base, setThread_inv hi ⟨trivial, ?_⟩⟩
      intro g hg
      rcases List.mem_append.mp hg with hg | hg
      · exact hT.2 g hg
      · simp only [List.mem_singleton] at hg
        subst hg
        exact hi.vis n hR

theorem run_inv {spec Good} (hs : SeqOK spec Good) {d : Disc} (hd : d.OK) (sched : List Nat) :
    ∀ {base : AvObj} {s : Sys}, Inv spec Good base s → ∃ base', Inv spec Good base' (run d s sched) := by
  induction sched with
  | nil => intro base s hi; exact ⟨base, hi⟩
  | cons t ts ih =>
    intro base s hi
    obtain ⟨b', hi'⟩ := step_inv hs hd hi t
    simpa [run] using ih hi'

theorem init_inv {spec Good} (hs : SeqOK spec Good) (o : AvObj) (ho : Good o) (todos : List (List Nat)) :
    Inv spec Good o (initSys o todos) := by
  refine ⟨ho, Nat.le_refl _, hs.visible o ho, fun _ => rfl, ?_⟩
  intro tid t ht
  simp only [initSys, List.getElem?_map] at ht
  cases hq : todos[tid]? with
  | none => simp [hq] at ht
  | some td =>
    simp [hq] at ht
    subst ht
    exact ⟨trivial, by simp⟩

/-- **the shared cache never gets shorter**, whatever step is taken in a state satisfying the invariant -/
theorem step_len_mono {spec Good} (hs : SeqOK spec Good) (d : Disc) {base : AvObj} {s : Sys}
    (hi : Inv spec Good base s) (tid : Nat) : s.obj.cache.length ≤ (step d s tid).obj.cache.length := by
  have htry : ∀ t n rest, s.obj.cache.length ≤ (tryAcquire s tid t n rest).obj.cache.length := by
    intro t n rest
    unfold tryAcquire
    cases s.lock with
    | some h => exact Nat.le_refl _
    | none =>
      simp only []
      cases ensureTrace s.obj n with
      | error e => simp [Sys.setThread]
      | ok plan => simp [Sys.setThread]
  unfold step
  cases htid : s.threads[tid]? with
  | none => exact Nat.le_refl _
  | some t =>
    have hT := hi.thr tid t htid
    simp only []
    cases hp : t.phase with
    | failed e => exact Nat.le_refl _
    | idle =>
      simp only []
      cases htd : t.todo with
      | nil => exact Nat.le_refl _
      | cons n rest =>
        simp only []
        cases hf : d.fast with
        | false => exact htry t n rest
        | true =>
          simp only []
          cases hg : d.guard n s.obj.cache.length <;> simp [Sys.setThread]
    | waiting n => exact htry t n t.todo
    | holding n plan =>
      have hH := hT.1; rw [hp] at hH
      obtain ⟨_, done, htr, hobj⟩ := hH
      cases plan with
      | cons w ws =>
        simp only [Sys.setThread]
        rw [hobj]; exact hs.mono base n done w ws hi.good htr
      | nil => simp [Sys.setThread]
    | reading n => simp [Sys.setThread]

theorem run_len_mono {spec Good} (hs : SeqOK spec Good) {d : Disc} (hd : d.OK) (sched : List Nat) :
    ∀ {base : AvObj} {s : Sys}, Inv spec Good base s → s.obj.cache.length ≤ (run d s sched).obj.cache.length := by
  induction sched with
  | nil => intro base s _; exact Nat.le_refl _
  | cons t ts ih =>
    intro base s hi
    obtain ⟨b', hi'⟩ := step_inv hs hd hi t
    exact Nat.le_trans (step_len_mono hs d hi t) (by simpa [run] using ih hi')

end C07L
