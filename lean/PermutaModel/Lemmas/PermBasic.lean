import PermutaModel.Spec.Basic
import Mathlib.Data.List.Nodup
import Mathlib.Data.Finset.Card
import Mathlib.Data.Finset.Range

/-! `IsPerm` gives injectivity, boundedness and surjectivity of `getD`. -/

theorem IsPerm.getD_lt {p : NSeq} (h : IsPerm p) {a : Nat} (ha : a < p.length) : p.getD a 0 < p.length := by
  apply h.2
  rw [List.getD_eq_getElem?_getD, List.getElem?_eq_getElem ha]
  exact List.getElem_mem ha

theorem IsPerm.getD_inj {p : NSeq} (h : IsPerm p) {a b : Nat} (ha : a < p.length) (hb : b < p.length)
    (hab : p.getD a 0 = p.getD b 0) : a = b := by
  rw [List.getD_eq_getElem?_getD, List.getD_eq_getElem?_getD, List.getElem?_eq_getElem ha,
    List.getElem?_eq_getElem hb] at hab
  simp only [Option.getD_some] at hab
  exact (List.Nodup.getElem_inj_iff h.1).mp hab

theorem IsPerm.surj {p : NSeq} (h : IsPerm p) {v : Nat} (hv : v < p.length) :
    ∃ a, a < p.length ∧ p.getD a 0 = v := by
  have hsub : p.toFinset ⊆ Finset.range p.length := by
    intro x hx
    simp only [List.mem_toFinset] at hx
    simp only [Finset.mem_range]; exact h.2 x hx
  have hcard : p.toFinset.card = p.length := List.toFinset_card_of_nodup h.1
  have heq : p.toFinset = Finset.range p.length :=
    Finset.eq_of_subset_of_card_le hsub (by simp [hcard])
  have hmem : v ∈ p.toFinset := by rw [heq]; simpa using hv
  simp only [List.mem_toFinset] at hmem
  obtain ⟨a, ha, rfl⟩ := List.getElem_of_mem hmem
  exact ⟨a, ha, by simp [List.getD_eq_getElem?_getD, List.getElem?_eq_getElem ha]⟩
