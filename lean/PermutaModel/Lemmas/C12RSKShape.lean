import PermutaModel.Lemmas.C12RSKSchensted
/-! C12 / RSK, part 4: the shape of `_perm_to_yt` and the two shape predicates of the source.

With `a` = first row = LIS, `d` = number of rows = LDS and `n = |σ|`: every lower row has between `1`
and `a` cells, so `a + d - 1 ≤ n ≤ a·d`, and the left equality holds iff the second row has at most one
cell (the shape is a hook), which is what `yt_perm_avoids_22` tests. -/
open Model Spec List

namespace C12

theorem getD_zero_eq_headD (T : List (List Nat)) : T.getD 0 [] = T.headD [] := by
  cases T <;> rfl

theorem permToYt_row0 (σ : List Nat) : (permToYt σ).getD 0 [] = rowOf σ := by
  rw [permToYt_eq, getD_zero_eq_headD, tabIns_headD]

theorem permToYt_row1 (σ : List Nat) : (permToYt σ).getD 1 [] = rowOf (bumpsOf σ) := by
  rw [permToYt_eq]
  by_cases h : σ = []
  · subst h; rfl
  · rw [tabIns_rec σ h, List.getD_cons_succ, getD_zero_eq_headD, tabIns_headD]

/-- `_tableau_contains_shape(tab, [p, q])` with `q ≥ 1` -/
theorem containsShape_two (T : List (List Nat)) (p q : Nat) (hq : 1 ≤ q) :
    tableauContainsShape T [p, q] = true ↔ p ≤ (T.getD 0 []).length ∧ q ≤ (T.getD 1 []).length := by
  unfold tableauContainsShape
  match T with
  | [] => simp; omega
  | [r0] => simp; omega
  | r0 :: r1 :: t => simp

/-- the counting facts about the shape of a non-empty duplicate-free word -/
theorem shape_counts (σ : List Nat) (hnd : σ.Nodup) (hne : σ ≠ []) :
    (rowOf σ).length + (tabIns [] σ).length ≤ σ.length + 1 ∧
    σ.length ≤ (rowOf σ).length * (tabIns [] σ).length ∧
    (σ.length + 1 = (rowOf σ).length + (tabIns [] σ).length ↔ (rowOf (bumpsOf σ)).length ≤ 1) := by
  have hok := tabOK_tabIns σ.length σ (Nat.le_refl _) hnd
  rw [tabIns_rec σ hne] at hok ⊢
  have hok' : TabOK (tabIns [] (bumpsOf σ)) := hok.tail
  have hfl := (tabIns_flatten_perm _ (bumpsOf σ) (Nat.le_refl _)).length_eq
  have hlen := rowOf_bumpsOf_length σ
  obtain ⟨h1, h2, h3⟩ := lower_rows_count (tabIns [] (bumpsOf σ)) (rowOf σ).length
    (fun r hr => hok'.row_ne_nil r hr) (fun r hr => hok.length_le_head r hr) hok'.lengths_antitone
  rw [tabIns_headD] at h3
  rw [hfl] at h1 h2 h3
  simp only [List.length_cons]
  refine ⟨by omega, ?_, ?_⟩
  · rw [Nat.mul_succ]; omega
  · rw [← h3]; omega

theorem row1_le_row0 (σ : List Nat) (hnd : σ.Nodup) : (rowOf (bumpsOf σ)).length ≤ (rowOf σ).length :=
  (dom_rowOf σ hnd).length_le

end C12
