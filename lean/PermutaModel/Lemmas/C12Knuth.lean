import PermutaModel.Lemmas.C12Devices
/-! C12: when does one pass sort?  List-level characterisations (Knuth for the stack, the analogue
    for the bubble sweep), by induction on the split at the maximum.  Core Lean only. -/
open Model Spec List

namespace C12

/-- `l` has entries `a … b … c` (in this order of positions) with `rel a b c` -/
def Has3 (rel : Nat → Nat → Nat → Prop) (l : List Nat) : Prop := ∃ a b c, [a, b, c] <+ l ∧ rel a b c

/-- an occurrence of 231: `c < a < b` -/
def Has231 (l : List Nat) : Prop := Has3 (fun a b c => c < a ∧ a < b) l
/-- an occurrence of 231 or 321 (for distinct entries): the last entry is below both others -/
def HasLow3 (l : List Nat) : Prop := Has3 (fun a b c => c < a ∧ c < b) l

theorem Has3.mono {rel} {l l' : List Nat} (h : l <+ l') : Has3 rel l → Has3 rel l' := by
  rintro ⟨a, b, c, hs, hr⟩; exact ⟨a, b, c, hs.trans h, hr⟩

theorem sub3_append {a b c : Nat} {X Y : List Nat} (h : [a, b, c] <+ X ++ Y) :
    [a, b, c] <+ X ∨ ([a, b] <+ X ∧ c ∈ Y) ∨ (a ∈ X ∧ [b, c] <+ Y) ∨ [a, b, c] <+ Y := by
  obtain ⟨l1, l2, e, h1, h2⟩ := sublist_append_iff.mp h
  match l1, e, h1 with
  | [], e, _ => simp at e; subst e; exact Or.inr (Or.inr (Or.inr h2))
  | [x], e, h1 =>
    simp at e; obtain ⟨rfl, rfl⟩ := e
    exact Or.inr (Or.inr (Or.inl ⟨singleton_sublist.mp h1, h2⟩))
  | [x, y], e, h1 =>
    simp at e; obtain ⟨rfl, rfl, rfl⟩ := e
    exact Or.inr (Or.inl ⟨h1, singleton_sublist.mp h2⟩)
  | [x, y, z], e, h1 =>
    simp at e; obtain ⟨rfl, rfl, rfl, rfl⟩ := e
    exact Or.inl h1
  | x :: y :: z :: w :: t, e, _ =>
    have := congrArg List.length e
    simp at this

theorem sub2_cons {b c m : Nat} {R : List Nat} (h : [b, c] <+ m :: R) : c ∈ R := by
  rcases sublist_cons_iff.mp h with h | ⟨r, e, h⟩
  · exact h.subset (by simp)
  · simp at e; obtain ⟨_, rfl⟩ := e; exact singleton_sublist.mp h

theorem sub2_mem {b c : Nat} {R : List Nat} (h : [b, c] <+ R) : b ∈ R ∧ c ∈ R :=
  ⟨h.subset (by simp), h.subset (by simp)⟩

/-- a sorted concatenation `SL ++ SR ++ [m]` where `SL`, `SR` rearrange `L`, `R` (all below `m`) -/
theorem sorted_split {SL SR L R : List Nat} {m : Nat} (pL : SL ~ L) (pR : SR ~ R)
    (hL : ∀ x ∈ L, x < m) (hR : ∀ x ∈ R, x < m) :
    (SL ++ SR ++ [m]).Pairwise (· < ·) ↔
      SL.Pairwise (· < ·) ∧ SR.Pairwise (· < ·) ∧ ∀ a ∈ L, ∀ b ∈ R, a < b := by
  rw [pairwise_append, pairwise_append]
  constructor
  · rintro ⟨⟨h1, h2, h3⟩, _, _⟩
    exact ⟨h1, h2, fun a ha b hb => h3 a (pL.mem_iff.mpr ha) b (pR.mem_iff.mpr hb)⟩
  · rintro ⟨h1, h2, h3⟩
    refine ⟨⟨h1, h2, fun a ha b hb => h3 a (pL.mem_iff.mp ha) b (pR.mem_iff.mp hb)⟩, by simp, ?_⟩
    intro a ha b hb
    simp only [mem_singleton] at hb; subst hb
    rcases mem_append.mp ha with ha | ha
    · exact hL a (pL.mem_iff.mp ha)
    · exact hR a (pR.mem_iff.mp ha)

/-- 231-avoidance across a strict maximum -/
theorem has231_split {L R : List Nat} {m : Nat} (hL : ∀ x ∈ L, x < m) (hR : ∀ x ∈ R, x < m)
    (hd : ∀ a ∈ L, ∀ b ∈ R, a ≠ b) :
    ¬ Has231 (L ++ m :: R) ↔ ¬ Has231 L ∧ ¬ Has231 R ∧ ∀ a ∈ L, ∀ b ∈ R, a < b := by
  constructor
  · intro h
    refine ⟨fun hl => h (hl.mono (sublist_append_left _ _)),
      fun hr => h (hr.mono ((sublist_cons_self _ _).trans (sublist_append_right _ _))), ?_⟩
    intro a ha b hb
    by_cases hab : a < b
    · exact hab
    · exfalso
      apply h
      refine ⟨a, m, b, ?_, ?_, hL a ha⟩
      · exact (singleton_sublist.mpr ha).append ((singleton_sublist.mpr hb).cons_cons m)
      · have := hd a ha b hb; omega
  · rintro ⟨h1, h2, h3⟩ ⟨a, b, c, hs, hca, hab⟩
    rcases sub3_append hs with h | ⟨h, hc⟩ | ⟨ha, h⟩ | h
    · exact h1 ⟨a, b, c, h, hca, hab⟩
    · have ha : a ∈ L := (sub2_mem h).1
      rcases mem_cons.mp hc with rfl | hc
      · have := hL a ha; omega
      · have := h3 a ha c hc; omega
    · have hc := sub2_cons h
      have := h3 a ha c hc; omega
    · rcases sublist_cons_iff.mp h with h | ⟨r, e, h⟩
      · exact h2 ⟨a, b, c, h, hca, hab⟩
      · simp at e; obtain ⟨rfl, rfl⟩ := e
        have := hR b (sub2_mem h).1; omega

theorem stackSort_perm (l : List Nat) : stackSort l ~ l := by
  induction hn : l.length using Nat.strongRecOn generalizing l with
  | _ n ih =>
    subst hn
    match l, ih with
    | [], _ => simp [stackSort_nil]
    | [x], _ => simp [stackSort_single]
    | x :: y :: t, ih =>
      have hne : (x :: y :: t) ≠ [] := by simp
      obtain ⟨hd, _, _⟩ := maxPos_spec (x :: y :: t) hne
      have hlt := maxPos_lt (x :: y :: t) hne
      rw [stackSort_step _ (by simp)]
      have p1 := ih _ (by simp only [length_take]; omega) (take (maxPos (x :: y :: t)).1 (x :: y :: t)) rfl
      have p2 := ih _ (by simp only [length_drop]; omega) (drop ((maxPos (x :: y :: t)).1 + 1) (x :: y :: t)) rfl
      conv => rhs; rw [hd]
      rw [append_assoc]
      exact p1.append (perm_append_singleton _ _ |>.trans (p2.cons _))

/-- list-level Knuth: one pass through a stack sorts a duplicate-free list iff it has no 231 -/
theorem stackSort_sorted_iff (l : List Nat) (hnd : l.Nodup) :
    (stackSort l).Pairwise (· < ·) ↔ ¬ Has231 l := by
  induction hn : l.length using Nat.strongRecOn generalizing l with
  | _ n ih =>
    subst hn
    match l, ih, hnd with
    | [], _, _ =>
      simp only [stackSort_nil, Pairwise.nil, true_iff]
      rintro ⟨a, b, c, h, _⟩; simp at h
    | [x], _, _ =>
      simp only [stackSort_single, pairwise_singleton, true_iff]
      rintro ⟨a, b, c, h, _⟩
      have := h.length_le; simp at this
    | x :: y :: t, ih, hnd =>
      have hne : (x :: y :: t) ≠ [] := by simp
      obtain ⟨hd, hL, hR⟩ := maxPos_spec (x :: y :: t) hne
      have hlt := maxPos_lt (x :: y :: t) hne
      rw [stackSort_step _ (by simp)]
      generalize hLdef : take (maxPos (x :: y :: t)).1 (x :: y :: t) = L at *
      generalize hRdef : drop ((maxPos (x :: y :: t)).1 + 1) (x :: y :: t) = R at *
      generalize (maxPos (x :: y :: t)).2 = m at *
      have hlenL : L.length < (x :: y :: t).length := by rw [← hLdef, length_take]; omega
      have hlenR : R.length < (x :: y :: t).length := by rw [← hRdef, length_drop]; omega
      rw [hd] at hnd ⊢
      have hndL : L.Nodup := (nodup_append.mp hnd).1
      have hndR : R.Nodup := (nodup_cons.mp (nodup_append.mp hnd).2.1).2
      have hmR : m ∉ R := (nodup_cons.mp (nodup_append.mp hnd).2.1).1
      have hdisj : ∀ a ∈ L, ∀ b ∈ R, a ≠ b := fun a ha b hb =>
        (nodup_append.mp hnd).2.2 a ha b (mem_cons_of_mem _ hb)
      have hR' : ∀ x ∈ R, x < m := by
        intro z hz
        have h1 := hR z hz
        have h2 : z ≠ m := fun e => hmR (e ▸ hz)
        omega
      rw [sorted_split (stackSort_perm L) (stackSort_perm R) hL hR', has231_split hL hR' hdisj,
        ih _ hlenL L hndL rfl, ih _ hlenR R hndR rfl]

/-! ### bubble -/

/-- {231, 321}-avoidance across a strict maximum -/
theorem hasLow3_split {L R : List Nat} {m : Nat} (hL : ∀ x ∈ L, x < m) (hR : ∀ x ∈ R, x < m)
    (hd : ∀ a ∈ L, ∀ b ∈ R, a ≠ b) (hndR : R.Nodup) :
    ¬ HasLow3 (L ++ m :: R) ↔ ¬ HasLow3 L ∧ R.Pairwise (· < ·) ∧ ∀ a ∈ L, ∀ b ∈ R, a < b := by
  constructor
  · intro h
    refine ⟨fun hl => h (hl.mono (sublist_append_left _ _)), ?_, ?_⟩
    · rw [pairwise_iff_forall_sublist]
      intro b c hbc
      by_cases hlt : b < c
      · exact hlt
      · exfalso
        apply h
        have hne : b ≠ c := by
          intro e; subst e
          have := hndR.sublist hbc
          simp at this
        refine ⟨m, b, c, (hbc.cons_cons m).trans (sublist_append_right _ _), ?_, by omega⟩
        have := hR c (sub2_mem hbc).2; omega
    · intro a ha b hb
      by_cases hab : a < b
      · exact hab
      · exfalso
        apply h
        refine ⟨a, m, b, ?_, ?_, hR b hb⟩
        · exact (singleton_sublist.mpr ha).append ((singleton_sublist.mpr hb).cons_cons m)
        · have := hd a ha b hb; omega
  · rintro ⟨h1, h2, h3⟩ ⟨a, b, c, hs, hca, hcb⟩
    rw [pairwise_iff_forall_sublist] at h2
    rcases sub3_append hs with h | ⟨h, hc⟩ | ⟨ha, h⟩ | h
    · exact h1 ⟨a, b, c, h, hca, hcb⟩
    · have ha : a ∈ L := (sub2_mem h).1
      rcases mem_cons.mp hc with rfl | hc
      · have := hL a ha; omega
      · have := h3 a ha c hc; omega
    · have hc := sub2_cons h
      have := h3 a ha c hc; omega
    · rcases sublist_cons_iff.mp h with h | ⟨r, e, h⟩
      · have : [b, c] <+ R := (sublist_cons_self a _).trans h
        have := h2 this; omega
      · simp at e; obtain ⟨rfl, rfl⟩ := e
        have := h2 h; omega

theorem bubbleSort_perm (l : List Nat) : bubbleSort l ~ l := by
  induction hn : l.length using Nat.strongRecOn generalizing l with
  | _ n ih =>
    subst hn
    match l, ih with
    | [], _ => simp [bubbleSort_nil]
    | [x], _ => simp [bubbleSort_single]
    | x :: y :: t, ih =>
      have hne : (x :: y :: t) ≠ [] := by simp
      obtain ⟨hd, _, _⟩ := maxPos_spec (x :: y :: t) hne
      have hlt := maxPos_lt (x :: y :: t) hne
      rw [bubbleSort_step _ (by simp)]
      have p1 := ih _ (by simp only [length_take]; omega) (take (maxPos (x :: y :: t)).1 (x :: y :: t)) rfl
      conv => rhs; rw [hd]
      rw [append_assoc]
      exact p1.append (perm_append_singleton _ _)

/-- one bubble sweep sorts a duplicate-free list iff no entry has two larger entries before it -/
theorem bubbleSort_sorted_iff (l : List Nat) (hnd : l.Nodup) :
    (bubbleSort l).Pairwise (· < ·) ↔ ¬ HasLow3 l := by
  induction hn : l.length using Nat.strongRecOn generalizing l with
  | _ n ih =>
    subst hn
    match l, ih, hnd with
    | [], _, _ =>
      simp only [bubbleSort_nil, Pairwise.nil, true_iff]
      rintro ⟨a, b, c, h, _⟩; simp at h
    | [x], _, _ =>
      simp only [bubbleSort_single, pairwise_singleton, true_iff]
      rintro ⟨a, b, c, h, _⟩
      have := h.length_le; simp at this
    | x :: y :: t, ih, hnd =>
      have hne : (x :: y :: t) ≠ [] := by simp
      obtain ⟨hd, hL, hR⟩ := maxPos_spec (x :: y :: t) hne
      have hlt := maxPos_lt (x :: y :: t) hne
      rw [bubbleSort_step _ (by simp)]
      generalize hLdef : take (maxPos (x :: y :: t)).1 (x :: y :: t) = L at *
      generalize hRdef : drop ((maxPos (x :: y :: t)).1 + 1) (x :: y :: t) = R at *
      generalize (maxPos (x :: y :: t)).2 = m at *
      have hlenL : L.length < (x :: y :: t).length := by rw [← hLdef, length_take]; omega
      rw [hd] at hnd ⊢
      have hndL : L.Nodup := (nodup_append.mp hnd).1
      have hndR : R.Nodup := (nodup_cons.mp (nodup_append.mp hnd).2.1).2
      have hmR : m ∉ R := (nodup_cons.mp (nodup_append.mp hnd).2.1).1
      have hdisj : ∀ a ∈ L, ∀ b ∈ R, a ≠ b := fun a ha b hb =>
        (nodup_append.mp hnd).2.2 a ha b (mem_cons_of_mem _ hb)
      have hR' : ∀ x ∈ R, x < m := by
        intro z hz
        have h1 := hR z hz
        have h2 : z ≠ m := fun e => hmR (e ▸ hz)
        omega
      rw [sorted_split (bubbleSort_perm L) (Perm.refl R) hL hR', hasLow3_split hL hR' hdisj hndR,
        ih _ hlenL L hndL rfl]

end C12
