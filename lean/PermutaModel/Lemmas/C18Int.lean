import PermutaModel.Lemmas.C18Adj
import PermutaModel.Model.C18Int

/-! `can_simul_shade` on arbitrary integer positions (`Model/C18Int.lean`): a non-empty answer is only
    given for two cells of the grid (elsewhere `IndexError` or `[]`), and on cells of the grid the
    integer model is the model `canSimulShade` the soundness theorem is about. -/

namespace Spec.C18
open Model Model.C18 Proto

/-! ### pairs of positions through the rounds -/

/-- one round: swap, then rotate both positions (meshpatt.py:548-549, 556) -/
def stepI (n : Nat) (q : ICell × ICell) : ICell × ICell := (rotI n (swapI q).1, rotI n (swapI q).2)

/-- the pair of positions at the start of round `j` -/
def frameI (n : Nat) : Nat → ICell × ICell → ICell × ICell
  | 0, q => q
  | j + 1, q => frameI n j (stepI n q)

def GridI (n : Nat) (c : ICell) : Prop := 0 ≤ c.1 ∧ c.1 ≤ n ∧ 0 ≤ c.2 ∧ c.2 ≤ n

theorem inGridI_iff (n : Nat) (c : ICell) : inGridI n c = true ↔ GridI n c := by
  simp [inGridI, GridI, and_assoc]

/-- both positions are cells of the grid -/
def BothI (n : Nat) (q : ICell × ICell) : Prop := GridI n q.1 ∧ GridI n q.2
/-- same column, left of the grid -/
def NegX (q : ICell × ICell) : Prop := q.1.1 = q.2.1 ∧ q.1.1 < 0
/-- same column, right of the grid -/
def BigX (n : Nat) (q : ICell × ICell) : Prop := q.1.1 = q.2.1 ∧ (n : Int) < q.1.1

theorem bothI_swap (n : Nat) (q : ICell × ICell) : BothI n (swapI q) ↔ BothI n q := by
  unfold swapI BothI; split
  · exact And.comm
  · exact Iff.rfl

theorem negX_swap (q : ICell × ICell) : NegX (swapI q) ↔ NegX q := by
  unfold swapI NegX; split
  · simp only; constructor <;> rintro ⟨h1, h2⟩ <;> exact ⟨h1.symm, by omega⟩
  · exact Iff.rfl

theorem bigX_swap (n : Nat) (q : ICell × ICell) : BigX n (swapI q) ↔ BigX n q := by
  unfold swapI BigX; split
  · simp only; constructor <;> rintro ⟨h1, h2⟩ <;> exact ⟨h1.symm, by omega⟩
  · exact Iff.rfl

theorem bothI_step (n : Nat) (q : ICell × ICell) : BothI n (stepI n q) ↔ BothI n q := by
  rw [← bothI_swap n q]
  unfold stepI BothI GridI rotI
  simp only
  constructor <;> rintro ⟨⟨a, b, c, d⟩, e, f, g, h⟩ <;> refine ⟨⟨?_, ?_, ?_, ?_⟩, ?_, ?_, ?_, ?_⟩ <;> omega

theorem bothI_frame (n : Nat) : ∀ (j : Nat) (q : ICell × ICell), BothI n (frameI n j q) ↔ BothI n q
  | 0, _ => Iff.rfl
  | j + 1, q => by rw [frameI, bothI_frame n j, bothI_step]

/-- two rounds turn "left of the grid" into "right of the grid" … -/
theorem bigX_step2 (n : Nat) (q : ICell × ICell) : BigX n (stepI n (stepI n q)) ↔ NegX q := by
  unfold stepI swapI rotI BigX NegX
  simp only
  split <;> split <;> simp only <;> constructor <;> rintro ⟨h1, h2⟩ <;> constructor <;> omega

/-- … and vice versa -/
theorem negX_step2 (n : Nat) (q : ICell × ICell) : NegX (stepI n (stepI n q)) ↔ BigX n q := by
  unfold stepI swapI rotI BigX NegX
  simp only
  split <;> split <;> simp only <;> constructor <;> rintro ⟨h1, h2⟩ <;> constructor <;> omega

/-! ### one evaluation of the conditions -/

theorem swapI_le (q : ICell × ICell) : ¬ ((swapI q).1.2 < (swapI q).2.2) := by
  unfold swapI; split
  · next h => show ¬ (q.2.2 < q.1.2); omega
  · next h => exact h

theorem pyGet_ok {l : List Nat} {i : Int} {v : Nat} (h : pyGet l i = .ok v) :
    -(l.length : Int) ≤ i ∧ i < l.length ∧ v ∈ l := by
  unfold pyGet at h
  split at h
  · next hc =>
    injection h with h
    refine ⟨by omega, hc.2, ?_⟩
    rw [← h, List.getD_eq_getElem?_getD, List.getElem?_eq_getElem (by omega)]
    exact List.getElem_mem _
  · split at h
    · next hc =>
      injection h with h
      refine ⟨hc.2, by omega, ?_⟩
      rw [← h, List.getD_eq_getElem?_getD, List.getElem?_eq_getElem (by omega)]
      exact List.getElem_mem _
    · cases h

/-- right of the grid: the subscript `self.pattern[pos1[0] - 1]` raises -/
theorem neSimulI_bigX (m : Mesh) (q : ICell × ICell) (h : BigX (mlen m) (swapI q)) :
    neSimulI m (swapI q).1 (swapI q).2 = .error .indexError := by
  unfold neSimulI
  rw [if_neg (swapI_le q), if_neg (by have := h.2; omega)]
  have : pyGet m.pattern ((swapI q).1.1 - 1) = .error .indexError := by
    unfold pyGet
    have := h.2
    simp only [mlen] at this
    rw [if_neg (by omega), if_neg (by omega)]
  rw [this]

/-- a positive verdict: the two positions are in one column, one above the other, and either both are cells
    of the grid or the column is left of the grid (negative subscript) -/
theorem neSimulI_true {m : Mesh} (hm : IsPerm m.pattern) {p1 p2 : ICell} (h : neSimulI m p1 p2 = .ok true) :
    BothI (mlen m) (p1, p2) ∨ NegX (p1, p2) := by
  unfold neSimulI at h
  split at h
  · cases h
  · split at h
    · cases h
    · next h0 =>
      split at h
      · cases h
      · next v hv =>
        injection h with h
        obtain ⟨hlo, hhi, hmem⟩ := pyGet_ok hv
        have hvn := hm.2 v hmem
        unfold neSimulIB at h
        simp only [Bool.and_eq_true, decide_eq_true_eq] at h
        obtain ⟨⟨⟨⟨⟨⟨e1, e2⟩, e3⟩, _⟩, _⟩, _⟩, _⟩ := h
        by_cases hneg : p1.1 < 0
        · exact Or.inr ⟨e2, hneg⟩
        · left
          simp only [BothI, GridI, mlen]
          refine ⟨⟨?_, ?_, ?_, ?_⟩, ?_, ?_, ?_, ?_⟩ <;> omega

/-! ### the loop -/

/-- a successful call has evaluated the conditions in all rounds without exception, and a non-empty answer
    comes from a round with a positive verdict -/
theorem canSimulFromI_ok (n : Nat) : ∀ (k rot : Nat) (m : Mesh) (q : ICell × ICell) (l : List Int),
    canSimulFromI n k rot m q = .ok l →
      (∀ j, j < k → ∃ b, neSimulI (rotMeshN j m) (swapI (frameI n j q)).1 (swapI (frameI n j q)).2 = .ok b) ∧
      (l ≠ [] → ∃ j, j < k ∧
        neSimulI (rotMeshN j m) (swapI (frameI n j q)).1 (swapI (frameI n j q)).2 = .ok true)
  | 0, _, _, _, l, h => by
    simp only [canSimulFromI, Except.ok.injEq] at h
    exact ⟨fun j hj => absurd hj (by omega), fun hl => absurd h.symm hl⟩
  | k + 1, rot, m, q, l, h => by
    unfold canSimulFromI at h
    cases hb : neSimulI m (swapI q).1 (swapI q).2 with
    | error e => rw [hb] at h; cases h
    | ok b =>
      rw [hb] at h
      simp only at h
      cases hr : canSimulFromI n k (rot + 1) (rotMesh m) (rotI n (swapI q).1, rotI n (swapI q).2) with
      | error e => rw [hr] at h; cases h
      | ok r =>
        rw [hr] at h
        simp only [Except.ok.injEq] at h
        obtain ⟨ih1, ih2⟩ := canSimulFromI_ok n k (rot + 1) (rotMesh m) _ r hr
        constructor
        · intro j hj
          cases j with
          | zero => exact ⟨b, hb⟩
          | succ j => exact ih1 j (by omega)
        · intro hl
          by_cases hbt : b = true
          · exact ⟨0, by omega, by rw [← hbt]; exact hb⟩
          · have hrne : r ≠ [] := by
              intro hre
              apply hl
              rw [← h, hre]
              simp [hbt]
            obtain ⟨j, hj, hjt⟩ := ih2 hrne
            exact ⟨j + 1, by omega, hjt⟩

/-- **a non-empty answer of `can_simul_shade` is only given for two cells of the grid** (for any other pair of
    integer positions the call raises or returns `[]`): a positive verdict in a column left of the grid
    (reached through Python's negative subscripts) is always accompanied by an `IndexError` two rounds
    earlier or later, where that column lies right of the grid -/
theorem canSimulShadeI_licence_grid {μ : Mesh} (hμ : ValidMesh μ) {p1 p2 : ICell} {l : List Int}
    (h : canSimulShadeI μ p1 p2 = .ok l) (hl : l ≠ []) : GridI (mlen μ) p1 ∧ GridI (mlen μ) p2 := by
  obtain ⟨hall, hsome⟩ := canSimulFromI_ok (mlen μ) 4 0 μ (p1, p2) l h
  obtain ⟨j, hj, hjt⟩ := hsome hl
  have hperm := (rotMeshN_valid j hμ).1
  rcases neSimulI_true hperm hjt with hb | hn
  · rw [rotMeshN_mlen] at hb
    have : BothI (mlen μ) (swapI (frameI (mlen μ) j (p1, p2))) := hb
    rw [bothI_swap, bothI_frame] at this
    exact this
  · exfalso
    have hn' : NegX (frameI (mlen μ) j (p1, p2)) := (negX_swap _).mp hn
    -- the round two steps away sees the same column right of the grid
    have key : ∀ i, i < 4 → BigX (mlen μ) (frameI (mlen μ) i (p1, p2)) → False := by
      intro i hi hbig
      obtain ⟨b, hb⟩ := hall i hi
      have := neSimulI_bigX (rotMeshN i μ) (frameI (mlen μ) i (p1, p2))
        (by rw [rotMeshN_mlen]; exact (bigX_swap _ _).mpr hbig)
      rw [this] at hb
      cases hb
    have hj4 : j = 0 ∨ j = 1 ∨ j = 2 ∨ j = 3 := by omega
    rcases hj4 with rfl | rfl | rfl | rfl
    · exact key 2 (by omega) ((bigX_step2 _ _).mpr hn')
    · exact key 3 (by omega) ((bigX_step2 _ _).mpr hn')
    · exact key 0 (by omega) ((negX_step2 _ _).mp hn')
    · exact key 1 (by omega) ((negX_step2 _ _).mp hn')

/-! ### on cells of the grid the integer model is the model with natural coordinates -/

/-- a cell with natural coordinates as an integer position -/
def castC (c : Cell) : ICell := ((c.1 : Int), (c.2 : Int))

theorem shadedI_cast (m : Mesh) (x y : Nat) : shadedI m ((x : Int), (y : Int)) = m.shading.contains (x, y) := by
  simp [shadedI]

theorem shadedI_pred (m : Mesh) (x y : Nat) (hx : 1 ≤ x) :
    shadedI m ((x : Int) - 1, (y : Int)) = m.shading.contains (x - 1, y) := by
  have : (x : Int) - 1 = ((x - 1 : Nat) : Int) := by omega
  rw [this, shadedI_cast]

theorem beq_cast (a b : Nat) : ((a : Int) == (b : Int)) = (a == b) := by
  rw [Bool.eq_iff_iff]; simp only [beq_iff_eq]; omega

theorem beq_cast_pred (a b : Nat) : ((a : Int) == (b : Int) - 1) = (a + 1 == b) := by
  rw [Bool.eq_iff_iff]; simp only [beq_iff_eq]; omega

theorem simulColOkI_cast (m : Mesh) (x y : Nat) (hx : 1 ≤ x) :
    simulColOkI m (x : Int) (y : Int) = simulColOk m x y := by
  unfold simulColOkI simulColOk
  congr 1
  funext ny
  rw [beq_cast, beq_cast_pred, shadedI_pred m x ny hx, shadedI_cast]

theorem simulRowOkI_cast (m : Mesh) (x y y2 : Nat) :
    simulRowOkI m (x : Int) (y : Int) (y2 : Int) = simulRowOk m x y y2 := by
  unfold simulRowOkI simulRowOk
  congr 1
  funext nx
  rw [beq_cast, beq_cast_pred, shadedI_cast, shadedI_cast]

/-- `north_east_simul_shading_lemma_conditions` on natural coordinates: the two models agree (every case:
    the `assert`, `pos1[0] == 0`, the `IndexError`, the verdict) -/
theorem neSimulI_cast (m : Mesh) (p1 p2 : Cell) : neSimulI m (castC p1) (castC p2) = neSimul m p1 p2 := by
  unfold neSimulI neSimul castC
  simp only
  by_cases h1 : p1.2 < p2.2
  · rw [if_pos (by omega), if_pos h1]
  · rw [if_neg (by omega), if_neg h1]
    by_cases h0 : p1.1 = 0
    · rw [if_pos (by omega), if_neg (by omega)]
      simp [neSimulB, h0]
    · rw [if_neg (by omega)]
      by_cases hn : p1.1 > mlen m
      · rw [if_pos hn]
        have : pyGet m.pattern ((p1.1 : Int) - 1) = .error .indexError := by
          unfold pyGet
          simp only [mlen] at hn
          rw [if_neg (by omega), if_neg (by omega)]
        rw [this]
      · rw [if_neg hn]
        have : pyGet m.pattern ((p1.1 : Int) - 1) = .ok (m.pattern.getD (p1.1 - 1) 0) := by
          unfold pyGet
          simp only [mlen] at hn
          rw [if_pos (by omega)]
          have : ((p1.1 : Int) - 1).toNat = p1.1 - 1 := by omega
          rw [this]
        rw [this]
        simp only
        congr 1
        unfold neSimulIB neSimulB
        simp only
        by_cases hx : p1.1 = p2.1
        · have hp2 : 1 ≤ p2.1 := by omega
          rw [shadedI_cast, shadedI_cast, shadedI_pred m p1.1 p1.2 (by omega), shadedI_pred m p2.1 p2.2 hp2,
            simulColOkI_cast m p1.1 p1.2 (by omega), simulRowOkI_cast]
          have e1 : decide (((m.pattern.getD (p1.1 - 1) 0 : Nat) : Int) = (p1.2 : Int) - 1)
              = decide (m.pattern.getD (p1.1 - 1) 0 + 1 = p1.2) := by
            rw [Bool.eq_iff_iff]; simp only [decide_eq_true_eq]; omega
          have e2 : decide ((p1.1 : Int) = (p2.1 : Int)) = decide (p1.1 = p2.1) := by
            rw [Bool.eq_iff_iff]; simp only [decide_eq_true_eq]; omega
          have e3 : decide ((p1.2 : Int) - 1 = (p2.2 : Int)) = decide (p1.2 = p2.2 + 1) := by
            rw [Bool.eq_iff_iff]; simp only [decide_eq_true_eq]; omega
          have e4 : decide (1 ≤ p1.1) = true := by simp; omega
          rw [e1, e2, e3, e4]
          simp
        · have e2 : decide ((p1.1 : Int) = (p2.1 : Int)) = false := by simp; omega
          have e2' : decide (p1.1 = p2.1) = false := by simp [hx]
          rw [e2, e2']
          simp

theorem swapI_cast (q1 q2 : Cell) :
    swapI (castC q1, castC q2) = (castC (swapPair (q1, q2)).1, castC (swapPair (q1, q2)).2) := by
  unfold swapI swapPair castC
  simp only
  by_cases h : q1.2 < q2.2
  · rw [if_pos (by omega), if_pos h]
  · rw [if_neg (by omega), if_neg h]

theorem rotI_cast (n : Nat) (c : Cell) (h : c.1 ≤ n) : rotI n (castC c) = castC (c.2, n - c.1) := by
  unfold rotI castC
  simp only
  congr 1
  omega

theorem backRotI_cast (n : Nat) : ∀ (k : Nat) (a : Cell), a.1 + 1 ≤ n → a.2 + 1 ≤ n →
    backRotI n k (castC a) = castC (backRot n k a)
  | 0, _, _, _ => rfl
  | k + 1, a, h1, h2 => by
    rw [backRotI, backRot]
    have : ((castC a).2, (n : Int) - 1 - (castC a).1) = castC (a.2, n - 1 - a.1) := by
      unfold castC; simp only; congr 1; omega
    rw [this]
    exact backRotI_cast n k _ (by simp only; omega) (by simp only; omega)

theorem shadeAnsI_cast (n rot : Nat) (p : Cell) (h1 : 1 ≤ p.1) (h1' : p.1 ≤ n) (h2 : 1 ≤ p.2) (h2' : p.2 ≤ n) :
    shadeAnsI n rot (castC p) = ((shadeAns n rot p : Nat) : Int) := by
  unfold shadeAnsI shadeAns
  have : ((castC p).1 - 1, (castC p).2 - 1) = castC (p.1 - 1, p.2 - 1) := by
    unfold castC; simp only; congr 1 <;> omega
  rw [this, backRotI_cast n _ _ (by simp only; omega) (by simp only; omega)]
  rfl

theorem neSimul_true_pos {m : Mesh} {p1 p2 : Cell} (h : neSimul m p1 p2 = .ok true) :
    1 ≤ p1.1 ∧ p1.1 ≤ mlen m ∧ 1 ≤ p1.2 := by
  obtain ⟨hx, hb⟩ := neSimul_ok_true h
  unfold neSimulB at hb
  simp only [Bool.and_eq_true, decide_eq_true_eq] at hb
  obtain ⟨⟨⟨⟨⟨⟨⟨e0, e1⟩, _⟩, _⟩, _⟩, _⟩, _⟩, _⟩ := hb
  exact ⟨e0, hx, by omega⟩

/-- the loop of `can_simul_shade` on two cells of the grid: the integer model computes what the model with
    natural coordinates computes -/
theorem canSimulFromI_cast (n : Nat) : ∀ (k rot : Nat) (m : Mesh) (q1 q2 : Cell), mlen m = n →
    q1.1 ≤ n → q1.2 ≤ n → q2.1 ≤ n → q2.2 ≤ n →
    canSimulFromI n k rot m (castC q1, castC q2) =
      (canSimulFrom n k rot m q1 q2).map (List.map Int.ofNat)
  | 0, _, _, _, _, _, _, _, _, _ => rfl
  | k + 1, rot, m, q1, q2, hm, a1, a2, b1, b2 => by
    unfold canSimulFromI canSimulFrom
    simp only
    have e1 : (if q1.2 < q2.2 then q2 else q1) = (swapPair (q1, q2)).1 := by
      unfold swapPair; split <;> rfl
    have e2 : (if q1.2 < q2.2 then q1 else q2) = (swapPair (q1, q2)).2 := by
      unfold swapPair; split <;> rfl
    rw [e1, e2, swapI_cast]
    simp only
    have hs : (swapPair (q1, q2)).1.1 ≤ n ∧ (swapPair (q1, q2)).1.2 ≤ n ∧
        (swapPair (q1, q2)).2.1 ≤ n ∧ (swapPair (q1, q2)).2.2 ≤ n := by
      unfold swapPair; split <;> exact ⟨by assumption, by assumption, by assumption, by assumption⟩
    generalize swapPair (q1, q2) = s at hs
    obtain ⟨s1, s2, s3, s4⟩ := hs
    rw [neSimulI_cast]
    cases hb : neSimul m s.1 s.2 with
    | error e => rfl
    | ok b =>
      simp only
      rw [rotI_cast n s.1 s1, rotI_cast n s.2 s3,
        canSimulFromI_cast n k (rot + 1) (rotMesh m) _ _ (by rw [← hm]; simp [rotMesh, mlen, rotate1_length])
          s2 (by simp only; omega) s4 (by simp only; omega)]
      cases hr : canSimulFrom n k (rot + 1) (rotMesh m) (s.1.2, n - s.1.1) (s.2.2, n - s.2.1) with
      | error e => rfl
      | ok r =>
        cases b with
        | false => simp [Except.map]
        | true =>
          obtain ⟨c1, c2, c3⟩ := neSimul_true_pos hb
          rw [hm] at c2
          simp only [if_true, Except.map, List.map_append, List.map_cons, List.map_nil]
          rw [shadeAnsI_cast n rot s.1 c1 c2 c3 s2]
          rfl

/-- **`can_simul_shade` on two cells of the grid**: the integer model is the model `canSimulShade` (values as
    integers) -/
theorem canSimulShadeI_cast (m : Mesh) (q1 q2 : Cell)
    (h1 : q1.1 ≤ mlen m ∧ q1.2 ≤ mlen m) (h2 : q2.1 ≤ mlen m ∧ q2.2 ≤ mlen m) :
    canSimulShadeI m (castC q1) (castC q2) = (canSimulShade m q1 q2).map (List.map Int.ofNat) :=
  canSimulFromI_cast (mlen m) 4 0 m q1 q2 rfl h1.1 h1.2 h2.1 h2.2

/-- an integer position of the grid is a cell -/
theorem castC_toNat (n : Nat) (c : ICell) (h : GridI n c) : castC (c.1.toNat, c.2.toNat) = c := by
  unfold castC
  obtain ⟨a, _, b, _⟩ := h
  simp only
  rw [Int.toNat_of_nonneg a, Int.toNat_of_nonneg b]

theorem pyGet_error {l : List Nat} {i : Int} {e : Err} (h : pyGet l i = .error e) : e = .indexError := by
  unfold pyGet at h
  split at h
  · cases h
  · split at h
    · cases h
    · injection h with h; exact h.symm

/-- after the swap the `assert` cannot fail: the only exception of a round is the `IndexError` -/
theorem neSimulI_swap_error {m : Mesh} {q : ICell × ICell} {e : Err}
    (h : neSimulI m (swapI q).1 (swapI q).2 = .error e) : e = .indexError := by
  unfold neSimulI at h
  rw [if_neg (swapI_le q)] at h
  split at h
  · cases h
  · split at h
    · next e' he => injection h with h; rw [← h]; exact pyGet_error he
    · cases h

theorem canSimulFromI_error (n : Nat) : ∀ (k rot : Nat) (m : Mesh) (q : ICell × ICell) (e : Err),
    canSimulFromI n k rot m q = .error e → e = .indexError
  | 0, _, _, _, _, h => by simp [canSimulFromI] at h
  | k + 1, rot, m, q, e, h => by
    unfold canSimulFromI at h
    cases hb : neSimulI m (swapI q).1 (swapI q).2 with
    | error e' =>
      rw [hb] at h
      injection h with h
      rw [← h]; exact neSimulI_swap_error hb
    | ok b =>
      rw [hb] at h
      simp only at h
      cases hr : canSimulFromI n k (rot + 1) (rotMesh m) (rotI n (swapI q).1, rotI n (swapI q).2) with
      | error e' =>
        rw [hr] at h
        injection h with h
        rw [← h]; exact canSimulFromI_error n k _ _ _ _ hr
      | ok r => rw [hr] at h; cases h

end Spec.C18
