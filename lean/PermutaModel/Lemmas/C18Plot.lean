import PermutaModel.Lemmas.C18Count
import PermutaModel.Model.C18

/-! `ascii_plot` (cell size 1) can be parsed back. -/

namespace Model.C18
open Proto (Err)

/-! ### round trip for cell size 1 -/

theorem repL_one (l : List Char) : repL 1 l = l := by simp [repL]

theorem rowsL_one_succ (m : Mesh) (k : Nat) :
    rowsL m 1 (k + 1) = vrowL m 1 (k + 1) :: hrowL m 1 k :: rowsL m 1 k := by
  simp [rowsL]

theorem rowsL_one_zero (m : Mesh) : rowsL m 1 0 = [vrowL m 1 0] := by simp [rowsL]

theorem rowsL_length (m : Mesh) : ∀ k, (rowsL m 1 k).length = 2 * k + 1
  | 0 => by simp [rowsL_one_zero]
  | k + 1 => by rw [rowsL_one_succ]; simp [rowsL_length m k]; omega

theorem rowsL_even (m : Mesh) : ∀ k j, j ≤ k → (rowsL m 1 k).getD (2 * j) [] = vrowL m 1 (k - j)
  | 0, j, h => by
    have : j = 0 := by omega
    subst this; simp [rowsL_one_zero]
  | k + 1, 0, _ => by rw [rowsL_one_succ]; simp
  | k + 1, j + 1, h => by
    rw [rowsL_one_succ, show 2 * (j + 1) = 2 * j + 1 + 1 by omega]
    simp only [List.getD_cons_succ]
    rw [rowsL_even m k j (by omega)]
    congr 1; omega

theorem rowsL_odd (m : Mesh) : ∀ k j, j < k → (rowsL m 1 k).getD (2 * j + 1) [] = hrowL m 1 (k - 1 - j)
  | 0, j, h => by omega
  | k + 1, 0, _ => by rw [rowsL_one_succ]; simp
  | k + 1, j + 1, h => by
    rw [rowsL_one_succ, show 2 * (j + 1) + 1 = 2 * j + 1 + 1 + 1 by omega]
    simp only [List.getD_cons_succ]
    rw [rowsL_odd m k j (by omega)]
    congr 1; omega

theorem not_mem_intercalate {x : Char} {sep : List Char} {ls : List (List Char)} (hs : x ∉ sep)
    (hl : ∀ l ∈ ls, x ∉ l) : x ∉ sep.intercalate ls := by
  induction ls with
  | nil => simp [List.intercalate]
  | cons a t ih =>
    cases t with
    | nil => simpa [List.intercalate] using hl a (by simp)
    | cons b t =>
      rw [List.intercalate_cons_cons]
      simp only [List.mem_append, not_or]
      exact ⟨⟨hl a (by simp), hs⟩, ih (fun l h => hl l (List.mem_cons_of_mem _ h))⟩

theorem fillCharL_cases (m : Mesh) (c : Cell) :
    fillCharL m c = ['▒'] ∨ fillCharL m c = [] ∨ fillCharL m c = [' '] := by
  unfold fillCharL; split
  · exact Or.inl rfl
  · split
    · exact Or.inr (Or.inl rfl)
    · exact Or.inr (Or.inr rfl)

theorem fillCharL_head (m : Mesh) (c : Cell) :
    ((fillCharL m c).head? == some '▒') = true ↔ c ∈ m.shading := by
  unfold fillCharL
  by_cases h : m.shading.contains c = true
  · rw [if_pos h]; simpa using h
  · rw [if_neg h]
    have h' : c ∉ m.shading := by simpa using h
    split <;> simp [h']

theorem not_mem_fill (m : Mesh) (c : Cell) {x : Char} (h1 : x ≠ '▒') (h2 : x ≠ ' ') : x ∉ fillCharL m c := by
  rcases fillCharL_cases m c with h | h | h <;> rw [h] <;> simp [h1, h2]

theorem not_mem_vrowL (m : Mesh) (i : Nat) {x : Char} (h0 : x ≠ '|') (h1 : x ≠ '▒') (h2 : x ≠ ' ') :
    x ∉ vrowL m 1 i := by
  unfold vrowL
  apply not_mem_intercalate (by simpa using h0)
  intro l hl
  rw [List.mem_map] at hl
  obtain ⟨j, _, rfl⟩ := hl
  rw [repL_one]; exact not_mem_fill m _ h1 h2

theorem markL_cases (m : Mesh) (v idx : Nat) : markL m v idx = ['●'] ∨ markL m v idx = ['+'] := by
  unfold markL; split
  · exact Or.inl rfl
  · exact Or.inr rfl

theorem hrow_pieces_no (m : Mesh) (v : Nat) {x : Char} (h1 : x ≠ '●') (h2 : x ≠ '+') :
    ∀ l ∈ [[]] ++ (List.range (mlen m)).map (markL m v) ++ [[]], x ∉ l := by
  intro l hl
  simp only [List.mem_append, List.mem_singleton, List.mem_map] at hl
  rcases hl with (rfl | ⟨j, _, rfl⟩) | rfl
  · simp
  · rcases markL_cases m v j with h | h <;> rw [h] <;> simp [h1, h2]
  · simp

theorem not_mem_hrowL (m : Mesh) (v : Nat) {x : Char} (h0 : x ≠ '-') (h1 : x ≠ '●') (h2 : x ≠ '+') :
    x ∉ hrowL m 1 v := by
  unfold hrowL
  exact not_mem_intercalate (by simpa using h0) (hrow_pieces_no m v h1 h2)

theorem rowsL_no_newline (m : Mesh) : ∀ k, ∀ r ∈ rowsL m 1 k, '\n' ∉ r
  | 0, r, hr => by
    rw [rowsL_one_zero, List.mem_singleton] at hr
    subst hr; exact not_mem_vrowL m 0 (by decide) (by decide) (by decide)
  | k + 1, r, hr => by
    rw [rowsL_one_succ] at hr
    simp only [List.mem_cons] at hr
    rcases hr with rfl | rfl | hr
    · exact not_mem_vrowL m _ (by decide) (by decide) (by decide)
    · exact not_mem_hrowL m _ (by decide) (by decide) (by decide)
    · exact rowsL_no_newline m k r hr

theorem split_vrowL (m : Mesh) (i : Nat) :
    (vrowL m 1 i).splitOn '|' = (List.range (mlen m + 1)).map fun j => fillCharL m (j, i) := by
  unfold vrowL
  have : ((List.range (mlen m + 1)).map fun j => repL 1 (fillCharL m (j, i))) =
      (List.range (mlen m + 1)).map fun j => fillCharL m (j, i) := by
    apply List.map_congr_left; intro j _; exact repL_one _
  rw [this]
  apply List.splitOn_intercalate
  · intro l hl
    rw [List.mem_map] at hl
    obtain ⟨j, _, rfl⟩ := hl
    exact not_mem_fill m _ (by decide) (by decide)
  · simp

theorem split_hrowL (m : Mesh) (v : Nat) :
    (hrowL m 1 v).splitOn '-' = [[]] ++ (List.range (mlen m)).map (markL m v) ++ [[]] := by
  unfold hrowL
  have : List.replicate 1 '-' = ['-'] := rfl
  rw [this]
  apply List.splitOn_intercalate
  · exact hrow_pieces_no m v (by decide) (by decide)
  · simp

theorem markL_eq (m : Mesh) (v idx : Nat) : (markL m v idx == ['●']) = true ↔ m.pattern.getD idx 0 = v := by
  unfold markL
  split
  · rename_i h; simp only [beq_self_eq_true, true_iff]; exact h
  · rename_i h
    constructor
    · intro h'; exact absurd h' (by decide)
    · intro h'; exact absurd h' h

/-- the rows of the rendering are recovered by splitting at newlines -/
theorem split_plot (m : Mesh) :
    (['\n'].intercalate (rowsL m 1 (mlen m))).splitOn '\n' = rowsL m 1 (mlen m) := by
  apply List.splitOn_intercalate _ (rowsL_no_newline m (mlen m))
  intro h
  have := rowsL_length m (mlen m)
  rw [h] at this; simp at this

/-- **round trip**: parsing the rendering (cell size 1) of a valid mesh pattern gives the pattern back
    (same underlying permutation, same set of shaded cells) -/
theorem parsePlotL_asciiPlotL (m : Mesh) (hm : Spec.C18.ValidMesh m) :
    ∃ s, asciiPlotL m 1 = .ok s ∧ (parsePlotL s 1).pattern = m.pattern ∧
      ∀ c, c ∈ (parsePlotL s 1).shading ↔ c ∈ m.shading := by
  refine ⟨['\n'].intercalate (rowsL m 1 (mlen m)), by simp [asciiPlotL], ?_, ?_⟩
  · -- the pattern
    unfold parsePlotL
    simp only [split_plot, rowsL_length]
    have hn : (2 * mlen m + 1 - 1) / (1 + 1) = mlen m := by omega
    rw [hn]
    apply List.ext_getElem
    · simp [mlen]
    · intro j h1 h2
      have hj : j < mlen m := by simpa using h1
      rw [List.getElem_map, List.getElem_range]
      have hcond : ∀ k, k < mlen m →
          ((((rowsL m 1 (mlen m)).getD (k * (1 + 1) + 1) []).splitOn '-').getD (1 * (j + 1)) [] == ['●']) =
            decide (m.pattern.getD j 0 = mlen m - 1 - k) := by
        intro k hk
        rw [show k * (1 + 1) + 1 = 2 * k + 1 by omega, rowsL_odd m _ k hk, split_hrowL]
        rw [show 1 * (j + 1) = j + 1 by omega]
        have : ([[]] ++ List.map (markL m (mlen m - 1 - k)) (List.range (mlen m)) ++ [[]]).getD (j + 1) [] =
            markL m (mlen m - 1 - k) j := by
          rw [List.getD_eq_getElem?_getD, List.append_assoc, List.singleton_append, List.getElem?_cons_succ,
            List.getElem?_append_left (by simpa using hj), List.getElem?_map, List.getElem?_range hj]
          rfl
        rw [this]
        rw [Bool.eq_iff_iff, markL_eq]; simp
      have hv := hm.1.getD_lt (show j < m.pattern.length from hj)
      have hk0 : mlen m - 1 - m.pattern.getD j 0 < mlen m := by simp only [mlen] at *; omega
      cases hf : (List.range (mlen m)).find? (fun k =>
          (((rowsL m 1 (mlen m)).getD (k * (1 + 1) + 1) []).splitOn '-').getD (1 * (j + 1)) [] == ['●']) with
      | none =>
        rw [List.find?_eq_none] at hf
        have := hf _ (List.mem_range.mpr hk0)
        rw [hcond _ hk0, decide_eq_true_eq] at this
        exfalso; apply this
        simp only [mlen] at *; omega
      | some k0 =>
        have hp := List.find?_some hf
        have hk0' : k0 < mlen m := List.mem_range.mp (List.mem_of_find?_eq_some hf)
        rw [hcond _ hk0'] at hp
        simp only [decide_eq_true_eq] at hp
        simp only [Option.map_some, Option.getD_some]
        rw [← Spec.C18.getD_eq_getElem' m.pattern h2]
        omega
  · -- the shading
    intro c
    unfold parsePlotL
    simp only [split_plot, rowsL_length]
    have hn : (2 * mlen m + 1 - 1) / (1 + 1) = mlen m := by omega
    rw [hn]
    simp only [List.mem_flatMap, List.mem_range, List.mem_filterMap, Prod.exists,
      List.mem_zipIdx_iff_getElem?]
    constructor
    · rintro ⟨k, hk, f, j, hfj, hif⟩
      rw [show k * (1 + 1) = 2 * k by omega, rowsL_even m _ k (by omega), split_vrowL] at hfj
      rw [List.getElem?_map] at hfj
      by_cases hj : j < mlen m + 1
      · rw [List.getElem?_range hj] at hfj
        simp only [Option.map_some, Option.some.injEq] at hfj
        subst hfj
        split at hif
        · rename_i hhead
          injection hif with hif
          subst hif
          exact (fillCharL_head m _).mp hhead
        · cases hif
      · rw [List.getElem?_eq_none (by simpa using hj)] at hfj
        cases hfj
    · intro hc
      have hr := hm.2 c hc
      refine ⟨mlen m - c.2, by simp only [mlen] at *; omega, fillCharL m (c.1, c.2), c.1, ?_, ?_⟩
      · rw [show (mlen m - c.2) * (1 + 1) = 2 * (mlen m - c.2) by omega,
          rowsL_even m _ _ (by omega), split_vrowL, List.getElem?_map,
          List.getElem?_range (by simp only [mlen] at *; omega)]
        have : mlen m - (mlen m - c.2) = c.2 := by simp only [mlen] at *; omega
        rw [this]; rfl
      · rw [if_pos ((fillCharL_head m _).mpr hc)]
        have : mlen m - (mlen m - c.2) = c.2 := by simp only [mlen] at *; omega
        rw [this]

end Model.C18
