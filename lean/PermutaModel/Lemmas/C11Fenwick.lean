import PermutaModel.Lemmas.C11Listing
/-! Helper lemmas for C11: the Fenwick tree of `Perm.count_inversions` (perm.py:1198-1224).
    `clr x = x & (x-1)`, `lowbit x = x & -x` (modelled as `x - clr x`); the nodes covering a position are exactly
    the up-chain `i, i + lowbit i, …`; the query chain sums a prefix.  (core Lean only) -/
open Model.Stat

namespace C11L
local notation:max σ "⟦" i "⟧" => List.getD σ i 0

/-- `x & (x-1)`: `x` with its lowest set bit cleared -/
def clr (x : Nat) : Nat := x &&& (x - 1)
/-- `x & -x` as modelled: the lowest set bit -/
def lowbit (x : Nat) : Nat := x - clr x

theorem clr_le (x : Nat) : clr x ≤ x - 1 := Nat.and_le_right

theorem clr_even (m : Nat) : clr (2 * m) = 2 * clr m := by
  unfold clr
  apply Nat.eq_of_testBit_eq
  intro i
  cases i with
  | zero => simp [Nat.testBit_zero]
  | succ i =>
    simp only [Nat.testBit_add_one, Nat.and_div_two]
    cases m with
    | zero => simp
    | succ m =>
      have e1 : 2 * (m + 1) / 2 = m + 1 := by omega
      have e2 : (2 * (m + 1) - 1) / 2 = m := by omega
      have e3 : 2 * ((m + 1) &&& (m + 1 - 1)) / 2 = (m + 1) &&& (m + 1 - 1) := by omega
      rw [e1, e2, e3]; simp

theorem clr_odd (m : Nat) : clr (2 * m + 1) = 2 * m := by
  unfold clr
  apply Nat.eq_of_testBit_eq
  intro i
  cases i with
  | zero => simp [Nat.testBit_zero]
  | succ i =>
    simp only [Nat.testBit_add_one, Nat.and_div_two]
    have e1 : (2 * m + 1) / 2 = m := by omega
    have e2 : (2 * m + 1 - 1) / 2 = m := by omega
    have e3 : 2 * m / 2 = m := by omega
    rw [e1, e2, e3]; simp

theorem lowbit_even (m : Nat) : lowbit (2 * m) = 2 * lowbit m := by
  unfold lowbit; rw [clr_even]; have := clr_le m; omega

theorem lowbit_odd (m : Nat) : lowbit (2 * m + 1) = 1 := by
  unfold lowbit; rw [clr_odd]; omega

theorem lowbit_pos : ∀ (x : Nat), 0 < x → 0 < lowbit x := by
  intro x hx; unfold lowbit; have := clr_le x; omega

theorem lowbit_le (x : Nat) : lowbit x ≤ x := by unfold lowbit; omega

theorem two_cases (j : Nat) : (∃ m, j = 2 * m) ∨ (∃ m, j = 2 * m + 1) := by
  by_cases h : j % 2 = 0
  · exact Or.inl ⟨j / 2, by omega⟩
  · exact Or.inr ⟨j / 2, by omega⟩

/-- Fact B: no node strictly between `j` and its parent `j + lowbit j` reaches down to `j` -/
theorem lowbit_between : ∀ (j j' : Nat), j < j' → j' < j + lowbit j → j ≤ j' - lowbit j' := by
  intro j
  induction j using Nat.strongRecOn with
  | _ j ih =>
    intro j' h1 h2
    rcases two_cases j with ⟨m, rfl⟩ | ⟨m, rfl⟩
    · rw [lowbit_even] at h2
      rcases two_cases j' with ⟨m', rfl⟩ | ⟨m', rfl⟩
      · rw [lowbit_even]
        have hm0 : 0 < m := by
          cases m with
          | zero => simp [lowbit, clr] at h2
          | succ k => omega
        have hm : m < 2 * m := by omega
        have := ih m hm m' (by omega) (by omega)
        have := lowbit_le m'
        omega
      · rw [lowbit_odd]; omega
    · rw [lowbit_odd] at h2; omega

/-- Fact A: the parent's range contains the child's range -/
theorem lowbit_parent : ∀ (j : Nat), 0 < j →
    (j + lowbit j) - lowbit (j + lowbit j) ≤ j - lowbit j := by
  intro j
  induction j using Nat.strongRecOn with
  | _ j ih =>
    intro hj
    rcases two_cases j with ⟨m, rfl⟩ | ⟨m, rfl⟩
    · have hm : 0 < m := by omega
      rw [lowbit_even]
      have e : 2 * m + 2 * lowbit m = 2 * (m + lowbit m) := by omega
      rw [e, lowbit_even]
      have := ih m (by omega) hm
      have := lowbit_le m
      have := lowbit_le (m + lowbit m)
      omega
    · rw [lowbit_odd]
      have e : 2 * m + 1 + 1 = 2 * (m + 1) := by omega
      rw [e, lowbit_even]
      have := lowbit_pos (m + 1) (by omega)
      omega

/-- `j` is reached from `i` by repeatedly adding the lowest set bit -/
inductive Up : Nat → Nat → Prop
  | refl (i : Nat) : Up i i
  | step {i j : Nat} : Up (i + lowbit i) j → Up i j

/-- node `j` of the tree covers position `i` -/
def Cov (j i : Nat) : Prop := j - lowbit j < i ∧ i ≤ j

instance (j i : Nat) : Decidable (Cov j i) := by unfold Cov; infer_instance

theorem up_of_cov : ∀ (d i j : Nat), j - i = d → 0 < i → Cov j i → Up i j := by
  intro d
  induction d using Nat.strongRecOn with
  | _ d ih =>
    intro i j hd hi hc
    by_cases hij : j = i
    · subst hij; exact Up.refl _
    · have hlt : i < j := by have := hc.2; omega
      have hf : i + lowbit i ≤ j := by
        rcases Nat.lt_or_ge j (i + lowbit i) with hcon | hge
        · have := lowbit_between i j hlt hcon
          have := hc.1; omega
        · exact hge
      have hpos := lowbit_pos i hi
      exact Up.step (ih (j - (i + lowbit i)) (by omega) _ _ rfl (by omega) ⟨by have := hc.1; omega, hf⟩)

theorem up_range {i j : Nat} (h : Up i j) : 0 < i → i ≤ j ∧ j - lowbit j ≤ i - lowbit i := by
  induction h with
  | refl i => intro _; exact ⟨Nat.le_refl _, Nat.le_refl _⟩
  | @step i j _ ih =>
    intro hi
    have hpos := lowbit_pos i hi
    obtain ⟨h1, h2⟩ := ih (by omega)
    have := lowbit_parent i hi
    exact ⟨by omega, by omega⟩

theorem cov_iff_up (i j : Nat) (hi : 0 < i) : Cov j i ↔ Up i j := by
  constructor
  · exact up_of_cov _ i j rfl hi
  · intro h
    obtain ⟨h1, h2⟩ := up_range h hi
    have := lowbit_pos i hi
    have := lowbit_le i
    exact ⟨by omega, h1⟩

theorem up_step_iff (i j : Nat) (hi : 0 < i) : Up i j ↔ j = i ∨ Up (i + lowbit i) j := by
  constructor
  · intro h
    cases h with
    | refl => exact Or.inl rfl
    | step h => exact Or.inr h
  · rintro (rfl | h)
    · exact Up.refl _
    · exact Up.step h

theorem getD_set' (l : List Nat) (i j v : Nat) :
    (l.set i v).getD j 0 = if i = j ∧ i < l.length then v else l.getD j 0 := by
  rw [List.getD_eq_getElem?_getD, List.getD_eq_getElem?_getD, List.getElem?_set]
  by_cases h : i = j
  · subst h
    by_cases h2 : i < l.length
    · simp [h2]
    · simp [h2]
  · simp [h]

/-- the prefix query of the tree: the sum along the chain `e, clr e, clr (clr e), …` -/
def chainSum (bit : List Nat) (e : Nat) : Nat :=
  if e = 0 then 0 else bit.getD e 0 + chainSum bit (clr e)
termination_by e
decreasing_by
  have := clr_le e
  omega

theorem chainSum_congr (b1 b2 : List Nat) (h : ∀ j, 1 ≤ j → b1.getD j 0 = b2.getD j 0) :
    ∀ e, chainSum b1 e = chainSum b2 e := by
  intro e
  induction e using Nat.strongRecOn with
  | _ e ih =>
    unfold chainSum
    by_cases he : e = 0
    · simp [he]
    · simp only [he, if_false]
      rw [h e (by omega), ih (clr e) (by have := clr_le e; omega)]

theorem fenQuery_spec (bit : List Nat) (e : Nat) (hb : 0 < bit.length) :
    (fenQuery bit e).length = bit.length ∧
    (fenQuery bit e).getD 0 0 = bit.getD 0 0 + chainSum bit e ∧
    ∀ j, 1 ≤ j → (fenQuery bit e).getD j 0 = bit.getD j 0 := by
  fun_induction fenQuery bit e with
  | case1 bit => refine ⟨rfl, ?_, fun _ _ => rfl⟩; unfold chainSum; simp
  | case2 bit e he ih =>
    have hlen : 0 < (bit.set 0 (bit.getD 0 0 + bit.getD e 0)).length := by simpa using hb
    obtain ⟨h1, h2, h3⟩ := ih hlen
    refine ⟨by simpa using h1, ?_, ?_⟩
    · rw [h2, getD_set']
      have hcs : chainSum (bit.set 0 (bit.getD 0 0 + bit.getD e 0)) (e &&& (e - 1)) = chainSum bit (clr e) := by
        apply chainSum_congr
        intro j hj
        rw [getD_set']; simp; omega
      rw [hcs]
      conv => rhs; unfold chainSum
      simp [he, hb]; omega
    · intro j hj
      rw [h3 j hj, getD_set']; simp; omega

theorem up_ge {i j : Nat} (h : Up i j) : i ≤ j := by
  induction h with
  | refl i => exact Nat.le_refl _
  | @step i j _ ih => omega

theorem fenUpdate_spec (L : Nat) (bit : List Nat) (i : Nat) (hi : 0 < i) :
    (fenUpdate L bit i).length = bit.length ∧
    ∀ j, (fenUpdate L bit i).getD j 0 =
      bit.getD j 0 + (if Cov j i ∧ j < L ∧ j < bit.length then 1 else 0) := by
  fun_induction fenUpdate L bit i with
  | case1 bit i hc ih =>
    have hlow : i - (i &&& (i - 1)) = lowbit i := rfl
    rw [hlow] at ih ⊢
    have hpos := lowbit_pos i hi
    obtain ⟨h1, h2⟩ := ih (by omega)
    refine ⟨by simpa using h1, fun j => ?_⟩
    rw [h2 j, getD_set']
    simp only [List.length_set]
    have hup := up_step_iff i j hi
    rw [← cov_iff_up i j hi, ← cov_iff_up (i + lowbit i) j (by omega)] at hup
    by_cases hji : j = i
    · subst hji
      have hnot : ¬ Cov j (j + lowbit j) := fun h => by have := h.2; omega
      have hself : Cov j j := hup.mpr (Or.inl rfl)
      by_cases hlen : j < bit.length
      · simp [hlen, hc.1, hself, hnot]
      · simp [hlen]
    · have hne : ¬ (i = j) := fun h => hji h.symm
      simp only [hne, false_and, if_false]
      have : Cov j i ↔ Cov j (i + lowbit i) := by rw [hup]; simp [hji]
      simp only [this]
  | case2 bit i hc =>
    refine ⟨rfl, fun j => ?_⟩
    have : ¬ (Cov j i ∧ j < L ∧ j < bit.length) := by
      rintro ⟨h1, h2, _⟩
      have := h1.2
      exact hc ⟨by omega, hi⟩
    simp [this]

/-- the tree over values `0 … N-1` after the values `ins` were inserted -/
def FInv (N : Nat) (bit : List Nat) (ins : List Nat) : Prop :=
  bit.length = N + 1 ∧
  ∀ j, 1 ≤ j → j ≤ N → bit.getD j 0 = ins.countP fun v => decide (Cov j (v + 1))

theorem countP_split (l : List Nat) (a b : Nat) (hab : a ≤ b) :
    (l.countP fun v => decide (a < v + 1 ∧ v + 1 ≤ b)) + (l.countP fun v => decide (v + 1 ≤ a)) =
      l.countP fun v => decide (v + 1 ≤ b) := by
  induction l with
  | nil => rfl
  | cons x t ih =>
    rw [List.countP_cons, List.countP_cons, List.countP_cons]
    simp only [decide_eq_true_eq]
    split <;> split <;> split <;> omega

/-- the chain sum of a consistent tree counts the inserted values below `e` -/
theorem chainSum_count (N : Nat) (bit ins : List Nat) (h : FInv N bit ins) :
    ∀ e, e ≤ N → chainSum bit e = ins.countP fun v => decide (v + 1 ≤ e) := by
  intro e
  induction e using Nat.strongRecOn with
  | _ e ih =>
    intro he
    unfold chainSum
    by_cases h0 : e = 0
    · subst h0
      simp only [if_true]
      symm; rw [List.countP_eq_zero]; intro v _; simp
    · simp only [h0, if_false]
      have hc := clr_le e
      rw [h.2 e (by omega) he, ih (clr e) (by omega) (by omega)]
      have hcov : ∀ v, decide (Cov e (v + 1)) = decide (clr e < v + 1 ∧ v + 1 ≤ e) := by
        intro v
        have : e - lowbit e = clr e := by unfold lowbit; omega
        simp only [Cov, this]
      simp only [hcov]
      exact countP_split ins (clr e) e (by omega)

/-- one iteration of the loop of `count_inversions` -/
theorem fenwick_step (N : Nat) (bit ins : List Nat) (x : Nat) (h : FInv N bit ins) (hx : x < N) :
    FInv N (fenUpdate (N + 1) (fenQuery bit x) (x + 1)) (x :: ins) ∧
    (fenUpdate (N + 1) (fenQuery bit x) (x + 1)).getD 0 0 = bit.getD 0 0 + ins.countP fun v => decide (v < x) := by
  have hb : 0 < bit.length := by rw [h.1]; omega
  obtain ⟨q1, q2, q3⟩ := fenQuery_spec bit x hb
  obtain ⟨u1, u2⟩ := fenUpdate_spec (N + 1) (fenQuery bit x) (x + 1) (by omega)
  refine ⟨⟨by rw [u1, q1, h.1], ?_⟩, ?_⟩
  · intro j hj1 hjN
    rw [u2 j, q3 j hj1, h.2 j hj1 hjN, List.countP_cons, q1, h.1]
    have : (j < N + 1 ∧ j < N + 1) := ⟨by omega, by omega⟩
    simp only [this, and_true, decide_eq_true_eq]
  · rw [u2 0, q2, chainSum_count N bit ins h x (by omega)]
    have : ¬ Cov 0 (x + 1) := fun hc => by have := hc.2; omega
    simp only [this, false_and, if_false, Nat.add_zero]
    congr 2

/-- inversions counted from the left end: entries to the right that are smaller -/
def invs : List Nat → Nat
  | [] => 0
  | x :: t => (t.countP fun v => decide (v < x)) + invs t

theorem fenwick_loop (N : Nat) : ∀ (l : List Nat), (∀ x ∈ l, x < N) →
    FInv N (l.reverse.foldl (fun bit e => fenUpdate (N + 1) (fenQuery bit e) (e + 1)) (List.replicate (N + 1) 0)) l ∧
    (l.reverse.foldl (fun bit e => fenUpdate (N + 1) (fenQuery bit e) (e + 1)) (List.replicate (N + 1) 0)).getD 0 0 = invs l := by
  intro l
  induction l with
  | nil =>
    intro _
    refine ⟨⟨by simp, fun j _ hj => ?_⟩, ?_⟩
    · have : j < N + 1 := by omega
      simp [List.getD_eq_getElem?_getD, this]
    · simp [invs, List.getD_eq_getElem?_getD]
  | cons x t ih =>
    intro hl
    obtain ⟨h1, h2⟩ := ih (fun y hy => hl y (by simp [hy]))
    rw [List.reverse_cons, List.foldl_append]
    simp only [List.foldl_cons, List.foldl_nil]
    obtain ⟨s1, s2⟩ := fenwick_step N _ t x h1 (hl x (by simp))
    refine ⟨s1, ?_⟩
    rw [s2, h2, invs]; omega

theorem countInversions_eq_invs (p : NSeq) (h : ∀ x ∈ p, x < p.length) : countInversions p = invs p := by
  unfold countInversions
  exact (fenwick_loop p.length p h).2

theorem map_getD_range' (p : List Nat) (a : Nat) :
    (List.range' a (p.length - a)).map (fun j => p⟦j⟧) = p.drop a := by
  apply List.ext_getElem
  · simp
  · intro i h1 h2
    simp at h1 h2 ⊢
    rw [List.getElem?_eq_getElem (by omega)]; rfl

/-- number of inversions whose left end is `i` -/
theorem inv_row_count (p : List Nat) (i : Nat) :
    ((List.range' (i + 1) (p.length - (i + 1))).filter fun j => decide (p⟦i⟧ > p⟦j⟧)).length =
      (p.drop (i + 1)).countP fun v => decide (v < p⟦i⟧) := by
  rw [← map_getD_range' p (i + 1), List.countP_map, ← List.countP_eq_length_filter]
  rfl

theorem inversions_length (p : List Nat) :
    (inversions p).length = ((List.range p.length).map fun i => (p.drop (i + 1)).countP fun v => decide (v < p⟦i⟧)).sum := by
  unfold inversions
  rw [enum_eq, List.flatMap_map, List.length_flatMap]
  congr 1
  apply List.map_congr_left
  intro i _
  simp only [List.length_map]
  exact inv_row_count p i

theorem rows_sum_eq_invs : ∀ (p : List Nat),
    ((List.range p.length).map fun i => (p.drop (i + 1)).countP fun v => decide (v < p⟦i⟧)).sum = invs p := by
  intro p
  induction p with
  | nil => rfl
  | cons x t ih =>
    rw [List.length_cons, List.range_succ_eq_map, List.map_cons, List.sum_cons, List.map_map, invs, ← ih]
    simp only [List.getD_cons_zero, List.drop_succ_cons, List.drop_zero]
    congr 1

theorem invs_eq_inversions_length (p : List Nat) : invs p = (inversions p).length := by
  rw [inversions_length, rows_sum_eq_invs]

/-- non-inversions counted from the left end -/
def ninvs : List Nat → Nat
  | [] => 0
  | x :: t => (t.countP fun v => decide (v > x)) + ninvs t

theorem ninv_row_count (p : List Nat) (i : Nat) :
    ((List.range' (i + 1) (p.length - (i + 1))).filter fun j => decide (p⟦i⟧ < p⟦j⟧)).length =
      (p.drop (i + 1)).countP fun v => decide (v > p⟦i⟧) := by
  rw [← map_getD_range' p (i + 1), List.countP_map, ← List.countP_eq_length_filter]
  rfl

theorem nonInversions_length (p : List Nat) :
    (nonInversions p).length = ((List.range p.length).map fun i => (p.drop (i + 1)).countP fun v => decide (v > p⟦i⟧)).sum := by
  unfold nonInversions
  rw [enum_eq, List.flatMap_map, List.length_flatMap]
  congr 1
  apply List.map_congr_left
  intro i _
  simp only [List.length_map]
  exact ninv_row_count p i

theorem rows_sum_eq_ninvs : ∀ (p : List Nat),
    ((List.range p.length).map fun i => (p.drop (i + 1)).countP fun v => decide (v > p⟦i⟧)).sum = ninvs p := by
  intro p
  induction p with
  | nil => rfl
  | cons x t ih =>
    rw [List.length_cons, List.range_succ_eq_map, List.map_cons, List.sum_cons, List.map_map, ninvs, ← ih]
    simp only [List.getD_cons_zero, List.drop_succ_cons, List.drop_zero]
    congr 1

theorem ninvs_eq_nonInversions_length (p : List Nat) : ninvs p = (nonInversions p).length := by
  rw [nonInversions_length, rows_sum_eq_ninvs]

theorem countP_lt_add_gt (t : List Nat) (x : Nat) (h : x ∉ t) :
    (t.countP fun v => decide (v < x)) + (t.countP fun v => decide (v > x)) = t.length := by
  induction t with
  | nil => rfl
  | cons a u ih =>
    have hne : a ≠ x := fun e => h (by simp [e])
    have := ih (fun hm => h (by simp [hm]))
    rw [List.countP_cons, List.countP_cons, List.length_cons]
    simp only [decide_eq_true_eq]
    split <;> split <;> omega

/-- every pair of positions of a duplicate-free sequence is an inversion or a non-inversion -/
theorem invs_add_ninvs : ∀ (p : List Nat), p.Nodup → 2 * (invs p + ninvs p) = p.length * (p.length - 1) := by
  intro p
  induction p with
  | nil => intro _; rfl
  | cons x t ih =>
    intro h
    rw [List.nodup_cons] at h
    have h1 := ih h.2
    have h2 := countP_lt_add_gt t x h.1
    simp only [invs, ninvs, List.length_cons, Nat.add_sub_cancel]
    cases hl : t.length with
    | zero => rw [hl] at h1 h2; simp at h1; omega
    | succ k =>
      rw [hl] at h1 h2
      simp only [Nat.add_sub_cancel] at h1
      have e : (k + 1 + 1) * (k + 1) = (k + 1) * k + 2 * (k + 1) := by
        rw [Nat.succ_mul, Nat.mul_succ]; omega
      have e2 : k * (k + 1) = (k + 1) * k := Nat.mul_comm _ _
      rw [e]; omega

end C11L
