import PermutaModel.Lemmas.C11Records
import PermutaModel.Lemmas.PermBasic
import PermutaModel.Lemmas.SubLen
import Mathlib.Data.List.Basic
/-! Helper lemmas for C11: rank encoding, holeyness, pop-stack passes, strong fixed points, layer peeling. -/
open Model.Stat

namespace C11L
local notation:max σ "⟦" i "⟧" => List.getD σ i 0

theorem foldl_incr_getD (L : List (Nat × Nat)) : ∀ (re : List Nat),
    (L.foldl (fun re x => re.set x.1 (re.getD x.1 0 + 1)) re).length = re.length ∧
    ∀ i, i < re.length →
      (L.foldl (fun re x => re.set x.1 (re.getD x.1 0 + 1)) re).getD i 0 =
        re.getD i 0 + (L.filter fun x => x.1 == i).length := by
  induction L with
  | nil => intro re; simp
  | cons x t ih =>
    intro re
    simp only [List.foldl_cons]
    obtain ⟨h1, h2⟩ := ih (re.set x.1 (re.getD x.1 0 + 1))
    refine ⟨by simpa using h1, fun i hi => ?_⟩
    rw [h2 i (by simpa using hi)]
    simp only [List.filter_cons]
    by_cases hx : x.1 = i
    · subst hx
      simp [List.getD_eq_getElem?_getD, hi]; omega
    · have : (x.1 == i) = false := by simpa using hx
      simp [List.getD_eq_getElem?_getD, hx, this]

theorem sum_ite_eq (n i c : Nat) (h : i < n) : ((List.range n).map fun k => if k = i then c else 0).sum = c := by
  induction n with
  | zero => omega
  | succ n ih =>
    rw [List.range_succ, List.map_append, List.sum_append]
    simp only [List.map_cons, List.map_nil, List.sum_cons, List.sum_nil]
    by_cases hi : i < n
    · rw [ih hi]; simp; omega
    · have : i = n := by omega
      subst this
      have hz : ((List.range i).map fun k => if k = i then c else 0).sum = 0 := by
        have : ∀ k ∈ List.range i, (if k = i then c else 0) = 0 := by
          intro k hk; have := List.mem_range.mp hk; rw [if_neg (by omega)]
        rw [List.map_congr_left this]; simp
      rw [hz]; simp

theorem rankEncoding_getD (p : NSeq) (i : Nat) (hi : i < p.length) :
    (rankEncoding p).getD i 0 = ((Spec.Stat.positions p).filter fun j => decide (i < j ∧ p⟦j⟧ < p⟦i⟧)).length := by
  unfold rankEncoding
  rw [(foldl_incr_getD (inversions p) _).2 i (by simpa using hi)]
  rw [inversions_eq_spec]
  have h0 : (List.replicate p.length 0).getD i 0 = 0 := by
    simp [List.getD_eq_getElem?_getD, hi]
  rw [h0, Nat.zero_add]
  unfold Spec.Stat.inversions Spec.Stat.pairs
  rw [List.filter_filter, ← List.countP_eq_length_filter, List.countP_flatMap]
  have : ∀ k ∈ Spec.Stat.positions p,
      (List.countP (fun x => (x.1 == i) && decide (p⟦x.1⟧ > p⟦x.2⟧)) ∘
        fun i_1 => List.map (fun j => (i_1, j)) (List.filter (fun j => decide (i_1 < j)) (Spec.Stat.positions p))) k =
      if k = i then ((Spec.Stat.positions p).filter fun j => decide (i < j ∧ p⟦j⟧ < p⟦i⟧)).length else 0 := by
    intro k _
    simp only [Function.comp, List.countP_map]
    by_cases hk : k = i
    · subst hk
      simp only [if_true, List.countP_filter, ← List.countP_eq_length_filter]
      apply List.countP_congr
      intro j _
      simp [Function.comp]
      constructor <;> (intro h; exact ⟨h.2, h.1⟩)
    · simp only [hk, if_false]
      rw [List.countP_eq_zero]
      intro j _
      simp [hk]
  rw [List.map_congr_left this]
  exact sum_ite_eq p.length i _ hi

theorem eraseDups_of_nodup : ∀ (l : List Nat), l.Nodup → l.eraseDups = l := by
  intro l
  induction l with
  | nil => intro _; rfl
  | cons a t ih =>
    intro h
    rw [List.nodup_cons] at h
    rw [List.eraseDups_cons]
    have : (t.filter fun b => !b == a) = t := by
      rw [List.filter_eq_self]
      intro b hb
      have : b ≠ a := fun e => h.1 (e ▸ hb)
      simpa using this
    rw [this, ih h.2]

theorem mem_specSublists : ∀ (l s : List Nat), s ∈ Spec.Stat.sublists l ↔ s.Sublist l := by
  intro l
  induction l with
  | nil => intro s; simp [Spec.Stat.sublists]
  | cons x t ih =>
    intro s
    simp only [Spec.Stat.sublists, List.mem_append, List.mem_map, ih]
    constructor
    · rintro (h | ⟨u, hu, rfl⟩)
      · exact List.Sublist.cons _ h
      · exact List.Sublist.cons_cons _ hu
    · intro h
      cases h with
      | cons _ h => exact Or.inl h
      | cons_cons _ h => exact Or.inr ⟨_, h, rfl⟩

theorem mem_setGenerator (n : Nat) (s : List Nat) : s ∈ setGenerator n ↔ s.Sublist (List.range n) := by
  simp only [setGenerator, List.mem_flatMap, List.mem_range, mem_subLen]
  constructor
  · rintro ⟨y, _, h, _⟩; exact h
  · intro h
    refine ⟨s.length, ?_, h, rfl⟩
    have := h.length_le
    simp at this; omega

theorem specMaxInt_mem_le : ∀ (l : List Int), l ≠ [] → Spec.Stat.maxInt l ∈ l ∧ ∀ x ∈ l, x ≤ Spec.Stat.maxInt l := by
  intro l hl
  cases l with
  | nil => exact absurd rfl hl
  | cons a t =>
    simp only [Spec.Stat.maxInt]
    have key : ∀ (t : List Int) (a : Int), (t.foldl max a = a ∨ t.foldl max a ∈ t) ∧ a ≤ t.foldl max a ∧
        ∀ x ∈ t, x ≤ t.foldl max a := by
      intro t
      induction t with
      | nil => intro a; simp
      | cons b u ih =>
        intro a
        simp only [List.foldl_cons]
        obtain ⟨h1, h2, h3⟩ := ih (max a b)
        refine ⟨?_, by omega, ?_⟩
        · rcases h1 with h1 | h1
          · by_cases hab : a ≤ b
            · right; rw [h1]; simp [Int.max_eq_right hab]
            · left; rw [h1]; exact Int.max_eq_left (by omega)
          · right; exact List.mem_cons_of_mem _ h1
        · intro x hx
          rcases List.mem_cons.mp hx with rfl | hx
          · omega
          · exact h3 x hx
    obtain ⟨h1, h2, h3⟩ := key t a
    refine ⟨?_, ?_⟩
    · rcases h1 with h1 | h1
      · rw [h1]; simp
      · exact List.mem_cons_of_mem _ h1
    · intro x hx
      rcases List.mem_cons.mp hx with rfl | hx
      · exact h2
      · exact h3 x hx

/-- the maximum only depends on the set of values -/
theorem specMaxInt_congr (l1 l2 : List Int) (h : ∀ x, x ∈ l1 ↔ x ∈ l2) : Spec.Stat.maxInt l1 = Spec.Stat.maxInt l2 := by
  by_cases h1 : l1 = []
  · subst h1
    have : l2 = [] := by
      cases l2 with
      | nil => rfl
      | cons b u => exact absurd ((h b).mpr (by simp)) (by simp)
    rw [this]
  · have h2 : l2 ≠ [] := by
      intro e; subst e
      cases l1 with
      | nil => exact h1 rfl
      | cons a t => exact absurd ((h a).mp (by simp)) (by simp)
    obtain ⟨a1, a2⟩ := specMaxInt_mem_le l1 h1
    obtain ⟨b1, b2⟩ := specMaxInt_mem_le l2 h2
    have := b2 _ ((h _).mp a1)
    have := a2 _ ((h _).mpr b1)
    omega

theorem maxIntD_zero_eq (l : List Int) : maxIntD l 0 = Spec.Stat.maxInt l := by
  cases l <;> rfl

theorem delta_eq (s : List Nat) : delta s = Spec.Stat.delta s := by
  unfold delta Spec.Stat.delta; exact count1_eq_length _

theorem popStackGo_eq_pass (t : List Nat) : ∀ (stack result : List Nat), (t ++ stack).Nodup →
    popStackGo stack result t = Spec.Stat.popStackPass t stack result := by
  induction t with
  | nil => intro stack result _; cases stack <;> rfl
  | cons x t ih =>
    intro stack result hnd
    have hnd' : (t ++ stack).Nodup := by
      rw [List.cons_append, List.nodup_cons] at hnd; exact hnd.2
    have hx : x ∉ t ++ stack := by
      rw [List.cons_append, List.nodup_cons] at hnd; exact hnd.1
    cases stack with
    | nil =>
      unfold popStackGo Spec.Stat.popStackPass
      simp only [List.isEmpty_nil, Bool.not_true, Bool.false_and, Bool.false_eq_true, if_false]
      apply ih
      rw [List.nodup_append] at hnd' ⊢
      refine ⟨hnd'.1, by simp, ?_⟩
      intro a ha b hb
      simp only [List.mem_singleton] at hb
      subst hb
      intro e; subst e
      exact hx (by simp [ha])
    | cons top st =>
      unfold popStackGo Spec.Stat.popStackPass
      have hne : x ≠ top := by
        intro e; subst e; exact hx (by simp)
      simp only [List.isEmpty_cons, Bool.not_false, Bool.true_and, List.headD_cons]
      by_cases hgt : x > top
      · rw [if_pos (by simpa using hgt), if_neg (by omega)]
        apply ih
        rw [List.nodup_append] at hnd' ⊢
        refine ⟨hnd'.1, by simp, ?_⟩
        intro a ha b hb
        simp only [List.mem_singleton] at hb
        subst hb
        intro e; subst e
        exact hx (by simp [ha])
      · rw [if_neg (by simpa using hgt), if_pos (by omega)]
        apply ih
        have : (x :: (t ++ top :: st)).Nodup := List.nodup_cons.mpr ⟨hx, hnd'⟩
        exact (List.perm_middle.nodup_iff).mpr this

theorem popStackGo_perm (t : List Nat) : ∀ (stack result : List Nat),
    List.Perm (popStackGo stack result t) (result ++ stack ++ t) := by
  induction t with
  | nil => intro stack result; simp [popStackGo]
  | cons x t ih =>
    intro stack result
    unfold popStackGo
    split
    · have := ih [x] (result ++ stack)
      simpa using this
    · have := ih (x :: stack) result
      refine this.trans ?_
      have : result ++ x :: stack ++ t = result ++ (x :: (stack ++ t)) := by simp
      rw [this]
      have : result ++ stack ++ x :: t = result ++ (stack ++ x :: t) := by simp
      rw [this]
      exact List.Perm.append_left _ List.perm_middle.symm

theorem popStackSort_perm (p : NSeq) : List.Perm (popStackSort p) p := by
  have := popStackGo_perm p [] []
  simpa [popStackSort] using this

theorem popStackSort_eq_pass (p : NSeq) (h : p.Nodup) : popStackSort p = Spec.Stat.popStackPass p [] [] :=
  popStackGo_eq_pass p [] [] (by simpa using h)

theorem range_succ_find? (P : Nat → Bool) (k : Nat) :
    (List.range (k + 1)).find? P = if P 0 then some 0 else ((List.range k).find? fun j => P (j + 1)).map (· + 1) := by
  rw [List.range_succ_eq_map, List.find?_cons]
  cases h : P 0
  · simp only [Bool.false_eq_true, if_false]
    rw [List.find?_map]
    rfl
  · simp

theorem countPopStackSortsGo_eq (f : Nat) : ∀ (cur : NSeq) (num : Nat), cur.Nodup →
    countPopStackSortsGo f cur num =
      ((List.range (f + 1)).find? fun k =>
        Spec.Stat.iterPass (fun l => Spec.Stat.popStackPass l [] []) k cur == List.range cur.length).map (· + num) := by
  induction f with
  | zero =>
    intro cur num _
    unfold countPopStackSortsGo
    simp only [Nat.zero_add, List.range_one, List.find?_cons, List.find?_nil, Spec.Stat.iterPass, Model.isIncreasing]
    by_cases h : (cur == List.range cur.length) = true
    · simp [h]
    · simp [h]
  | succ f ih =>
    intro cur num hnd
    unfold countPopStackSortsGo
    rw [range_succ_find?]
    simp only [Spec.Stat.iterPass, Model.isIncreasing]
    by_cases h : (cur == List.range cur.length) = true
    swap
    · simp only [h, Bool.not_eq_true] at h ⊢
      simp only [Bool.not_false, if_true, Bool.false_eq_true, if_false]
      have hperm := popStackSort_perm cur
      have hl : (popStackSort cur).length = cur.length := hperm.length_eq
      rw [ih _ _ (hperm.nodup_iff.mpr hnd), hl, popStackSort_eq_pass cur hnd, Option.map_map]
      congr 1
      funext j; simp only [Function.comp]; omega
    · simp [h]

/-- in a permutation, a fixed point that exceeds everything before it is exceeded by everything after it -/
theorem later_larger_of_fixed_ltrmax (p : NSeq) (hp : IsPerm p) (i : Nat) (hi : i < p.length)
    (hfix : p⟦i⟧ = i) (hmax : ∀ j, j < i → p⟦j⟧ < p⟦i⟧) : ∀ j, i < j → j < p.length → p⟦i⟧ < p⟦j⟧ := by
  intro j hij hj
  by_contra hcon
  have hne : p⟦j⟧ ≠ p⟦i⟧ := fun h => by have := hp.getD_inj hj hi h; omega
  have hlt : p⟦j⟧ < i := by omega
  have hmaps : ∀ a ∈ insert j (Finset.range i), p⟦a⟧ ∈ Finset.range i := by
    intro a ha
    rw [Finset.mem_insert] at ha
    rcases ha with rfl | ha
    · simpa using hlt
    · have := hmax a (by simpa using ha); rw [Finset.mem_range]; omega
  have hcard : (Finset.range i).card < (insert j (Finset.range i)).card := by
    rw [Finset.card_insert_of_notMem (by simp; omega)]; omega
  obtain ⟨x, hx, y, hy, hxy, hf⟩ := Finset.exists_ne_map_eq_of_card_lt_of_maps_to hcard hmaps
  have hxn : x < p.length := by
    rw [Finset.mem_insert] at hx; rcases hx with rfl | hx
    · exact hj
    · have := Finset.mem_range.mp hx; omega
  have hyn : y < p.length := by
    rw [Finset.mem_insert] at hy; rcases hy with rfl | hy
    · exact hj
    · have := Finset.mem_range.mp hy; omega
  exact hxy (hp.getD_inj hxn hyn hf)

theorem last_mem_rtlmax (s : NSeq) (h : 0 < s.length) : s.length - 1 ∈ rtlmax s := by
  rw [rtlmax_eq_spec]
  simp only [Spec.Stat.rtlmax, Spec.Stat.positions, List.mem_filter, List.mem_range, decide_eq_true_eq]
  exact ⟨by omega, fun j hj hlt => by omega⟩

theorem layer_removes_one (s : NSeq) (h : 0 < s.length) :
    (((enum s).filter fun x => !(layerPositions s).contains x.1).map (·.2)).length < s.length := by
  rw [List.length_map]
  have hlen : (enum s).length = s.length := by simp [enum]
  rw [← hlen]
  rw [List.length_filter_lt_length_iff_exists]
  refine ⟨(s.length - 1, s⟦s.length - 1⟧), ?_, ?_⟩
  · rw [enum_eq]; exact List.mem_map.mpr ⟨s.length - 1, by simp; omega, rfl⟩
  · simp only [Bool.not_eq_true, Bool.not_eq_false', List.contains_iff_mem, layerPositions, List.mem_filter,
      List.mem_range, Bool.or_eq_true]
    exact ⟨by omega, Or.inl (last_mem_rtlmax s h)⟩

/-- **termination of `rtlmax_ltrmin_decomposition`**: every layer removes at least the last entry, so the
    `while len(perm) > 0` loop runs at most `len` times – the fuel given by the model always suffices
    (for every sequence, permutation or not) -/
theorem layersGo_isSome (f : Nat) : ∀ (s : NSeq), s.length ≤ f → (layersGo f s).isSome = true := by
  induction f with
  | zero => intro s hs; unfold layersGo; rw [if_neg (by omega)]; rfl
  | succ f ih =>
    intro s hs
    unfold layersGo
    split
    · rename_i hpos
      have := layer_removes_one s hpos
      rw [Option.isSome_map]
      exact ih _ (by omega)
    · rfl

end C11L
