import PermutaModel.Lemmas.C10Inflate

/-! Inflating every point by a single point (`None` or the permutation `0`) gives the permutation back. -/
open Model

namespace C10L

theorem sum_map_const_one (l : List Nat) : (l.map fun _ => 1).sum = l.length := by
  induction l with
  | nil => rfl
  | cons a t ih => simp only [List.map_cons, List.sum_cons, List.length_cons, ih]; omega

theorem flatMap_singleton' (f : Nat → Nat) (l : List Nat) : l.flatMap (fun j => [f j]) = l.map f := by
  induction l with
  | nil => rfl
  | cons a t ih => simp only [List.flatMap_cons, List.map_cons, ih, List.singleton_append]

theorem inflate_ones {p : NSeq} (hp : IsPerm p) (comps : List (Option NSeq)) (hl : comps.length = p.length)
    (hc : ∀ o ∈ comps, o = none ∨ o = some [0]) : inflate p comps = .ok p := by
  have hone : ∀ i, compList (comps.getD i none) = [0] := by
    intro i
    by_cases hi : i < comps.length
    · have hm : comps.getD i none ∈ comps := by
        rw [List.getD_eq_getElem?_getD, List.getElem?_eq_getElem hi]; exact List.getElem_mem hi
      rcases hc _ hm with h | h <;> rw [h] <;> rfl
    · rw [List.getD_eq_getElem?_getD, List.getElem?_eq_none (by omega)]; rfl
  have hok : ∀ o ∈ comps, CompOk o := by
    intro o ho
    rcases hc o ho with h | h <;> subst h <;> unfold CompOk compList <;> decide
  obtain ⟨shifts, h1, h2, _, _⟩ := inflate_spec hp comps hl hok
  have e : (List.range p.length).flatMap (fun j =>
        (compList (comps.getD j none)).map (· + shifts.getD j 0)) =
      (List.range p.length).map fun j => shifts.getD j 0 := by
    simp only [hone, List.map_cons, List.map_nil, Nat.zero_add]
    exact flatMap_singleton' _ _
  rw [h1, e]
  congr 1
  apply ext_getD (by simp)
  · intro j hj
    have hj' : j < p.length := by simpa using hj
    rw [getD_range_map _ _ hj', h2 j hj']
    have : ∀ i, compSize (comps.getD i none) = 1 := fun i => by rw [compSize_eq, hone]; rfl
    simp only [this]
    rw [sum_map_const_one, List.length_take, length_inverse]
    have := hp.getD_lt hj'
    omega

end C10L
