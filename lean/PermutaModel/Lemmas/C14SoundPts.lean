import PermutaModel.Lemmas.C14Rank
import PermutaModel.Lemmas.C14SoundGeo
/-! C14 soundness helpers: an order-equivalent copy of a sub-configuration gives a pattern
    occurrence in the decoded permutation. -/
namespace C14S
open Model.C14 Model.C14.Letter Spec.C14 Proto C14L

theorem countP_sorted (l : List Rat) (h : l.Pairwise (· < ·)) (i : Nat) (hi : i < l.length) :
    l.countP (fun z => decide (z < l[i])) = i := by
  induction l generalizing i with
  | nil => simp at hi
  | cons a t ih =>
    rw [List.pairwise_cons] at h
    cases i with
    | zero =>
      simp only [List.getElem_cons_zero]
      rw [List.countP_eq_zero]
      intro z hz
      rcases List.mem_cons.mp hz with rfl | hz
      · simp
      · have := h.1 z hz; simp; grind
    | succ k =>
      simp only [List.getElem_cons_succ, List.countP_cons]
      have hk : k < t.length := by simpa using hi
      rw [ih h.2 k hk]
      have : a < t[k] := h.1 _ (List.getElem_mem hk)
      simp [this]

theorem rank_sorted {L : List Pt} (h : (xs L).Nodup) (i : Nat) (hi : i < (sortedPins L).length) :
    rank (xs L) ((sortedPins L)[i]).1 = i := by
  have hp : (xs (sortedPins L)).Perm (xs L) := (sortedPins_perm L).map _
  have hs := sortedPins_xs_sorted h
  have hi' : i < (xs (sortedPins L)).length := by simpa using hi
  have := countP_sorted _ hs i hi'
  simp only [rank]
  rw [← hp.countP_eq]
  simpa using this

theorem sorted_at_rank {L : List Pt} (h : (xs L).Nodup) {p : Pt} (hp : p ∈ L) :
    ∃ hi : rank (xs L) p.1 < (sortedPins L).length, (sortedPins L)[rank (xs L) p.1] = p := by
  have : p ∈ sortedPins L := (sortedPins_perm L).mem_iff.mpr hp
  obtain ⟨i, hi, rfl⟩ := List.mem_iff_getElem.mp this
  rw [rank_sorted h i hi]
  exact ⟨hi, rfl⟩

theorem countP_zip {α β} (l : List (α × β)) (f : α → Bool) (g : β → Bool)
    (h : ∀ z ∈ l, f z.1 = g z.2) : (l.map Prod.fst).countP f = (l.map Prod.snd).countP g := by
  induction l with
  | nil => rfl
  | cons z l ih =>
    simp only [List.map_cons, List.countP_cons, h z List.mem_cons_self,
      ih fun y hy => h y (List.mem_cons_of_mem _ hy)]

theorem oe_rank {S Q : List Pt} (hO : OE S Q) {z : Pt × Pt} (hz : z ∈ S.zip Q) :
    rank (xs S) z.1.1 = rank (xs Q) z.2.1 := by
  have hl := hO.1
  have h1 : xs S = (S.zip Q).map (fun y => y.1.1) := by
    rw [show (fun y : Pt × Pt => y.1.1) = Prod.fst ∘ Prod.fst from rfl, ← List.map_map,
      List.map_fst_zip (by omega)]
  have h2 : xs Q = (S.zip Q).map (fun y => y.2.1) := by
    rw [show (fun y : Pt × Pt => y.2.1) = Prod.fst ∘ Prod.snd from rfl, ← List.map_map,
      List.map_snd_zip (by omega)]
  simp only [rank]
  rw [h1, h2, List.countP_map, List.countP_map]
  apply List.countP_congr
  intro y hy
  have := (hO.2 y hy z hz).1
  simp only [Function.comp, decide_eq_true_eq]
  exact this

theorem zip_partner {α β} {S : List α} {Q : List β} (hl : S.length ≤ Q.length) {s : α} (hs : s ∈ S) :
    ∃ q, (s, q) ∈ S.zip Q := by
  obtain ⟨i, hi, rfl⟩ := List.mem_iff_getElem.mp hs
  refine ⟨Q[i], ?_⟩
  apply List.mem_iff_getElem.mpr
  exact ⟨i, by simp; omega, by simp⟩

/-- sorted position by sorted position, the two configurations carry paired points -/
theorem oe_sorted {S Q : List Pt} (hO : OE S Q) (hS : (xs S).Nodup) (hQ : (xs Q).Nodup)
    (a : Nat) (ha : a < (sortedPins S).length) :
    ∃ ha' : a < (sortedPins Q).length, ((sortedPins S)[a], (sortedPins Q)[a]) ∈ S.zip Q := by
  have hmem : (sortedPins S)[a] ∈ S := (sortedPins_perm S).mem_iff.mp (List.getElem_mem ha)
  obtain ⟨q, hq⟩ := zip_partner (Q := Q) (by rw [hO.1]; exact Nat.le_refl _) hmem
  have hr := oe_rank hO hq
  simp only at hr
  rw [rank_sorted hS a ha] at hr
  obtain ⟨hi, he⟩ := sorted_at_rank hQ (List.of_mem_zip hq).2
  subst hr
  exact ⟨hi, by rw [he]; exact hq⟩


/-- **from points to patterns**: if a sub-configuration `S` of `P` is order-equivalent to `Q`, the
    permutation of `P` contains the permutation of `Q` -/
theorem contains_of_oe {P S Q : List Pt} (hsub : ∀ s ∈ S, s ∈ P) (hPx : (xs P).Nodup)
    (hSx : (xs S).Nodup) (hQx : (xs Q).Nodup) (hO : OE S Q) :
    Contains (permOfPts P) (permOfPts Q) := by
  have hlS : (sortedPins S).length = S.length := (sortedPins_perm S).length_eq
  have hlQ : (sortedPins Q).length = Q.length := (sortedPins_perm Q).length_eq
  have hlP : (sortedPins P).length = P.length := (sortedPins_perm P).length_eq
  have hmemS : ∀ s ∈ sortedPins S, s ∈ P := fun s hs => hsub s ((sortedPins_perm S).mem_iff.mp hs)
  refine ⟨(sortedPins S).map (fun s => rank (xs P) s.1), ?_, ?_, ?_, ?_⟩
  · rw [List.length_map, hlS, permOfPts_length, hO.1]
  · simp only [StrictInc]
    rw [List.pairwise_map]
    have := sortedPins_xs_sorted hSx
    rw [List.pairwise_map] at this
    refine this.imp_of_mem ?_
    intro a b ha _ hab
    exact rank_lt_of_lt (List.mem_map.mpr ⟨a, hmemS a ha, rfl⟩) hab
  · intro i hi
    obtain ⟨s, hs, rfl⟩ := List.mem_map.mp hi
    rw [permOfPts_length]
    have := rank_lt_length (Y := xs P) (y := s.1) (List.mem_map.mpr ⟨s, hmemS s hs, rfl⟩)
    simpa using this
  · intro a b ha hb
    rw [permOfPts_length] at ha hb
    have hlSQ := hO.1
    have haS : a < (sortedPins S).length := by omega
    have hbS : b < (sortedPins S).length := by omega
    obtain ⟨haQ, hza⟩ := oe_sorted hO hSx hQx a haS
    obtain ⟨hbQ, hzb⟩ := oe_sorted hO hSx hQx b hbS
    obtain ⟨hia, hea⟩ := sorted_at_rank hPx (hmemS _ (List.getElem_mem haS))
    obtain ⟨hib, heb⟩ := sorted_at_rank hPx (hmemS _ (List.getElem_mem hbS))
    have hca : ((sortedPins S).map (fun s => rank (xs P) s.1)).getD a 0
        = rank (xs P) ((sortedPins S)[a]).1 := by
      simp [List.getD_eq_getElem?_getD, List.getElem?_eq_getElem haS]
    have hcb : ((sortedPins S).map (fun s => rank (xs P) s.1)).getD b 0
        = rank (xs P) ((sortedPins S)[b]).1 := by
      simp [List.getD_eq_getElem?_getD, List.getElem?_eq_getElem hbS]
    rw [hca, hcb, permOfPts_orderIso a b (by omega) (by omega),
      permOfPts_orderIso _ _ (by omega) (by omega)]
    simp only [List.getD_eq_getElem?_getD, List.getElem?_eq_getElem haQ, List.getElem?_eq_getElem hbQ,
      List.getElem?_eq_getElem hia, List.getElem?_eq_getElem hib, Option.getD_some, hea, heb]
    exact ((hO.2 _ hza _ hzb).2).symm

end C14S
