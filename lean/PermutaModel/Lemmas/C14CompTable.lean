import PermutaModel.Lemmas.C14Comp
import PermutaModel.Lemmas.C14Tables
/-! C14: the containment table the driver evaluates (`containsTable`) against Theorem 3.13. -/
namespace C14S
open Model.C14 Model.C14.Letter Spec.C14 Proto C14L C14C15

theorem lexPerms_isPerm (n : Nat) : ∀ π ∈ lexPerms n, IsPerm π ∧ π.length = n := by
  induction n with
  | zero => intro π h; simp only [lexPerms, List.mem_singleton] at h; subst h; exact ⟨by decide, rfl⟩
  | succ n ih =>
    intro π h
    simp only [lexPerms, List.mem_flatMap, List.mem_range, List.mem_map] at h
    obtain ⟨v, hv, p, hp, rfl⟩ := h
    obtain ⟨⟨hnd, hlt⟩, hlen⟩ := ih p hp
    refine ⟨⟨?_, ?_⟩, by simp [hlen]⟩
    · rw [List.nodup_cons]
      constructor
      · simp only [List.mem_map, not_exists, not_and]
        intro x _
        split <;> omega
      · apply hnd.map
        intro x y hxy
        simp only at hxy
        split at hxy <;> split at hxy <;> omega
    · intro x hx
      simp only [List.length_cons, List.length_map, hlen]
      rcases List.mem_cons.mp hx with rfl | hx
      · exact hv
      · obtain ⟨y, hy, rfl⟩ := List.mem_map.mp hx
        have := hlt y hy
        split <;> omega

theorem foldlM_any {α} (f : α → Except Err Bool) (l : List α) :
    ∀ acc : Bool, (∀ a ∈ l, ∃ b, f a = .ok b) →
    l.foldlM (fun acc a => if acc = true then Except.ok true else f a) acc
      = .ok (acc || l.any fun a => f a == .ok true) := by
  induction l with
  | nil => intro acc _; simp [List.foldlM]; rfl
  | cons a l ih =>
    intro acc h
    obtain ⟨b, hb⟩ := h a List.mem_cons_self
    have ih' := fun acc => ih acc (fun x hx => h x (List.mem_cons_of_mem _ hx))
    simp only [List.foldlM_cons, List.any_cons]
    cases acc
    · simp only [Bool.false_eq_true, if_false, hb]
      show (Except.ok b >>= _) = _
      simp only [bind, Except.bind, ih']
      cases b <;> simp
    · simp only [if_true]
      show (Except.ok true >>= _) = _
      simp only [bind, Except.bind, ih']
      simp

theorem mapM_ok {α β} (g : α → Except Err β) (h : α → β) (l : List α)
    (hg : ∀ x ∈ l, g x = .ok (h x)) : l.mapM g = .ok (l.map h) := by
  induction l with
  | nil => rfl
  | cons a l ih =>
    rw [List.mapM_cons, hg a List.mem_cons_self, ih fun x hx => hg x (List.mem_cons_of_mem _ hx)]
    rfl

theorem lexPerms_complete : ∀ (n : Nat) (π : NSeq), IsPerm π → π.length = n → π ∈ lexPerms n := by
  intro n
  induction n with
  | zero => intro π _ hl; simp [lexPerms, List.length_eq_zero_iff.mp hl]
  | succ n ih =>
    intro π hπ hl
    match π, hl with
    | v :: rest, hl =>
      simp only [List.length_cons, Nat.add_right_cancel_iff] at hl
      obtain ⟨hnd, hlt⟩ := hπ
      rw [List.nodup_cons] at hnd
      simp only [List.length_cons, hl] at hlt
      have hv : v < n + 1 := hlt v List.mem_cons_self
      have hrest : ∀ x ∈ rest, x < n + 1 ∧ x ≠ v := fun x hx =>
        ⟨hlt x (List.mem_cons_of_mem _ hx), fun h => hnd.1 (h ▸ hx)⟩
      let g : Nat → Nat := fun x => if x < v then x else x - 1
      have hp : IsPerm (rest.map g) := by
        constructor
        · apply List.Nodup.map_on _ hnd.2
          intro x hx y hy hxy
          have := hrest x hx; have := hrest y hy
          simp only [g] at hxy
          split at hxy <;> split at hxy <;> omega
        · intro y hy
          obtain ⟨x, hx, rfl⟩ := List.mem_map.mp hy
          have := hrest x hx
          simp only [List.length_map, hl, g]
          split <;> omega
      have hmem := ih (rest.map g) hp (by simp [hl])
      simp only [lexPerms, List.mem_flatMap, List.mem_range, List.mem_map]
      refine ⟨v, hv, rest.map g, hmem, ?_⟩
      simp only [List.map_map, List.cons.injEq, true_and]
      conv_rhs => rw [← List.map_id rest]
      apply List.map_congr_left
      intro x hx
      have := hrest x hx
      simp only [Function.comp, g, id]
      by_cases h1 : x < v
      · simp [h1]
      · have h2 : ¬ (x - 1 < v) := by omega
        simp only [h1, h2, if_false]; omega

end C14S
