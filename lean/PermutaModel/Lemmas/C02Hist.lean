import PermutaModel.Lemmas.C02Sub

/-! C02 helpers, part 13: arbitrary operation sequences on the process state. -/
open List Model Model.C02 Proto

namespace C02L

/-- the operations of the line protocol that touch the process state (the string layer of the
    driver only parses and prints) -/
inductive POp where
  /-- `Av(basis)` for an already constructed `Basis` / `MeshBasis` -/
  | new (name : String) (b : BasisV)
  /-- `Av.from_iterable(patts)` for classical patterns (runs `Basis(*patts)`) -/
  | newClassical (name : String) (patts : List NSeq)
  /-- `Av.clear_cache()` -/
  | clear
  /-- `of_length(n)` / `count(n)` / `σ in av` fully consumed -/
  | level (name : String) (n : Nat)
  /-- `up_to_length(n)` fully consumed -/
  | upTo (name : String) (n : Nat)
  /-- `enumeration(n)` -/
  | enumeration (name : String) (n : Nat)
  /-- `a.is_subclass(b)` -/
  | isSubclass (a b : String)
  /-- take `k` items from a (possibly half-consumed) iterator -/
  | iterTake (it : IterSt) (k : Nat)

inductive Out where
  | unit
  | err (e : Err)
  | perms (l : List NSeq)
  | counts (l : List Nat)
  | bool (b : Bool)
  | items (it : IterSt) (l : List NSeq)

/-- one operation; on an exception the state is unchanged (as in the driver) -/
def POp.run (s : Proc) : POp → Proc × Out
  | .new name b => match s.newClass name b with
    | .ok s' => (s', .unit) | .error e => (s, .err e)
  | .newClassical name patts => match s.newClassical name patts with
    | .ok s' => (s', .unit) | .error e => (s, .err e)
  | .clear => ({ s with classCache := [] }, .unit)
  | .level name n => match s.level name n with
    | .ok (s', ks) => (s', .perms ks) | .error e => (s, .err e)
  | .upTo name n => match s.upTo name (n + 1) 0 with
    | .ok (s', ks) => (s', .perms ks) | .error e => (s, .err e)
  | .enumeration name n => match s.enumeration name (n + 1) 0 with
    | .ok (s', cs) => (s', .counts cs) | .error e => (s, .err e)
  | .isSubclass a b => match s.isSubclass a b with
    | .ok (s', r) => (s', .bool r) | .error e => (s, .err e)
  | .iterTake it k => match s.iterTake it k with
    | .ok (s', it', items) => (s', .items it' items) | .error e => (s, .err e)

/-- inputs the property talks about: valid bases / permutations as patterns -/
def POp.WF : POp → Prop
  | .new _ b => ValidBasisV b
  | .newClassical _ patts => ∀ p ∈ patts, IsPerm p
  | _ => True

def runOps (s : Proc) (ops : List POp) : Proc := ops.foldl (fun s op => (op.run s).1) s

/-- the class name is bound to an object with basis `b` -/
def Bound (s : Proc) (name : String) (b : BasisV) : Prop :=
  ∃ id o, s.obj? name = some (id, o) ∧ o.basis = b

/-- the operation (re)binds `name` -/
def POp.binds (name : String) : POp → Prop
  | .new nm _ => nm = name
  | .newClassical nm _ => nm = name
  | _ => False

theorem Bound.ext {s s' : Proc} {name : String} {b : BasisV} (h : Bound s name b) (he : ProcExt s s') :
    Bound s' name b := by
  obtain ⟨id, o, ho, hb⟩ := h
  obtain ⟨o', ho', hext⟩ := he.obj? ho
  exact ⟨id, o', ho', hext.basis.trans hb⟩

theorem newClassical_wf (s : Proc) (name : String) (patts : List NSeq)
    (hp : ∀ p ∈ patts, IsPerm p) :
    s.newClassical name patts = .error .valueError ∨
      (ValidBasis (basisNew patts) ∧ s.newClassical name patts = s.newClass name (.classical (basisNew patts))) := by
  rcases basisNew_valid patts hp with hf | hv
  · left
    simp only [Proc.newClassical, newClass_eq, hf, if_true]
  · exact Or.inr ⟨hv, rfl⟩

theorem isSubclassLoop_inv (ps : List NSeq) {s : Proc} (h : ProcInv s) {name : String} {id : Nat} {o : AvObj}
    (ho : s.obj? name = some (id, o)) {s' : Proc} {r : Bool}
    (hr : s.isSubclassLoop name ps = .ok (s', r)) : ProcInv s' ∧ ProcExt s s' := by
  obtain ⟨s'', h1, hi, he⟩ := isSubclassLoop_spec ps h ho
  rw [h1] at hr
  simp only [Except.ok.injEq, Prod.mk.injEq] at hr
  rw [← hr.1]; exact ⟨hi, he⟩

/-- the operations that only query existing classes -/
def POp.isQuery : POp → Prop
  | .new _ _ => False
  | .newClassical _ _ => False
  | .clear => False
  | _ => True

/-- a query keeps the process invariant and only moves objects to later states of themselves -/
theorem run_query {s : Proc} (h : ProcInv s) (op : POp) (hq : op.isQuery) :
    ProcInv (op.run s).1 ∧ ProcExt s (op.run s).1 := by
  cases op with
  | new name b => exact hq.elim
  | newClassical name patts => exact hq.elim
  | clear => exact hq.elim
  | level name n =>
    cases ho : s.obj? name with
    | none => simp only [POp.run, Proc.level, ho]; exact ⟨h, ProcExt.refl s h⟩
    | some v =>
      obtain ⟨id, o⟩ := v
      obtain ⟨s', ks, h1, hi, he, _⟩ := level_spec h ho n
      simp only [POp.run, h1]; exact ⟨hi, he⟩
  | upTo name n =>
    cases ho : s.obj? name with
    | none => simp only [POp.run, Proc.upTo, Proc.level, ho]; exact ⟨h, ProcExt.refl s h⟩
    | some v =>
      obtain ⟨id, o⟩ := v
      obtain ⟨s', ks, h1, hi, he, _⟩ := upTo_spec (n + 1) 0 h ho
      simp only [POp.run, h1]; exact ⟨hi, he⟩
  | enumeration name n =>
    cases ho : s.obj? name with
    | none => simp only [POp.run, Proc.enumeration, Proc.level, ho]; exact ⟨h, ProcExt.refl s h⟩
    | some v =>
      obtain ⟨id, o⟩ := v
      obtain ⟨s', h1, hi, he⟩ := enumeration_spec (n + 1) 0 h ho
      simp only [POp.run, h1]; exact ⟨hi, he⟩
  | isSubclass a b =>
    simp only [POp.run]
    cases hr : s.isSubclass a b with
    | error e => exact ⟨h, ProcExt.refl s h⟩
    | ok v =>
      obtain ⟨s', r⟩ := v
      simp only
      unfold Proc.isSubclass at hr
      split at hr
      · rename_i ida oa idb ob ha hb
        split at hr
        · simp at hr
        · split at hr
          · exact isSubclassLoop_inv _ h ha hr
          · exact isSubclassLoop_inv _ h ha hr
      · simp at hr
  | iterTake it k =>
    simp only [POp.run]
    cases hr : s.iterTake it k with
    | error e => exact ⟨h, ProcExt.refl s h⟩
    | ok v =>
      obtain ⟨s', it', items⟩ := v
      exact iterTake_inv k h it hr

/-- every operation keeps the process invariant -/
theorem run_inv {s : Proc} (h : ProcInv s) (op : POp) (hwf : op.WF) : ProcInv (op.run s).1 := by
  cases op with
  | new name b =>
    rcases newClass_spec h name hwf with he | ⟨s', hs, hi, _⟩
    · simp only [POp.run, he]; exact h
    · simp only [POp.run, hs]; exact hi
  | newClassical name patts =>
    rcases newClassical_wf s name patts hwf with he | ⟨hv, heq⟩
    · simp only [POp.run, he]; exact h
    · rcases newClass_spec h name (b := .classical (basisNew patts)) hv with he | ⟨s', hs, hi, _⟩
      · simp only [POp.run, heq, he]; exact h
      · simp only [POp.run, heq, hs]; exact hi
  | clear => exact clearCache_inv h
  | level name n => exact (run_query h (.level name n) trivial).1
  | upTo name n => exact (run_query h (.upTo name n) trivial).1
  | enumeration name n => exact (run_query h (.enumeration name n) trivial).1
  | isSubclass a b => exact (run_query h (.isSubclass a b) trivial).1
  | iterTake it k => exact (run_query h (.iterTake it k) trivial).1

theorem runOps_inv : ∀ (ops : List POp) {s : Proc}, ProcInv s → (∀ op ∈ ops, op.WF) → ProcInv (runOps s ops)
  | [], _, h, _ => h
  | op :: ops, s, h, hwf => by
    have := run_inv h op (hwf op (by simp))
    exact runOps_inv ops this (fun o ho => hwf o (by simp [ho]))

/-! ### a binding survives everything except rebinding the same name -/

theorem find?_filter_ne (name nm : String) (hne : nm ≠ name) : ∀ l : List (String × Nat),
    (l.filter (·.1 != nm)).find? (·.1 == name) = l.find? (·.1 == name)
  | [] => rfl
  | x :: l => by
    by_cases hx : x.1 = nm
    · have h1 : (x.1 != nm) = false := by simp [hx]
      have h2 : (x.1 == name) = false := by simp [hx, hne]
      rw [List.filter_cons_of_neg (p := fun y : String × Nat => y.1 != nm) (by simp [h1]), List.find?_cons_of_neg (p := fun y : String × Nat => y.1 == name) (by simp [h2])]
      exact find?_filter_ne name nm hne l
    · have h1 : (x.1 != nm) = true := by simp [hx]
      rw [List.filter_cons_of_pos (p := fun y : String × Nat => y.1 != nm) h1]
      by_cases hn : x.1 = name
      · simp [hn]
      · have h2 : (x.1 == name) = false := by simp [hn]
        rw [List.find?_cons_of_neg (p := fun y : String × Nat => y.1 == name) (by simp [h2]),
          List.find?_cons_of_neg (p := fun y : String × Nat => y.1 == name) (by simp [h2])]
        exact find?_filter_ne name nm hne l

theorem bound_bind_ne {s : Proc} {name nm : String} (hne : nm ≠ name) (id : Nat) {b : BasisV}
    (h : Bound s name b) : Bound (s.bind nm id) name b := by
  obtain ⟨i, o, ho, hb⟩ := h
  refine ⟨i, o, ?_, hb⟩
  unfold Proc.obj? at ho ⊢
  simp only [Proc.bind]
  have h2 : ((nm, id).1 == name) = false := by simp [hne]
  rw [List.find?_cons_of_neg (p := fun y : String × Nat => y.1 == name) (by simp [h2]),
    find?_filter_ne name nm hne]
  exact ho

theorem bound_newClass_ne {s s' : Proc} {name nm : String} (hne : nm ≠ name) {b b' : BasisV}
    (h : Bound s name b) (hs : s.newClass nm b' = .ok s') : Bound s' name b := by
  rw [newClass_eq] at hs
  split at hs
  · simp at hs
  · split at hs
    · simp only [Except.ok.injEq] at hs
      rw [← hs]; exact bound_bind_ne hne _ h
    · simp only [Except.ok.injEq] at hs
      rw [← hs]
      apply bound_bind_ne hne
      obtain ⟨i, o, ho, hb⟩ := h
      have ho' := obj?_eq_some ho
      have hlt := (List.getElem?_eq_some_iff.mp ho').1
      refine ⟨i, o, ?_, hb⟩
      unfold Proc.obj? at ho ⊢
      simp only
      split at ho
      · simp at ho
      · rename_i nm' id' hf
        split at ho
        · simp at ho
        · simp only [Option.some.injEq, Prod.mk.injEq] at ho
          obtain ⟨rfl, rfl⟩ := ho
          rw [List.getElem?_append_left hlt, ho']

/-- a binding `name ↦ class with basis b` survives every operation that does not rebind `name` -/
theorem run_bound {s : Proc} (h : ProcInv s) (op : POp) {name : String} {b : BasisV}
    (hb : Bound s name b) (hnb : ¬ op.binds name) : Bound (op.run s).1 name b := by
  cases op with
  | new nm b' =>
    simp only [POp.run]
    cases hs : s.newClass nm b' with
    | error e => exact hb
    | ok s' => exact bound_newClass_ne hnb hb hs
  | newClassical nm patts =>
    simp only [POp.run]
    cases hs : s.newClassical nm patts with
    | error e => exact hb
    | ok s' => exact bound_newClass_ne hnb hb hs
  | clear => exact hb
  | level nm n => exact hb.ext (run_query h (.level nm n) trivial).2
  | upTo nm n => exact hb.ext (run_query h (.upTo nm n) trivial).2
  | enumeration nm n => exact hb.ext (run_query h (.enumeration nm n) trivial).2
  | isSubclass a c => exact hb.ext (run_query h (.isSubclass a c) trivial).2
  | iterTake it k => exact hb.ext (run_query h (.iterTake it k) trivial).2

theorem runOps_bound : ∀ (ops : List POp) {s : Proc}, ProcInv s → (∀ op ∈ ops, op.WF) →
    ∀ {name : String} {b : BasisV}, Bound s name b → (∀ op ∈ ops, ¬ op.binds name) →
    Bound (runOps s ops) name b
  | [], _, _, _, _, _, hb, _ => hb
  | op :: ops, s, h, hwf, name, b, hb, hnb => by
    have h1 := run_inv h op (hwf op (by simp))
    have h2 := run_bound h op hb (hnb op (by simp))
    exact runOps_bound ops h1 (fun o ho => hwf o (by simp [ho])) h2 (fun o ho => hnb o (by simp [ho]))

/-- after a successful `Av(basis)` the name is bound to a class with that basis -/
theorem run_new_bound {s : Proc} (h : ProcInv s) (name : String) {b : BasisV} (hb : ValidBasisV b)
    (hnf : forbiddenB b = false) : Bound ((POp.new name b).run s).1 name b := by
  rcases newClass_spec h name hb with he | ⟨s', hs, _, ⟨id, o, ho, hob, _⟩, _⟩
  · rw [newClass_eq, hnf] at he
    simp only [Bool.false_eq_true, if_false] at he
    split at he <;> simp at he
  · simp only [POp.run, hs]; exact ⟨id, o, ho, hob⟩

end C02L
