import PermutaModel.Model.C03
import PermutaModel.Lemmas.MeshValues
/-! `_to_shading`: which cells it produces; a fully shaded column / row is an adjacency requirement. -/
open Model Proto

namespace MeshLemmas

theorem mem_colCells (n i x y : Nat) : (x, y) ∈ colCells n i ↔ x = i ∧ y ≤ n := by
  simp only [colCells, List.mem_map, List.mem_range, Prod.mk.injEq]
  constructor
  · rintro ⟨v, hv, rfl, rfl⟩; exact ⟨rfl, by omega⟩
  · rintro ⟨rfl, h⟩; exact ⟨y, by omega, rfl, rfl⟩

theorem mem_rowCells (n v x y : Nat) : (x, y) ∈ rowCells n v ↔ y = v ∧ x ≤ n := by
  simp only [rowCells, List.mem_map, List.mem_range, Prod.mk.injEq]
  constructor
  · rintro ⟨i, hi, rfl, rfl⟩; exact ⟨rfl, by omega⟩
  · rintro ⟨rfl, h⟩; exact ⟨x, by omega, rfl, rfl⟩

theorem toShadingVals_ok (n : Nat) : ∀ (V : List Int) (R : List Cell), toShadingVals n V = .ok R →
    (∀ v ∈ V, 0 ≤ v ∧ v ≤ (n : Int)) ∧
    ∀ x y, (x, y) ∈ R ↔ (∃ v ∈ V, v.toNat = y) ∧ x ≤ n
  | [], R, h => by
    simp only [toShadingVals, Except.ok.injEq] at h
    subst h; simp
  | v :: rest, R, h => by
    unfold toShadingVals at h
    by_cases hv : 0 ≤ v ∧ v ≤ (n : Int)
    · simp only [hv, and_self, if_true] at h
      cases hr : toShadingVals n rest with
      | error e => simp [hr] at h
      | ok r =>
        simp only [hr, Except.ok.injEq] at h
        subst h
        obtain ⟨h1, h2⟩ := toShadingVals_ok n rest r hr
        refine ⟨?_, fun x y => ?_⟩
        · intro w hw
          rcases List.mem_cons.mp hw with rfl | hw
          · exact hv
          · exact h1 w hw
        · simp only [List.mem_append, mem_rowCells, h2, List.mem_cons, exists_eq_or_imp]
          constructor
          · rintro (⟨rfl, hx⟩ | ⟨hex, hx⟩)
            · exact ⟨Or.inl rfl, hx⟩
            · exact ⟨Or.inr hex, hx⟩
          · rintro ⟨h | h, hx⟩
            · exact Or.inl ⟨h.symm, hx⟩
            · exact Or.inr ⟨h, hx⟩
    · simp [hv] at h

theorem toShading_ok (n : Nat) : ∀ (I V : List Int) (R : List Cell), toShading n I V = .ok R →
    (∀ j ∈ I, 0 ≤ j ∧ j ≤ (n : Int)) ∧ (∀ v ∈ V, 0 ≤ v ∧ v ≤ (n : Int)) ∧
    ∀ x y, (x, y) ∈ R ↔ ((∃ j ∈ I, j.toNat = x) ∧ y ≤ n) ∨ ((∃ v ∈ V, v.toNat = y) ∧ x ≤ n)
  | [], V, R, h => by
    simp only [toShading] at h
    obtain ⟨h1, h2⟩ := toShadingVals_ok n V R h
    exact ⟨by simp, h1, fun x y => by simp [h2]⟩
  | i :: rest, V, R, h => by
    unfold toShading at h
    by_cases hi : 0 ≤ i ∧ i ≤ (n : Int)
    · simp only [hi, and_self, if_true] at h
      cases hr : toShading n rest V with
      | error e => simp [hr] at h
      | ok r =>
        simp only [hr, Except.ok.injEq] at h
        subst h
        obtain ⟨h1, h2, h3⟩ := toShading_ok n rest V r hr
        refine ⟨?_, h2, fun x y => ?_⟩
        · intro w hw
          rcases List.mem_cons.mp hw with rfl | hw
          · exact hi
          · exact h1 w hw
        · simp only [List.mem_append, mem_colCells, h3, List.mem_cons, exists_eq_or_imp]
          constructor
          · rintro (⟨rfl, hy⟩ | (⟨hex, hy⟩ | h))
            · exact Or.inl ⟨Or.inl rfl, hy⟩
            · exact Or.inl ⟨Or.inr hex, hy⟩
            · exact Or.inr h
          · rintro (⟨h | h, hy⟩ | h)
            · exact Or.inl ⟨h.symm, hy⟩
            · exact Or.inr (Or.inl ⟨h, hy⟩)
            · exact Or.inr (Or.inr h)
    · simp [hi] at h

theorem toShadingVals_error (n : Nat) : ∀ (V : List Int) (e : Err), toShadingVals n V = .error e →
    e = .assertion ∧ ∃ v ∈ V, v < 0 ∨ (n : Int) < v
  | [], e, h => by simp [toShadingVals] at h
  | v :: rest, e, h => by
    unfold toShadingVals at h
    by_cases hv : 0 ≤ v ∧ v ≤ (n : Int)
    · simp only [hv, and_self, if_true] at h
      cases hr : toShadingVals n rest with
      | ok r => simp [hr] at h
      | error e' =>
        simp only [hr, Except.error.injEq] at h
        subst h
        obtain ⟨h1, w, hw, hw2⟩ := toShadingVals_error n rest e' hr
        exact ⟨h1, w, List.mem_cons_of_mem _ hw, hw2⟩
    · simp only [hv, if_false, Except.error.injEq] at h
      exact ⟨h.symm, v, List.mem_cons_self, by omega⟩

theorem toShading_error (n : Nat) : ∀ (I V : List Int) (e : Err), toShading n I V = .error e →
    e = .assertion ∧ ∃ v ∈ I ++ V, v < 0 ∨ (n : Int) < v
  | [], V, e, h => by
    simp only [toShading] at h
    simpa using toShadingVals_error n V e h
  | i :: rest, V, e, h => by
    unfold toShading at h
    by_cases hi : 0 ≤ i ∧ i ≤ (n : Int)
    · simp only [hi, and_self, if_true] at h
      cases hr : toShading n rest V with
      | ok r => simp [hr] at h
      | error e' =>
        simp only [hr, Except.error.injEq] at h
        subst h
        obtain ⟨h1, w, hw, hw2⟩ := toShading_error n rest V e' hr
        exact ⟨h1, w, by simp only [List.cons_append, List.mem_cons]; exact Or.inr hw, hw2⟩
    · simp only [hi, if_false, Except.error.injEq] at h
      exact ⟨h.symm, i, by simp, by omega⟩

theorem mkMesh_of_toShading {π : NSeq} {I V : List Int} {R : List Cell}
    (h : toShading π.length I V = .ok R) : mkMesh π R = .ok ⟨π, R.eraseDups⟩ := by
  obtain ⟨_, _, h3⟩ := toShading_ok _ I V R h
  unfold mkMesh
  have : (R.all fun c => decide (c.1 ≤ π.length) && decide (c.2 ≤ π.length)) = true := by
    rw [List.all_eq_true]
    rintro ⟨x, y⟩ hxy
    have hj : ∀ j : Int, 0 ≤ j → j ≤ (π.length : Int) → j.toNat ≤ π.length := by intro j h0 h1; omega
    obtain ⟨h1, h2, _⟩ := toShading_ok _ I V R h
    rcases (h3 x y).mp hxy with ⟨⟨j, hj1, rfl⟩, hy⟩ | ⟨⟨v, hv1, rfl⟩, hx⟩
    · have := h1 j hj1; simp only [Bool.and_eq_true, decide_eq_true_eq]; exact ⟨hj j this.1 this.2, hy⟩
    · have := h2 v hv1; simp only [Bool.and_eq_true, decide_eq_true_eq]; exact ⟨hx, hj v this.1 this.2⟩
  simp only [this, if_true]

/-- column `j` of the occurrence grid holds no other point of `σ` iff the position requirement `j` holds -/
theorem column_free_iff {π σ : NSeq} {c : List Nat} (hocc : IsOcc π σ c) (j : Nat) (hj : j ≤ π.length) :
    (∀ i, i < σ.length → i ∉ c → (Spec.cellOf σ c i).1 ≠ j) ↔ Spec.AdjPos c σ.length j := by
  have h := gap_iff c σ.length hocc.inc hocc.rng j (by rw [hocc.len]; exact hj)
  unfold Spec.AdjPos
  constructor
  · intro hall
    by_contra hne
    obtain ⟨t, h1, h2, h3⟩ := h.mpr hne
    exact hall t h1 h2 h3
  · intro hadj i hi hic hcell
    exact (h.mp ⟨i, hi, hic, hcell⟩) hadj

/-- row `v` of the occurrence grid holds no other point of `σ` iff the value requirement `v` holds -/
theorem row_free_iff {π σ : NSeq} {c : List Nat} (hπ : IsPerm π) (hσ : IsPerm σ) (hocc : IsOcc π σ c)
    (v : Nat) (hv : v ≤ π.length) :
    (∀ i, i < σ.length → i ∉ c → (Spec.cellOf σ c i).2 ≠ v) ↔ Spec.AdjVal π σ c v := by
  have hWn : ∀ x ∈ wList π σ c, x < σ.length := by
    intro x hx
    rw [mem_wList_iff hπ hocc.len] at hx
    simp only [Spec.pick, List.mem_map] at hx
    obtain ⟨i, hi, rfl⟩ := hx
    exact hσ.getD_lt (hocc.rng i hi)
  have h := gap_iff (wList π σ c) σ.length (wList_sorted hπ hocc) hWn v (by rw [wList_length]; exact hv)
  have hmemW : ∀ i, i < σ.length → (σ.getD i 0 ∈ wList π σ c ↔ i ∈ c) := by
    intro i hi
    rw [mem_wList_iff hπ hocc.len]
    have := pick_contains σ c hσ hocc.rng i hi
    rw [Bool.eq_iff_iff] at this
    simpa using this
  have hex : (∃ i, i < σ.length ∧ i ∉ c ∧ (Spec.cellOf σ c i).2 = v) ↔
      (∃ t, t < σ.length ∧ t ∉ wList π σ c ∧ ((wList π σ c).filter (· < t)).length = v) := by
    constructor
    · rintro ⟨i, hi, hic, hcell⟩
      refine ⟨σ.getD i 0, hσ.getD_lt hi, fun hm => hic ((hmemW i hi).mp hm), ?_⟩
      rw [← countVal_eq hπ hocc.len]; exact hcell
    · rintro ⟨t, ht, htW, hcnt⟩
      obtain ⟨i, hi, rfl⟩ := hσ.surj ht
      refine ⟨i, hi, fun hm => htW ((hmemW i hi).mpr hm), ?_⟩
      show (c.filter fun j => σ.getD j 0 < σ.getD i 0).length = v
      rw [countVal_eq hπ hocc.len]; exact hcnt
  have hadj : Spec.AdjVal π σ c v ↔ (wList π σ c).getD v σ.length = Spec.prevPos (wList π σ c) v := by
    unfold Spec.AdjVal Spec.prevPos
    have h1 : (wList π σ c).getD v σ.length = if v < π.length then Spec.valAt π σ c v else σ.length := by
      by_cases hvl : v < π.length
      · simp only [hvl, if_true]; exact wList_getD hvl _
      · simp only [hvl, if_false]
        simp [List.getD_eq_getElem?_getD, List.getElem?_eq_none (show (wList π σ c).length ≤ v by rw [wList_length]; omega)]
    rw [h1]
    by_cases h0 : v = 0
    · simp [h0]
    · simp only [h0, if_false]
      rw [wList_getD (show v - 1 < π.length by omega)]
  rw [hadj]
  constructor
  · intro hall
    by_contra hne
    obtain ⟨i, h1, h2, h3⟩ := hex.mpr (h.mpr hne)
    exact hall i h1 h2 h3
  · intro ha i hi hic hcell
    exact (h.mp (hex.mp ⟨i, hi, hic, hcell⟩)) ha

theorem cellOf_le {σ : NSeq} {c : List Nat} (i : Nat) :
    (Spec.cellOf σ c i).1 ≤ c.length ∧ (Spec.cellOf σ c i).2 ≤ c.length :=
  ⟨List.length_filter_le _ _, List.length_filter_le _ _⟩

end MeshLemmas
