import PermutaModel.Lemmas.C04Sym
import Mathlib.Logic.Function.Iterate
/-! C04 helper lemmas: the rotations as powers of the quarter turn. -/
open Model

namespace C04L

theorem isPerm_reverseComplement {p : NSeq} (hp : IsPerm p) : IsPerm (reverseComplement p) := by
  rw [reverseComplement_eq_reverse_complement]; exact isPerm_reverse (isPerm_complement hp)

theorem isPerm_rotate1 {p : NSeq} (hp : IsPerm p) : IsPerm (rotate1 p) := by
  rw [rotate1_eq]; exact isPerm_complement (isPerm_inverse hp)

theorem isPerm_rotate3 {p : NSeq} (hp : IsPerm p) : IsPerm (rotate3 p) := by
  rw [rotate3_eq]; exact isPerm_reverse (isPerm_inverse hp)

theorem isPerm_flipAntidiagonal {p : NSeq} (hp : IsPerm p) : IsPerm (flipAntidiagonal p) := by
  rw [flipAntidiagonal_eq]; exact isPerm_reverseComplement (isPerm_inverse hp)

theorem isPerm_rotate {p : NSeq} (hp : IsPerm p) (t : Int) : IsPerm (rotate p t) := by
  unfold rotate; split_ifs
  · exact hp
  · exact isPerm_reverseComplement hp
  · exact isPerm_rotate1 hp
  · exact isPerm_rotate3 hp

/-- two quarter turns are the half turn -/
theorem rotate1_rotate1 {p : NSeq} (hp : IsPerm p) : rotate1 (rotate1 p) = reverseComplement p := by
  rw [rotate1_eq, rotate1_eq, inverse_complement (isPerm_inverse hp), inverse_inverse hp,
    reverseComplement_eq_complement_reverse]

/-- a quarter turn after the half turn is the three-quarter turn -/
theorem rotate1_reverseComplement {p : NSeq} (hp : IsPerm p) :
    rotate1 (reverseComplement p) = rotate3 p := by
  rw [rotate1_eq, rotate3_eq, reverseComplement_eq_complement_reverse,
    inverse_complement (isPerm_reverse hp), inverse_reverse hp, complement_reverse,
    complement_complement (isPerm_inverse hp)]

/-- four quarter turns are the identity -/
theorem rotate1_rotate3 {p : NSeq} (hp : IsPerm p) : rotate1 (rotate3 p) = p := by
  rw [rotate1_eq, rotate3_eq, inverse_reverse (isPerm_inverse hp), inverse_inverse hp,
    complement_complement hp]

theorem isPerm_iterate {p : NSeq} (hp : IsPerm p) (k : Nat) : IsPerm (rotate1^[k] p) := by
  induction k with
  | zero => exact hp
  | succ k ih => rw [Function.iterate_succ_apply']; exact isPerm_rotate1 ih

theorem iterate_four {p : NSeq} (hp : IsPerm p) : rotate1^[4] p = p := by
  show rotate1 (rotate1 (rotate1 (rotate1 p))) = p
  rw [rotate1_rotate1 hp, rotate1_reverseComplement hp, rotate1_rotate3 hp]

/-- `rotate p t` is the quarter turn applied `t mod 4` times -/
theorem rotate_eq_iterate {p : NSeq} (hp : IsPerm p) (t : Int) :
    rotate p t = rotate1^[(t % 4).toNat] p := by
  have h : t % 4 = 0 ∨ t % 4 = 1 ∨ t % 4 = 2 ∨ t % 4 = 3 := by omega
  unfold rotate
  rcases h with h | h | h | h <;> rw [h]
  · rfl
  · rfl
  · show reverseComplement p = rotate1 (rotate1 p)
    rw [rotate1_rotate1 hp]
  · show rotate3 p = rotate1 (rotate1 (rotate1 p))
    rw [rotate1_rotate1 hp, rotate1_reverseComplement hp]

theorem iterate_mod4 {p : NSeq} (hp : IsPerm p) (k : Nat) : rotate1^[k] p = rotate1^[k % 4] p := by
  induction k using Nat.strongRecOn with
  | _ k ih =>
    by_cases hk : k < 4
    · rw [Nat.mod_eq_of_lt hk]
    · have : k = (k - 4) + 4 := by omega
      rw [this, Function.iterate_add_apply, iterate_four hp, ih (k - 4) (by omega)]
      congr 1; omega

theorem rotate_add {p : NSeq} (hp : IsPerm p) (s t : Int) :
    rotate p (s + t) = rotate (rotate p t) s := by
  rw [rotate_eq_iterate hp, rotate_eq_iterate hp t, rotate_eq_iterate (isPerm_iterate hp _) s,
    ← Function.iterate_add_apply, iterate_mod4 hp ((s % 4).toNat + (t % 4).toNat)]
  congr 1; omega

end C04L
