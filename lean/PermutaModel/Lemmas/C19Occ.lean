import PermutaModel.Spec.Basic
import PermutaModel.Lemmas.PermBasic

/-! C19 helper lemmas shared by the two readings of the mesh conditions (`Lemmas/C19Shapes.lean` in the
    vocabulary of `Spec/C04.lean`, `Lemmas/C19MeshC03.lean` in the vocabulary of `Spec/Mesh.lean`, which cannot be
    imported together): occurrences of the patterns `21` and `12`, the two largest values of a permutation,
    adjacent positions as a consecutive factor. -/

namespace C19

/-- an occurrence of the pattern `21` is a pair of positions carrying a descent of values -/
theorem isOcc_10_iff (σ : NSeq) (c : List Nat) :
    IsOcc [1, 0] σ c ↔ ∃ i j, c = [i, j] ∧ i < j ∧ j < σ.length ∧ σ.getD j 0 < σ.getD i 0 := by
  constructor
  · intro h
    have hl := h.len
    match c, hl with
    | [i, j], _ =>
      have hinc := h.inc
      simp only [StrictInc, List.pairwise_cons, List.mem_cons, List.not_mem_nil, or_false, forall_eq,
        List.Pairwise.nil, and_true] at hinc
      refine ⟨i, j, rfl, hinc.1, h.rng j (by simp), ?_⟩
      have := (h.iso 1 0 (by simp) (by simp)).mp (by simp)
      simpa using this
  · rintro ⟨i, j, rfl, hij, hj, hv⟩
    refine ⟨rfl, ?_, ?_, ?_⟩
    · simp [StrictInc, hij]
    · intro k hk
      simp only [List.mem_cons, List.not_mem_nil, or_false] at hk
      rcases hk with rfl | rfl <;> omega
    · intro a b ha hb
      simp only [List.length_cons, List.length_nil] at ha hb
      rw [List.getD_eq_getElem?_getD, List.getD_eq_getElem?_getD] at hv
      have ha' : a = 0 ∨ a = 1 := by omega
      have hb' : b = 0 ∨ b = 1 := by omega
      rcases ha' with rfl | rfl <;> rcases hb' with rfl | rfl <;> simp <;> omega

/-- an occurrence of the pattern `12` is a pair of positions carrying an ascent of values -/
theorem isOcc_01_iff (σ : NSeq) (c : List Nat) :
    IsOcc [0, 1] σ c ↔ ∃ i j, c = [i, j] ∧ i < j ∧ j < σ.length ∧ σ.getD i 0 < σ.getD j 0 := by
  constructor
  · intro h
    have hl := h.len
    match c, hl with
    | [i, j], _ =>
      have hinc := h.inc
      simp only [StrictInc, List.pairwise_cons, List.mem_cons, List.not_mem_nil, or_false, forall_eq,
        List.Pairwise.nil, and_true] at hinc
      refine ⟨i, j, rfl, hinc.1, h.rng j (by simp), ?_⟩
      have := (h.iso 0 1 (by simp) (by simp)).mp (by simp)
      simpa using this
  · rintro ⟨i, j, rfl, hij, hj, hv⟩
    refine ⟨rfl, ?_, ?_, ?_⟩
    · simp [StrictInc, hij]
    · intro k hk
      simp only [List.mem_cons, List.not_mem_nil, or_false] at hk
      rcases hk with rfl | rfl <;> omega
    · intro a b ha hb
      simp only [List.length_cons, List.length_nil] at ha hb
      rw [List.getD_eq_getElem?_getD, List.getD_eq_getElem?_getD] at hv
      have ha' : a = 0 ∨ a = 1 := by omega
      have hb' : b = 0 ∨ b = 1 := by omega
      rcases ha' with rfl | rfl <;> rcases hb' with rfl | rfl <;> simp <;> omega

/-- in a permutation, two points above all others carry the two largest values -/
theorem top_two {q : NSeq} (hq : IsPerm q) {a b : Nat} (ha : a < q.length) (hb : b < q.length)
    (hab : q.getD b 0 < q.getD a 0)
    (hall : ∀ k, k < q.length → k ≠ a → k ≠ b → q.getD k 0 < q.getD b 0) :
    q.getD a 0 = q.length - 1 ∧ q.getD b 0 = q.length - 2 := by
  have hla := hq.getD_lt ha
  have hlb := hq.getD_lt hb
  have h1 : q.getD a 0 = q.length - 1 := by
    obtain ⟨k, hk, hkv⟩ := hq.surj (v := q.length - 1) (by omega)
    by_cases hka : k = a
    · rw [← hka]; exact hkv
    · by_cases hkb : k = b
      · subst hkb; omega
      · have := hall k hk hka hkb; omega
  refine ⟨h1, ?_⟩
  have hne : a ≠ b := by intro e; subst e; omega
  obtain ⟨k, hk, hkv⟩ := hq.surj (v := q.length - 2) (by omega)
  by_cases hkb : k = b
  · rw [← hkb]; exact hkv
  · by_cases hka : k = a
    · subst hka; omega
    · have := hall k hk hka hkb; omega

/-- conversely every other point lies below the two largest values -/
theorem below_top_two {q : NSeq} (hq : IsPerm q) {a b : Nat} (ha : a < q.length) (hb : b < q.length)
    (h1 : q.getD a 0 = q.length - 1) (h2 : q.getD b 0 = q.length - 2) :
    ∀ k, k < q.length → k ≠ a → k ≠ b → q.getD k 0 < q.length - 2 := by
  intro k hk hka hkb
  have hlk := hq.getD_lt hk
  have n1 : q.getD k 0 ≠ q.getD a 0 := fun e => hka (hq.getD_inj hk ha e)
  have n2 : q.getD k 0 ≠ q.getD b 0 := fun e => hkb (hq.getD_inj hk hb e)
  omega

/-- two prescribed values at adjacent positions = a consecutive factor of the one-line notation -/
theorem adjacent_iff_factor (q : NSeq) (u v : Nat) :
    (∃ i, i + 1 < q.length ∧ q.getD i 0 = u ∧ q.getD (i + 1) 0 = v) ↔ ∃ a b, q = a ++ u :: v :: b := by
  constructor
  · rintro ⟨i, hi, hu, hv⟩
    refine ⟨q.take i, q.drop (i + 2), ?_⟩
    rw [List.getD_eq_getElem?_getD, List.getElem?_eq_getElem (by omega)] at hu
    rw [List.getD_eq_getElem?_getD, List.getElem?_eq_getElem hi] at hv
    simp only [Option.getD_some] at hu hv
    conv_lhs => rw [← List.take_append_drop i q]
    rw [List.drop_eq_getElem_cons (by omega : i < q.length), List.drop_eq_getElem_cons hi, hu, hv]
  · rintro ⟨a, b, rfl⟩
    refine ⟨a.length, by simp, ?_, ?_⟩
    · simp [List.getD_eq_getElem?_getD]
    · simp [List.getD_eq_getElem?_getD]

end C19
