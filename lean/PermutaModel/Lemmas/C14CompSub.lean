import PermutaModel.Lemmas.C14SoundPts
import PermutaModel.Lemmas.C17Perm
/-! C14 completeness helpers: a pattern occurrence in the decoded permutation is a sub-configuration
    of the points. -/
namespace C14S
open Model.C14 Model.C14.Letter Spec.C14 Proto C14L

theorem nodup_of_xs {L : List Pt} (h : (xs L).Nodup) : L.Nodup := List.Nodup.of_map _ h

theorem sorted_unique {A B : List Pt} (hA : (xs A).Pairwise (· < ·)) (hB : (xs B).Pairwise (· < ·))
    (hp : A.Perm B) : A = B := by
  rw [List.pairwise_map] at hA hB
  refine List.Perm.eq_of_pairwise (le := fun a b : Pt => a.1 < b.1) ?_ hA hB hp
  intro a b _ _ h1 h2
  exact absurd h1 (by grind)

theorem sub_of_contains {P : List Pt} (hx : (xs P).Nodup) (hy : (ys P).Nodup) {π : NSeq}
    (hπ : IsPerm π) (h : Contains (permOfPts P) π) :
    ∃ S, S.Sublist P ∧ permOfPts S = π := by
  obtain ⟨c, hc⟩ := h
  have hlP : (sortedPins P).length = P.length := (sortedPins_perm P).length_eq
  have hrng : ∀ i ∈ c, i < (sortedPins P).length := fun i hi => by
    have := hc.rng i hi; rw [permOfPts_length] at this; omega
  have hsP := sortedPins_xs_sorted hx
  let T : List Pt := c.map (fun i => (sortedPins P).getD i origin)
  have hTlen : T.length = c.length := by simp [T]
  have hTget : ∀ a (ha : a < c.length), T.getD a origin = (sortedPins P).getD (c.getD a 0) origin := by
    intro a ha
    simp [T, List.getD_eq_getElem?_getD, List.getElem?_eq_getElem ha]
  have hTx : (xs T).Pairwise (· < ·) := by
    simp only [T, xs, List.map_map]
    rw [List.pairwise_map]
    have hinc := hc.inc
    simp only [StrictInc] at hinc
    refine hinc.imp_of_mem ?_
    intro i j hi hj hij
    have hi' := hrng i hi
    have hj' := hrng j hj
    simp only [Function.comp, List.getD_eq_getElem?_getD, List.getElem?_eq_getElem hi',
      List.getElem?_eq_getElem hj', Option.getD_some]
    have := List.pairwise_iff_getElem.mp hsP i j (by simpa using hi') (by simpa using hj') hij
    simpa using this
  have hTmem : ∀ p ∈ T, p ∈ P := by
    intro p hp
    obtain ⟨i, hi, rfl⟩ := List.mem_map.mp hp
    have hi' := hrng i hi
    simp only [List.getD_eq_getElem?_getD, List.getElem?_eq_getElem hi', Option.getD_some]
    exact (sortedPins_perm P).mem_iff.mp (List.getElem_mem hi')
  let S : List Pt := P.filter (fun p => decide (p ∈ T))
  have hSsub : S.Sublist P := List.filter_sublist
  have hSx : (xs S).Nodup := (hSsub.map _).nodup hx
  have hSy : (ys S).Nodup := (hSsub.map _).nodup hy
  have hperm : S.Perm T := by
    rw [List.perm_ext_iff_of_nodup (nodup_of_xs hSx) (nodup_of_xs hTx.nodup)]
    intro p
    simp only [S, List.mem_filter, decide_eq_true_eq]
    exact ⟨fun h => h.2, fun h => ⟨hTmem p h, h⟩⟩
  have hsorted : sortedPins S = T :=
    sorted_unique (sortedPins_xs_sorted hSx) hTx ((sortedPins_perm S).trans hperm)
  have hSlen : S.length = π.length := by rw [hperm.length_eq, hTlen, hc.len]
  refine ⟨S, hSsub, ?_⟩
  apply Model.C17.perm_eq_of_iso (permOfPts_isPerm hSy) hπ (by rw [permOfPts_length, hSlen])
  intro a b ha hb
  rw [permOfPts_length] at ha hb
  rw [permOfPts_orderIso a b ha hb, hsorted, hTget a (by rw [hc.len]; omega),
    hTget b (by rw [hc.len]; omega), hc.iso a b (by omega) (by omega)]
  have hca : c.getD a 0 < P.length := by
    have := hrng (c.getD a 0) (by
      have : a < c.length := by rw [hc.len]; omega
      simp [List.getD_eq_getElem?_getD, List.getElem?_eq_getElem this])
    omega
  have hcb : c.getD b 0 < P.length := by
    have := hrng (c.getD b 0) (by
      have : b < c.length := by rw [hc.len]; omega
      simp [List.getD_eq_getElem?_getD, List.getElem?_eq_getElem this])
    omega
  exact (permOfPts_orderIso _ _ hca hcb).symm

end C14S
