import PermutaModel.Generated.Tables
import PermutaModel.Model.C14
/-! C14: reading of the generated source tables (`Generated.c14_*`) in the model's vocabulary. -/
namespace C14L
open Model.C14 Model.C14.Letter

/-- a one-character string of the source as a letter of the model -/
def letterOfString (s : String) : Letter :=
  match s.toList with
  | [c] => Letter.ofChar c
  | _ => X ' '

def wordOfString (s : String) : Word := s.toList.map Letter.ofChar

/-- the statement shape `tools/translate_items.py` extracts from `char_1 … char_4` -/
def numeralShape (xPos yPos : Bool) : List String :=
  [if xPos then "next_x=max_x.all.Add.one" else "next_x=min_x.all.Sub.one",
   if yPos then "next_y=max_y.all.Add.one" else "next_y=min_y.all.Sub.one",
   "ret=next_x,next_y"]

/-- the statement shape of `char_u / char_d` (vertical) and `char_l / char_r` (horizontal):
    bind the tested coordinate of `pre_perm[-1]`; `> max(init)` → midpoint with the max,
    `< min(init)` → midpoint with the min, else `assert False`; the other coordinate is
    `max + one` (`pos`) or `min - one` over the whole list -/
def dirShape (vert pos : Bool) : List String :=
  match vert, pos with
  | true, true =>
    ["bind=last_x@0", "if=last_x.Gt.max_x.init", "next_x=half.Mult.last_x.Add.max_x.init",
     "next_y=max_y.all.Add.one", "elif=last_x.Lt.min_x.init", "next_x=half.Mult.last_x.Add.min_x.init",
     "next_y=max_y.all.Add.one", "else=assert False", "ret=next_x,next_y"]
  | true, false =>
    ["bind=last_x@0", "if=last_x.Gt.max_x.init", "next_x=half.Mult.last_x.Add.max_x.init",
     "next_y=min_y.all.Sub.one", "elif=last_x.Lt.min_x.init", "next_x=half.Mult.last_x.Add.min_x.init",
     "next_y=min_y.all.Sub.one", "else=assert False", "ret=next_x,next_y"]
  | false, true =>
    ["bind=last_y@1", "if=last_y.Gt.max_y.init", "next_x=max_x.all.Add.one",
     "next_y=half.Mult.last_y.Add.max_y.init", "elif=last_y.Lt.min_y.init", "next_x=max_x.all.Add.one",
     "next_y=half.Mult.last_y.Add.min_y.init", "else=assert False", "ret=next_x,next_y"]
  | false, false =>
    ["bind=last_y@1", "if=last_y.Gt.max_y.init", "next_x=min_x.all.Sub.one",
     "next_y=half.Mult.last_y.Add.max_y.init", "elif=last_y.Lt.min_y.init", "next_x=min_x.all.Sub.one",
     "next_y=half.Mult.last_y.Add.min_y.init", "else=assert False", "ret=next_x,next_y"]

/-- method name of a letter in `PinWordUtil.caller` -/
def methodOf (c : Letter) : String :=
  match c with
  | q1 => "char_1" | q2 => "char_2" | q3 => "char_3" | q4 => "char_4"
  | U => "char_u" | L => "char_l" | D => "char_d" | R => "char_r"
  | X _ => ""

/-- what the model's two letter tables say about the source, in the extractor's format -/
def expectedShapes : List (String × List String) :=
  (numeralTable.map fun e => (methodOf e.1, numeralShape e.2.1 e.2.2))
  ++ (dirTable.map fun e => (methodOf e.1, dirShape e.2.1 e.2.2))

def expectedCaller : List (String × String) :=
  (numeralTable.map fun e => (String.singleton e.1.toChar, methodOf e.1))
  ++ (dirTable.map fun e => (String.singleton e.1.toChar, methodOf e.1))

end C14L
