import PermutaModel.Model.C10
import PermutaModel.Lemmas.PermBasic
import Mathlib.Data.List.Perm.Basic
import Mathlib.Data.List.GetD
import Mathlib.Data.List.Nodup

/-! Basic facts about permutations-as-lists used by the C10 theorems:
    pointwise extensionality, `IsPerm` ↔ `List.Perm (range n)`, and the inverse. -/
open Model

namespace C10L

theorem getD_eq_getElem' {p : NSeq} {i : Nat} (h : i < p.length) : p.getD i 0 = p[i] := by
  simp [List.getD_eq_getElem?_getD, h]

theorem getD_range_map (n : Nat) (f : Nat → Nat) {i : Nat} (h : i < n) :
    ((List.range n).map f).getD i 0 = f i := by
  simp [List.getD_eq_getElem?_getD, h]

theorem ext_getD {a b : NSeq} (hl : a.length = b.length)
    (h : ∀ i, i < a.length → a.getD i 0 = b.getD i 0) : a = b := by
  apply List.ext_getElem hl
  intro i h1 h2
  have := h i h1
  rwa [getD_eq_getElem' h1, getD_eq_getElem' h2] at this

theorem getD_mem {p : NSeq} {i : Nat} (h : i < p.length) : p.getD i 0 ∈ p := by
  rw [getD_eq_getElem' h]; exact List.getElem_mem h

theorem exists_getD_of_mem {p : NSeq} {x : Nat} (h : x ∈ p) : ∃ i, i < p.length ∧ p.getD i 0 = x := by
  obtain ⟨i, hi, rfl⟩ := List.getElem_of_mem h
  exact ⟨i, hi, getD_eq_getElem' hi⟩

theorem mem_iff {p : NSeq} (h : IsPerm p) {x : Nat} : x ∈ p ↔ x < p.length := by
  constructor
  · exact h.2 x
  · intro hx
    obtain ⟨a, ha, rfl⟩ := h.surj hx
    exact getD_mem ha

theorem perm_range {p : NSeq} (h : IsPerm p) : p.Perm (List.range p.length) := by
  rw [List.perm_ext_iff_of_nodup h.1 List.nodup_range]
  intro a
  rw [mem_iff h, List.mem_range]

theorem isPerm_of_perm {p q : NSeq} (h : IsPerm p) (hq : q.Perm p) : IsPerm q := by
  refine ⟨hq.nodup_iff.mpr h.1, ?_⟩
  intro x hx
  rw [hq.length_eq]
  exact h.2 x (hq.mem_iff.mp hx)

theorem isPerm_iff_perm_range {p : NSeq} : IsPerm p ↔ p.Perm (List.range p.length) := by
  constructor
  · exact perm_range
  · intro h
    refine ⟨h.nodup_iff.mpr List.nodup_range, ?_⟩
    intro x hx
    exact List.mem_range.mp (h.mem_iff.mp hx)

theorem isPerm_nil : IsPerm [] := by decide

theorem isPerm_range (n : Nat) : IsPerm (List.range n) := by
  refine ⟨List.nodup_range, ?_⟩
  intro x hx
  simpa using hx

theorem isPerm_identity (n : Nat) : IsPerm (identity n) := isPerm_range n

/-- criterion: a list `(range n).map f` with `f` injective and bounded on `range n` is a permutation -/
theorem isPerm_range_map {n : Nat} {f : Nat → Nat} (hb : ∀ i, i < n → f i < n)
    (hinj : ∀ i j, i < n → j < n → f i = f j → i = j) : IsPerm ((List.range n).map f) := by
  refine ⟨?_, ?_⟩
  · apply List.Nodup.map_on _ List.nodup_range
    intro x hx y hy hxy
    exact hinj x y (List.mem_range.mp hx) (List.mem_range.mp hy) hxy
  · intro x hx
    obtain ⟨i, hi, rfl⟩ := List.mem_map.mp hx
    simpa using hb i (List.mem_range.mp hi)

/-! ### inverse -/

@[simp] theorem length_inverse (p : NSeq) : (inverse p).length = p.length := by
  simp [inverse]

theorem inverse_getD (p : NSeq) {v : Nat} (hv : v < p.length) : (inverse p).getD v 0 = p.idxOf v := by
  unfold inverse
  exact getD_range_map _ _ hv

theorem inverse_getD_getD {p : NSeq} (h : IsPerm p) {i : Nat} (hi : i < p.length) :
    (inverse p).getD (p.getD i 0) 0 = i := by
  rw [inverse_getD p (h.getD_lt hi), getD_eq_getElem' hi]
  exact h.1.idxOf_getElem i hi

theorem inverse_getD_lt {p : NSeq} (h : IsPerm p) {v : Nat} (hv : v < p.length) :
    (inverse p).getD v 0 < p.length := by
  rw [inverse_getD p hv]
  exact List.idxOf_lt_length_iff.mpr ((mem_iff h).mpr hv)

theorem getD_inverse_getD {p : NSeq} (h : IsPerm p) {v : Nat} (hv : v < p.length) :
    p.getD ((inverse p).getD v 0) 0 = v := by
  have hlt := inverse_getD_lt h hv
  rw [inverse_getD p hv] at hlt ⊢
  rw [getD_eq_getElem' hlt]
  exact List.getElem_idxOf hlt

theorem inverse_unique {p : NSeq} (h : IsPerm p) {j v : Nat} (hj : j < p.length) (hv : p.getD j 0 = v) :
    (inverse p).getD v 0 = j := by
  subst hv
  exact inverse_getD_getD h hj

theorem inverse_isPerm {p : NSeq} (h : IsPerm p) : IsPerm (inverse p) := by
  unfold inverse
  apply isPerm_range_map
  · intro v hv
    exact List.idxOf_lt_length_iff.mpr ((mem_iff h).mpr hv)
  · intro a b ha hb hab
    have h1 := getD_inverse_getD h ha
    have h2 := getD_inverse_getD h hb
    rw [inverse_getD p ha] at h1
    rw [inverse_getD p hb] at h2
    rw [← h1, ← h2, hab]

theorem inverse_inverse {p : NSeq} (h : IsPerm p) : inverse (inverse p) = p := by
  apply ext_getD (by simp)
  intro i hi
  simp only [length_inverse] at hi
  have hq := inverse_isPerm h
  apply inverse_unique hq
  · simpa using h.getD_lt hi
  · exact inverse_getD_getD h hi

end C10L
