import PermutaModel.Lemmas.C16Fam
import Mathlib.Tactic.IntervalCases
/-!
C16, converse direction for the parallel alternations: every permutation avoiding the generated
table `c16_altBasis = [012, 1302, 2301]` is a union of two decreasing runs (`alt_structure`) and
therefore a sub-permutation of every sufficiently long parallel alternation (`alt_closure`).
-/
open Model

namespace C16Conv.Alt
open C04L

/-! ### small helpers -/

theorem getD_lt_of_isPerm (x : NSeq) (hx : IsPerm x) (p : Nat) (hp : p < x.length) :
    x.getD p 0 < x.length := by
  apply hx.2
  rw [List.getD_eq_getElem?_getD, List.getElem?_eq_getElem hp]
  exact List.getElem_mem hp

theorem getD_inj_of_isPerm (x : NSeq) (hx : IsPerm x) (p q : Nat) (hp : p < x.length)
    (hq : q < x.length) (h : x.getD p 0 = x.getD q 0) : p = q := by
  rw [List.getD_eq_getElem?_getD, List.getD_eq_getElem?_getD, List.getElem?_eq_getElem hp,
    List.getElem?_eq_getElem hq] at h
  simp only [Option.getD_some] at h
  exact (List.Nodup.getElem_inj_iff hx.1).mp h

theorem contains3 (x τ : NSeq) (i j k : Nat) (h : i < j ∧ j < k ∧ k < x.length)
    (hτ : τ.length = 3)
    (hiso : ∀ a b, a < 3 → b < 3 →
      (τ.getD a 0 < τ.getD b 0 ↔ x.getD ([i, j, k].getD a 0) 0 < x.getD ([i, j, k].getD b 0) 0)) :
    Contains x τ := by
  refine ⟨[i, j, k], ⟨by simp [hτ], ?_, ?_, ?_⟩⟩
  · simp [StrictInc]; omega
  · simp; omega
  · rw [hτ]; exact hiso

theorem contains4 (x τ : NSeq) (i j k l : Nat) (h : i < j ∧ j < k ∧ k < l ∧ l < x.length)
    (hτ : τ.length = 4)
    (hiso : ∀ a b, a < 4 → b < 4 →
      (τ.getD a 0 < τ.getD b 0 ↔
        x.getD ([i, j, k, l].getD a 0) 0 < x.getD ([i, j, k, l].getD b 0) 0)) :
    Contains x τ := by
  refine ⟨[i, j, k, l], ⟨by simp [hτ], ?_, ?_, ?_⟩⟩
  · simp [StrictInc]; omega
  · simp; omega
  · rw [hτ]; exact hiso

/-- least witness (avoids importing `Nat.find`) -/
theorem exists_least (P : Nat → Prop) : ∀ j, P j → ∃ a, P a ∧ ∀ b, b < a → ¬ P b := by
  intro j
  induction j using Nat.strongRecOn with
  | _ j ih =>
    intro hj
    by_cases h : ∃ b, b < j ∧ P b
    · obtain ⟨b, hb, hPb⟩ := h
      exact ih b hb hPb
    · exact ⟨j, hj, fun b hb hPb => h ⟨b, hb, hPb⟩⟩

/-! ### the structure theorem, for an abstract value function -/

theorem struct_abs (v : Nat → Nat) (n : Nat)
    (hinj : ∀ p q, p < n → q < n → v p = v q → p = q)
    (h012 : ∀ i j k, i < j → j < k → k < n → ¬ (v i < v j ∧ v j < v k))
    (h1302 : ∀ i j k l, i < j → j < k → k < l → l < n → ¬ (v k < v i ∧ v i < v l ∧ v l < v j))
    (h2301 : ∀ i j k l, i < j → j < k → k < l → l < n → ¬ (v k < v l ∧ v l < v i ∧ v i < v j)) :
    ∃ a, a ≤ n ∧ (∀ p q, p < q → q < a → v q < v p) ∧
      (∀ p q, a ≤ p → p < q → q < n → v q < v p) := by
  by_cases hex : ∃ j, j < n ∧ ∃ i, i < j ∧ v i < v j
  · obtain ⟨j, hj⟩ := hex
    obtain ⟨a, ⟨han, i, hia, hvia⟩, hmin⟩ := exists_least (fun j => j < n ∧ ∃ i, i < j ∧ v i < v j) j hj
    refine ⟨a, by omega, ?_, ?_⟩
    · intro p q hpq hqa
      have h1 : ¬ (v p < v q) := fun h => hmin q hqa ⟨by omega, p, hpq, h⟩
      have h2 : v p ≠ v q := fun h => by have := hinj p q (by omega) (by omega) h; omega
      omega
    · intro p q hap hpq hqn
      have hne : v p ≠ v q := fun h => by have := hinj p q (by omega) (by omega) h; omega
      have hne2 : v i ≠ v q := fun h => by have := hinj i q (by omega) (by omega) h; omega
      by_cases hlt : v p < v q
      · exfalso
        by_cases hpa : p = a
        · subst hpa
          exact h012 i p q hia hpq hqn ⟨hvia, hlt⟩
        · have hap' : a < p := by omega
          have h1 : v q < v a := by
            have := h012 i a q hia (by omega) hqn
            have hne3 : v a ≠ v q := fun h => by have := hinj a q (by omega) (by omega) h; omega
            omega
          have h2 : v p < v i := by
            have := h012 i p q (by omega) hpq hqn
            have hne3 : v i ≠ v p := fun h => by have := hinj i p (by omega) (by omega) h; omega
            omega
          by_cases h3 : v i < v q
          · exact h1302 i a p q hia hap' hpq hqn ⟨h2, h3, h1⟩
          · exact h2301 i a p q hia hap' hpq hqn ⟨hlt, by omega, hvia⟩
      · omega
  · refine ⟨n, Nat.le_refl n, ?_, ?_⟩
    · intro p q hpq hqn
      have h1 : ¬ (v p < v q) := fun h => hex ⟨q, hqn, p, hpq, h⟩
      have h2 : v p ≠ v q := fun h => by have := hinj p q (by omega) (by omega) h; omega
      omega
    · intro p q hnp hpq hqn
      omega

/-- a permutation avoiding `012`, `1302`, `2301` is the concatenation of two decreasing runs -/
theorem alt_structure (x : NSeq) (hx : IsPerm x)
    (hav : ∀ τ ∈ Generated.c16_altBasis, ¬ Contains x τ) :
    ∃ a, a ≤ x.length ∧ (∀ p q, p < q → q < a → x.getD q 0 < x.getD p 0) ∧
      (∀ p q, a ≤ p → p < q → q < x.length → x.getD q 0 < x.getD p 0) := by
  apply struct_abs (fun p => x.getD p 0) x.length
  · intro p q hp hq h
    exact getD_inj_of_isPerm x hx p q hp hq h
  · intro i j k hij hjk hk h
    apply hav [0, 1, 2] (by simp [Generated.c16_altBasis])
    apply contains3 x _ i j k ⟨hij, hjk, hk⟩ rfl
    simp only [List.getD_eq_getElem?_getD] at h
    intro a b ha hb
    interval_cases a <;> interval_cases b <;> simp <;> omega
  · intro i j k l hij hjk hkl hl h
    apply hav [1, 3, 0, 2] (by simp [Generated.c16_altBasis])
    apply contains4 x _ i j k l ⟨hij, hjk, hkl, hl⟩ rfl
    simp only [List.getD_eq_getElem?_getD] at h
    intro a b ha hb
    interval_cases a <;> interval_cases b <;> simp <;> omega
  · intro i j k l hij hjk hkl hl h
    apply hav [2, 3, 0, 1] (by simp [Generated.c16_altBasis])
    apply contains4 x _ i j k l ⟨hij, hjk, hkl, hl⟩ rfl
    simp only [List.getD_eq_getElem?_getD] at h
    intro a b ha hb
    interval_cases a <;> interval_cases b <;> simp <;> omega

/-! ### the embedding -/

theorem alt_closure (x : NSeq) (hx : IsPerm x)
    (hav : ∀ τ ∈ Generated.c16_altBasis, ¬ Contains x τ) (m : Nat) (hm : x.length ≤ m) :
    Contains (C16Fam.parAlt m) x := by
  obtain ⟨a, han, hL, hR⟩ := alt_structure x hx hav
  have hlt : ∀ p, p < x.length → x.getD p 0 < x.length := getD_lt_of_isPerm x hx
  have hinj : ∀ p q, p < x.length → q < x.length → x.getD p 0 = x.getD q 0 → p = q :=
    getD_inj_of_isPerm x hx
  rw [contains_iff_emb]
  have hlen : (C16Fam.parAlt m).length = 2 * m := by simp [C16Fam.parAlt]
  -- entry at the image position
  have hent : ∀ p, p < x.length →
      (C16Fam.parAlt m).getD (if p < a then m - 1 - x.getD p 0 else 2 * m - 1 - x.getD p 0) 0
        = if p < a then 2 * x.getD p 0 else 2 * x.getD p 0 + 1 := by
    intro p hp
    have := hlt p hp
    rw [C16Fam.parAlt, C16Fam.getD_mapRange _ _ _ (by split <;> omega)]
    unfold C16Fam.altEntry
    by_cases hpa : p < a
    · simp only [hpa, if_true]
      rw [if_pos (by omega)]; omega
    · simp only [hpa, if_false]
      rw [if_neg (by omega)]; omega
  refine ⟨fun p => if p < a then m - 1 - x.getD p 0 else 2 * m - 1 - x.getD p 0, ?_, ?_, ?_⟩
  · intro p q hpq hq
    have h1 := hlt p (by omega)
    have h2 := hlt q hq
    show (if p < a then _ else _) < (if q < a then _ else _)
    by_cases hpa : p < a <;> by_cases hqa : q < a
    · have := hL p q hpq hqa
      rw [if_pos hpa, if_pos hqa]; omega
    · rw [if_pos hpa, if_neg hqa]; omega
    · omega
    · have := hR p q (by omega) hpq hq
      rw [if_neg hpa, if_neg hqa]; omega
  · intro p hp
    have h1 := hlt p hp
    show (if p < a then _ else _) < _
    rw [hlen]
    split <;> omega
  · intro p q hp hq
    show _ ↔ (C16Fam.parAlt m).getD (if p < a then _ else _) 0
      < (C16Fam.parAlt m).getD (if q < a then _ else _) 0
    rw [hent p hp, hent q hq]
    have hne : p ≠ q → x.getD p 0 ≠ x.getD q 0 := fun h h' => h (hinj p q hp hq h')
    by_cases hpq : p = q
    · subst hpq; simp
    · have := hne hpq
      by_cases hpa : p < a <;> by_cases hqa : q < a <;> simp only [hpa, hqa, if_true, if_false] <;> omega

end C16Conv.Alt
