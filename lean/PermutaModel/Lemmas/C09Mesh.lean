import PermutaModel.Lemmas.C09Gen
import Mathlib.Data.Nat.Bitwise

/-! Helper lemmas for C09: bit-string rank / unrank of mesh shadings. -/
open List

namespace C09

/-- the bit that `MeshPatt.rank` assigns to the cell `(x, y)` of a pattern of length `n` -/
def cellIdx (n : Nat) (c : Cell) : Nat := c.1 * (n + 1) + c.2

/-- all cells lie in the `(n+1) × (n+1)` grid (the constructor's `assert`) -/
def InGrid (n : Nat) (s : List Cell) : Prop := ∀ c ∈ s, c.1 ≤ n ∧ c.2 ≤ n

theorem binDigits_spec : ∀ (fuel k : Nat), k ≤ fuel →
    (∀ (i : Nat) (h : i < (Model.binDigits fuel k).length), (Model.binDigits fuel k)[i] = k.testBit i) ∧
    (∀ i, k.testBit i = true → i < (Model.binDigits fuel k).length) := by
  intro fuel
  induction fuel with
  | zero =>
    intro k hk
    have : k = 0 := by omega
    subst this
    simp [Model.binDigits]
  | succ fuel ih =>
    intro k hk
    rw [Model.binDigits]
    by_cases h0 : k = 0
    · subst h0; simp
    · rw [if_neg h0]
      obtain ⟨ih1, ih2⟩ := ih (k / 2) (by omega)
      constructor
      · intro i hi
        cases i with
        | zero =>
          rcases Nat.mod_two_eq_zero_or_one k with h | h <;> simp [Nat.testBit_zero, h]
        | succ i =>
          simp only [getElem_cons_succ]
          rw [Nat.testBit_succ]
          exact ih1 i (by simpa using hi)
      · intro i hi
        cases i with
        | zero => simp
        | succ i =>
          rw [Nat.testBit_succ] at hi
          have := ih2 i hi
          simp; omega

/-- positions of the `1` bits of `k`, increasing -/
def setBits (k : Nat) : List Nat := ((Model.binDigits k k).zipIdx.filter (·.1)).map (·.2)

theorem mem_setBits (k i : Nat) : i ∈ setBits k ↔ k.testBit i = true := by
  obtain ⟨h1, h2⟩ := binDigits_spec k k (le_refl k)
  unfold setBits
  rw [mem_map]
  constructor
  · rintro ⟨⟨b, j⟩, hm, rfl⟩
    rw [mem_filter] at hm
    obtain ⟨hm, hb⟩ := hm
    simp only at hb
    subst hb
    rw [mem_zipIdx_iff_getElem?] at hm
    simp only at hm
    obtain ⟨hlt, he⟩ := List.getElem?_eq_some_iff.mp hm
    rw [← h1 j hlt, he]
  · intro h
    refine ⟨(true, i), mem_filter.mpr ⟨?_, rfl⟩, rfl⟩
    rw [mem_zipIdx_iff_getElem?]
    simp only
    have hlt := h2 i h
    rw [getElem?_eq_getElem hlt, h1 i hlt, h]

theorem sorted_setBits (k : Nat) : (setBits k).Pairwise (· < ·) := by
  unfold setBits
  have hsub : ((Model.binDigits k k).zipIdx.filter (·.1)).map (·.2) <+ ((Model.binDigits k k).zipIdx).map (·.2) :=
    (filter_sublist).map _
  refine Pairwise.sublist hsub ?_
  rw [show (fun x : Bool × Nat => x.2) = Prod.snd from rfl, zipIdx_map_snd]
  exact pairwise_lt_range'

/-- the shading produced by `unrank` -/
def unrankShading (n k : Nat) : List Cell := (setBits k).map fun i => (i / (n + 1), i % (n + 1))

theorem meshUnrank_eq (π : NSeq) (k : Nat) (h : k < 2 ^ ((π.length + 1) ^ 2)) :
    Model.meshUnrank π (k : Nat) = .ok ⟨π, unrankShading π.length k⟩ := by
  have hc : ¬ ((k : Int) < 0 ∨ (2 : Int) ^ ((π.length + 1) ^ 2) ≤ (k : Int)) := by
    have : ((2 : Int) ^ ((π.length + 1) ^ 2)) = ((2 ^ ((π.length + 1) ^ 2) : Nat) : Int) := by
      rw [Int.natCast_pow]; rfl
    rw [this]; omega
  unfold Model.meshUnrank
  rw [if_neg hc]
  simp [unrankShading, setBits, List.map_map, Function.comp_def]

theorem meshUnrank_out_of_range (π : NSeq) (k : Int) (h : k < 0 ∨ (2 : Int) ^ ((π.length + 1) ^ 2) ≤ k) :
    Model.meshUnrank π k = .error .assertion := by
  unfold Model.meshUnrank; rw [if_pos h]

theorem testBit_foldl_or (n : Nat) (s : List Cell) : ∀ (init i : Nat),
    (s.foldl (fun res c => res ||| (1 <<< (c.1 * (n + 1) + c.2))) init).testBit i =
      (init.testBit i || s.any fun c => cellIdx n c == i) := by
  induction s with
  | nil => intro init i; simp
  | cons c t ih =>
    intro init i
    rw [foldl_cons, ih, Nat.testBit_or, Nat.one_shiftLeft, Nat.testBit_two_pow, any_cons, Bool.or_assoc]
    congr 2

theorem testBit_meshRank (m : Mesh) (i : Nat) :
    (Model.meshRank m).testBit i = true ↔ ∃ c ∈ m.shading, cellIdx m.pattern.length c = i := by
  rw [Model.meshRank, testBit_foldl_or]
  simp [Nat.zero_testBit, any_eq_true]

theorem cellIdx_divmod (n i : Nat) : cellIdx n (i / (n + 1), i % (n + 1)) = i := by
  simp [cellIdx, Nat.div_add_mod']

theorem divmod_cellIdx (n : Nat) (c : Cell) (h : c.2 ≤ n) :
    (cellIdx n c / (n + 1), cellIdx n c % (n + 1)) = c := by
  unfold cellIdx
  rw [Nat.add_comm, Nat.add_mul_div_right _ _ (by omega), Nat.add_mul_mod_self_right,
    Nat.div_eq_of_lt (by omega), Nat.mod_eq_of_lt (by omega)]
  simp

theorem cellIdx_lt (n : Nat) (c : Cell) (h : c.1 ≤ n ∧ c.2 ≤ n) : cellIdx n c < (n + 1) ^ 2 := by
  unfold cellIdx
  have : c.1 * (n + 1) ≤ n * (n + 1) := Nat.mul_le_mul_right _ h.1
  have e : (n + 1) ^ 2 = n * (n + 1) + (n + 1) := by rw [Nat.pow_two, Nat.succ_mul]
  omega

theorem meshRank_lt (m : Mesh) (h : InGrid m.pattern.length m.shading) :
    Model.meshRank m < 2 ^ ((m.pattern.length + 1) ^ 2) := by
  apply Nat.lt_pow_two_of_testBit
  intro i hi
  by_contra hcon
  have ht : (Model.meshRank m).testBit i = true := by simpa using hcon
  obtain ⟨c, hc, rfl⟩ := (testBit_meshRank m i).mp ht
  have := cellIdx_lt _ c (h c hc)
  omega

theorem mem_unrankShading (n k : Nat) (c : Cell) :
    c ∈ unrankShading n k ↔ c.2 ≤ n ∧ k.testBit (cellIdx n c) = true := by
  simp only [unrankShading, mem_map, mem_setBits]
  constructor
  · rintro ⟨i, hi, rfl⟩
    refine ⟨?_, by rw [cellIdx_divmod]; exact hi⟩
    have := Nat.mod_lt i (show 0 < n + 1 by omega)
    simp only; omega
  · rintro ⟨h1, h2⟩
    exact ⟨cellIdx n c, h2, divmod_cellIdx n c h1⟩

theorem inGrid_unrankShading (n k : Nat) (h : k < 2 ^ ((n + 1) ^ 2)) : InGrid n (unrankShading n k) := by
  intro c hc
  obtain ⟨h1, h2⟩ := (mem_unrankShading n k c).mp hc
  refine ⟨?_, h1⟩
  by_contra hcon
  have hbig : (n + 1) ^ 2 ≤ cellIdx n c := by
    unfold cellIdx
    have : (n + 1) * (n + 1) ≤ c.1 * (n + 1) := Nat.mul_le_mul_right _ (by omega)
    rw [Nat.pow_two]; omega
  have := Nat.testBit_lt_two_pow (lt_of_lt_of_le h (Nat.pow_le_pow_right (by decide) hbig))
  rw [this] at h2; exact Bool.false_ne_true h2

theorem meshRank_unrankShading (π : NSeq) (k : Nat) (h : k < 2 ^ ((π.length + 1) ^ 2)) :
    Model.meshRank ⟨π, unrankShading π.length k⟩ = k := by
  apply Nat.eq_of_testBit_eq
  intro i
  rw [Bool.eq_iff_iff, testBit_meshRank]
  simp only
  constructor
  · rintro ⟨c, hc, rfl⟩
    exact ((mem_unrankShading _ k c).mp hc).2
  · intro hi
    refine ⟨(i / (π.length + 1), i % (π.length + 1)), ?_, cellIdx_divmod _ i⟩
    rw [mem_unrankShading, cellIdx_divmod]
    exact ⟨by have := Nat.mod_lt i (show 0 < π.length + 1 by omega); simp only; omega, hi⟩

theorem nodup_unrankShading (n k : Nat) : (unrankShading n k).Nodup := by
  unfold unrankShading
  apply Nodup.map_on _ ((sorted_setBits k).imp (fun h => Nat.ne_of_lt h))
  intro x _ y _ h
  have h1 := (Prod.mk.inj h).1
  have h2 := (Prod.mk.inj h).2
  rw [← Nat.div_add_mod' x (n + 1), ← Nat.div_add_mod' y (n + 1), h1, h2]

/-! ### `of_length` -/

theorem meshUnrankRange_eq (π : NSeq) : ∀ (count start : Nat), start + count ≤ 2 ^ ((π.length + 1) ^ 2) →
    Model.meshUnrankRange π start count =
      .ok ((List.range' start count).map fun k => (⟨π, unrankShading π.length k⟩ : Mesh)) := by
  intro count
  induction count with
  | zero => intro start _; rfl
  | succ c ih =>
    intro start h
    rw [Model.meshUnrankRange, meshUnrank_eq π start (by omega), ih (start + 1) (by omega)]
    simp [List.range'_succ]

/-- all meshes over the patterns `ps`, each with all `2^((n+1)^2)` shadings in rank order -/
def allMeshes (n : Nat) (ps : List NSeq) : List Mesh :=
  ps.flatMap fun π => (List.range (2 ^ ((n + 1) ^ 2))).map fun k => (⟨π, unrankShading n k⟩ : Mesh)

theorem meshOfLengthAll_eq (n : Nat) : ∀ (ps : List NSeq), (∀ π ∈ ps, π.length = n) →
    Model.meshOfLengthAll n ps = .ok (allMeshes n ps) := by
  intro ps
  induction ps with
  | nil => intro _; rfl
  | cons π t ih =>
    intro h
    have hl : π.length = n := h π (by simp)
    rw [Model.meshOfLengthAll, ← hl, meshUnrankRange_eq π _ 0 (by simp), hl, ih (fun x hx => h x (by simp [hx]))]
    simp [allMeshes, List.range_eq_range', hl]

end C09
