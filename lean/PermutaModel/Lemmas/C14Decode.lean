import PermutaModel.Lemmas.C14Lang
/-! C14 helper lemmas: the decoding loop of `pinword_to_perm` on words of the language. -/
namespace C14L
open Model.C14 Model.C14.Letter Spec.C14 Proto

/-! ### extremal values -/

theorem foldl_max_ge (rest : List Rat) (a : Rat) :
    a ≤ rest.foldl max a ∧ ∀ x ∈ rest, x ≤ rest.foldl max a := by
  induction rest generalizing a with
  | nil => simp
  | cons b r ih =>
    simp only [List.foldl_cons, List.mem_cons]
    have := ih (max a b)
    refine ⟨by grind, ?_⟩
    rintro x (rfl | hx)
    · grind
    · exact this.2 x hx

theorem foldl_max_mem (rest : List Rat) (a : Rat) :
    rest.foldl max a = a ∨ rest.foldl max a ∈ rest := by
  induction rest generalizing a with
  | nil => simp
  | cons b r ih =>
    simp only [List.foldl_cons, List.mem_cons]
    rcases ih (max a b) with h | h
    · grind
    · exact Or.inr (Or.inr h)

theorem foldl_min_le (rest : List Rat) (a : Rat) :
    rest.foldl min a ≤ a ∧ ∀ x ∈ rest, rest.foldl min a ≤ x := by
  induction rest generalizing a with
  | nil => simp
  | cons b r ih =>
    simp only [List.foldl_cons, List.mem_cons]
    have := ih (min a b)
    refine ⟨by grind, ?_⟩
    rintro x (rfl | hx)
    · grind
    · exact this.2 x hx

theorem foldl_min_mem (rest : List Rat) (a : Rat) :
    rest.foldl min a = a ∨ rest.foldl min a ∈ rest := by
  induction rest generalizing a with
  | nil => simp
  | cons b r ih =>
    simp only [List.foldl_cons, List.mem_cons]
    rcases ih (min a b) with h | h
    · grind
    · exact Or.inr (Or.inr h)

theorem le_maxL {l : List Rat} {x : Rat} (h : x ∈ l) : x ≤ maxL l := by
  cases l with
  | nil => simp at h
  | cons a rest =>
    rcases List.mem_cons.mp h with rfl | h
    · exact (foldl_max_ge rest _).1
    · exact (foldl_max_ge rest a).2 x h

theorem maxL_mem {l : List Rat} (h : l ≠ []) : maxL l ∈ l := by
  cases l with
  | nil => exact absurd rfl h
  | cons a rest =>
    rcases foldl_max_mem rest a with h | h
    · simp [maxL, h]
    · exact List.mem_cons_of_mem _ h

theorem minL_le {l : List Rat} {x : Rat} (h : x ∈ l) : minL l ≤ x := by
  cases l with
  | nil => simp at h
  | cons a rest =>
    rcases List.mem_cons.mp h with rfl | h
    · exact (foldl_min_le rest _).1
    · exact (foldl_min_le rest a).2 x h

theorem minL_mem {l : List Rat} (h : l ≠ []) : minL l ∈ l := by
  cases l with
  | nil => exact absurd rfl h
  | cons a rest =>
    rcases foldl_min_mem rest a with h | h
    · simp [minL, h]
    · exact List.mem_cons_of_mem _ h

theorem lt_beyond_true {l : List Rat} {x : Rat} (h : x ∈ l) : x < beyond true l := by
  have := le_maxL h
  simp only [beyond, if_true]; grind

theorem beyond_false_lt {l : List Rat} {x : Rat} (h : x ∈ l) : beyond false l < x := by
  have := minL_le h
  simp only [beyond]; grind

/-- "strictly on the named side of every listed value" -/
def Side (pos : Bool) (v : Rat) (l : List Rat) : Prop := ∀ a ∈ l, if pos then a < v else v < a

theorem side_beyond (pos : Bool) (l : List Rat) : Side pos (beyond pos l) l := by
  intro a ha
  cases pos
  · simpa using beyond_false_lt ha
  · simpa using lt_beyond_true ha

/-- `v` lies strictly between `lastV` and every value of `initV` -/
def Between (v lastV : Rat) (initV : List Rat) : Prop :=
  ((∀ a ∈ initV, a < v) ∧ v < lastV) ∨ ((∀ a ∈ initV, v < a) ∧ lastV < v)

/-- `lastV` is strictly outside the range of `initV` -/
def Ext (lastV : Rat) (initV : List Rat) : Prop :=
  initV ≠ [] ∧ (maxL initV < lastV ∨ lastV < minL initV)

theorem separate_ok {lastV : Rat} {initV : List Rat} (h : Ext lastV initV) :
    ∃ v, separate lastV initV = .ok v ∧ Between v lastV initV := by
  obtain ⟨hne, h⟩ := h
  unfold separate
  have hE : initV.isEmpty = false := by cases initV <;> simp_all
  simp only [hE, Bool.false_eq_true, if_false]
  by_cases h1 : lastV > maxL initV
  · simp only [h1, if_true]
    refine ⟨_, rfl, Or.inl ⟨fun a ha => ?_, ?_⟩⟩
    · have := le_maxL ha; simp only [half]; grind
    · simp only [half]; grind
  · have h2 : lastV < minL initV := by
      rcases h with h | h
      · exact absurd h h1
      · exact h
    simp only [h1, if_false, h2, if_true]
    refine ⟨_, rfl, Or.inr ⟨fun a ha => ?_, ?_⟩⟩
    · have := minL_le ha; simp only [half]; grind
    · simp only [half]; grind

/-- the `assert False` branch: `lastV` inside the range of the earlier values -/
theorem separate_assert {lastV : Rat} {initV : List Rat} (hne : initV ≠ [])
    (h1 : ¬ maxL initV < lastV) (h2 : ¬ lastV < minL initV) :
    separate lastV initV = .error .assertion := by
  unfold separate
  have hE : initV.isEmpty = false := by cases initV <;> simp_all
  simp [hE, h1, h2]

end C14L
