import PermutaModel.Lemmas.C12Occ4
/-! C12: West's characterisation of the permutations sorted by two passes through a stack, at the
    level of duplicate-free lists.  The order of two entries after one pass (`stackSort_inv_iff`) is
    proved by induction on the split at the maximum; the pattern statement is a consequence of it. -/
open Model Spec List

namespace C12

/-! ### order of entries in a duplicate-free list, through sublists -/

/-- glue two sublists of a duplicate-free list at a common entry -/
theorem sub_glue {a b : Nat} {s : List Nat} : ∀ {l : List Nat}, l.Nodup → [a, b] <+ l → b :: s <+ l →
    a :: b :: s <+ l
  | [], _, h, _ => by simp at h
  | u :: t, hnd, h1, h2 => by
    have hnd' := (nodup_cons.mp hnd).2
    have hu := (nodup_cons.mp hnd).1
    rcases sublist_cons_iff.mp h1 with k1 | ⟨r, e, k1⟩
    · rcases sublist_cons_iff.mp h2 with k2 | ⟨r', e', k2⟩
      · exact (sub_glue hnd' k1 k2).cons _
      · simp at e'; obtain ⟨e1, e2⟩ := e'
        subst e1
        exact absurd (sub2_mem k1).2 hu
    · simp at e; obtain ⟨e1, e2⟩ := e
      subst e1 e2
      rcases sublist_cons_iff.mp h2 with k2 | ⟨r', e', k2⟩
      · exact k2.cons_cons _
      · simp at e'; obtain ⟨e1, e2⟩ := e'
        subst e1
        exact absurd (singleton_sublist.mp k1) hu

/-- two different entries of a list are in one of the two orders -/
theorem sub2_total {x y : Nat} : ∀ {l : List Nat}, x ∈ l → y ∈ l → x ≠ y → [x, y] <+ l ∨ [y, x] <+ l
  | [], hx, _, _ => by simp at hx
  | u :: t, hx, hy, hne => by
    rcases mem_cons.mp hx with ex | kx
    · rcases mem_cons.mp hy with ey | ky
      · exact absurd (ex.trans ey.symm) hne
      · subst ex; exact Or.inl ((singleton_sublist.mpr ky).cons_cons _)
    · rcases mem_cons.mp hy with ey | ky
      · subst ey; exact Or.inr ((singleton_sublist.mpr kx).cons_cons _)
      · rcases sub2_total kx ky hne with h | h
        · exact Or.inl (h.cons _)
        · exact Or.inr (h.cons _)

theorem sub2_asymm {x y : Nat} {l : List Nat} (hnd : l.Nodup) (h1 : [x, y] <+ l) (h2 : [y, x] <+ l) : False := by
  have := hnd.sublist (sub_glue hnd h1 h2)
  simp at this

theorem sub2_ne {x y : Nat} {l : List Nat} (hnd : l.Nodup) (h : [x, y] <+ l) : x ≠ y := by
  intro e; subst e
  have := hnd.sublist h
  simp at this

theorem sub2_append {a b : Nat} {X Y : List Nat} (h : [a, b] <+ X ++ Y) :
    [a, b] <+ X ∨ (a ∈ X ∧ b ∈ Y) ∨ [a, b] <+ Y := by
  obtain ⟨l1, l2, e, h1, h2⟩ := sublist_append_iff.mp h
  match l1, e, h1 with
  | [], e, _ => simp at e; subst e; exact Or.inr (Or.inr h2)
  | [x], e, h1 =>
    simp at e; obtain ⟨rfl, rfl⟩ := e
    exact Or.inr (Or.inl ⟨singleton_sublist.mp h1, singleton_sublist.mp h2⟩)
  | [x, y], e, h1 =>
    simp at e; obtain ⟨rfl, rfl, rfl⟩ := e
    exact Or.inl h1
  | x :: y :: z :: t, e, _ =>
    have := congrArg List.length e
    simp at this

/-- **the order of two entries after one pass through a stack**: the larger entry `x` leaves the stack
    before the smaller `y` exactly when it enters before `y` and a still larger entry `z` between them
    forces it out -/
theorem stackSort_inv_iff (l : List Nat) (hnd : l.Nodup) (x y : Nat) (hxy : y < x) :
    [x, y] <+ stackSort l ↔ ∃ z, x < z ∧ [x, z, y] <+ l := by
  induction hn : l.length using Nat.strongRecOn generalizing l with
  | _ n ih =>
    subst hn
    match l, ih, hnd with
    | [], _, _ => simp [stackSort_nil]
    | [a], _, _ =>
      simp only [stackSort_single]
      constructor
      · intro h; have := h.length_le; simp at this
      · rintro ⟨z, _, h⟩; have := h.length_le; simp at this
    | a :: b :: t, ih, hnd =>
      have hne : (a :: b :: t) ≠ [] := by simp
      obtain ⟨hd, hL, hR⟩ := maxPos_spec (a :: b :: t) hne
      have hlt := maxPos_lt (a :: b :: t) hne
      rw [stackSort_step _ (by simp)]
      generalize hLdef : take (maxPos (a :: b :: t)).1 (a :: b :: t) = L at *
      generalize hRdef : drop ((maxPos (a :: b :: t)).1 + 1) (a :: b :: t) = R at *
      generalize (maxPos (a :: b :: t)).2 = m at *
      have hlenL : L.length < (a :: b :: t).length := by rw [← hLdef, length_take]; omega
      have hlenR : R.length < (a :: b :: t).length := by rw [← hRdef, length_drop]; omega
      rw [hd] at hnd ⊢
      have hndL : L.Nodup := (nodup_append.mp hnd).1
      have hndR : R.Nodup := (nodup_cons.mp (nodup_append.mp hnd).2.1).2
      have ihL := ih _ hlenL L hndL rfl
      have ihR := ih _ hlenR R hndR rfl
      have pL := stackSort_perm L
      have pR := stackSort_perm R
      constructor
      · intro h
        rcases sub2_append h with h | ⟨hx, hy⟩ | h
        · rcases sub2_append h with h | ⟨hx, hy⟩ | h
          · obtain ⟨z, hz, hs⟩ := ihL.mp h
            exact ⟨z, hz, hs.trans (sublist_append_left _ _)⟩
          · refine ⟨m, hL x (pL.mem_iff.mp hx), ?_⟩
            exact (singleton_sublist.mpr (pL.mem_iff.mp hx)).append
              ((singleton_sublist.mpr (pR.mem_iff.mp hy)).cons_cons m)
          · obtain ⟨z, hz, hs⟩ := ihR.mp h
            exact ⟨z, hz, hs.trans ((sublist_cons_self _ _).trans (sublist_append_right _ _))⟩
        · exfalso
          simp only [mem_singleton] at hy; subst hy
          rcases mem_append.mp hx with hx | hx
          · have := hL x (pL.mem_iff.mp hx); omega
          · have := hR x (pR.mem_iff.mp hx); omega
        · have := h.length_le; simp at this
      · rintro ⟨z, hz, hs⟩
        refine Sublist.trans ?_ (sublist_append_left _ [m])
        rcases sub3_append hs with h | ⟨h, hc⟩ | ⟨ha, h⟩ | h
        · exact (ihL.mpr ⟨z, hz, h⟩).trans (sublist_append_left _ _)
        · have hxL : x ∈ L := (sub2_mem h).1
          have hyR : y ∈ R := by
            rcases mem_cons.mp hc with rfl | hc
            · have := hL x hxL; omega
            · exact hc
          exact (singleton_sublist.mpr (pL.mem_iff.mpr hxL)).append (singleton_sublist.mpr (pR.mem_iff.mpr hyR))
        · have hyR := sub2_cons h
          exact (singleton_sublist.mpr (pL.mem_iff.mpr ha)).append (singleton_sublist.mpr (pR.mem_iff.mpr hyR))
        · rcases sublist_cons_iff.mp h with h | ⟨r, e, h⟩
          · exact (ihR.mpr ⟨z, hz, h⟩).trans (sublist_append_right _ _)
          · simp at e; obtain ⟨rfl, rfl⟩ := e
            have := hR z (sub2_mem h).1; omega



/-- an occurrence of 2341 (values `d < a < b < c` at increasing positions `a b c d`) -/
def Has2341 (l : List Nat) : Prop := ∃ a b c d, [a, b, c, d] <+ l ∧ d < a ∧ a < b ∧ b < c

/-- an occurrence `c b z a` of 3241 (`a < b < c < z`) that is not part of a 35241: no entry placed
    between `c` and `b` is larger than `z` -/
def HasBar35241 (l : List Nat) : Prop :=
  ∃ c b z a, [c, b, z, a] <+ l ∧ a < b ∧ b < c ∧ c < z ∧ ∀ w, [c, w, b] <+ l → ¬ z < w

theorem has231_stackSort_of_2341 (l : List Nat) (hnd : l.Nodup) (h : Has2341 l) : Has231 (stackSort l) := by
  obtain ⟨b, c, z, a, hs, hab, hbc, hcz⟩ := h
  have hndS : (stackSort l).Nodup := (stackSort_perm l).nodup_iff.mpr hnd
  have hbl : b ∈ l := hs.subset (by simp)
  have hcl : c ∈ l := hs.subset (by simp)
  have h_bza : [b, z, a] <+ l := Sublist.trans (((Sublist.refl [z, a]).cons c).cons_cons b) hs
  have h_cza : [c, z, a] <+ l := Sublist.trans ((Sublist.refl [c, z, a]).cons b) hs
  have h_bc : [b, c] <+ l := Sublist.trans ((nil_sublist [z, a]).cons_cons c |>.cons_cons b) hs
  have k_ba : [b, a] <+ stackSort l := (stackSort_inv_iff l hnd b a hab).mpr ⟨z, by omega, h_bza⟩
  have k_ca : [c, a] <+ stackSort l := (stackSort_inv_iff l hnd c a (by omega)).mpr ⟨z, hcz, h_cza⟩
  have k_bc : [b, c] <+ stackSort l := by
    rcases sub2_total ((stackSort_perm l).mem_iff.mpr hbl) ((stackSort_perm l).mem_iff.mpr hcl)
      (by omega : b ≠ c) with h | h
    · exact h
    · exfalso
      obtain ⟨w, _, hw⟩ := (stackSort_inv_iff l hnd c b hbc).mp h
      exact sub2_asymm hnd h_bc (Sublist.trans ((Sublist.refl [b]).cons w |>.cons_cons c) hw)
  exact ⟨b, c, a, sub_glue hndS k_bc k_ca, hab, hbc⟩

/-- **West's lemma, list level**: the output of one pass through a stack contains 231 exactly when the
    input contains 2341 or a 3241 that is not part of a 35241 -/
theorem has231_stackSort_iff (l : List Nat) (hnd : l.Nodup) :
    Has231 (stackSort l) ↔ Has2341 l ∨ HasBar35241 l := by
  have hndS : (stackSort l).Nodup := (stackSort_perm l).nodup_iff.mpr hnd
  have pS := stackSort_perm l
  constructor
  · rintro ⟨b, c, a, hs, hab, hbc⟩
    have k_ba : [b, a] <+ stackSort l := Sublist.trans ((Sublist.refl [a]).cons c |>.cons_cons b) hs
    have k_ca : [c, a] <+ stackSort l := Sublist.trans ((Sublist.refl [c, a]).cons b) hs
    have k_bc : [b, c] <+ stackSort l := Sublist.trans ((nil_sublist [a]).cons_cons c |>.cons_cons b) hs
    obtain ⟨z, hz, h_cza⟩ := (stackSort_inv_iff l hnd c a (by omega)).mp k_ca
    have hbl : b ∈ l := pS.mem_iff.mp (hs.subset (by simp))
    have hcl : c ∈ l := pS.mem_iff.mp (hs.subset (by simp))
    have hzl : z ∈ l := h_cza.subset (by simp)
    have h_za : [z, a] <+ l := Sublist.trans ((Sublist.refl [z, a]).cons c) h_cza
    have h_cz : [c, z] <+ l := Sublist.trans ((nil_sublist [a]).cons_cons z |>.cons_cons c) h_cza
    rcases sub2_total hbl hcl (by omega : b ≠ c) with h_bc | h_cb
    · exact Or.inl ⟨b, c, z, a, sub_glue hnd h_bc h_cza, hab, hbc, hz⟩
    · right
      have hno : ∀ w, [c, w, b] <+ l → ¬ c < w := by
        intro w hw hcw
        exact sub2_asymm hndS k_bc ((stackSort_inv_iff l hnd c b hbc).mpr ⟨w, hcw, hw⟩)
      have h_bz : [b, z] <+ l := by
        rcases sub2_total hbl hzl (by omega : b ≠ z) with h | h
        · exact h
        · exact absurd hz (hno z (sub_glue hnd h_cz h))
      refine ⟨c, b, z, a, sub_glue hnd h_cb (sub_glue hnd h_bz h_za), hab, hbc, hz, ?_⟩
      intro w hw hzw
      exact hno w hw (by omega)
  · rintro (h | ⟨c, b, z, a, hs, hab, hbc, hcz, hfree⟩)
    · exact has231_stackSort_of_2341 l hnd h
    · have hbl : b ∈ l := hs.subset (by simp)
      have hcl : c ∈ l := hs.subset (by simp)
      have h_bza : [b, z, a] <+ l := Sublist.trans ((Sublist.refl [b, z, a]).cons c) hs
      have h_cza : [c, z, a] <+ l := Sublist.trans (((Sublist.refl [z, a]).cons b).cons_cons c) hs
      have h_bz : [b, z] <+ l := Sublist.trans ((nil_sublist [a]).cons_cons z |>.cons_cons b) h_bza
      by_cases hex : ∃ w, [c, w, b] <+ l ∧ c < w
      · obtain ⟨w, hw, hcw⟩ := hex
        have h_cw : [c, w] <+ l := Sublist.trans ((nil_sublist [b]).cons_cons w |>.cons_cons c) hw
        have h_wb : [w, b] <+ l := Sublist.trans ((Sublist.refl [w, b]).cons c) hw
        have h_wbza := sub_glue hnd h_wb h_bza
        have h_wza : [w, z, a] <+ l := Sublist.trans (((Sublist.refl [z, a]).cons b).cons_cons w) h_wbza
        have hwz : w ≠ z := sub2_ne hnd (Sublist.trans ((nil_sublist [a]).cons_cons z |>.cons b |>.cons_cons w) h_wbza)
        have := hfree w hw
        exact has231_stackSort_of_2341 l hnd ⟨c, w, z, a, sub_glue hnd h_cw h_wza, by omega, hcw, by omega⟩
      · have k_ba : [b, a] <+ stackSort l := (stackSort_inv_iff l hnd b a hab).mpr ⟨z, by omega, h_bza⟩
        have k_ca : [c, a] <+ stackSort l := (stackSort_inv_iff l hnd c a (by omega)).mpr ⟨z, hcz, h_cza⟩
        have k_bc : [b, c] <+ stackSort l := by
          rcases sub2_total (pS.mem_iff.mpr hbl) (pS.mem_iff.mpr hcl) (by omega : b ≠ c) with h | h
          · exact h
          · exfalso
            obtain ⟨w, hcw, hw⟩ := (stackSort_inv_iff l hnd c b hbc).mp h
            exact hex ⟨w, hw, hcw⟩
        exact ⟨b, c, a, sub_glue hndS k_bc k_ca, hab, hbc⟩

/-! ### the property's vocabulary: `Contains` and `MeshContains` -/


theorem rel4_2341 (a b c d : Nat) : Rel4 [1, 2, 3, 0] a b c d ↔ d < a ∧ a < b ∧ b < c := by
  constructor
  · intro h
    have h1 := h 3 0 (by omega) (by omega)
    have h2 := h 0 1 (by omega) (by omega)
    have h3 := h 1 2 (by omega) (by omega)
    simp at h1 h2 h3; exact ⟨h1, h2, h3⟩
  · rintro ⟨h1, h2, h3⟩ x y hx hy
    have hx' : x = 0 ∨ x = 1 ∨ x = 2 ∨ x = 3 := by omega
    have hy' : y = 0 ∨ y = 1 ∨ y = 2 ∨ y = 3 := by omega
    rcases hx' with rfl | rfl | rfl | rfl <;> rcases hy' with rfl | rfl | rfl | rfl <;> simp <;> omega

theorem rel4_3241 (a b c d : Nat) : Rel4 [2, 1, 3, 0] a b c d ↔ d < b ∧ b < a ∧ a < c := by
  constructor
  · intro h
    have h1 := h 3 1 (by omega) (by omega)
    have h2 := h 1 0 (by omega) (by omega)
    have h3 := h 0 2 (by omega) (by omega)
    simp at h1 h2 h3; exact ⟨h1, h2, h3⟩
  · rintro ⟨h1, h2, h3⟩ x y hx hy
    have hx' : x = 0 ∨ x = 1 ∨ x = 2 ∨ x = 3 := by omega
    have hy' : y = 0 ∨ y = 1 ∨ y = 2 ∨ y = 3 := by omega
    rcases hx' with rfl | rfl | rfl | rfl <;> rcases hy' with rfl | rfl | rfl | rfl <;> simp <;> omega

theorem contains_2341_iff (σ : NSeq) : Contains σ [1, 2, 3, 0] ↔ Has2341 σ := by
  rw [contains4_iff _ σ rfl]
  unfold Has2341
  constructor
  · rintro ⟨a, b, c, d, hs, hr⟩; exact ⟨a, b, c, d, hs, (rel4_2341 a b c d).mp hr⟩
  · rintro ⟨a, b, c, d, hs, hr⟩; exact ⟨a, b, c, d, hs, (rel4_2341 a b c d).mpr hr⟩

/-- the mesh pattern `(3241, {(1,4)})` (West's barred pattern 3\bar{5}241) in the vocabulary of sublists -/
theorem meshContains_3241_iff (σ : NSeq) (hnd : σ.Nodup) :
    MeshContains σ ⟨[2, 1, 3, 0], [(1, 4)]⟩ ↔ HasBar35241 σ := by
  constructor
  · rintro ⟨c, hocc, hfree⟩
    obtain ⟨i, j, k, m, rfl, hij, hjk, hkm, hm, hrel⟩ := (isOcc4_iff _ σ rfl c).mp hocc
    obtain ⟨r1, r2, r3⟩ := (rel4_3241 _ _ _ _).mp hrel
    refine ⟨_, _, _, _, pick4_sublist hij hjk hkm hm, r1, r2, r3, ?_⟩
    intro w hw hzw
    obtain ⟨i', t, j', h1, h2, h3, e1, e2, e3⟩ := sub3_pick hw
    have ei : i = i' := getD_inj_of_nodup hnd (by omega) (by omega) e1
    have ej : j = j' := getD_inj_of_nodup hnd (by omega) (by omega) e3
    subst ei ej e2
    apply hfree t (by omega) (by simp; omega)
    simp only [Spec.cellOf, filter4_len, mem_singleton, Prod.mk.injEq]
    have d1 : decide (i < t) = true := decide_eq_true (by omega)
    have d2 : decide (j < t) = false := decide_eq_false (by omega)
    have d3 : decide (k < t) = false := decide_eq_false (by omega)
    have d4 : decide (m < t) = false := decide_eq_false (by omega)
    refine ⟨by rw [d1, d2, d3, d4]; rfl, ?_⟩
    exact (cnt4_eq4 (fun x => decide (σ.getD x 0 < σ.getD t 0)) i j k m).mpr
      ⟨decide_eq_true (by omega), decide_eq_true (by omega), decide_eq_true (by omega), decide_eq_true (by omega)⟩
  · rintro ⟨c, b, z, a, hs, hab, hbc, hcz, hfree⟩
    obtain ⟨i, j, k, m, hij, hjk, hkm, hm, rfl, rfl, rfl, rfl⟩ := sub4_pick hs
    refine ⟨[i, j, k, m], (isOcc4_iff _ σ rfl _).mpr ⟨i, j, k, m, rfl, hij, hjk, hkm, hm,
      (rel4_3241 _ _ _ _).mpr ⟨hab, hbc, hcz⟩⟩, ?_⟩
    intro t ht htc hcell
    simp only [Spec.cellOf, filter4_len, mem_singleton, Prod.mk.injEq] at hcell
    simp only [mem_cons, not_mem_nil, or_false, not_or] at htc
    obtain ⟨hc1, hc2⟩ := hcell
    have t1 : i < t ∧ t < j := by
      by_cases d1 : i < t <;> by_cases d2 : j < t <;> by_cases d3 : k < t <;> by_cases d4 : m < t <;>
        simp [d1, d2, d3, d4] at hc1 <;> omega
    have t2 : σ.getD k 0 < σ.getD t 0 :=
      of_decide_eq_true ((cnt4_eq4 (fun x => decide (σ.getD x 0 < σ.getD t 0)) i j k m).mp hc2).2.2.1
    exact hfree _ (pick3_sublist t1.1 t1.2 (by omega)) t2

end C12
