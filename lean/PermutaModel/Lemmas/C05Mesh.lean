import PermutaModel.Props.C06
import PermutaModel.Lemmas.PySort
import PermutaModel.Lemmas.Contains
import PermutaModel.Model.C05
/-! `MeshBasis` construction: the key sort never raises, the pruning loop never raises on valid
    patterns, the sort key `(pattern, |shading|, sorted shading)` is a linear extension of mesh
    containment, and the loop keeps a sorted sub-list in which no element is contained in another. -/
open Model Model.C08 Model.C05 Generated

namespace C05

/-- the value of a mesh-type object: pattern and shading (the class is irrelevant for a basis) -/
def meshVal (m : MObj) : NSeq × List Cell := (m.pattern, m.shading)

/-- an object the constructor accepts: the pattern is a permutation, the cells lie in the grid, and the
    frozenset of cells is represented by its strictly sorted list -/
structure ValidM (m : MObj) : Prop where
  perm : IsPerm m.pattern
  cells : ∀ c ∈ m.shading, c.1 ≤ m.pattern.length ∧ c.2 ≤ m.pattern.length
  canon : m.shading.Pairwise (fun a b => cellLt a b = true)

/-- Boolean view of `host._contains(p)` -/
def meshIn (p host : MObj) : Bool :=
  match meshInMeshE p host with
  | .ok b => b
  | .error _ => false

theorem toMesh_congr {a b : MObj} (h : meshVal a = meshVal b) : toMesh a = toMesh b := by
  obtain ⟨_, pa, sa⟩ := a
  obtain ⟨_, pb, sb⟩ := b
  simp only [meshVal, Prod.mk.injEq] at h
  simp [toMesh, h.1, h.2]

theorem meshIn_congr {a a' b b' : MObj} (ha : meshVal a = meshVal a') (hb : meshVal b = meshVal b') :
    meshIn a b = meshIn a' b' := by
  simp only [meshIn, meshInMeshE, toMesh_congr ha, toMesh_congr hb]

/-! ### the pruner never raises on valid patterns -/

theorem meshInMeshE_ok (p host : MObj) (hp : IsPerm p.pattern) (hh : IsPerm host.pattern) :
    meshInMeshE p host = .ok (meshIn p host) := by
  obtain ⟨l, hl⟩ := C06.meshInMesh_total (toMesh p) (toMesh host) hp hh
  have h : meshInMeshE p host = .ok (!l.isEmpty) := by
    unfold meshInMeshE meshContainsItem
    exact C06Lemmas.inMeshAny_eq (toMesh p) (toMesh host) _ l hl
  simp only [meshIn, h]

theorem meshAvoidsAll_eq (p : MObj) (hp : IsPerm p.pattern) : ∀ (acc : List MObj), (∀ q ∈ acc, IsPerm q.pattern) →
    meshAvoidsAll (toMesh p) (acc.map fun q => Item.mesh (toMesh q)) = .ok (acc.all fun q => !meshIn q p)
  | [], _ => rfl
  | q :: qs, h => by
    have hq := h q (List.mem_cons_self ..)
    have := meshInMeshE_ok q p hq hp
    unfold meshInMeshE at this
    simp only [List.map_cons, meshAvoidsAll, this, List.all_cons]
    cases meshIn q p with
    | true => rfl
    | false => simpa using meshAvoidsAll_eq p hp qs (fun x hx => h x (List.mem_cons_of_mem _ hx))

/-- the loop of `MeshBasis._pruner` on Boolean containment -/
def mprunerGo : List MObj → List MObj → List MObj
  | acc, [] => acc
  | acc, p :: ps => if acc.all (fun q => !meshIn q p) then mprunerGo (acc ++ [p]) ps else mprunerGo acc ps

theorem mprunerGoE_eq : ∀ (rest acc : List MObj), (∀ x ∈ acc ++ rest, IsPerm x.pattern) →
    mprunerGoE acc rest = .ok (mprunerGo acc rest)
  | [], _, _ => rfl
  | p :: ps, acc, h => by
    have hp := h p (by simp)
    have hacc : ∀ q ∈ acc, IsPerm q.pattern := fun q hq => h q (by simp [hq])
    simp only [mprunerGoE, meshAvoidsAll_eq p hp acc hacc, mprunerGo]
    cases acc.all fun q => !meshIn q p with
    | true => simpa using mprunerGoE_eq ps (acc ++ [p]) (by simpa using h)
    | false => simpa using mprunerGoE_eq ps acc (fun x hx => h x (by simp at hx ⊢; tauto))

/-! ### the sort key -/

/-- `(len(s), sorted(s)) < (len(t), sorted(t))` -/
def lenShLt (s t : List Cell) : Bool :=
  if s.length == t.length then cellsLt s t else decide (s.length < t.length)

theorem lenShLt_of_len_lt {s t : List Cell} (h : s.length < t.length) : lenShLt s t = true := by
  have : ¬ s.length = t.length := by omega
  simp [lenShLt, this, h]

theorem lenShLt_of_len_eq {s t : List Cell} (h : s.length = t.length) : lenShLt s t = cellsLt s t := by
  simp [lenShLt, h]

theorem lenShLt_len_le {s t : List Cell} (h : lenShLt s t = true) : s.length ≤ t.length := by
  unfold lenShLt at h
  by_cases e : s.length = t.length
  · omega
  · simp [e] at h; omega

theorem lenShLt_strictTotal : StrictTotal lenShLt where
  irrefl := by intro a; rw [lenShLt_of_len_eq rfl]; exact cellsLt_strictTotal.irrefl a
  trans := by
    intro a b c h1 h2
    have l1 := lenShLt_len_le h1
    have l2 := lenShLt_len_le h2
    by_cases e : a.length < c.length
    · exact lenShLt_of_len_lt e
    · have e1 : a.length = b.length := by omega
      have e2 : b.length = c.length := by omega
      rw [lenShLt_of_len_eq e1] at h1
      rw [lenShLt_of_len_eq e2] at h2
      rw [lenShLt_of_len_eq (e1.trans e2)]
      exact cellsLt_strictTotal.trans _ _ _ h1 h2
  tri := by
    intro a b
    rcases Nat.lt_trichotomy a.length b.length with h | h | h
    · exact Or.inl (lenShLt_of_len_lt h)
    · rw [lenShLt_of_len_eq h, lenShLt_of_len_eq h.symm]
      exact cellsLt_strictTotal.tri a b
    · exact Or.inr (Or.inr (lenShLt_of_len_lt h))

/-- the key order on values -/
def valKeyLt (a b : NSeq × List Cell) : Bool :=
  if a.1 == b.1 then lenShLt a.2 b.2 else permLt a.1 b.1

theorem meshKey2Lt_eq (a b : MObj) : meshKey2Lt a b = valKeyLt (meshVal a) (meshVal b) := rfl

theorem valKeyLt_of_eq {a b : NSeq × List Cell} (h : a.1 = b.1) : valKeyLt a b = lenShLt a.2 b.2 := by
  simp [valKeyLt, h]

theorem valKeyLt_of_ne {a b : NSeq × List Cell} (h : a.1 ≠ b.1) : valKeyLt a b = permLt a.1 b.1 := by
  have : (a.1 == b.1) = false := by simp [h]
  simp [valKeyLt, this]

theorem valKeyLt_strictTotal : StrictTotal valKeyLt where
  irrefl := by intro a; rw [valKeyLt_of_eq rfl]; exact lenShLt_strictTotal.irrefl _
  trans := by
    intro a b c h1 h2
    by_cases hab : a.1 = b.1
    · by_cases hbc : b.1 = c.1
      · rw [valKeyLt_of_eq hab] at h1
        rw [valKeyLt_of_eq hbc] at h2
        rw [valKeyLt_of_eq (hab.trans hbc)]
        exact lenShLt_strictTotal.trans _ _ _ h1 h2
      · rw [valKeyLt_of_ne hbc] at h2
        rw [valKeyLt_of_ne (hab ▸ hbc), hab]
        exact h2
    · rw [valKeyLt_of_ne hab] at h1
      by_cases hbc : b.1 = c.1
      · rw [valKeyLt_of_ne (hbc ▸ hab), ← hbc]
        exact h1
      · rw [valKeyLt_of_ne hbc] at h2
        have h3 := permLt_strictTotal.trans _ _ _ h1 h2
        rw [valKeyLt_of_ne (permLt_strictTotal.ne_of_lt h3)]
        exact h3
  tri := by
    intro a b
    by_cases hab : a.1 = b.1
    · rw [valKeyLt_of_eq hab, valKeyLt_of_eq hab.symm]
      rcases lenShLt_strictTotal.tri a.2 b.2 with h | h | h
      · exact Or.inl h
      · exact Or.inr (Or.inl (Prod.ext hab h))
      · exact Or.inr (Or.inr h)
    · rw [valKeyLt_of_ne hab, valKeyLt_of_ne (fun e => hab e.symm)]
      rcases permLt_strictTotal.tri a.1 b.1 with h | h | h
      · exact Or.inl h
      · exact absurd h hab
      · exact Or.inr (Or.inr h)

theorem meshKey2Lt_strictWeak : StrictWeak meshKey2Lt :=
  valKeyLt_strictTotal.strictWeak.comap meshVal

/-- `sorted(key=…)` never raises and returns the key-sorted stable arrangement -/
theorem meshSort_ok (E : List MObj) :
    ∃ s, meshSort E = .ok s ∧ s.Perm E ∧ s.Pairwise (fun x y => meshKey2Lt y x = false) :=
  PySort.pySort_spec meshKey2Lt_strictWeak E (fun _ _ _ _ => rfl)

end C05
