import PermutaModel.Props.C03
import PermutaModel.Spec.C12Families
import Mathlib.Tactic.IntervalCases
/-! C12 families: the concrete mesh patterns of `perm_properties.py` unfolded into index conditions
    (occurrence tuples of length 3 / 4 made explicit, the shaded boxes turned into inequalities). -/
open Model

namespace C12

/-! ### counting the occurrence points left of / below a point -/

theorem countLt3 (a b c i : Nat) (h1 : a < b) (h2 : b < c) :
    (([a, b, c].filter (· < i)).length = 1 ↔ a < i ∧ i ≤ b) ∧
    (([a, b, c].filter (· < i)).length = 2 ↔ b < i ∧ i ≤ c) := by
  by_cases ha : a < i <;> by_cases hb : b < i <;> by_cases hc : c < i <;>
    simp [ha, hb, hc] <;> omega

theorem countLt4 (a b c d i : Nat) (h1 : a < b) (h2 : b < c) (h3 : c < d) :
    ([a, b, c, d].filter (· < i)).length = 2 ↔ b < i ∧ i ≤ c := by
  by_cases ha : a < i <;> by_cases hb : b < i <;> by_cases hc : c < i <;> by_cases hd : d < i <;>
    simp [ha, hb, hc, hd] <;> omega

/-- values of a 210-occurrence: `f c < f b < f a` -/
theorem valCount3_210 (f : Nat → Nat) (t a b c : Nat) (h1 : f b < f a) (h2 : f c < f b) :
    ((([a, b, c].filter (fun j => f j < t)).length = 0 ∨ ([a, b, c].filter (fun j => f j < t)).length = 1)
      ↔ t ≤ f b) ∧
    (([a, b, c].filter (fun j => f j < t)).length = 2 ↔ f b < t ∧ t ≤ f a) := by
  by_cases ha : f a < t <;> by_cases hb : f b < t <;> by_cases hc : f c < t <;>
    simp [ha, hb, hc] <;> omega

/-- values of a 1302-occurrence: `f c < f a < f d < f b` -/
theorem valCount4_1302 (f : Nat → Nat) (t a b c d : Nat) (h1 : f c < f a) (h2 : f a < f d) (h3 : f d < f b) :
    ([a, b, c, d].filter (fun j => f j < t)).length = 2 ↔ f a < t ∧ t ≤ f d := by
  by_cases ha : f a < t <;> by_cases hb : f b < t <;> by_cases hc : f c < t <;> by_cases hd : f d < t <;>
    simp [ha, hb, hc, hd] <;> omega

/-- values of a 2031-occurrence: `f b < f d < f a < f c` -/
theorem valCount4_2031 (f : Nat → Nat) (t a b c d : Nat) (h1 : f b < f d) (h2 : f d < f a) (h3 : f a < f c) :
    ([a, b, c, d].filter (fun j => f j < t)).length = 2 ↔ f d < t ∧ t ≤ f a := by
  by_cases ha : f a < t <;> by_cases hb : f b < t <;> by_cases hc : f c < t <;> by_cases hd : f d < t <;>
    simp [ha, hb, hc, hd] <;> omega

/-- values of a 1032-occurrence: `f b < f a < f d < f c` -/
theorem valCount4_1032 (f : Nat → Nat) (t a b c d : Nat) (h1 : f b < f a) (h2 : f a < f d) (h3 : f d < f c) :
    ([a, b, c, d].filter (fun j => f j < t)).length = 2 ↔ f a < t ∧ t ≤ f d := by
  by_cases ha : f a < t <;> by_cases hb : f b < t <;> by_cases hc : f c < t <;> by_cases hd : f d < t <;>
    simp [ha, hb, hc, hd] <;> omega

/-! ### occurrences of the concrete patterns -/

theorem isOcc_210 (σ : NSeq) (c : List Nat) : IsOcc [2, 1, 0] σ c ↔ ∃ a b d, c = [a, b, d] ∧
    a < b ∧ b < d ∧ d < σ.length ∧ σ.getD b 0 < σ.getD a 0 ∧ σ.getD d 0 < σ.getD b 0 := by
  constructor
  · rintro ⟨hl, hi, hr, hiso⟩
    match c, hl with
    | [a, b, d], _ =>
      simp only [StrictInc, List.pairwise_cons, List.mem_cons, List.not_mem_nil, or_false,
        forall_eq_or_imp, forall_eq, List.Pairwise.nil, and_true, IsEmpty.forall_iff, implies_true] at hi
      have h1 : σ.getD b 0 < σ.getD a 0 := (hiso 1 0 (by simp) (by simp)).mp (by decide)
      have h2 : σ.getD d 0 < σ.getD b 0 := (hiso 2 1 (by simp) (by simp)).mp (by decide)
      exact ⟨a, b, d, rfl, hi.1.1, hi.2, hr d (by simp), h1, h2⟩
  · rintro ⟨a, b, d, rfl, h1, h2, h3, h4, h5⟩
    refine ⟨rfl, by simp [StrictInc]; omega, by simp; omega, ?_⟩
    intro x y hx hy
    simp only [List.length_cons, List.length_nil] at hx hy
    interval_cases x <;> interval_cases y <;> simp only [List.getD_cons_zero, List.getD_cons_succ] <;> omega

private theorem strictInc4 {a b c d : Nat} (hi : StrictInc [a, b, c, d]) : a < b ∧ b < c ∧ c < d := by
  simp only [StrictInc, List.pairwise_cons, List.mem_cons, List.not_mem_nil, or_false,
    forall_eq_or_imp, forall_eq, List.Pairwise.nil, and_true, IsEmpty.forall_iff, implies_true] at hi
  exact ⟨hi.1.1, hi.2.1.1, hi.2.2⟩

/-- 1302 (2413): `σ[c] < σ[a] < σ[d] < σ[b]` -/
theorem isOcc_1302 (σ : NSeq) (o : List Nat) : IsOcc [1, 3, 0, 2] σ o ↔ ∃ a b c d, o = [a, b, c, d] ∧
    a < b ∧ b < c ∧ c < d ∧ d < σ.length ∧
    σ.getD c 0 < σ.getD a 0 ∧ σ.getD a 0 < σ.getD d 0 ∧ σ.getD d 0 < σ.getD b 0 := by
  constructor
  · rintro ⟨hl, hi, hr, hiso⟩
    match o, hl with
    | [a, b, c, d], _ =>
      obtain ⟨i1, i2, i3⟩ := strictInc4 hi
      have h1 : σ.getD c 0 < σ.getD a 0 := (hiso 2 0 (by simp) (by simp)).mp (by decide)
      have h2 : σ.getD a 0 < σ.getD d 0 := (hiso 0 3 (by simp) (by simp)).mp (by decide)
      have h3 : σ.getD d 0 < σ.getD b 0 := (hiso 3 1 (by simp) (by simp)).mp (by decide)
      exact ⟨a, b, c, d, rfl, i1, i2, i3, hr d (by simp), h1, h2, h3⟩
  · rintro ⟨a, b, c, d, rfl, h1, h2, h3, h4, h5, h6, h7⟩
    refine ⟨rfl, by simp [StrictInc]; omega, by simp; omega, ?_⟩
    intro x y hx hy
    simp only [List.length_cons, List.length_nil] at hx hy
    interval_cases x <;> interval_cases y <;> simp only [List.getD_cons_zero, List.getD_cons_succ] <;> omega

/-- 2031 (3142): `σ[b] < σ[d] < σ[a] < σ[c]` -/
theorem isOcc_2031 (σ : NSeq) (o : List Nat) : IsOcc [2, 0, 3, 1] σ o ↔ ∃ a b c d, o = [a, b, c, d] ∧
    a < b ∧ b < c ∧ c < d ∧ d < σ.length ∧
    σ.getD b 0 < σ.getD d 0 ∧ σ.getD d 0 < σ.getD a 0 ∧ σ.getD a 0 < σ.getD c 0 := by
  constructor
  · rintro ⟨hl, hi, hr, hiso⟩
    match o, hl with
    | [a, b, c, d], _ =>
      obtain ⟨i1, i2, i3⟩ := strictInc4 hi
      have h1 : σ.getD b 0 < σ.getD d 0 := (hiso 1 3 (by simp) (by simp)).mp (by decide)
      have h2 : σ.getD d 0 < σ.getD a 0 := (hiso 3 0 (by simp) (by simp)).mp (by decide)
      have h3 : σ.getD a 0 < σ.getD c 0 := (hiso 0 2 (by simp) (by simp)).mp (by decide)
      exact ⟨a, b, c, d, rfl, i1, i2, i3, hr d (by simp), h1, h2, h3⟩
  · rintro ⟨a, b, c, d, rfl, h1, h2, h3, h4, h5, h6, h7⟩
    refine ⟨rfl, by simp [StrictInc]; omega, by simp; omega, ?_⟩
    intro x y hx hy
    simp only [List.length_cons, List.length_nil] at hx hy
    interval_cases x <;> interval_cases y <;> simp only [List.getD_cons_zero, List.getD_cons_succ] <;> omega

/-- 1032 (2143): `σ[b] < σ[a] < σ[d] < σ[c]` -/
theorem isOcc_1032 (σ : NSeq) (o : List Nat) : IsOcc [1, 0, 3, 2] σ o ↔ ∃ a b c d, o = [a, b, c, d] ∧
    a < b ∧ b < c ∧ c < d ∧ d < σ.length ∧
    σ.getD b 0 < σ.getD a 0 ∧ σ.getD a 0 < σ.getD d 0 ∧ σ.getD d 0 < σ.getD c 0 := by
  constructor
  · rintro ⟨hl, hi, hr, hiso⟩
    match o, hl with
    | [a, b, c, d], _ =>
      obtain ⟨i1, i2, i3⟩ := strictInc4 hi
      have h1 : σ.getD b 0 < σ.getD a 0 := (hiso 1 0 (by simp) (by simp)).mp (by decide)
      have h2 : σ.getD a 0 < σ.getD d 0 := (hiso 0 3 (by simp) (by simp)).mp (by decide)
      have h3 : σ.getD d 0 < σ.getD c 0 := (hiso 3 2 (by simp) (by simp)).mp (by decide)
      exact ⟨a, b, c, d, rfl, i1, i2, i3, hr d (by simp), h1, h2, h3⟩
  · rintro ⟨a, b, c, d, rfl, h1, h2, h3, h4, h5, h6, h7⟩
    refine ⟨rfl, by simp [StrictInc]; omega, by simp; omega, ?_⟩
    intro x y hx hy
    simp only [List.length_cons, List.length_nil] at hx hy
    interval_cases x <;> interval_cases y <;> simp only [List.getD_cons_zero, List.getD_cons_succ] <;> omega

/-- 0213 (1324): `σ[a] < σ[c] < σ[b] < σ[d]` -/
theorem isOcc_0213 (σ : NSeq) (o : List Nat) : IsOcc [0, 2, 1, 3] σ o ↔ ∃ a b c d, o = [a, b, c, d] ∧
    a < b ∧ b < c ∧ c < d ∧ d < σ.length ∧
    σ.getD a 0 < σ.getD c 0 ∧ σ.getD c 0 < σ.getD b 0 ∧ σ.getD b 0 < σ.getD d 0 := by
  constructor
  · rintro ⟨hl, hi, hr, hiso⟩
    match o, hl with
    | [a, b, c, d], _ =>
      obtain ⟨i1, i2, i3⟩ := strictInc4 hi
      have h1 : σ.getD a 0 < σ.getD c 0 := (hiso 0 2 (by simp) (by simp)).mp (by decide)
      have h2 : σ.getD c 0 < σ.getD b 0 := (hiso 2 1 (by simp) (by simp)).mp (by decide)
      have h3 : σ.getD b 0 < σ.getD d 0 := (hiso 1 3 (by simp) (by simp)).mp (by decide)
      exact ⟨a, b, c, d, rfl, i1, i2, i3, hr d (by simp), h1, h2, h3⟩
  · rintro ⟨a, b, c, d, rfl, h1, h2, h3, h4, h5, h6, h7⟩
    refine ⟨rfl, by simp [StrictInc]; omega, by simp; omega, ?_⟩
    intro x y hx hy
    simp only [List.length_cons, List.length_nil] at hx hy
    interval_cases x <;> interval_cases y <;> simp only [List.getD_cons_zero, List.getD_cons_succ] <;> omega

theorem contains_0213_iff (σ : NSeq) : Contains σ [0, 2, 1, 3] ↔ Spec.Has1324 σ := by
  unfold Contains Spec.Has1324
  constructor
  · rintro ⟨o, ho⟩
    obtain ⟨a, b, c, d, _, h⟩ := (isOcc_0213 σ o).mp ho
    exact ⟨a, b, c, d, h⟩
  · rintro ⟨a, b, c, d, h⟩
    exact ⟨[a, b, c, d], (isOcc_0213 σ _).mpr ⟨a, b, c, d, rfl, h⟩⟩

/-! ### the box `(2,2)` of a four-point occurrence -/

/-- a point outside the occurrence `[a,b,c,d]` lies in the cell `(2,2)` iff its position is strictly
    between `b` and `c` and exactly two occurrence values are below its value -/
theorem cellOf4_22 (σ : NSeq) (a b c d i : Nat) (h1 : a < b) (h2 : b < c) (h3 : c < d)
    (hi : i ∉ [a, b, c, d]) :
    Spec.cellOf σ [a, b, c, d] i = (2, 2) ↔ (b < i ∧ i < c) ∧
      ([a, b, c, d].filter fun j => σ.getD j 0 < σ.getD i 0).length = 2 := by
  unfold Spec.cellOf
  rw [Prod.mk.injEq, countLt4 a b c d i h1 h2 h3]
  simp only [List.mem_cons, List.not_mem_nil, or_false, not_or] at hi
  constructor
  · rintro ⟨⟨p, q⟩, r⟩; exact ⟨⟨p, by omega⟩, r⟩
  · rintro ⟨⟨p, q⟩, r⟩; exact ⟨⟨p, by omega⟩, r⟩

/-- generic unfolding of a four-point mesh pattern whose only shaded box is `(2,2)`, given the
    description of its occurrences and of the second / third smallest occurrence value -/
theorem meshContains4_22 (π σ : NSeq) (Q : Nat → Nat → Nat → Nat → Prop) (lo hi : Nat → Nat → Nat → Nat → Nat)
    (hocc : ∀ o, IsOcc π σ o ↔ ∃ a b c d, o = [a, b, c, d] ∧ a < b ∧ b < c ∧ c < d ∧ d < σ.length ∧ Q a b c d)
    (hval : ∀ a b c d t, Q a b c d →
      (([a, b, c, d].filter fun j => σ.getD j 0 < t).length = 2 ↔ lo a b c d < t ∧ t ≤ hi a b c d)) :
    MeshContains σ ⟨π, [(2, 2)]⟩ ↔ ∃ a b c d, a < b ∧ b < c ∧ c < d ∧ d < σ.length ∧ Q a b c d ∧
      ∀ i, b < i → i < c → ¬ (lo a b c d < σ.getD i 0 ∧ σ.getD i 0 ≤ hi a b c d) := by
  constructor
  · rintro ⟨o, ho, hfree⟩
    obtain ⟨a, b, c, d, rfl, h1, h2, h3, h4, hq⟩ := (hocc o).mp ho
    refine ⟨a, b, c, d, h1, h2, h3, h4, hq, ?_⟩
    intro i hbi hic hv
    have hni : i ∉ [a, b, c, d] := by simp; omega
    apply hfree i (by omega) hni
    simp only [List.mem_singleton]
    rw [cellOf4_22 σ a b c d i h1 h2 h3 hni, hval a b c d _ hq]
    exact ⟨⟨hbi, hic⟩, hv⟩
  · rintro ⟨a, b, c, d, h1, h2, h3, h4, hq, hfree⟩
    refine ⟨[a, b, c, d], (hocc _).mpr ⟨a, b, c, d, rfl, h1, h2, h3, h4, hq⟩, ?_⟩
    intro i _ hni hmem
    simp only [List.mem_singleton] at hmem
    rw [cellOf4_22 σ a b c d i h1 h2 h3 hni, hval a b c d _ hq] at hmem
    exact hfree i hmem.1.1 hmem.1.2 hmem.2

theorem meshContains_1302 (σ : NSeq) : MeshContains σ ⟨[1, 3, 0, 2], [(2, 2)]⟩ ↔
    ∃ a b c d, a < b ∧ b < c ∧ c < d ∧ d < σ.length ∧
      (σ.getD c 0 < σ.getD a 0 ∧ σ.getD a 0 < σ.getD d 0 ∧ σ.getD d 0 < σ.getD b 0) ∧
      ∀ i, b < i → i < c → ¬ (σ.getD a 0 < σ.getD i 0 ∧ σ.getD i 0 ≤ σ.getD d 0) :=
  meshContains4_22 _ σ _ (fun a _ _ _ => σ.getD a 0) (fun _ _ _ d => σ.getD d 0) (isOcc_1302 σ)
    (fun a b c d t hq => valCount4_1302 (fun j => σ.getD j 0) t a b c d hq.1 hq.2.1 hq.2.2)

theorem meshContains_2031 (σ : NSeq) : MeshContains σ ⟨[2, 0, 3, 1], [(2, 2)]⟩ ↔
    ∃ a b c d, a < b ∧ b < c ∧ c < d ∧ d < σ.length ∧
      (σ.getD b 0 < σ.getD d 0 ∧ σ.getD d 0 < σ.getD a 0 ∧ σ.getD a 0 < σ.getD c 0) ∧
      ∀ i, b < i → i < c → ¬ (σ.getD d 0 < σ.getD i 0 ∧ σ.getD i 0 ≤ σ.getD a 0) :=
  meshContains4_22 _ σ _ (fun _ _ _ d => σ.getD d 0) (fun a _ _ _ => σ.getD a 0) (isOcc_2031 σ)
    (fun a b c d t hq => valCount4_2031 (fun j => σ.getD j 0) t a b c d hq.1 hq.2.1 hq.2.2)

theorem meshContains_1032 (σ : NSeq) : MeshContains σ ⟨[1, 0, 3, 2], [(2, 2)]⟩ ↔
    ∃ a b c d, a < b ∧ b < c ∧ c < d ∧ d < σ.length ∧
      (σ.getD b 0 < σ.getD a 0 ∧ σ.getD a 0 < σ.getD d 0 ∧ σ.getD d 0 < σ.getD c 0) ∧
      ∀ i, b < i → i < c → ¬ (σ.getD a 0 < σ.getD i 0 ∧ σ.getD i 0 ≤ σ.getD d 0) :=
  meshContains4_22 _ σ _ (fun a _ _ _ => σ.getD a 0) (fun _ _ _ d => σ.getD d 0) (isOcc_1032 σ)
    (fun a b c d t hq => valCount4_1032 (fun j => σ.getD j 0) t a b c d hq.1 hq.2.1 hq.2.2)

/-! ### the simsun mesh pattern -/

theorem meshContains_simsun (σ : NSeq) : MeshContains σ ⟨[2, 1, 0], [(1, 0), (1, 1), (2, 2)]⟩ ↔
    ∃ a b c, a < b ∧ b < c ∧ c < σ.length ∧ σ.getD b 0 < σ.getD a 0 ∧ σ.getD c 0 < σ.getD b 0 ∧
      (∀ i, a < i → i < b → σ.getD b 0 < σ.getD i 0) ∧
      (∀ i, b < i → i < c → σ.getD b 0 < σ.getD i 0 → σ.getD a 0 < σ.getD i 0) := by
  constructor
  · rintro ⟨o, ho, hfree⟩
    obtain ⟨a, b, c, rfl, h1, h2, h3, h4, h5⟩ := (isOcc_210 σ o).mp ho
    have hc := fun i => countLt3 a b c i h1 h2
    have hv := fun t => valCount3_210 (fun j => σ.getD j 0) t a b c h4 h5
    refine ⟨a, b, c, h1, h2, h3, h4, h5, ?_, ?_⟩
    · intro i hai hib
      by_contra hlt
      have hni : i ∉ [a, b, c] := by simp; omega
      apply hfree i (by omega) hni
      have hx : ([a, b, c].filter (· < i)).length = 1 := ((hc i).1).mpr ⟨hai, by omega⟩
      have hy := ((hv (σ.getD i 0)).1).mpr (by omega)
      simp only [Spec.cellOf, hx, List.mem_cons, Prod.mk.injEq, true_and, List.not_mem_nil, or_false]
      rcases hy with hy | hy
      · exact Or.inl hy
      · exact Or.inr (Or.inl hy)
    · intro i hbi hic hlo
      by_contra hhi
      have hni : i ∉ [a, b, c] := by simp; omega
      apply hfree i (by omega) hni
      have hx : ([a, b, c].filter (· < i)).length = 2 := ((hc i).2).mpr ⟨hbi, by omega⟩
      have hy := ((hv (σ.getD i 0)).2).mpr ⟨hlo, by omega⟩
      simp only [Spec.cellOf, hx, List.mem_cons, Prod.mk.injEq, List.not_mem_nil, or_false]
      exact Or.inr (Or.inr ⟨trivial, hy⟩)
  · rintro ⟨a, b, c, h1, h2, h3, h4, h5, hf1, hf2⟩
    refine ⟨[a, b, c], (isOcc_210 σ _).mpr ⟨a, b, c, rfl, h1, h2, h3, h4, h5⟩, ?_⟩
    have hc := fun i => countLt3 a b c i h1 h2
    have hv := fun t => valCount3_210 (fun j => σ.getD j 0) t a b c h4 h5
    intro i _ hni hmem
    have hni' : i ≠ a ∧ i ≠ b ∧ i ≠ c := by simpa using hni
    simp only [Spec.cellOf, List.mem_cons, Prod.mk.injEq, List.not_mem_nil, or_false] at hmem
    rcases hmem with ⟨hx, hy⟩ | ⟨hx, hy⟩ | ⟨hx, hy⟩
    · have := ((hc i).1).mp hx
      have hle := ((hv (σ.getD i 0)).1).mp (Or.inl hy)
      have := hf1 i this.1 (by omega)
      omega
    · have := ((hc i).1).mp hx
      have hle := ((hv (σ.getD i 0)).1).mp (Or.inr hy)
      have := hf1 i this.1 (by omega)
      omega
    · have := ((hc i).2).mp hx
      have hh := ((hv (σ.getD i 0)).2).mp hy
      have := hf2 i this.1 (by omega) hh.1
      omega

end C12
