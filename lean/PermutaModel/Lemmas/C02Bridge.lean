import PermutaModel.Lemmas.C02Contain
import PermutaModel.Props.C01
import PermutaModel.Props.C09

/-! C02 helpers, part 2: sublist-based containment `SContains` = index-tuple containment `Contains`
    (Spec/Basic) = the executable `Model.containsOne` on permutations. -/
open List

namespace C02L
open C10L

theorem getD_map_getD (σ : NSeq) (c : List Nat) {a : Nat} (ha : a < c.length) :
    (c.map fun i => σ.getD i 0).getD a 0 = σ.getD (c.getD a 0) 0 := by
  rw [getD_eq_getElem' (p := c.map _) (by simpa using ha), getD_eq_getElem' ha]; simp

/-- sublist-with-order-isomorphism containment is the index-tuple containment of `Spec/Basic` -/
theorem SContains_iff_Contains (σ π : NSeq) : SContains σ π ↔ Contains σ π := by
  constructor
  · rintro ⟨s, hs, hi⟩
    have hs' : s <+ (List.range σ.length).map (fun i => σ.getD i 0) := by rwa [map_getD_range]
    obtain ⟨c, hc, rfl⟩ := List.sublist_map_iff.mp hs'
    obtain ⟨hinc, hrng⟩ := (sublist_range_iff _ _).mp hc
    rw [OIso_iff_getD] at hi
    have hlen : c.length = π.length := by simpa using hi.1.symm
    refine ⟨c, hlen, hinc, hrng, fun a b ha hb => ?_⟩
    rw [hi.2 a b ha hb, getD_map_getD σ c (by omega), getD_map_getD σ c (by omega)]
  · rintro ⟨c, hlen, hinc, hrng, hiso⟩
    refine ⟨c.map fun i => σ.getD i 0, ?_, ?_⟩
    · have := ((sublist_range_iff σ.length c).mpr ⟨hinc, hrng⟩).map (fun i => σ.getD i 0)
      rwa [map_getD_range] at this
    · rw [OIso_iff_getD]
      refine ⟨by simpa using hlen.symm, fun a b ha hb => ?_⟩
      rw [hiso a b ha hb, getD_map_getD σ c (by omega), getD_map_getD σ c (by omega)]

/-- the executable `avoids` of the model is `Avoids` -/
theorem avoidsAll_iff_Avoids (σ : NSeq) (B : List NSeq) (hσ : IsPerm σ) (hB : ∀ p ∈ B, IsPerm p) :
    Model.avoidsAll σ B = true ↔ Avoids B σ := by
  rw [C01.avoidsAll_iff σ B hσ hB]
  unfold Avoids
  exact forall₂_congr fun p _ => not_congr (SContains_iff_Contains σ p).symm

end C02L
