import PermutaModel.Spec.C16
/-!
# C16 (pin half) — abstract proper pin sequences and their intervals

Pure point geometry over `Rat × Rat`, no reference to the model (the definitions `Pt`, `co`, `Btw`, `Extr`,
`SepA`, `PinSeqA` live in `Spec/C16.lean`).  A *pin sequence* is a list of points,
newest first, in which every point but the two oldest separates its predecessor from all older
points on one axis and lies beyond all of them on the other axis, the axes alternating
(`PinSeqA`).  `classify`: the only proper intervals of such a configuration are "everything but one
of the two oldest points" and "the newest point with one of the two oldest points"
(Brignall–Huczynska–Vatter).
-/
namespace C16P

/-- `c` lies, in coordinate `f`, on one side of all members of `S` -/
def Out (f : Pt → Rat) (L : List Pt) (S : Pt → Prop) (c : Pt) : Prop :=
  (∀ s ∈ L, S s → f c < f s) ∨ (∀ s ∈ L, S s → f s < f c)

/-- the members of `S` form an interval of the configuration `L` -/
def Iv (L : List Pt) (S : Pt → Prop) : Prop :=
  ∀ c ∈ L, ¬ S c → Out (co true) L S c ∧ Out (co false) L S c

/-- at least two members, at least one non-member -/
def Proper (L : List Pt) (S : Pt → Prop) : Prop :=
  (∃ a ∈ L, ∃ b ∈ L, a ≠ b ∧ S a ∧ S b) ∧ ∃ c ∈ L, ¬ S c

/-- no proper interval -/
def Simple (L : List Pt) : Prop := ∀ S, Iv L S → ¬ Proper L S

theorem co_not_not (v : Bool) : co (!(!v)) = co v := by simp

theorem out_co (v : Bool) {L S c} (h : Out (co true) L S c ∧ Out (co false) L S c) : Out (co v) L S c := by
  cases v
  · exact h.2
  · exact h.1

theorem pinSeqA_cons {v : Bool} {p q : Pt} {rest : List Pt} (h : rest ≠ []) :
    PinSeqA v (p :: q :: rest) ↔ SepA v p q rest ∧ PinSeqA (!v) (q :: rest) := by
  cases rest with
  | nil => exact absurd rfl h
  | cons r rest => simp [PinSeqA]

theorem pinSeqA_short (v : Bool) (l : List Pt) (h : l.length ≤ 2) : PinSeqA v l := by
  match l, h with
  | [], _ => simp [PinSeqA]
  | [_], _ => simp [PinSeqA]
  | [_, _], _ => simp [PinSeqA]

theorem pinSeqA_tail {v : Bool} {p : Pt} {l : List Pt} (h : PinSeqA v (p :: l)) : PinSeqA (!v) l := by
  match l with
  | [] => simp [PinSeqA]
  | [_] => simp [PinSeqA]
  | q :: r :: rest => exact h.2

theorem pinSeqA_suffix (pre : List Pt) : ∀ {v : Bool} {l : List Pt}, PinSeqA v (pre ++ l) → ∃ v', PinSeqA v' l := by
  induction pre with
  | nil => intro v l h; exact ⟨v, h⟩
  | cons a pre ih => intro v l h; exact ih (pinSeqA_tail h)

theorem btw_mono {f : Pt → Rat} {p q : Pt} {rest rest' : List Pt} (hs : ∀ r ∈ rest', r ∈ rest)
    (h : Btw f p q rest) : Btw f p q rest' := by
  rcases h with ⟨h1, h2⟩ | ⟨h1, h2⟩
  · exact Or.inl ⟨fun r hr => h1 r (hs r hr), h2⟩
  · exact Or.inr ⟨fun r hr => h1 r (hs r hr), h2⟩

theorem extr_mono {f : Pt → Rat} {p : Pt} {l l' : List Pt} (hs : ∀ r ∈ l', r ∈ l)
    (h : Extr f p l) : Extr f p l' := by
  rcases h with h | h
  · exact Or.inl fun r hr => h r (hs r hr)
  · exact Or.inr fun r hr => h r (hs r hr)

theorem sepA_mono {v : Bool} {p q : Pt} {rest rest' : List Pt} (hs : ∀ r ∈ rest', r ∈ rest)
    (h : SepA v p q rest) : SepA v p q rest' :=
  ⟨btw_mono hs h.1, extr_mono (by
    intro r hr
    rcases List.mem_cons.mp hr with rfl | hr
    · exact List.mem_cons_self
    · exact List.mem_cons_of_mem _ (hs r hr)) h.2⟩

/-- the oldest point may be dropped -/
theorem pinSeqA_dropLast : ∀ (l : List Pt) (a : Pt) (v : Bool), PinSeqA v (l ++ [a]) → PinSeqA v l
  | [], _, _, _ => by simp [PinSeqA]
  | [_], _, _, _ => by simp [PinSeqA]
  | [_, _], _, _, _ => by simp [PinSeqA]
  | p :: q :: r :: rest, a, v, h => by
    have h' : PinSeqA v (p :: q :: (r :: rest ++ [a])) := h
    rw [pinSeqA_cons (by simp)] at h'
    rw [pinSeqA_cons (by simp)]
    exact ⟨sepA_mono (fun x hx => by simp only [List.mem_cons, List.mem_append, List.not_mem_nil, or_false] at hx ⊢; grind) h'.1,
      pinSeqA_dropLast (q :: r :: rest) a (!v) h'.2⟩

/-- the two oldest points play symmetric roles -/
theorem pinSeqA_swap : ∀ (l : List Pt) (a b : Pt) (v : Bool), PinSeqA v (l ++ [a, b]) → PinSeqA v (l ++ [b, a])
  | [], _, _, _, _ => by simp [PinSeqA]
  | [p], a, b, v, h => by
    simp only [List.cons_append, List.nil_append, PinSeqA, and_true] at h ⊢
    obtain ⟨h1, h2⟩ := h
    refine ⟨?_, extr_mono (by intro r hr; simp only [List.mem_cons, List.not_mem_nil, or_false] at hr ⊢; grind) h2⟩
    simp only [Btw, List.mem_singleton, forall_eq] at h1 ⊢
    grind
  | p :: q :: rest, a, b, v, h => by
    have h' : PinSeqA v (p :: q :: (rest ++ [a, b])) := h
    rw [pinSeqA_cons (by simp)] at h'
    have : PinSeqA v (p :: q :: (rest ++ [b, a])) := by
      rw [pinSeqA_cons (by simp)]
      exact ⟨sepA_mono (fun x hx => by simp only [List.mem_cons, List.mem_append, List.not_mem_nil, or_false] at hx ⊢; grind) h'.1, pinSeqA_swap (q :: rest) a b (!v) h'.2⟩
    exact this

theorem iv_tail {p : Pt} {L : List Pt} {S : Pt → Prop} (h : Iv (p :: L) S) : Iv L S := by
  intro c hc hS
  obtain ⟨h1, h2⟩ := h c (List.mem_cons_of_mem _ hc) hS
  constructor
  · rcases h1 with h1 | h1
    · exact Or.inl fun s hs => h1 s (List.mem_cons_of_mem _ hs)
    · exact Or.inr fun s hs => h1 s (List.mem_cons_of_mem _ hs)
  · rcases h2 with h2 | h2
    · exact Or.inl fun s hs => h2 s (List.mem_cons_of_mem _ hs)
    · exact Or.inr fun s hs => h2 s (List.mem_cons_of_mem _ hs)

/-- a point strictly between two members is not outside -/
theorem not_out_of_btw {f : Pt → Rat} {L : List Pt} {S : Pt → Prop} {p q r : Pt} {rest : List Pt}
    (hb : Btw f p q rest) (hq : q ∈ L) (hSq : S q) (hr : r ∈ rest) (hrL : r ∈ L) (hSr : S r) :
    ¬ Out f L S p := by
  intro ho
  rcases hb with ⟨h1, h2⟩ | ⟨h1, h2⟩ <;> rcases ho with ho | ho
  · have := h1 r hr; have := ho r hrL hSr; grind
  · have := ho q hq hSq; grind
  · have := ho q hq hSq; grind
  · have := h1 r hr; have := ho r hrL hSr; grind

/-- extremal in coordinate `f` among the other points of `L` -/
def Ext (f : Pt → Rat) (L : List Pt) (c : Pt) : Prop :=
  (∀ s ∈ L, s ≠ c → f c < f s) ∨ (∀ s ∈ L, s ≠ c → f s < f c)

/-- extremal in both coordinates -/
def Corner (L : List Pt) (c : Pt) : Prop := Ext (co true) L c ∧ Ext (co false) L c

theorem corner_co (v : Bool) {L c} (h : Corner L c) : Ext (co v) L c ∧ Ext (co (!v)) L c := by
  cases v
  · exact ⟨h.2, h.1⟩
  · exact ⟨h.1, h.2⟩

theorem corner_of_co (v : Bool) {L c} (h1 : Ext (co v) L c) (h2 : Ext (co (!v)) L c) : Corner L c := by
  cases v
  · exact ⟨h2, h1⟩
  · exact ⟨h1, h2⟩

theorem ext_tail {f : Pt → Rat} {a : Pt} {L : List Pt} {c : Pt} (h : Ext f (a :: L) c) : Ext f L c := by
  rcases h with h | h
  · exact Or.inl fun s hs => h s (List.mem_cons_of_mem _ hs)
  · exact Or.inr fun s hs => h s (List.mem_cons_of_mem _ hs)

/-- **corner lemma**: a corner of a pin sequence is one of its two oldest points -/
theorem corner_old (mid : List Pt) : ∀ (v : Bool) (q1 q0 r : Pt), PinSeqA v (mid ++ [q1, q0]) →
    (mid ++ [q1, q0]).Nodup → r ∈ mid ++ [q1, q0] → Corner (mid ++ [q1, q0]) r → r = q1 ∨ r = q0 := by
  induction mid with
  | nil => intro v q1 q0 r _ _ hr _; simpa using hr
  | cons a mid ih =>
    intro v q1 q0 r hP hN hr hC
    rcases List.mem_cons.mp hr with rfl | hr
    · exfalso
      -- `r` is between its predecessor and the older points
      obtain ⟨a', rest', hrest, hne⟩ : ∃ a' rest', mid ++ [q1, q0] = a' :: rest' ∧ rest' ≠ [] := by
        cases mid with
        | nil => exact ⟨q1, [q0], rfl, by simp⟩
        | cons a' m => exact ⟨a', m ++ [q1, q0], rfl, by simp⟩
      have hP' : PinSeqA v (r :: a' :: rest') := by
        have : r :: mid ++ [q1, q0] = r :: (mid ++ [q1, q0]) := rfl
        rw [this, hrest] at hP; exact hP
      rw [pinSeqA_cons hne] at hP'
      obtain ⟨x, hx⟩ := List.exists_mem_of_ne_nil _ hne
      have hN' : (r :: a' :: rest').Nodup := by
        have : r :: mid ++ [q1, q0] = r :: (mid ++ [q1, q0]) := rfl
        rw [this, hrest] at hN; exact hN
      have hra' : a' ≠ r := by
        intro h; subst h; simp at hN'
      have hrx : x ≠ r := by
        intro h; subst h; simp [hx] at hN'
      have hE := (corner_co v hC).1
      have hm1 : a' ∈ r :: mid ++ [q1, q0] := by
        show a' ∈ r :: (mid ++ [q1, q0]); rw [hrest]; simp
      have hm2 : x ∈ r :: mid ++ [q1, q0] := by
        show x ∈ r :: (mid ++ [q1, q0]); rw [hrest]; simp [hx]
      rcases hP'.1.1 with ⟨b1, b2⟩ | ⟨b1, b2⟩ <;> rcases hE with hE | hE
      · have := hE x hm2 hrx; have := b1 x hx; grind
      · have := hE a' hm1 hra'; grind
      · have := hE a' hm1 hra'; grind
      · have := hE x hm2 hrx; have := b1 x hx; grind
    · exact ih (!v) q1 q0 r (pinSeqA_tail hP) (List.nodup_cons.mp hN).2 hr ⟨ext_tail hC.1, ext_tail hC.2⟩

/-- the four shapes of a proper interval of a pin sequence `p :: … ++ [q1, q0]` -/
def Form (L : List Pt) (S : Pt → Prop) (p q1 q0 : Pt) : Prop :=
  (∀ c ∈ L, (S c ↔ c ≠ q0)) ∨ (∀ c ∈ L, (S c ↔ c ≠ q1)) ∨
  (∀ c ∈ L, (S c ↔ (c = p ∨ c = q0))) ∨ (∀ c ∈ L, (S c ↔ (c = p ∨ c = q1)))

/-- a two-point interval `{p, r}` with the newest pin `p`: `r` is a corner of everything older than
    the predecessor of `p` -/
theorem two_point_corner {v : Bool} {p p' r : Pt} {rest : List Pt} {S : Pt → Prop}
    (hsep : SepA v p p' rest) (hiv : Iv (p :: p' :: rest) S) (hSp : S p)
    (hS : ∀ c ∈ p' :: rest, (S c ↔ c = r)) (hr : r ∈ rest) : Corner rest r := by
  have hrL : r ∈ p :: p' :: rest := by simp [hr]
  have hpL : p ∈ p :: p' :: rest := by simp
  have hSr : S r := (hS r (List.mem_cons_of_mem _ hr)).mpr rfl
  apply corner_of_co v
  · -- between coordinate
    have key : ∀ c ∈ rest, c ≠ r → Out (co v) (p :: p' :: rest) S c := fun c hc hcr =>
      out_co v (hiv c (by simp [hc]) (fun h => hcr ((hS c (List.mem_cons_of_mem _ hc)).mp h)))
    rcases hsep.1 with ⟨b1, _⟩ | ⟨b1, _⟩
    · refine Or.inr fun c hc hcr => ?_
      rcases key c hc hcr with ho | ho
      · exact ho r hrL hSr
      · have := ho p hpL hSp; have := b1 c hc; grind
    · refine Or.inl fun c hc hcr => ?_
      rcases key c hc hcr with ho | ho
      · have := ho p hpL hSp; have := b1 c hc; grind
      · exact ho r hrL hSr
  · have key : ∀ c ∈ rest, c ≠ r → Out (co (!v)) (p :: p' :: rest) S c := fun c hc hcr =>
      out_co (!v) (hiv c (by simp [hc]) (fun h => hcr ((hS c (List.mem_cons_of_mem _ hc)).mp h)))
    rcases hsep.2 with e | e
    · refine Or.inr fun c hc hcr => ?_
      rcases key c hc hcr with ho | ho
      · exact ho r hrL hSr
      · have := ho p hpL hSp; have := e c (List.mem_cons_of_mem _ hc); grind
    · refine Or.inl fun c hc hcr => ?_
      rcases key c hc hcr with ho | ho
      · have := ho p hpL hSp; have := e c (List.mem_cons_of_mem _ hc); grind
      · exact ho r hrL hSr

/-- if the newest pin `p` and its predecessor `p'` are members, then the predecessor of `p'` or every
    older point is a member (three more points present) -/
theorem no_gap_below {v : Bool} {p p' p'' x : Pt} {rest1 : List Pt} {S : Pt → Prop}
    (hsep : SepA v p p' (p'' :: rest1)) (hsep' : SepA (!v) p' p'' rest1) (hx : x ∈ rest1)
    (hiv : Iv (p :: p' :: p'' :: rest1) S) (hSp : S p) (hSp' : S p')
    (hn1 : ¬ S p'') (hn2 : ¬ S x) : False := by
  have hpL : p ∈ p :: p' :: p'' :: rest1 := by simp
  have hp'L : p' ∈ p :: p' :: p'' :: rest1 := by simp
  have o1 := out_co (!v) (hiv p'' (by simp) hn1)
  have o2 := out_co (!v) (hiv x (by simp [hx]) hn2)
  have e := hsep.2
  have b := hsep'.1
  rcases e with e | e <;> rcases b with ⟨b1, b2⟩ | ⟨b1, b2⟩ <;> rcases o1 with o1 | o1 <;> rcases o2 with o2 | o2
  all_goals
    have := e p'' (by simp); have := e x (by simp [hx]); have := b1 x hx
    have := o1 p hpL hSp; have := o1 p' hp'L hSp'; have := o2 p hpL hSp; have := o2 p' hp'L hSp'
    grind

/-- **classification of the proper intervals of a pin sequence** -/
theorem classify (mid : List Pt) : ∀ (v : Bool) (p q1 q0 : Pt) (S : Pt → Prop),
    PinSeqA v (p :: mid ++ [q1, q0]) → (p :: mid ++ [q1, q0]).Nodup →
    Iv (p :: mid ++ [q1, q0]) S → Proper (p :: mid ++ [q1, q0]) S →
    Form (p :: mid ++ [q1, q0]) S p q1 q0 := by
  induction mid with
  | nil =>
    intro v p q1 q0 S hP hN hI hPr
    simp only [List.cons_append, List.nil_append, PinSeqA, and_true] at hP
    have hb := hP.1
    simp only [List.cons_append, List.nil_append, List.nodup_cons, List.mem_cons, List.not_mem_nil,
      or_false, not_or, List.nodup_nil, and_true, not_false_eq_true] at hN
    obtain ⟨⟨h1, h2⟩, h3⟩ := hN
    by_cases hp : S p
    · by_cases hq1 : S q1
      · by_cases hq0 : S q0
        · exfalso
          obtain ⟨c, hc, hSc⟩ := hPr.2
          simp only [List.cons_append, List.nil_append, List.mem_cons, List.not_mem_nil, or_false] at hc
          rcases hc with rfl | rfl | rfl <;> contradiction
        · left
          intro c hc
          simp only [List.cons_append, List.nil_append, List.mem_cons, List.not_mem_nil, or_false] at hc
          rcases hc with rfl | rfl | rfl <;> simp [*]
      · by_cases hq0 : S q0
        · right; left
          intro c hc
          simp only [List.cons_append, List.nil_append, List.mem_cons, List.not_mem_nil, or_false] at hc
          rcases hc with rfl | rfl | rfl <;> simp [*]
          exact fun h => h3 h.symm
        · exfalso
          obtain ⟨a, ha, b, hb', hab, hSa, hSb⟩ := hPr.1
          simp only [List.cons_append, List.nil_append, List.mem_cons, List.not_mem_nil, or_false] at ha hb'
          rcases ha with rfl | rfl | rfl <;> rcases hb' with rfl | rfl | rfl <;> first | contradiction | exact hab rfl
    · by_cases hq1 : S q1
      · by_cases hq0 : S q0
        · exfalso
          exact not_out_of_btw hb (by simp) hq1 (by simp) (by simp) hq0 (out_co v (hI p (by simp) hp))
        · exfalso
          obtain ⟨a, ha, b, hb', hab, hSa, hSb⟩ := hPr.1
          simp only [List.cons_append, List.nil_append, List.mem_cons, List.not_mem_nil, or_false] at ha hb'
          rcases ha with rfl | rfl | rfl <;> rcases hb' with rfl | rfl | rfl <;> first | contradiction | exact hab rfl
      · exfalso
        obtain ⟨a, ha, b, hb', hab, hSa, hSb⟩ := hPr.1
        simp only [List.cons_append, List.nil_append, List.mem_cons, List.not_mem_nil, or_false] at ha hb'
        rcases ha with rfl | rfl | rfl <;> rcases hb' with rfl | rfl | rfl <;> first | contradiction | exact hab rfl
  | cons p' mid ih =>
    intro v p q1 q0 S hP hN hI hPr
    have hL : p :: (p' :: mid) ++ [q1, q0] = p :: p' :: (mid ++ [q1, q0]) := rfl
    rw [hL] at hP hN hI hPr ⊢
    have hne : mid ++ [q1, q0] ≠ [] := by simp
    rw [pinSeqA_cons hne] at hP
    obtain ⟨hsep, hP0⟩ := hP
    have hN0 : (p' :: (mid ++ [q1, q0])).Nodup := (List.nodup_cons.mp hN).2
    have hpn : p ∉ p' :: (mid ++ [q1, q0]) := (List.nodup_cons.mp hN).1
    have hI0 := iv_tail hI
    have hq0 : q0 ∈ mid ++ [q1, q0] := by simp
    have hq1 : q1 ∈ mid ++ [q1, q0] := by simp
    have hq10 : q1 ≠ q0 := by
      have := (List.nodup_cons.mp hN0).2
      rw [List.nodup_append] at this
      have := this.2.1
      simp only [List.nodup_cons, List.mem_cons, List.not_mem_nil, or_false] at this
      exact this.1
    have hp'n : p' ∉ mid ++ [q1, q0] := (List.nodup_cons.mp hN0).1
    have hp'q0 : p' ≠ q0 := fun h => hp'n (by rw [h]; exact hq0)
    have hp'q1 : p' ≠ q1 := fun h => hp'n (by rw [h]; exact hq1)
    have hpq0 : p ≠ q0 := fun h => hpn (by rw [h]; exact List.mem_cons_of_mem _ hq0)
    have hpq1 : p ≠ q1 := fun h => hpn (by rw [h]; exact List.mem_cons_of_mem _ hq1)
    have IH := ih (!v) p' q1 q0 S hP0 hN0 hI0
    -- decomposition of the older part
    obtain ⟨p'', rest1, hrest, hne1⟩ : ∃ p'' rest1, mid ++ [q1, q0] = p'' :: rest1 ∧ rest1 ≠ [] := by
      cases mid with
      | nil => exact ⟨q1, [q0], rfl, by simp⟩
      | cons a m => exact ⟨a, m ++ [q1, q0], rfl, by simp⟩
    have hsep' : SepA (!v) p' p'' rest1 := by
      have h := hP0
      rw [hrest, pinSeqA_cons hne1] at h
      exact h.1
    by_cases hp : S p
    · by_cases h2 : ∃ a ∈ p' :: (mid ++ [q1, q0]), ∃ b ∈ p' :: (mid ++ [q1, q0]), a ≠ b ∧ S a ∧ S b
      · by_cases h3 : ∃ c ∈ p' :: (mid ++ [q1, q0]), ¬ S c
        · rcases IH ⟨h2, h3⟩ with F | F | F | F
          · left
            intro c hc
            rcases List.mem_cons.mp hc with rfl | hc
            · simp [hp, hpq0]
            · exact F c hc
          · right; left
            intro c hc
            rcases List.mem_cons.mp hc with rfl | hc
            · simp [hp, hpq1]
            · exact F c hc
          · -- members `p, p', q0`
            have hSp' : S p' := (F p' (by simp)).mpr (Or.inl rfl)
            cases mid with
            | nil =>
              right; left
              intro c hc
              simp only [List.nil_append, List.mem_cons, List.not_mem_nil, or_false] at hc
              rcases hc with rfl | rfl | rfl | rfl
              · simp [hp, hpq1]
              · simp [hSp', hp'q1]
              · have := F c (by simp); simp [this, hp'q1.symm, hq10]
              · have := F c (by simp); simp [this, hq10.symm]
            | cons a m =>
              exfalso
              simp only [List.cons_append, List.cons.injEq] at hrest
              obtain ⟨rfl, rfl⟩ := hrest
              have hq1m : q1 ∈ m ++ [q1, q0] := by simp
              have hn1 : ¬ S a := by
                intro h
                rcases (F a (by simp)).mp h with h | h
                · exact hp'n (h ▸ (by simp))
                · subst h
                  have := (List.nodup_cons.mp (List.nodup_cons.mp hN0).2).1
                  exact this (by simp)
              have hn2 : ¬ S q1 := by
                intro h
                rcases (F q1 (by simp)).mp h with h | h
                · exact hp'q1 h.symm
                · exact hq10 h
              have hI' : Iv (p :: p' :: a :: (m ++ [q1, q0])) S := hI
              exact no_gap_below hsep hsep' hq1m hI' hp hSp' hn1 hn2
          · have hSp' : S p' := (F p' (by simp)).mpr (Or.inl rfl)
            cases mid with
            | nil =>
              left
              intro c hc
              simp only [List.nil_append, List.mem_cons, List.not_mem_nil, or_false] at hc
              rcases hc with rfl | rfl | rfl | rfl
              · simp [hp, hpq0]
              · simp [hSp', hp'q0]
              · have := F c (by simp); simp [this, hq10]
              · have := F c (by simp); simp [this, hp'q0.symm, hq10.symm]
            | cons a m =>
              exfalso
              simp only [List.cons_append, List.cons.injEq] at hrest
              obtain ⟨rfl, rfl⟩ := hrest
              have hq0m : q0 ∈ m ++ [q1, q0] := by simp
              have hn1 : ¬ S a := by
                intro h
                rcases (F a (by simp)).mp h with h | h
                · exact hp'n (h ▸ (by simp))
                · subst h
                  have := (List.nodup_cons.mp (List.nodup_cons.mp hN0).2).1
                  exact this (by simp)
              have hn2 : ¬ S q0 := by
                intro h
                rcases (F q0 (by simp)).mp h with h | h
                · exact hp'q0 h.symm
                · exact hq10 h.symm
              have hI' : Iv (p :: p' :: a :: (m ++ [q1, q0])) S := hI
              exact no_gap_below hsep hsep' hq0m hI' hp hSp' hn1 hn2
        · exfalso
          obtain ⟨c, hc, hSc⟩ := hPr.2
          rcases List.mem_cons.mp hc with rfl | hc
          · exact hSc hp
          · exact h3 ⟨c, hc, hSc⟩
      · -- exactly one older member `r`
        obtain ⟨r, hr, hSr⟩ : ∃ r ∈ p' :: (mid ++ [q1, q0]), S r := by
          obtain ⟨a, ha, b, hb, hab, hSa, hSb⟩ := hPr.1
          rcases List.mem_cons.mp ha with rfl | ha
          · rcases List.mem_cons.mp hb with rfl | hb
            · exact absurd rfl hab
            · exact ⟨b, hb, hSb⟩
          · exact ⟨a, ha, hSa⟩
        have hS : ∀ c ∈ p' :: (mid ++ [q1, q0]), (S c ↔ c = r) := by
          intro c hc
          constructor
          · intro h
            by_cases hcr : c = r
            · exact hcr
            · exact absurd ⟨c, hc, r, hr, hcr, h, hSr⟩ h2
          · rintro rfl; exact hSr
        have hrp' : r ≠ p' := by
          rintro rfl
          obtain ⟨x, hx⟩ := List.exists_mem_of_ne_nil _ hne1
          have hI' : Iv (p :: r :: p'' :: rest1) S := hrest ▸ hI
          have hsepx : SepA v p r (p'' :: rest1) := hrest ▸ hsep
          refine no_gap_below hsepx hsep' hx hI' hp hSr ?_ ?_
          · intro h
            have := (hS p'' (by rw [hrest]; simp)).mp h
            exact hp'n (by rw [← this, hrest]; simp)
          · intro h
            have := (hS x (by rw [hrest]; simp [hx])).mp h
            exact hp'n (by rw [← this, hrest]; simp [hx])
        have hr0 : r ∈ mid ++ [q1, q0] := by
          rcases List.mem_cons.mp hr with h | h
          · exact absurd h hrp'
          · exact h
        have hC := two_point_corner hsep hI hp hS hr0
        have hPr0 : PinSeqA v (mid ++ [q1, q0]) := by
          have := pinSeqA_tail hP0
          rwa [Bool.not_not] at this
        rcases corner_old mid v q1 q0 r hPr0 (List.nodup_cons.mp hN0).2 hr0 hC with rfl | rfl
        · right; right; right
          intro c hc
          rcases List.mem_cons.mp hc with rfl | hc'
          · simp [hp]
          · rw [hS c hc']
            constructor
            · exact Or.inr
            · rintro (h | h)
              · exact absurd (h ▸ hc') hpn
              · exact h
        · right; right; left
          intro c hc
          rcases List.mem_cons.mp hc with rfl | hc'
          · simp [hp]
          · rw [hS c hc']
            constructor
            · exact Or.inr
            · rintro (h | h)
              · exact absurd (h ▸ hc') hpn
              · exact h
    · -- the newest pin is not a member: impossible
      exfalso
      have h2 : ∃ a ∈ p' :: (mid ++ [q1, q0]), ∃ b ∈ p' :: (mid ++ [q1, q0]), a ≠ b ∧ S a ∧ S b := by
        obtain ⟨a, ha, b, hb, hab, hSa, hSb⟩ := hPr.1
        rcases List.mem_cons.mp ha with rfl | ha
        · exact absurd hSa hp
        · rcases List.mem_cons.mp hb with rfl | hb
          · exact absurd hSb hp
          · exact ⟨a, ha, b, hb, hab, hSa, hSb⟩
      have key : S p' ∧ ∃ r ∈ mid ++ [q1, q0], S r := by
        by_cases h3 : ∃ c ∈ p' :: (mid ++ [q1, q0]), ¬ S c
        · rcases IH ⟨h2, h3⟩ with F | F | F | F
          · exact ⟨(F p' (by simp)).mpr hp'q0, q1, hq1, (F q1 (by simp)).mpr hq10⟩
          · exact ⟨(F p' (by simp)).mpr hp'q1, q0, hq0, (F q0 (by simp)).mpr hq10.symm⟩
          · exact ⟨(F p' (by simp)).mpr (Or.inl rfl), q0, hq0, (F q0 (by simp)).mpr (Or.inr rfl)⟩
          · exact ⟨(F p' (by simp)).mpr (Or.inl rfl), q1, hq1, (F q1 (by simp)).mpr (Or.inr rfl)⟩
        · have hall : ∀ c ∈ p' :: (mid ++ [q1, q0]), S c := by
            intro c hc
            by_cases h : S c
            · exact h
            · exact absurd ⟨c, hc, h⟩ h3
          exact ⟨hall p' (by simp), q0, hq0, hall q0 (by simp)⟩
      obtain ⟨hSp', r, hr, hSr⟩ := key
      exact not_out_of_btw hsep.1 (by simp) hSp' hr (by simp [hr]) hSr (out_co v (hI p (by simp) hp))

theorem ext_mono {f : Pt → Rat} {L L' : List Pt} {c : Pt} (hs : ∀ s ∈ L', s ∈ L) (h : Ext f L c) : Ext f L' c := by
  rcases h with h | h
  · exact Or.inl fun s hs' => h s (hs s hs')
  · exact Or.inr fun s hs' => h s (hs s hs')

theorem iv_mono {L L' : List Pt} {S : Pt → Prop} (hs : ∀ s ∈ L', s ∈ L) (h : Iv L S) : Iv L' S := by
  intro c hc hS
  obtain ⟨h1, h2⟩ := h c (hs c hc) hS
  constructor
  · rcases h1 with h1 | h1
    · exact Or.inl fun s hs' => h1 s (hs s hs')
    · exact Or.inr fun s hs' => h1 s (hs s hs')
  · rcases h2 with h2 | h2
    · exact Or.inl fun s hs' => h2 s (hs s hs')
    · exact Or.inr fun s hs' => h2 s (hs s hs')

section kernel
variable (f g h : Pt → Rat) (p q4 q3 q2 q1 q0 : Pt)

/-- the oldest point is a corner: nothing goes wrong once it is removed (six-point kernel) -/
theorem kernelA1 (hh : h = f ∨ h = g) (hN : [p, q4, q3, q2, q1, q0].Nodup)
    (t2 : Btw f q2 q1 [q0]) (e2 : Extr g q2 [q1, q0]) (t3 : Btw g q3 q2 [q1, q0]) (e3 : Extr f q3 [q2, q1, q0])
    (t4 : Btw f q4 q3 [q2, q1, q0]) (e4 : Extr g q4 [q3, q2, q1, q0]) (ep : Extr h p [q4, q3, q2, q1, q0])
    (c0f : Ext f [p, q4, q3, q2, q1, q0] q0) (c0g : Ext g [p, q4, q3, q2, q1, q0] q0)
    (c1f : Ext f [p, q4, q3, q2, q1] q1) (c1g : Ext g [p, q4, q3, q2, q1] q1) : False := by
  simp only [Btw, Extr, Ext, List.mem_cons, List.not_mem_nil, or_false, forall_eq_or_imp, forall_eq,
    List.nodup_cons, not_or, List.nodup_nil, and_true, not_false_eq_true] at *
  rcases hh with rfl | rfl <;> grind

theorem kernelA2 (hh : h = f ∨ h = g) (hN : [p, q4, q3, q2, q1, q0].Nodup)
    (t2 : Btw f q2 q1 [q0]) (e2 : Extr g q2 [q1, q0]) (t3 : Btw g q3 q2 [q1, q0]) (e3 : Extr f q3 [q2, q1, q0])
    (t4 : Btw f q4 q3 [q2, q1, q0]) (e4 : Extr g q4 [q3, q2, q1, q0]) (ep : Extr h p [q4, q3, q2, q1, q0])
    (c0f : Ext f [p, q4, q3, q2, q1, q0] q0) (c0g : Ext g [p, q4, q3, q2, q1, q0] q0)
    (c1f : Ext f [p, q4, q3, q2, q1] q2) (c1g : Ext g [p, q4, q3, q2, q1] q2) : False := by
  simp only [Btw, Extr, Ext, List.mem_cons, List.not_mem_nil, or_false, forall_eq_or_imp, forall_eq,
    List.nodup_cons, not_or, List.nodup_nil, and_true, not_false_eq_true] at *
  rcases hh with rfl | rfl <;> grind

theorem kernelA3 (hh : h = f ∨ h = g) (hN : [p, q4, q3, q2, q1, q0].Nodup)
    (t2 : Btw f q2 q1 [q0]) (e2 : Extr g q2 [q1, q0]) (t3 : Btw g q3 q2 [q1, q0]) (e3 : Extr f q3 [q2, q1, q0])
    (t4 : Btw f q4 q3 [q2, q1, q0]) (e4 : Extr g q4 [q3, q2, q1, q0]) (ep : Extr h p [q4, q3, q2, q1, q0])
    (c0f : Ext f [p, q4, q3, q2, q1, q0] q0) (c0g : Ext g [p, q4, q3, q2, q1, q0] q0)
    (S' : Pt → Prop) (hS' : ∀ c ∈ [p, q4, q3, q2, q1], (S' c ↔ (c = p ∨ c = q1)))
    (ivf' : ∀ c ∈ [p, q4, q3, q2, q1], ¬ S' c → Out f [p, q4, q3, q2, q1] S' c)
    (ivg' : ∀ c ∈ [p, q4, q3, q2, q1], ¬ S' c → Out g [p, q4, q3, q2, q1] S' c) : False := by
  simp only [Btw, Extr, Ext, Out, List.mem_cons, List.not_mem_nil, or_false, forall_eq_or_imp, forall_eq,
    List.nodup_cons, not_or, List.nodup_nil, and_true, not_false_eq_true] at *
  rcases hh with rfl | rfl <;> grind

theorem kernelA4 (hh : h = f ∨ h = g) (hN : [p, q4, q3, q2, q1, q0].Nodup)
    (t2 : Btw f q2 q1 [q0]) (e2 : Extr g q2 [q1, q0]) (t3 : Btw g q3 q2 [q1, q0]) (e3 : Extr f q3 [q2, q1, q0])
    (t4 : Btw f q4 q3 [q2, q1, q0]) (e4 : Extr g q4 [q3, q2, q1, q0]) (ep : Extr h p [q4, q3, q2, q1, q0])
    (c0f : Ext f [p, q4, q3, q2, q1, q0] q0) (c0g : Ext g [p, q4, q3, q2, q1, q0] q0)
    (S' : Pt → Prop) (hS' : ∀ c ∈ [p, q4, q3, q2, q1], (S' c ↔ (c = p ∨ c = q2)))
    (ivf' : ∀ c ∈ [p, q4, q3, q2, q1], ¬ S' c → Out f [p, q4, q3, q2, q1] S' c)
    (ivg' : ∀ c ∈ [p, q4, q3, q2, q1], ¬ S' c → Out g [p, q4, q3, q2, q1] S' c) : False := by
  simp only [Btw, Extr, Ext, Out, List.mem_cons, List.not_mem_nil, or_false, forall_eq_or_imp, forall_eq,
    List.nodup_cons, not_or, List.nodup_nil, and_true, not_false_eq_true] at *
  rcases hh with rfl | rfl <;> grind

theorem kernelC1 (hh : h = f ∨ h = g) (hN : [p, q4, q3, q2, q1, q0].Nodup)
    (t2 : Btw f q2 q1 [q0]) (e2 : Extr g q2 [q1, q0]) (t3 : Btw g q3 q2 [q1, q0]) (e3 : Extr f q3 [q2, q1, q0])
    (t4 : Btw f q4 q3 [q2, q1, q0]) (e4 : Extr g q4 [q3, q2, q1, q0]) (ep : Extr h p [q4, q3, q2, q1, q0])
    (S : Pt → Prop) (hS : ∀ c ∈ [p, q4, q3, q2, q1, q0], (S c ↔ (c = p ∨ c = q0)))
    (ivf : ∀ c ∈ [p, q4, q3, q2, q1, q0], ¬ S c → Out f [p, q4, q3, q2, q1, q0] S c)
    (ivg : ∀ c ∈ [p, q4, q3, q2, q1, q0], ¬ S c → Out g [p, q4, q3, q2, q1, q0] S c)
    (c0f : Ext f [q4, q3, q2, q1, q0] q0) (c0g : Ext g [q4, q3, q2, q1, q0] q0)
    (c1f : Ext f [p, q4, q3, q2, q1] q1) (c1g : Ext g [p, q4, q3, q2, q1] q1) : False := by
  simp only [Btw, Extr, Ext, Out, List.mem_cons, List.not_mem_nil, or_false, forall_eq_or_imp, forall_eq,
    List.nodup_cons, not_or, List.nodup_nil, and_true, not_false_eq_true] at *
  rcases hh with rfl | rfl <;> grind

theorem kernelC2 (hh : h = f ∨ h = g) (hN : [p, q4, q3, q2, q1, q0].Nodup)
    (t2 : Btw f q2 q1 [q0]) (e2 : Extr g q2 [q1, q0]) (t3 : Btw g q3 q2 [q1, q0]) (e3 : Extr f q3 [q2, q1, q0])
    (t4 : Btw f q4 q3 [q2, q1, q0]) (e4 : Extr g q4 [q3, q2, q1, q0]) (ep : Extr h p [q4, q3, q2, q1, q0])
    (S : Pt → Prop) (hS : ∀ c ∈ [p, q4, q3, q2, q1, q0], (S c ↔ (c = p ∨ c = q0)))
    (ivf : ∀ c ∈ [p, q4, q3, q2, q1, q0], ¬ S c → Out f [p, q4, q3, q2, q1, q0] S c)
    (ivg : ∀ c ∈ [p, q4, q3, q2, q1, q0], ¬ S c → Out g [p, q4, q3, q2, q1, q0] S c)
    (c0f : Ext f [q4, q3, q2, q1, q0] q0) (c0g : Ext g [q4, q3, q2, q1, q0] q0)
    (c1f : Ext f [p, q4, q3, q2, q1] q2) (c1g : Ext g [p, q4, q3, q2, q1] q2) : False := by
  simp only [Btw, Extr, Ext, Out, List.mem_cons, List.not_mem_nil, or_false, forall_eq_or_imp, forall_eq,
    List.nodup_cons, not_or, List.nodup_nil, and_true, not_false_eq_true] at *
  rcases hh with rfl | rfl <;> grind

theorem kernelC3 (hh : h = f ∨ h = g) (hN : [p, q4, q3, q2, q1, q0].Nodup)
    (t2 : Btw f q2 q1 [q0]) (e2 : Extr g q2 [q1, q0]) (t3 : Btw g q3 q2 [q1, q0]) (e3 : Extr f q3 [q2, q1, q0])
    (t4 : Btw f q4 q3 [q2, q1, q0]) (e4 : Extr g q4 [q3, q2, q1, q0]) (ep : Extr h p [q4, q3, q2, q1, q0])
    (S : Pt → Prop) (hS : ∀ c ∈ [p, q4, q3, q2, q1, q0], (S c ↔ (c = p ∨ c = q0)))
    (ivf : ∀ c ∈ [p, q4, q3, q2, q1, q0], ¬ S c → Out f [p, q4, q3, q2, q1, q0] S c)
    (ivg : ∀ c ∈ [p, q4, q3, q2, q1, q0], ¬ S c → Out g [p, q4, q3, q2, q1, q0] S c)
    (c0f : Ext f [q4, q3, q2, q1, q0] q0) (c0g : Ext g [q4, q3, q2, q1, q0] q0)
    (S' : Pt → Prop) (hS' : ∀ c ∈ [p, q4, q3, q2, q1], (S' c ↔ (c = p ∨ c = q1)))
    (ivf' : ∀ c ∈ [p, q4, q3, q2, q1], ¬ S' c → Out f [p, q4, q3, q2, q1] S' c)
    (ivg' : ∀ c ∈ [p, q4, q3, q2, q1], ¬ S' c → Out g [p, q4, q3, q2, q1] S' c) : False := by
  simp only [Btw, Extr, Ext, Out, List.mem_cons, List.not_mem_nil, or_false, forall_eq_or_imp, forall_eq,
    List.nodup_cons, not_or, List.nodup_nil, and_true, not_false_eq_true] at *
  rcases hh with rfl | rfl <;> grind

theorem kernelC4 (hh : h = f ∨ h = g) (hN : [p, q4, q3, q2, q1, q0].Nodup)
    (t2 : Btw f q2 q1 [q0]) (e2 : Extr g q2 [q1, q0]) (t3 : Btw g q3 q2 [q1, q0]) (e3 : Extr f q3 [q2, q1, q0])
    (t4 : Btw f q4 q3 [q2, q1, q0]) (e4 : Extr g q4 [q3, q2, q1, q0]) (ep : Extr h p [q4, q3, q2, q1, q0])
    (S : Pt → Prop) (hS : ∀ c ∈ [p, q4, q3, q2, q1, q0], (S c ↔ (c = p ∨ c = q0)))
    (ivf : ∀ c ∈ [p, q4, q3, q2, q1, q0], ¬ S c → Out f [p, q4, q3, q2, q1, q0] S c)
    (ivg : ∀ c ∈ [p, q4, q3, q2, q1, q0], ¬ S c → Out g [p, q4, q3, q2, q1, q0] S c)
    (c0f : Ext f [q4, q3, q2, q1, q0] q0) (c0g : Ext g [q4, q3, q2, q1, q0] q0)
    (S' : Pt → Prop) (hS' : ∀ c ∈ [p, q4, q3, q2, q1], (S' c ↔ (c = p ∨ c = q2)))
    (ivf' : ∀ c ∈ [p, q4, q3, q2, q1], ¬ S' c → Out f [p, q4, q3, q2, q1] S' c)
    (ivg' : ∀ c ∈ [p, q4, q3, q2, q1], ¬ S' c → Out g [p, q4, q3, q2, q1] S' c) : False := by
  simp only [Btw, Extr, Ext, Out, List.mem_cons, List.not_mem_nil, or_false, forall_eq_or_imp, forall_eq,
    List.nodup_cons, not_or, List.nodup_nil, and_true, not_false_eq_true] at *
  rcases hh with rfl | rfl <;> grind
end kernel

theorem corner_of_form {L : List Pt} {S : Pt → Prop} {q : Pt} (hS : ∀ c ∈ L, (S c ↔ c ≠ q)) (hq : q ∈ L)
    (hI : Iv L S) : Corner L q := by
  have hnq : ¬ S q := fun h => (hS q hq).mp h rfl
  obtain ⟨h1, h2⟩ := hI q hq hnq
  constructor
  · rcases h1 with h | h
    · exact Or.inl fun s hs hsq => h s hs ((hS s hs).mpr hsq)
    · exact Or.inr fun s hs hsq => h s hs ((hS s hs).mpr hsq)
  · rcases h2 with h | h
    · exact Or.inl fun s hs hsq => h s hs ((hS s hs).mpr hsq)
    · exact Or.inr fun s hs hsq => h s hs ((hS s hs).mpr hsq)

theorem co_cases (v w : Bool) : co (!v) = co w ∨ co (!v) = co (!w) := by
  cases v <;> cases w <;> simp

/-- **removing a bad oldest point**: if `q0` is a corner of the pin sequence, or forms an interval with
    the newest pin, then the configuration without `q0` has no proper interval (seven points or more) -/
theorem simple_dropLast (mid : List Pt) (v : Bool) (p p' q4 q3 q2 q1 q0 : Pt)
    (hP : PinSeqA v (p :: p' :: mid ++ [q4, q3, q2, q1, q0]))
    (hN : (p :: p' :: mid ++ [q4, q3, q2, q1, q0]).Nodup) (S : Pt → Prop)
    (hI : Iv (p :: p' :: mid ++ [q4, q3, q2, q1, q0]) S)
    (hF : (∀ c ∈ p :: p' :: mid ++ [q4, q3, q2, q1, q0], (S c ↔ c ≠ q0)) ∨
          (∀ c ∈ p :: p' :: mid ++ [q4, q3, q2, q1, q0], (S c ↔ (c = p ∨ c = q0)))) :
    Simple (p :: p' :: mid ++ [q4, q3, q2, q1]) := by
  intro S' hI' hPr'
  have hLM : p :: p' :: mid ++ [q4, q3, q2, q1, q0] = (p :: p' :: mid ++ [q4, q3, q2, q1]) ++ [q0] := by simp
  have hM : p :: p' :: mid ++ [q4, q3, q2, q1] = p :: (p' :: mid ++ [q4, q3]) ++ [q2, q1] := by simp
  have hPM : PinSeqA v (p :: p' :: mid ++ [q4, q3, q2, q1]) := pinSeqA_dropLast _ q0 v (hLM ▸ hP)
  have hNM : (p :: p' :: mid ++ [q4, q3, q2, q1]).Nodup := by
    have := hN; rw [hLM] at this; exact (List.nodup_append.mp this).1
  have F' : Form (p :: p' :: mid ++ [q4, q3, q2, q1]) S' p q2 q1 := by
    rw [hM] at hPM hNM hI' hPr' ⊢
    exact classify _ v p q2 q1 S' hPM hNM hI' hPr'
  -- the six-point kernel
  have hsubK : ∀ s ∈ [p, q4, q3, q2, q1, q0], s ∈ p :: p' :: mid ++ [q4, q3, q2, q1, q0] := by
    intro s hs; simp only [List.mem_cons, List.not_mem_nil, or_false] at hs; simp; grind
  have hsubK' : ∀ s ∈ [p, q4, q3, q2, q1], s ∈ p :: p' :: mid ++ [q4, q3, q2, q1] := by
    intro s hs; simp only [List.mem_cons, List.not_mem_nil, or_false] at hs; simp; grind
  have hNK : [p, q4, q3, q2, q1, q0].Nodup := by
    have hsl : List.Sublist [p, q4, q3, q2, q1, q0] (p :: p' :: mid ++ [q4, q3, q2, q1, q0]) :=
      List.Sublist.cons_cons _ (List.Sublist.cons _ (List.sublist_append_right _ _))
    exact hsl.nodup hN
  obtain ⟨v5, h5⟩ := pinSeqA_suffix (p :: p' :: mid) (l := [q4, q3, q2, q1, q0]) (v := v) (by simpa using hP)
  simp only [PinSeqA, and_true, SepA, Bool.not_not] at h5
  obtain ⟨⟨t4, e4⟩, ⟨t3, e3⟩, t2, e2⟩ := h5
  have hP' := hP
  have hne : mid ++ [q4, q3, q2, q1, q0] ≠ [] := by simp
  have e0 : p :: p' :: mid ++ [q4, q3, q2, q1, q0] = p :: p' :: (mid ++ [q4, q3, q2, q1, q0]) := rfl
  rw [e0, pinSeqA_cons hne] at hP'
  have hsep := hP'.1
  have ep : Extr (co (!v)) p [q4, q3, q2, q1, q0] :=
    extr_mono (by intro r hr; simp only [List.mem_cons, List.not_mem_nil, or_false] at hr; simp; grind) hsep.2
  have hh := co_cases v v5
  -- what the interval of the shorter sequence says on the kernel
  have hIK' : Iv [p, q4, q3, q2, q1] S' := iv_mono hsubK' hI'
  have hpM : p ∈ p :: p' :: mid ++ [q4, q3, q2, q1] := by simp
  have hq1M : q1 ∈ p :: p' :: mid ++ [q4, q3, q2, q1] := by simp
  have hq2M : q2 ∈ p :: p' :: mid ++ [q4, q3, q2, q1] := by simp
  rcases hF with hF | hF
  · have hC := corner_of_form hF (by simp) hI
    have c0 := corner_co v5 hC
    have c0f := ext_mono hsubK c0.1
    have c0g := ext_mono hsubK c0.2
    rcases F' with F | F | F | F
    · have c1 := corner_co v5 (corner_of_form F hq1M hI')
      exact kernelA1 _ _ _ p q4 q3 q2 q1 q0 hh hNK t2 e2 t3 e3 t4 e4 ep c0f c0g
        (ext_mono hsubK' c1.1) (ext_mono hsubK' c1.2)
    · have c1 := corner_co v5 (corner_of_form F hq2M hI')
      exact kernelA2 _ _ _ p q4 q3 q2 q1 q0 hh hNK t2 e2 t3 e3 t4 e4 ep c0f c0g
        (ext_mono hsubK' c1.1) (ext_mono hsubK' c1.2)
    · exact kernelA3 _ _ _ p q4 q3 q2 q1 q0 hh hNK t2 e2 t3 e3 t4 e4 ep c0f c0g S'
        (fun c hc => F c (hsubK' c hc)) (fun c hc hn => out_co v5 (hIK' c hc hn))
        (fun c hc hn => out_co (!v5) (hIK' c hc hn))
    · exact kernelA4 _ _ _ p q4 q3 q2 q1 q0 hh hNK t2 e2 t3 e3 t4 e4 ep c0f c0g S'
        (fun c hc => F c (hsubK' c hc)) (fun c hc hn => out_co v5 (hIK' c hc hn))
        (fun c hc hn => out_co (!v5) (hIK' c hc hn))
  · have hIK : Iv [p, q4, q3, q2, q1, q0] S := iv_mono hsubK hI
    have hSp : S p := (hF p (by simp)).mpr (Or.inl rfl)
    have hpn : p ∉ p' :: (mid ++ [q4, q3, q2, q1, q0]) := (List.nodup_cons.mp (e0 ▸ hN)).1
    have hC : Corner (mid ++ [q4, q3, q2, q1, q0]) q0 := by
      refine two_point_corner hsep (e0 ▸ hI) hSp ?_ (by simp)
      intro c hc
      rw [hF c (by rw [e0]; exact List.mem_cons_of_mem _ hc)]
      constructor
      · rintro (h | h)
        · exact absurd (h ▸ hc) hpn
        · exact h
      · exact Or.inr
    have hsub5 : ∀ s ∈ [q4, q3, q2, q1, q0], s ∈ mid ++ [q4, q3, q2, q1, q0] := by
      intro s hs; simp only [List.mem_cons, List.not_mem_nil, or_false] at hs; simp; grind
    have c0 := corner_co v5 hC
    have c0f := ext_mono hsub5 c0.1
    have c0g := ext_mono hsub5 c0.2
    have hSK : ∀ c ∈ [p, q4, q3, q2, q1, q0], (S c ↔ (c = p ∨ c = q0)) := fun c hc => hF c (hsubK c hc)
    have ivf : ∀ c ∈ [p, q4, q3, q2, q1, q0], ¬ S c → Out (co v5) [p, q4, q3, q2, q1, q0] S c :=
      fun c hc hn => out_co v5 (hIK c hc hn)
    have ivg : ∀ c ∈ [p, q4, q3, q2, q1, q0], ¬ S c → Out (co (!v5)) [p, q4, q3, q2, q1, q0] S c :=
      fun c hc hn => out_co (!v5) (hIK c hc hn)
    rcases F' with F | F | F | F
    · have c1 := corner_co v5 (corner_of_form F hq1M hI')
      exact kernelC1 _ _ _ p q4 q3 q2 q1 q0 hh hNK t2 e2 t3 e3 t4 e4 ep S hSK ivf ivg c0f c0g
        (ext_mono hsubK' c1.1) (ext_mono hsubK' c1.2)
    · have c1 := corner_co v5 (corner_of_form F hq2M hI')
      exact kernelC2 _ _ _ p q4 q3 q2 q1 q0 hh hNK t2 e2 t3 e3 t4 e4 ep S hSK ivf ivg c0f c0g
        (ext_mono hsubK' c1.1) (ext_mono hsubK' c1.2)
    · exact kernelC3 _ _ _ p q4 q3 q2 q1 q0 hh hNK t2 e2 t3 e3 t4 e4 ep S hSK ivf ivg c0f c0g S'
        (fun c hc => F c (hsubK' c hc)) (fun c hc hn => out_co v5 (hIK' c hc hn))
        (fun c hc hn => out_co (!v5) (hIK' c hc hn))
    · exact kernelC4 _ _ _ p q4 q3 q2 q1 q0 hh hNK t2 e2 t3 e3 t4 e4 ep S hSK ivf ivg c0f c0g S'
        (fun c hc => F c (hsubK' c hc)) (fun c hc hn => out_co v5 (hIK' c hc hn))
        (fun c hc hn => out_co (!v5) (hIK' c hc hn))

theorem exists_last5 (l : List Pt) (h : 5 ≤ l.length) : ∃ mid a b c d e, l = mid ++ [a, b, c, d, e] := by
  have hl : l.reverse.length = l.length := List.length_reverse
  match hr : l.reverse, hl with
  | e :: d :: c :: b :: a :: m, _ =>
    refine ⟨m.reverse, a, b, c, d, e, ?_⟩
    have := congrArg List.reverse hr
    rw [List.reverse_reverse] at this
    rw [this]; simp
  | [], hl => simp at hl; omega
  | [_], hl => simp at hl; omega
  | [_, _], hl => simp at hl; omega
  | [_, _, _], hl => simp at hl; omega
  | [_, _, _, _], hl => simp at hl; omega

/-- **Brignall–Huczynska–Vatter**: a proper pin sequence of at least seven points is simple, or becomes
    simple after deleting one of its two oldest points -/
theorem pinSeq_simple_sub (L : List Pt) (v : Bool) (hP : PinSeqA v L) (hN : L.Nodup) (hlen : 7 ≤ L.length) :
    ∃ L', L'.Sublist L ∧ L.length ≤ L'.length + 1 ∧ Simple L' := by
  match L, hlen with
  | p :: p' :: rest, hlen =>
    obtain ⟨mid, q4, q3, q2, q1, q0, rfl⟩ := exists_last5 rest (by simp at hlen; omega)
    by_cases hs : Simple (p :: p' :: (mid ++ [q4, q3, q2, q1, q0]))
    · exact ⟨_, List.Sublist.refl _, by omega, hs⟩
    · have hex : ∃ S, Iv (p :: p' :: (mid ++ [q4, q3, q2, q1, q0])) S ∧
          Proper (p :: p' :: (mid ++ [q4, q3, q2, q1, q0])) S := by
        apply Classical.byContradiction
        intro hno
        apply hs
        intro S hI hPr
        exact hno ⟨S, hI, hPr⟩
      obtain ⟨S, hI, hPr⟩ := hex
      have hL : p :: p' :: (mid ++ [q4, q3, q2, q1, q0]) = p :: (p' :: mid ++ [q4, q3, q2]) ++ [q1, q0] := by simp
      have F : Form (p :: p' :: (mid ++ [q4, q3, q2, q1, q0])) S p q1 q0 := by
        rw [hL] at hP hN hI hPr ⊢
        exact classify _ v p q1 q0 S hP hN hI hPr
      have hdrop : ∀ hF, ∃ L', L'.Sublist (p :: p' :: (mid ++ [q4, q3, q2, q1, q0])) ∧
          (p :: p' :: (mid ++ [q4, q3, q2, q1, q0])).length ≤ L'.length + 1 ∧ Simple L' := fun hF =>
        ⟨p :: p' :: mid ++ [q4, q3, q2, q1],
          List.Sublist.append_left (List.sublist_append_left [q4, q3, q2, q1] [q0]) (p :: p' :: mid),
          by simp, simple_dropLast mid v p p' q4 q3 q2 q1 q0 hP hN S hI hF⟩
      -- the configuration with the two oldest points exchanged
      have hperm : (p :: p' :: (mid ++ [q4, q3, q2, q0, q1])).Perm (p :: p' :: (mid ++ [q4, q3, q2, q1, q0])) :=
        List.Perm.cons _ (List.Perm.cons _ (List.Perm.append_left _
          (List.Perm.cons q4 (List.Perm.cons q3 (List.Perm.cons q2 (List.Perm.swap q1 q0 []))))))
      have hPs : PinSeqA v (p :: p' :: (mid ++ [q4, q3, q2, q0, q1])) := by
        have := pinSeqA_swap (p :: p' :: mid ++ [q4, q3, q2]) q1 q0 v (by simpa using hP)
        simpa using this
      have hNs := hperm.nodup_iff.mpr hN
      have hIs : Iv (p :: p' :: (mid ++ [q4, q3, q2, q0, q1])) S := iv_mono (fun s hs => hperm.mem_iff.mp hs) hI
      have hswap : ∀ hF, ∃ L', L'.Sublist (p :: p' :: (mid ++ [q4, q3, q2, q1, q0])) ∧
          (p :: p' :: (mid ++ [q4, q3, q2, q1, q0])).length ≤ L'.length + 1 ∧ Simple L' := fun hF =>
        ⟨p :: p' :: mid ++ [q4, q3, q2, q0],
          List.Sublist.append_left (List.Sublist.cons_cons _ (List.Sublist.cons_cons _ (List.Sublist.cons_cons _
            (List.Sublist.cons q1 (List.Sublist.refl _))))) (p :: p' :: mid),
          by simp, simple_dropLast mid v p p' q4 q3 q2 q0 q1 hPs hNs S hIs hF⟩
      rcases F with F | F | F | F
      · exact hdrop (Or.inl F)
      · exact hswap (Or.inl fun c hc => F c (hperm.mem_iff.mp hc))
      · exact hdrop (Or.inr F)
      · exact hswap (Or.inr fun c hc => F c (hperm.mem_iff.mp hc))

end C16P
