import PermutaModel.Lemmas.C17CleanUp
import PermutaModel.Lemmas.C17Auto
/-! The mesh patterns of a description returned by `auto_bisc` are learned patterns: every entry of every
    basis of `clean_up` is an entry of `SG`, `to_sg_format` only regroups them, and the classical patterns of
    the output of `forb` are permutations. -/

namespace Model.C17

/-- the entry `x` of a monitor denotes a mesh pattern of `SG` -/
def InSG (SG : PattDict) (x : PId) : Prop := (⟨x.2.1, x.2.2⟩ : Mesh) ∈ meshesOf SG

theorem alGet_mem {β} (l : List (NSeq × β)) (k : NSeq) (v : β) (h : alGet l k = some v) : (k, v) ∈ l := by
  induction l with
  | nil => simp [alGet] at h
  | cons a t ih =>
    obtain ⟨k', v'⟩ := a
    simp only [alGet] at h
    split at h
    · rename_i hk; cases h; subst hk; simp
    · exact List.mem_cons_of_mem _ (ih h)

theorem mem_meshesOf_of (SG : PattDict) (k : Nat) (lv : Level) (p : NSeq) (Rs : List Shading) (R : Shading)
    (h1 : (k, lv) ∈ SG) (h2 : (p, Rs) ∈ lv) (h3 : R ∈ Rs) : (⟨p, R⟩ : Mesh) ∈ meshesOf SG := by
  unfold meshesOf
  rw [List.mem_flatMap]
  refine ⟨(k, lv), h1, ?_⟩
  rw [List.mem_flatMap]
  exact ⟨(p, Rs), h2, List.mem_map.mpr ⟨R, h3, rfl⟩⟩

theorem level_ids_inSG (SG : PattDict) (k : Nat) :
    ∀ v ∈ ((SG.lookup k).getD []).map (fun e => e.2.map fun R => ((k, e.1, R) : PId)), ∀ x ∈ v, InSG SG x := by
  intro v hv x hx
  obtain ⟨e, he, rfl⟩ := List.mem_map.mp hv
  obtain ⟨R, hR, rfl⟩ := List.mem_map.mp hx
  cases hl : SG.lookup k with
  | none => rw [hl] at he; cases he
  | some lv =>
    rw [hl] at he
    exact mem_meshesOf_of SG k lv e.1 e.2 R (lookup_mem SG k lv hl) he hR

theorem allIds_inSG (SG : PattDict) (lvls : List Nat) : ∀ x ∈ allIds SG lvls, InSG SG x := by
  intro x hx
  unfold allIds at hx
  obtain ⟨ell, _, hx⟩ := List.mem_flatMap.mp hx
  obtain ⟨e, he, hx⟩ := List.mem_flatMap.mp hx
  obtain ⟨R, hR, rfl⟩ := List.mem_map.mp hx
  cases hl : SG.lookup ell with
  | none => rw [hl] at he; cases he
  | some lv =>
    rw [hl] at he
    exact mem_meshesOf_of SG ell lv e.1 e.2 R (lookup_mem SG ell lv hl) he hR

theorem largerOf_inSG (SG : PattDict) (L : Nat) (perm : NSeq) : ∀ x ∈ largerOf SG L perm, InSG SG x := by
  intro x hx
  unfold largerOf at hx
  split at hx
  · rename_i lv hl
    split at hx
    · rename_i Rs hg
      obtain ⟨R, hR, rfl⟩ := List.mem_map.mp hx
      exact mem_meshesOf_of SG L lv perm Rs R (lookup_mem SG L lv hl) (alGet_mem lv perm Rs hg) hR
    · cases hx
  · cases hx

theorem oneForEach_mem : ∀ (vs : List (List PId)), ∀ l ∈ oneForEach vs, ∀ x ∈ l, ∃ v ∈ vs, x ∈ v
  | [], l, hl, _, _ => by simp [oneForEach] at hl
  | [v], l, hl, x, hx => by
    simp only [oneForEach, List.mem_map] at hl
    obtain ⟨y, hy, rfl⟩ := hl
    simp only [List.mem_singleton] at hx
    subst hx
    exact ⟨v, by simp, hy⟩
  | v :: w :: rest, l, hl, x, hx => by
    simp only [oneForEach, List.mem_flatMap, List.mem_map] at hl
    obtain ⟨y, hy, l', hl', rfl⟩ := hl
    rcases List.mem_append.mp hx with h | h
    · obtain ⟨v', hv', hxv⟩ := oneForEach_mem (w :: rest) l' hl' x h
      exact ⟨v', List.mem_cons_of_mem _ hv', hxv⟩
    · simp only [List.mem_singleton] at h
      subst h
      exact ⟨v, by simp, hy⟩

theorem monLoop_all (Q : PId → Prop) (perm : NSeq) (L limit : Nat) (saviors larger : List PId)
    (hsav : ∀ x ∈ saviors, Q x) (hlar : ∀ x ∈ larger, Q x) :
    ∀ (todo : List (List PId)) (st : List (List PId) × Bool),
      (∀ m ∈ todo, ∀ x ∈ m, Q x) → (∀ m ∈ st.1, ∀ x ∈ m, Q x) →
      ∀ m ∈ (monLoop perm L limit saviors larger todo st).1, ∀ x ∈ m, Q x := by
  intro todo
  induction todo with
  | nil => intro st _ hst; simpa [monLoop] using hst
  | cons mon rest ih =>
    intro st htodo hst
    obtain ⟨monitor, failed⟩ := st
    simp only [monLoop]
    have hrest : ∀ m ∈ rest, ∀ x ∈ m, Q x := fun m hm => htodo m (List.mem_cons_of_mem _ hm)
    have hmon : ∀ x ∈ mon, Q x := htodo mon (by simp)
    split
    · split
      · apply ih _ hrest
        intro m hm; exact hst m (List.mem_of_mem_erase hm)
      · apply ih _ hrest
        intro m hm x hx
        simp only [List.append_assoc] at hm
        rcases List.mem_append.mp hm with h | h
        · exact hst m (List.mem_of_mem_erase h) x hx
        · rcases List.mem_append.mp h with h | h
          · obtain ⟨y, hy, rfl⟩ := List.mem_map.mp h
            rcases List.mem_append.mp hx with hx | hx
            · exact hmon x hx
            · simp only [List.mem_singleton] at hx; subst hx; exact hsav _ hy
          · obtain ⟨y, hy, rfl⟩ := List.mem_map.mp h
            rcases List.mem_append.mp hx with hx | hx
            · exact hmon x hx
            · simp only [List.mem_singleton] at hx; subst hx; exact hlar _ hy
    · exact ih _ hrest hst

theorem stepPerm_all (SG : PattDict) (lcp : List Nat) (L limit : Nat) (perm : NSeq)
    (mon : Option (List (List PId))) (h : ∀ ms, mon = some ms → ∀ m ∈ ms, ∀ x ∈ m, InSG SG x) :
    ∀ ms, stepPerm SG lcp L limit mon perm = some ms → ∀ m ∈ ms, ∀ x ∈ m, InSG SG x := by
  intro ms hms m hm
  unfold stepPerm at hms
  cases mon with
  | none => simp at hms
  | some ms0 =>
    cases ms0 with
    | nil => simp at hms
    | cons m0 rest =>
      simp only at hms
      have hsav : ∀ x ∈ saviorsOf SG lcp L perm, InSG SG x := fun x hx =>
        allIds_inSG SG _ x (List.mem_filter.mp hx).1
      exact monLoop_all (InSG SG) perm L limit _ _ hsav (largerOf_inSG SG L perm) (m0 :: rest) (m0 :: rest, false)
        (h _ rfl) (h _ rfl) m (afterLoop_subset _ ms hms m hm)

theorem foldPerms_all (SG : PattDict) (lcp : List Nat) (L limit : Nat) (perms : List NSeq) :
    ∀ (mon : Option (List (List PId))), (∀ ms, mon = some ms → ∀ m ∈ ms, ∀ x ∈ m, InSG SG x) →
    ∀ ms, perms.foldl (stepPerm SG lcp L limit) mon = some ms → ∀ m ∈ ms, ∀ x ∈ m, InSG SG x := by
  induction perms with
  | nil => intro mon h ms hms; simp at hms; exact h ms hms
  | cons a t ih =>
    intro mon h ms hms
    simp only [List.foldl_cons] at hms
    exact ih _ (stepPerm_all SG lcp L limit a mon h) ms hms

/-- every entry of every basis returned by `clean_up` denotes a mesh pattern of `SG` -/
theorem cleanUp_inSG (SG : PattDict) (Bk : Nat → List NSeq) (permMin permMax pattMin pattMax limit : Nat) :
    ∀ b ∈ cleanUp SG Bk permMin permMax pattMin pattMax limit, ∀ x ∈ b, InSG SG x := by
  intro b hb
  unfold cleanUp at hb
  simp only at hb
  split at hb
  · cases hb
  · have gen : ∀ (Ls : List Nat) (mon : Option (List (List PId))),
        (∀ ms, mon = some ms → ∀ m ∈ ms, ∀ x ∈ m, InSG SG x) →
        ∀ ms, Ls.foldl (fun mon L => (Bk L).foldl
            (stepPerm SG ((List.range' pattMin (pattMax + 1 - pattMin)).filter
              fun x => (SG.lookup x).isSome) L limit) mon) mon = some ms →
          ∀ m ∈ ms, ∀ x ∈ m, InSG SG x := by
      intro Ls
      induction Ls with
      | nil => intro mon h ms hms; simp at hms; exact h ms hms
      | cons a t ih =>
        intro mon h ms hms
        simp only [List.foldl_cons] at hms
        exact ih _ (foldPerms_all SG _ a limit (Bk a) mon h) ms hms
    cases hr : (List.range' permMin (permMax + 1 - permMin)).foldl (fun mon L => (Bk L).foldl
        (stepPerm SG ((List.range' pattMin (pattMax + 1 - pattMin)).filter
          fun x => (SG.lookup x).isSome) L limit) mon)
        (some (oneForEach (((SG.lookup (((List.range' pattMin (pattMax + 1 - pattMin)).filter
          fun x => (SG.lookup x).isSome).headD 0)).getD []).map fun e => e.2.map fun R =>
            ((((List.range' pattMin (pattMax + 1 - pattMin)).filter
              fun x => (SG.lookup x).isSome).headD 0), e.1, R)))) with
    | none => rw [hr] at hb; simp at hb
    | some ms =>
      rw [hr] at hb; simp only [Option.getD_some] at hb
      refine gen _ _ ?_ ms hr b hb
      intro ms0 hms0 m hm x hx
      simp only [Option.some.injEq] at hms0
      subst hms0
      obtain ⟨v, hv, hxv⟩ := oneForEach_mem _ m hm x hx
      exact level_ids_inSG SG _ v hv x hxv

theorem runCleanUp_inSG (SG : PattDict) (Bk : Nat → List NSeq) (bm limit : Nat) (bases : List (List PId))
    (h : runCleanUp SG Bk bm limit = .ok bases) : ∀ b ∈ bases, ∀ x ∈ b, InSG SG x := by
  unfold runCleanUp at h
  split at h
  · cases h
  · split at h
    · cases h
    · simp only [Except.ok.injEq] at h
      subst h
      exact cleanUp_inSG SG Bk _ _ _ _ _

/-! ### `to_sg_format` only regroups the entries of the basis -/

theorem meshes_alSet (lv : Level) (k : NSeq) (v : List Shading) :
    ∀ e ∈ alSet lv k v, e ∈ lv ∨ e = (k, v) := by
  induction lv with
  | nil => intro e he; simp [alSet] at he; exact Or.inr he
  | cons a t ih =>
    obtain ⟨k', v'⟩ := a
    intro e he
    simp only [alSet] at he
    split at he
    · rcases List.mem_cons.mp he with h | h
      · exact Or.inr h
      · exact Or.inl (List.mem_cons_of_mem _ h)
    · rcases List.mem_cons.mp he with h | h
      · exact Or.inl (by rw [h]; simp)
      · rcases ih e h with h | h
        · exact Or.inl (List.mem_cons_of_mem _ h)
        · exact Or.inr h

theorem toSg_meshes (basis : List PId) :
    ∀ p ∈ meshesOf (toSg basis), ∃ x ∈ basis, p = ⟨x.2.1, x.2.2⟩ := by
  unfold toSg
  refine foldl_preserves (fun sg : PattDict => ∀ p ∈ meshesOf sg, ∃ x ∈ basis, p = ⟨x.2.1, x.2.2⟩) _ basis ?_ [] ?_
  · intro sg x hx hsg p hp
    cases hl : sg.lookup x.1 with
    | none =>
      rw [hl] at hp
      simp only [meshesOf, List.flatMap_append, List.mem_append] at hp
      rcases hp with hp | hp
      · exact hsg p hp
      · simp at hp
        exact ⟨x, hx, hp⟩
    | some lv =>
      rw [hl] at hp
      simp only [meshesOf, List.mem_flatMap, List.mem_map] at hp
      obtain ⟨lv', ⟨e0, he0, rfl⟩, e, he, R, hR, rfl⟩ := hp
      have hlvmem := lookup_mem sg x.1 lv hl
      split at he
      · simp only at he
        have key : ∀ (v : List Shading), (∀ R ∈ v, R = x.2.2 ∨ ∃ Rs, (x.2.1, Rs) ∈ lv ∧ R ∈ Rs) →
            e ∈ alSet lv x.2.1 v → ∃ y ∈ basis, (⟨e.1, R⟩ : Mesh) = ⟨y.2.1, y.2.2⟩ := by
          intro v hv hev
          rcases meshes_alSet lv x.2.1 v e hev with h | h
          · exact hsg _ (mem_meshesOf_of sg x.1 lv e.1 e.2 R hlvmem h hR)
          · subst h
            rcases hv R hR with h | ⟨Rs, hRs, hRR⟩
            · subst h; exact ⟨x, hx, rfl⟩
            · exact hsg _ (mem_meshesOf_of sg x.1 lv x.2.1 Rs R hlvmem hRs hRR)
        split at he
        · apply key _ _ he
          intro R' hR'; simp only [List.mem_singleton] at hR'; exact Or.inl hR'
        · rename_i Rs hg
          apply key _ _ he
          intro R' hR'
          rcases List.mem_append.mp hR' with h | h
          · exact Or.inr ⟨Rs, alGet_mem lv x.2.1 Rs hg, h⟩
          · simp only [List.mem_singleton] at h; exact Or.inl h
      · exact hsg _ (mem_meshesOf_of sg e0.1 e0.2 e.1 e.2 R he0 he hR)
  · intro p hp; simp [meshesOf] at hp

/-! ### the classical patterns of the output of `forb` are permutations -/

theorem forb_patterns_perm (gp : List Level) (ci : List Nat) (M : Nat) :
    ∀ p ∈ meshesOf (forb gp ci M), IsPerm p.pattern := by
  intro p hp
  unfold meshesOf forb at hp
  simp only [List.mem_flatMap, List.mem_map] at hp
  obtain ⟨lv', ⟨lv, hlv, rfl⟩, e, he, R, _, rfl⟩ := hp
  obtain ⟨_, bad', hshape⟩ := forbBad_mem gp ci M lv hlv
  simp only at he
  have he' := (List.mem_filter.mp he).1
  rw [hshape] at he'
  obtain ⟨q, hq, rfl⟩ := List.mem_map.mp he'
  exact ((mem_permsLex_iff _ q).mp hq).1

/-! ### the description returned by `auto_bisc` consists of learned patterns -/

theorem autoInner_found_src (A B : Nat → List NSeq) (ch : Choice) (SG : PattDict) (L : Nat) (sg : PattDict) :
    ∀ (f n ib : Nat), autoInner A B ch SG L f n ib = .found sg → ∀ p ∈ meshesOf sg, p ∈ meshesOf SG := by
  intro f
  induction f with
  | zero => intro n ib h; simp [autoInner] at h
  | succ f ih =>
    intro n ib h
    unfold autoInner at h
    split at h
    · cases h
    · exact ih _ _ h
    · rename_i b0 bs heq
      split at h
      · exact ih _ _ h
      · cases h
      · cases h
        intro p hp
        obtain ⟨x, hx, rfl⟩ := toSg_meshes _ p hp
        exact runCleanUp_inSG SG _ _ _ _ heq _ (chosen_mem ch n ib b0 bs) x hx

theorem autoOuter_found_perm (A B : Nat → List NSeq) (ch : Choice) (sg : PattDict) :
    ∀ (f L n m : Nat), autoOuter A B ch f L n m = .found sg → ∀ p ∈ meshesOf sg, IsPerm p.pattern := by
  intro f
  induction f with
  | zero => intro L n m h; simp [autoOuter] at h
  | succ f ih =>
    intro L n m h
    unfold autoOuter at h
    split at h
    · split at h
      · rename_i hin
        cases h
        intro p hp
        exact forb_patterns_perm _ _ _ p (autoInner_found_src A B ch _ L _ _ _ _ hin p hp)
      · exact ih _ _ _ h
      · cases h
      · cases h
    · exact ih _ _ _ h

end Model.C17
