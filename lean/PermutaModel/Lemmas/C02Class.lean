import PermutaModel.Lemmas.C02Ins
import PermutaModel.Spec.C02

/-! C02 helpers, part 4: the class `Av(b)`: spec levels, closure under one-point deletion,
    unique decomposition of a member as an end-insertion, the insertion criterion for members. -/
open List Model Model.C02

namespace C02L
open C10L

theorem mem_level {b : List NSeq} {n : Nat} {σ : NSeq} :
    σ ∈ Spec.C02.level b n ↔ InAv b σ ∧ σ.length = n := by
  unfold Spec.C02.level InAv
  rw [List.mem_filter, (C09.permsLex_spec n).1 σ]
  tauto

theorem level_nodup (b : List NSeq) (n : Nat) : (Spec.C02.level b n).Nodup :=
  (C09.permsLex_spec n).2.2.1.filter _

theorem le_maxSize (b : List NSeq) : ∀ p ∈ b, p.length ≤ maxSize b := by
  unfold maxSize
  suffices h : ∀ (l : List NSeq) (m : Nat), m ≤ l.foldl (fun m p => max m p.length) m ∧
      ∀ p ∈ l, p.length ≤ l.foldl (fun m p => max m p.length) m from (h b 0).2
  intro l
  induction l with
  | nil => intro m; simp
  | cons x xs ih =>
    intro m
    simp only [List.foldl_cons, List.mem_cons]
    have := ih (max m x.length)
    refine ⟨by omega, ?_⟩
    rintro p (rfl | hp)
    · omega
    · exact this.2 p hp

/-- the class is closed under one-point deletion -/
theorem InAv_removeAt {b : List NSeq} (hb : ValidBasis b) {π : NSeq} (h : InAv b π) {i : Nat}
    (hi : i < π.length) : InAv b (removeAt π i) := by
  have hp := (removeAt_isPerm h.1 hi).1
  rw [InAv_iff hb hp, Avoids_removeAt_iff b h.1.1 hi]
  exact ((InAv_iff hb h.1).mp h).of_sublist (List.eraseIdx_sublist _ _)

/-- the class is closed under deleting the last entry of an end-insertion -/
theorem InAv_of_appendValue {b : List NSeq} (hb : ValidBasis b) {π : NSeq} (hπ : IsPerm π) {v : Nat}
    (hv : v ≤ π.length) (h : InAv b (appendValue π v)) : InAv b π := by
  rw [InAv_iff hb hπ]
  have h' := (InAv_iff hb (appendValue_isPerm hπ hv)).mp h
  rw [appendValue_eq] at h'
  have := h'.of_sublist (List.sublist_append_left _ _)
  exact (Avoids_map_iff b π (bump v) (fun x _ y _ => bump_lt_iff v x y)).mp this

/-- **insertion criterion for class members** (this is what `valid_insertions` + the
    `new_perm not in smaller_elems` test decide) -/
theorem InAv_appendValue_iff {b : List NSeq} (hb : ValidBasis b) {π : NSeq} (h : InAv b π) {v : Nat}
    (hv : v ≤ π.length) :
    InAv b (appendValue π v) ↔
      appendValue π v ∉ b ∧
      (∀ i, π.length - maxSize b ≤ i → i < π.length →
        InAv b (appendValue (removeAt π i) (shiftVal v (π.getD i 0)))) := by
  have hp := appendValue_isPerm h.1 hv
  rw [InAv_iff hb hp, Avoids_appendValue_iff b (maxSize b) h.1.1 v (le_maxSize b) ((InAv_iff hb h.1).mp h)]
  refine and_congr ?_ ?_
  · constructor
    · intro h1 hmem
      exact h1 _ hmem (OIso_refl _)
    · intro h1 p hp' hiso
      have := OIso_eq_of_isPerm hiso (hb.perm p hp') hp
      exact h1 (this ▸ hp')
  · refine forall_congr' fun i => forall_congr' fun _ => forall_congr' fun hi => ?_
    rw [InAv_iff hb (appendValue_isPerm (removeAt_isPerm h.1 hi).1 (shiftVal_le h.1 hi hv))]

/-- a valid end-insertion: value in range and the result stays in the class -/
def ValidIns (b : List NSeq) (ρ : NSeq) (v : Nat) : Prop := v ≤ ρ.length ∧ InAv b (appendValue ρ v)

/-- members of level `n+1` are exactly the valid end-insertions into members of level `n` -/
theorem mem_level_succ {b : List NSeq} (hb : ValidBasis b) {n : Nat} {σ : NSeq} :
    σ ∈ Spec.C02.level b (n + 1) ↔
      ∃ π ∈ Spec.C02.level b n, ∃ v, ValidIns b π v ∧ σ = appendValue π v := by
  constructor
  · intro h
    obtain ⟨hin, hlen⟩ := mem_level.mp h
    have hdec := appendValue_removeAt_last hin.1 hlen
    have hrp := removeAt_isPerm hin.1 (i := n) (by omega)
    have hvl : σ.getD n 0 ≤ (removeAt σ n).length := by
      have := hin.1.getD_lt (a := n) (by omega); rw [hrp.2]; omega
    refine ⟨removeAt σ n, mem_level.mpr ⟨InAv_removeAt hb hin (by omega), by rw [hrp.2]; omega⟩,
      σ.getD n 0, ⟨hvl, by rw [hdec]; exact hin⟩, hdec.symm⟩
  · rintro ⟨π, hπ, v, ⟨hv, hin⟩, rfl⟩
    obtain ⟨_, hlen⟩ := mem_level.mp hπ
    exact mem_level.mpr ⟨hin, by simp [hlen]⟩

theorem level_zero {b : List NSeq} (hb : ValidBasis b) : Spec.C02.level b 0 = [[]] := by
  have h : ([] : NSeq) ∈ Spec.C02.level b 0 := by
    refine mem_level.mpr ⟨⟨by decide, ?_⟩, rfl⟩
    rw [avoidsAll_iff_Avoids [] b (by decide) hb.perm]
    rintro p hp ⟨s, hs, hi⟩
    have := hb.pos p hp
    have hs' : s = [] := by simpa using hs
    subst hs'
    have h1 := hi.1
    simp only [List.length_nil] at h1; omega
  have hsub : ∀ σ ∈ Spec.C02.level b 0, σ = [] := fun σ hσ =>
    List.eq_nil_of_length_eq_zero (mem_level.mp hσ).2
  have hnd := level_nodup b 0
  cases hl : Spec.C02.level b 0 with
  | nil => rw [hl] at h; simp at h
  | cons x xs =>
    rw [hl] at hsub hnd
    have hx := hsub x (by simp)
    subst hx
    cases xs with
    | nil => rfl
    | cons y ys =>
      have hy := hsub y (by simp)
      subst hy
      simp at hnd

end C02L
