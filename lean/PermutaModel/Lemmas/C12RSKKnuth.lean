import PermutaModel.Lemmas.C12RSKGreeneDefs
/-! C12 / RSK, Greene's theorem, part A: the insertion respects Knuth's relations.

One step of the first row: `R ++ [x] ~ bumped ++ R'` (`rIns_knuth`); hence a word is Knuth-equivalent to
its bumped word followed by its first row (`machine_knuth`) and to the reading word of its tableau
(`tab_knuth`). -/
open Model Spec List

namespace C12

theorem Knuth.append_left (p : List Nat) {a b : List Nat} (h : Knuth a b) : Knuth (p ++ a) (p ++ b) := by
  induction h with
  | refl w => exact Knuth.refl _
  | k1 u v x y z h1 h2 =>
    rw [← List.append_assoc, ← List.append_assoc]; exact Knuth.k1 _ _ _ _ _ h1 h2
  | k2 u v x y z h1 h2 =>
    rw [← List.append_assoc, ← List.append_assoc]; exact Knuth.k2 _ _ _ _ _ h1 h2
  | symm _ ih => exact Knuth.symm ih
  | trans _ _ ih1 ih2 => exact Knuth.trans ih1 ih2

theorem Knuth.append_right (s : List Nat) {a b : List Nat} (h : Knuth a b) : Knuth (a ++ s) (b ++ s) := by
  induction h with
  | refl w => exact Knuth.refl _
  | k1 u v x y z h1 h2 =>
    have := Knuth.k1 u (v ++ s) x y z h1 h2
    simpa using this
  | k2 u v x y z h1 h2 =>
    have := Knuth.k2 u (v ++ s) x y z h1 h2
    simpa using this
  | symm _ ih => exact Knuth.symm ih
  | trans _ _ ih1 ih2 => exact Knuth.trans ih1 ih2

theorem Knuth.cons (p : Nat) {a b : List Nat} (h : Knuth a b) : Knuth (p :: a) (p :: b) :=
  Knuth.append_left [p] h

/-- a small letter at the end of an increasing run moves to the second place -/
theorem knuth_move_small (x : Nat) : ∀ (t : List Nat) (y : Nat), x < y → (y :: t).Pairwise (· < ·) →
    Knuth (y :: (t ++ [x])) (y :: x :: t)
  | [], _, _, _ => Knuth.refl _
  | z :: t', y, hxy, hs => by
    rw [List.pairwise_cons] at hs
    have hyz : y < z := hs.1 z (by simp)
    have ih := knuth_move_small x t' z (Nat.lt_trans hxy hyz) hs.2
    have h1 : Knuth (y :: z :: (t' ++ [x])) (y :: z :: x :: t') := Knuth.cons y ih
    have h2 : Knuth (y :: x :: z :: t') (y :: z :: x :: t') := Knuth.k2 [] t' x y z hxy hyz
    exact Knuth.trans h1 (Knuth.symm h2)

/-- a large letter `b` moves to the front of an increasing run `l` that is followed by a letter `y`
    between the run and `b` -/
theorem knuth_move_big (b : Nat) : ∀ (l : List Nat) (y : Nat) (rest : List Nat), y < b →
    (l ++ [y]).Pairwise (· < ·) → Knuth (l ++ b :: y :: rest) (b :: (l ++ y :: rest)) := by
  intro l
  induction l using List.reverseRecOn with
  | nil => intro y rest _ _; exact Knuth.refl _
  | append_singleton l' p ih =>
    intro y rest hyb hs
    have hpy : p < y := by
      rw [List.pairwise_append] at hs
      exact hs.2.2 p (by simp) y (by simp)
    have hs' : (l' ++ [p]).Pairwise (· < ·) := by
      rw [List.pairwise_append] at hs; exact hs.1
    -- l' ++ p :: b :: y :: rest  ~  l' ++ b :: p :: y :: rest  (K1 with x := p, y := y, z := b)
    have h1 : Knuth (l' ++ p :: b :: y :: rest) (l' ++ b :: p :: y :: rest) := Knuth.k1 l' rest p y b hpy hyb
    have h2 := ih p (y :: rest) (Nat.lt_trans hpy hyb) hs'
    have e1 : l' ++ [p] ++ b :: y :: rest = l' ++ p :: b :: y :: rest := by simp
    have e2 : l' ++ [p] ++ y :: rest = l' ++ p :: y :: rest := by simp
    rw [e1, e2]
    exact Knuth.trans h1 h2

/-- the shape of one step of the row -/
theorem rIns_decomp : ∀ (R : List Nat) (x : Nat),
    ((rIns R x).2 = none ∧ (rIns R x).1 = R ++ [x]) ∨
    ∃ b l r, (rIns R x).2 = some b ∧ R = l ++ b :: r ∧ (rIns R x).1 = l ++ x :: r ∧ x < b ∧ ∀ a ∈ l, a ≤ x
  | [], x => Or.inl ⟨rfl, rfl⟩
  | c :: t, x => by
    by_cases hxc : x < c
    · rw [rIns_cons_lt _ _ _ hxc]
      exact Or.inr ⟨c, [], t, rfl, rfl, rfl, hxc, by simp⟩
    · rw [rIns_cons_ge _ _ _ hxc]
      rcases rIns_decomp t x with ⟨h1, h2⟩ | ⟨b, l, r, h1, h2, h3, h4, h5⟩
      · exact Or.inl ⟨h1, by simp [h2]⟩
      · refine Or.inr ⟨b, c :: l, r, h1, by simp [h2], by simp [h3], h4, ?_⟩
        intro a ha
        rcases List.mem_cons.mp ha with e | e
        · subst e; omega
        · exact h5 a e

/-- **one step of the first row is a Knuth equivalence** -/
theorem rIns_knuth (R : List Nat) (x : Nat) (hs : R.Pairwise (· < ·)) (hx : x ∉ R) :
    Knuth (R ++ [x]) (((rIns R x).2).toList ++ (rIns R x).1) := by
  rcases rIns_decomp R x with ⟨h1, h2⟩ | ⟨b, l, r, h1, h2, h3, h4, h5⟩
  · rw [h1, h2]; exact Knuth.refl _
  · rw [h1, h3]
    simp only [Option.toList, List.singleton_append]
    subst h2
    rw [List.pairwise_append] at hs
    obtain ⟨hl, hbr, hlbr⟩ := hs
    -- l ++ b :: r ++ [x] ~ l ++ b :: x :: r
    have s1 : Knuth (l ++ b :: r ++ [x]) (l ++ b :: x :: r) := by
      have := Knuth.append_left l (knuth_move_small x r b h4 hbr)
      simpa using this
    -- l ++ b :: x :: r ~ b :: l ++ x :: r
    have hlx : (l ++ [x]).Pairwise (· < ·) := by
      rw [List.pairwise_append]
      refine ⟨hl, by simp, ?_⟩
      intro a ha c hc
      simp at hc; subst hc
      have h1 := h5 a ha
      have : a ≠ c := fun e => hx (by simp [← e, ha])
      omega
    have s2 := knuth_move_big b l x r h4 hlx
    exact Knuth.trans s1 s2

/-- a duplicate-free word is Knuth-equivalent to its bumped word followed by its first row -/
theorem machine_knuth (w : List Nat) (h : w.Nodup) : Knuth w (bumpsOf w ++ rowOf w) := by
  induction w using List.reverseRecOn with
  | nil => exact Knuth.refl _
  | append_singleton v x ih =>
    have hv : v.Nodup := (List.nodup_append.mp h).1
    have hx : x ∉ v := fun hm => (List.nodup_append.mp h).2.2 x hm x (by simp) rfl
    rw [rowOf_snoc, bumpsOf_snoc]
    have s1 : Knuth (v ++ [x]) (bumpsOf v ++ rowOf v ++ [x]) := Knuth.append_right [x] (ih hv)
    have s2 := Knuth.append_left (bumpsOf v)
      (rIns_knuth (rowOf v) x (rowOf_sorted v hv) (fun hm => hx (rowOf_subset v x hm)))
    rw [List.append_assoc] at s1
    rw [List.append_assoc]
    exact Knuth.trans s1 s2

/-- **a duplicate-free word is Knuth-equivalent to the reading word of its tableau** -/
theorem tab_knuth : ∀ (n : Nat) (w : List Nat), w.length ≤ n → w.Nodup → Knuth w (rw (tabIns [] w))
  | 0, w, hl, _ => by
    have : w = [] := List.eq_nil_of_length_eq_zero (by omega)
    subst this; exact Knuth.refl _
  | n + 1, w, hl, hnd => by
    by_cases hw : w = []
    · subst hw; exact Knuth.refl _
    · rw [tabIns_rec w hw, rw]
      have ih := tab_knuth n (bumpsOf w) (by have := bumpsOf_length_lt w hw; omega) (bumpsOf_nodup w hnd)
      exact Knuth.trans (machine_knuth w hnd) (Knuth.append_right _ ih)

/-! ### the rows of the tableau are `k` increasing subsequences of `bumped ++ row` -/

/-- a colouring of the bumped word with `k` colours extends by the first row as a new colour -/
theorem hasCol_machine (B R : List Nat) (hR : R.Pairwise (· < ·)) (hdis : ∀ a ∈ B, a ∉ R) (k m : Nat)
    (h : HasCol k B m) : HasCol (k + 1) (B ++ R) (R.length + m) := by
  obtain ⟨c', hv, hm⟩ := h
  refine ⟨fun a => if a ∈ R then 0 else c' a + 1, ?_, ?_⟩
  · intro i hi
    unfold colourClass
    rw [List.filter_append]
    cases i with
    | zero =>
      have e1 : B.filter (fun a => (if a ∈ R then 0 else c' a + 1) == 0) = [] := by
        rw [List.filter_eq_nil_iff]
        intro a ha
        simp [hdis a ha]
      have e2 : R.filter (fun a => (if a ∈ R then 0 else c' a + 1) == 0) = R := by
        rw [List.filter_eq_self]
        intro a ha
        simp [ha]
      rw [e1, e2]; simpa using hR
    | succ j =>
      have e1 : B.filter (fun a => (if a ∈ R then 0 else c' a + 1) == j + 1) = B.filter (fun a => c' a == j) := by
        apply List.filter_congr
        intro a ha
        simp [hdis a ha]
      have e2 : R.filter (fun a => (if a ∈ R then 0 else c' a + 1) == j + 1) = [] := by
        rw [List.filter_eq_nil_iff]
        intro a ha
        simp [ha]
      rw [e1, e2, List.append_nil]
      exact hv j (by omega)
  · unfold colouredCount at hm ⊢
    rw [List.filter_append, List.length_append]
    have e1 : B.filter (fun a => decide ((if a ∈ R then 0 else c' a + 1) < k + 1)) =
        B.filter (fun a => decide (c' a < k)) := by
      apply List.filter_congr
      intro a ha
      simp [hdis a ha]
    have e2 : R.filter (fun a => decide ((if a ∈ R then 0 else c' a + 1) < k + 1)) = R := by
      rw [List.filter_eq_self]
      intro a ha
      simp [ha]
    rw [e1, e2, hm]; omega

end C12
