import PermutaModel.Lemmas.C02Mesh

/-! C02 helpers, part 10: object-level invariant (classical or mesh basis), `getLevel`, histories. -/
open List Model Model.C02 Model.C07

namespace C02L

/-- the level the property demands, for either kind of basis -/
def specLevel : BasisV → Nat → List NSeq
  | .classical b, n => Spec.C02.level b n
  | .mesh b, n => Spec.C02.meshLevel b n

/-- the basis is one that `Av(...)` accepts and for which `[{(): [0]}]` is a correct start -/
def ValidBasisV : BasisV → Prop
  | .classical b => ValidBasis b
  | .mesh _ => True

/-- invariant of an `Av` object -/
def ObjInv (o : AvObj) : Prop :=
  match o.basis with
  | .classical b => ValidBasis b ∧ CacheInv b o.cache
  | .mesh b => MeshInv b o.cache

/-- `w` is a later state of the object `o` -/
structure ObjExt (o w : AvObj) : Prop where
  basis : w.basis = o.basis
  inv : ObjInv w
  len : o.cache.length ≤ w.cache.length
  keys : ∀ i, i < o.cache.length → (w.cache.getD i []).keys = (o.cache.getD i []).keys

theorem ObjExt.refl {o : AvObj} (h : ObjInv o) : ObjExt o o := ⟨rfl, h, Nat.le_refl _, fun _ _ => rfl⟩

theorem ObjExt.trans {o w u : AvObj} (h1 : ObjExt o w) (h2 : ObjExt w u) : ObjExt o u :=
  ⟨h2.basis.trans h1.basis, h2.inv, Nat.le_trans h1.len h2.len, fun i hi => by
    rw [h2.keys i (Nat.lt_of_lt_of_le hi h1.len), h1.keys i hi]⟩

@[simp] theorem freshObj_basis (b : BasisV) : (freshObj b).basis = b := by
  cases b with
  | classical b => rfl
  | mesh l => simp only [freshObj]; split <;> rfl

theorem ObjInv.fresh {b : BasisV} (hb : ValidBasisV b) : ObjInv (freshObj b) := by
  cases b with
  | classical b => exact ⟨hb, CacheInv.fresh hb⟩
  | mesh b =>
    have := MeshInv.fresh b
    unfold ObjInv
    rw [freshObj_basis]
    exact this

theorem ObjInv.pos {o : AvObj} (h : ObjInv o) : 0 < o.cache.length := by
  unfold ObjInv at h
  split at h
  · exact h.2.pos
  · exact h.pos

/-- every cached level has the spec keys (as a permutation of the spec list) -/
theorem ObjInv.keys {o : AvObj} (h : ObjInv o) {i : Nat} (hi : i < o.cache.length) :
    ((o.cache.getD i []).keys).Perm (specLevel o.basis i) := by
  unfold ObjInv at h
  split at h
  · rename_i b hb; rw [hb]; exact h.2.keys i hi
  · rename_i b hb; rw [hb]; exact List.Perm.of_eq (h.keys i hi)

/-- **T2 + T3 + T4**: `_ensure_level(n)` on an object satisfying the invariant, for every `n` -/
theorem ensureLevel_correct (o : AvObj) (h : ObjInv o) (n : Nat) :
    ∃ o' tr, ensureLevel o n = .ok o' ∧ ensureTrace o n = .ok tr ∧ ObjExt o o' ∧
      n < o'.cache.length ∧ tr.getLastD o = o' ∧ ∀ w ∈ tr, ObjExt o w := by
  have h' := h
  unfold ObjInv at h'
  split at h'
  · rename_i b hb
    obtain ⟨o', tr, h1, h2, h3, h4, h5, h6, h7⟩ := ensureLevel_classical h'.1 o hb h'.2 n
    have mk : ∀ w : AvObj, w.basis = o.basis → Extends b o.cache w.cache → ObjExt o w := by
      intro w hwb hw
      refine ⟨hwb, ?_, hw.len, hw.keys⟩
      unfold ObjInv; rw [hwb, hb]; exact ⟨h'.1, hw.inv⟩
    exact ⟨o', tr, h1, h2, mk o' h3 h4, h5, h6, fun w hw => mk w (h7 w hw).1 (h7 w hw).2⟩
  · rename_i b hb
    obtain ⟨o', tr, h1, h2, h3, h4, h5, h6, h7⟩ := ensureLevel_mesh o hb h' n
    have mk : ∀ w : AvObj, w.basis = o.basis → MeshExt b o.cache w.cache → ObjExt o w := by
      intro w hwb hw
      refine ⟨hwb, ?_, hw.len, hw.keys⟩
      unfold ObjInv; rw [hwb, hb]; exact hw.inv
    exact ⟨o', tr, h1, h2, mk o' h3 h4, h5, h6, fun w hw => mk w (h7 w hw).1 (h7 w hw).2⟩

/-- `_get_level(n)`: succeeds and returns the spec level (up to order) -/
theorem getLevel_spec (o : AvObj) (h : ObjInv o) (n : Nat) :
    ∃ o' ks, getLevel o n = .ok (o', ks) ∧ ObjExt o o' ∧ ks.Perm (specLevel o.basis n) := by
  obtain ⟨o', _, h1, _, hext, hn, _, _⟩ := ensureLevel_correct o h n
  refine ⟨o', (o'.cache.getD n []).keys, by simp only [getLevel, h1], hext, ?_⟩
  have := hext.inv.keys hn
  rwa [hext.basis] at this

/-- `_get_level(n)` returns the keys of level `n` of the updated cache, which then exists -/
theorem getLevel_eq (o : AvObj) (h : ObjInv o) (n : Nat) :
    ∃ o', getLevel o n = .ok (o', (o'.cache.getD n []).keys) ∧ ObjExt o o' ∧ n < o'.cache.length := by
  obtain ⟨o', _, h1, _, hext, hn, _, _⟩ := ensureLevel_correct o h n
  exact ⟨o', by simp only [getLevel, h1], hext, hn⟩

/-- a history of level requests on one object -/
def runLevels (o : AvObj) : List Nat → Except Proto.Err (AvObj × List (List NSeq))
  | [] => .ok (o, [])
  | n :: ns =>
    match getLevel o n with
    | .error e => .error e
    | .ok (o', ks) =>
      match runLevels o' ns with
      | .error e => .error e
      | .ok (o'', r) => .ok (o'', ks :: r)

theorem runLevels_spec : ∀ (hist : List Nat) (o : AvObj), ObjInv o →
    ∃ o' outs, runLevels o hist = .ok (o', outs) ∧ ObjExt o o' ∧
      List.Forall₂ (fun n ks => ks.Perm (specLevel o.basis n)) hist outs
  | [], o, h => ⟨o, [], rfl, ObjExt.refl h, List.Forall₂.nil⟩
  | n :: ns, o, h => by
    obtain ⟨o1, ks, h1, hext1, hks⟩ := getLevel_spec o h n
    obtain ⟨o2, outs, h2, hext2, hall⟩ := runLevels_spec ns o1 hext1.inv
    refine ⟨o2, ks :: outs, by simp only [runLevels, h1, h2], hext1.trans hext2, ?_⟩
    rw [hext1.basis] at hall
    exact List.Forall₂.cons hks hall

end C02L
