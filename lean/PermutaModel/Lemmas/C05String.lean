import PermutaModel.Model.C05
/-! Standardisation does not see a strictly monotone relabelling of the entries (0-based vs 1-based digits). -/
open Model Model.C05

namespace C05

theorem standardize_map_strictMono (f : Nat → Nat) (hf : ∀ a b, a < b ↔ f a < f b) (l : List Nat) :
    standardize (l.map f) = standardize l := by
  have hinj : ∀ a b, f a = f b ↔ a = b := by
    intro a b
    constructor
    · intro h
      rcases Nat.lt_trichotomy a b with h1 | h1 | h1
      · have := (hf a b).mp h1; omega
      · exact h1
      · have := (hf b a).mp h1; omega
    · intro h; rw [h]
  unfold standardize
  have hz : (l.map f).zipIdx = l.zipIdx.map (fun p => (f p.1, p.2)) := by
    rw [List.zipIdx_map]; rfl
  rw [hz, List.map_map]
  apply List.map_congr_left
  intro vi _
  simp only [Function.comp]
  rw [List.filter_map, List.length_map]
  congr 1
  apply List.filter_congr
  intro wj _
  simp only [Function.comp]
  have h1 : decide (f wj.1 < f vi.1) = decide (wj.1 < vi.1) := by
    rw [decide_eq_decide]; exact (hf _ _).symm
  have h2 : (f wj.1 == f vi.1) = (wj.1 == vi.1) := by
    rw [Bool.eq_iff_iff]; simp [hinj]
  rw [h1, h2]

theorem standardize_shift (l : List Nat) : standardize (l.map (· + 1)) = standardize l :=
  standardize_map_strictMono (· + 1) (by intro a b; simp) l

theorem ten_digits (c : Char) (h : c.isDigit = true) : c = '0' ∨ c = '1' ∨ c = '2' ∨ c = '3' ∨ c = '4' ∨ c = '5' ∨ c = '6' ∨ c = '7' ∨ c = '8' ∨ c = '9' := by
  simp only [Char.isDigit, Bool.and_eq_true, decide_eq_true_eq] at h
  have h1 : 48 ≤ c.val.toNat := by have := h.1; exact UInt32.le_iff_toNat_le.mp this
  have h2 : c.val.toNat ≤ 57 := by have := h.2; exact UInt32.le_iff_toNat_le.mp this
  have : ∀ d : Char, c.val.toNat = d.val.toNat → c = d := by
    intro d hd
    apply Char.ext
    exact UInt32.toNat_inj.mp hd
  have h3 : c.val.toNat = 48 ∨ c.val.toNat = 49 ∨ c.val.toNat = 50 ∨ c.val.toNat = 51 ∨ c.val.toNat = 52 ∨ c.val.toNat = 53 ∨ c.val.toNat = 54 ∨ c.val.toNat = 55 ∨ c.val.toNat = 56 ∨ c.val.toNat = 57 := by omega
  rcases h3 with h | h | h | h | h | h | h | h | h | h
  · exact Or.inl (this '0' h)
  · exact Or.inr (Or.inl (this '1' h))
  · exact Or.inr (Or.inr (Or.inl (this '2' h)))
  · exact Or.inr (Or.inr (Or.inr (Or.inl (this '3' h))))
  · exact Or.inr (Or.inr (Or.inr (Or.inr (Or.inl (this '4' h)))))
  · exact Or.inr (Or.inr (Or.inr (Or.inr (Or.inr (Or.inl (this '5' h))))))
  · exact Or.inr (Or.inr (Or.inr (Or.inr (Or.inr (Or.inr (Or.inl (this '6' h)))))))
  · exact Or.inr (Or.inr (Or.inr (Or.inr (Or.inr (Or.inr (Or.inr (Or.inl (this '7' h))))))))
  · exact Or.inr (Or.inr (Or.inr (Or.inr (Or.inr (Or.inr (Or.inr (Or.inr (Or.inl (this '8' h)))))))))
  · exact Or.inr (Or.inr (Or.inr (Or.inr (Or.inr (Or.inr (Or.inr (Or.inr (Or.inr (this '9' h)))))))))

theorem shift_digit (c : Char) (h : c.isDigit = true) (h9 : c ≠ '9') :
    (shiftChar c).isDigit = true ∧ (shiftChar c).toNat - '0'.toNat = (c.toNat - '0'.toNat) + 1 := by
  rcases ten_digits c h with rfl | rfl | rfl | rfl | rfl | rfl | rfl | rfl | rfl | rfl <;> first | decide | exact absurd rfl h9

theorem shift_nondigit (c : Char) (h : c.isDigit = false) : shiftChar c = c := by
  simp [shiftChar, h]

theorem digitGroupsAux_shift : ∀ (s : List Char) (cur : List Nat), (∀ c ∈ s, c ≠ '9') →
    digitGroupsAux (s.map shiftChar) (cur.map (· + 1)) = (digitGroupsAux s cur).map (·.map (· + 1))
  | [], cur, _ => by
    cases cur with
    | nil => rfl
    | cons a t => simp [digitGroupsAux, List.map_reverse]
  | c :: cs, cur, h9 => by
    have hc9 : c ≠ '9' := h9 c (List.mem_cons_self ..)
    have ih := fun cur' => digitGroupsAux_shift cs cur' (fun d hd => h9 d (List.mem_cons_of_mem _ hd))
    cases hd : c.isDigit with
    | true =>
      obtain ⟨h1, h2⟩ := shift_digit c hd hc9
      simp only [List.map_cons, digitGroupsAux, h1, hd, if_true, h2]
      exact ih ((c.toNat - '0'.toNat) :: cur)
    | false =>
      rw [List.map_cons, shift_nondigit c hd]
      cases cur with
      | nil =>
        simp only [digitGroupsAux, hd, List.map_nil, List.isEmpty_nil, if_true]
        simpa using ih []
      | cons a t =>
        simp only [digitGroupsAux, hd, List.map_cons, List.isEmpty_cons]
        have := ih []
        simp only [List.map_nil] at this
        simp [this, List.map_reverse]

theorem digitGroups_shift (s : List Char) (h9 : ∀ c ∈ s, c ≠ '9') :
    digitGroups (s.map shiftChar) = (digitGroups s).map (·.map (· + 1)) :=
  digitGroupsAux_shift s [] h9

end C05
