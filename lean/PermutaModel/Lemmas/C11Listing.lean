import PermutaModel.Model.C11
import PermutaModel.Spec.C11
/-! Helper lemmas for C11: the `enumerate`/`zip` comprehensions as maps over `range`, and the
    "two strictly increasing lists with the same members are equal" principle. (core Lean only) -/
open Model.Stat

namespace C11L
local notation:max σ "⟦" i "⟧" => List.getD σ i 0


theorem enum_eq (p : NSeq) : enum p = (List.range p.length).map fun i => (i, p.getD i 0) := by
  apply List.ext_getElem
  · simp [enum]
  · intro i h1 h2
    simp [enum] at h1 ⊢
    simp [List.getElem?_eq_getElem h1]

theorem enum2_eq (p : NSeq) :
    enum2 p = (List.range (p.length - 1)).map fun i => (i, p.getD i 0, p.getD (i + 1) 0) := by
  apply List.ext_getElem
  · simp [enum2]
  · intro i h1 h2
    simp [enum2] at h1 ⊢
    have h3 : i < p.length := by omega
    have h4 : i + 1 < p.length := by omega
    simp [List.getElem?_eq_getElem h3, List.getElem?_eq_getElem h4]

theorem enum3_eq (p : NSeq) :
    enum3 p = (List.range (p.length - 2)).map fun i => (i, p.getD i 0, p.getD (i + 1) 0, p.getD (i + 2) 0) := by
  apply List.ext_getElem
  · simp [enum3]; omega
  · intro i h1 h2
    simp [enum3] at h1 ⊢
    have h3 : i < p.length := by omega
    have h4 : i + 1 < p.length := by omega
    have h5 : i + 2 < p.length := by omega
    simp [List.getElem?_eq_getElem h3, List.getElem?_eq_getElem h4, List.getElem?_eq_getElem h5]
    congr 1; omega

theorem eq_of_pairwise_lt_of_mem_iff : ∀ (l1 l2 : List Nat), l1.Pairwise (· < ·) → l2.Pairwise (· < ·) →
    (∀ x, x ∈ l1 ↔ x ∈ l2) → l1 = l2 := by
  intro l1
  induction l1 with
  | nil =>
    intro l2 _ _ h
    cases l2 with
    | nil => rfl
    | cons b u => exact absurd ((h b).mpr (by simp)) (by simp)
  | cons a t ih =>
    intro l2 h1 h2 h
    cases l2 with
    | nil => exact absurd ((h a).mp (by simp)) (by simp)
    | cons b u =>
      rw [List.pairwise_cons] at h1 h2
      have hab : a = b := by
        have ha := (h a).mp (by simp)
        have hb := (h b).mpr (by simp)
        rcases List.mem_cons.mp ha with ha | ha
        · exact ha
        · rcases List.mem_cons.mp hb with hb | hb
          · exact hb.symm
          · have := h2.1 a ha; have := h1.1 b hb; omega
      subst hab
      congr 1
      apply ih u h1.2 h2.2
      intro x
      constructor
      · intro hx
        rcases List.mem_cons.mp ((h x).mp (List.mem_cons_of_mem _ hx)) with e | e
        · have := h1.1 x hx; omega
        · exact e
      · intro hx
        rcases List.mem_cons.mp ((h x).mpr (List.mem_cons_of_mem _ hx)) with e | e
        · have := h2.1 x hx; omega
        · exact e

/-- a filtered comprehension over `range m`, shifted by `c`, equals a filter over `range n` with the same members -/
theorem shifted_filter_eq (n m c : Nat) (Q R : Nat → Bool)
    (h : ∀ x, (x < n ∧ R x = true) ↔ (c ≤ x ∧ x - c < m ∧ Q (x - c) = true)) :
    ((List.range m).filter Q).map (· + c) = (List.range n).filter R := by
  apply eq_of_pairwise_lt_of_mem_iff
  · apply List.Pairwise.map (R := (· < ·))
    · intro a b hab; omega
    · exact List.Pairwise.filter _ List.pairwise_lt_range
  · exact List.Pairwise.filter _ List.pairwise_lt_range
  · intro x
    simp only [List.mem_map, List.mem_filter, List.mem_range]
    constructor
    · rintro ⟨j, ⟨hj, hq⟩, rfl⟩
      exact (h (j + c)).mpr ⟨by omega, by simpa using hj, by simpa using hq⟩
    · intro hx
      obtain ⟨h1, h2, h3⟩ := (h x).mp hx
      exact ⟨x - c, ⟨h2, h3⟩, by omega⟩


/-- variant with the shift applied forwards (`j ↦ j + c`), friendlier to `simp` -/
theorem shifted_filter_eq' (n m c : Nat) (Q R : Nat → Bool)
    (h1 : ∀ j, j < m → (Q j = true ↔ R (j + c) = true)) (hm : ∀ j, j < m → j + c < n)
    (h2 : ∀ x, x < n → R x = true → c ≤ x ∧ x - c < m) :
    ((List.range m).filter Q).map (· + c) = (List.range n).filter R := by
  apply shifted_filter_eq
  intro x
  constructor
  · rintro ⟨hx, hr⟩
    obtain ⟨a, b⟩ := h2 x hx hr
    refine ⟨a, b, (h1 (x - c) b).mpr ?_⟩
    have : x - c + c = x := by omega
    rw [this]; exact hr
  · rintro ⟨a, b, hq⟩
    have e : x - c + c = x := by omega
    have := hm (x - c) b
    have hr := (h1 (x - c) b).mp hq
    rw [e] at this hr
    exact ⟨this, hr⟩


theorem range'_succ_eq_filter (n i : Nat) :
    List.range' (i + 1) (n - (i + 1)) = (List.range n).filter fun j => decide (i < j) := by
  apply eq_of_pairwise_lt_of_mem_iff
  · exact List.pairwise_lt_range'
  · exact List.Pairwise.filter _ List.pairwise_lt_range
  · intro x
    simp [List.mem_range']
    constructor
    · rintro ⟨k, hk, rfl⟩; omega
    · intro h; exact ⟨x - (i + 1), by omega, by omega⟩

theorem flatMap_congr' {α β : Type} (l : List α) (f g : α → List β) (h : ∀ a ∈ l, f a = g a) :
    l.flatMap f = l.flatMap g := by
  induction l with
  | nil => rfl
  | cons a t ih =>
    simp only [List.flatMap_cons]
    rw [h a (by simp), ih (fun b hb => h b (by simp [hb]))]

theorem interSorted_filter_range (n : Nat) (Q : Nat → Bool) (b : List Nat) :
    interSorted ((List.range n).filter Q) b =
      (List.range n).filter fun i => decide (i ∈ (List.range n).filter Q ∧ i ∈ b) := by
  unfold interSorted
  rw [List.filter_filter]
  apply List.filter_congr
  intro i hi
  simp only [List.mem_range] at hi
  simp [hi, Bool.and_comm]

theorem count1_eq_length {α : Type} (l : List α) : count1 l = l.length := by
  induction l with
  | nil => rfl
  | cons a t ih => simp [count1] at *; omega

theorem inversions_eq_spec (p : NSeq) : inversions p = Spec.Stat.inversions p := by
  unfold inversions Spec.Stat.inversions Spec.Stat.pairs Spec.Stat.positions
  rw [enum_eq, List.flatMap_map, List.filter_flatMap]
  apply flatMap_congr'
  intro i _
  rw [range'_succ_eq_filter, List.filter_map]
  rfl

theorem nonInversions_eq_spec (p : NSeq) : nonInversions p = Spec.Stat.nonInversions p := by
  unfold nonInversions Spec.Stat.nonInversions Spec.Stat.pairs Spec.Stat.positions
  rw [enum_eq, List.flatMap_map, List.filter_flatMap]
  apply flatMap_congr'
  intro i _
  rw [range'_succ_eq_filter, List.filter_map]
  rfl

end C11L
