import PermutaModel.Lemmas.C18NE

/-! Rotation by 90°: `MeshPatt.rotate()` / `Perm.rotate()` map occurrences to occurrences. -/

namespace Spec.C18
open Model Model.C18

/-! ### `idxOf` on permutations -/

theorem idxOf_lt {p : NSeq} (hp : IsPerm p) {v : Nat} (hv : v < p.length) : p.idxOf v < p.length := by
  rw [List.idxOf_lt_length_iff]
  obtain ⟨a, ha, rfl⟩ := hp.surj hv
  exact mem_getD ha

theorem getD_idxOf {p : NSeq} (hp : IsPerm p) {v : Nat} (hv : v < p.length) :
    p.getD (p.idxOf v) 0 = v := by
  have h := idxOf_lt hp hv
  rw [getD_eq_getElem' p h]; exact List.getElem_idxOf h

theorem idxOf_getD {p : NSeq} (hp : p.Nodup) {k : Nat} (hk : k < p.length) :
    p.idxOf (p.getD k 0) = k := by
  have hmem : p.getD k 0 ∈ p := mem_getD hk
  have h := List.idxOf_lt_length_iff.mpr hmem
  have h2 : p[p.idxOf (p.getD k 0)] = p[k] := by
    rw [List.getElem_idxOf h]; exact getD_eq_getElem' p hk
  exact (List.Nodup.getElem_inj_iff hp).mp h2

/-- the inverse permutation as a list is a rearrangement of `range n` -/
theorem map_idxOf_perm {p : NSeq} (hp : IsPerm p) :
    ((List.range p.length).map fun r => p.idxOf r).Perm (List.range p.length) := by
  have hperm : IsPerm ((List.range p.length).map fun r => p.idxOf r) := by
    constructor
    · apply List.Nodup.map_on _ List.nodup_range
      intro a ha b hb hab
      rw [List.mem_range] at ha hb
      have h1 := getD_idxOf hp ha
      have h2 := getD_idxOf hp hb
      rw [hab] at h1; omega
    · intro x hx
      rw [List.mem_map] at hx
      obtain ⟨r, hr, rfl⟩ := hx
      rw [List.mem_range] at hr
      simpa using idxOf_lt hp hr
  have := isPerm_perm_range hperm
  simpa using this

/-- counting over ranks = counting over indices -/
theorem countP_reindex {p : NSeq} (hp : IsPerm p) (g : Nat → Bool) :
    (List.range p.length).countP (fun r => g (p.idxOf r)) = (List.range p.length).countP g := by
  have := (map_idxOf_perm hp).countP_eq g
  rwa [List.countP_map] at this

theorem countP_eq_range (c : List Nat) (g : Nat → Bool) :
    c.countP g = (List.range c.length).countP (fun k => g (c.getD k 0)) := by
  have hc : c = (List.range c.length).map (fun k => c.getD k 0) := by
    apply List.ext_getElem
    · simp
    · intro i h1 h2
      rw [List.getElem_map, List.getElem_range, getD_eq_getElem' c h1]
  conv_lhs => rw [hc]
  rw [List.countP_map]; rfl

/-! ### `rotate1` -/

theorem rotate1_length (p : NSeq) : (rotate1 p).length = p.length := by simp [rotate1]

theorem rotate1_getD (p : NSeq) {v : Nat} (hv : v < p.length) :
    (rotate1 p).getD v 0 = p.length - 1 - p.idxOf v := by
  unfold rotate1
  rw [List.getD_eq_getElem?_getD, List.getElem?_map, List.getElem?_range hv]; rfl

theorem rotate1_isPerm {p : NSeq} (hp : IsPerm p) : IsPerm (rotate1 p) := by
  constructor
  · unfold rotate1
    apply List.Nodup.map_on _ List.nodup_range
    intro a ha b hb hab
    rw [List.mem_range] at ha hb
    have h1 := getD_idxOf hp ha
    have h2 := getD_idxOf hp hb
    have h3 := idxOf_lt hp ha
    have h4 := idxOf_lt hp hb
    have : p.idxOf a = p.idxOf b := by omega
    rw [this] at h1; omega
  · intro x hx
    rw [rotate1_length]
    unfold rotate1 at hx
    rw [List.mem_map] at hx
    obtain ⟨r, hr, rfl⟩ := hx
    rw [List.mem_range] at hr
    omega

/-- value of the rotated permutation at an old value -/
theorem rotate1_at_value {σ : NSeq} (hσ : IsPerm σ) {i : Nat} (hi : i < σ.length) :
    (rotate1 σ).getD (σ.getD i 0) 0 = σ.length - 1 - i := by
  rw [rotate1_getD σ (hσ.getD_lt hi), idxOf_getD hσ.1 hi]

/-! ### occurrences -/

/-- the image of the index tuple `c`: the values of the occurrence in increasing order -/
def rotTuple (π σ : NSeq) (c : List Nat) : List Nat :=
  (List.range π.length).map fun r => σ.getD (c.getD (π.idxOf r) 0) 0

theorem rotTuple_getD (π σ : NSeq) (c : List Nat) {r : Nat} (hr : r < π.length) :
    (rotTuple π σ c).getD r 0 = σ.getD (c.getD (π.idxOf r) 0) 0 := by
  unfold rotTuple
  rw [List.getD_eq_getElem?_getD, List.getElem?_map, List.getElem?_range hr]; rfl

theorem sorted_lt_iff_idx {c : List Nat} (hc : c.Pairwise (· < ·)) {a b : Nat} (ha : a < c.length)
    (hb : b < c.length) : c.getD a 0 < c.getD b 0 ↔ a < b := by
  constructor
  · intro h
    by_contra hn
    rcases Nat.lt_or_ge b a with h1 | h1
    · have := sorted_getD_lt hc h1 ha; omega
    · have : a = b := by omega
      subst this; omega
  · intro h; exact sorted_getD_lt hc h hb

theorem rot_isOcc {π σ : NSeq} {c : List Nat} (hπ : IsPerm π) (hσ : IsPerm σ) (hc : IsOcc π σ c) :
    IsOcc (rotate1 π) (rotate1 σ) (rotTuple π σ c) := by
  have hlen := hc.len
  have hκ : ∀ r, r < π.length → c.getD (π.idxOf r) 0 < σ.length := fun r hr =>
    hc.rng _ (mem_getD (by have := idxOf_lt hπ hr; omega))
  refine ⟨by simp [rotTuple, rotate1], ?_, ?_, ?_⟩
  · unfold StrictInc
    rw [List.pairwise_iff_getElem]
    intro a b ha hb hab
    have ha' : a < π.length := by simpa [rotTuple] using ha
    have hb' : b < π.length := by simpa [rotTuple] using hb
    rw [← getD_eq_getElem' _ ha, ← getD_eq_getElem' _ hb, rotTuple_getD _ _ _ ha', rotTuple_getD _ _ _ hb']
    rw [← hc.iso _ _ (idxOf_lt hπ ha') (idxOf_lt hπ hb'), getD_idxOf hπ ha', getD_idxOf hπ hb']
    exact hab
  · intro i hi
    unfold rotTuple at hi
    rw [List.mem_map] at hi
    obtain ⟨r, hr, rfl⟩ := hi
    rw [List.mem_range] at hr
    rw [rotate1_length]
    exact hσ.getD_lt (hκ r hr)
  · intro a b ha hb
    rw [rotate1_length] at ha hb
    rw [rotate1_getD π ha, rotate1_getD π hb, rotTuple_getD _ _ _ ha, rotTuple_getD _ _ _ hb,
      rotate1_at_value hσ (hκ a ha), rotate1_at_value hσ (hκ b hb)]
    have h1 := idxOf_lt hπ ha
    have h2 := idxOf_lt hπ hb
    have h3 := sorted_lt_iff_idx hc.inc (show π.idxOf b < c.length by omega) (show π.idxOf a < c.length by omega)
    have h4 := hκ a ha
    have h5 := hκ b hb
    omega

/-- the cell of an old point w.r.t. the rotated occurrence: `(a, b) ↦ (b, n - a)` -/
theorem rot_cell {π σ : NSeq} {c : List Nat} (hπ : IsPerm π) (hσ : IsPerm σ) (hc : IsOcc π σ c)
    {i : Nat} (hi : i < σ.length) (hic : i ∉ c) :
    cellOf (rotate1 σ) (rotTuple π σ c) (σ.getD i 0) = (rowOf σ c i, π.length - colOf c i) := by
  have hlen := hc.len
  have hκ : ∀ r, r < π.length → c.getD (π.idxOf r) 0 < σ.length := fun r hr =>
    hc.rng _ (mem_getD (by have := idxOf_lt hπ hr; omega))
  rw [cellOf_eq]
  congr 1
  · show (rotTuple π σ c).countP _ = c.countP _
    unfold rotTuple
    rw [List.countP_map, countP_eq_range c, hlen]
    exact countP_reindex hπ (fun k => decide (σ.getD (c.getD k 0) 0 < σ.getD i 0))
  · show (rotTuple π σ c).countP _ = _
    unfold rotTuple
    rw [List.countP_map]
    have h1 : (List.range π.length).countP
        ((fun k => decide ((rotate1 σ).getD k 0 < (rotate1 σ).getD (σ.getD i 0) 0)) ∘
          fun r => σ.getD (c.getD (π.idxOf r) 0) 0) =
        (List.range π.length).countP (fun r => (fun k => decide (i < c.getD k 0)) (π.idxOf r)) := by
      apply List.countP_congr
      intro r hr
      rw [List.mem_range] at hr
      simp only [Function.comp, decide_eq_true_eq]
      rw [rotate1_at_value hσ (hκ r hr), rotate1_at_value hσ hi]
      have := hκ r hr
      omega
    rw [h1, countP_reindex hπ (fun k => decide (i < c.getD k 0)), ← hlen,
      ← countP_eq_range c (fun k => decide (i < k))]
    have h2 := List.length_eq_countP_add_countP (fun k => decide (k < i)) (l := c)
    have h3 : c.countP (fun a => decide ¬ (fun k => decide (k < i)) a = true) =
        c.countP (fun k => decide (i < k)) := by
      apply List.countP_congr
      intro k hk
      have : k ≠ i := fun h => hic (h ▸ hk)
      simp only [decide_eq_true_eq]; omega
    rw [h3] at h2
    show _ = c.length - c.countP _
    omega

/-- an occurrence of `μ` in `σ` rotates to an occurrence of `μ.rotate()` in `σ.rotate()` -/
theorem rot_step {μ : Mesh} (hμ : ValidMesh μ) {σ : NSeq} (hσ : IsPerm σ) {c : List Nat}
    (hc : MeshOcc μ σ c) : MeshOcc (rotMesh μ) (rotate1 σ) (rotTuple μ.pattern σ c) := by
  refine ⟨rot_isOcc hμ.1 hσ hc.occ, ?_⟩
  intro j hj hjc hmem
  rw [rotate1_length] at hj
  have hi := idxOf_lt hσ hj
  have hσi := getD_idxOf hσ hj
  have hlen := hc.occ.len
  have hic : σ.idxOf j ∉ c := by
    intro hm
    obtain ⟨k, hk, hki⟩ := List.getElem_of_mem hm
    apply hjc
    have hkπ : k < μ.pattern.length := by omega
    have hr := hμ.1.getD_lt hkπ
    have : (rotTuple μ.pattern σ c).getD (μ.pattern.getD k 0) 0 = j := by
      rw [rotTuple_getD _ _ _ hr, idxOf_getD hμ.1.1 hkπ, getD_eq_getElem' c hk, hki, hσi]
    rw [← this]
    exact mem_getD (by simpa [rotTuple] using hr)
  rw [← hσi, rot_cell hμ.1 hσ hc.occ hi hic] at hmem
  unfold rotMesh at hmem
  simp only [List.mem_map, Prod.mk.injEq] at hmem
  obtain ⟨⟨u, v⟩, huv, h1, h2⟩ := hmem
  simp only at h1 h2
  have hu := (hμ.2 _ huv).1
  have hcol : colOf c (σ.idxOf j) ≤ μ.pattern.length := hlen ▸ List.countP_le_length
  have : u = colOf c (σ.idxOf j) := by simp only [mlen] at h2; omega
  apply hc.free _ hi hic
  rw [cellOf_eq, ← this, ← h1]
  exact huv

end Spec.C18
