import PermutaModel.Lemmas.C11Runs
import Mathlib.Data.Finset.Card
import Mathlib.Data.Finset.Range
/-! Helper lemmas for C11: orbits of a permutation given as a list, the two loops of `cycle_decomp`
    (termination included) and `order` as the least period. -/
open Model.Stat

namespace C11L
local notation:max σ "⟦" i "⟧" => List.getD σ i 0

abbrev it (p : NSeq) (k i : Nat) : Nat := Spec.Stat.iter p k i

theorem it_zero (p : NSeq) (i : Nat) : it p 0 i = i := rfl
theorem it_succ (p : NSeq) (k i : Nat) : it p (k + 1) i = p⟦it p k i⟧ := rfl

theorem it_add (p : NSeq) (a b i : Nat) : it p (a + b) i = it p a (it p b i) := by
  induction a with
  | zero => simp [it, Spec.Stat.iter]
  | succ a ih =>
    have : a + 1 + b = (a + b) + 1 := by omega
    rw [this, it_succ, ih, it_succ]

theorem it_succ' (p : NSeq) (k i : Nat) : it p (k + 1) i = it p k p⟦i⟧ := by
  have := it_add p k 1 i
  simpa [it, Spec.Stat.iter] using this

theorem it_lt {p : NSeq} (hp : IsPerm p) (k : Nat) {i : Nat} (hi : i < p.length) : it p k i < p.length := by
  induction k with
  | zero => exact hi
  | succ k ih => rw [it_succ]; exact hp.getD_lt ih

theorem it_inj {p : NSeq} (hp : IsPerm p) (k : Nat) {i j : Nat} (hi : i < p.length) (hj : j < p.length)
    (h : it p k i = it p k j) : i = j := by
  induction k with
  | zero => exact h
  | succ k ih =>
    rw [it_succ, it_succ] at h
    exact ih (hp.getD_inj (it_lt hp k hi) (it_lt hp k hj) h)

/-- every position returns to itself within `n` steps -/
theorem exists_period {p : NSeq} (hp : IsPerm p) {i : Nat} (hi : i < p.length) :
    ∃ k, 1 ≤ k ∧ k ≤ p.length ∧ it p k i = i := by
  have hmaps : ∀ a ∈ Finset.range (p.length + 1), it p a i ∈ Finset.range p.length := by
    intro a _; exact Finset.mem_range.mpr (it_lt hp a hi)
  have hcard : (Finset.range p.length).card < (Finset.range (p.length + 1)).card := by simp
  obtain ⟨a, ha, b, hb, hab, hf⟩ := Finset.exists_ne_map_eq_of_card_lt_of_maps_to hcard hmaps
  rw [Finset.mem_range] at ha hb
  -- wlog a < b
  have key : ∀ a b, a < b → b < p.length + 1 → it p a i = it p b i → ∃ k, 1 ≤ k ∧ k ≤ p.length ∧ it p k i = i := by
    intro a b hlt hb hf
    refine ⟨b - a, by omega, by omega, ?_⟩
    have e : b = a + (b - a) := by omega
    rw [e, it_add] at hf
    exact (it_inj hp a hi (it_lt hp (b - a) hi) hf).symm
  rcases Nat.lt_or_gt_of_ne hab with h | h
  · exact key a b h hb hf
  · exact key b a h ha hf.symm

theorem find?_range'_spec (P : Nat → Bool) : ∀ (n s : Nat), (∃ k, s ≤ k ∧ k < s + n ∧ P k = true) →
    ∃ k0, (List.range' s n).find? P = some k0 ∧ s ≤ k0 ∧ k0 < s + n ∧ P k0 = true ∧
      ∀ k, s ≤ k → k < k0 → P k = false := by
  intro n
  induction n with
  | zero => intro s ⟨k, h1, h2, _⟩; omega
  | succ n ih =>
    intro s ⟨k, h1, h2, h3⟩
    rw [List.range'_succ, List.find?_cons]
    cases hs : P s with
    | true => exact ⟨s, rfl, Nat.le_refl _, by omega, hs, fun k h1 h2 => by omega⟩
    | false =>
      have hk : k ≠ s := by intro e; subst e; rw [hs] at h3; exact Bool.noConfusion h3
      obtain ⟨k0, e1, e2, e3, e4, e5⟩ := ih (s + 1) ⟨k, by omega, by omega, h3⟩
      refine ⟨k0, e1, by omega, by omega, e4, fun k' h1' h2' => ?_⟩
      by_cases hks : k' = s
      · subst hks; exact hs
      · exact e5 k' (by omega) h2'

/-- the least period of `m`, as the specification computes it -/
def per (p : NSeq) (m : Nat) : Nat := ((List.range' 1 p.length).find? fun k => it p k m == m).getD 0

theorem per_spec {p : NSeq} (hp : IsPerm p) {m : Nat} (hm : m < p.length) :
    1 ≤ per p m ∧ per p m ≤ p.length ∧ it p (per p m) m = m ∧ ∀ k, 1 ≤ k → k < per p m → it p k m ≠ m := by
  obtain ⟨k, h1, h2, h3⟩ := exists_period hp hm
  obtain ⟨k0, e1, e2, e3, e4, e5⟩ := find?_range'_spec (fun k => it p k m == m) p.length 1
    ⟨k, h1, by omega, by simpa using h3⟩
  have : per p m = k0 := by unfold per; rw [e1]; rfl
  rw [this]
  refine ⟨e2, by omega, by simpa using e4, fun k h1 h2 => ?_⟩
  have := e5 k h1 h2
  simpa using this

theorem it_mul_per {p : NSeq} (hp : IsPerm p) {m : Nat} (hm : m < p.length) (q : Nat) :
    it p (q * per p m) m = m := by
  induction q with
  | zero => simp [it, Spec.Stat.iter]
  | succ q ih =>
    have : (q + 1) * per p m = q * per p m + per p m := by rw [Nat.succ_mul]
    rw [this, it_add, (per_spec hp hm).2.2.1, ih]

theorem it_mod_per {p : NSeq} (hp : IsPerm p) {m : Nat} (hm : m < p.length) (a : Nat) :
    it p a m = it p (a % per p m) m := by
  have e : a = a % per p m + (a / per p m) * per p m := by
    have := Nat.mod_add_div a (per p m); rw [Nat.mul_comm] at this; omega
  conv => lhs; rw [e]
  rw [it_add, it_mul_per hp hm]

/-- the iterates `1 … per` of `m` are pairwise different -/
theorem it_distinct {p : NSeq} (hp : IsPerm p) {m : Nat} (hm : m < p.length) {a b : Nat}
    (ha : 1 ≤ a) (hab : a < b) (hb : b ≤ per p m) : it p a m ≠ it p b m := by
  intro h
  have e : b = a + (b - a) := by omega
  rw [e, it_add] at h
  have := it_inj hp a hm (it_lt hp (b - a) hm) h
  exact (per_spec hp hm).2.2.2 (b - a) (by omega) (by omega) this.symm

/-- from an iterate back to the start -/
theorem it_back {p : NSeq} (hp : IsPerm p) {m : Nat} (hm : m < p.length) (k : Nat) :
    ∃ j, it p j (it p k m) = m := by
  refine ⟨per p m * k - k, ?_⟩
  rw [← it_add]
  have h1 := (per_spec hp hm).1
  have : per p m * k - k + k = k * per p m := by
    rw [Nat.mul_comm]
    have : k ≤ k * per p m := Nat.le_mul_of_pos_right k h1
    omega
  rw [this, it_mul_per hp hm]

/-- the cycle of `m` written from `m` -/
def cycOf (p : NSeq) (m : Nat) : List Nat := (List.range (per p m)).map fun k => it p k m

/-- what the inner loop has still to erase after `j` steps -/
def orbTail (p : NSeq) (m j : Nat) : List Nat := (List.range' (j + 1) (per p m - j)).map fun k => it p k m

theorem cycleInner_spec {p : NSeq} (hp : IsPerm p) {m : Nat} (hm : m < p.length) :
    ∀ (fuel j : Nat) (rem : List Nat), 1 ≤ j → j ≤ per p m → per p m ≤ fuel + j →
      (∀ k, j < k → k ≤ per p m → it p k m ∈ rem) → rem.Nodup →
      cycleInner p m fuel (it p j m) ((List.range j).map fun k => it p k m) rem =
        some (cycOf p m, rem.filter fun x => !(orbTail p m j).contains x) := by
  intro fuel
  induction fuel with
  | zero =>
    intro j rem h1 h2 h3 _ _
    have hj : j = per p m := by omega
    subst hj
    unfold cycleInner
    rw [(per_spec hp hm).2.2.1]
    simp [cycOf, orbTail]
  | succ fuel ih =>
    intro j rem h1 h2 h3 hmem hnd
    unfold cycleInner
    by_cases hj : j = per p m
    · subst hj
      rw [(per_spec hp hm).2.2.1]
      simp [cycOf, orbTail]
    · have hjl : j < per p m := by omega
      have hne : it p j m ≠ m := (per_spec hp hm).2.2.2 j h1 hjl
      have hnext : p⟦it p j m⟧ = it p (j + 1) m := rfl
      have hin : it p (j + 1) m ∈ rem := hmem (j + 1) (by omega) (by omega)
      rw [if_pos (by simpa using hne), hnext, if_pos (by simpa using hin)]
      have hcyc : ((List.range j).map fun k => it p k m) ++ [it p j m] = (List.range (j + 1)).map fun k => it p k m := by
        rw [List.range_succ, List.map_append]; rfl
      rw [hcyc, ih (j + 1) (rem.erase (it p (j + 1) m)) (by omega) (by omega) (by omega) ?_ (hnd.erase _)]
      · congr 2
        rw [hnd.erase_eq_filter, List.filter_filter]
        apply List.filter_congr
        intro x _
        have ht : orbTail p m j = it p (j + 1) m :: orbTail p m (j + 1) := by
          unfold orbTail
          have : per p m - j = (per p m - (j + 1)) + 1 := by omega
          rw [this, List.range'_succ, List.map_cons]
        rw [ht, List.contains_cons]
        cases h : (x == it p (j + 1) m) <;> simp [h, bne]
      · intro k hk1 hk2
        rw [(List.Nodup.mem_erase_iff hnd)]
        exact ⟨(it_distinct hp hm (by omega) hk1 hk2).symm, hmem k (by omega) hk2⟩

/-- the whole orbit of `x` lies below `T` -/
def orbBelow (p : NSeq) (T x : Nat) : Bool := (List.range p.length).all fun k => decide (it p k x < T)
/-- `m` is the largest element of its orbit -/
def isMaxB (p : NSeq) (m : Nat) : Bool := (List.range p.length).all fun k => decide (it p k m ≤ m)

def remT (p : NSeq) (T : Nat) : List Nat := (List.range p.length).filter fun x => orbBelow p T x
def accT (p : NSeq) (T : Nat) : List (List Nat) :=
  ((List.range p.length).filter fun m => isMaxB p m && decide (T ≤ m)).map (cycOf p)

theorem orbBelow_all {p : NSeq} (hp : IsPerm p) {T x : Nat} (hx : x < p.length) (h : orbBelow p T x = true)
    (a : Nat) : it p a x < T := by
  rw [it_mod_per hp hx]
  have hps := per_spec hp hx
  have hlt : a % per p x < p.length := by
    have := Nat.mod_lt a (show 0 < per p x by omega); omega
  simp only [orbBelow, List.all_eq_true, List.mem_range, decide_eq_true_eq] at h
  exact h _ hlt

theorem orbBelow_it {p : NSeq} (hp : IsPerm p) {T x : Nat} (hx : x < p.length) (h : orbBelow p T x = true)
    (a : Nat) : orbBelow p T (it p a x) = true := by
  simp only [orbBelow, List.all_eq_true, List.mem_range, decide_eq_true_eq]
  intro k _
  rw [← it_add]
  exact orbBelow_all hp hx h _

theorem mem_remT {p : NSeq} {T x : Nat} : x ∈ remT p T ↔ x < p.length ∧ orbBelow p T x = true := by
  simp [remT]

theorem maxNat_mem : ∀ (l : List Nat), l ≠ [] → maxNat l ∈ l ∧ ∀ x ∈ l, x ≤ maxNat l := by
  intro l hl
  have key : ∀ (t : List Nat) (a : Nat), (t.foldl max a = a ∨ t.foldl max a ∈ t) ∧ a ≤ t.foldl max a ∧
      ∀ x ∈ t, x ≤ t.foldl max a := by
    intro t
    induction t with
    | nil => intro a; simp
    | cons b u ih =>
      intro a
      simp only [List.foldl_cons]
      obtain ⟨h1, h2, h3⟩ := ih (max a b)
      refine ⟨?_, by omega, ?_⟩
      · rcases h1 with h1 | h1
        · by_cases hab : a ≤ b
          · right; rw [h1]; simp [Nat.max_eq_right hab]
          · left; rw [h1]; exact Nat.max_eq_left (by omega)
        · right; exact List.mem_cons_of_mem _ h1
      · intro x hx
        rcases List.mem_cons.mp hx with rfl | hx
        · omega
        · exact h3 x hx
  cases l with
  | nil => exact absurd rfl hl
  | cons b u =>
    obtain ⟨h1, h2, h3⟩ := key (b :: u) 0
    refine ⟨?_, h3⟩
    rcases h1 with h1 | h1
    · have hb := h3 b (by simp)
      have : b = 0 := by omega
      unfold maxNat; rw [h1, ← this]; simp
    · exact h1

/-- facts about the maximum `M` of the remaining elements -/
structure StepFacts (p : NSeq) (T M : Nat) : Prop where
  mlt : M < p.length
  mT : M < T
  below : orbBelow p T M = true
  top : ∀ x ∈ remT p T, x ≤ M

theorem stepFacts {p : NSeq} {T : Nat} (h : remT p T ≠ []) : StepFacts p T (maxNat (remT p T)) := by
  obtain ⟨h1, h2⟩ := maxNat_mem _ h
  obtain ⟨h3, h4⟩ := mem_remT.mp h1
  refine ⟨h3, ?_, h4, h2⟩
  simp only [orbBelow, List.all_eq_true, List.mem_range, decide_eq_true_eq] at h4
  exact h4 0 (by omega)

theorem StepFacts.isMax {p : NSeq} (hp : IsPerm p) {T M : Nat} (h : StepFacts p T M) : isMaxB p M = true := by
  simp only [isMaxB, List.all_eq_true, List.mem_range, decide_eq_true_eq]
  intro k _
  exact h.top _ (mem_remT.mpr ⟨it_lt hp k h.mlt, orbBelow_it hp h.mlt h.below k⟩)

/-- an element of the orbit of `M` is one of the iterates `1 … per M` -/
theorem it_mem_orbit {p : NSeq} (hp : IsPerm p) {M : Nat} (hM : M < p.length) (a : Nat) :
    ∃ k, 1 ≤ k ∧ k ≤ per p M ∧ it p a M = it p k M := by
  have hps := per_spec hp hM
  by_cases h0 : a % per p M = 0
  · exact ⟨per p M, hps.1, Nat.le_refl _, by rw [it_mod_per hp hM, h0, hps.2.2.1]; rfl⟩
  · exact ⟨a % per p M, by omega, by have := Nat.mod_lt a (show 0 < per p M by omega); omega, it_mod_per hp hM a⟩

/-- after the orbit of `M` has been erased, the elements whose orbit lies below `M` remain -/
theorem rem_after_step {p : NSeq} (hp : IsPerm p) {T M : Nat} (h : StepFacts p T M) :
    (((remT p T).erase (it p 1 M)).filter fun x => !(orbTail p M 1).contains x) = remT p M := by
  have hnd : (remT p T).Nodup := List.Nodup.filter _ List.nodup_range
  rw [hnd.erase_eq_filter]
  unfold remT
  rw [List.filter_filter, List.filter_filter]
  apply List.filter_congr
  intro x hx
  have hxn : x < p.length := List.mem_range.mp hx
  have hps := per_spec hp h.mlt
  -- membership in the orbit of M
  have horb : ((x != it p 1 M) && !(orbTail p M 1).contains x) = true ↔ ∀ k, 1 ≤ k → k ≤ per p M → x ≠ it p k M := by
    simp only [Bool.and_eq_true, bne_iff_ne, ne_eq, Bool.not_eq_true', orbTail, List.contains_eq_mem,
      List.mem_map, List.mem_range', decide_eq_false_iff_not, not_exists, not_and]
    constructor
    · rintro ⟨h1, h2⟩ k hk1 hk2
      by_cases hk : k = 1
      · subst hk; exact h1
      · intro e
        exact h2 k ⟨k - 2, by omega, by omega⟩ e.symm
    · intro hall
      refine ⟨hall 1 (Nat.le_refl _) hps.1, ?_⟩
      rintro k ⟨i, hi, rfl⟩ e
      exact hall (1 + 1 + 1 * i) (by omega) (by omega) e.symm
  rw [Bool.eq_iff_iff, Bool.and_eq_true, Bool.and_eq_true]
  have hand : ((x != it p 1 M) = true ∧ (!(orbTail p M 1).contains x) = true) ↔
      ∀ k, 1 ≤ k → k ≤ per p M → x ≠ it p k M := by
    rw [← Bool.and_eq_true]; exact horb
  constructor
  · rintro ⟨⟨hnot, hne⟩, hT⟩
    have hall := hand.mp ⟨hne, hnot⟩
    simp only [orbBelow, List.all_eq_true, List.mem_range, decide_eq_true_eq]
    intro k _
    have hle := h.top _ (mem_remT.mpr ⟨it_lt hp k hxn, orbBelow_it hp hxn hT k⟩)
    rcases Nat.lt_or_ge (it p k x) M with hlt | hge
    · exact hlt
    · exfalso
      have heq : it p k x = M := by omega
      obtain ⟨j, hj⟩ := it_back hp hxn k
      rw [heq] at hj
      obtain ⟨k', hk1, hk2, hk3⟩ := it_mem_orbit hp h.mlt j
      exact hall k' hk1 hk2 (by rw [← hk3, hj])
  · intro hM
    have hMall : ∀ a, it p a x < M := orbBelow_all hp hxn hM
    have hT : orbBelow p T x = true := by
      simp only [orbBelow, List.all_eq_true, List.mem_range, decide_eq_true_eq]
      intro k _; have := hMall k; have := h.mT; omega
    have hall : ∀ k, 1 ≤ k → k ≤ per p M → x ≠ it p k M := by
      intro k _ _ e
      obtain ⟨j, hj⟩ := it_back hp h.mlt k
      rw [← e] at hj
      have := hMall j; omega
    obtain ⟨h1, h2⟩ := hand.mpr hall
    exact ⟨⟨h2, h1⟩, hT⟩

theorem acc_after_step {p : NSeq} (hp : IsPerm p) {T M : Nat} (h : StepFacts p T M) :
    accT p M = cycOf p M :: accT p T := by
  unfold accT
  rw [← List.map_cons]
  congr 1
  apply eq_of_pairwise_lt_of_mem_iff
  · exact List.Pairwise.filter _ List.pairwise_lt_range
  · rw [List.pairwise_cons]
    refine ⟨?_, List.Pairwise.filter _ List.pairwise_lt_range⟩
    intro a ha
    simp only [List.mem_filter, Bool.and_eq_true, decide_eq_true_eq] at ha
    have := h.mT; omega
  · intro m
    simp only [List.mem_cons, List.mem_filter, List.mem_range, Bool.and_eq_true, decide_eq_true_eq]
    constructor
    · rintro ⟨hm, hmax, hle⟩
      rcases Nat.lt_or_ge m T with hlt | hge
      · left
        -- an orbit maximum below `T` is among the remaining elements, hence `≤ M`
        have hbelow : orbBelow p T m = true := by
          simp only [orbBelow, List.all_eq_true, List.mem_range, decide_eq_true_eq]
          simp only [isMaxB, List.all_eq_true, List.mem_range, decide_eq_true_eq] at hmax
          intro k hk; have := hmax k hk; omega
        have := h.top m (mem_remT.mpr ⟨hm, hbelow⟩)
        omega
      · exact Or.inr ⟨hm, hmax, hge⟩
    · rintro (rfl | ⟨hm, hmax, hle⟩)
      · exact ⟨h.mlt, h.isMax hp, Nat.le_refl _⟩
      · exact ⟨hm, hmax, by have := h.mT; omega⟩

theorem accT_of_rem_nil {p : NSeq} {T : Nat} (h : remT p T = []) : accT p T = accT p 0 := by
  unfold accT
  congr 1
  apply List.filter_congr
  intro m hm
  have hmn : m < p.length := List.mem_range.mp hm
  by_cases hmax : isMaxB p m = true
  · simp only [hmax, Bool.true_and, Nat.zero_le, decide_true]
    rw [decide_eq_true_eq]
    rcases Nat.lt_or_ge m T with hlt | hge
    · exfalso
      have hbelow : orbBelow p T m = true := by
        simp only [orbBelow, List.all_eq_true, List.mem_range, decide_eq_true_eq]
        simp only [isMaxB, List.all_eq_true, List.mem_range, decide_eq_true_eq] at hmax
        intro k hk; have := hmax k hk; omega
      have : m ∈ remT p T := mem_remT.mpr ⟨hmn, hbelow⟩
      rw [h] at this; simp at this
    · exact hge
  · simp only [Bool.not_eq_true] at hmax; simp [hmax]

theorem cycleDecompGo_spec {p : NSeq} (hp : IsPerm p) : ∀ (fuel T : Nat), (remT p T).length ≤ fuel →
    cycleDecompGo p fuel (remT p T) (accT p T) = some (accT p 0) := by
  intro fuel
  induction fuel with
  | zero =>
    intro T hlen
    have : remT p T = [] := List.eq_nil_of_length_eq_zero (by omega)
    unfold cycleDecompGo
    rw [this]; simp only [List.isEmpty_nil, Bool.not_true, Bool.false_eq_true, if_false]
    rw [accT_of_rem_nil this]
  | succ fuel ih =>
    intro T hlen
    unfold cycleDecompGo
    by_cases hnil : remT p T = []
    · rw [hnil]; simp only [List.isEmpty_nil, Bool.not_true, Bool.false_eq_true, if_false]
      rw [accT_of_rem_nil hnil]
    · have hne : (!(remT p T).isEmpty) = true := by
        cases h : remT p T with
        | nil => exact absurd h hnil
        | cons a t => rfl
      rw [if_pos hne]
      have hsf := stepFacts hnil
      generalize hM : maxNat (remT p T) = M at hsf
      have hps := per_spec hp hsf.mlt
      have hnd : (remT p T).Nodup := List.Nodup.filter _ List.nodup_range
      have hclosed : ∀ k, it p k M ∈ remT p T := fun k =>
        mem_remT.mpr ⟨it_lt hp k hsf.mlt, orbBelow_it hp hsf.mlt hsf.below k⟩
      have h1 : p⟦M⟧ = it p 1 M := rfl
      rw [h1, if_pos (by simpa using hclosed 1)]
      have hcyc : [M] = (List.range 1).map fun k => it p k M := by simp [it, Spec.Stat.iter]
      have hinner := cycleInner_spec hp hsf.mlt p.length 1 ((remT p T).erase (it p 1 M)) (Nat.le_refl _) hps.1
        (by omega) (fun k hk1 hk2 => by
          rw [List.Nodup.mem_erase_iff hnd]
          exact ⟨(it_distinct hp hsf.mlt (Nat.le_refl _) hk1 hk2).symm, hclosed k⟩) (hnd.erase _)
      rw [hcyc, hinner]
      simp only
      rw [rem_after_step hp hsf, ← acc_after_step hp hsf]
      apply ih
      -- the maximum itself has been removed
      have hsub : (remT p M).length < (remT p T).length := by
        have hMin : M ∈ remT p T := by have := hclosed 0; simpa [it, Spec.Stat.iter] using this
        have hMnot : M ∉ remT p M := by
          intro hmem
          have := (mem_remT.mp hmem).2
          simp only [orbBelow, List.all_eq_true, List.mem_range, decide_eq_true_eq] at this
          have := this 0 (by have := hsf.mlt; omega)
          simp [it, Spec.Stat.iter] at this
        have hsubl : (remT p M).Sublist (remT p T) := by
          unfold remT
          apply List.monotone_filter_right
          intro x hx
          simp only [orbBelow, List.all_eq_true, List.mem_range, decide_eq_true_eq] at hx ⊢
          intro k hk; have := hx k hk; have := hsf.mT; omega
        rcases Nat.lt_or_ge (remT p M).length (remT p T).length with hlt | hge
        · exact hlt
        · have := hsubl.eq_of_length_le hge
          rw [this] at hMnot; exact absurd hMin hMnot
      omega

/-- **`cycle_decomp`**: the cycles, each written from its maximum, ordered by increasing maximum -/
theorem cycleDecomp_eq_cycles (p : NSeq) (hp : IsPerm p) : cycleDecomp p = some (Spec.Stat.cycles p) := by
  have hrem : remT p p.length = List.range p.length := by
    unfold remT
    rw [List.filter_eq_self]
    intro x hx
    simp only [orbBelow, List.all_eq_true, List.mem_range, decide_eq_true_eq]
    intro k _; exact it_lt hp k (List.mem_range.mp hx)
  have hacc : accT p p.length = [] := by
    unfold accT
    rw [List.map_eq_nil_iff, List.filter_eq_nil_iff]
    intro m hm
    have := List.mem_range.mp hm
    simp; omega
  have := cycleDecompGo_spec hp p.length p.length (by rw [hrem]; simp)
  rw [hrem, hacc] at this
  unfold cycleDecomp
  rw [this]
  congr 1
  unfold accT Spec.Stat.cycles Spec.Stat.positions
  congr 1
  apply List.filter_congr
  intro m _
  rw [Bool.eq_iff_iff]
  simp [isMaxB, it]

/-- `it k i = i` exactly when the least period divides `k` -/
theorem it_fixed_iff {p : NSeq} (hp : IsPerm p) {i : Nat} (hi : i < p.length) (k : Nat) :
    it p k i = i ↔ per p i ∣ k := by
  have hps := per_spec hp hi
  constructor
  · intro h
    rw [it_mod_per hp hi] at h
    have hlt : k % per p i < per p i := Nat.mod_lt k (by omega)
    by_cases h0 : k % per p i = 0
    · exact Nat.dvd_of_mod_eq_zero h0
    · exact absurd h (hps.2.2.2 _ (by omega) hlt)
  · rintro ⟨q, rfl⟩
    rw [Nat.mul_comm]; exact it_mul_per hp hi q

/-- every position lies on the cycle of an orbit maximum -/
theorem exists_orbit_max {p : NSeq} (hp : IsPerm p) {i : Nat} (hi : i < p.length) :
    ∃ m, m < p.length ∧ isMaxB p m = true ∧ ∃ a, it p a m = i := by
  have hne : (List.range p.length).map (fun k => it p k i) ≠ [] := by
    intro h
    have : p.length = 0 := by simpa using congrArg List.length h
    omega
  obtain ⟨h1, h2⟩ := maxNat_mem _ hne
  obtain ⟨b, _, hb⟩ := List.mem_map.mp h1
  set M := maxNat ((List.range p.length).map fun k => it p k i) with hM
  have hMlt : M < p.length := by rw [← hb]; exact it_lt hp b hi
  refine ⟨M, hMlt, ?_, ?_⟩
  · simp only [isMaxB, List.all_eq_true, List.mem_range, decide_eq_true_eq]
    intro k _
    have e : it p k M = it p ((k + b) % per p i) i := by rw [← hb, ← it_add, it_mod_per hp hi]
    rw [e]
    apply h2
    apply List.mem_map.mpr
    have hps := per_spec hp hi
    exact ⟨(k + b) % per p i, List.mem_range.mpr (by
      have := Nat.mod_lt (k + b) (show 0 < per p i by omega); omega), rfl⟩
  · have := it_back hp hi b
    rw [hb] at this; exact this

theorem lcm_fold_spec : ∀ (lens : List Nat) (acc : Nat), 1 ≤ acc → (∀ c ∈ lens, 1 ≤ c) →
    1 ≤ lens.foldl (fun a c => a * c / Nat.gcd a c) acc ∧
    acc ∣ lens.foldl (fun a c => a * c / Nat.gcd a c) acc ∧
    (∀ c ∈ lens, c ∣ lens.foldl (fun a c => a * c / Nat.gcd a c) acc) ∧
    ∀ k, acc ∣ k → (∀ c ∈ lens, c ∣ k) → lens.foldl (fun a c => a * c / Nat.gcd a c) acc ∣ k := by
  intro lens
  induction lens with
  | nil => intro acc h _; exact ⟨h, Nat.dvd_refl _, by simp, fun k hk _ => hk⟩
  | cons c t ih =>
    intro acc h hc
    simp only [List.foldl_cons]
    have hl : acc * c / Nat.gcd acc c = Nat.lcm acc c := rfl
    rw [hl]
    have hc1 := hc c (by simp)
    have hpos : 1 ≤ Nat.lcm acc c := Nat.lcm_pos (by omega) (by omega)
    obtain ⟨i1, i2, i3, i4⟩ := ih (Nat.lcm acc c) hpos (fun x hx => hc x (by simp [hx]))
    refine ⟨i1, Nat.dvd_trans (Nat.dvd_lcm_left _ _) i2, ?_, ?_⟩
    · intro x hx
      rcases List.mem_cons.mp hx with rfl | hx
      · exact Nat.dvd_trans (Nat.dvd_lcm_right _ _) i2
      · exact i3 x hx
    · intro k hk hall
      exact i4 k (Nat.lcm_dvd hk (hall c (by simp))) (fun x hx => hall x (by simp [hx]))

theorem dvd_specFactorial : ∀ (n c : Nat), 1 ≤ c → c ≤ n → c ∣ Spec.Stat.factorial n := by
  intro n
  induction n with
  | zero => intro c h1 h2; omega
  | succ n ih =>
    intro c h1 h2
    simp only [Spec.Stat.factorial]
    by_cases h : c = n + 1
    · subst h; exact Nat.dvd_mul_right _ _
    · exact Nat.dvd_trans (ih c h1 (by omega)) (Nat.dvd_mul_left _ _)

theorem specFactorial_pos : ∀ n, 1 ≤ Spec.Stat.factorial n := by
  intro n
  induction n with
  | zero => simp [Spec.Stat.factorial]
  | succ n ih => simp only [Spec.Stat.factorial]; exact Nat.mul_pos (by omega) ih

theorem powIsId_iff {p : NSeq} (k : Nat) : Spec.Stat.powIsId p k = true ↔ ∀ i, i < p.length → it p k i = i := by
  simp [Spec.Stat.powIsId, Spec.Stat.positions, it]

/-- the lengths of the cycles of the decomposition -/
def cycLens (p : NSeq) : List Nat := (Spec.Stat.cycles p).map List.length

theorem mem_cycLens {p : NSeq} (c : Nat) : c ∈ cycLens p ↔ ∃ m, m < p.length ∧ isMaxB p m = true ∧ c = per p m := by
  unfold cycLens Spec.Stat.cycles Spec.Stat.positions
  simp only [List.map_map, List.mem_map, List.mem_filter, List.mem_range, Function.comp, List.length_map,
    List.length_range, decide_eq_true_eq]
  constructor
  · rintro ⟨m, ⟨hm, hmax⟩, rfl⟩
    refine ⟨m, hm, ?_, rfl⟩
    simp only [isMaxB, List.all_eq_true, List.mem_range, decide_eq_true_eq]
    exact fun k hk => hmax k hk
  · rintro ⟨m, hm, hmax, rfl⟩
    simp only [isMaxB, List.all_eq_true, List.mem_range, decide_eq_true_eq] at hmax
    exact ⟨m, ⟨hm, fun k hk => hmax k hk⟩, rfl⟩

/-- `σ^k = id` exactly when every cycle length divides `k` -/
theorem powIsId_iff_dvd {p : NSeq} (hp : IsPerm p) (k : Nat) :
    Spec.Stat.powIsId p k = true ↔ ∀ c ∈ cycLens p, c ∣ k := by
  rw [powIsId_iff]
  constructor
  · intro h c hc
    obtain ⟨m, hm, _, rfl⟩ := (mem_cycLens c).mp hc
    exact (it_fixed_iff hp hm k).mp (h m hm)
  · intro h i hi
    obtain ⟨m, hm, hmax, a, ha⟩ := exists_orbit_max hp hi
    have hdvd := h (per p m) ((mem_cycLens _).mpr ⟨m, hm, hmax, rfl⟩)
    have hfix := (it_fixed_iff hp hm k).mpr hdvd
    rw [← ha, ← it_add, Nat.add_comm, it_add, hfix]

/-- **`order`** (running lcm of the cycle lengths) is the least `k > 0` with `σ^k = id` -/
theorem order_eq_spec' (p : NSeq) (hp : IsPerm p) : order p = some (Spec.Stat.order p) := by
  unfold order
  rw [cycleDecomp_eq_cycles p hp]
  simp only [Option.map_some]
  congr 1
  have hlens : ∀ c ∈ cycLens p, 1 ≤ c ∧ c ≤ p.length := by
    intro c hc
    obtain ⟨m, hm, _, rfl⟩ := (mem_cycLens c).mp hc
    exact ⟨(per_spec hp hm).1, (per_spec hp hm).2.1⟩
  obtain ⟨l1, _, l3, l4⟩ := lcm_fold_spec (cycLens p) 1 (Nat.le_refl _) (fun c hc => (hlens c hc).1)
  show (cycLens p).foldl (fun a c => a * c / Nat.gcd a c) 1 = Spec.Stat.order p
  generalize hL : (cycLens p).foldl (fun a c => a * c / Nat.gcd a c) 1 = L at l1 l3 l4
  -- `L` is found by the specification's search
  have hLid : Spec.Stat.powIsId p L = true := (powIsId_iff_dvd hp L).mpr l3
  have hLfact : L ∣ Spec.Stat.factorial p.length :=
    l4 _ (Nat.one_dvd _) (fun c hc => dvd_specFactorial _ c (hlens c hc).1 (hlens c hc).2)
  have hLle : L ≤ Spec.Stat.factorial p.length := Nat.le_of_dvd (specFactorial_pos _) hLfact
  obtain ⟨k0, e1, e2, e3, e4, e5⟩ := find?_range'_spec (Spec.Stat.powIsId p) (Spec.Stat.factorial p.length) 1
    ⟨L, l1, by omega, hLid⟩
  have hk0 : L ∣ k0 := l4 k0 (Nat.one_dvd _) ((powIsId_iff_dvd hp k0).mp e4)
  have hle : L ≤ k0 := Nat.le_of_dvd (by omega) hk0
  have hge : k0 ≤ L := by
    rcases Nat.lt_or_ge L k0 with hlt | hge
    · have := e5 L l1 hlt; rw [hLid] at this; exact Bool.noConfusion this
    · exact hge
  unfold Spec.Stat.order
  rw [e1]; simp; omega

end C11L
