import PermutaModel.Lemmas.C14SymPerm
import PermutaModel.Lemmas.C14SoundSel
/-! C14 symmetry helpers: the three generating symmetries on pin words and on geometric runs. -/
namespace C14S
open Model.C14 Model.C14.Letter Spec.C14 Proto C14L

/-- letter maps: reflection in the vertical axis, in the horizontal axis, transposition -/
def tauR : Letter → Letter
  | q1 => q2 | q2 => q1 | q3 => q4 | q4 => q3 | L => R | R => L | c => c
def tauC : Letter → Letter
  | q1 => q4 | q4 => q1 | q2 => q3 | q3 => q2 | U => D | D => U | c => c
def tauI : Letter → Letter
  | q1 => q1 | q2 => q4 | q3 => q3 | q4 => q2 | U => R | D => L | L => D | R => U | c => c

theorem side_neg {pos : Bool} {v : Rat} {l : List Rat} (h : Side pos v l) :
    Side (!pos) (-v) (l.map Neg.neg) := by
  intro a ha
  obtain ⟨b, hb, rfl⟩ := List.mem_map.mp ha
  have := h b hb
  cases pos <;> simp_all

theorem between_neg {v last : Rat} {l : List Rat} (h : Between v last l) :
    Between (-v) (-last) (l.map Neg.neg) := by
  rcases h with ⟨h1, h2⟩ | ⟨h1, h2⟩
  · right
    refine ⟨?_, by grind⟩
    intro a ha
    obtain ⟨b, hb, rfl⟩ := List.mem_map.mp ha
    have := h1 b hb; grind
  · left
    refine ⟨?_, by grind⟩
    intro a ha
    obtain ⟨b, hb, rfl⟩ := List.mem_map.mp ha
    have := h1 b hb; grind

theorem xs_negX (A : List Pt) : xs (A.map negX) = (xs A).map Neg.neg := by
  simp [xs, negX, List.map_map, Function.comp_def]
theorem ys_negX (A : List Pt) : ys (A.map negX) = ys A := by
  simp [ys, negX, List.map_map, Function.comp_def]
theorem xs_negY (A : List Pt) : xs (A.map negY) = xs A := by
  simp [xs, negY, List.map_map, Function.comp_def]
theorem ys_negY (A : List Pt) : ys (A.map negY) = (ys A).map Neg.neg := by
  simp [ys, negY, List.map_map, Function.comp_def]
theorem xs_swap (A : List Pt) : xs (A.map swapXY) = ys A := by
  simp [xs, ys, swapXY, List.map_map, Function.comp_def]
theorem ys_swap (A : List Pt) : ys (A.map swapXY) = xs A := by
  simp [xs, ys, swapXY, List.map_map, Function.comp_def]

theorem tauR_facts (c : Letter) (hc : c.isQuad = true ∨ c.isDir = true) :
    (tauR c).isQuad = c.isQuad ∧ (tauR c).isDir = c.isDir ∧ (tauR c).isVert = c.isVert
    ∧ (tauR c).isHoriz = c.isHoriz
    ∧ namesUp (tauR c) = namesUp c ∧ (c.isVert = false → namesRight (tauR c) = !namesRight c) := by
  cases c <;> simp_all [isQuad, isDir, isVert, isHoriz, tauR, namesUp, namesRight]
theorem tauC_facts (c : Letter) (hc : c.isQuad = true ∨ c.isDir = true) :
    (tauC c).isQuad = c.isQuad ∧ (tauC c).isDir = c.isDir ∧ (tauC c).isVert = c.isVert
    ∧ (tauC c).isHoriz = c.isHoriz
    ∧ namesRight (tauC c) = namesRight c ∧ (c.isHoriz = false → namesUp (tauC c) = !namesUp c) := by
  cases c <;> simp_all [isQuad, isDir, isVert, isHoriz, tauC, namesUp, namesRight]
theorem tauI_facts (c : Letter) (hc : c.isQuad = true ∨ c.isDir = true) :
    (tauI c).isQuad = c.isQuad ∧ (tauI c).isDir = c.isDir ∧ (tauI c).isVert = c.isHoriz
    ∧ (tauI c).isHoriz = c.isVert
    ∧ (c.isHoriz = false → namesRight (tauI c) = namesUp c)
    ∧ (c.isVert = false → namesUp (tauI c) = namesRight c) := by
  cases c <;> simp_all [isQuad, isDir, isVert, isHoriz, tauI, namesUp, namesRight]

theorem dir_vert_or_horiz (c : Letter) (hq : c.isQuad = false) (hc : c.isQuad = true ∨ c.isDir = true) :
    (c.isVert = true ∧ c.isHoriz = false) ∨ (c.isVert = false ∧ c.isHoriz = true) := by
  cases c <;> simp_all [isQuad, isDir, isVert, isHoriz]
theorem quad_not_vh (c : Letter) (hq : c.isQuad = true) : c.isVert = false ∧ c.isHoriz = false := by
  cases c <;> simp_all [isQuad, isVert, isHoriz]

theorem geo_negX {c : Letter} {p : Pt} {A : List Pt} (hc : c.isQuad = true ∨ c.isDir = true)
    (h : Geo c p A) : Geo (tauR c) (negX p) (A.map negX) := by
  obtain ⟨f1, _, f3, _, f5, f6⟩ := tauR_facts c hc
  by_cases hq : c.isQuad = true
  · simp only [Geo, hq, f1, if_true, IndepPin] at h ⊢
    rw [xs_negX, ys_negX, f5, f6 (quad_not_vh c hq).1]
    exact ⟨side_neg h.1, h.2⟩
  · have hq' : c.isQuad = false := by simpa using hq
    simp only [Geo, hq', f1, Bool.false_eq_true, if_false] at h ⊢
    cases A with
    | nil => exact absurd h (by simp [SepPin])
    | cons last init =>
      rw [List.map_cons]
      rcases dir_vert_or_horiz c hq' hc with ⟨hv, _⟩ | ⟨hv, _⟩
      · simp only [SepPin, f3, hv, if_true] at h ⊢
        rw [← List.map_cons, ys_negX, xs_negX, f5]
        exact ⟨h.1, between_neg h.2⟩
      · simp only [SepPin, f3, hv, Bool.false_eq_true, if_false] at h ⊢
        rw [← List.map_cons, ys_negX, xs_negX, f6 hv]
        exact ⟨side_neg h.1, h.2⟩

theorem geo_negY {c : Letter} {p : Pt} {A : List Pt} (hc : c.isQuad = true ∨ c.isDir = true)
    (h : Geo c p A) : Geo (tauC c) (negY p) (A.map negY) := by
  obtain ⟨f1, _, f3, _, f5, f6⟩ := tauC_facts c hc
  by_cases hq : c.isQuad = true
  · simp only [Geo, hq, f1, if_true, IndepPin] at h ⊢
    rw [xs_negY, ys_negY, f5, f6 (quad_not_vh c hq).2]
    exact ⟨h.1, side_neg h.2⟩
  · have hq' : c.isQuad = false := by simpa using hq
    simp only [Geo, hq', f1, Bool.false_eq_true, if_false] at h ⊢
    cases A with
    | nil => exact absurd h (by simp [SepPin])
    | cons last init =>
      rw [List.map_cons]
      rcases dir_vert_or_horiz c hq' hc with ⟨hv, hh⟩ | ⟨hv, hh⟩
      · simp only [SepPin, f3, hv, if_true] at h ⊢
        rw [← List.map_cons, ys_negY, xs_negY, f6 hh]
        exact ⟨side_neg h.1, h.2⟩
      · simp only [SepPin, f3, hv, Bool.false_eq_true, if_false] at h ⊢
        rw [← List.map_cons, ys_negY, xs_negY, f5]
        exact ⟨h.1, between_neg h.2⟩

theorem geo_swap {c : Letter} {p : Pt} {A : List Pt} (hc : c.isQuad = true ∨ c.isDir = true)
    (h : Geo c p A) : Geo (tauI c) (swapXY p) (A.map swapXY) := by
  obtain ⟨f1, _, f3, _, f5, f6⟩ := tauI_facts c hc
  by_cases hq : c.isQuad = true
  · simp only [Geo, hq, f1, if_true, IndepPin] at h ⊢
    rw [xs_swap, ys_swap, f5 (quad_not_vh c hq).2, f6 (quad_not_vh c hq).1]
    exact ⟨h.2, h.1⟩
  · have hq' : c.isQuad = false := by simpa using hq
    simp only [Geo, hq', f1, Bool.false_eq_true, if_false] at h ⊢
    cases A with
    | nil => exact absurd h (by simp [SepPin])
    | cons last init =>
      rw [List.map_cons]
      rcases dir_vert_or_horiz c hq' hc with ⟨hv, hh⟩ | ⟨hv, hh⟩
      · simp only [SepPin, f3, hv, hh, if_true, Bool.false_eq_true, if_false] at h ⊢
        rw [← List.map_cons, ys_swap, xs_swap, f5 hh]
        exact h
      · simp only [SepPin, f3, hv, hh, if_true, Bool.false_eq_true, if_false] at h ⊢
        rw [← List.map_cons, ys_swap, xs_swap, f6 hv]
        exact h

end C14S
