import PermutaModel.Lemmas.C04MeshScan
/-! C04 helper lemmas: mesh containment (property's wording) is equivariant under the generators and
    hence under all of `D8`. -/
open Model

namespace C04L

theorem meshContains_reverse_of {m : Mesh} {σ : NSeq} (hm : MeshOK m) (hσ : IsPerm σ)
    (h : MeshContains σ m) : MeshContains (reverse σ) (meshReverse m) := by
  rw [meshContains_iff_memb hm hσ] at h
  rw [meshContains_iff_memb (meshOK_reverse hm) (isPerm_reverse hσ)]
  obtain ⟨F, G, h⟩ := h
  exact ⟨_, _, h.reverse hm.2⟩

theorem meshContains_complement_of {m : Mesh} {σ : NSeq} (hm : MeshOK m) (hσ : IsPerm σ)
    (h : MeshContains σ m) : MeshContains (complement σ) (meshComplement m) := by
  rw [meshContains_iff_memb hm hσ] at h
  rw [meshContains_iff_memb (meshOK_complement hm) (isPerm_complement hσ)]
  obtain ⟨F, G, h⟩ := h
  exact ⟨_, _, h.complement hm.1 hσ hm.2⟩

theorem meshContains_inverse_of {m : Mesh} {σ : NSeq} (hm : MeshOK m) (hσ : IsPerm σ)
    (h : MeshContains σ m) : MeshContains (inverse σ) (meshInverse m) := by
  rw [meshContains_iff_memb hm hσ] at h
  rw [meshContains_iff_memb (meshOK_inverse hm) (isPerm_inverse hσ)]
  obtain ⟨F, G, h⟩ := h
  exact ⟨_, _, h.inverse hm.1 hσ⟩

theorem meshContains_act_of {m : Mesh} {σ : NSeq} (hm : MeshOK m) (hσ : IsPerm σ) (g : D8)
    (h : MeshContains σ m) : MeshContains (g.act σ) (g.actMesh m) := by
  rcases g with ⟨r, c, i⟩
  cases r <;> cases c <;> cases i <;>
    simp only [D8.act, D8.actMesh, if_true, Bool.false_eq_true, if_false] <;>
    repeat (first
      | exact h | exact hm | exact hσ
      | apply meshContains_reverse_of | apply meshContains_complement_of | apply meshContains_inverse_of
      | apply isPerm_inverse | apply isPerm_complement | apply meshOK_inverse | apply meshOK_complement)

theorem actMesh_one (m : Mesh) : D8.one.actMesh m = m := rfl

theorem meshLe_def : meshLe = fun a b => meshLt a b || meshCanon a == meshCanon b := rfl

end C04L
