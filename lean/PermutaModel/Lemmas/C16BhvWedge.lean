import PermutaModel.Lemmas.C16BhvDefs
import PermutaModel.Lemmas.C16BhvSym
import PermutaModel.Lemmas.C16BhvShapeA
import PermutaModel.Lemmas.C16BhvShapeB

/-!
# C16 — the unavoidable-substructures theorem, the wedge case

A long wedge alternation (opening to the right: upper arm increasing, lower arm decreasing, abscissae
alternating) inside a configuration without proper interval and without long proper pin sequence yields a
wedge permutation of the first or of the second kind: follow a right-reaching proper pin sequence that starts
at the apex pair; every pin that swallows `k` further pairs of the wedge at once is the extra point of a wedge
permutation (a right pin: first kind; an up or down pin, together with an older point: second kind).
-/
namespace C16P

/-- a wedge alternation of `M` pairs opening to the right, inside `P` -/
structure WedgeR (P : List Pt) (M : Nat) (l u : Nat → Pt) : Prop where
  lmem : ∀ j, j < M → l j ∈ P
  umem : ∀ j, j < M → u j ∈ P
  lu : ∀ j, j < M → (l j).1 < (u j).1
  ul : ∀ j, j + 1 < M → (u j).1 < (l (j + 1)).1
  uinc : ∀ j, j + 1 < M → (u j).2 < (u (j + 1)).2
  ldec : ∀ j, j + 1 < M → (l (j + 1)).2 < (l j).2
  apex : 0 < M → (l 0).2 < (u 0).2

namespace WedgeR
variable {P : List Pt} {M : Nat} {l u : Nat → Pt}

theorem ux_mono (h : WedgeR P M l u) : ∀ d i, i + d < M → 0 < d → (u i).1 < (u (i + d)).1 := by
  intro d
  induction d with
  | zero => intro i _ h0; omega
  | succ d ih =>
    intro i hi _
    have h1 : (u (i + d)).1 < (u (i + d + 1)).1 :=
      Std.lt_trans (h.ul (i + d) (by omega)) (h.lu (i + d + 1) (by omega))
    by_cases hd : d = 0
    · subst hd; simpa using h1
    · exact Std.lt_trans (ih i (by omega) (by omega)) h1

theorem uy_mono (h : WedgeR P M l u) : ∀ d i, i + d < M → 0 < d → (u i).2 < (u (i + d)).2 := by
  intro d
  induction d with
  | zero => intro i _ h0; omega
  | succ d ih =>
    intro i hi _
    have h1 := h.uinc (i + d) (by omega)
    by_cases hd : d = 0
    · subst hd; simpa using h1
    · exact Std.lt_trans (ih i (by omega) (by omega)) h1

theorem ly_mono (h : WedgeR P M l u) : ∀ d i, i + d < M → 0 < d → (l (i + d)).2 < (l i).2 := by
  intro d
  induction d with
  | zero => intro i _ h0; omega
  | succ d ih =>
    intro i hi _
    have h1 := h.ldec (i + d) (by omega)
    by_cases hd : d = 0
    · subst hd; simpa using h1
    · exact Std.lt_trans h1 (ih i (by omega) (by omega))

theorem ux_le (h : WedgeR P M l u) {i j : Nat} (hij : i ≤ j) (hj : j < M) : (u i).1 ≤ (u j).1 := by
  rcases Nat.eq_or_lt_of_le hij with rfl | hlt
  · exact Rat.le_refl
  · have := h.ux_mono (j - i) i (by omega) (by omega)
    rw [show i + (j - i) = j by omega] at this
    exact Rat.le_of_lt this

theorem uy_le (h : WedgeR P M l u) {i j : Nat} (hij : i ≤ j) (hj : j < M) : (u i).2 ≤ (u j).2 := by
  rcases Nat.eq_or_lt_of_le hij with rfl | hlt
  · exact Rat.le_refl
  · have := h.uy_mono (j - i) i (by omega) (by omega)
    rw [show i + (j - i) = j by omega] at this
    exact Rat.le_of_lt this

theorem ly_le (h : WedgeR P M l u) {i j : Nat} (hij : i ≤ j) (hj : j < M) : (l j).2 ≤ (l i).2 := by
  rcases Nat.eq_or_lt_of_le hij with rfl | hlt
  · exact Rat.le_refl
  · have := h.ly_mono (j - i) i (by omega) (by omega)
    rw [show i + (j - i) = j by omega] at this
    exact Rat.le_of_lt this

theorem lu_y (h : WedgeR P M l u) {i j : Nat} (hi : i < M) (hj : j < M) : (l i).2 < (u j).2 := by
  have h0 := h.apex (by omega)
  have h1 := h.ly_le (Nat.zero_le i) hi
  have h2 := h.uy_le (Nat.zero_le j) hj
  grind

end WedgeR

/-- the pair `J` of the wedge is not yet captured by the points `A`: all of `A` lies to the left of and below
    `u J`, and above `l J` -/
def NotCap (l u : Nat → Pt) (A : List Pt) (J : Nat) : Prop :=
  ∀ a ∈ A, a.1 < (u J).1 ∧ a.2 < (u J).2 ∧ (l J).2 < a.2

theorem NotCap.mono {P : List Pt} {M : Nat} {l u : Nat → Pt} (h : WedgeR P M l u) {A : List Pt} {J J' : Nat}
    (hn : NotCap l u A J) (hJ : J ≤ J') (hJ' : J' < M) : NotCap l u A J' := by
  intro a ha
  obtain ⟨h1, h2, h3⟩ := hn a ha
  have := h.ux_le hJ hJ'
  have := h.uy_le hJ hJ'
  have := h.ly_le hJ hJ'
  exact ⟨by grind, by grind, by grind⟩

theorem isPin_of_sepA {v : Bool} {p q : Pt} {rest : List Pt} (hrest : rest ≠ []) (h : SepA v p q rest) :
    IsPin v (q :: rest) p := by
  obtain ⟨r, hr⟩ := List.exists_mem_of_ne_nil _ hrest
  refine ⟨?_, h.2⟩
  rcases h.1 with ⟨b1, b2⟩ | ⟨b1, b2⟩
  · exact ⟨⟨r, by simp [hr], Rat.le_of_lt (b1 r hr)⟩, ⟨q, by simp, Rat.le_of_lt b2⟩⟩
  · exact ⟨⟨q, by simp, Rat.le_of_lt b2⟩, ⟨r, by simp [hr], Rat.le_of_lt (b1 r hr)⟩⟩

theorem applyAll_nil (p : Pt) : applyAll [] p = p := rfl

theorem map_applyAll_nil (S : List Pt) : S.map (applyAll []) = S :=
  (List.map_congr_left (fun _ _ => rfl)).trans (List.map_id S)

theorem map_w2List (T : Pt → Pt) (k : Nat) (I D : Nat → Pt) (Ap X : Pt) :
    (w2List k I D Ap X).map T = w2List k (fun i => T (I i)) (fun j => T (D j)) (T Ap) (T X) := by
  simp [w2List, List.map_append, List.map_map, Function.comp_def]

theorem applyAll_sw_ny (pre : List Gen) (p : Pt) :
    applyAll (pre ++ [Gen.sw, Gen.ny]) p = ((applyAll pre p).2, -(applyAll pre p).1) := by
  rw [applyAll_append]
  rfl

theorem mem_w2List {k : Nat} {I D : Nat → Pt} {Ap X s : Pt} (h : s ∈ w2List k I D Ap X) :
    (∃ i, i + 1 < k ∧ s = I i) ∨ s = Ap ∨ (∃ j, j < k ∧ s = D j) ∨ s = X := by
  simp only [w2List, List.mem_append, List.mem_map, List.mem_range, List.mem_singleton] at h
  rcases h with ((⟨i, hi, rfl⟩ | rfl) | ⟨j, hj, rfl⟩) | rfl
  · exact Or.inl ⟨i, by omega, rfl⟩
  · exact Or.inr (Or.inl rfl)
  · exact Or.inr (Or.inr (Or.inl ⟨j, hj, rfl⟩))
  · exact Or.inr (Or.inr (Or.inr rfl))

/-- **second kind, from an up pin** (after the symmetries `pre`): an older point `a0` to the left at apex
    height, a point `z` on top just to its right, and to the right of both an alternation
    `U 0 < Lo 0 < U 1 < … < U (k-1)` with increasing upper arm below `z` and decreasing lower arm – after
    transposition and reflection this is the literal `wedge2 k` -/
theorem outcome_w2_up (P : List Pt) (k : Nat) (hk : 1 ≤ k) (pre : List Gen) (a0 z : Pt) (U Lo : Nat → Pt)
    (ha0 : a0 ∈ P) (hz : z ∈ P) (hU : ∀ j, j < k → U j ∈ P) (hLo : ∀ i, i + 1 < k → Lo i ∈ P)
    (h1 : (applyAll pre a0).1 < (applyAll pre z).1)
    (h2 : ∀ j, j < k → (applyAll pre z).1 < (applyAll pre (U j)).1)
    (h3 : ∀ i, i + 1 < k → (applyAll pre (U i)).1 < (applyAll pre (Lo i)).1 ∧
      (applyAll pre (Lo i)).1 < (applyAll pre (U (i + 1))).1)
    (h4 : ∀ i j, i < j → j < k → (applyAll pre (U i)).2 < (applyAll pre (U j)).2)
    (h5 : ∀ i j, i < j → j + 1 < k → (applyAll pre (Lo j)).2 < (applyAll pre (Lo i)).2)
    (h6 : ∀ i, i + 1 < k → (applyAll pre (Lo i)).2 < (applyAll pre a0).2)
    (h7 : ∀ j, j < k → (applyAll pre a0).2 < (applyAll pre (U j)).2)
    (h8 : ∀ j, j < k → (applyAll pre (U j)).2 < (applyAll pre z).2) : Outcome P k := by
  let T : Pt → Pt := applyAll (pre ++ [Gen.sw, Gen.ny])
  have hT : ∀ p, T p = ((applyAll pre p).2, -(applyAll pre p).1) := applyAll_sw_ny pre
  let S0 := w2List k (fun i => Lo (k - 2 - i)) U a0 z
  have hmap : S0.map T = w2List k (fun i => T (Lo (k - 2 - i))) (fun j => T (U j)) (T a0) (T z) :=
    map_w2List T k _ _ _ _
  have hlit : LitW2 k (fun i => T (Lo (k - 2 - i))) (fun j => T (U j)) (T a0) (T z) := by
    refine ⟨?_, ?_, ?_, ?_, ?_, ?_, ?_, ?_⟩
    · intro i j hij hj
      simp only [hT]
      exact h5 (k - 2 - j) (k - 2 - i) (by omega) (by omega)
    · intro i hi
      simp only [hT]
      exact h6 (k - 2 - i) (by omega)
    · intro j hj
      simp only [hT]
      exact h7 j hj
    · intro i j hij hj
      simp only [hT]
      exact h4 i j hij hj
    · intro j hj
      simp only [hT]
      exact h8 j hj
    · intro p hp
      simp only [hT]
      have e1 := h3 (k - 2 - p) (by omega)
      rw [show k - 2 - p + 1 = k - 1 - p by omega] at e1
      constructor
      · have := e1.2; grind
      · have := e1.1; grind
    · intro j hj
      simp only [hT]
      have := h2 j hj; grind
    · simp only [hT]
      grind
  have hnd : (S0.map T).Nodup := by rw [hmap]; exact litW2_nodup k hk _ _ _ _ hlit
  refine ⟨S0, pre ++ [Gen.sw, Gen.ny], C16Fam.wedge2 k, ?_, List.Nodup.of_map _ hnd, ?_, Or.inr (Or.inr rfl)⟩
  · intro s hs
    rcases mem_w2List hs with ⟨i, hi, rfl⟩ | rfl | ⟨j, hj, rfl⟩ | rfl
    · exact hLo _ (by omega)
    · exact ha0
    · exact hU j hj
    · exact hz
  · show Model.C14.permOfPts (S0.map T) = _
    rw [hmap]
    exact litW2_perm k hk _ _ _ _ hlit

theorem mem_w1List {k : Nat} {L U : Nat → Pt} {Z s : Pt} (h : s ∈ w1List k L U Z) :
    (∃ j, j < k ∧ (s = L j ∨ s = U j)) ∨ s = Z := by
  simp only [w1List, List.mem_append, List.mem_flatMap, List.mem_range, List.mem_cons, List.not_mem_nil,
    or_false, List.mem_singleton] at h
  rcases h with ⟨j, hj, h⟩ | rfl
  · exact Or.inl ⟨j, hj, h⟩
  · exact Or.inr rfl

theorem exists_rightmost (P : List Pt) (hne : P ≠ []) : ∃ r ∈ P, ∀ s ∈ P, s.1 ≤ r.1 := by
  obtain ⟨c, hc⟩ := List.exists_mem_of_ne_nil _ hne
  obtain ⟨m, hm, _, hmax⟩ := exists_farthest (co true) true (fun _ => True) P ⟨c, hc, trivial⟩
  refine ⟨m, hm, fun s hs => ?_⟩
  have := hmax s hs trivial
  simpa [Farther, co] using this

/-- a proper pin sequence of at least `k` points contains one of exactly `k` points -/
theorem hasPinCfg_of_long {P : List Pt} {v : Bool} {L : List Pt} (hP : PinSeqA v L) (hN : L.Nodup)
    (hsub : ∀ a ∈ L, a ∈ P) {k : Nat} (hk : k ≤ L.length) : HasPinCfg P k := by
  have hsplit : L = L.take (L.length - k) ++ L.drop (L.length - k) := (List.take_append_drop _ _).symm
  obtain ⟨v', hP'⟩ := pinSeqA_suffix (L.take (L.length - k)) (l := L.drop (L.length - k)) (v := v) (hsplit ▸ hP)
  refine ⟨L.drop (L.length - k), v', hP', (List.drop_sublist _ _).nodup hN, by simp; omega, ?_⟩
  intro p hp
  exact hsub p (List.mem_of_mem_drop hp)

/-- **the wedge case**: a wedge alternation of `k² + 2` pairs in a configuration without proper interval and
    without proper pin sequence of `k` points gives a wedge permutation of index `k` of the first or of the second
    kind -/
theorem wedge_case (P : List Pt) (hG : Good P) (k : Nat) (hk : 1 ≤ k) (hno : ¬ HasPinCfg P k) (M : Nat)
    (hM : k * k + 2 ≤ M) (l u : Nat → Pt) (hW : WedgeR P M l u) : Outcome P k := by
  have hM2 : 2 ≤ M := by omega
  -- starting points, rightmost point
  have h1P := hW.lmem 0 (by omega)
  have h2P := hW.umem 0 (by omega)
  have hne : u 0 ≠ l 0 := by
    intro h
    have := hW.lu 0 (by omega)
    rw [h] at this
    exact absurd this (by grind)
  obtain ⟨r, hr, hrmax⟩ := exists_rightmost P (List.ne_nil_of_mem h1P)
  have hu1r : (u 1).1 ≤ r.1 := hrmax _ (hW.umem 1 (by omega))
  have h01 : (u 0).1 < (u 1).1 := by simpa using hW.ux_mono 1 0 (by omega) (by omega)
  have hl0 : (l 0).1 < (u 0).1 := hW.lu 0 (by omega)
  have hr2 : r ≠ u 0 := by intro h; rw [h] at hu1r; grind
  have hr1 : r ≠ l 0 := by intro h; rw [h] at hu1r; grind
  have hreach := extreme_reached P hG.simple hG.xnd hG.ynd (u 0) (l 0) h2P h1P hne r hr true
    (Or.inl (by intro s hs; simpa [co] using hrmax s hs))
  obtain ⟨L', hL⟩ := reached_newest hreach hr2 hr1
  obtain ⟨mid, hmid⟩ := hL.2.1
  -- the sequence is short
  have hlen : mid.length + 2 < k := by
    apply Classical.byContradiction
    intro hlong
    obtain ⟨v, hP⟩ := hL.1
    apply hno
    exact hasPinCfg_of_long hP hL.2.2.1 hL.2.2.2 (by rw [hmid]; simp; omega)
  -- along the sequence, the captured part of the wedge grows by fewer than `k` pairs per pin
  have key : ∀ (m : List Pt), ProperFrom P (u 0) (l 0) (m ++ [u 0, l 0]) → 1 + m.length * k + k < M →
      Outcome P k ∨ NotCap l u (m ++ [u 0, l 0]) (1 + m.length * k) := by
    intro m
    induction m with
    | nil =>
      intro _ _
      right
      intro a ha
      simp only [List.nil_append, List.mem_cons, List.not_mem_nil, or_false] at ha
      have e1 := hW.uy_mono 1 0 (by omega) (by omega)
      have e2 := hW.ly_mono 1 0 (by omega) (by omega)
      have e3 := hW.apex (by omega)
      have e4 := hW.ul 0 (by omega)
      have e5 := hW.lu 1 (by omega)
      simp only [Nat.zero_add, List.length_nil, Nat.zero_mul, Nat.add_zero] at e1 e2 ⊢
      rcases ha with rfl | rfl
      · exact ⟨by grind, by grind, by grind⟩
      · exact ⟨by grind, by grind, by grind⟩
    | cons p m ih =>
      intro hPF hb
      obtain ⟨⟨v, hP⟩, _, hN, hsub⟩ := hPF
      simp only [List.length_cons] at hb ⊢
      have hb' : 1 + m.length * k + k < M := by
        have : (m.length + 1) * k = m.length * k + k := by rw [Nat.add_mul, Nat.one_mul]
        omega
      have hJ : 1 + (m.length + 1) * k = 1 + m.length * k + k := by rw [Nat.add_mul, Nat.one_mul]; omega
      obtain ⟨q, rest, hqr, hrest⟩ : ∃ q rest, m ++ [u 0, l 0] = q :: rest ∧ rest ≠ [] := by
        cases m with
        | nil => exact ⟨u 0, [l 0], rfl, by simp⟩
        | cons a m' => exact ⟨a, m' ++ [u 0, l 0], rfl, by simp⟩
      have hLe : (p :: m) ++ [u 0, l 0] = p :: q :: rest := by rw [← hqr]; rfl
      have htail : ProperFrom P (u 0) (l 0) (m ++ [u 0, l 0]) := by
        rw [hLe] at hP hN hsub
        refine ⟨⟨!v, ?_⟩, ⟨m, rfl⟩, ?_, ?_⟩
        · rw [hqr]; exact pinSeqA_tail hP
        · rw [hqr]; exact (List.nodup_cons.mp hN).2
        · rw [hqr]; exact fun a ha => hsub a (List.mem_cons_of_mem _ ha)
      rcases ih htail hb' with hout | hnc
      · exact Or.inl hout
      · -- the new pin
        obtain ⟨J, hJdef⟩ : ∃ J, J = 1 + m.length * k := ⟨_, rfl⟩
        rw [← hJdef] at hnc hb'
        set A := m ++ [u 0, l 0] with hA
        have hpP : p ∈ P := hsub p (by simp)
        have hpin : IsPin v A p := by
          rw [hLe, pinSeqA_cons hrest] at hP
          rw [hqr]; exact isPin_of_sepA hrest hP.1
        have hpA : p ∉ A := by
          have := hN; rw [List.cons_append] at this; exact (List.nodup_cons.mp this).1
        have hAP : ∀ a ∈ A, a ∈ P := fun a ha => hsub a (by rw [List.cons_append]; exact List.mem_cons_of_mem _ ha)
        have hcne : ∀ a ∈ A, ∀ w, co w p ≠ co w a := fun a ha w =>
          coord_ne hG.xnd hG.ynd hpP (hAP a ha) (fun h => hpA (h ▸ ha)) w
        have hmono := NotCap.mono hW hnc (show J ≤ J + k by omega) (by omega)
        have hAne : ∃ a, a ∈ A := ⟨l 0, by simp [hA]⟩
        rw [hJ, ← hJdef]
        -- it suffices to treat the new point
        suffices hp : Outcome P k ∨ (p.1 < (u (J + k)).1 ∧ p.2 < (u (J + k)).2 ∧ (l (J + k)).2 < p.2) by
          rcases hp with h | h
          · exact Or.inl h
          · right
            intro a ha
            rw [List.cons_append] at ha
            rcases List.mem_cons.mp ha with rfl | ha
            · exact h
            · exact hmono a ha
        obtain ⟨⟨a1, ha1, hle1⟩, ⟨a2, ha2, hle2⟩⟩ := hpin.1
        have n1 := hnc a1 ha1
        have n2 := hnc a2 ha2
        have m1 := hmono a1 ha1
        have m2 := hmono a2 ha2
        cases v with
        | false =>
          -- a left or right pin: in the range of ordinates
          simp only [co, Bool.false_eq_true, if_false] at hle1 hle2
          have hy : p.2 < (u (J + k)).2 ∧ (l (J + k)).2 < p.2 := ⟨by grind, by grind⟩
          by_cases hx : p.1 < (u (J + k)).1
          · exact Or.inr ⟨hx, hy⟩
          · left
            -- first kind
            have hux : ∀ j, j < k → (u (J + j)).1 < p.1 := by
              intro j hj
              have := hW.ux_mono (k - j) (J + j) (by omega) (by omega)
              rw [show J + j + (k - j) = J + k by omega] at this
              grind
            have hlit : LitW1 k (fun j => l (J + j)) (fun j => u (J + j)) p := by
              refine ⟨fun j hj => hW.lu (J + j) (by omega), fun j hj => hW.ul (J + j) (by omega), hux,
                fun j hj => ⟨hW.ldec (J + j) (by omega), hW.uinc (J + j) (by omega)⟩, fun _ => ?_⟩
              simp only [Nat.add_zero]
              exact ⟨by grind, by grind⟩
            refine ⟨w1List k (fun j => l (J + j)) (fun j => u (J + j)) p, [], C16Fam.wedge1 k, ?_,
              litW1_nodup k _ _ _ hlit, ?_, Or.inr (Or.inl rfl)⟩
            · intro s hs
              rcases mem_w1List hs with ⟨j, hj, rfl | rfl⟩ | rfl
              · exact hW.lmem (J + j) (by omega)
              · exact hW.umem (J + j) (by omega)
              · exact hpP
            · rw [map_applyAll_nil]; exact litW1_perm k _ _ _ hlit
        | true =>
          -- an up or down pin: in the range of abscissae, beyond in ordinates
          simp only [co, if_true] at hle1 hle2
          have hx : p.1 < (u (J + k)).1 := by grind
          have hne1 : p.1 ≠ a1.1 := by simpa [co] using hcne a1 ha1 true
          have ha1x : a1.1 < p.1 := by grind
          have hext := hpin.2
          simp only [Extr, co, Bool.not_true, Bool.false_eq_true, if_false] at hext
          -- everything beyond pair `J` lies to the right of `p`
          have hright_u : ∀ j, J ≤ j → j < M → p.1 < (u j).1 := by
            intro j hj hjM
            have := hW.ux_le hj hjM
            grind
          have hright_l : ∀ j, J + 1 ≤ j → j < M → p.1 < (l j).1 := by
            intro j hj hjM
            have e1 := hW.ul (j - 1) (by omega)
            rw [show j - 1 + 1 = j by omega] at e1
            have := hright_u (j - 1) (by omega) (by omega)
            grind
          rcases hext with hup | hdown
          · -- up pin
            have hly : (l (J + k)).2 < p.2 := by have := hup a1 ha1; grind
            by_cases hy : p.2 < (u (J + k)).2
            · exact Or.inr ⟨hx, hy, hly⟩
            · left
              have hne2 : p.2 ≠ (u (J + k)).2 := by
                have hpu : p ≠ u (J + k) := by
                  intro h; rw [h] at hx; exact absurd hx (by grind)
                simpa [co] using coord_ne hG.xnd hG.ynd hpP (hW.umem _ (by omega)) hpu false
              have htop : (u (J + k)).2 < p.2 := by grind
              refine outcome_w2_up P k hk [] a1 p (fun j => u (J + 1 + j)) (fun i => l (J + 2 + i))
                (hAP a1 ha1) hpP (fun j hj => hW.umem _ (by omega)) (fun i hi => hW.lmem _ (by omega))
                ?_ ?_ ?_ ?_ ?_ ?_ ?_ ?_
              · simpa [applyAll_nil] using ha1x
              · intro j hj; simp only [applyAll_nil]; exact hright_u _ (by omega) (by omega)
              · intro i hi
                simp only [applyAll_nil]
                have e1 := hW.ul (J + 1 + i) (by omega)
                have e2 := hW.lu (J + 2 + i) (by omega)
                rw [show J + 1 + i + 1 = J + 2 + i by omega] at e1
                rw [show J + 1 + (i + 1) = J + 2 + i by omega]
                exact ⟨e1, e2⟩
              · intro i j hij hj
                simp only [applyAll_nil]
                have := hW.uy_mono (j - i) (J + 1 + i) (by omega) (by omega)
                rwa [show J + 1 + i + (j - i) = J + 1 + j by omega] at this
              · intro i j hij hj
                simp only [applyAll_nil]
                have := hW.ly_mono (j - i) (J + 2 + i) (by omega) (by omega)
                rwa [show J + 2 + i + (j - i) = J + 2 + j by omega] at this
              · intro i hi
                simp only [applyAll_nil]
                have := hW.ly_le (show J ≤ J + 2 + i by omega) (by omega)
                grind
              · intro j hj
                simp only [applyAll_nil]
                have := hW.uy_le (show J ≤ J + 1 + j by omega) (by omega)
                grind
              · intro j hj
                simp only [applyAll_nil]
                have := hW.uy_le (show J + 1 + j ≤ J + k by omega) (by omega)
                grind
          · -- down pin
            have huy : p.2 < (u (J + k)).2 := by have := hdown a1 ha1; grind
            by_cases hy : (l (J + k)).2 < p.2
            · exact Or.inr ⟨hx, huy, hy⟩
            · left
              have hne2 : p.2 ≠ (l (J + k)).2 := by
                have hpl : p ≠ l (J + k) := by
                  intro h
                  have := hright_l (J + k) (by omega) (by omega)
                  rw [← h] at this
                  exact absurd this (by grind)
                simpa [co] using coord_ne hG.xnd hG.ynd hpP (hW.lmem _ (by omega)) hpl false
              have hbot : p.2 < (l (J + k)).2 := by grind
              have hny : ∀ s : Pt, applyAll [Gen.ny] s = (s.1, -s.2) := fun s => rfl
              refine outcome_w2_up P k hk [Gen.ny] a1 p (fun j => l (J + 1 + j)) (fun i => u (J + 1 + i))
                (hAP a1 ha1) hpP (fun j hj => hW.lmem _ (by omega)) (fun i hi => hW.umem _ (by omega))
                ?_ ?_ ?_ ?_ ?_ ?_ ?_ ?_
              · simpa [hny] using ha1x
              · intro j hj; simp only [hny]; exact hright_l _ (by omega) (by omega)
              · intro i hi
                simp only [hny]
                have e1 := hW.lu (J + 1 + i) (by omega)
                have e2 := hW.ul (J + 1 + i) (by omega)
                rw [show J + 1 + i + 1 = J + 1 + (i + 1) by omega] at e2
                exact ⟨e1, e2⟩
              · intro i j hij hj
                simp only [hny]
                have := hW.ly_mono (j - i) (J + 1 + i) (by omega) (by omega)
                rw [show J + 1 + i + (j - i) = J + 1 + j by omega] at this
                grind
              · intro i j hij hj
                simp only [hny]
                have := hW.uy_mono (j - i) (J + 1 + i) (by omega) (by omega)
                rw [show J + 1 + i + (j - i) = J + 1 + j by omega] at this
                grind
              · intro i hi
                simp only [hny]
                have := hW.uy_le (show J ≤ J + 1 + i by omega) (by omega)
                grind
              · intro j hj
                simp only [hny]
                have := hW.ly_le (show J ≤ J + 1 + j by omega) (by omega)
                grind
              · intro j hj
                simp only [hny]
                have := hW.ly_le (show J + 1 + j ≤ J + k by omega) (by omega)
                grind
  -- the rightmost point is captured at the end: contradiction unless an outcome was found
  have hbound : 1 + mid.length * k + k < M := by
    have h1 : mid.length ≤ k - 3 := by omega
    have h2 : mid.length * k ≤ (k - 3) * k := Nat.mul_le_mul_right _ h1
    have h3 : (k - 3) * k + 3 * k = k * k := by
      rw [← Nat.add_mul]; congr 1; omega
    omega
  rcases key mid (hmid ▸ hL) hbound with hout | hnc
  · exact hout
  · exfalso
    have hrmem : r ∈ mid ++ [u 0, l 0] := by rw [← hmid]; simp
    have := (hnc r hrmem).1
    have := hrmax _ (hW.umem (1 + mid.length * k) (by omega))
    grind

end C16P
