import PermutaModel.Lemmas.MeshCount
import Mathlib.Data.List.Perm.Basic
/-! The occurrence values listed by pattern value (`valAt π σ c v`, `v = 0 … k-1`) form a strictly
    increasing list which is a rearrangement of the occurrence values listed by position. -/

namespace MeshLemmas

/-- occurrence values in increasing order: the value playing pattern value `v`, for `v = 0 … k-1` -/
def wList (π σ : NSeq) (c : List Nat) : List Nat := (List.range π.length).map (Spec.valAt π σ c)

theorem isPerm_perm_range {π : NSeq} (hπ : IsPerm π) : π.Perm (List.range π.length) := by
  rw [List.perm_ext_iff_of_nodup hπ.1 List.nodup_range]
  intro a
  rw [List.mem_range]
  constructor
  · exact hπ.2 a
  · intro h
    obtain ⟨i, hi, hia⟩ := hπ.surj h
    rw [← hia]; exact getD_mem hi

theorem idxOf_getD {π : NSeq} (hπ : IsPerm π) {a : Nat} (ha : a < π.length) : π.idxOf (π.getD a 0) = a := by
  rw [getD_eq_getElem π a ha]
  exact List.Nodup.idxOf_getElem hπ.1 a ha

theorem idxOf_spec {π : NSeq} (hπ : IsPerm π) {v : Nat} (hv : v < π.length) :
    π.idxOf v < π.length ∧ π.getD (π.idxOf v) 0 = v := by
  obtain ⟨a, ha, hav⟩ := hπ.surj hv
  rw [← hav, idxOf_getD hπ ha]
  exact ⟨ha, rfl⟩

theorem valAt_pattern {π σ : NSeq} {c : List Nat} (hπ : IsPerm π) {a : Nat} (ha : a < π.length) :
    Spec.valAt π σ c (π.getD a 0) = σ.getD (c.getD a 0) 0 := by
  unfold Spec.valAt; rw [idxOf_getD hπ ha]

theorem pick_eq_map_valAt {π σ : NSeq} {c : List Nat} (hπ : IsPerm π) (hc : c.length = π.length) :
    Spec.pick σ c = π.map (Spec.valAt π σ c) := by
  apply List.ext_getElem
  · simp [Spec.pick, hc]
  · intro a h1 h2
    have ha : a < π.length := by simpa using h2
    have hac : a < c.length := by omega
    simp only [Spec.pick, List.getElem_map]
    rw [← getD_eq_getElem π a ha, valAt_pattern hπ ha, getD_eq_getElem c a hac]

theorem pick_perm_wList {π σ : NSeq} {c : List Nat} (hπ : IsPerm π) (hc : c.length = π.length) :
    (Spec.pick σ c).Perm (wList π σ c) := by
  rw [pick_eq_map_valAt hπ hc]
  exact (isPerm_perm_range hπ).map _

theorem valAt_lt {π σ : NSeq} {c : List Nat} (hπ : IsPerm π) (hocc : IsOcc π σ c) {u v : Nat} (huv : u < v)
    (hv : v < π.length) : Spec.valAt π σ c u < Spec.valAt π σ c v := by
  obtain ⟨hau, heu⟩ := idxOf_spec hπ (show u < π.length by omega)
  obtain ⟨hav, hev⟩ := idxOf_spec hπ hv
  unfold Spec.valAt
  apply (hocc.iso _ _ hau hav).mp
  rw [heu, hev]; exact huv

theorem wList_length (π σ : NSeq) (c : List Nat) : (wList π σ c).length = π.length := by simp [wList]

theorem wList_getD {π σ : NSeq} {c : List Nat} {v : Nat} (hv : v < π.length) (d : Nat) :
    (wList π σ c).getD v d = Spec.valAt π σ c v := by
  simp [wList, List.getD_eq_getElem?_getD, hv]

theorem wList_sorted {π σ : NSeq} {c : List Nat} (hπ : IsPerm π) (hocc : IsOcc π σ c) :
    (wList π σ c).Pairwise (· < ·) := by
  unfold wList
  rw [List.pairwise_map]
  have h : (List.range π.length).Pairwise (fun a b => a < b ∧ b < π.length) := by
    have h1 := List.pairwise_lt_range (n := π.length)
    have h2 : ∀ b ∈ List.range π.length, b < π.length := fun b hb => List.mem_range.mp hb
    exact (List.pairwise_and_iff.mpr ⟨h1, List.pairwise_of_forall_mem_list (fun a _ b hb => h2 b hb)⟩)
  exact h.imp (fun hab => valAt_lt hπ hocc hab.1 hab.2)

/-- the second coordinate of a cell, computed over the sorted occurrence values -/
theorem countVal_eq {π σ : NSeq} {c : List Nat} (hπ : IsPerm π) (hc : c.length = π.length) (e : Nat) :
    (c.filter fun j => σ.getD j 0 < e).length = ((wList π σ c).filter (· < e)).length := by
  rw [← filter_pick_length]
  exact ((pick_perm_wList hπ hc).filter _).length_eq

theorem mem_wList_iff {π σ : NSeq} {c : List Nat} (hπ : IsPerm π) (hc : c.length = π.length) (e : Nat) :
    e ∈ wList π σ c ↔ e ∈ Spec.pick σ c := (pick_perm_wList hπ hc).mem_iff.symm

end MeshLemmas
