import PermutaModel.Lemmas.C18Plot

/-! `ascii_plot(cell_size)` can be parsed back for every cell size `c + 1 ≥ 1`. -/

namespace Model.C18
open Proto (Err)

/-! ### a separator `x^(c+1)` is the separator `x` around `c` empty pieces -/

/-- `c` empty pieces between any two consecutive pieces -/
def pad {α : Type} (c : Nat) : List (List α) → List (List α)
  | [] => []
  | [a] => [a]
  | a :: b :: t => a :: (List.replicate c [] ++ pad c (b :: t))

theorem pad_ne_nil {α : Type} (c : Nat) (a : List α) (t : List (List α)) : pad c (a :: t) ≠ [] := by
  cases t <;> simp [pad]

theorem intercalate_replicate_nil_append {α : Type} (x : α) (l : List α) (t : List (List α)) :
    ∀ c, [x].intercalate (List.replicate c [] ++ l :: t) = List.replicate c x ++ [x].intercalate (l :: t)
  | 0 => by simp
  | c + 1 => by
    rw [List.replicate_succ, List.cons_append, List.intercalate_cons_of_ne_nil (by simp),
      intercalate_replicate_nil_append x l t c]
    simp [List.replicate_succ]

theorem intercalate_pad {α : Type} (x : α) (c : Nat) :
    ∀ ls : List (List α), [x].intercalate (pad c ls) = (List.replicate (c + 1) x).intercalate ls
  | [] => by simp [pad]
  | [a] => by simp [pad]
  | a :: b :: t => by
    have ih := intercalate_pad x c (b :: t)
    rw [pad, List.intercalate_cons_of_ne_nil (by
      intro h
      have := congrArg List.length h
      simp only [List.length_append, List.length_replicate, List.length_nil] at this
      have h2 : (pad c (b :: t)).length ≠ 0 := by
        intro h3; exact pad_ne_nil c b t (List.length_eq_zero_iff.mp h3)
      omega)]
    obtain ⟨l, t', hlt⟩ : ∃ l t', pad c (b :: t) = l :: t' := by
      cases h : pad c (b :: t) with
      | nil => exact absurd h (pad_ne_nil c b t)
      | cons l t' => exact ⟨l, t', rfl⟩
    rw [hlt, intercalate_replicate_nil_append, ← hlt, ih, List.intercalate_cons_cons]
    simp [List.replicate_succ]

theorem pad_getElem? {α : Type} (c : Nat) :
    ∀ (ls : List (List α)) (i : Nat), (pad c ls)[(c + 1) * i]? = ls[i]?
  | [], i => by simp [pad]
  | [a], 0 => by simp [pad]
  | [a], i + 1 => by
    have : (c + 1) * (i + 1) = ((c + 1) * i + c) + 1 := by rw [Nat.mul_succ]; omega
    rw [this]; simp [pad]
  | a :: b :: t, 0 => by simp [pad]
  | a :: b :: t, i + 1 => by
    have : (c + 1) * (i + 1) = ((c + 1) * i + c) + 1 := by rw [Nat.mul_succ]; omega
    rw [this, pad, List.getElem?_cons_succ, List.getElem?_append_right (by simp),
      List.length_replicate, show (c + 1) * i + c - c = (c + 1) * i by omega,
      pad_getElem? c (b :: t) i]
    simp

theorem mem_pad {α : Type} (c : Nat) : ∀ (ls : List (List α)) (l : List α), l ∈ pad c ls → l = [] ∨ l ∈ ls
  | [], l, h => by simp [pad] at h
  | [a], l, h => by simp [pad] at h; exact Or.inr (by simp [h])
  | a :: b :: t, l, h => by
    rw [pad] at h
    simp only [List.mem_cons, List.mem_append, List.mem_replicate] at h
    rcases h with rfl | ⟨_, rfl⟩ | h
    · exact Or.inr (by simp)
    · exact Or.inl rfl
    · rcases mem_pad c (b :: t) l (by simpa using h) with h | h
      · exact Or.inl h
      · exact Or.inr (List.mem_cons_of_mem _ h)

/-- splitting at `x` a list of `x`-free pieces joined by `x^(c+1)`: piece `i` is found at index
    `(c+1)·i` -/
theorem splitOn_intercalate_replicate (x : Char) (c : Nat) (ls : List (List Char)) (hls : ls ≠ [])
    (hx : ∀ l ∈ ls, x ∉ l) (i : Nat) :
    (((List.replicate (c + 1) x).intercalate ls).splitOn x)[(c + 1) * i]? = ls[i]? := by
  rw [← intercalate_pad, List.splitOn_intercalate, pad_getElem?]
  · intro l hl
    rcases mem_pad c ls l hl with rfl | h
    · simp
    · exact hx l h
  · cases ls with
    | nil => exact absurd rfl hls
    | cons a t => exact pad_ne_nil c a t

/-! ### the rows -/

theorem rowsLK_length (m : Mesh) (c : Nat) : ∀ k, (rowsL m (c + 1) k).length = (c + 2) * k + (c + 1)
  | 0 => by simp [rowsL]
  | k + 1 => by
    simp only [rowsL, List.length_append, List.length_replicate, List.length_cons, List.length_nil,
      rowsLK_length m c k, Nat.mul_succ]
    omega

theorem rowsLK_succ (m : Mesh) (c k : Nat) :
    rowsL m (c + 1) (k + 1) =
      vrowL m (c + 1) (k + 1) :: (List.replicate c (vrowL m (c + 1) (k + 1)) ++
        hrowL m (c + 1) k :: rowsL m (c + 1) k) := by
  simp [rowsL, List.replicate_succ]

/-- text row `j·(c+2)` is (the first copy of) cell row `k - j` -/
theorem rowsLK_v (m : Mesh) (c : Nat) :
    ∀ k j, j ≤ k → (rowsL m (c + 1) k).getD (j * (c + 2)) [] = vrowL m (c + 1) (k - j)
  | 0, j, h => by
    have : j = 0 := by omega
    subst this; simp [rowsL, List.replicate_succ]
  | k + 1, 0, _ => by rw [rowsLK_succ]; simp
  | k + 1, j + 1, h => by
    have ih := rowsLK_v m c k j (by omega)
    rw [List.getD_eq_getElem?_getD] at ih ⊢
    rw [rowsLK_succ, show (j + 1) * (c + 2) = (j * (c + 2) + c + 1) + 1 by rw [Nat.succ_mul]; omega,
      List.getElem?_cons_succ, List.getElem?_append_right (by simp only [List.length_replicate]; omega), List.length_replicate,
      show j * (c + 2) + c + 1 - c = j * (c + 2) + 1 by omega, List.getElem?_cons_succ, ih]
    congr 1; omega

/-- text row `j·(c+2) + (c+1)` is the grid line through value `k - 1 - j` -/
theorem rowsLK_h (m : Mesh) (c : Nat) :
    ∀ k j, j < k → (rowsL m (c + 1) k).getD (j * (c + 2) + (c + 1)) [] = hrowL m (c + 1) (k - 1 - j)
  | 0, j, h => by omega
  | k + 1, 0, _ => by
    rw [List.getD_eq_getElem?_getD, rowsLK_succ, show 0 * (c + 2) + (c + 1) = c + 1 by omega,
      List.getElem?_cons_succ, List.getElem?_append_right (by simp), List.length_replicate]
    simp
  | k + 1, j + 1, h => by
    have ih := rowsLK_h m c k j (by omega)
    rw [List.getD_eq_getElem?_getD] at ih ⊢
    rw [rowsLK_succ,
      show (j + 1) * (c + 2) + (c + 1) = (j * (c + 2) + (c + 1) + c + 1) + 1 by rw [Nat.succ_mul]; omega,
      List.getElem?_cons_succ, List.getElem?_append_right (by simp only [List.length_replicate]; omega), List.length_replicate,
      show j * (c + 2) + (c + 1) + c + 1 - c = j * (c + 2) + (c + 1) + 1 by omega,
      List.getElem?_cons_succ, ih]
    congr 1; omega

theorem not_mem_repL {x : Char} {l : List Char} (h : x ∉ l) (n : Nat) : x ∉ repL n l := by
  unfold repL
  intro hx
  rw [List.mem_flatten] at hx
  obtain ⟨l', hl', hx⟩ := hx
  rw [List.mem_replicate] at hl'
  rw [hl'.2] at hx
  exact h hx

theorem not_mem_vrowLK (m : Mesh) (cs i : Nat) {x : Char} (h0 : x ≠ '|') (h1 : x ≠ '▒') (h2 : x ≠ ' ') :
    x ∉ vrowL m cs i := by
  unfold vrowL
  apply not_mem_intercalate (by simpa using h0)
  intro l hl
  rw [List.mem_map] at hl
  obtain ⟨j, _, rfl⟩ := hl
  exact not_mem_repL (not_mem_fill m _ h1 h2) _

theorem not_mem_hrowLK (m : Mesh) (cs v : Nat) {x : Char} (h0 : x ≠ '-') (h1 : x ≠ '●') (h2 : x ≠ '+') :
    x ∉ hrowL m cs v := by
  unfold hrowL
  refine not_mem_intercalate ?_ (hrow_pieces_no m v h1 h2)
  intro h
  exact h0 (List.eq_of_mem_replicate h)

theorem rowsLK_no_newline (m : Mesh) (cs : Nat) : ∀ k, ∀ r ∈ rowsL m cs k, '\n' ∉ r
  | 0, r, hr => by
    rw [rowsL, List.mem_replicate] at hr
    rw [hr.2]; exact not_mem_vrowLK m cs 0 (by decide) (by decide) (by decide)
  | k + 1, r, hr => by
    rw [rowsL] at hr
    simp only [List.mem_append, List.mem_replicate, List.mem_singleton] at hr
    rcases hr with (⟨_, rfl⟩ | rfl) | hr
    · exact not_mem_vrowLK m cs _ (by decide) (by decide) (by decide)
    · exact not_mem_hrowLK m cs _ (by decide) (by decide) (by decide)
    · exact rowsLK_no_newline m cs k r hr

theorem split_plotK (m : Mesh) (c : Nat) :
    (['\n'].intercalate (rowsL m (c + 1) (mlen m))).splitOn '\n' = rowsL m (c + 1) (mlen m) := by
  apply List.splitOn_intercalate _ (rowsLK_no_newline m (c + 1) (mlen m))
  intro h
  have := rowsLK_length m c (mlen m)
  rw [h] at this; simp at this

theorem split_vrowLK (m : Mesh) (cs i : Nat) :
    (vrowL m cs i).splitOn '|' = (List.range (mlen m + 1)).map fun j => repL cs (fillCharL m (j, i)) := by
  unfold vrowL
  apply List.splitOn_intercalate
  · intro l hl
    rw [List.mem_map] at hl
    obtain ⟨j, _, rfl⟩ := hl
    exact not_mem_repL (not_mem_fill m _ (by decide) (by decide)) _
  · simp

/-- a cell's piece starts with the shading character exactly when the cell is shaded -/
theorem repL_fill_head (m : Mesh) (c : Nat) (cell : Cell) :
    ((repL (c + 1) (fillCharL m cell)).head? == some '▒') = true ↔ cell ∈ m.shading := by
  rw [← fillCharL_head]
  rcases fillCharL_cases m cell with h | h | h <;> rw [h] <;> simp [repL, List.replicate_succ]

/-- the `(j+1)`-st piece of a grid line -/
theorem split_hrowLK (m : Mesh) (c v j : Nat) (hj : j < mlen m) :
    ((hrowL m (c + 1) v).splitOn '-').getD ((c + 1) * (j + 1)) [] = markL m v j := by
  unfold hrowL
  rw [List.getD_eq_getElem?_getD, splitOn_intercalate_replicate '-' c _ (by simp)
    (hrow_pieces_no m v (by decide) (by decide)),
    List.append_assoc, List.singleton_append, List.getElem?_cons_succ,
    List.getElem?_append_left (by simpa using hj), List.getElem?_map, List.getElem?_range hj]
  rfl

/-- **round trip, every cell size**: parsing the rendering with cell size `c + 1` of a valid mesh
    pattern gives the pattern back (same underlying permutation, same set of shaded cells) -/
theorem parsePlotL_asciiPlotL_K (m : Mesh) (hm : Spec.C18.ValidMesh m) (c : Nat) :
    ∃ s, asciiPlotL m (c + 1) = .ok s ∧ (parsePlotL s (c + 1)).pattern = m.pattern ∧
      ∀ cell, cell ∈ (parsePlotL s (c + 1)).shading ↔ cell ∈ m.shading := by
  have hn : ((c + 2) * mlen m + (c + 1) - (c + 1)) / (c + 1 + 1) = mlen m := by
    rw [Nat.add_sub_cancel, Nat.mul_comm]; exact Nat.mul_div_cancel _ (by omega)
  refine ⟨['\n'].intercalate (rowsL m (c + 1) (mlen m)), by simp [asciiPlotL], ?_, ?_⟩
  · -- the pattern
    unfold parsePlotL
    simp only [split_plotK, rowsLK_length]
    rw [hn]
    apply List.ext_getElem
    · simp [mlen]
    · intro j h1 h2
      have hj : j < mlen m := by simpa using h1
      rw [List.getElem_map, List.getElem_range]
      have hcond : ∀ k, k < mlen m →
          ((((rowsL m (c + 1) (mlen m)).getD (k * (c + 1 + 1) + (c + 1)) []).splitOn '-').getD
              ((c + 1) * (j + 1)) [] == ['●']) =
            decide (m.pattern.getD j 0 = mlen m - 1 - k) := by
        intro k hk
        rw [rowsLK_h m c _ k hk, split_hrowLK m c _ j hj]
        rw [Bool.eq_iff_iff, markL_eq]; simp
      have hv := hm.1.getD_lt (show j < m.pattern.length from hj)
      have hk0 : mlen m - 1 - m.pattern.getD j 0 < mlen m := by simp only [mlen] at *; omega
      cases hf : (List.range (mlen m)).find? (fun k =>
          (((rowsL m (c + 1) (mlen m)).getD (k * (c + 1 + 1) + (c + 1)) []).splitOn '-').getD
            ((c + 1) * (j + 1)) [] == ['●']) with
      | none =>
        rw [List.find?_eq_none] at hf
        have := hf _ (List.mem_range.mpr hk0)
        rw [hcond _ hk0, decide_eq_true_eq] at this
        exfalso; apply this
        simp only [mlen] at *; omega
      | some k0 =>
        have hp := List.find?_some hf
        have hk0' : k0 < mlen m := List.mem_range.mp (List.mem_of_find?_eq_some hf)
        rw [hcond _ hk0'] at hp
        simp only [decide_eq_true_eq] at hp
        simp only [Option.map_some, Option.getD_some]
        rw [← Spec.C18.getD_eq_getElem' m.pattern h2]
        omega
  · -- the shading
    intro cell
    unfold parsePlotL
    simp only [split_plotK, rowsLK_length]
    rw [hn]
    simp only [List.mem_flatMap, List.mem_range, List.mem_filterMap, Prod.exists,
      List.mem_zipIdx_iff_getElem?]
    constructor
    · rintro ⟨k, hk, f, j, hfj, hif⟩
      rw [rowsLK_v m c _ k (by omega), split_vrowLK] at hfj
      rw [List.getElem?_map] at hfj
      by_cases hj : j < mlen m + 1
      · rw [List.getElem?_range hj] at hfj
        simp only [Option.map_some, Option.some.injEq] at hfj
        subst hfj
        split at hif
        · rename_i hhead
          injection hif with hif
          subst hif
          exact (repL_fill_head m c _).mp hhead
        · cases hif
      · rw [List.getElem?_eq_none (by simpa using hj)] at hfj
        cases hfj
    · intro hc
      have hr := hm.2 cell hc
      refine ⟨mlen m - cell.2, by simp only [mlen] at *; omega,
        repL (c + 1) (fillCharL m (cell.1, cell.2)), cell.1, ?_, ?_⟩
      · rw [rowsLK_v m c _ _ (by omega), split_vrowLK, List.getElem?_map,
          List.getElem?_range (by simp only [mlen] at *; omega)]
        have : mlen m - (mlen m - cell.2) = cell.2 := by simp only [mlen] at *; omega
        rw [this]; rfl
      · rw [if_pos ((repL_fill_head m c _).mpr hc)]
        have : mlen m - (mlen m - cell.2) = cell.2 := by simp only [mlen] at *; omega
        rw [this]

end Model.C18
