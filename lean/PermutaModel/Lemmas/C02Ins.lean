import PermutaModel.Lemmas.C02Bridge
import PermutaModel.Model.C02

/-! C02 helpers, part 3: the end-insertion `appendValue`, its interaction with `removeAt`
    (this is what `acceptable` of `valid_insertions` encodes) and the insertion criterion stated for
    the model's operations. -/
open List Model Model.C02

namespace C02L
open C10L

/-- the hypotheses on a classical basis: what `Basis(...)`/`Av(...)` guarantee -/
structure ValidBasis (b : List NSeq) : Prop where
  ne : b ≠ []
  perm : ∀ p ∈ b, IsPerm p
  pos : ∀ p ∈ b, 1 ≤ p.length

/-- membership in the class `Av(b)` (executable avoidance test of C01) -/
def InAv (b : List NSeq) (σ : NSeq) : Prop := IsPerm σ ∧ Model.avoidsAll σ b = true

theorem InAv_iff {b : List NSeq} (hb : ValidBasis b) {σ : NSeq} (hσ : IsPerm σ) :
    InAv b σ ↔ Avoids b σ := by
  unfold InAv
  rw [avoidsAll_iff_Avoids σ b hσ hb.perm]
  exact and_iff_right hσ

theorem appendValue_eq (π : NSeq) (v : Nat) : appendValue π v = π.map (bump v) ++ [v] := by
  unfold appendValue
  rw [insertAt_eq, List.take_of_length_le (by omega), List.drop_of_length_le (by omega)]
  simp

theorem appendValue_eq_insertAt (π : NSeq) (v : Nat) : appendValue π v = insertAt π π.length v := by
  rw [appendValue_eq, insertAt_eq]; simp

@[simp] theorem length_appendValue (π : NSeq) (v : Nat) : (appendValue π v).length = π.length + 1 := by
  rw [appendValue_eq]; simp

theorem appendValue_isPerm {π : NSeq} (hπ : IsPerm π) {v : Nat} (hv : v ≤ π.length) :
    IsPerm (appendValue π v) := insertAt_isPerm hπ _ hv

theorem bump_lt_iff (v x y : Nat) : x < y ↔ bump v x < bump v y := by
  unfold bump; split_ifs <;> omega

theorem unbump_lt_iff {s x y : Nat} (hx : x ≠ s) (hy : y ≠ s) : x < y ↔ unbump s x < unbump s y := by
  unfold unbump; split_ifs <;> omega

theorem appendValue_inj {π π' : NSeq} {v v' : Nat} (h : appendValue π v = appendValue π' v') :
    π = π' ∧ v = v' := by
  rw [appendValue_eq, appendValue_eq] at h
  obtain ⟨h1, h2⟩ := List.append_inj' h rfl
  have hv : v = v' := by simpa using h2
  subst hv
  refine ⟨?_, rfl⟩
  exact List.map_injective_iff.mpr (fun a b hab => bump_inj hab) h1

/-- every permutation of length `n+1` is its last-entry deletion with the last value re-appended -/
theorem appendValue_removeAt_last {σ : NSeq} (hσ : IsPerm σ) {n : Nat} (hn : σ.length = n + 1) :
    appendValue (removeAt σ n) (σ.getD n 0) = σ := by
  have hl := length_removeAt hσ.1 (i := n) (by omega)
  rw [appendValue_eq_insertAt, hl, hn]
  exact insertAt_removeAt hσ.1 (by omega)

theorem getD_appendValue_lt (π : NSeq) (v : Nat) {i : Nat} (hi : i < π.length) :
    (appendValue π v).getD i 0 = bump v (π.getD i 0) := by
  rw [appendValue_eq, List.getD_append _ _ _ _ (by simpa using hi)]
  rw [getD_eq_getElem' (p := π.map (bump v)) (by simpa using hi), getD_eq_getElem' hi]; simp

/-- `removeAt` is `eraseIdx` followed by the gap-closing relabelling -/
theorem removeAt_eq_eraseIdx {σ : NSeq} (hn : σ.Nodup) {i : Nat} (hi : i < σ.length) :
    removeAt σ i = (σ.eraseIdx i).map (unbump (σ.getD i 0)) := by
  rw [removeAt_eq, removeElement_eq, filter_ne_getD hn hi, List.eraseIdx_eq_take_drop_succ]

theorem mem_eraseIdx_ne {σ : NSeq} (hn : σ.Nodup) {i : Nat} (hi : i < σ.length) {x : Nat}
    (hx : x ∈ σ.eraseIdx i) : x ≠ σ.getD i 0 := by
  rw [List.eraseIdx_eq_take_drop_succ, ← filter_ne_getD hn hi] at hx
  simpa using (List.mem_filter.mp hx).2

theorem Avoids_removeAt_iff (B : List NSeq) {σ : NSeq} (hn : σ.Nodup) {i : Nat} (hi : i < σ.length) :
    Avoids B (removeAt σ i) ↔ Avoids B (σ.eraseIdx i) := by
  rw [removeAt_eq_eraseIdx hn hi]
  apply Avoids_map_iff
  intro x hx y hy
  exact unbump_lt_iff (mem_eraseIdx_ne hn hi hx) (mem_eraseIdx_ne hn hi hy)

/-- the re-indexed value of line 164-165: deleting position `i` of `π·v` gives `(del_i π)·v'` -/
def shiftVal (v t : Nat) : Nat := if v ≤ t then v else v - 1

theorem removeAt_appendValue {π : NSeq} {v i : Nat} (hi : i < π.length) :
    removeAt (appendValue π v) i = appendValue (removeAt π i) (shiftVal v (π.getD i 0)) := by
  rw [removeAt_eq, getD_appendValue_lt π v hi, removeAt_eq, removeElement_eq, removeElement_eq,
    appendValue_eq, appendValue_eq]
  generalize π.getD i 0 = t
  rw [List.filter_append, List.map_append, List.filter_map, List.map_map, List.map_map]
  have hv : ([v].filter fun x => x != bump v t) = [v] := by
    have := bump_ne v t
    simp [Ne.symm this]
  have hf : π.filter ((fun x => x != bump v t) ∘ bump v) = π.filter (fun x => x != t) := by
    apply List.filter_congr
    intro w _
    by_cases hw : w = t
    · subst hw; simp
    · have : bump v w ≠ bump v t := fun h => hw (bump_inj h)
      simp only [Function.comp]
      rw [(bne_iff_ne).mpr this, (bne_iff_ne).mpr hw]
  rw [hv, hf]
  congr 1
  · apply List.map_congr_left
    intro w hw
    have hw' : w ≠ t := by simpa using (List.mem_filter.mp hw).2
    simp only [Function.comp, bump, unbump, shiftVal]
    split_ifs <;> omega
  · simp only [List.map_cons, List.map_nil, bump, unbump, shiftVal]
    split_ifs <;> first | rfl | (congr 1; omega)

theorem shiftVal_le {π : NSeq} (hπ : IsPerm π) {v i : Nat} (hi : i < π.length) (hv : v ≤ π.length) :
    shiftVal v (π.getD i 0) ≤ (removeAt π i).length := by
  rw [(removeAt_isPerm hπ hi).2]
  have := hπ.getD_lt hi
  unfold shiftVal; split_ifs <;> omega

theorem appendValue_nodup {π : NSeq} (hπ : π.Nodup) (v : Nat) : (appendValue π v).Nodup := by
  rw [appendValue_eq]
  apply List.Nodup.append (List.Nodup.map_on (fun x _ y _ h => bump_inj h) hπ) (by simp)
  intro x hx hx'
  obtain ⟨w, _, rfl⟩ := List.mem_map.mp hx
  exact bump_ne v w (by simpa using hx')

/-- **insertion criterion for the model's operations** (on raw `Avoids`) -/
theorem Avoids_appendValue_iff (B : List NSeq) (m : Nat) {π : NSeq} (hπ : π.Nodup) (v : Nat)
    (hm : ∀ b ∈ B, b.length ≤ m) (ha : Avoids B π) :
    Avoids B (appendValue π v) ↔
      (∀ b ∈ B, ¬ OIso b (appendValue π v)) ∧
      (∀ i, π.length - m ≤ i → i < π.length →
        Avoids B (appendValue (removeAt π i) (shiftVal v (π.getD i 0)))) := by
  have ha' : Avoids B (π.map (bump v)) :=
    (Avoids_map_iff B π (bump v) (fun x _ y _ => bump_lt_iff v x y)).mpr ha
  have := insertion_criterion B m (π.map (bump v)) v hm ha'
  rw [← appendValue_eq] at this
  rw [this]
  refine and_congr Iff.rfl ?_
  simp only [List.length_map]
  refine forall_congr' fun i => forall_congr' fun _ => forall_congr' fun hi => ?_
  rw [← removeAt_appendValue hi, Avoids_removeAt_iff B (appendValue_nodup hπ v) (by simp; omega)]

end C02L
