import PermutaModel.Lemmas.C16Fam
import PermutaModel.Lemmas.C04Equiv
import Mathlib.Tactic.IntervalCases
/-!
C16, converse direction, wedge permutations of the first kind: every permutation avoiding the ten
patterns of `Generated.c16_wedge1` embeds into every sufficiently long `C16Fam.wedge1 m`.

Structure: an avoider either has every entry a new minimum/maximum (`IsB`), or its entries before the
last one split into a decreasing part below and an increasing part above the last entry (`IsA`).
-/
open Model

namespace C16Conv.W1
open C04L

theorem getD_inj (x : NSeq) (hx : IsPerm x) (p q : Nat) (hp : p < x.length) (hq : q < x.length)
    (h : x.getD p 0 = x.getD q 0) : p = q := by
  rw [List.getD_eq_getElem?_getD, List.getD_eq_getElem?_getD, List.getElem?_eq_getElem hp,
    List.getElem?_eq_getElem hq] at h
  simp only [Option.getD_some] at h
  exact (List.Nodup.getElem_inj_iff hx.1).mp h

theorem contains4 (x : NSeq) (τ : NSeq) (i j k l : Nat) (h : i < j ∧ j < k ∧ k < l ∧ l < x.length)
    (hτ : τ.length = 4)
    (hiso : ∀ a b, a < 4 → b < 4 →
      (τ.getD a 0 < τ.getD b 0 ↔ x.getD ([i,j,k,l].getD a 0) 0 < x.getD ([i,j,k,l].getD b 0) 0)) :
    Contains x τ := by
  refine ⟨[i,j,k,l], ⟨by simp [hτ], ?_, ?_, ?_⟩⟩
  · simp [StrictInc]; omega
  · simp; omega
  · rw [hτ]; exact hiso

/-- avoidance of the ten patterns, phrased on the value function -/
structure Av (v : Nat → Nat) (n : Nat) : Prop where
  h0132 : ∀ p0 p1 p2 p3, p0 < p1 → p1 < p2 → p2 < p3 → p3 < n → v p0 < v p1 → v p1 < v p3 → v p3 < v p2 → False
  h0213 : ∀ p0 p1 p2 p3, p0 < p1 → p1 < p2 → p2 < p3 → p3 < n → v p0 < v p2 → v p2 < v p1 → v p1 < v p3 → False
  h0312 : ∀ p0 p1 p2 p3, p0 < p1 → p1 < p2 → p2 < p3 → p3 < n → v p0 < v p2 → v p2 < v p3 → v p3 < v p1 → False
  h0321 : ∀ p0 p1 p2 p3, p0 < p1 → p1 < p2 → p2 < p3 → p3 < n → v p0 < v p3 → v p3 < v p2 → v p2 < v p1 → False
  h1320 : ∀ p0 p1 p2 p3, p0 < p1 → p1 < p2 → p2 < p3 → p3 < n → v p3 < v p0 → v p0 < v p2 → v p2 < v p1 → False
  h2013 : ∀ p0 p1 p2 p3, p0 < p1 → p1 < p2 → p2 < p3 → p3 < n → v p1 < v p2 → v p2 < v p0 → v p0 < v p3 → False
  h3012 : ∀ p0 p1 p2 p3, p0 < p1 → p1 < p2 → p2 < p3 → p3 < n → v p1 < v p2 → v p2 < v p3 → v p3 < v p0 → False
  h3021 : ∀ p0 p1 p2 p3, p0 < p1 → p1 < p2 → p2 < p3 → p3 < n → v p1 < v p3 → v p3 < v p2 → v p2 < v p0 → False
  h3120 : ∀ p0 p1 p2 p3, p0 < p1 → p1 < p2 → p2 < p3 → p3 < n → v p3 < v p1 → v p1 < v p2 → v p2 < v p0 → False
  h3201 : ∀ p0 p1 p2 p3, p0 < p1 → p1 < p2 → p2 < p3 → p3 < n → v p2 < v p3 → v p3 < v p1 → v p1 < v p0 → False

theorem av_of_avoids (x : NSeq) (hav : ∀ τ ∈ Generated.c16_wedge1, ¬ Contains x τ) :
    Av (fun p => x.getD p 0) x.length := by
  constructor
  all_goals
    intro p0 p1 p2 p3 h01 h12 h23 h3 ha hb hc
    simp only [List.getD_eq_getElem?_getD] at ha hb hc
  · refine hav [0,1,3,2] (by simp [Generated.c16_wedge1]) (contains4 x _ p0 p1 p2 p3 ⟨h01, h12, h23, h3⟩ rfl ?_)
    intro a b ha' hb'; interval_cases a <;> interval_cases b <;> simp <;> omega
  · refine hav [0,2,1,3] (by simp [Generated.c16_wedge1]) (contains4 x _ p0 p1 p2 p3 ⟨h01, h12, h23, h3⟩ rfl ?_)
    intro a b ha' hb'; interval_cases a <;> interval_cases b <;> simp <;> omega
  · refine hav [0,3,1,2] (by simp [Generated.c16_wedge1]) (contains4 x _ p0 p1 p2 p3 ⟨h01, h12, h23, h3⟩ rfl ?_)
    intro a b ha' hb'; interval_cases a <;> interval_cases b <;> simp <;> omega
  · refine hav [0,3,2,1] (by simp [Generated.c16_wedge1]) (contains4 x _ p0 p1 p2 p3 ⟨h01, h12, h23, h3⟩ rfl ?_)
    intro a b ha' hb'; interval_cases a <;> interval_cases b <;> simp <;> omega
  · refine hav [1,3,2,0] (by simp [Generated.c16_wedge1]) (contains4 x _ p0 p1 p2 p3 ⟨h01, h12, h23, h3⟩ rfl ?_)
    intro a b ha' hb'; interval_cases a <;> interval_cases b <;> simp <;> omega
  · refine hav [2,0,1,3] (by simp [Generated.c16_wedge1]) (contains4 x _ p0 p1 p2 p3 ⟨h01, h12, h23, h3⟩ rfl ?_)
    intro a b ha' hb'; interval_cases a <;> interval_cases b <;> simp <;> omega
  · refine hav [3,0,1,2] (by simp [Generated.c16_wedge1]) (contains4 x _ p0 p1 p2 p3 ⟨h01, h12, h23, h3⟩ rfl ?_)
    intro a b ha' hb'; interval_cases a <;> interval_cases b <;> simp <;> omega
  · refine hav [3,0,2,1] (by simp [Generated.c16_wedge1]) (contains4 x _ p0 p1 p2 p3 ⟨h01, h12, h23, h3⟩ rfl ?_)
    intro a b ha' hb'; interval_cases a <;> interval_cases b <;> simp <;> omega
  · refine hav [3,1,2,0] (by simp [Generated.c16_wedge1]) (contains4 x _ p0 p1 p2 p3 ⟨h01, h12, h23, h3⟩ rfl ?_)
    intro a b ha' hb'; interval_cases a <;> interval_cases b <;> simp <;> omega
  · refine hav [3,2,0,1] (by simp [Generated.c16_wedge1]) (contains4 x _ p0 p1 p2 p3 ⟨h01, h12, h23, h3⟩ rfl ?_)
    intro a b ha' hb'; interval_cases a <;> interval_cases b <;> simp <;> omega


local macro "av4" h:ident p0:term:max p1:term:max p2:term:max p3:term:max : tactic =>
  `(tactic| first
    | exact ($h).h0132 $p0 $p1 $p2 $p3 (by omega) (by omega) (by omega) (by omega) (by omega) (by omega) (by omega)
    | exact ($h).h0213 $p0 $p1 $p2 $p3 (by omega) (by omega) (by omega) (by omega) (by omega) (by omega) (by omega)
    | exact ($h).h0312 $p0 $p1 $p2 $p3 (by omega) (by omega) (by omega) (by omega) (by omega) (by omega) (by omega)
    | exact ($h).h0321 $p0 $p1 $p2 $p3 (by omega) (by omega) (by omega) (by omega) (by omega) (by omega) (by omega)
    | exact ($h).h1320 $p0 $p1 $p2 $p3 (by omega) (by omega) (by omega) (by omega) (by omega) (by omega) (by omega)
    | exact ($h).h2013 $p0 $p1 $p2 $p3 (by omega) (by omega) (by omega) (by omega) (by omega) (by omega) (by omega)
    | exact ($h).h3012 $p0 $p1 $p2 $p3 (by omega) (by omega) (by omega) (by omega) (by omega) (by omega) (by omega)
    | exact ($h).h3021 $p0 $p1 $p2 $p3 (by omega) (by omega) (by omega) (by omega) (by omega) (by omega) (by omega)
    | exact ($h).h3120 $p0 $p1 $p2 $p3 (by omega) (by omega) (by omega) (by omega) (by omega) (by omega) (by omega)
    | exact ($h).h3201 $p0 $p1 $p2 $p3 (by omega) (by omega) (by omega) (by omega) (by omega) (by omega) (by omega))

/-- the entries before the last one that are below the last entry decrease, those above increase -/
def IsA (v : Nat → Nat) (n : Nat) : Prop :=
  ∀ i j, i < j → j < n - 1 → ¬ (v i < v j ∧ v j < v (n - 1)) ∧ ¬ (v j < v i ∧ v (n - 1) < v j)

/-- every entry is a new minimum or a new maximum -/
def IsB (v : Nat → Nat) (n : Nat) : Prop :=
  ∀ k, k < n → ∀ a b, a < k → b < k → ¬ (v a < v k ∧ v k < v b)

theorem structure_v (v : Nat → Nat) (n : Nat) (hinj : ∀ p q, p < n → q < n → v p = v q → p = q)
    (h : Av v n) : IsA v n ∨ IsB v n := by
  by_cases hB : IsB v n
  · exact Or.inr hB
  left
  unfold IsB at hB
  push Not at hB
  obtain ⟨k, hk, a, b, ha, hb, h1, h2⟩ := hB
  have hne : ∀ p q, p < n → q < n → p ≠ q → v p ≠ v q := fun p q hp hq hpq e => hpq (hinj p q hp hq e)
  have hkL : k = n - 1 := by
    by_contra hkne
    have hkL : k < n - 1 := by omega
    have e1 := hne a (n - 1) (by omega) (by omega) (by omega)
    have e2 := hne b (n - 1) (by omega) (by omega) (by omega)
    have e3 := hne k (n - 1) (by omega) (by omega) (by omega)
    have hab : a ≠ b := by rintro rfl; omega
    rcases Nat.lt_or_gt_of_ne hab with hab | hab <;> rcases Nat.lt_or_gt_of_ne e1 with c1 | c1 <;>
      rcases Nat.lt_or_gt_of_ne e2 with c2 | c2 <;> rcases Nat.lt_or_gt_of_ne e3 with c3 | c3 <;>
      first | omega | av4 h a b k (n - 1) | av4 h b a k (n - 1)
  subst hkL
  intro i j hij hj
  constructor
  · rintro ⟨h3, h4⟩
    have e1 : b ≠ i := by rintro rfl; omega
    have e2 : b ≠ j := by rintro rfl; omega
    by_cases c1 : b < i
    · exact h.h3012 b i j (n - 1) (by omega) (by omega) (by omega) (by omega) (by omega) (by omega) (by omega)
    by_cases c2 : b < j
    · exact h.h0312 i b j (n - 1) (by omega) (by omega) (by omega) (by omega) (by omega) (by omega) (by omega)
    exact h.h0132 i j b (n - 1) (by omega) (by omega) (by omega) (by omega) (by omega) (by omega) (by omega)
  · rintro ⟨h3, h4⟩
    have e1 : a ≠ i := by rintro rfl; omega
    have e2 : a ≠ j := by rintro rfl; omega
    by_cases c1 : a < i
    · exact h.h0321 a i j (n - 1) (by omega) (by omega) (by omega) (by omega) (by omega) (by omega) (by omega)
    by_cases c2 : a < j
    · exact h.h3021 i a j (n - 1) (by omega) (by omega) (by omega) (by omega) (by omega) (by omega) (by omega)
    exact h.h3201 i j a (n - 1) (by omega) (by omega) (by omega) (by omega) (by omega) (by omega) (by omega)


theorem w1_even (m p : Nat) (hp : p < m) : C16Fam.w1Entry m (2 * p) = m - 1 - p := by
  unfold C16Fam.w1Entry
  have h1 : ¬ 2 * p = 2 * m := by omega
  have h2 : 2 * p % 2 = 0 := by omega
  have h3 : 2 * p / 2 = p := by omega
  simp [h1, h2, h3]

theorem w1_odd (m p : Nat) : C16Fam.w1Entry m (2 * p + 1) = m + 1 + p := by
  unfold C16Fam.w1Entry
  have h1 : ¬ 2 * p + 1 = 2 * m := by omega
  have h3 : (2 * p + 1) / 2 = p := by omega
  simp [h1, h3]

theorem w1_last (m : Nat) : C16Fam.w1Entry m (2 * m) = m := by
  simp [C16Fam.w1Entry]

theorem emb_core (x : NSeq) (hx : IsPerm x) (m : Nat) (f : Nat → Nat)
    (hmono : ∀ a b, a < b → b < x.length → f a < f b)
    (hrng : ∀ a, a < x.length → f a < 2 * m + 1)
    (hiso : ∀ p q, p < q → q < x.length →
      (x.getD p 0 < x.getD q 0 ↔ C16Fam.w1Entry m (f p) < C16Fam.w1Entry m (f q))) :
    Contains (C16Fam.wedge1 m) x := by
  rw [contains_iff_emb]
  have hlen : (C16Fam.wedge1 m).length = 2 * m + 1 := by simp [C16Fam.wedge1]
  have hget : ∀ a, a < x.length → (C16Fam.wedge1 m).getD (f a) 0 = C16Fam.w1Entry m (f a) := by
    intro a ha
    exact C16Fam.getD_mapRange _ _ _ (hrng a ha)
  refine ⟨f, hmono, ?_, ?_⟩
  · intro a ha; rw [hlen]; exact hrng a ha
  · intro a b ha hb
    rw [hget a ha, hget b hb]
    rcases Nat.lt_trichotomy a b with hab | hab | hab
    · exact hiso a b hab hb
    · subst hab; simp
    · have h1 := hiso b a hab ha
      have h2 : x.getD b 0 ≠ x.getD a 0 := fun e => by
        have := getD_inj x hx b a hb ha e; omega
      have h3 : C16Fam.w1Entry m (f b) ≠ C16Fam.w1Entry m (f a) := fun e => by
        rw [← hget a ha, ← hget b hb] at e
        have := getD_inj _ (C16Fam.isPerm_wedge1 m) (f b) (f a) (by rw [hlen]; exact hrng b hb)
          (by rw [hlen]; exact hrng a ha) e
        have := hmono b a hab ha
        omega
      omega


open Classical in
theorem emb_B (x : NSeq) (hx : IsPerm x) (m : Nat) (hm : x.length ≤ m)
    (hB : IsB (fun p => x.getD p 0) x.length) : Contains (C16Fam.wedge1 m) x := by
  have hne : ∀ p q, p < x.length → q < x.length → p ≠ q → x.getD p 0 ≠ x.getD q 0 :=
    fun p q hp hq hpq e => hpq (getD_inj x hx p q hp hq e)
  let low : Nat → Prop := fun p => ∀ a, a < p → x.getD p 0 < x.getD a 0
  let f : Nat → Nat := fun p => if low p then 2 * p else 2 * p + 1
  have flow : ∀ p, low p → f p = 2 * p := fun p h => by simp only [f, if_pos h]
  have fnlow : ∀ p, ¬ low p → f p = 2 * p + 1 := fun p h => by simp only [f, if_neg h]
  have fcases : ∀ p, f p = 2 * p ∨ f p = 2 * p + 1 := fun p => by
    by_cases h : low p
    · exact Or.inl (flow p h)
    · exact Or.inr (fnlow p h)
  apply emb_core x hx m f
  · intro a b hab hb
    rcases fcases a with h1 | h1 <;> rcases fcases b with h2 | h2 <;> omega
  · intro a ha
    rcases fcases a with h1 | h1 <;> omega
  · intro p q hpq hq
    by_cases hlq : low q
    · have h1 : x.getD q 0 < x.getD p 0 := hlq p hpq
      rw [flow q hlq, w1_even m q (by omega)]
      by_cases hlp : low p
      · rw [flow p hlp, w1_even m p (by omega)]; omega
      · rw [fnlow p hlp, w1_odd]; omega
    · have hlq' := hlq
      simp only [low] at hlq'
      push Not at hlq'
      obtain ⟨a, haq, ha⟩ := hlq'
      have e1 := hne a q (by omega) hq (by omega)
      have e2 := hne p q (by omega) hq (by omega)
      have h0 := hB q hq a p haq hpq
      simp only at h0
      have h1 : x.getD p 0 < x.getD q 0 := by omega
      rw [fnlow q hlq, w1_odd]
      by_cases hlp : low p
      · rw [flow p hlp, w1_even m p (by omega)]; omega
      · rw [fnlow p hlp, w1_odd]; omega

theorem emb_A (x : NSeq) (hx : IsPerm x) (m : Nat) (hm : x.length ≤ m)
    (hA : IsA (fun p => x.getD p 0) x.length) : Contains (C16Fam.wedge1 m) x := by
  have hne : ∀ p q, p < x.length → q < x.length → p ≠ q → x.getD p 0 ≠ x.getD q 0 :=
    fun p q hp hq hpq e => hpq (getD_inj x hx p q hp hq e)
  obtain ⟨L, hL⟩ : ∃ L, L = x.length - 1 := ⟨_, rfl⟩
  unfold IsA at hA
  rw [← hL] at hA
  let f : Nat → Nat := fun p =>
    if p = L then 2 * m else if x.getD p 0 < x.getD L 0 then 2 * p else 2 * p + 1
  have fL : f L = 2 * m := by simp only [f, if_true]
  have flow : ∀ p, p ≠ L → x.getD p 0 < x.getD L 0 → f p = 2 * p := fun p h h' => by
    simp only [f, if_neg h, if_pos h']
  have fhigh : ∀ p, p ≠ L → ¬ x.getD p 0 < x.getD L 0 → f p = 2 * p + 1 := fun p h h' => by
    simp only [f, if_neg h, if_neg h']
  have fcases : ∀ p, p ≠ L → f p = 2 * p ∨ f p = 2 * p + 1 := fun p hp => by
    by_cases h : x.getD p 0 < x.getD L 0
    · exact Or.inl (flow p hp h)
    · exact Or.inr (fhigh p hp h)
  apply emb_core x hx m f
  · intro a b hab hb
    have haL : a ≠ L := by omega
    by_cases hbL : b = L
    · rw [hbL, fL]; rcases fcases a haL with h1 | h1 <;> omega
    · rcases fcases a haL with h1 | h1 <;> rcases fcases b hbL with h2 | h2 <;> omega
  · intro a ha
    by_cases haL : a = L
    · rw [haL, fL]; omega
    · rcases fcases a haL with h1 | h1 <;> omega
  · intro p q hpq hq
    have hpL : p ≠ L := by omega
    by_cases hqL : q = L
    · rw [hqL, fL, w1_last]
      have e1 := hne p L (by omega) (by omega) hpL
      by_cases hp : x.getD p 0 < x.getD L 0
      · rw [flow p hpL hp, w1_even m p (by omega)]; omega
      · rw [fhigh p hpL hp, w1_odd]; omega
    · have e1 := hne p L (by omega) (by omega) hpL
      have e2 := hne q L (by omega) (by omega) hqL
      have e3 := hne p q (by omega) (by omega) (by omega)
      have h0 := hA p q hpq (by omega)
      simp only at h0
      by_cases hp : x.getD p 0 < x.getD L 0 <;> by_cases hq' : x.getD q 0 < x.getD L 0
      · rw [flow p hpL hp, flow q hqL hq', w1_even m p (by omega), w1_even m q (by omega)]; omega
      · rw [flow p hpL hp, fhigh q hqL hq', w1_even m p (by omega), w1_odd]; omega
      · rw [fhigh p hpL hp, flow q hqL hq', w1_even m q (by omega), w1_odd]; omega
      · rw [fhigh p hpL hp, fhigh q hqL hq', w1_odd, w1_odd]; omega

theorem wedge1_structure (x : NSeq) (hx : IsPerm x)
    (hav : ∀ τ ∈ Generated.c16_wedge1, ¬ Contains x τ) :
    IsA (fun p => x.getD p 0) x.length ∨ IsB (fun p => x.getD p 0) x.length :=
  structure_v _ _ (fun p q hp hq e => getD_inj x hx p q hp hq e) (av_of_avoids x hav)

theorem wedge1_closure (x : NSeq) (hx : IsPerm x)
    (hav : ∀ τ ∈ Generated.c16_wedge1, ¬ Contains x τ) (m : Nat) (hm : x.length ≤ m) :
    Contains (C16Fam.wedge1 m) x := by
  rcases wedge1_structure x hx hav with h | h
  · exact emb_A x hx m hm h
  · exact emb_B x hx m hm h

end C16Conv.W1
